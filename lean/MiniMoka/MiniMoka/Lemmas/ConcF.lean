/-
  Lemmas about `MiniMoka/ConcF.lean` (every map access of the application of an `Upsert` is
  its own step):
   * the steps of one operation executed back to back are `Sync.applyWrite`, hence every
     micro-step of `ConcM` is a path of `ConcF` and `ConcM ⊆ ConcF`;
   * the invariant of all reachable states (`FInv`).
-/
import MiniMoka.ConcF
import MiniMoka.Lemmas.ConcM
import MiniMoka.Lemmas.SyncExact

namespace MiniMoka
namespace ConcF

open Sync Sync.Nodes Sync.Counters ConcS ConcM

/-! ### one `Upsert`, step by step with nothing in between -/

inductive WPath (p : Params) (v : Variant) : SState × WPc → SState × Option WPc → Prop where
  | refl (s : SState) (pc : WPc) : WPath p v (s, pc) (s, some pc)
  | step {s s1 : SState} {pc pc1 : WPc} {r : SState × Option WPc} :
      wstep p v s pc = (s1, some pc1) → WPath p v (s1, pc1) r → WPath p v (s, pc) r
  | last {s s1 : SState} {pc : WPc} : wstep p v s pc = (s1, none) → WPath p v (s, pc) (s1, none)

theorem WPath.single {p : Params} {v : Variant} {s : SState} {pc : WPc}
    {r : SState × Option WPc} (h : wstep p v s pc = r) : WPath p v (s, pc) r := by
  obtain ⟨s1, o⟩ := r
  cases o with
  | none => exact WPath.last h
  | some pc1 => exact WPath.step h (WPath.refl _ _)

theorem WPath.trans {p : Params} {v : Variant} {a : SState × WPc} {b r : SState × Option WPc}
    (h1 : WPath p v a b) : ∀ {s1 : SState} {pc1 : WPc}, b = (s1, some pc1) →
      WPath p v (s1, pc1) r → WPath p v a r := by
  induction h1 with
  | refl s pc =>
    intro s1 pc1 e h2
    injection e with e1 e2
    injection e2 with e2
    subst e1; subst e2
    exact h2
  | step hm _ ih => intro s1 pc1 e h2; exact WPath.step hm (ih e h2)
  | last hm => intro s1 pc1 e _; injection e with _ e2; cases e2

/-- The admission scan, node by node, is `Sync.admitLoop`. -/
theorem wpath_scan (p : Params) (s : SState) (u : UOp) (nw cf : Nat) :
    ∀ (rest : List AoNode) (acc : Admission),
      WPath p .good (s, .scan u nw cf rest acc)
        (finishScan .good s u nw cf (admitLoop p s nw cf rest acc)) := by
  intro rest
  induction rest with
  | nil => intro acc; exact WPath.single rfl
  | cons n rest ih =>
    intro acc
    by_cases hc : acc.vw < nw ∧ ¬ cf < acc.vf
    · cases he : entryOfNode p s n.key n.info with
      | some ve =>
        have h1 : admitLoop p s nw cf (n :: rest) acc = admitLoop p s nw cf rest
            { acc with vw := acc.vw + (getInfo s ve.info).weight,
                       vf := acc.vf + s.sk.frequency n.hash,
                       victims := acc.victims ++ [n], retries := 0 } := by
          rw [admitLoop, if_pos hc, he]
        rw [h1]
        exact WPath.step (by simp only [wstep, if_pos hc, he]) (ih _)
      | none =>
        by_cases hr : acc.retries + 1 > Gen.MAX_CONSECUTIVE_RETRIES
        · have h1 : admitLoop p s nw cf (n :: rest) acc =
              { acc with skipped := acc.skipped ++ [n], retries := acc.retries + 1 } := by
            rw [admitLoop, if_pos hc, he]
            dsimp only
            rw [if_pos hr]
          rw [h1]
          exact WPath.single (by simp only [wstep, if_pos hc, he, if_pos hr])
        · have h1 : admitLoop p s nw cf (n :: rest) acc = admitLoop p s nw cf rest
              { acc with skipped := acc.skipped ++ [n], retries := acc.retries + 1 } := by
            rw [admitLoop, if_pos hc, he]
            dsimp only
            rw [if_neg hr]
          rw [h1]
          exact WPath.step (by simp only [wstep, if_pos hc, he, if_neg hr]) (ih _)
    · have h1 : admitLoop p s nw cf (n :: rest) acc = acc := by rw [admitLoop, if_neg hc]
      rw [h1]
      exact WPath.single (by simp only [wstep, if_neg hc])

/-- The eviction of the victims, one by one, then `handle_admit`, is the `Admitted` branch of
`handle_upsert`. -/
theorem wpath_victims (p : Params) (u : UOp) (nw : Nat) : ∀ (vs : List AoNode) (s : SState)
    (sk : List AoNode),
    WPath p .good (s, .victims u nw vs sk)
      (moveSkipped (removeVictims p vs s sk).2
        (handleAdmit p (removeVictims p vs s sk).1 u.key u.hash u.ve nw), none) := by
  intro vs
  induction vs with
  | nil => intro s sk; exact WPath.last rfl
  | cons n vs ih =>
    intro s sk
    cases hf : findAo s.prob n.id with
    | none =>
      have h1 : removeVictims p (n :: vs) s sk = removeVictims p vs (s.fail .useAfterFree) sk := by
        rw [removeVictims, hf]
      rw [h1]
      exact WPath.step (by simp only [wstep, hf]) (ih _ _)
    | some m =>
      cases he : entryOfNode p s n.key n.info with
      | some ve =>
        have h1 : removeVictims p (n :: vs) s sk =
            removeVictims p vs (handleRemove { s with map := AL.erase s.map n.key } ve) sk := by
          rw [removeVictims, hf]
          dsimp only
          rw [he]
        rw [h1]
        exact WPath.step (by simp only [wstep, hf, he]) (ih _ _)
      | none =>
        have h1 : removeVictims p (n :: vs) s sk = removeVictims p vs s (sk ++ [n]) := by
          rw [removeVictims, hf]
          dsimp only
          rw [he]
        rw [h1]
        exact WPath.step (by simp only [wstep, hf, he]) (ih _ _)

/-- The steps of one `Upsert`, executed back to back, are `Sync.handleUpsert`. -/
theorem wpath_upsert (p : Params) (s : SState) (u : UOp) :
    WPath p .good (s, .clearDirty u) (handleUpsert p s u.key u.hash u.ve u.oldW u.newW, none) := by
  unfold handleUpsert
  dsimp only
  have hcw : currentWeight p (withInfo s u.ve.info (fun i => { i with dirty := false })) u.key u.ve
      u.newW = currentWeight p s u.key u.ve u.newW := rfl
  refine WPath.step (pc1 := .readCurrent u) rfl (WPath.step (pc1 := .dispatch u _ _) rfl ?_)
  rw [hcw]
  generalize currentWeight p s u.key u.ve u.newW = nw
  generalize withInfo s u.ve.info (fun i => { i with dirty := false }) = s1
  by_cases c1 : (getInfo s1 u.ve.info).admitted = true
  · rw [if_pos c1]; exact WPath.last (by simp only [wstep, if_pos c1])
  · rw [if_neg c1]
    by_cases c2 : (!p.q.d7 && !isCurrentEntry s1 u.key u.ve) = true
    · rw [if_pos c2]; exact WPath.last (by simp only [wstep, if_neg c1, if_pos c2])
    · rw [if_neg c2]
      by_cases c3 : hasEnoughCapacity p nw s1 = true
      · rw [if_pos c3]; exact WPath.last (by simp only [wstep, if_neg c1, if_neg c2, if_pos c3])
      · rw [if_neg c3]
        by_cases c4 : tooBig p nw = true
        · rw [if_pos c4]
          exact WPath.last (by simp only [wstep, if_neg c1, if_neg c2, if_neg c3, if_pos c4])
        · rw [if_neg c4]
          refine WPath.step (s1 := s1) (pc1 := .scan u nw (s1.sk.frequency u.hash) s1.prob {})
            (by simp only [wstep, if_neg c1, if_neg c2, if_neg c3, if_neg c4]) ?_
          have hs := wpath_scan p s1 u nw (s1.sk.frequency u.hash) s1.prob {}
          unfold admitOrReject
          dsimp only
          generalize admitLoop p s1 nw (s1.sk.frequency u.hash) s1.prob {} = a at hs ⊢
          unfold finishScan at hs
          by_cases c5 : a.vw ≥ nw ∧ s1.sk.frequency u.hash > a.vf
          · rw [if_pos c5] at hs
            rw [if_pos c5]
            dsimp only at hs
            exact hs.trans rfl (wpath_victims p u nw a.victims s1 a.skipped)
          · rw [if_neg c5] at hs
            rw [if_neg c5]
            exact hs.trans rfl (WPath.last rfl)

/-! ### `ConcM` is contained in `ConcF` -/

/-- Micro-steps of one run of `ConcF` with nothing in between. -/
inductive FPath (p : Params) (v : Variant) (ex : Bool) :
    SState × Phase × Option WPc → SState × Option Phase × Option WPc → Prop where
  | refl (s : SState) (ph : Phase) (w : Option WPc) : FPath p v ex (s, ph, w) (s, some ph, w)
  | step {s s1 : SState} {ph ph1 : Phase} {w w1 : Option WPc}
      {r : SState × Option Phase × Option WPc} :
      fmicro p v ex s ph w = (s1, some ph1, w1) → FPath p v ex (s1, ph1, w1) r →
        FPath p v ex (s, ph, w) r
  | last {s s1 : SState} {ph : Phase} {w w1 : Option WPc} :
      fmicro p v ex s ph w = (s1, none, w1) → FPath p v ex (s, ph, w) (s1, none, w1)

theorem FPath.trans {p : Params} {v : Variant} {ex : Bool} {a : SState × Phase × Option WPc}
    {b r : SState × Option Phase × Option WPc} (h1 : FPath p v ex a b) :
    ∀ {s1 : SState} {ph1 : Phase} {w1 : Option WPc}, b = (s1, some ph1, w1) →
      FPath p v ex (s1, ph1, w1) r → FPath p v ex a r := by
  induction h1 with
  | refl s ph w =>
    intro s1 ph1 w1 e h2
    injection e with e1 e2
    injection e2 with e2 e3
    injection e2 with e2
    subst e1; subst e2; subst e3
    exact h2
  | step hm _ ih => intro s1 ph1 w1 e h2; exact FPath.step hm (ih e h2)
  | last hm => intro s1 ph1 w1 e _; injection e with _ e2; injection e2 with e2 _; cases e2

theorem fpath_of_wpath {p : Params} {v : Variant} {ex : Bool} {a : SState × WPc}
    {b : SState × Option WPc} (h : WPath p v a b) (ph : Phase) :
    FPath p v ex (a.1, ph, some a.2) (b.1, some ph, b.2) := by
  induction h with
  | refl s pc => exact FPath.refl _ _ _
  | step hm _ ih =>
    refine FPath.step ?_ ih
    simp only [fmicro, hm]
  | last hm =>
    refine FPath.step (ph1 := ph) (w1 := none) ?_ (FPath.refl _ _ _)
    simp only [fmicro, hm]

/-- Every micro-step of `ConcM` is a path of micro-steps of `ConcF`. -/
theorem fpath_of_micro (p : Params) (ex : Bool) (s : SState) (ph : Phase) :
    FPath p .good ex (s, ph, none) ((micro p ex s ph).1, (micro p ex s ph).2, none) := by
  have hsingle : fmicro p .good ex s ph none = ((micro p ex s ph).1, (micro p ex s ph).2, none) →
      FPath p .good ex (s, ph, none) ((micro p ex s ph).1, (micro p ex s ph).2, none) := by
    intro hm
    cases h2 : (micro p ex s ph).2 with
    | none => rw [h2] at hm; exact FPath.last hm
    | some ph1 => rw [h2] at hm; exact FPath.step hm (FPath.refl _ _ _)
  cases ph with
  | writes f n =>
    cases n with
    | zero => exact hsingle rfl
    | succ n =>
      cases hq : s.writeQ with
      | nil => exact hsingle (by simp only [fmicro, hq])
      | cons op rest =>
        cases op with
        | remove k ve => exact hsingle (by simp only [fmicro, hq])
        | upsert key hash ve oldW newW =>
          have hm : micro p ex s (.writes f (n + 1)) =
              (applyWrite p { s with writeQ := rest } (.upsert key hash ve oldW newW),
               some (.writes f n)) := by simp only [micro, hq]
          rw [hm]
          refine FPath.step (s1 := { s with writeQ := rest }) (ph1 := .writes f n)
            (w1 := some (.clearDirty ⟨key, hash, ve, oldW, newW⟩)) ?_ ?_
          · simp only [fmicro, hq, firstPc]
          · exact fpath_of_wpath (wpath_upsert p { s with writeQ := rest }
              ⟨key, hash, ve, oldW, newW⟩) (.writes f n)
  | reads f n => exact hsingle rfl
  | enable f => exact hsingle rfl
  | expireWo n => exact hsingle rfl
  | expireAo n => exact hsingle rfl
  | lru n wte ev => exact hsingle rfl
  | finish => exact hsingle rfl

theorem runEvs_append (p : Params) (v : Variant) (c : FState) (l1 l2 : List ConcM.Ev) :
    runEvs p v c (l1 ++ l2) = match runEvs p v c l1 with
      | some c' => runEvs p v c' l2
      | none => none := by
  induction l1 generalizing c with
  | nil => rfl
  | cons e l1 ih =>
    simp only [List.cons_append, runEvs]
    cases step p v c e with
    | none => rfl
    | some c' => exact ih c'

theorem runEvs_of_fpath {p : Params} {v : Variant} {ex : Bool} {a : SState × Phase × Option WPc}
    {b : SState × Option Phase × Option WPc} (h : FPath p v ex a b) (t : Tid)
    (pd : List (Tid × Pend)) :
    ∃ evs, runEvs p v ⟨a.1, pd, some ⟨t, ex, a.2.1, a.2.2⟩⟩ evs =
      some ⟨b.1, pd, b.2.1.map fun ph => ⟨t, ex, ph, b.2.2⟩⟩ := by
  induction h with
  | refl s ph w => exact ⟨[], rfl⟩
  | step hm _ ih =>
    obtain ⟨evs, he⟩ := ih
    refine ⟨.mStep t :: evs, ?_⟩
    simp only [runEvs, step, if_true, hm, Option.map_some]
    exact he
  | last hm =>
    refine ⟨[.mStep t], ?_⟩
    simp only [runEvs, step, if_true, hm, Option.map_none]

/-- The embedding of the states of `ConcM`: no `Upsert` half applied. -/
def embedM (c : MState) : FState :=
  ⟨c.s, c.pending, c.run.map fun r => ⟨r.tid, r.explicit, r.phase, none⟩⟩

/-- Every step of `ConcM` is a path of `ConcF`. -/
theorem path_of_concM_step (p : Params) {c c' : MState} (e : ConcM.Ev)
    (hs : ConcM.step p c e = some c') :
    ∃ evs, runEvs p .good (embedM c) evs = some (embedM c') := by
  cases e with
  | other e0 =>
    refine ⟨[.other e0], ?_⟩
    simp only [ConcM.step] at hs
    by_cases hpl : isPlain e0 = true
    · rw [if_pos hpl] at hs
      cases h0 : ConcS.step p ⟨c.s, c.pending⟩ e0 with
      | none => rw [h0] at hs; cases hs
      | some c1 =>
        rw [h0] at hs
        rw [← Option.some.inj hs]
        simp only [runEvs, step, if_pos hpl, embedM, h0, Option.map_some]
    · rw [if_neg hpl] at hs; cases hs
  | mBegin t ex =>
    refine ⟨[.mBegin t ex], ?_⟩
    simp only [ConcM.step] at hs
    cases hr : c.run with
    | some r =>
      rw [hr] at hs
      dsimp only at hs
      cases ex with
      | true => simp only [if_true] at hs; cases hs
      | false =>
        simp only [Bool.false_eq_true, if_false] at hs
        by_cases hrun : c.s.running = true
        · rw [if_pos hrun] at hs
          rw [← Option.some.inj hs]
          simp only [runEvs, step, embedM, hr, Option.map_some, Bool.false_eq_true, if_false,
            if_pos hrun]
        · rw [if_neg hrun] at hs; cases hs
    | none =>
      rw [hr] at hs
      dsimp only at hs
      rw [← Option.some.inj hs]
      simp only [runEvs, step, embedM, hr, Option.map_none, Option.map_some]
  | mStep t =>
    simp only [ConcM.step] at hs
    cases hr : c.run with
    | none => rw [hr] at hs; cases hs
    | some r =>
      rw [hr] at hs
      dsimp only at hs
      by_cases ht : r.tid = t
      · rw [if_pos ht] at hs
        rw [← Option.some.inj hs]
        obtain ⟨evs, he⟩ := runEvs_of_fpath (fpath_of_micro p r.explicit c.s r.phase) t c.pending
        refine ⟨evs, ?_⟩
        simp only [embedM, hr, Option.map_some, ht]
        rw [he]
        cases (micro p r.explicit c.s r.phase).2 <;> rfl
      · rw [if_neg ht] at hs; cases hs

theorem reach_of_runEvs {p : Params} : ∀ (evs : List ConcM.Ev) (c c' : FState), Reach p c →
    runEvs p .good c evs = some c' → Reach p c' := by
  intro evs
  induction evs with
  | nil => intro c c' hr h; simp only [runEvs] at h; rw [← Option.some.inj h]; exact hr
  | cons e rest ih =>
    intro c c' hr h
    simp only [runEvs] at h
    cases hs : step p .good c e with
    | none => rw [hs] at h; cases h
    | some c1 => rw [hs] at h; exact ih c1 c' (Reach.step e hr hs) h

/-- Every state reachable in `ConcM` is reachable in `ConcF`. -/
theorem reach_embedM {p : Params} {c : MState} (h : ConcM.Reach p c) : Reach p (embedM c) := by
  induction h with
  | init => exact Reach.init
  | step e _ hs ih =>
    obtain ⟨evs, he⟩ := path_of_concM_step p e hs
    exact reach_of_runEvs evs _ _ ih he

/-! ### the counters invariant when other threads act between the steps of one `Upsert`

The lemmas of `Lemmas/SyncCounters.lean` about `handle_upsert` take their side conditions (the
entry is the map's current one, the weight is the weigher applied to the current value) from
the *same* state.  With other threads acting between the lookup and the bookkeeping, the side
conditions are weaker: a newer value of the key has its own pending `Upsert`; an entry that
was invalidated meanwhile has a pending `Remove`. -/

/-- `CInv.step` with the three clauses that depend on the step given directly. -/
theorem _root_.MiniMoka.Sync.Counters.CInv.step' {p : Params} {s s' : SState} {Q : List WOp} (h : CInv p s Q)
    (hmap : ∀ k ve, AL.get? s'.map k = some ve → AL.get? s.map k = some ve)
    (hkey : ∀ j, (getInfo s' j).key = (getInfo s j).key)
    (hnext : s.nextId ≤ s'.nextId)
    (hprob : ∀ m, m ∈ s'.prob → m ∈ s.prob ∨ ((getInfo s m.info).key = m.key ∧
      ∀ k c, AL.get? s.map k = some c → c.info = m.info → m.kobj = c.slot))
    (hwo : ∀ m, m ∈ s'.wo → m ∈ s.wo ∨
      ∀ k c, AL.get? s.map k = some c → c.info = m.info → m.kobj = c.slot)
    (hnodeCur : ∀ n, n ∈ s'.prob →
      Cur s' n.info ∨ ∃ k ve, WOp.remove k ve ∈ Q ∧ ve.info = n.info)
    (hcur : ∀ k ve, AL.get? s'.map k = some ve → (∃ h o w, WOp.upsert k h ve o w ∈ Q) ∨
      ((getInfo s' ve.info).admitted = true ∧ (getInfo s' ve.info).weight = p.weigh k ve.val))
    (hdirty : ∀ k ve, AL.get? s'.map k = some ve → (getInfo s' ve.info).dirty = true →
      ∃ k' h v o w, WOp.upsert k' h v o w ∈ Q ∧ v.info = ve.info)
    (hws : s'.cws = wsumOf s') : CInv p s' Q where
  mapKey k ve hk := by rw [hkey]; exact h.mapKey k ve (hmap k ve hk)
  mapId k ve hk :=
    ⟨Nat.lt_of_lt_of_le (h.mapId k ve (hmap k ve hk)).1 hnext,
     Nat.lt_of_lt_of_le (h.mapId k ve (hmap k ve hk)).2 hnext⟩
  idInj k k' ve ve' hk hk' := h.idInj k k' ve ve' (hmap k ve hk) (hmap k' ve' hk')
  slotInj k k' ve ve' hk hk' := h.slotInj k k' ve ve' (hmap k ve hk) (hmap k' ve' hk')
  nodeKey n hn := by
    rw [hkey]
    rcases hprob n hn with h1 | h1
    · exact h.nodeKey n h1
    · exact h1.1
  nodeCur := hnodeCur
  cur := hcur
  remDead k ve hq := fun ⟨k', c, hc, hi⟩ => h.remDead k ve hq ⟨k', c, hmap k' c hc, hi⟩
  remBound k ve hq := Nat.lt_of_lt_of_le (h.remBound k ve hq) hnext
  upKey k hh ve o w hq := by
    rw [hkey]
    exact ⟨(h.upKey k hh ve o w hq).1, Nat.lt_of_lt_of_le (h.upKey k hh ve o w hq).2 hnext⟩
  upSlot k hh ve o w hq c hc := h.upSlot k hh ve o w hq c (hmap k c hc)
  probSlot n hn k c hc hi := by
    rcases hprob n hn with h1 | h1
    · exact h.probSlot n h1 k c (hmap k c hc) hi
    · exact h1.2 k c (hmap k c hc) hi
  woSlot n hn k c hc hi := by
    rcases hwo n hn with h1 | h1
    · exact h.woSlot n h1 k c (hmap k c hc) hi
    · exact h1 k c (hmap k c hc) hi
  dirtyQ := hdirty
  wsum := hws

/-- The update branch, when a newer value of the key may have been put meanwhile. -/
theorem applyUpdate_cinv' {p : Params} (hq : NoQuirks p) {s : SState} {Q : List WOp}
    (h : CInv p s Q) (hs : Safe s) (ve : VE) (oldW nw : Nat)
    (hadm : (getInfo s ve.info).admitted = true)
    (hw : ∀ k c, AL.get? s.map k = some c → c.info = ve.info →
      nw = p.weigh k c.val ∨ ∃ hh o w, WOp.upsert k hh c o w ∈ Q) :
    CInv p (applyUpdate p s ve oldW nw) Q ∧
      (applyUpdate p s ve oldW nw).map = s.map ∧
      (getInfo (applyUpdate p s ve oldW nw) ve.info).admitted = true ∧
      (getInfo (applyUpdate p s ve oldW nw) ve.info).weight = nw ∧
      (∀ j, (getInfo (applyUpdate p s ve oldW nw) j).dirty = true → (getInfo s j).dirty = true) := by
  have hd8 : p.q.d8 = false := by rw [hq]
  unfold applyUpdate
  simp only [hd8, Bool.false_eq_true, if_false]
  rw [subCounters_eq (Nat.zero_le _)]
  generalize hs3 : withInfo (addCounters
      ({ s with cec := s.cec - 0, cws := s.cws - (getInfo s ve.info).weight } : SState) 0 nw)
      ve.info (fun i => { i with weight := nw }) = s3
  have hg3 : ∀ j, getInfo s3 j =
      if ve.info = j then { getInfo s ve.info with weight := nw } else getInfo s j := by
    intro j
    rw [← hs3]
    simp only [getInfo_withInfo, getInfo_addCounters, getInfo_set_cec_cws]
  have hm3 : s3.map = s.map := by rw [← hs3]; rfl
  have hn3 : s3.nextId = s.nextId := by rw [← hs3]; rfl
  have hp3 : s3.prob = s.prob := by rw [← hs3]; rfl
  have hw3 : s3.wo = s.wo := by rw [← hs3]; rfl
  have hc3 : s3.cws = s.cws - (getInfo s ve.info).weight + nw := by rw [← hs3]; rfl
  have hO : ∀ j, j ≠ ve.info → getInfo s3 j = getInfo s j := by
    intro j hj; rw [hg3, if_neg (fun e => hj e.symm)]
  have hI : getInfo s3 ve.info = { getInfo s ve.info with weight := nw } := by
    rw [hg3, if_pos rfl]
  have hdir : ∀ j, (getInfo s3 j).dirty = (getInfo s j).dirty := by
    intro j
    by_cases e : j = ve.info
    · rw [e, hI]
    · rw [hO j e]
  have hc : CInv p s3 Q := by
    refine h.step' (fun k c hc => by rw [hm3] at hc; exact hc) ?_ (by rw [hn3]; exact Nat.le_refl _)
      (fun m hm => Or.inl (by rw [hp3] at hm; exact hm))
      (fun m hm => Or.inl (by rw [hw3] at hm; exact hm)) ?_ ?_ ?_ ?_
    · intro j
      by_cases e : j = ve.info
      · rw [e, hI]
      · rw [hO j e]
    · intro n hn
      rw [hp3] at hn
      rcases h.nodeCur n hn with h1 | h1
      · exact Or.inl (h1.same hm3)
      · exact Or.inr h1
    · intro k c hc
      rw [hm3] at hc
      rcases h.cur k c hc with h1 | h1
      · exact Or.inl h1
      · by_cases e : c.info = ve.info
        · rcases hw k c hc e with h2 | h2
          · refine Or.inr ?_
            rw [e, hI]
            rw [e] at h1
            exact ⟨h1.1, h2⟩
          · exact Or.inl h2
        · exact Or.inr (by rw [hO _ e]; exact h1)
    · intro k c hc hd
      rw [hm3] at hc
      rw [hdir] at hd
      exact h.dirtyQ k c hc hd
    · obtain ⟨id, hao⟩ := hs.adm_ao hadm
      obtain ⟨n, hn, _, hninfo⟩ := hs.aoNode _ _ hao
      rw [hc3, h.wsum]
      unfold wsumOf
      rw [hp3, sum_split hs.toNodesCore hn (fun j => (getInfo s3 j).weight),
        sum_split hs.toNodesCore hn (fun j => (getInfo s j).weight),
        sum_erase_congr hs.toNodesCore hn (fun j => (getInfo s j).weight)
          (fun j => (getInfo s3 j).weight) (fun j hj => by rw [hO j (by rw [← hninfo]; exact hj)]),
        hninfo, hI]
      simp only
      omega
  have hsame : Same s3 (moveToBackWoE (moveToBackAoE s3 ve.info) ve.info) :=
    (moveToBackAoE_same _ _).trans (moveToBackWoE_same _ _)
  refine ⟨hc.same hsame, hsame.map.trans hm3, ?_, ?_, ?_⟩
  · rw [hsame.adm, hI]; exact hadm
  · rw [hsame.weight, hI]
  · intro j hd
    have := hsame.dirty _ hd
    rw [hdir] at this; exact this

/-- `handle_admit` of an info that is the map's current one for `key`, or that has left the map
since it was looked up and awaits a `Remove`. -/
theorem handleAdmit_cinv' {p : Params} (hq : NoQuirks p) {s : SState} {Q : List WOp}
    (h : CInv p s Q) (hs : Safe s) (key : Nat) (hash : UInt64) (ve : VE) (w : Nat)
    (hkeyi : (getInfo s ve.info).key = key)
    (hna : (getInfo s ve.info).admitted = false)
    (hcur : (∃ c, AL.get? s.map key = some c ∧ c.info = ve.info ∧ c.slot = ve.slot) ∨
      ((∀ c, AL.get? s.map key = some c → c.info ≠ ve.info) ∧
        ∃ k' v, WOp.remove k' v ∈ Q ∧ v.info = ve.info)) :
    CInv p (handleAdmit p s key hash ve w) Q ∧
      (handleAdmit p s key hash ve w).map = s.map ∧
      (getInfo (handleAdmit p s key hash ve w) ve.info).admitted = true ∧
      (getInfo (handleAdmit p s key hash ve w) ve.info).weight = w ∧
      (∀ j, (getInfo (handleAdmit p s key hash ve w) j).dirty = (getInfo s j).dirty) := by
  have hd8 : p.q.d8 = false := by rw [hq]
  obtain ⟨r1, r2, r3, r4, r5, r6, r7, ⟨node, n1, n2, n3, n4⟩, r8, r9⟩ :=
    handleAdmit_spec hd8 s key hash ve w
  have hdir : ∀ j, (getInfo (handleAdmit p s key hash ve w) j).dirty = (getInfo s j).dirty := by
    intro j
    by_cases e : j = ve.info
    · rw [e, r7]
    · rw [r3 j e]
  refine ⟨?_, r1, r6, r5, hdir⟩
  have hatkey : ∀ k c', AL.get? s.map k = some c' → c'.info = ve.info → k = key := by
    intro k c' hc' hi
    rw [← h.mapKey k c' hc', hi, hkeyi]
  have hslot : ∀ k c', AL.get? s.map k = some c' → c'.info = ve.info → c'.slot = ve.slot := by
    intro k c' hc' hi
    have hk := hatkey k c' hc' hi
    subst hk
    rcases hcur with ⟨c, g1, g2, g3⟩ | ⟨g1, _⟩
    · rw [g1] at hc'
      rw [← Option.some.inj hc']; exact g3
    · exact absurd hi (g1 c' hc')
  have hne : ∀ m, m ∈ s.prob → m.info ≠ ve.info := by
    intro m hm e
    have := hs.probAdm hm
    rw [e, hna] at this; cases this
  refine h.step' (fun k c' hc' => by rw [r1] at hc'; exact hc') ?_ r2 ?_ ?_ ?_ ?_ ?_ ?_
  · intro j
    by_cases e : j = ve.info
    · rw [e, r4]
    · rw [r3 j e]
  · intro m hm
    rw [n4] at hm
    rcases List.mem_append.mp hm with h1 | h1
    · exact Or.inl h1
    · simp only [List.mem_singleton] at h1
      refine Or.inr ⟨by rw [h1, n2, n1]; exact hkeyi, ?_⟩
      intro k c' hc' hi
      rw [h1, n2] at hi
      rw [h1, n3, hslot k c' hc' hi]
  · intro m hm
    rcases r8 m hm with h1 | ⟨h1, h2⟩
    · exact Or.inl h1
    · refine Or.inr ?_
      intro k c' hc' hi
      rw [h1] at hi
      rw [h2, hslot k c' hc' hi]
  · intro n hn
    rw [n4] at hn
    rcases List.mem_append.mp hn with h1 | h1
    · rcases h.nodeCur n h1 with h2 | h2
      · exact Or.inl (h2.same r1)
      · exact Or.inr h2
    · simp only [List.mem_singleton] at h1
      rw [h1, n2]
      rcases hcur with ⟨c, g1, g2, _⟩ | ⟨_, g2⟩
      · exact Or.inl ⟨key, c, by rw [r1]; exact g1, g2⟩
      · exact Or.inr g2
  · intro k c' hc'
    rw [r1] at hc'
    rcases h.cur k c' hc' with h1 | h1
    · exact Or.inl h1
    · have : c'.info ≠ ve.info := by
        intro e
        rw [e, hna] at h1; cases h1.1
      exact Or.inr (by rw [r3 _ this]; exact h1)
  · intro k c' hc' hd
    rw [r1] at hc'
    rw [hdir] at hd
    exact h.dirtyQ k c' hc' hd
  · rw [r9, h.wsum]
    unfold wsumOf
    rw [n4, List.map_append, List.sum_append]
    simp only [List.map_cons, List.map_nil, List.sum_cons, List.sum_nil, Nat.add_zero]
    rw [n2, r5]
    have : s.prob.map (fun n => (getInfo (handleAdmit p s key hash ve w) n.info).weight) =
        s.prob.map (fun n => (getInfo s n.info).weight) :=
      List.map_congr_left (fun m hm => by rw [r3 _ (hne m hm)])
    rw [this]

/-- The queue loses the `Upsert` that has just been applied, when other threads may have acted
meanwhile: its own value entry, if still the map's, awaits another `Upsert` or is admitted with
the right weight; if the info is dirty (again), another `Upsert` of the info is pending. -/
theorem _root_.MiniMoka.Sync.Counters.CInv.dropUpsert' {p : Params} {s : SState} {Q : List WOp} {key : Nat} {hash : UInt64}
    {ve : VE} {oldW newW : Nat} (h : CInv p s (WOp.upsert key hash ve oldW newW :: Q))
    (hadm : AL.get? s.map key = some ve → (∃ hh o w, WOp.upsert key hh ve o w ∈ Q) ∨
      ((getInfo s ve.info).admitted = true ∧ (getInfo s ve.info).weight = p.weigh key ve.val))
    (hnd : (getInfo s ve.info).dirty = true →
      ∃ k' hh v o w, WOp.upsert k' hh v o w ∈ Q ∧ v.info = ve.info) :
    CInv p s Q where
  mapKey := h.mapKey
  mapId := h.mapId
  idInj := h.idInj
  slotInj := h.slotInj
  nodeKey := h.nodeKey
  nodeCur n hn := by
    rcases h.nodeCur n hn with h1 | ⟨k, v, hq, hi⟩
    · exact Or.inl h1
    · rcases List.mem_cons.mp hq with e | hq
      · cases e
      · exact Or.inr ⟨k, v, hq, hi⟩
  cur k c hk := by
    rcases h.cur k c hk with ⟨hh, o, w, hq⟩ | h1
    · rcases List.mem_cons.mp hq with e | hq
      · injection e with e1 _ e3
        subst e1; subst e3
        exact hadm hk
      · exact Or.inl ⟨hh, o, w, hq⟩
    · exact Or.inr h1
  remDead k v hq := h.remDead k v (List.mem_cons_of_mem _ hq)
  remBound k v hq := h.remBound k v (List.mem_cons_of_mem _ hq)
  upKey k hh v o w hq := h.upKey k hh v o w (List.mem_cons_of_mem _ hq)
  upSlot k hh v o w hq := h.upSlot k hh v o w (List.mem_cons_of_mem _ hq)
  probSlot := h.probSlot
  woSlot := h.woSlot
  dirtyQ k c hk hd := by
    obtain ⟨k', hh, v, o, w, hq, hi⟩ := h.dirtyQ k c hk hd
    rcases List.mem_cons.mp hq with e | hq
    · injection e with _ _ e3
      subst e3
      rw [← hi] at hd
      obtain ⟨k2, h2, v2, o2, w2, hq2, hi2⟩ := hnd hd
      exact ⟨k2, h2, v2, o2, w2, hq2, hi2.trans hi⟩
    · exact ⟨k', hh, v, o, w, hq, hi⟩
  wsum := h.wsum

/-! ### what a step of another thread does -/

/-- The effect of a plain step of another thread on the map, the infos and the logical queue
(`Q`, `Q'`: physical write queue ++ write operations held, before and after). -/
inductive MapEff (s s' : SState) (Q Q' : List WOp) : Prop where
  | same : s'.map = s.map → s'.infos = s.infos → s'.nextId = s.nextId →
      (∀ op, op ∈ Q' ↔ op ∈ Q) → MapEff s s' Q Q'
  | put (k : Nat) (c : VE) (hh : UInt64) (o w : Nat) :
      s'.map = AL.put s.map k c →
      (∀ op, op ∈ Q' ↔ op ∈ Q ∨ op = WOp.upsert k hh c o w) →
      s.nextId ≤ c.id → c.id < s'.nextId → s.nextId ≤ s'.nextId →
      ((∃ old, AL.get? s.map k = some old ∧ c.info = old.info) ∨
        (AL.get? s.map k = none ∧ c.info = s.nextId)) →
      (∀ j, j < s.nextId → j ≠ c.info → getInfo s' j = getInfo s j) →
      (∀ j, j < s.nextId → (getInfo s' j).admitted = (getInfo s j).admitted) →
      MapEff s s' Q Q'
  | erase (k : Nat) (old : VE) :
      AL.get? s.map k = some old → s'.map = AL.erase s.map k → s'.infos = s.infos →
      s'.nextId = s.nextId → (∀ op, op ∈ Q' ↔ op ∈ Q ∨ op = WOp.remove k old) →
      MapEff s s' Q Q'

theorem plain_step_eff (p : Params) {s : SState} {pd : List (Tid × Pend)}
    (htid : (pd.map (·.1)).Nodup) (e : ConcS.Ev) (hpl : isPlain e = true) {c' : CState}
    (hs : ConcS.step p ⟨s, pd⟩ e = some c') :
    c'.s.prob = s.prob ∧
    MapEff s c'.s (s.writeQ ++ pendWrites pd) (c'.s.writeQ ++ pendWrites c'.pending) := by
  cases e with
  | insMap t k v =>
    simp only [ConcS.step] at hs
    cases hp : pendOf pd t with
    | some x => rw [hp] at hs; cases hs
    | none =>
      rw [hp] at hs
      rw [← Option.some.inj hs]
      dsimp only
      unfold insertMap
      dsimp only
      cases hg : AL.get? s.map k with
      | none =>
        dsimp only
        refine ⟨rfl, MapEff.put k _ (p.hash k) 0 (p.weigh k v) rfl ?_ (Nat.le_succ _)
          (by show s.nextId + 1 < s.nextId + 2; omega) (Nat.le_add_right _ 2)
          (Or.inr ⟨hg, rfl⟩) ?_ ?_⟩
        · intro op
          rw [pendWrites_append_write]
          simp only [List.mem_append, List.mem_singleton, or_assoc]
        · intro j hj hne
          have e : ¬ s.nextId = j := fun e => Nat.lt_irrefl _ (e ▸ hj)
          simp only [getInfo, AL.get?_put, if_neg e]
        · intro j hj
          have e : ¬ s.nextId = j := fun e => Nat.lt_irrefl _ (e ▸ hj)
          simp only [getInfo, AL.get?_put, if_neg e]
      | some old =>
        dsimp only
        refine ⟨rfl, MapEff.put k _ (p.hash k) (getInfo s old.info).weight (p.weigh k v) rfl ?_
          (Nat.le_refl _) (Nat.lt_succ_self _) (Nat.le_succ _) (Or.inl ⟨old, hg, rfl⟩) ?_ ?_⟩
        · intro op
          rw [pendWrites_append_write]
          simp only [List.mem_append, List.mem_singleton, or_assoc]
          rfl
        · intro j _ hne
          show getInfo (refreshInfo p s old.info s.now (p.weigh k v)) j = getInfo s j
          unfold refreshInfo
          rw [getInfo_withInfo, if_neg (fun e => hne e.symm)]
        · intro j _
          show (getInfo (refreshInfo p s old.info s.now (p.weigh k v)) j).admitted = _
          unfold refreshInfo
          rw [getInfo_withInfo]
          by_cases e : old.info = j
          · rw [if_pos e, e]
          · rw [if_neg e]
  | invMap t k =>
    simp only [ConcS.step] at hs
    cases hp : pendOf pd t with
    | some x => rw [hp] at hs; cases hs
    | none =>
      rw [hp] at hs
      dsimp only at hs
      unfold invalidateMap at hs
      cases hg : AL.get? s.map k with
      | none =>
        rw [hg] at hs
        dsimp only at hs
        rw [← Option.some.inj hs]
        exact ⟨rfl, MapEff.same rfl rfl rfl (fun _ => Iff.rfl)⟩
      | some old =>
        rw [hg] at hs
        dsimp only at hs
        rw [← Option.some.inj hs]
        refine ⟨rfl, MapEff.erase k old hg rfl rfl rfl ?_⟩
        intro op
        show op ∈ s.writeQ ++ pendWrites (pd ++ [(t, Pend.write (WOp.remove k old))]) ↔ _
        rw [pendWrites_append_write]
        simp only [List.mem_append, List.mem_singleton, or_assoc]
  | getMap t k =>
    simp only [ConcS.step] at hs
    cases hp : pendOf pd t with
    | some x => rw [hp] at hs; cases hs
    | none =>
      rw [hp] at hs
      rw [← Option.some.inj hs]
      refine ⟨rfl, MapEff.same rfl rfl rfl ?_⟩
      intro op
      show op ∈ s.writeQ ++ pendWrites (pd ++ [(t, Pend.read (lookup p s k).1)]) ↔ _
      rw [pendWrites_append_read]
  | maint t => cases hpl
  | sync t => cases hpl
  | enq t =>
    simp only [ConcS.step] at hs
    cases hp : pendOf pd t with
    | none => rw [hp] at hs; cases hs
    | some x =>
      rw [hp] at hs
      have hmem := mem_of_pendOf htid hp
      cases x with
      | write op =>
        dsimp only at hs
        by_cases hl : s.writeQ.length < Gen.WRITE_LOG_SIZE
        · rw [if_pos hl] at hs
          rw [← Option.some.inj hs]
          refine ⟨rfl, MapEff.same rfl rfl rfl ?_⟩
          intro o
          show o ∈ (s.writeQ ++ [op]) ++ pendWrites (dropPend pd t) ↔ _
          simp only [List.mem_append, List.mem_singleton, mem_pendWrites]
          constructor
          · rintro ((h1 | h1) | ⟨t', h1⟩)
            · exact Or.inl h1
            · exact Or.inr ⟨t, by rw [h1]; exact (hmem _).mpr (Or.inl rfl)⟩
            · exact Or.inr ⟨t', (hmem _).mpr (Or.inr h1)⟩
          · rintro (h1 | ⟨t', h1⟩)
            · exact Or.inl (Or.inl h1)
            · rcases (hmem _).mp h1 with e' | h2
              · injection e' with _ e2
                injection e2 with e3
                exact Or.inl (Or.inr e3)
              · exact Or.inr ⟨t', h2⟩
        · rw [if_neg hl] at hs; cases hs
      | read op =>
        dsimp only at hs
        have hpw : ∀ o, o ∈ s.writeQ ++ pendWrites (dropPend pd t) ↔
            o ∈ s.writeQ ++ pendWrites pd := by
          intro o
          simp only [List.mem_append, mem_pendWrites]
          constructor
          · rintro (h1 | ⟨t', h1⟩)
            · exact Or.inl h1
            · exact Or.inr ⟨t', (hmem _).mpr (Or.inr h1)⟩
          · rintro (h1 | ⟨t', h1⟩)
            · exact Or.inl h1
            · rcases (hmem _).mp h1 with e' | h2
              · injection e' with _ e2
                cases e2
              · exact Or.inr ⟨t', h2⟩
        split at hs
        · rw [← Option.some.inj hs]; exact ⟨rfl, MapEff.same rfl rfl rfl hpw⟩
        · rw [← Option.some.inj hs]; exact ⟨rfl, MapEff.same rfl rfl rfl hpw⟩
  | tick d =>
    simp only [ConcS.step] at hs
    rw [← Option.some.inj hs]
    exact ⟨rfl, MapEff.same rfl rfl rfl (fun _ => Iff.rfl)⟩
  | invAll t =>
    simp only [ConcS.step] at hs
    rw [← Option.some.inj hs]
    exact ⟨rfl, MapEff.same rfl rfl rfl (fun _ => Iff.rfl)⟩

/-! ### identities of queued value entries -/

/-- Every pending `Upsert` carries a value entry whose identity has been allocated, and a map
entry with that identity is that very value entry. -/
def QIds (s : SState) (Q : List WOp) : Prop :=
  ∀ k h ve o w, WOp.upsert k h ve o w ∈ Q →
    ve.id < s.nextId ∧ ∀ k' c, AL.get? s.map k' = some c → c.id = ve.id → c = ve

theorem QIds.mono {s s' : SState} {Q Q' : List WOp} (h : QIds s Q)
    (hmap : ∀ k c, AL.get? s'.map k = some c → AL.get? s.map k = some c)
    (hn : s.nextId ≤ s'.nextId)
    (hq : ∀ k h ve o w, WOp.upsert k h ve o w ∈ Q' → WOp.upsert k h ve o w ∈ Q) :
    QIds s' Q' := by
  intro k hh ve o w hm
  obtain ⟨a1, a2⟩ := h k hh ve o w (hq _ _ _ _ _ hm)
  exact ⟨Nat.lt_of_lt_of_le a1 hn, fun k' c hc => a2 k' c (hmap k' c hc)⟩

theorem qids_eff {s s' : SState} {Q Q' ex : List WOp} (h : QIds s (ex ++ Q))
    (hkn : (AL.keys s.map).Nodup)
    (hid : ∀ k c, AL.get? s.map k = some c → c.id < s.nextId)
    (heff : MapEff s s' Q Q') : QIds s' (ex ++ Q') := by
  cases heff with
  | same hm hi hn hq =>
    refine h.mono (fun k c hc => by rw [hm] at hc; exact hc) (by rw [hn]; exact Nat.le_refl _) ?_
    intro k0 h0 ve o w hop
    rcases List.mem_append.mp hop with h1 | h1
    · exact List.mem_append_left _ h1
    · exact List.mem_append_right _ ((hq _).mp h1)
  | put k c hh o w hm hq h1 h2 h3 _ _ _ =>
    intro k0 h0 ve o0 w0 hmem
    have hget : ∀ k' c', AL.get? s'.map k' = some c' →
        (k' = k ∧ c' = c) ∨ AL.get? s.map k' = some c' := by
      intro k' c' hc'
      rw [hm, AL.get?_put] at hc'
      by_cases e : k = k'
      · rw [if_pos e] at hc'; exact Or.inl ⟨e.symm, (Option.some.inj hc').symm⟩
      · rw [if_neg e] at hc'; exact Or.inr hc'
    have hold : WOp.upsert k0 h0 ve o0 w0 ∈ ex ++ Q ∨
        WOp.upsert k0 h0 ve o0 w0 = WOp.upsert k hh c o w := by
      rcases List.mem_append.mp hmem with a | a
      · exact Or.inl (List.mem_append_left _ a)
      · rcases (hq _).mp a with a | a
        · exact Or.inl (List.mem_append_right _ a)
        · exact Or.inr a
    rcases hold with a | a
    · obtain ⟨b1, b2⟩ := h k0 h0 ve o0 w0 a
      refine ⟨Nat.lt_of_lt_of_le b1 h3, ?_⟩
      intro k' c' hc' hid'
      rcases hget k' c' hc' with ⟨_, e2⟩ | g
      · exfalso
        rw [e2] at hid'
        rw [← hid'] at b1
        exact Nat.lt_irrefl _ (Nat.lt_of_lt_of_le b1 h1)
      · exact b2 k' c' g hid'
    · injection a with _ _ e3 _ _
      rw [e3]
      refine ⟨h2, ?_⟩
      intro k' c' hc' hid'
      rcases hget k' c' hc' with ⟨_, e2⟩ | g
      · exact e2
      · exfalso
        have := hid k' c' g
        rw [hid'] at this
        exact Nat.lt_irrefl _ (Nat.lt_of_lt_of_le this h1)
  | erase k old hg hm hi hn hq =>
    refine h.mono ?_ (by rw [hn]; exact Nat.le_refl _) ?_
    · intro k' c hc
      rw [hm, AL.get?_erase k k' hkn] at hc
      by_cases e : k = k'
      · simp [e] at hc
      · rw [if_neg e] at hc; exact hc
    · intro k0 h0 ve o w hop
      rcases List.mem_append.mp hop with h1 | h1
      · exact List.mem_append_left _ h1
      · rcases (hq _).mp h1 with h2 | h2
        · exact List.mem_append_right _ h2
        · cases h2

/-! ### what the run knows about the entry of the `Upsert` it is applying -/

/-- The queued operation a program counter belongs to. -/
def wop (u : UOp) : WOp := .upsert u.key u.hash u.ve u.oldW u.newW

/-- After `set_dirty(false)`: if the info is dirty (again), another thread has updated the key
since, and that update's `Upsert` is pending (`Qr`: queued or held, the one being applied
excluded). -/
def WD (s : SState) (Qr : List WOp) (u : UOp) : Prop :=
  (getInfo s u.ve.info).dirty = true →
    ∃ k' h v o w, WOp.upsert k' h v o w ∈ Qr ∧ v.info = u.ve.info

/-- After the lookup of the current entry: `nw` is the weigher applied to the value of the
entry of this info the map holds under the key, unless that entry is newer than the lookup,
in which case its own `Upsert` is pending; an entry that was current at the lookup is still in
the map or awaits a `Remove`; one that was not current never becomes current. -/
structure WF (p : Params) (s : SState) (Qr : List WOp) (u : UOp) (nw : Nat) (cur : Bool) :
    Prop where
  dirty : WD s Qr u
  wcur : ∀ c, AL.get? s.map u.key = some c → c.info = u.ve.info →
    nw = p.weigh u.key c.val ∨ ∃ h o w, WOp.upsert u.key h c o w ∈ Qr
  gone : cur = true → (∃ c, AL.get? s.map u.key = some c ∧ c.info = u.ve.info) ∨
    ∃ k' v, WOp.remove k' v ∈ Qr ∧ v.info = u.ve.info
  notCur : cur = false → ∀ c, AL.get? s.map u.key = some c → c.info ≠ u.ve.info

theorem getInfo_of_infos {s s' : SState} (h : s'.infos = s.infos) (j : Nat) :
    getInfo s' j = getInfo s j := getInfo_congr h j

theorem wd_eff {s s' : SState} {Q Q' : List WOp} {u : UOp} (h : WD s Q u)
    (hlt : u.ve.info < s.nextId) (heff : MapEff s s' Q Q') : WD s' Q' u := by
  intro hd
  cases heff with
  | same hm hi hn hq =>
    rw [getInfo_of_infos hi] at hd
    obtain ⟨k', hh, v, o, w, a, b⟩ := h hd
    exact ⟨k', hh, v, o, w, (hq _).mpr a, b⟩
  | put k c hh o w hm hq h1 h2 h3 hinfo hfr hadm =>
    by_cases e : u.ve.info = c.info
    · exact ⟨k, hh, c, o, w, (hq _).mpr (Or.inr rfl), e.symm⟩
    · rw [hfr _ hlt e] at hd
      obtain ⟨k', h', v, o', w', a, b⟩ := h hd
      exact ⟨k', h', v, o', w', (hq _).mpr (Or.inl a), b⟩
  | erase k old hg hm hi hn hq =>
    rw [getInfo_of_infos hi] at hd
    obtain ⟨k', hh, v, o, w, a, b⟩ := h hd
    exact ⟨k', hh, v, o, w, (hq _).mpr (Or.inl a), b⟩

theorem wf_eff {p : Params} {s s' : SState} {Q Q' : List WOp} {u : UOp} {nw : Nat} {cur : Bool}
    (h : WF p s Q u nw cur) (hkn : (AL.keys s.map).Nodup) (hlt : u.ve.info < s.nextId)
    (heff : MapEff s s' Q Q') : WF p s' Q' u nw cur := by
  refine ⟨wd_eff h.dirty hlt heff, ?_, ?_, ?_⟩
  · -- wcur
    intro c hc hi
    cases heff with
    | same hm _ _ hq =>
      rw [hm] at hc
      rcases h.wcur c hc hi with a | ⟨hh, o, w, a⟩
      · exact Or.inl a
      · exact Or.inr ⟨hh, o, w, (hq _).mpr a⟩
    | put k c0 hh o w hm hq _ _ _ _ _ _ =>
      rw [hm, AL.get?_put] at hc
      by_cases e : k = u.key
      · rw [if_pos e] at hc
        have : c0 = c := Option.some.inj hc
        subst this
        exact Or.inr ⟨hh, o, w, (hq _).mpr (Or.inr (by rw [e]))⟩
      · rw [if_neg e] at hc
        rcases h.wcur c hc hi with a | ⟨h', o', w', a⟩
        · exact Or.inl a
        · exact Or.inr ⟨h', o', w', (hq _).mpr (Or.inl a)⟩
    | erase k old hg hm _ _ hq =>
      rw [hm, AL.get?_erase k u.key hkn] at hc
      by_cases e : k = u.key
      · simp [e] at hc
      · rw [if_neg e] at hc
        rcases h.wcur c hc hi with a | ⟨h', o', w', a⟩
        · exact Or.inl a
        · exact Or.inr ⟨h', o', w', (hq _).mpr (Or.inl a)⟩
  · -- gone
    intro hcur
    cases heff with
    | same hm _ _ hq =>
      rcases h.gone hcur with ⟨c, a, b⟩ | ⟨k', v, a, b⟩
      · exact Or.inl ⟨c, by rw [hm]; exact a, b⟩
      · exact Or.inr ⟨k', v, (hq _).mpr a, b⟩
    | put k c0 hh o w hm hq _ _ _ hinfo _ _ =>
      rcases h.gone hcur with ⟨c, a, b⟩ | ⟨k', v, a, b⟩
      · by_cases e : k = u.key
        · refine Or.inl ⟨c0, by rw [hm, AL.get?_put, if_pos e], ?_⟩
          rcases hinfo with ⟨old, g1, g2⟩ | ⟨g1, _⟩
          · rw [e, a] at g1
            rw [g2, ← Option.some.inj g1]; exact b
          · rw [e, a] at g1; cases g1
        · exact Or.inl ⟨c, by rw [hm, AL.get?_put, if_neg e]; exact a, b⟩
      · exact Or.inr ⟨k', v, (hq _).mpr (Or.inl a), b⟩
    | erase k old hg hm _ _ hq =>
      rcases h.gone hcur with ⟨c, a, b⟩ | ⟨k', v, a, b⟩
      · by_cases e : k = u.key
        · rw [e, a] at hg
          refine Or.inr ⟨k, old, (hq _).mpr (Or.inr rfl), ?_⟩
          rw [← Option.some.inj hg]; exact b
        · refine Or.inl ⟨c, ?_, b⟩
          rw [hm, AL.get?_erase k u.key hkn, if_neg e]; exact a
      · exact Or.inr ⟨k', v, (hq _).mpr (Or.inl a), b⟩
  · -- notCur
    intro hcur c hc
    cases heff with
    | same hm _ _ _ => rw [hm] at hc; exact h.notCur hcur c hc
    | put k c0 hh o w hm hq _ _ _ hinfo _ _ =>
      rw [hm, AL.get?_put] at hc
      by_cases e : k = u.key
      · rw [if_pos e] at hc
        have : c0 = c := Option.some.inj hc
        subst this
        rcases hinfo with ⟨old, g1, g2⟩ | ⟨_, g2⟩
        · rw [g2]
          rw [e] at g1
          exact h.notCur hcur old g1
        · rw [g2]
          exact fun e' => Nat.lt_irrefl _ (e' ▸ hlt)
      · rw [if_neg e] at hc
        exact h.notCur hcur c hc
    | erase k old hg hm _ _ _ =>
      rw [hm, AL.get?_erase k u.key hkn] at hc
      by_cases e : k = u.key
      · simp [e] at hc
      · rw [if_neg e] at hc
        exact h.notCur hcur c hc

/-- The admission flag of an allocated info is not touched by other threads. -/
theorem adm_eff {s s' : SState} {Q Q' : List WOp} (heff : MapEff s s' Q Q') {j : Nat}
    (hlt : j < s.nextId) : (getInfo s' j).admitted = (getInfo s j).admitted := by
  cases heff with
  | same _ hi _ _ => rw [getInfo_of_infos hi]
  | put k c hh o w _ _ _ _ _ _ _ hadm => exact hadm j hlt
  | erase _ _ _ _ hi _ _ => rw [getInfo_of_infos hi]

/-! ### the run-local invariant with extra pending operations, under steps of other threads -/

theorem topinv_view {s : SState} (h : RunInv Sketch.Good s) : TopInv Sketch.Good (view s) :=
  ⟨⟨⟨h.safe.toNodesCore.congr (fun _ => rfl) (fun _ => rfl) (fun _ => rfl)
    (List.Perm.refl _) (List.Perm.refl _) (Nat.le_refl _), h.safe.count⟩,
    ⟨h.map.kn, h.map.bound⟩, ⟨h.sk.sk, h.sk.skOff⟩⟩, h.safe.nofault⟩

theorem runinv_of_view {s : SState} (h : TopInv Sketch.Good (view s)) : RunInv Sketch.Good s :=
  ⟨⟨⟨h.nodes.toNodesCore.congr (fun _ => rfl) (fun _ => rfl) (fun _ => rfl)
    (List.Perm.refl _) (List.Perm.refl _) (Nat.le_refl _), h.nodes.count⟩, h.nofault⟩,
    ⟨h.map.kn, h.map.bound⟩, ⟨h.sk.sk, h.sk.skOff⟩⟩

theorem ctop_view {p : Params} {s : SState} {Q : List WOp} (h : CInv p s Q) :
    CTop p (view s) Q := by
  show CInv p { view s with cec := (view s).ec, cws := (view s).ws } Q
  exact h.same (same_of_eq rfl rfl rfl rfl rfl rfl)

theorem cinv_of_view {p : Params} {s : SState} {Q : List WOp} (h : CTop p (view s) Q) :
    CInv p s Q := by
  have h1 : CInv p { view s with cec := (view s).ec, cws := (view s).ws } Q := h
  exact h1.same (same_of_eq rfl rfl rfl rfl rfl rfl)

theorem runinv_of_eq {s s' : SState} (h : RunInv Sketch.Good s) (hm : s'.map = s.map)
    (hi : s'.infos = s.infos) (hp : s'.prob = s.prob) (hw : s'.wo = s.wo)
    (hn : s'.nextId = s.nextId) (hc : s'.cec = s.cec) (hsk : s'.sk = s.sk)
    (hon : s'.skOn = s.skOn) (hf : s'.fault = s.fault) : RunInv Sketch.Good s' :=
  ⟨h.safe.of_eq hi hp hw (by rw [hn]; exact Nat.le_refl _) hc hf,
    ⟨by rw [hm]; exact h.map.kn, by rw [hm, hn]; exact h.map.bound⟩,
    ⟨by rw [hsk]; exact h.sk.sk, by rw [hsk, hon]; exact h.sk.skOff⟩⟩

/-- A plain step of another thread keeps the run-local invariant; operations `ex` that are
neither queued nor held (the one the run is applying) stay pending. -/
theorem plain_step_rinvx {p : Params} (hq : NoQuirks p) {s : SState} {pd : List (Tid × Pend)}
    (ex : List WOp) (hrun : RunInv Sketch.Good s)
    (hc : CInv p s (s.writeQ ++ pendWrites pd ++ ex)) (htid : (pd.map (·.1)).Nodup)
    (hwq : s.writeQ.length ≤ Gen.WRITE_LOG_SIZE) (hrq : s.readQ.length ≤ Gen.READ_LOG_SIZE)
    (e : ConcS.Ev) (hpl : isPlain e = true) {c' : CState}
    (hs : ConcS.step p ⟨s, pd⟩ e = some c') :
    RunInv Sketch.Good c'.s ∧
    CInv p c'.s (c'.s.writeQ ++ pendWrites c'.pending ++ ex) ∧
    (c'.pending.map (·.1)).Nodup ∧
    c'.s.writeQ.length ≤ Gen.WRITE_LOG_SIZE ∧ c'.s.readQ.length ≤ Gen.READ_LOG_SIZE := by
  cases e with
  | insMap t k v =>
    simp only [ConcS.step] at hs
    cases hp : pendOf pd t with
    | some x => rw [hp] at hs; cases hs
    | none =>
      rw [hp] at hs
      rw [← Option.some.inj hs]
      dsimp only
      obtain ⟨a1, a2, a3, a4, _⟩ := insertMap_inv hq (topinv_view hrun) (ctop_view hc) k v
      rw [insertMap_view] at a1 a2 a3 a4
      dsimp only at a1 a2 a3 a4
      have b3 : (insertMap p s k v).1.writeQ = s.writeQ := a3
      have b4 : (insertMap p s k v).1.readQ = s.readQ := a4
      refine ⟨runinv_of_view a1, ?_, tids_append _ htid hp, by rw [b3]; exact hwq,
        by rw [b4]; exact hrq⟩
      refine CInv.of_mem (cinv_of_view a2) ?_
      intro op
      rw [b3, pendWrites_append_write]
      simp only [List.mem_append, List.mem_singleton, or_comm, or_left_comm]
  | invMap t k =>
    simp only [ConcS.step] at hs
    cases hp : pendOf pd t with
    | some x => rw [hp] at hs; cases hs
    | none =>
      rw [hp] at hs
      dsimp only at hs
      cases ho : (invalidateMap s k).2 with
      | none =>
        rw [ho] at hs
        rw [← Option.some.inj hs]
        exact ⟨hrun, hc, htid, hwq, hrq⟩
      | some op =>
        rw [ho] at hs
        rw [← Option.some.inj hs]
        dsimp only
        have ho' : (invalidateMap (view s) k).2 = some op := by rw [invalidateMap_view]; exact ho
        obtain ⟨a1, a2, a3, a4, _⟩ :=
          invalidateMap_inv (topinv_view hrun) (ctop_view hc) k op ho'
        rw [invalidateMap_view] at a1 a2 a3 a4
        dsimp only at a1 a2 a3 a4
        have b3 : (invalidateMap s k).1.writeQ = s.writeQ := a3
        have b4 : (invalidateMap s k).1.readQ = s.readQ := a4
        refine ⟨runinv_of_view a1, ?_, tids_append _ htid hp, by rw [b3]; exact hwq,
          by rw [b4]; exact hrq⟩
        refine CInv.of_mem (cinv_of_view a2) ?_
        intro o
        rw [b3, pendWrites_append_write]
        simp only [List.mem_append, List.mem_singleton, or_comm, or_left_comm]
  | getMap t k =>
    simp only [ConcS.step] at hs
    cases hp : pendOf pd t with
    | some x => rw [hp] at hs; cases hs
    | none =>
      rw [hp] at hs
      rw [← Option.some.inj hs]
      refine ⟨hrun, ?_, tids_append _ htid hp, hwq, hrq⟩
      show CInv p s (s.writeQ ++ pendWrites (pd ++ [(t, Pend.read (lookup p s k).1)]) ++ ex)
      rw [pendWrites_append_read]
      exact hc
  | maint t => cases hpl
  | sync t => cases hpl
  | enq t =>
    have heff := (plain_step_eff p htid (.enq t) rfl hs).2
    simp only [ConcS.step] at hs
    cases hp : pendOf pd t with
    | none => rw [hp] at hs; cases hs
    | some x =>
      rw [hp] at hs
      have hqm : ∀ op, op ∈ c'.s.writeQ ++ pendWrites c'.pending ↔
          op ∈ s.writeQ ++ pendWrites pd := by
        cases heff with
        | same _ _ _ hq' => exact hq'
        | put k c hh o w hm _ _ h2 _ _ _ _ =>
          exfalso
          cases x with
          | write op =>
            dsimp only at hs
            split at hs
            · rw [← Option.some.inj hs] at h2
              exact Nat.lt_irrefl _ (Nat.lt_of_le_of_lt ‹s.nextId ≤ c.id› h2)
            · cases hs
          | read op =>
            dsimp only at hs
            split at hs
            · rw [← Option.some.inj hs] at h2
              exact Nat.lt_irrefl _ (Nat.lt_of_le_of_lt ‹s.nextId ≤ c.id› h2)
            · rw [← Option.some.inj hs] at h2
              exact Nat.lt_irrefl _ (Nat.lt_of_le_of_lt ‹s.nextId ≤ c.id› h2)
        | erase k old hg hm _ _ _ =>
          exfalso
          have hlen : c'.s.map.length = s.map.length := by
            cases x with
            | write op =>
              dsimp only at hs
              split at hs
              · rw [← Option.some.inj hs]
              · cases hs
            | read op =>
              dsimp only at hs
              split at hs
              · rw [← Option.some.inj hs]
              · rw [← Option.some.inj hs]
          rw [hm] at hlen
          have := AL.length_erase_of_get? hg
          omega
      have hcq : CInv p s (c'.s.writeQ ++ pendWrites c'.pending ++ ex) := by
        refine CInv.of_mem hc ?_
        intro op
        simp only [List.mem_append] at hqm ⊢
        rw [hqm]
      cases x with
      | write op =>
        dsimp only at hs
        by_cases hl : s.writeQ.length < Gen.WRITE_LOG_SIZE
        · rw [if_pos hl] at hs
          rw [← Option.some.inj hs] at hcq ⊢
          refine ⟨runinv_of_eq hrun rfl rfl rfl rfl rfl rfl rfl rfl rfl,
            hcq.same (same_of_eq rfl rfl rfl rfl rfl rfl), dropPend_tids_nodup t htid, ?_, hrq⟩
          show (s.writeQ ++ [op]).length ≤ _
          rw [List.length_append]
          exact hl
        · rw [if_neg hl] at hs; cases hs
      | read op =>
        dsimp only at hs
        by_cases hl : s.readQ.length < Gen.READ_LOG_SIZE
        · rw [if_pos hl] at hs
          rw [← Option.some.inj hs] at hcq ⊢
          refine ⟨runinv_of_eq hrun rfl rfl rfl rfl rfl rfl rfl rfl rfl,
            hcq.same (same_of_eq rfl rfl rfl rfl rfl rfl), dropPend_tids_nodup t htid, hwq, ?_⟩
          show (s.readQ ++ [op]).length ≤ _
          rw [List.length_append]
          exact hl
        · rw [if_neg hl] at hs
          rw [← Option.some.inj hs] at hcq ⊢
          exact ⟨hrun, hcq, dropPend_tids_nodup t htid, hwq, hrq⟩
  | tick d =>
    simp only [ConcS.step] at hs
    rw [← Option.some.inj hs]
    exact ⟨runinv_of_eq hrun rfl rfl rfl rfl rfl rfl rfl rfl rfl,
      hc.same (same_of_eq rfl rfl rfl rfl rfl rfl), htid, hwq, hrq⟩
  | invAll t =>
    simp only [ConcS.step] at hs
    rw [← Option.some.inj hs]
    exact ⟨runinv_of_eq hrun rfl rfl rfl rfl rfl rfl rfl rfl rfl,
      hc.same (same_of_eq rfl rfl rfl rfl rfl rfl), htid, hwq, hrq⟩

/-! ### the invariant between two steps of one `Upsert` -/

/-- The queued operation a program counter belongs to. -/
def opOf : WPc → UOp
  | .clearDirty u => u
  | .readCurrent u => u
  | .dispatch u _ _ => u
  | .scan u _ _ _ _ => u
  | .victims u _ _ _ => u
  | .reject u _ => u
  | .readCurrentB1 u => u
  | .clearDirtyB1 u _ _ => u
  | .victimsB2 u _ _ _ _ _ => u
  | .putBackB2 u _ _ => u

/-- The part that does not depend on the program counter: the run-local invariant, with the
operation being applied still counted as pending. -/
structure WBase (p : Params) (s : SState) (pd : List (Tid × Pend)) (u : UOp) : Prop where
  run : RunInv Sketch.Good s
  cinv : CInv p s (wop u :: (s.writeQ ++ pendWrites pd))
  tids : (pd.map (·.1)).Nodup
  wq : s.writeQ.length ≤ Gen.WRITE_LOG_SIZE
  rq : s.readQ.length ≤ Gen.READ_LOG_SIZE
  qids : QIds s (wop u :: (s.writeQ ++ pendWrites pd))

/-- Run-local node lists (victims, skipped, still to scan): nodes of the access-order list,
pairwise distinct. -/
def Lists (l : List AoNode) (s : SState) : Prop :=
  (∀ m, m ∈ l → m ∈ s.prob) ∧ (l.map (·.id)).Nodup

/-- The part that depends on the program counter (`False` for the program counters of the
seeded variants, which the current code never reaches). -/
def WLocal (p : Params) (s : SState) (Qr : List WOp) : WPc → Prop
  | .clearDirty _ => True
  | .readCurrent u => WD s Qr u
  | .dispatch u nw cur => WF p s Qr u nw cur
  | .scan u nw _ rest acc =>
    WF p s Qr u nw true ∧ (getInfo s u.ve.info).admitted = false ∧
      Lists (acc.victims ++ acc.skipped ++ rest) s
  | .victims u nw vs sk =>
    WF p s Qr u nw true ∧ (getInfo s u.ve.info).admitted = false ∧ Lists (vs ++ sk) s
  | .reject u sk => WD s Qr u ∧ (getInfo s u.ve.info).admitted = false ∧ Lists sk s
  | _ => False

theorem WBase.lt {p : Params} {s : SState} {pd : List (Tid × Pend)} {u : UOp}
    (h : WBase p s pd u) : u.ve.info < s.nextId :=
  (h.cinv.upKey u.key u.hash u.ve u.oldW u.newW List.mem_cons_self).2

theorem WBase.keyi {p : Params} {s : SState} {pd : List (Tid × Pend)} {u : UOp}
    (h : WBase p s pd u) : (getInfo s u.ve.info).key = u.key :=
  (h.cinv.upKey u.key u.hash u.ve u.oldW u.newW List.mem_cons_self).1

theorem Lists.of_prob {l : List AoNode} {s s' : SState} (h : Lists l s) (hp : s'.prob = s.prob) :
    Lists l s' := ⟨fun m hm => by rw [hp]; exact h.1 m hm, h.2⟩

/-- Steps of other threads keep the invariant of a half-applied `Upsert`. -/
theorem plain_step_winv {p : Params} (hq : NoQuirks p) {s : SState} {pd : List (Tid × Pend)}
    {pc : WPc} (hb : WBase p s pd (opOf pc))
    (hl : WLocal p s (s.writeQ ++ pendWrites pd) pc) (e : ConcS.Ev) (hpl : isPlain e = true)
    {c' : CState} (hs : ConcS.step p ⟨s, pd⟩ e = some c') :
    WBase p c'.s c'.pending (opOf pc) ∧
      WLocal p c'.s (c'.s.writeQ ++ pendWrites c'.pending) pc := by
  obtain ⟨hprob, heff⟩ := plain_step_eff p hb.tids e hpl hs
  have hc0 : CInv p s (s.writeQ ++ pendWrites pd ++ [wop (opOf pc)]) :=
    CInv.of_mem hb.cinv (fun op => by
      simp only [List.mem_append, List.mem_cons, List.not_mem_nil, false_or, or_comm,
        or_left_comm])
  obtain ⟨a1, a2, a3, a4, a5⟩ :=
    plain_step_rinvx hq [wop (opOf pc)] hb.run hc0 hb.tids hb.wq hb.rq e hpl hs
  have hkn := hb.run.map.kn
  have hlt := hb.lt
  have hqids : QIds c'.s (wop (opOf pc) :: (c'.s.writeQ ++ pendWrites c'.pending)) :=
    qids_eff (ex := [wop (opOf pc)]) hb.qids hkn (fun k c hc => (hb.cinv.mapId k c hc).1) heff
  refine ⟨⟨a1, CInv.of_mem a2 (fun op => by
      simp only [List.mem_append, List.mem_cons, List.not_mem_nil, false_or, or_comm,
        or_left_comm]),
    a3, a4, a5, hqids⟩, ?_⟩
  cases pc with
  | clearDirty u => trivial
  | readCurrent u => exact wd_eff hl hlt heff
  | dispatch u nw cur => exact wf_eff hl hkn hlt heff
  | scan u nw cf rest acc =>
    exact ⟨wf_eff hl.1 hkn hlt heff, (adm_eff heff hlt).trans hl.2.1,
      hl.2.2.of_prob hprob⟩
  | victims u nw vs sk =>
    exact ⟨wf_eff hl.1 hkn hlt heff, (adm_eff heff hlt).trans hl.2.1,
      hl.2.2.of_prob hprob⟩
  | reject u sk =>
    exact ⟨wd_eff hl.1 hlt heff, (adm_eff heff hlt).trans hl.2.1, hl.2.2.of_prob hprob⟩
  | readCurrentB1 u => exact hl
  | clearDirtyB1 u nw cur => exact hl
  | victimsB2 u nw vs sk ev al => exact hl
  | putBackB2 u ev sk => exact hl

/-! ### the steps of one `Upsert` keep the invariant -/

/-- What must hold after a step of the application of an `Upsert`: queues and flag untouched;
either the next program counter with its invariant, or (the operation is done) the run-local
invariant of `ConcM` with the operation no longer pending. -/
def WNext (p : Params) (pd : List (Tid × Pend)) (u : UOp) (s : SState)
    (r : SState × Option WPc) : Prop :=
  r.1.writeQ = s.writeQ ∧ r.1.readQ = s.readQ ∧ r.1.running = s.running ∧
  match r.2 with
  | some pc' => opOf pc' = u ∧ WBase p r.1 pd u ∧ WLocal p r.1 (r.1.writeQ ++ pendWrites pd) pc'
  | none => RInv p r.1 pd ∧ QIds r.1 (r.1.writeQ ++ pendWrites pd)

theorem WBase.g {p : Params} {s : SState} {pd : List (Tid × Pend)} {u : UOp}
    (h : WBase p s pd u) : G p s (wop u :: (s.writeQ ++ pendWrites pd)) :=
  ⟨h.run.safe, h.run.map, h.cinv⟩

/-- A state reached by a step that keeps queues, allocation counter and the map's bindings (or
removes some) and for which the counters invariant has been re-established. -/
theorem wbase_of {p : Params} {s s' : SState} {pd : List (Tid × Pend)} {u : UOp}
    (h : WBase p s pd u) (hs : Safe s') (hf : Frame0 s s') (hk : SkOK Sketch.Good s')
    (hw : s'.writeQ = s.writeQ) (hr : s'.readQ = s.readQ)
    (hc : CInv p s' (wop u :: (s.writeQ ++ pendWrites pd))) : WBase p s' pd u :=
  ⟨⟨hs, h.run.map.frame0 hf, hk⟩, by rw [hw]; exact hc, h.tids, by rw [hw]; exact h.wq,
    by rw [hr]; exact h.rq, by
      rw [hw]
      exact h.qids.mono (hf.mapSub h.run.map.kn) hf.nextId (fun _ _ _ _ _ hm => hm)⟩

/-- The operation is done: it leaves the logical queue. -/
theorem rinv_of_done {p : Params} {s s' : SState} {pd : List (Tid × Pend)} {u : UOp}
    (h : WBase p s pd u) (hs : Safe s') (hf : Frame0 s s') (hk : SkOK Sketch.Good s')
    (hw : s'.writeQ = s.writeQ) (hr : s'.readQ = s.readQ)
    (hc : CInv p s' (s.writeQ ++ pendWrites pd)) :
    RInv p s' pd ∧ QIds s' (s'.writeQ ++ pendWrites pd) :=
  ⟨⟨⟨hs, h.run.map.frame0 hf, hk⟩, by rw [hw]; exact hc, h.tids, by rw [hw]; exact h.wq,
    by rw [hr]; exact h.rq⟩, by
      rw [hw]
      exact h.qids.mono (hf.mapSub h.run.map.kn) hf.nextId
        (fun _ _ _ _ _ hm => List.mem_cons_of_mem _ hm)⟩

theorem mem_wop_cons {u : UOp} {Qr : List WOp} {op : WOp} (h : op ∈ Qr) : op ∈ wop u :: Qr :=
  List.mem_cons_of_mem _ h

/-- `handle_admit` as the last map-independent act of an `Upsert` (room, or after the victims). -/
theorem admit_done {p : Params} (hq : NoQuirks p) {s : SState} {pd : List (Tid × Pend)} {u : UOp}
    {nw : Nat} (hb : WBase p s pd u) (hl : WF p s (s.writeQ ++ pendWrites pd) u nw true)
    (hna : (getInfo s u.ve.info).admitted = false) :
    Safe (handleAdmit p s u.key u.hash u.ve nw) ∧
    Keeps s (handleAdmit p s u.key u.hash u.ve nw) ∧
    CInv p (handleAdmit p s u.key u.hash u.ve nw) (s.writeQ ++ pendWrites pd) := by
  obtain ⟨h1, h2⟩ := handleAdmit_safe (p := p) hb.run.safe u.key u.hash u.ve nw hna hb.lt
  refine ⟨h1, h2, ?_⟩
  have hcur : (∃ c, AL.get? s.map u.key = some c ∧ c.info = u.ve.info ∧ c.slot = u.ve.slot) ∨
      ((∀ c, AL.get? s.map u.key = some c → c.info ≠ u.ve.info) ∧
        ∃ k' v, WOp.remove k' v ∈ wop u :: (s.writeQ ++ pendWrites pd) ∧ v.info = u.ve.info) := by
    by_cases hex : ∃ c, AL.get? s.map u.key = some c ∧ c.info = u.ve.info
    · obtain ⟨c, g1, g2⟩ := hex
      exact Or.inl ⟨c, g1, g2,
        hb.cinv.upSlot u.key u.hash u.ve u.oldW u.newW List.mem_cons_self c g1 g2⟩
    · refine Or.inr ⟨fun c hc hi => hex ⟨c, hc, hi⟩, ?_⟩
      rcases hl.gone rfl with g | ⟨k', v, g1, g2⟩
      · exact absurd g hex
      · exact ⟨k', v, mem_wop_cons g1, g2⟩
  obtain ⟨a1, a2, a3, a4, a5⟩ :=
    handleAdmit_cinv' hq hb.cinv hb.run.safe u.key u.hash u.ve nw hb.keyi hna hcur
  refine a1.dropUpsert' ?_ ?_
  · intro hk
    rw [a2] at hk
    rcases hl.wcur u.ve hk rfl with e | pend
    · exact Or.inr ⟨a3, by rw [a4]; exact e⟩
    · exact Or.inl pend
  · intro hd
    rw [a5] at hd
    exact hl.dirty hd

/-- `remove_if(key, same value entry)` as the last map access of a rejected `Upsert`. -/
theorem reject_done {p : Params} (hq : NoQuirks p) {s : SState} {pd : List (Tid × Pend)}
    {u : UOp} (hb : WBase p s pd u) (hd : WD s (s.writeQ ++ pendWrites pd) u)
    (hna : (getInfo s u.ve.info).admitted = false) :
    Safe (removeCandidate p s u.key u.ve) ∧ Keeps s (removeCandidate p s u.key u.ve) ∧
    CInv p (removeCandidate p s u.key u.ve) (s.writeQ ++ pendWrites pd) := by
  have hd7 : p.q.d7 = false := by rw [hq]
  obtain ⟨h1, h2⟩ := removeCandidate_safe (p := p) hb.run.safe u.key u.ve
  refine ⟨h1, h2, ?_⟩
  unfold removeCandidate
  cases hg : AL.get? s.map u.key with
  | none =>
    dsimp only
    refine hb.cinv.dropUpsert' ?_ hd
    intro hk; rw [hg] at hk; cases hk
  | some c =>
    dsimp only
    rw [hd7, Bool.false_or]
    by_cases e : (c.id == u.ve.id) = true
    · rw [if_pos e]
      have hcv : c = u.ve :=
        (hb.qids u.key u.hash u.ve u.oldW u.newW List.mem_cons_self).2 u.key c hg (eq_of_beq e)
      have hc1 := hb.cinv.eraseNotAdm hb.run.safe hb.run.map hg (by rw [hcv]; exact hna)
      refine hc1.dropUpsert' ?_ hd
      intro hk
      have : AL.get? (AL.erase s.map u.key) u.key = none := AL.get?_erase_self u.key hb.run.map.kn
      rw [this] at hk; cases hk
    · rw [if_neg e]
      refine hb.cinv.dropUpsert' ?_ hd
      intro hk
      rw [hg] at hk
      rw [Option.some.inj hk] at e
      simp at e

theorem Lists.perm {l l' : List AoNode} {s : SState} (h : Lists l s) (hp : l'.Perm l) :
    Lists l' s :=
  ⟨fun m hm => h.1 m (hp.mem_iff.mp hm), ((hp.map (·.id)).nodup_iff).mpr h.2⟩

theorem Lists.left {a b : List AoNode} {s : SState} (h : Lists (a ++ b) s) : Lists a s := by
  refine ⟨fun m hm => h.1 m (List.mem_append_left _ hm), ?_⟩
  have := h.2
  rw [List.map_append, List.nodup_append] at this
  exact this.1

theorem perm_scan_victim (a b r : List AoNode) (n : AoNode) :
    ((a ++ [n]) ++ b ++ r).Perm (a ++ b ++ (n :: r)) := by
  simp only [List.append_assoc, List.singleton_append]
  exact (List.perm_middle.symm).append_left a

theorem perm_scan_skip (a b r : List AoNode) (n : AoNode) :
    (a ++ (b ++ [n]) ++ r).Perm (a ++ b ++ (n :: r)) := by
  simp only [List.append_assoc, List.singleton_append]
  exact List.Perm.refl _

theorem lists_finish {v s : List AoNode} {r : List AoNode} {st : SState}
    (h : Lists (v ++ s ++ r) st) : Lists (v ++ s) st := h.left

/-- The decision at the end of the admission scan. -/
theorem finishScan_next {p : Params} {s : SState} {pd : List (Tid × Pend)} {u : UOp}
    {nw cf : Nat} {acc : Admission} (hb : WBase p s pd u)
    (hf : WF p s (s.writeQ ++ pendWrites pd) u nw true)
    (hna : (getInfo s u.ve.info).admitted = false)
    (hls : Lists (acc.victims ++ acc.skipped) s) :
    WNext p pd u s (finishScan .good s u nw cf acc) := by
  unfold finishScan
  by_cases hc : acc.vw ≥ nw ∧ cf > acc.vf
  · rw [if_pos hc]
    exact ⟨rfl, rfl, rfl, rfl, hb, hf, hna, hls⟩
  · rw [if_neg hc]
    refine ⟨rfl, rfl, rfl, rfl, hb, hf.dirty, hna, ?_⟩
    exact ⟨fun m hm => hls.1 m (List.mem_append_right _ hm), by
      have := hls.2
      rw [List.map_append, List.nodup_append] at this
      exact this.2.1⟩

/-- Every step of the application of an `Upsert` keeps the invariant. -/
theorem wstep_next {p : Params} (hq : NoQuirks p) {s : SState} {pd : List (Tid × Pend)}
    {pc : WPc} (hb : WBase p s pd (opOf pc))
    (hl : WLocal p s (s.writeQ ++ pendWrites pd) pc) :
    WNext p pd (opOf pc) s (wstep p .good s pc) := by
  have hd7 : p.q.d7 = false := by rw [hq]
  have hd10 : p.q.d10 = false := by rw [hq]
  cases pc with
  | clearDirty u =>
    have hb : WBase p s pd u := hb
    show WNext p pd u s
      (withInfo s u.ve.info (fun i => { i with dirty := false }), some (.readCurrent u))
    have hsame : Same s (withInfo s u.ve.info (fun i => { i with dirty := false })) :=
      same_withInfo _ _ _ (fun x => ⟨rfl, rfl, rfl, fun hx => by cases hx⟩)
    refine ⟨rfl, rfl, rfl, rfl,
      wbase_of (s' := withInfo s u.ve.info (fun i => { i with dirty := false })) hb
        (hb.run.safe.withInfo _ _ rfl rfl rfl) (frame0_withInfo' _ _ _)
        ⟨hb.run.sk.sk, hb.run.sk.skOff⟩ rfl rfl (hb.cinv.same hsame), ?_⟩
    intro hx
    rw [getInfo_withInfo, if_pos rfl] at hx
    cases hx
  | readCurrent u =>
    have hb : WBase p s pd u := hb
    have hl : WD s (s.writeQ ++ pendWrites pd) u := hl
    show WNext p pd u s
      (s, some (.dispatch u (currentWeight p s u.key u.ve u.newW) (isCurrentEntry s u.key u.ve)))
    refine ⟨rfl, rfl, rfl, rfl, hb, hl, ?_, ?_, ?_⟩
    · intro c hc hi
      left
      unfold currentWeight
      rw [hd10, hc]
      simp [hi]
    · intro hcur
      unfold isCurrentEntry at hcur
      cases hg : AL.get? s.map u.key with
      | none => rw [hg] at hcur; cases hcur
      | some c =>
        rw [hg] at hcur
        exact Or.inl ⟨c, rfl, eq_of_beq hcur⟩
    · intro hcur c hc hi
      unfold isCurrentEntry at hcur
      have hc' : AL.get? s.map u.key = some c := hc
      rw [hc'] at hcur
      dsimp only at hcur
      rw [hi] at hcur
      simp at hcur
  | dispatch u nw cur =>
    have hb : WBase p s pd u := hb
    have hl : WF p s (s.writeQ ++ pendWrites pd) u nw cur := hl
    show WNext p pd u s (wstep p .good s (.dispatch u nw cur))
    by_cases c1 : (getInfo s u.ve.info).admitted = true
    · have hm : wstep p .good s (.dispatch u nw cur) = (applyUpdate p s u.ve u.oldW nw, none) := by
        simp only [wstep, if_pos c1]
      rw [hm]
      have hqf := applyUpdate_qframe p s u.ve u.oldW nw
      obtain ⟨a1, a2, a3, a4, a5⟩ := applyUpdate_cinv' hq hb.cinv hb.run.safe u.ve u.oldW nw c1 (by
        intro k c hc hi
        have hk : k = u.key := by rw [← hb.cinv.mapKey k c hc, hi]; exact hb.keyi
        subst hk
        rcases hl.wcur c hc hi with e | ⟨hh, o, w, e⟩
        · exact Or.inl e
        · exact Or.inr ⟨hh, o, w, mem_wop_cons e⟩)
      refine ⟨hqf.writeQ, hqf.readQ, hqf.running,
        rinv_of_done hb (applyUpdate_safe hb.run.safe _ _ _) (applyUpdate_frame0 _ _ _ _ _)
          (hb.run.sk.same (applyUpdate_sk _ _ _ _ _)) hqf.writeQ hqf.readQ ?_⟩
      refine a1.dropUpsert' ?_ ?_
      · intro hk
        rw [a2] at hk
        rcases hl.wcur u.ve hk rfl with e | pend
        · exact Or.inr ⟨a3, by rw [a4]; exact e⟩
        · exact Or.inl pend
      · intro hd
        exact hl.dirty (a5 _ hd)
    · have hna : (getInfo s u.ve.info).admitted = false := by
        cases hx : (getInfo s u.ve.info).admitted with
        | false => rfl
        | true => exact absurd hx c1
      by_cases c2 : (!p.q.d7 && !cur) = true
      · have hm : wstep p .good s (.dispatch u nw cur) = (s, none) := by
          simp only [wstep, if_neg c1, if_pos c2]
        rw [hm]
        have hcur : cur = false := by
          rw [hd7] at c2
          cases cur with
          | false => rfl
          | true => simp at c2
        refine ⟨rfl, rfl, rfl,
          rinv_of_done hb hb.run.safe (Frame0.refl s) hb.run.sk rfl rfl ?_⟩
        refine hb.cinv.dropUpsert' ?_ hl.dirty
        intro hk
        exact absurd rfl (hl.notCur hcur u.ve hk)
      · have hcur : cur = true := by
          rw [hd7] at c2
          cases cur with
          | true => rfl
          | false => simp at c2
        rw [hcur] at hl
        by_cases c3 : hasEnoughCapacity p nw s = true
        · have hm : wstep p .good s (.dispatch u nw cur) =
              (handleAdmit p s u.key u.hash u.ve nw, none) := by
            simp only [wstep, if_neg c1, if_neg c2, if_pos c3]
          rw [hm]
          have hqf := handleAdmit_qframe p s u.key u.hash u.ve nw
          obtain ⟨b1, _, b3⟩ := admit_done hq hb hl hna
          exact ⟨hqf.writeQ, hqf.readQ, hqf.running,
            rinv_of_done hb b1 (handleAdmit_frame0 _ _ _ _ _ _)
              (hb.run.sk.same (handleAdmit_sk _ _ _ _ _ _)) hqf.writeQ hqf.readQ b3⟩
        · by_cases c4 : tooBig p nw = true
          · have hm : wstep p .good s (.dispatch u nw cur) =
                (removeCandidate p s u.key u.ve, none) := by
              simp only [wstep, if_neg c1, if_neg c2, if_neg c3, if_pos c4]
            rw [hm]
            have hqf := removeCandidate_qframe p s u.key u.ve
            obtain ⟨b1, _, b3⟩ := reject_done hq hb hl.dirty hna
            exact ⟨hqf.writeQ, hqf.readQ, hqf.running,
              rinv_of_done hb b1 (removeCandidate_frame0 _ _ _ _)
                (hb.run.sk.same (removeCandidate_sk _ _ _ _)) hqf.writeQ hqf.readQ b3⟩
          · have hm : wstep p .good s (.dispatch u nw cur) =
                (s, some (.scan u nw (s.sk.frequency u.hash) s.prob {})) := by
              simp only [wstep, if_neg c1, if_neg c2, if_neg c3, if_neg c4]
            rw [hm]
            refine ⟨rfl, rfl, rfl, rfl, hb, hl, hna, ?_⟩
            exact ⟨fun m hm => by simpa using hm, by simpa using hb.run.safe.probIds⟩
  | scan u nw cf rest acc =>
    have hb : WBase p s pd u := hb
    show WNext p pd u s (wstep p .good s (.scan u nw cf rest acc))
    obtain ⟨hf, hna, hls⟩ := hl
    cases rest with
    | nil =>
      have hm : wstep p .good s (.scan u nw cf [] acc) = finishScan .good s u nw cf acc := rfl
      rw [hm]
      exact finishScan_next hb hf hna (by simpa using hls)
    | cons n rest =>
      by_cases hc : acc.vw < nw ∧ ¬ cf < acc.vf
      · cases he : entryOfNode p s n.key n.info with
        | some ve =>
          have hm : wstep p .good s (.scan u nw cf (n :: rest) acc) =
              (s, some (.scan u nw cf rest
                { acc with vw := acc.vw + (getInfo s ve.info).weight,
                           vf := acc.vf + s.sk.frequency n.hash,
                           victims := acc.victims ++ [n], retries := 0 })) := by
            simp only [wstep, if_pos hc, he]
          rw [hm]
          exact ⟨rfl, rfl, rfl, rfl, hb, hf, hna, hls.perm (perm_scan_victim _ _ _ _)⟩
        | none =>
          by_cases hr : acc.retries + 1 > Gen.MAX_CONSECUTIVE_RETRIES
          · have hm : wstep p .good s (.scan u nw cf (n :: rest) acc) = finishScan .good s u nw cf
                { acc with skipped := acc.skipped ++ [n], retries := acc.retries + 1 } := by
              simp only [wstep, if_pos hc, he, if_pos hr]
            rw [hm]
            exact finishScan_next hb hf hna (hls.perm (perm_scan_skip _ _ _ _)).left
          · have hm : wstep p .good s (.scan u nw cf (n :: rest) acc) =
                (s, some (.scan u nw cf rest
                  { acc with skipped := acc.skipped ++ [n], retries := acc.retries + 1 })) := by
              simp only [wstep, if_pos hc, he, if_neg hr]
            rw [hm]
            exact ⟨rfl, rfl, rfl, rfl, hb, hf, hna, hls.perm (perm_scan_skip _ _ _ _)⟩
      · have hm : wstep p .good s (.scan u nw cf (n :: rest) acc) =
            finishScan .good s u nw cf acc := by
          simp only [wstep, if_neg hc]
        rw [hm]
        exact finishScan_next hb hf hna hls.left
  | victims u nw vs sk =>
    have hb : WBase p s pd u := hb
    show WNext p pd u s (wstep p .good s (.victims u nw vs sk))
    obtain ⟨hf, hna, hls⟩ := hl
    cases vs with
    | nil =>
      have hm : wstep p .good s (.victims u nw [] sk) =
          (moveSkipped sk (handleAdmit p s u.key u.hash u.ve nw), none) := rfl
      rw [hm]
      obtain ⟨b1, b2, b3⟩ := admit_done hq hb hf hna
      have hqf := (handleAdmit_qframe p s u.key u.hash u.ve nw).trans (moveSkipped_qframe sk _)
      obtain ⟨m1, _⟩ := moveSkipped_safe sk _ b1 (fun n hn => b2 n (hls.1 n (by simpa using hn)))
      exact ⟨hqf.writeQ, hqf.readQ, hqf.running,
        rinv_of_done hb m1 ((handleAdmit_frame0 _ _ _ _ _ _).trans (moveSkipped_frame0 _ _))
          (hb.run.sk.same ((handleAdmit_sk _ _ _ _ _ _).trans (moveSkipped_sk _ _)))
          hqf.writeQ hqf.readQ (b3.same (moveSkipped_same _ _))⟩
    | cons n vs =>
      have hn : n ∈ s.prob := hls.1 n (by simp)
      have hfind : findAo s.prob n.id = some n := findAo_of_mem hb.run.safe.probIds hn
      have hnd := hls.2
      simp only [List.cons_append, List.map_cons, List.nodup_cons] at hnd
      have hrest : Lists (vs ++ sk) s :=
        ⟨fun m hm => hls.1 m (by simp only [List.cons_append]; exact List.mem_cons_of_mem _ hm), hnd.2⟩
      cases he : entryOfNode p s n.key n.info with
      | none =>
        have hm : wstep p .good s (.victims u nw (n :: vs) sk) =
            (s, some (.victims u nw vs (sk ++ [n]))) := by
          simp only [wstep, hfind, he]
        rw [hm]
        refine ⟨rfl, rfl, rfl, rfl, hb, hf, hna, hls.perm ?_⟩
        rw [← List.append_assoc]
        exact List.perm_append_singleton _ _ |>.trans (by simp only [List.cons_append]; exact List.Perm.refl _)
      | some ve =>
        have hm : wstep p .good s (.victims u nw (n :: vs) sk) =
            (handleRemove { s with map := AL.erase s.map n.key } ve,
             some (.victims u nw vs sk)) := by
          simp only [wstep, hfind, he]
        rw [hm]
        have hinfo := entryOfNode_info hd7 he
        have hget := entryOfNode_get he
        obtain ⟨g1, gmap, gmono, gdirty⟩ := evict_g hb.g hget
        obtain ⟨_, hkeep, _⟩ := handleRemove_safe (safe_eraseMap hb.run.safe n.key) ve
        have hfr : Frame0 s (handleRemove { s with map := AL.erase s.map n.key } ve) :=
          (frame0_erase s n.key).trans (handleRemove_frame0 _ _)
        have hqf : QFrame s (handleRemove { s with map := AL.erase s.map n.key } ve) :=
          (qframe_set_map s _).trans (handleRemove_qframe _ _)
        have hb' := wbase_of hb g1.safe hfr
          (hb.run.sk.same ((skSame_erase s n.key).trans (handleRemove_sk _ _)))
          hqf.writeQ hqf.readQ g1.inv
        refine ⟨hqf.writeQ, hqf.readQ, hqf.running, rfl, hb', ?_, gmono _ hna, ?_⟩
        · rw [hqf.writeQ]
          refine ⟨fun hd => hf.dirty (by rw [gdirty] at hd; exact hd), ?_, ?_, fun hx => by cases hx⟩
          · intro c hc hi
            exact hf.wcur c (hfr.mapSub hb.run.map.kn _ _ hc) hi
          · intro _
            rcases hf.gone rfl with ⟨c, a, b⟩ | g
            · refine Or.inl ⟨c, gmap u.key c a ?_, b⟩
              intro e
              rw [e, hget] at a
              have hadm := hb.run.safe.probAdm hn
              rw [← hinfo, Option.some.inj a, b, hna] at hadm
              cases hadm
            · exact Or.inr g
        · refine ⟨fun m hm => hkeep m (hrest.1 m hm) (fun e => ?_), hrest.2⟩
          have hmid : m.id = n.id := hb.run.safe.info_inj (hrest.1 m hm) hn (e.trans hinfo)
          exact hnd.1 (List.mem_map.mpr ⟨m, hm, hmid⟩)
  | reject u sk =>
    have hb : WBase p s pd u := hb
    show WNext p pd u s (wstep p .good s (.reject u sk))
    obtain ⟨hd, hna, hls⟩ := hl
    have hm : wstep p .good s (.reject u sk) =
        (moveSkipped sk (removeCandidate p s u.key u.ve), none) := rfl
    rw [hm]
    obtain ⟨b1, b2, b3⟩ := reject_done hq hb hd hna
    have hqf := (removeCandidate_qframe p s u.key u.ve).trans (moveSkipped_qframe sk _)
    obtain ⟨m1, _⟩ := moveSkipped_safe sk _ b1 (fun n hn => b2 n (hls.1 n hn))
    exact ⟨hqf.writeQ, hqf.readQ, hqf.running,
      rinv_of_done hb m1 ((removeCandidate_frame0 _ _ _ _).trans (moveSkipped_frame0 _ _))
        (hb.run.sk.same ((removeCandidate_sk _ _ _ _).trans (moveSkipped_sk _ _)))
        hqf.writeQ hqf.readQ (b3.same (moveSkipped_same _ _))⟩
  | readCurrentB1 u => exact hl.elim
  | clearDirtyB1 u nw cur => exact hl.elim
  | victimsB2 u nw vs sk ev al => exact hl.elim
  | putBackB2 u ev sk => exact hl.elim

/-! ### maintenance only deletes -/

/-- A micro-step of `ConcM` changes the map only by removing bindings, never decreases the
allocation counter and never adds to the write queue. -/
theorem micro_frame {p : Params} (hq : NoQuirks p) (ex : Bool) (s : SState) (ph : Phase) :
    Frame s (micro p ex s ph).1 ∧ ∀ op, op ∈ (micro p ex s ph).1.writeQ → op ∈ s.writeQ := by
  cases ph with
  | reads f n =>
    cases n with
    | zero => exact ⟨Frame.refl s, fun _ h => h⟩
    | succ n =>
      cases hrq : s.readQ with
      | nil =>
        have hm : (micro p ex s (.reads f (n + 1))).1 = s := by simp only [micro, hrq]
        rw [hm]; exact ⟨Frame.refl s, fun _ h => h⟩
      | cons op rest =>
        have hm : (micro p ex s (.reads f (n + 1))).1 = applyRead p { s with readQ := rest } op := by
          simp only [micro, hrq]
        rw [hm]
        refine ⟨applyRead_frame hq s op rest hrq, fun o ho => ?_⟩
        rw [(applyRead_qframe p { s with readQ := rest } op).writeQ] at ho
        exact ho
  | writes f n =>
    cases n with
    | zero => exact ⟨Frame.refl s, fun _ h => h⟩
    | succ n =>
      cases hwq : s.writeQ with
      | nil =>
        have hm : (micro p ex s (.writes f (n + 1))).1 = s := by simp only [micro, hwq]
        rw [hm]; exact ⟨Frame.refl s, fun _ h => by rw [hwq] at h; exact h⟩
      | cons op rest =>
        have hm : (micro p ex s (.writes f (n + 1))).1
            = applyWrite p { s with writeQ := rest } op := by simp only [micro, hwq]
        rw [hm]
        refine ⟨((frame0_set_writeQ s rest).trans (applyWrite_frame0 _ _ _)).toFrame, fun o ho => ?_⟩
        rw [(applyWrite_qframe p { s with writeQ := rest } op).writeQ] at ho
        exact List.mem_cons_of_mem _ ho
  | enable f =>
    have hm : (micro p ex s (.enable f)).1
        = (if shouldEnableSketch p s = true then enableSketch p s else s) := by
      simp only [micro]; split <;> (split <;> rfl)
    rw [hm]
    split
    · refine ⟨(enableSketch_frame0 p s).toFrame, fun o ho => ?_⟩
      rw [(enableSketch_qframe p s).writeQ] at ho; exact ho
    · exact ⟨Frame.refl s, fun _ h => h⟩
  | expireWo n =>
    cases n with
    | zero => exact ⟨Frame.refl s, fun _ h => h⟩
    | succ n =>
      have hm : (micro p ex s (.expireWo (n + 1))).1 = (expireWoBody p s).1 := by
        simp only [micro]; split <;> rfl
      rw [hm, expireWoBody_eq]
      refine ⟨(removeExpiredWo_frame0 p 1 s).toFrame, fun o ho => ?_⟩
      rw [(removeExpiredWo_qframe p 1 s).writeQ] at ho; exact ho
  | expireAo n =>
    cases n with
    | zero => exact ⟨Frame.refl s, fun _ h => h⟩
    | succ n =>
      have hm : (micro p ex s (.expireAo (n + 1))).1 = (expireAoBody p s).1 := by
        simp only [micro]; split <;> rfl
      rw [hm, expireAoBody_eq]
      refine ⟨(removeExpiredAo_frame0 p 1 s).toFrame, fun o ho => ?_⟩
      rw [(removeExpiredAo_qframe p 1 s).writeQ] at ho; exact ho
  | lru n wte ev =>
    cases n with
    | zero => exact ⟨Frame.refl s, fun _ h => h⟩
    | succ n =>
      have hm : (micro p ex s (.lru (n + 1) wte ev)).1 = (lruBody p s wte ev).1 := by
        simp only [micro]; split <;> rfl
      rw [hm, lruBody_eq]
      refine ⟨(evictLruLoop_frame0 p 1 s wte ev).toFrame, fun o ho => ?_⟩
      rw [(evictLruLoop_qframe p 1 s wte ev).writeQ] at ho; exact ho
  | finish =>
    cases ex with
    | true => exact ⟨(frame0_set_ec_ws s _ _).toFrame, fun _ h => h⟩
    | false =>
      exact ⟨((frame0_set_ec_ws s _ _).trans (frame0_set_running _ _)).toFrame, fun _ h => h⟩

/-- A step of the application of an `Upsert` changes the map only by removing bindings. -/
theorem wstep_frame0 {p : Params} {s : SState} {Qr : List WOp} {pc : WPc}
    (hl : WLocal p s Qr pc) : Frame0 s (wstep p .good s pc).1 := by
  cases pc with
  | clearDirty u =>
    show Frame0 s (withInfo s u.ve.info (fun i => { i with dirty := false }))
    exact frame0_withInfo' _ _ _
  | readCurrent u => exact Frame0.refl s
  | dispatch u nw cur =>
    simp only [wstep]
    split
    · exact applyUpdate_frame0 _ _ _ _ _
    · split
      · exact Frame0.refl s
      · split
        · exact handleAdmit_frame0 _ _ _ _ _ _
        · split
          · exact removeCandidate_frame0 _ _ _ _
          · exact Frame0.refl s
  | scan u nw cf rest acc =>
    have hfin : ∀ a, Frame0 s (finishScan .good s u nw cf a).1 := by
      intro a; unfold finishScan; split <;> exact Frame0.refl s
    cases rest with
    | nil => exact hfin _
    | cons n rest =>
      simp only [wstep]
      split
      · split
        · exact Frame0.refl s
        · split
          · exact hfin _
          · exact Frame0.refl s
      · exact hfin _
  | victims u nw vs sk =>
    cases vs with
    | nil => exact (handleAdmit_frame0 _ _ _ _ _ _).trans (moveSkipped_frame0 _ _)
    | cons n vs =>
      simp only [wstep]
      split
      · exact frame0_fail s _
      · split
        · exact (frame0_erase s n.key).trans (handleRemove_frame0 _ _)
        · exact Frame0.refl s
  | reject u sk => exact (removeCandidate_frame0 _ _ _ _).trans (moveSkipped_frame0 _ _)
  | readCurrentB1 u => exact hl.elim
  | clearDirtyB1 u nw cur => exact hl.elim
  | victimsB2 u nw vs sk ev al => exact hl.elim
  | putBackB2 u ev sk => exact hl.elim

/-! ### the invariant of the reachable states of `ConcF` -/

def FInv (p : Params) (c : FState) : Prop :=
  match c.run with
  | none => CSInv p ⟨c.s, c.pending⟩ ∧ QIds c.s (c.s.writeQ ++ pendWrites c.pending)
  | some r =>
    (r.explicit = true → c.s.running = false) ∧
    match r.w with
    | none => CSInv p ⟨view c.s, c.pending⟩ ∧ QIds c.s (c.s.writeQ ++ pendWrites c.pending)
    | some pc =>
      WBase p c.s c.pending (opOf pc) ∧ WLocal p c.s (c.s.writeQ ++ pendWrites c.pending) pc

theorem finv_init (p : Params) : FInv p {} :=
  ⟨csinv_init p, fun _ _ _ _ _ hm => by cases hm⟩

theorem beginRun_fields (s : SState) (ex : Bool) :
    (beginRun s ex).map = s.map ∧ (beginRun s ex).nextId = s.nextId ∧
    (beginRun s ex).writeQ = s.writeQ := by
  cases ex <;> exact ⟨rfl, rfl, rfl⟩

theorem qids_plain {p : Params} {s : SState} {pd : List (Tid × Pend)}
    (h : QIds s (s.writeQ ++ pendWrites pd)) (hkn : (AL.keys s.map).Nodup)
    (hid : ∀ k c, AL.get? s.map k = some c → c.id < s.nextId) (htid : (pd.map (·.1)).Nodup)
    (e : ConcS.Ev) (hpl : isPlain e = true) {c' : CState}
    (hs : ConcS.step p ⟨s, pd⟩ e = some c') :
    QIds c'.s (c'.s.writeQ ++ pendWrites c'.pending) :=
  qids_eff (ex := []) h hkn hid (plain_step_eff p htid e hpl hs).2

theorem step_finv {p : Params} (hq : NoQuirks p) (hsm : SmallSketch p) {c c' : FState}
    (h : FInv p c) (e : ConcM.Ev) (hs : step p .good c e = some c') : FInv p c' := by
  cases e with
  | other e0 =>
    simp only [step] at hs
    by_cases hpl : isPlain e0 = true
    · rw [if_pos hpl] at hs
      cases h0 : ConcS.step p ⟨c.s, c.pending⟩ e0 with
      | none => rw [h0] at hs; cases hs
      | some c1 =>
        rw [h0] at hs
        have e := Option.some.inj hs
        subst e
        unfold FInv at h ⊢
        cases hr : c.run with
        | none =>
          rw [hr] at h
          simp only
          exact ⟨step_csinv hq hsm h.1 e0 h0,
            qids_plain h.2 h.1.top.map.kn (fun k c hc => (CInv.mapId h.1.cinv k c hc).1) h.1.tids
              e0 hpl h0⟩
        | some r =>
          rw [hr] at h
          dsimp only at h
          simp only
          refine ⟨fun hx => by rw [step_running p _ _ e0 hpl h0]; exact h.1 hx, ?_⟩
          cases hw : r.w with
          | none =>
            rw [hw] at h
            simp only
            have hv := step_view p c.s c.pending e0 hpl
            rw [h0] at hv
            have hri := rinv_of_view h.2.1
            exact ⟨step_csinv hq hsm h.2.1 e0 hv,
              qids_plain h.2.2 hri.run.map.kn (fun k c hc => (hri.cinv.mapId k c hc).1) hri.tids
                e0 hpl h0⟩
          | some pc =>
            rw [hw] at h
            simp only
            exact plain_step_winv hq h.2.1 h.2.2 e0 hpl h0
    · rw [if_neg hpl] at hs; cases hs
  | mBegin t ex =>
    simp only [step] at hs
    unfold FInv at h ⊢
    cases hr : c.run with
    | some r =>
      rw [hr] at hs h
      dsimp only at hs
      cases ex with
      | true => simp only [if_true] at hs; cases hs
      | false =>
        simp only [Bool.false_eq_true, if_false] at hs
        split at hs
        · rw [← Option.some.inj hs]
          simp only [hr]
          exact h
        · cases hs
    | none =>
      rw [hr] at hs h
      dsimp only at hs
      rw [← Option.some.inj hs]
      dsimp only
      obtain ⟨f1, f2, f3⟩ := beginRun_fields c.s ex
      refine ⟨fun hx => by rw [hx]; exact h.1.running, begin_view h.1 ex, ?_⟩
      rw [f3]
      exact h.2.mono (fun k c hc => by rw [f1] at hc; exact hc) (by rw [f2]; exact Nat.le_refl _)
        (fun _ _ _ _ _ hm => hm)
  | mStep t =>
    simp only [step] at hs
    unfold FInv at h ⊢
    cases hr : c.run with
    | none => rw [hr] at hs; cases hs
    | some r =>
      rw [hr] at hs h
      dsimp only at hs h
      by_cases ht : r.tid = t
      · rw [if_pos ht] at hs
        rw [← Option.some.inj hs]
        cases hw : r.w with
        | some pc =>
          rw [hw] at h
          dsimp only at h
          obtain ⟨n1, n2, n3, n4⟩ := wstep_next hq h.2.1 h.2.2
          have hm : fmicro p .good r.explicit c.s r.phase (some pc) =
              ((wstep p .good c.s pc).1, some r.phase, (wstep p .good c.s pc).2) := rfl
          rw [hm]
          simp only [Option.map_some]
          refine ⟨fun hx => by rw [n3]; exact h.1 hx, ?_⟩
          cases hpc : (wstep p .good c.s pc).2 with
          | some pc' =>
            rw [hpc] at n4
            simp only
            exact ⟨by rw [n4.1]; exact n4.2.1, n4.2.2⟩
          | none =>
            rw [hpc] at n4
            simp only
            exact ⟨view_of_rinv n4.1, n4.2⟩
        | none =>
          rw [hw] at h
          dsimp only at h
          have hri := rinv_of_view h.2.1
          -- is this the receipt of an `Upsert`?
          have hcases : (∃ f n key hash ve oldW newW rest, r.phase = .writes f (n + 1) ∧
              c.s.writeQ = .upsert key hash ve oldW newW :: rest) ∨
              fmicro p .good r.explicit c.s r.phase none =
                ((micro p r.explicit c.s r.phase).1, (micro p r.explicit c.s r.phase).2, none) := by
            cases hph : r.phase with
            | writes f n =>
              cases n with
              | zero => exact Or.inr rfl
              | succ n =>
                cases hq' : c.s.writeQ with
                | nil => exact Or.inr (by simp only [fmicro, hq'])
                | cons op rest =>
                  cases op with
                  | remove k ve => exact Or.inr (by simp only [fmicro, hq'])
                  | upsert key hash ve oldW newW =>
                    exact Or.inl ⟨f, n, key, hash, ve, oldW, newW, rest, rfl, rfl⟩
            | reads f n => exact Or.inr rfl
            | enable f => exact Or.inr rfl
            | expireWo n => exact Or.inr rfl
            | expireAo n => exact Or.inr rfl
            | lru n wte ev => exact Or.inr rfl
            | finish => exact Or.inr rfl
          rcases hcases with ⟨f, n, key, hash, ve, oldW, newW, rest, hph, hwq⟩ | hm
          · have hm : fmicro p .good r.explicit c.s r.phase none =
                ({ c.s with writeQ := rest }, some (.writes f n),
                 some (.clearDirty ⟨key, hash, ve, oldW, newW⟩)) := by
              rw [hph]; simp only [fmicro, hwq, firstPc]
            rw [hm]
            simp only [Option.map_some]
            refine ⟨h.1, ?_, trivial⟩
            have hc := hri.cinv
            rw [hwq] at hc
            have hqi := h.2.2
            rw [hwq] at hqi
            exact ⟨runinv_of_eq hri.run rfl rfl rfl rfl rfl rfl rfl rfl rfl,
              hc.same (same_of_eq rfl rfl rfl rfl rfl rfl), hri.tids,
              by show rest.length ≤ _; have := hri.wq; rw [hwq] at this
                 exact Nat.le_trans (Nat.le_succ _) this,
              hri.rq, hqi.mono (fun _ _ hc => hc) (Nat.le_refl _) (fun _ _ _ _ _ hm => hm)⟩
          · rw [hm]
            obtain ⟨m1, m2⟩ := micro_rinv hq hsm r.explicit hri r.phase
            obtain ⟨fr, fq⟩ := micro_frame hq r.explicit c.s r.phase
            have hqids : QIds (micro p r.explicit c.s r.phase).1
                ((micro p r.explicit c.s r.phase).1.writeQ ++ pendWrites c.pending) := by
              refine h.2.2.mono (fr.mapSub hri.run.map.kn) fr.nextId ?_
              intro k hh v o w hmem
              rcases List.mem_append.mp hmem with a | a
              · exact List.mem_append_left _ (fq _ a)
              · exact List.mem_append_right _ a
            cases hph : (micro p r.explicit c.s r.phase).2 with
            | some ph =>
              simp only [Option.map_some]
              refine ⟨fun hx => ?_, view_of_rinv m1, hqids⟩
              rw [m2 (Or.inl (by rw [hph]; rfl))]
              exact h.1 hx
            | none =>
              simp only [Option.map_none]
              have hfin := micro_none hph
              rw [hfin] at hqids ⊢
              cases hex : r.explicit with
              | true =>
                rw [hex] at hqids
                have hmm : (micro p true c.s .finish).1 = { c.s with ec := c.s.cec, ws := c.s.cws } :=
                  rfl
                rw [hmm] at hqids ⊢
                rw [view_eq_of_not_running (h.1 hex)] at hqids ⊢
                exact ⟨h.2.1, hqids⟩
              | false =>
                rw [hex] at hqids
                exact ⟨h.2.1, hqids⟩
      · rw [if_neg ht] at hs; cases hs

theorem reach_finv {p : Params} (hq : NoQuirks p) (hsm : SmallSketch p) {c : FState}
    (h : Reach p c) : FInv p c := by
  induction h with
  | init => exact finv_init p
  | step e _ hs ih => exact step_finv hq hsm ih e hs

/-! ### consequences -/

/-- The map holds at most `|access-order list| + |logical queue|` entries. -/
theorem cinv_map_length_le {p : Params} {s : SState} {Q : List WOp} (hc : CInv p s Q)
    (hnc : NodesCore s) (hkn : (AL.keys s.map).Nodup) :
    s.map.length ≤ s.prob.length + Q.length := by
  let opKey : WOp → Nat := fun op => match op with
    | .upsert k _ _ _ _ => k
    | .remove k _ => k
  have h1 : (AL.keys s.map).length ≤ (s.prob.map (·.key) ++ Q.map opKey).length := by
    refine nodup_length_le _ _ hkn ?_
    intro k hk
    obtain ⟨ve, hve⟩ : ∃ ve, AL.get? s.map k = some ve := by
      have := (AL.get?_isSome_iff s.map k).mpr hk
      cases hx : AL.get? s.map k with
      | none => rw [hx] at this; cases this
      | some ve => exact ⟨ve, rfl⟩
    rcases hc.cur k ve hve with ⟨hh, o, w, hq⟩ | ⟨hadm, _⟩
    · exact List.mem_append_right _ (List.mem_map.mpr ⟨_, hq, rfl⟩)
    · obtain ⟨id, hao⟩ := hnc.adm_ao hadm
      obtain ⟨n, hn, _, hni⟩ := hnc.aoNode _ _ hao
      refine List.mem_append_left _ (List.mem_map.mpr ⟨n, hn, ?_⟩)
      have a1 := hc.nodeKey n hn
      have a2 := hc.mapKey k ve hve
      rw [hni] at a1
      exact a1.symm.trans a2
  rw [AL.keys_eq_map, List.length_map, List.length_append, List.length_map, List.length_map] at h1
  exact h1

theorem finv_nofault {p : Params} {c : FState} (h : FInv p c) : c.s.fault = none := by
  unfold FInv at h
  cases hr : c.run with
  | none => rw [hr] at h; exact h.1.top.nofault
  | some r =>
    rw [hr] at h
    dsimp only at h
    cases hw : r.w with
    | none => rw [hw] at h; exact h.2.1.top.nofault
    | some pc => rw [hw] at h; exact h.2.1.run.safe.nofault

/-- A micro-step of a run leaves every binding of the map unchanged or removes it. -/
theorem finv_mstep_mapsub {p : Params} (hq : NoQuirks p) {c c' : FState} (h : FInv p c)
    (t : Tid) (hs : step p .good c (.mStep t) = some c') :
    ∀ k ve, AL.get? c'.s.map k = some ve → AL.get? c.s.map k = some ve := by
  simp only [step] at hs
  unfold FInv at h
  cases hr : c.run with
  | none => rw [hr] at hs; cases hs
  | some r =>
    rw [hr] at hs h
    dsimp only at hs h
    by_cases ht : r.tid = t
    · rw [if_pos ht] at hs
      rw [← Option.some.inj hs]
      dsimp only
      cases hw : r.w with
      | some pc =>
        rw [hw] at h
        dsimp only at h
        have hm : (fmicro p .good r.explicit c.s r.phase (some pc)).1 = (wstep p .good c.s pc).1 := rfl
        rw [hm]
        exact (wstep_frame0 h.2.2).mapSub h.2.1.run.map.kn
      | none =>
        rw [hw] at h
        dsimp only at h
        have hkn := (rinv_of_view h.2.1).run.map.kn
        have hcases : (fmicro p .good r.explicit c.s r.phase none).1.map = c.s.map ∨
            (fmicro p .good r.explicit c.s r.phase none).1 = (micro p r.explicit c.s r.phase).1 := by
          cases hph : r.phase with
          | writes f n =>
            cases n with
            | zero => exact Or.inr rfl
            | succ n =>
              cases hq' : c.s.writeQ with
              | nil => exact Or.inr (by simp only [fmicro, hq'])
              | cons op rest =>
                cases op with
                | remove k ve => exact Or.inr (by simp only [fmicro, hq'])
                | upsert key hash ve oldW newW => exact Or.inl (by simp only [fmicro, hq'])
          | reads f n => exact Or.inr rfl
          | enable f => exact Or.inr rfl
          | expireWo n => exact Or.inr rfl
          | expireAo n => exact Or.inr rfl
          | lru n wte ev => exact Or.inr rfl
          | finish => exact Or.inr rfl
        rcases hcases with e | e
        · intro k ve hk; rw [e] at hk; exact hk
        · rw [e]; exact (micro_frame hq r.explicit c.s r.phase).1.mapSub hkn
    · rw [if_neg ht] at hs; cases hs

/-! ### every run ends -/

/-- From any program counter of the current code, the application of the `Upsert` finishes. -/
theorem wpath_done (p : Params) (s : SState) (pc : WPc) (hl : ∃ Qr, WLocal p s Qr pc) : ∃ s', WPath p .good (s, pc) (s', none) := by
  have hvict : ∀ u nw vs sk s0, ∃ s', WPath p .good (s0, .victims u nw vs sk) (s', none) :=
    fun u nw vs sk s0 => ⟨_, wpath_victims p u nw vs s0 sk⟩
  have hrej : ∀ u sk s0, ∃ s', WPath p .good (s0, .reject u sk) (s', none) :=
    fun u sk s0 => ⟨_, WPath.last rfl⟩
  have hscan : ∀ u nw cf rest acc s0, ∃ s', WPath p .good (s0, .scan u nw cf rest acc) (s', none) := by
    intro u nw cf rest acc s0
    have h1 := wpath_scan p s0 u nw cf rest acc
    generalize admitLoop p s0 nw cf rest acc = a at h1
    unfold finishScan at h1
    by_cases hc : a.vw ≥ nw ∧ cf > a.vf
    · rw [if_pos hc] at h1
      dsimp only at h1
      obtain ⟨s', h2⟩ := hvict u nw a.victims a.skipped s0
      exact ⟨s', h1.trans rfl h2⟩
    · rw [if_neg hc] at h1
      obtain ⟨s', h2⟩ := hrej u a.skipped s0
      exact ⟨s', h1.trans rfl h2⟩
  have hdisp : ∀ u nw cur s0, ∃ s', WPath p .good (s0, .dispatch u nw cur) (s', none) := by
    intro u nw cur s0
    by_cases c1 : (getInfo s0 u.ve.info).admitted = true
    · exact ⟨applyUpdate p s0 u.ve u.oldW nw, WPath.last (by simp only [wstep, if_pos c1])⟩
    · by_cases c2 : (!p.q.d7 && !cur) = true
      · exact ⟨s0, WPath.last (by simp only [wstep, if_neg c1, if_pos c2])⟩
      · by_cases c3 : hasEnoughCapacity p nw s0 = true
        · exact ⟨handleAdmit p s0 u.key u.hash u.ve nw,
            WPath.last (by simp only [wstep, if_neg c1, if_neg c2, if_pos c3])⟩
        · by_cases c4 : tooBig p nw = true
          · exact ⟨removeCandidate p s0 u.key u.ve,
              WPath.last (by simp only [wstep, if_neg c1, if_neg c2, if_neg c3, if_pos c4])⟩
          · obtain ⟨s', h2⟩ := hscan u nw (s0.sk.frequency u.hash) s0.prob {} s0
            exact ⟨s', WPath.step (s1 := s0)
              (by simp only [wstep, if_neg c1, if_neg c2, if_neg c3, if_neg c4]) h2⟩
  cases pc with
  | clearDirty u =>
    obtain ⟨s', h2⟩ := hdisp u _ _ (withInfo s u.ve.info (fun i => { i with dirty := false }))
    exact ⟨s', WPath.step (pc1 := .readCurrent u) rfl (WPath.step (pc1 := .dispatch u _ _) rfl h2)⟩
  | readCurrent u =>
    obtain ⟨s', h2⟩ := hdisp u _ _ s
    exact ⟨s', WPath.step (pc1 := .dispatch u _ _) rfl h2⟩
  | dispatch u nw cur => exact hdisp u nw cur s
  | scan u nw cf rest acc => exact hscan u nw cf rest acc s
  | victims u nw vs sk => exact hvict u nw vs sk s
  | reject u sk => exact hrej u sk s
  | readCurrentB1 u => obtain ⟨_, h⟩ := hl; exact h.elim
  | clearDirtyB1 u nw cur => obtain ⟨_, h⟩ := hl; exact h.elim
  | victimsB2 u nw vs sk ev al => obtain ⟨_, h⟩ := hl; exact h.elim
  | putBackB2 u ev sk => obtain ⟨_, h⟩ := hl; exact h.elim

/-- From any phase, the run of `ConcM` finishes. -/
theorem mpath_done (p : Params) (ex : Bool) (s : SState) (ph : Phase) :
    ∃ s', MPath p ex (s, ph) (s', none) := by
  have hfin : ∀ s0, ∃ s', MPath p ex (s0, .finish) (s', none) := by
    intro s0
    cases ex with
    | true => exact ⟨_, MPath.last rfl⟩
    | false => exact ⟨_, MPath.last rfl⟩
  have hlru : ∀ s0, ∃ s', MPath p ex (s0, lruStart p s0) (s', none) := by
    intro s0
    obtain ⟨s', h2⟩ := hfin (if weightsToEvict p s0 > 0
      then evictLruLoop p Gen.SYNC_EVICTION_BATCH_SIZE s0 (weightsToEvict p s0) 0 else s0)
    exact ⟨s', (mpath_lruStart p ex s0).trans rfl h2⟩
  have hafter : ∀ s0, ∃ s', MPath p ex (s0, afterLoop p s0) (s', none) := by
    intro s0
    obtain ⟨s', h2⟩ := hlru (if (p.hasExpiry || s0.va.isSome) = true then evictExpired p s0 else s0)
    exact ⟨s', (mpath_afterLoop p ex s0).trans rfl h2⟩
  have hpass : ∀ f s0, ∃ s', MPath p ex (s0, passStart p f s0) (s', none) := by
    intro f s0
    obtain ⟨s', h2⟩ := hafter (syncLoop p f s0)
    exact ⟨s', (mpath_loop p ex f s0).trans rfl h2⟩
  have henable : ∀ f s0, ∃ s', MPath p ex (s0, .enable f) (s', none) := by
    intro f s0
    by_cases hc : ((if shouldEnableSketch p s0 = true then enableSketch p s0 else s0).readQ.length
          ≥ Gen.READ_LOG_FLUSH_POINT ||
        (if shouldEnableSketch p s0 = true then enableSketch p s0 else s0).writeQ.length
          ≥ Gen.WRITE_LOG_FLUSH_POINT) = true
    · obtain ⟨s', h2⟩ := hpass f (if shouldEnableSketch p s0 = true then enableSketch p s0 else s0)
      refine ⟨s', MPath.step (ph1 := passStart p f
        (if shouldEnableSketch p s0 = true then enableSketch p s0 else s0)) ?_ h2⟩
      simp only [micro]; rw [if_pos hc]
    · obtain ⟨s', h2⟩ := hafter (if shouldEnableSketch p s0 = true then enableSketch p s0 else s0)
      refine ⟨s', MPath.step (ph1 := afterLoop p
        (if shouldEnableSketch p s0 = true then enableSketch p s0 else s0)) ?_ h2⟩
      simp only [micro]; rw [if_neg hc]
  have hwrites : ∀ f n s0, ∃ s', MPath p ex (s0, .writes f n) (s', none) := by
    intro f n s0
    obtain ⟨s', h2⟩ := henable f (applyWrites p n s0)
    exact ⟨s', (mpath_writes p ex f n s0).trans rfl h2⟩
  cases ph with
  | reads f n =>
    obtain ⟨s', h2⟩ := hwrites f (applyReads p n s).writeQ.length (applyReads p n s)
    exact ⟨s', (mpath_reads p ex f n s).trans rfl h2⟩
  | writes f n => exact hwrites f n s
  | enable f => exact henable f s
  | expireWo n =>
    have h1 := mpath_expireWo p ex n s
    have hao : ∀ s1, ∃ s', MPath p ex (s1, aoStart p s1) (s', none) := by
      intro s1
      unfold aoStart
      by_cases h2 : (p.tti.isSome || s1.va.isSome) = true
      · rw [if_pos h2]
        obtain ⟨s', h3⟩ := hlru (removeExpiredAo p Gen.SYNC_EVICTION_BATCH_SIZE s1)
        exact ⟨s', (mpath_expireAo p ex _ s1).trans rfl h3⟩
      · rw [if_neg h2]; exact hlru s1
    obtain ⟨s', h3⟩ := hao (removeExpiredWo p n s)
    exact ⟨s', h1.trans rfl h3⟩
  | expireAo n =>
    obtain ⟨s', h3⟩ := hlru (removeExpiredAo p n s)
    exact ⟨s', (mpath_expireAo p ex n s).trans rfl h3⟩
  | lru n wte ev =>
    obtain ⟨s', h3⟩ := hfin (evictLruLoop p n s wte ev)
    exact ⟨s', (mpath_lru p ex wte n s ev).trans rfl h3⟩
  | finish => exact hfin s

theorem fpath_of_mpath {p : Params} {ex : Bool} {a : SState × Phase} {b : SState × Option Phase}
    (h : MPath p ex a b) : FPath p .good ex (a.1, a.2, none) (b.1, b.2, none) := by
  induction h with
  | refl s ph => exact FPath.refl _ _ _
  | @step s s1 ph ph1 r hm _ ih =>
    have h1 := fpath_of_micro p ex s ph
    rw [hm] at h1
    exact h1.trans rfl ih
  | @last s s1 ph hm =>
    have h1 := fpath_of_micro p ex s ph
    rw [hm] at h1
    exact h1

/-- A back-to-back path is a list of `mStep t` events. -/
theorem runEvs_of_fpath' {p : Params} {v : Variant} {ex : Bool} {a : SState × Phase × Option WPc}
    {b : SState × Option Phase × Option WPc} (h : FPath p v ex a b) (t : Tid)
    (pd : List (Tid × Pend)) :
    ∃ n, runEvs p v ⟨a.1, pd, some ⟨t, ex, a.2.1, a.2.2⟩⟩ (List.replicate n (.mStep t)) =
      some ⟨b.1, pd, b.2.1.map fun ph => ⟨t, ex, ph, b.2.2⟩⟩ := by
  induction h with
  | refl s ph w => exact ⟨0, rfl⟩
  | step hm _ ih =>
    obtain ⟨n, he⟩ := ih
    refine ⟨n + 1, ?_⟩
    simp only [List.replicate_succ, runEvs, step, if_true, hm, Option.map_some]
    exact he
  | last hm =>
    refine ⟨1, ?_⟩
    simp only [List.replicate_succ, List.replicate_zero, runEvs, step, if_true, hm, Option.map_none]

/-- From every state of the invariant with a run in progress, micro-steps of the running thread
end the run. -/
theorem run_terminates {p : Params} {c : FState} (h : FInv p c) (r : FRun)
    (hr : c.run = some r) :
    ∃ n s', runEvs p .good c (List.replicate n (.mStep r.tid)) = some ⟨s', c.pending, none⟩ := by
  unfold FInv at h
  rw [hr] at h
  dsimp only at h
  have hc : c = ⟨c.s, c.pending, some ⟨r.tid, r.explicit, r.phase, r.w⟩⟩ := by
    cases c; simp only at hr; rw [hr]
  -- finish the `Upsert` being applied, if any
  have h1 : ∃ s1, FPath p .good r.explicit (c.s, r.phase, r.w) (s1, some r.phase, none) := by
    cases hw : r.w with
    | none => exact ⟨c.s, FPath.refl _ _ _⟩
    | some pc =>
      rw [hw] at h
      obtain ⟨s1, hp⟩ := wpath_done p c.s pc ⟨_, h.2.2⟩
      exact ⟨s1, fpath_of_wpath hp r.phase⟩
  obtain ⟨s1, p1⟩ := h1
  obtain ⟨s2, p2⟩ := mpath_done p r.explicit s1 r.phase
  have p3 := p1.trans rfl (fpath_of_mpath p2)
  obtain ⟨n, he⟩ := runEvs_of_fpath' p3 r.tid c.pending
  refine ⟨n, s2, ?_⟩
  rw [hc]
  exact he

/-! ### without a capacity limit: no size eviction, no admission scan -/

def notLru : Phase → Prop
  | .lru _ _ _ => False
  | _ => True

theorem lruStart_none {p : Params} (hcap : p.cap = none) (s : SState) : lruStart p s = .finish := by
  unfold lruStart weightsToEvict
  rw [hcap]
  simp

theorem aoStart_notLru {p : Params} (hcap : p.cap = none) (s : SState) : notLru (aoStart p s) := by
  unfold aoStart
  split
  · trivial
  · rw [lruStart_none hcap]; trivial

theorem afterLoop_notLru {p : Params} (hcap : p.cap = none) (s : SState) :
    notLru (afterLoop p s) := by
  unfold afterLoop
  split
  · split
    · trivial
    · exact aoStart_notLru hcap s
  · rw [lruStart_none hcap]; trivial

theorem passStart_notLru {p : Params} (hcap : p.cap = none) (f : Nat) (s : SState) :
    notLru (passStart p f s) := by
  cases f with
  | zero => exact afterLoop_notLru hcap s
  | succ f => trivial

theorem micro_notLru {p : Params} (hcap : p.cap = none) (ex : Bool) (s : SState) (ph : Phase)
    (hph : notLru ph) (ph' : Phase) (h : (micro p ex s ph).2 = some ph') : notLru ph' := by
  cases ph with
  | reads f n =>
    cases n with
    | zero => simp only [micro] at h; rw [← Option.some.inj h]; trivial
    | succ n =>
      simp only [micro] at h
      split at h <;> (rw [← Option.some.inj h]; trivial)
  | writes f n =>
    cases n with
    | zero => simp only [micro] at h; rw [← Option.some.inj h]; trivial
    | succ n =>
      simp only [micro] at h
      split at h <;> (rw [← Option.some.inj h]; trivial)
  | enable f =>
    simp only [micro] at h
    split at h
    · split at h
      · rw [← Option.some.inj h]; exact passStart_notLru hcap _ _
      · rw [← Option.some.inj h]; exact afterLoop_notLru hcap _
    · split at h
      · rw [← Option.some.inj h]; exact passStart_notLru hcap _ _
      · rw [← Option.some.inj h]; exact afterLoop_notLru hcap _
  | expireWo n =>
    cases n with
    | zero => simp only [micro] at h; rw [← Option.some.inj h]; exact aoStart_notLru hcap _
    | succ n =>
      simp only [micro] at h
      split at h
      · rw [← Option.some.inj h]; trivial
      · rw [← Option.some.inj h]; exact aoStart_notLru hcap _
  | expireAo n =>
    cases n with
    | zero =>
      simp only [micro] at h; rw [← Option.some.inj h, lruStart_none hcap]; trivial
    | succ n =>
      simp only [micro] at h
      split at h
      · rw [← Option.some.inj h]; trivial
      · rw [← Option.some.inj h, lruStart_none hcap]; trivial
  | lru n wte ev => exact hph.elim
  | finish =>
    cases ex <;> (simp only [micro] at h; cases h)

def simplePc : WPc → Prop
  | .clearDirty _ => True
  | .readCurrent _ => True
  | .dispatch _ _ _ => True
  | _ => False

/-- Without `max_capacity` a run never enters the LRU eviction loop and an `Upsert` never gets
to the admission scan. -/
def Simple (c : FState) : Prop :=
  ∀ r, c.run = some r → notLru r.phase ∧ ∀ pc, r.w = some pc → simplePc pc

theorem wstep_simple {p : Params} (hcap : p.cap = none) (s : SState) (pc : WPc)
    (h : simplePc pc) (pc' : WPc) (h2 : (wstep p .good s pc).2 = some pc') : simplePc pc' := by
  cases pc with
  | clearDirty u => simp only [wstep] at h2; rw [← Option.some.inj h2]; trivial
  | readCurrent u => simp only [wstep] at h2; rw [← Option.some.inj h2]; trivial
  | dispatch u nw cur =>
    simp only [wstep, hasEnoughCapacity_none hcap, if_true] at h2
    split at h2
    · cases h2
    · split at h2 <;> cases h2
  | scan u nw cf rest acc => exact h.elim
  | victims u nw vs sk => exact h.elim
  | reject u sk => exact h.elim
  | readCurrentB1 u => exact h.elim
  | clearDirtyB1 u nw cur => exact h.elim
  | victimsB2 u nw vs sk ev al => exact h.elim
  | putBackB2 u ev sk => exact h.elim

theorem step_simple {p : Params} (hcap : p.cap = none) {c c' : FState} (h : Simple c)
    (e : ConcM.Ev) (hs : step p .good c e = some c') : Simple c' := by
  cases e with
  | other e0 =>
    simp only [step] at hs
    split at hs
    · cases h0 : ConcS.step p ⟨c.s, c.pending⟩ e0 with
      | none => rw [h0] at hs; cases hs
      | some c1 => rw [h0] at hs; rw [← Option.some.inj hs]; exact h
    · cases hs
  | mBegin t ex =>
    simp only [step] at hs
    cases hr : c.run with
    | some r =>
      rw [hr] at hs
      dsimp only at hs
      split at hs
      · cases hs
      · split at hs
        · rw [← Option.some.inj hs]; exact h
        · cases hs
    | none =>
      rw [hr] at hs
      dsimp only at hs
      rw [← Option.some.inj hs]
      intro r hr'
      have e := Option.some.inj hr'
      rw [← e]
      exact ⟨passStart_notLru hcap (Gen.MAX_SYNC_REPEATS + 1) (beginRun c.s ex),
        fun pc hx => by cases hx⟩
  | mStep t =>
    simp only [step] at hs
    cases hr : c.run with
    | none => rw [hr] at hs; cases hs
    | some r =>
      rw [hr] at hs
      dsimp only at hs
      obtain ⟨g1, g2⟩ := h r hr
      by_cases ht : r.tid = t
      · rw [if_pos ht] at hs
        rw [← Option.some.inj hs]
        intro r' hr'
        dsimp only at hr'
        cases hw : r.w with
        | some pc =>
          have hm : fmicro p .good r.explicit c.s r.phase (some pc) =
              ((wstep p .good c.s pc).1, some r.phase, (wstep p .good c.s pc).2) := rfl
          rw [hw, hm] at hr'
          simp only [Option.map_some] at hr'
          rw [← Option.some.inj hr']
          exact ⟨g1, fun pc' hx => wstep_simple hcap c.s pc (g2 pc hw) pc' hx⟩
        | none =>
          rw [hw] at hr'
          have hcases : (∃ f n u, r.phase = .writes f (n + 1) ∧
              (fmicro p .good r.explicit c.s r.phase none).2 =
                (some (.writes f n), some (.clearDirty u))) ∨
              ((fmicro p .good r.explicit c.s r.phase none).2 =
                ((micro p r.explicit c.s r.phase).2, none)) := by
            cases hph : r.phase with
            | writes f n =>
              cases n with
              | zero => exact Or.inr rfl
              | succ n =>
                cases hq' : c.s.writeQ with
                | nil => exact Or.inr (by simp only [fmicro, hq'])
                | cons op rest =>
                  cases op with
                  | remove k ve => exact Or.inr (by simp only [fmicro, hq'])
                  | upsert key hash ve oldW newW =>
                    exact Or.inl ⟨f, n, ⟨key, hash, ve, oldW, newW⟩, rfl,
                      by simp only [fmicro, hq', firstPc]⟩
            | reads f n => exact Or.inr rfl
            | enable f => exact Or.inr rfl
            | expireWo n => exact Or.inr rfl
            | expireAo n => exact Or.inr rfl
            | lru n wte ev => exact Or.inr rfl
            | finish => exact Or.inr rfl
          rcases hcases with ⟨f, n, u, _, hm⟩ | hm
          · rw [hm] at hr'
            simp only [Option.map_some] at hr'
            rw [← Option.some.inj hr']
            exact ⟨trivial, fun pc' hx => by rw [← Option.some.inj hx]; trivial⟩
          · rw [hm] at hr'
            cases hph : (micro p r.explicit c.s r.phase).2 with
            | none => rw [hph] at hr'; cases hr'
            | some ph' =>
              rw [hph] at hr'
              simp only [Option.map_some] at hr'
              rw [← Option.some.inj hr']
              exact ⟨micro_notLru hcap r.explicit c.s r.phase g1 ph' hph, fun pc hx => by cases hx⟩
      · rw [if_neg ht] at hs; cases hs

theorem reach_simple {p : Params} (hcap : p.cap = none) {c : FState} (h : Reach p c) :
    Simple c := by
  induction h with
  | init => intro r hr; cases hr
  | step e _ hs ih => exact step_simple hcap ih e hs

/-- Without `max_capacity`, a micro-step of a run keeps every binding of the map, except that
an iteration of an expiry loop may remove an entry that is expired or hidden by the watermark
(judged on the state after the step). -/
theorem mstep_kept_none {p : Params} (hq : NoQuirks p) (hcap : p.cap = none) {c c' : FState}
    (h : FInv p c) (hsim : Simple c) (t : Tid) (hs : step p .good c (.mStep t) = some c')
    (k : Nat) (ve : VE) (hk : AL.get? c.s.map k = some ve) :
    AL.get? c'.s.map k = some ve ∨
      isExpiredInfo p c'.s (getInfo c'.s ve.info) c'.s.now = true := by
  have hd8 : p.q.d8 = false := by rw [hq]
  simp only [step] at hs
  unfold FInv at h
  cases hr : c.run with
  | none => rw [hr] at hs; cases hs
  | some r =>
    rw [hr] at hs h
    dsimp only at hs h
    obtain ⟨g1, g2⟩ := hsim r hr
    by_cases ht : r.tid = t
    · rw [if_pos ht] at hs
      rw [← Option.some.inj hs]
      dsimp only
      have hsame : ∀ s' : SState, s'.map = c.s.map → AL.get? s'.map k = some ve ∨
          isExpiredInfo p s' (getInfo s' ve.info) s'.now = true :=
        fun s' e => Or.inl (by rw [e]; exact hk)
      cases hw : r.w with
      | some pc =>
        have hm : (fmicro p .good r.explicit c.s r.phase (some pc)).1 = (wstep p .good c.s pc).1 := rfl
        rw [hm]
        refine hsame _ ?_
        have hsp := g2 pc hw
        cases pc with
        | clearDirty u => rfl
        | readCurrent u => rfl
        | dispatch u nw cur =>
          simp only [wstep, hasEnoughCapacity_none hcap, if_true]
          split
          · exact applyUpdate_map _ _ _ _ _
          · split
            · rfl
            · exact (handleAdmit_spec hd8 c.s u.key u.hash u.ve nw).1
        | scan u nw cf rest acc => exact hsp.elim
        | victims u nw vs sk => exact hsp.elim
        | reject u sk => exact hsp.elim
        | readCurrentB1 u => exact hsp.elim
        | clearDirtyB1 u nw cur => exact hsp.elim
        | victimsB2 u nw vs sk ev al => exact hsp.elim
        | putBackB2 u ev sk => exact hsp.elim
      | none =>
        rw [hw] at h
        dsimp only at h
        have hkn := (rinv_of_view h.2.1).run.map.kn
        have hkept : ∀ s' : SState, Kept p c.s s' → Frame0 c.s s' → AL.get? s'.map k = some ve ∨
            isExpiredInfo p s' (getInfo s' ve.info) s'.now = true := by
          intro s' hkp hf
          rcases hkp hkn k ve hk with a | a
          · exact Or.inl a
          · exact Or.inr (by rw [isExpiredInfo_frame0 p hf]; exact a)
        cases hph : r.phase with
        | reads f n =>
          cases n with
          | zero => exact hsame _ rfl
          | succ n =>
            cases hrq : c.s.readQ with
            | nil => exact hsame _ (by simp only [fmicro, micro, hrq])
            | cons op rest =>
              refine hsame _ ?_
              have : (fmicro p .good r.explicit c.s (.reads f (n + 1)) none).1 =
                  applyRead p { c.s with readQ := rest } op := by simp only [fmicro, micro, hrq]
              rw [this]
              exact (applyRead_same p _ op).map
        | writes f n =>
          cases n with
          | zero => exact hsame _ rfl
          | succ n =>
            cases hwq : c.s.writeQ with
            | nil => exact hsame _ (by simp only [fmicro, micro, hwq])
            | cons op rest =>
              cases op with
              | upsert key hash ve' oldW newW =>
                exact hsame _ (by simp only [fmicro, hwq])
              | remove k' ve' =>
                refine hsame _ ?_
                have : (fmicro p .good r.explicit c.s (.writes f (n + 1)) none).1 =
                    handleRemove { c.s with writeQ := rest } ve' := by
                  simp only [fmicro, micro, hwq, applyWrite]
                rw [this]
                exact handleRemove_map _ _
        | enable f =>
          refine hsame _ ?_
          have : (fmicro p .good r.explicit c.s (.enable f) none).1
              = (if shouldEnableSketch p c.s = true then enableSketch p c.s else c.s) := by
            simp only [fmicro, micro]; split <;> (split <;> rfl)
          rw [this]
          split
          · exact (enableSketch_same p c.s).map
          · rfl
        | expireWo n =>
          cases n with
          | zero => exact hsame _ rfl
          | succ n =>
            have : (fmicro p .good r.explicit c.s (.expireWo (n + 1)) none).1
                = removeExpiredWo p 1 c.s := by
              rw [← expireWoBody_eq]
              simp only [fmicro, micro]; split <;> rfl
            rw [this]
            exact hkept _ (removeExpiredWo_kept p 1 c.s) (removeExpiredWo_frame0 p 1 c.s)
        | expireAo n =>
          cases n with
          | zero => exact hsame _ rfl
          | succ n =>
            have : (fmicro p .good r.explicit c.s (.expireAo (n + 1)) none).1
                = removeExpiredAo p 1 c.s := by
              rw [← expireAoBody_eq]
              simp only [fmicro, micro]; split <;> rfl
            rw [this]
            exact hkept _ (removeExpiredAo_kept p 1 c.s) (removeExpiredAo_frame0 p 1 c.s)
        | lru n wte ev => rw [hph] at g1; exact g1.elim
        | finish =>
          refine hsame _ ?_
          cases hex : r.explicit <;> rfl
    · rw [if_neg ht] at hs; cases hs

end ConcF
end MiniMoka
