/-
  Lifting per-step facts of the unsync model to whole traces.
-/
import MiniMoka.Lemmas.UnsyncStep
import MiniMoka.Lemmas.Sort
import MiniMoka.Spec.Oracles

namespace MiniMoka
namespace Unsync

/-- If a check holds for the observation of every step taken from a state satisfying
the invariant, it holds for every element of every trace. -/
theorem run_all {P : Sketch → Prop} (L : SketchLaws P) {p : Params} (hq : NoQuirks p)
    (hsm : SmallSketch p) (check : Op × Obs → Bool)
    (hstep : ∀ s op, Inv P p s → check (op, (step p s op).2) = true) :
    ∀ (h : List Op) (s : UState), Inv P p s → (run p s h).all check = true := by
  intro h
  induction h with
  | nil => intro s _; rfl
  | cons op rest ih =>
    intro s hi
    simp only [run, List.all_cons, Bool.and_eq_true]
    exact ⟨hstep s op hi, ih _ (step_inv L hq hsm hi op)⟩

/-- The observation of a step from a fault-free state whose result is fault-free. -/
theorem step_obs {P : Sketch → Prop} (L : SketchLaws P) {p : Params} (hq : NoQuirks p)
    (hsm : SmallSketch p) {s : UState} (hi : Inv P p s) (op : Op) :
    (step p s op).2 = match op with
      | .ins _ _ => .ok
      | .get k => .val (get p s k).2
      | .has k => .bool (containsKey p s k).2
      | .iter => .iter (sortBy (·.1) (iter p s))
      | .inv _ => .ok
      | .invAll => .ok
      | .invIf _ => .ok
      | .sync => .badOp
      | .adv _ => .ok
      | .snap => .snap (snapshot p s)
      | .freq k => .freq (s.sk.frequency (p.hash k)) := by
  have hnf := hi.inv.struct.noFault
  have hnext := (step_inv L hq hsm hi op).inv.struct.noFault
  unfold step at hnext ⊢
  simp only [hnf, Option.isSome_none, Bool.false_eq_true, if_false] at hnext ⊢
  cases op <;> dsimp only at hnext ⊢ <;> (split at hnext <;> simp_all)

theorem snapshot_counters {p : Params} {s : UState} (hi : InvU p s) :
    Spec.snapCountersOk p.weigh (snapshot p s) = true := by
  simp only [Spec.snapCountersOk, snapshot, Bool.and_eq_true, beq_iff_eq]
  refine ⟨⟨?_, ?_⟩, ?_⟩
  · rw [length_sortBy, List.length_map]; exact hi.counted.ec
  · rw [sum_map_sortBy, List.map_map, hi.counted.ws]
    generalize s.map = m
    induction m with
    | nil => rfl
    | cons a m ih => obtain ⟨k, e⟩ := a; simp [totalW, entryView, ih]
  · rw [sum_map_sortBy, List.map_map, hi.counted.ws]
    have hw := hi.counted.weights
    have hn := hi.struct.keysNodup
    generalize s.map = m at hw hn
    induction m with
    | nil => rfl
    | cons a m ih =>
      obtain ⟨k, e⟩ := a
      simp only [AL.keys_cons, List.nodup_cons] at hn
      have h1 := hw k e (by simp [AL.get?_cons])
      have h2 : ∀ k' e', AL.get? m k' = some e' → e'.weight = p.weigh k' e'.val := by
        intro k' e' h
        refine hw k' e' ?_
        rw [AL.get?_cons]
        have : k ≠ k' := fun e => hn.1 (e ▸ AL.mem_keys_of_get? h)
        simp [this, h]
      simp [totalW, entryView, ih h2 hn.2, h1]

end Unsync
end MiniMoka
