/-
  What the start-of-operation maintenance of the unsync model may remove: only expired
  entries, unless the cache is over capacity.  And an insert that fits evicts nothing.
-/
import MiniMoka.Lemmas.UnsyncPrecise

namespace MiniMoka
namespace Unsync

/-- An entry that a shrinking step dropped. -/
def Dropped (s s' : UState) (k : Nat) (e : UEntry) : Prop :=
  AL.get? s.map k = some e ∧ AL.get? s'.map k = none

theorem removeExpiredWo_only_expired {p : Params} (hq : NoQuirks p) (fuel : Nat) :
    ∀ (s : UState) (c w : Nat), Struct p s → ∀ k e,
      Dropped s (removeExpiredWo p fuel s c w).1 k e →
      expiredAt p.ttl (entryLm s e) s.now = true := by
  have hd4 : p.q.d4 = false := by rw [hq]
  induction fuel with
  | zero => intro s c w _ k e ⟨h1, h2⟩; simp [removeExpiredWo, h1] at h2
  | succ fuel ih =>
    intro s c w hs k e ⟨h1, h2⟩
    unfold removeExpiredWo at h2
    cases hp : s.wo with
    | nil => simp [hp, h1] at h2
    | cons n rest =>
      simp only [hp] at h2
      by_cases hx : expiredAt p.ttl n.ts s.now = true
      · simp only [hx, if_true] at h2
        obtain ⟨e0, he0, hwo0⟩ := hs.woBack n (by rw [hp]; exact List.mem_cons_self)
        simp only [he0, hd4] at h2
        obtain ⟨hs', hto, _⟩ := takeOut_spec hs he0 (by simp)
        by_cases hk : n.key = k
        · -- this is the entry removed now: its write-order node is `n`
          subst hk
          rw [h1] at he0; cases he0
          have hfind := findWo_of_mem hs.woIds (show n ∈ s.wo by rw [hp]; exact List.mem_cons_self)
          simp [entryLm, hwo0, hfind, hx]
        · have h1' : AL.get? (takeOut s n.key e0).map k = some e := by
            rw [hto.map, AL.get?_erase_ne hk]; exact h1
          have := ih _ _ _ hs' k e ⟨h1', h2⟩
          rw [hto.shrinks.lm k e h1', hto.env.now] at this
          exact this
      · simp [hx, h1] at h2

theorem removeExpiredAo_only_expired {p : Params} (fuel : Nat) :
    ∀ (s : UState) (c w : Nat), Struct p s → ∀ k e,
      Dropped s (removeExpiredAo p fuel s c w).1 k e →
      expiredAt p.tti (entryLa s e) s.now = true := by
  induction fuel with
  | zero => intro s c w _ k e ⟨h1, h2⟩; simp [removeExpiredAo, h1] at h2
  | succ fuel ih =>
    intro s c w hs k e ⟨h1, h2⟩
    unfold removeExpiredAo at h2
    cases hp : s.prob with
    | nil => simp [hp, h1] at h2
    | cons n rest =>
      simp only [hp] at h2
      by_cases hx : expiredAt p.tti n.ts s.now = true
      · simp only [hx, if_true] at h2
        obtain ⟨e0, he0, hao0⟩ := hs.aoBack n (by rw [hp]; exact List.mem_cons_self)
        simp only [he0] at h2
        obtain ⟨hs', hto, _⟩ := takeOut_spec hs he0 (by simp)
        by_cases hk : n.key = k
        · subst hk
          rw [h1] at he0; cases he0
          have hfind := findAo_of_mem hs.probIds (show n ∈ s.prob by rw [hp]; exact List.mem_cons_self)
          simp [entryLa, hao0, hfind, hx]
        · have h1' : AL.get? (takeOut s n.key e0).map k = some e := by
            rw [hto.map, AL.get?_erase_ne hk]; exact h1
          have := ih _ _ _ hs' k e ⟨h1', h2⟩
          rw [hto.shrinks.la k e h1', hto.env.now] at this
          exact this
      · simp [hx, h1] at h2

/-- With nothing to evict for size, `evict_lru_entries` leaves the map alone. -/
theorem evictLru_map_of_fits {p : Params} {s : UState} (h : weightsToEvict p s = 0) :
    (evictLru p s).map = s.map := by
  unfold evictLru
  have : evictLruLoop EVICTION_BATCH_SIZE s 0 0 0 = (s, 0, 0) := by
    unfold EVICTION_BATCH_SIZE
    cases hb : Gen.UNSYNC_EVICTION_BATCH_SIZE with
    | zero => rfl
    | succ n => simp [evictLruLoop]
  rw [h, this]
  simp [subEc]

/-- The maintenance at the start of an operation drops only expired entries as long as the
cache is not over capacity. -/
theorem maintain_only_expired {P : Sketch → Prop} {p : Params} (hq : NoQuirks p) {s : UState}
    (hi : Inv P p s) (hfit : ∀ c, p.cap = some c → s.ws ≤ c) (k : Nat) (e : UEntry)
    (hd : Dropped s (maintain p s) k e) : isExpiredEntry p s e s.now = true := by
  obtain ⟨h1, h2⟩ := hd
  unfold maintain evictExpiredIfNeeded at h2
  -- the size eviction does nothing
  have hnoevict : ∀ t : UState, t.ws ≤ s.ws → (evictLru p t).map = t.map := by
    intro t ht
    apply evictLru_map_of_fits
    unfold weightsToEvict
    cases hc : p.cap with
    | none => rfl
    | some c => have := hfit c hc; simp; omega
  by_cases hx : p.hasExpiry = true
  · simp only [hx, if_true] at h2
    obtain ⟨he1, he2, he3⟩ := evictExpired_spec hq hi.inv
    have hws : (evictExpired p s).ws ≤ s.ws := by
      rw [he1.counted.ws, hi.inv.counted.ws]
      -- the total weight of a sub-map is at most the total weight
      have : ∀ (m m' : List (Nat × UEntry)), (AL.keys m').Nodup →
          (∀ k e, AL.get? m' k = some e → AL.get? m k = some e) → totalW m' ≤ totalW m := by
        intro m m'
        induction m' generalizing m with
        | nil => intro _ _; simp [totalW]
        | cons a rest ih =>
          obtain ⟨k0, e0⟩ := a
          intro hn hsub
          simp only [AL.keys_cons, List.nodup_cons] at hn
          have h0 := hsub k0 e0 (by simp [AL.get?_cons])
          have := ih (AL.erase m k0) hn.2 (by
            intro k' e' h'
            have hne : k0 ≠ k' := fun e => hn.1 (e ▸ AL.mem_keys_of_get? h')
            rw [AL.get?_erase_ne hne]
            exact hsub k' e' (by rw [AL.get?_cons]; simp [hne, h']))
          have h3 := totalW_erase h0
          simp only [totalW]; omega
      exact this _ _ he1.struct.keysNodup he2.sub
    rw [hnoevict _ hws] at h2
    -- dropped by the expiry purge: by the write-order pass or by the access-order pass
    unfold evictExpired at h2
    simp only [isExpiredEntry, Bool.or_eq_true]
    by_cases ht : p.ttl.isSome = true
    · simp only [ht, if_true] at h2
      have hl := removeExpiredWo_spec hq EVICTION_BATCH_SIZE s 0 0 hi.inv.struct
      have hwo := removeExpiredWo_only_expired hq EVICTION_BATCH_SIZE s 0 0 hi.inv.struct k e
      generalize hr : removeExpiredWo p EVICTION_BATCH_SIZE s 0 0 = r at hl hwo h2
      obtain ⟨s1, c, w⟩ := r
      obtain ⟨hi1, hsh1, haux1, hmap1, _, _⟩ := settle hi.inv hl
      by_cases hgone : AL.get? s1.map k = none
      · exact Or.inl (hwo ⟨h1, hgone⟩)
      · right
        obtain ⟨e1, he1'⟩ := Option.ne_none_iff_exists'.mp hgone
        have hsame : e1 = e := by
          have := hl.shrinks.sub k e1 he1'
          rw [h1] at this; exact (Option.some.inj this).symm
        subst hsame
        by_cases hti : p.tti.isSome = true
        · simp only [hti, if_true] at h2
          have hl2 := removeExpiredAo_spec (p := p) EVICTION_BATCH_SIZE
            ({ subEc s1 c with ws := (subEc s1 c).ws - w }) 0 0 hi1.struct
          have hao := removeExpiredAo_only_expired (p := p) EVICTION_BATCH_SIZE
            ({ subEc s1 c with ws := (subEc s1 c).ws - w }) 0 0 hi1.struct k e1
          generalize hr2 : removeExpiredAo p EVICTION_BATCH_SIZE
            ({ subEc s1 c with ws := (subEc s1 c).ws - w }) 0 0 = r2 at hl2 hao h2
          obtain ⟨s2, c2, w2⟩ := r2
          obtain ⟨_, _, _, hmap2, _, _⟩ := settle hi1 hl2
          simp only at hmap2 h2 hmap1
          rw [hmap2] at h2
          have h1' : AL.get? ({ subEc s1 c with ws := (subEc s1 c).ws - w } : UState).map k = some e1 := by
            simp only; rw [hmap1]; exact he1'
          have := hao ⟨h1', h2⟩
          rw [hsh1.la k e1 h1', haux1.now] at this
          exact this
        · rw [if_neg hti] at h2
          simp only at hmap1 h2
          rw [hmap1, he1'] at h2; cases h2
    · rw [if_neg ht] at h2
      right
      by_cases hti : p.tti.isSome = true
      · simp only [hti, if_true] at h2
        have hl2 := removeExpiredAo_spec (p := p) EVICTION_BATCH_SIZE s 0 0 hi.inv.struct
        have hao := removeExpiredAo_only_expired (p := p) EVICTION_BATCH_SIZE s 0 0 hi.inv.struct k e
        generalize hr2 : removeExpiredAo p EVICTION_BATCH_SIZE s 0 0 = r2 at hl2 hao h2
        obtain ⟨s2, c2, w2⟩ := r2
        obtain ⟨_, _, _, hmap2, _, _⟩ := settle hi.inv hl2
        simp only at hmap2 h2
        rw [hmap2] at h2
        exact hao ⟨h1, h2⟩
      · rw [if_neg hti] at h2
        rw [h1] at h2; cases h2
  · rw [if_neg hx] at h2
    rw [hnoevict s (Nat.le_refl _), h1] at h2; cases h2

/-- An insert that fits is retained and evicts nothing (used by C03 and C17). -/
theorem C03B_unsync_aux {P : Sketch → Prop} {p : Params} (hq : NoQuirks p)
    {s : UState} (hi : Inv P p s) (k v : Nat)
    (hnew : AL.get? (maintain p s).map k = none)
    (hfit : hasEnoughCapacity p (p.weigh k v) (maintain p s).ws = true) :
    (∃ e, AL.get? (insert p s k v).map k = some e ∧ e.val = v) ∧
    (∀ k' e', AL.get? (maintain p s).map k' = some e' →
      ∃ e'', AL.get? (insert p s k v).map k' = some e'' ∧ e''.val = e'.val) := by
  obtain ⟨h1, _, h3⟩ := maintain_spec hq hi.inv
  generalize hent : ({ val := v, weight := p.weigh k v } : UEntry) = entry0
  have hao0 : entry0.ao = none := by rw [← hent]
  have hwo0 : entry0.wo = none := by rw [← hent]
  have hv0 : entry0.val = v := by rw [← hent]
  have hsp := struct_put_pending (p := p) (entry := entry0) h1.struct hnew hao0 hwo0
  obtain ⟨entry, hk3, e', hv', _, hmap, _⟩ :=
    pushCandidate_spec (p.hash k) (opTs p (maintain p s)) hsp
  have hins : (insert p s k v).map =
      (pushCandidate p { maintain p s with map := AL.put (maintain p s).map k entry0 }
        k (p.hash k) (opTs p (maintain p s))).map := by
    unfold Unsync.insert
    dsimp only
    rw [hnew]
    dsimp only
    unfold handleInsert
    dsimp only
    rw [if_pos hfit, hent]
    exact (maybeEnableSketch_frame p _).1
  rw [hins, hmap]
  have hent2 : entry = entry0 := by
    simp only [AL.get?_put_self, Option.some.injEq] at hk3
    exact hk3.symm
  refine ⟨⟨e', AL.get?_put_self _ _ _, by rw [hv', hent2, hv0]⟩, ?_⟩
  intro k' e2 h2
  have hne : k ≠ k' := fun e => by rw [e, h2] at hnew; cases hnew
  exact ⟨e2, by rw [AL.get?_put_ne _ hne, AL.get?_put_ne _ hne]; exact h2, rfl⟩


end Unsync
end MiniMoka
