/-
  `insert` of the unsync model preserves the invariant: update path, admission
  without eviction, rejection, and admission with victims.
-/
import MiniMoka.Lemmas.UnsyncOps

namespace MiniMoka
namespace Unsync

theorem findAo_eq_none_of {l : List AoNode} {id : Nat} (h : ∀ n ∈ l, n.id ≠ id) :
    findAo l id = none := by
  cases hf : findAo l id with
  | none => rfl
  | some n => exact absurd (findAo_some hf).2 (h n (findAo_some hf).1)

theorem findWo_eq_none_of {l : List WoNode} {id : Nat} (h : ∀ n ∈ l, n.id ≠ id) :
    findWo l id = none := by
  cases hf : findWo l id with
  | none => rfl
  | some n => exact absurd (findWo_some hf).2 (h n (findWo_some hf).1)

/-! ### replacing an entry while keeping its links -/

theorem struct_put_same_links {p : Params} {pend : Option Nat} {s : UState} {k : Nat}
    {old e : UEntry} (hs : StructP p pend s) (hk : AL.get? s.map k = some old)
    (hao : e.ao = old.ao) (hwo : e.wo = old.wo) :
    StructP p pend { s with map := AL.put s.map k e } := by
  have hmem := AL.mem_keys_of_get? hk
  refine ⟨?_, hs.probIds, hs.woIds, ?_, ?_, ?_, ?_, ?_, hs.freshAo, hs.freshWo, hs.noFault⟩
  · simp only; rw [AL.keys_put_of_mem e hmem]; exact hs.keysNodup
  · intro k' e' hk' hp
    simp only at hk'
    rw [AL.get?_put] at hk'
    by_cases hkk : k = k'
    · subst hkk
      simp at hk'; subst hk'
      rw [hao]; exact hs.aoLink k old hk hp
    · simp [hkk] at hk'; exact hs.aoLink k' e' hk' hp
  · intro n hn
    obtain ⟨e2, h1, h2⟩ := hs.aoBack n hn
    simp only
    rw [AL.get?_put]
    by_cases hkk : k = n.key
    · rw [← hkk, hk] at h1; cases h1
      exact ⟨e, by simp [hkk], by rw [hao]; exact h2⟩
    · exact ⟨e2, by simp [hkk, h1], h2⟩
  · intro k' e' hk' hp
    simp only at hk'
    rw [AL.get?_put] at hk'
    by_cases hkk : k = k'
    · subst hkk
      simp at hk'; subst hk'
      rw [hwo]; exact hs.woLink k old hk hp
    · simp [hkk] at hk'; exact hs.woLink k' e' hk' hp
  · intro n hn
    obtain ⟨e2, h1, h2⟩ := hs.woBack n hn
    simp only
    rw [AL.get?_put]
    by_cases hkk : k = n.key
    · rw [← hkk, hk] at h1; cases h1
      exact ⟨e, by simp [hkk], by rw [hwo]; exact h2⟩
    · exact ⟨e2, by simp [hkk, h1], h2⟩
  · intro kp hkp
    obtain ⟨ep, h1, h2⟩ := hs.pendIn kp hkp
    simp only
    rw [AL.get?_put]
    by_cases hkk : k = kp
    · subst hkk
      rw [hk] at h1; cases h1
      exact ⟨e, by simp, by rw [hao, hwo]; exact h2⟩
    · exact ⟨ep, by simp [hkk, h1], h2⟩

/-- The whole of `handle_update` as two touches and a weight adjustment. -/
theorem handleUpdate_eq {p : Params} {s : UState} {k : Nat} {old entry : UEntry}
    (hs : Struct p s) (hk : AL.get? s.map k = some old) (ts : Option Nat) (weight : Nat)
    (hts : ts.isSome = p.hasExpiry) :
    ∃ id n, old.ao = some id ∧ findAo s.prob id = some n ∧ n.key = k ∧
    handleUpdate p { s with map := AL.put s.map k entry } k ts weight old =
      (let e : UEntry := { entry with ao := old.ao, wo := old.wo, weight := weight }
       let s1 : UState := { s with map := AL.put s.map k e }
       let s2 := touchAo s1 id ts
       let s3 := match old.wo with
         | some wid => if p.ttl.isSome then touchWo s2 wid ts
                       else (match ts with
                             | some t => { s2 with wo := setTsWo s2.wo wid t }
                             | none => s2)
         | none => s2
       { s3 with ws := s3.ws - old.weight + weight }) := by
  obtain ⟨id, n, hao, hf, hnk⟩ := hs.aoLink k old hk (by simp)
  refine ⟨id, n, hao, hf, hnk, ?_⟩
  have hwl := hs.woLink k old hk (by simp)
  unfold handleUpdate
  simp only [AL.get?_put_self, AL.put_put]
  cases httl : p.ttl.isSome with
  | false =>
    have hwo : old.wo = none := hwl.2 httl
    cases ts with
    | none =>
      simp [hao, hwo, moveToBackAoE, hf, touchAo]
    | some t =>
      have : findAo (setTsAo s.prob id t) id = some { n with ts := some t } := by
        rw [findAo_setTsAo]; simp [hf]
      simp [hao, hwo, moveToBackAoE, this, touchAo]
  | true =>
    obtain ⟨wid, wn, hwo, hwf, hwk⟩ := hwl.1 httl
    cases ts with
    | none =>
      simp [hao, hwo, moveToBackAoE, hf, touchAo, moveToBackWoE, hwf, touchWo]
    | some t =>
      have h1 : findAo (setTsAo s.prob id t) id = some { n with ts := some t } := by
        rw [findAo_setTsAo]; simp [hf]
      have h2 : findWo (setTsWo s.wo wid t) wid = some { wn with ts := some t } := by
        rw [findWo_setTsWo]; simp [hwf]
      simp [hao, hwo, moveToBackAoE, h1, touchAo, moveToBackWoE, h2, touchWo]

theorem handleUpdate_inv {p : Params} {s : UState} {k v : Nat} {old : UEntry}
    (hi : InvU p s) (hk : AL.get? s.map k = some old) (ts : Option Nat)
    (hts : ts.isSome = p.hasExpiry) :
    InvU p (handleUpdate p { s with map := AL.put s.map k { val := v, weight := p.weigh k v } }
      k ts (p.weigh k v) old) := by
  obtain ⟨id, n, hao, hf, hnk, heq⟩ :=
    handleUpdate_eq (entry := { val := v, weight := p.weigh k v }) hi.struct hk ts (p.weigh k v) hts
  rw [heq]
  have hwl := hi.struct.woLink k old hk (by simp)
  dsimp only
  generalize he : ({ val := v, weight := p.weigh k v, ao := old.ao, wo := old.wo } : UEntry) = e
  have heao : e.ao = old.ao := by rw [← he]
  have hewo : e.wo = old.wo := by rw [← he]
  have hew : e.weight = p.weigh k v := by rw [← he]
  have hev : e.val = v := by rw [← he]
  -- structure
  have hs1 : Struct p { s with map := AL.put s.map k e } :=
    struct_put_same_links hi.struct hk heao hewo
  have hs2 := touchAo_struct hs1 id ts
  have hold := weight_le_totalW hk
  have htw := totalW_put_some e hk
  have hlen := AL.length_put_of_some e hk
  have hweights : ∀ k' e', AL.get? (AL.put s.map k e) k' = some e' →
      e'.weight = p.weigh k' e'.val := by
    intro k' e' h
    rw [AL.get?_put] at h
    by_cases hkk : k = k'
    · subst hkk; simp at h; subst h; rw [hew, hev]
    · simp [hkk] at h; exact hi.counted.weights k' e' h
  cases httl : p.ttl.isSome with
  | false =>
    have hwo : old.wo = none := hwl.2 httl
    simp only [hwo]
    refine ⟨structP_congr hs2 rfl rfl rfl rfl rfl, ⟨?_, ?_, ?_⟩⟩
    · simp only [touchAo]; rw [hlen]; exact hi.counted.ec
    · simp only [touchAo]; rw [hi.counted.ws]; omega
    · simpa [touchAo] using hweights
  | true =>
    obtain ⟨wid, wn, hwo, hwf, hwk⟩ := hwl.1 httl
    simp only [hwo, if_true]
    have hs3 := touchWo_struct hs2 wid ts
    refine ⟨structP_congr hs3 rfl rfl rfl rfl rfl, ⟨?_, ?_, ?_⟩⟩
    · simp only [touchAo, touchWo]; rw [hlen]; exact hi.counted.ec
    · simp only [touchAo, touchWo]; rw [hi.counted.ws]; omega
    · simpa [touchAo, touchWo] using hweights

/-! ### a fresh key: pending entry, then nodes -/

theorem struct_put_pending {p : Params} {s : UState} {k : Nat} {entry : UEntry}
    (hs : Struct p s) (hk : AL.get? s.map k = none) (hao : entry.ao = none)
    (hwo : entry.wo = none) :
    StructP p (some k) { s with map := AL.put s.map k entry } := by
  refine ⟨AL.nodup_put k entry hs.keysNodup, hs.probIds, hs.woIds, ?_, ?_, ?_, ?_, ?_,
    hs.freshAo, hs.freshWo, hs.noFault⟩
  · intro k' e' hk' hp
    simp only at hk'
    have hkk : k ≠ k' := fun e => hp (by rw [e])
    rw [AL.get?_put_ne entry hkk] at hk'
    exact hs.aoLink k' e' hk' (by simp)
  · intro n hn
    obtain ⟨e2, h1, h2⟩ := hs.aoBack n hn
    have hkk : k ≠ n.key := fun e => by rw [e, h1] at hk; cases hk
    exact ⟨e2, by simp only; rw [AL.get?_put_ne entry hkk]; exact h1, h2⟩
  · intro k' e' hk' hp
    simp only at hk'
    have hkk : k ≠ k' := fun e => hp (by rw [e])
    rw [AL.get?_put_ne entry hkk] at hk'
    exact hs.woLink k' e' hk' (by simp)
  · intro n hn
    obtain ⟨e2, h1, h2⟩ := hs.woBack n hn
    have hkk : k ≠ n.key := fun e => by rw [e, h1] at hk; cases hk
    exact ⟨e2, by simp only; rw [AL.get?_put_ne entry hkk]; exact h1, h2⟩
  · intro kp hkp
    cases hkp
    exact ⟨entry, by simp [AL.get?_put_self], hao, hwo⟩

/-- In a state with pending key `k`, no list node carries `k`. -/
theorem pending_no_node_ao {p : Params} {s : UState} {k : Nat} (hs : StructP p (some k) s)
    {n : AoNode} (hn : n ∈ s.prob) : n.key ≠ k := by
  intro e
  obtain ⟨e2, h1, h2⟩ := hs.aoBack n hn
  obtain ⟨ep, h3, h4, _⟩ := hs.pendIn k rfl
  rw [e, h3] at h1; cases h1
  rw [h4] at h2; cases h2

theorem pending_no_node_wo {p : Params} {s : UState} {k : Nat} (hs : StructP p (some k) s)
    {n : WoNode} (hn : n ∈ s.wo) : n.key ≠ k := by
  intro e
  obtain ⟨e2, h1, h2⟩ := hs.woBack n hn
  obtain ⟨ep, h3, _, h4⟩ := hs.pendIn k rfl
  rw [e, h3] at h1; cases h1
  rw [h4] at h2; cases h2

/-- What `pushCandidate` produces. -/
theorem pushCandidate_spec {p : Params} {s : UState} {k : Nat} (hash : UInt64) (ts : Option Nat)
    (hs : StructP p (some k) s) :
    ∃ entry, AL.get? s.map k = some entry ∧
    ∃ e' : UEntry, e'.val = entry.val ∧ e'.weight = entry.weight ∧
      (pushCandidate p s k hash ts).map = AL.put s.map k e' ∧
      Struct p (pushCandidate p s k hash ts) ∧
      (pushCandidate p s k hash ts).ec = s.ec ∧ (pushCandidate p s k hash ts).ws = s.ws ∧
      (pushCandidate p s k hash ts).sk = s.sk ∧ (pushCandidate p s k hash ts).skOn = s.skOn ∧
      (pushCandidate p s k hash ts).now = s.now ∧
      (pushCandidate p s k hash ts).prob =
        s.prob ++ [{ id := s.nextId, key := k, hash := hash, ts := ts }] := by
  obtain ⟨entry, hk, hao, hwo⟩ := hs.pendIn k rfl
  refine ⟨entry, hk, ?_⟩
  have hfa : findAo s.prob s.nextId = none :=
    findAo_eq_none_of (fun n hn => Nat.ne_of_lt (hs.freshAo n hn))
  have hfw : ∀ id, s.nextId ≤ id → findWo s.wo id = none := fun id hid =>
    findWo_eq_none_of (fun n hn => Nat.ne_of_lt (Nat.lt_of_lt_of_le (hs.freshWo n hn) hid))
  have hidsA : (s.prob.map (·.id) ++ [s.nextId]).Nodup := by
    refine List.nodup_append.mpr ⟨hs.probIds, by simp, ?_⟩
    intro a ha b hb
    simp at hb; subst hb
    obtain ⟨m, hm, rfl⟩ := List.mem_map.mp ha
    exact Nat.ne_of_lt (hs.freshAo m hm)
  unfold pushCandidate
  simp only [hk]
  cases httl : p.ttl.isSome with
  | false =>
    simp only [Bool.false_eq_true, if_false]
    refine ⟨{ entry with ao := some s.nextId }, rfl, rfl, by simp, ?_, by simp⟩
    refine ⟨AL.nodup_put k _ hs.keysNodup, by simpa using hidsA, hs.woIds, ?_, ?_, ?_, ?_, ?_, ?_, ?_,
      hs.noFault⟩
    · intro k' e' hk' _
      simp only at hk'
      rw [AL.get?_put] at hk'
      by_cases hkk : k = k'
      · subst hkk; simp at hk'; subst hk'
        refine ⟨s.nextId, { id := s.nextId, key := k, hash := hash, ts := ts }, rfl, ?_, rfl⟩
        simp [findAo_append, hfa, findAo]
      · simp [hkk] at hk'
        obtain ⟨id, n, h1, h2, h3⟩ := hs.aoLink k' e' hk' (fun e => hkk (Option.some.inj e))
        exact ⟨id, n, h1, by simp [findAo_append, h2], h3⟩
    · intro n hn
      simp only at hn
      rcases List.mem_append.mp hn with hn | hn
      · obtain ⟨e2, h1, h2⟩ := hs.aoBack n hn
        have := pending_no_node_ao hs hn
        exact ⟨e2, by simp only; rw [AL.get?_put_ne _ (Ne.symm this)]; exact h1, h2⟩
      · simp at hn; subst hn
        exact ⟨{ entry with ao := some s.nextId }, by simp [AL.get?_put_self], rfl⟩
    · intro k' e' hk' _
      simp only at hk'
      rw [AL.get?_put] at hk'
      by_cases hkk : k = k'
      · subst hkk; simp at hk'; subst hk'
        exact ⟨fun h => by simp [httl] at h, fun _ => hwo⟩
      · simp [hkk] at hk'
        exact hs.woLink k' e' hk' (fun e => hkk (Option.some.inj e))
    · intro n hn
      obtain ⟨e2, h1, h2⟩ := hs.woBack n hn
      have := pending_no_node_wo hs hn
      exact ⟨e2, by simp only; rw [AL.get?_put_ne _ (Ne.symm this)]; exact h1, h2⟩
    · intro kp hkp; cases hkp
    · intro n hn
      simp only at hn
      rcases List.mem_append.mp hn with hn | hn
      · exact Nat.lt_succ_of_lt (hs.freshAo n hn)
      · simp at hn; subst hn; exact Nat.lt_succ_self _
    · intro n hn
      exact Nat.lt_succ_of_lt (hs.freshWo n hn)
  | true =>
    simp only [if_true]
    refine ⟨{ entry with ao := some s.nextId, wo := some (s.nextId + 1) }, rfl, rfl, by simp, ?_,
      by simp⟩
    have hidsW : (s.wo.map (·.id) ++ [s.nextId + 1]).Nodup := by
      refine List.nodup_append.mpr ⟨hs.woIds, by simp, ?_⟩
      intro a ha b hb
      simp at hb; subst hb
      obtain ⟨m, hm, rfl⟩ := List.mem_map.mp ha
      exact Nat.ne_of_lt (Nat.lt_succ_of_lt (hs.freshWo m hm))
    refine ⟨AL.nodup_put k _ hs.keysNodup, by simpa using hidsA, by simpa using hidsW,
      ?_, ?_, ?_, ?_, ?_, ?_, ?_, hs.noFault⟩
    · intro k' e' hk' _
      simp only at hk'
      rw [AL.get?_put] at hk'
      by_cases hkk : k = k'
      · subst hkk; simp at hk'; subst hk'
        refine ⟨s.nextId, { id := s.nextId, key := k, hash := hash, ts := ts }, rfl, ?_, rfl⟩
        simp [findAo_append, hfa, findAo]
      · simp [hkk] at hk'
        obtain ⟨id, n, h1, h2, h3⟩ := hs.aoLink k' e' hk' (fun e => hkk (Option.some.inj e))
        exact ⟨id, n, h1, by simp [findAo_append, h2], h3⟩
    · intro n hn
      simp only at hn
      rcases List.mem_append.mp hn with hn | hn
      · obtain ⟨e2, h1, h2⟩ := hs.aoBack n hn
        have := pending_no_node_ao hs hn
        exact ⟨e2, by simp only; rw [AL.get?_put_ne _ (Ne.symm this)]; exact h1, h2⟩
      · simp at hn; subst hn
        exact ⟨{ entry with ao := some s.nextId, wo := some (s.nextId + 1) },
          by simp [AL.get?_put_self], rfl⟩
    · intro k' e' hk' _
      simp only at hk'
      rw [AL.get?_put] at hk'
      by_cases hkk : k = k'
      · subst hkk; simp at hk'; subst hk'
        refine ⟨fun _ => ⟨s.nextId + 1, { id := s.nextId + 1, key := k, ts := ts }, rfl, ?_, rfl⟩,
          fun h => by simp [httl] at h⟩
        simp [findWo_append, hfw (s.nextId + 1) (Nat.le_succ _), findWo]
      · simp [hkk] at hk'
        have := hs.woLink k' e' hk' (fun e => hkk (Option.some.inj e))
        refine ⟨fun ht => ?_, this.2⟩
        obtain ⟨id, n, h1, h2, h3⟩ := this.1 ht
        exact ⟨id, n, h1, by simp [findWo_append, h2], h3⟩
    · intro n hn
      simp only at hn
      rcases List.mem_append.mp hn with hn | hn
      · obtain ⟨e2, h1, h2⟩ := hs.woBack n hn
        have := pending_no_node_wo hs hn
        exact ⟨e2, by simp only; rw [AL.get?_put_ne _ (Ne.symm this)]; exact h1, h2⟩
      · simp at hn; subst hn
        exact ⟨{ entry with ao := some s.nextId, wo := some (s.nextId + 1) },
          by simp [AL.get?_put_self], rfl⟩
    · intro kp hkp; cases hkp
    · intro n hn
      simp only at hn
      rcases List.mem_append.mp hn with hn | hn
      · exact Nat.lt_succ_of_lt (Nat.lt_succ_of_lt (hs.freshAo n hn))
      · simp at hn; subst hn; show s.nextId < s.nextId + 1 + 1; omega
    · intro n hn
      simp only at hn
      rcases List.mem_append.mp hn with hn | hn
      · exact Nat.lt_succ_of_lt (Nat.lt_succ_of_lt (hs.freshWo n hn))
      · simp at hn; subst hn; show s.nextId + 1 < s.nextId + 1 + 1; omega

/-! ### admission: victim aggregation and removal -/

def wOf (s : UState) (key : Nat) : Nat :=
  match AL.get? s.map key with
  | some e => e.weight
  | none => 0

def fOf (s : UState) (n : AoNode) : Nat := s.sk.frequency n.hash

/-- What the victim-aggregation loop returns: a prefix of the nodes it was given. -/
theorem admitLoop_spec {p : Params} {s : UState} {cw cf : Nat}
    (hw : ∀ k e, AL.get? s.map k = some e → e.weight = p.weigh k e.val) :
    ∀ (nodes : List AoNode) (a : Admission),
      (∀ n ∈ nodes, ∃ e, AL.get? s.map n.key = some e) → a.fault = false →
      (admitLoop p s cw cf nodes a).fault = false ∧
      ∃ taken rest, nodes = taken ++ rest ∧
        (admitLoop p s cw cf nodes a).victims = a.victims ++ taken ∧
        (admitLoop p s cw cf nodes a).vw = a.vw + (taken.map (fun n => wOf s n.key)).sum ∧
        (admitLoop p s cw cf nodes a).vf = a.vf + (taken.map (fOf s)).sum := by
  intro nodes
  induction nodes with
  | nil =>
    intro a _ hf
    exact ⟨by simpa [admitLoop] using hf, [], [], rfl, by simp [admitLoop], by simp [admitLoop],
      by simp [admitLoop]⟩
  | cons n rest ih =>
    intro a hall hf
    unfold admitLoop
    by_cases hc : a.vw < cw ∧ ¬ cf < a.vf
    · rw [if_pos hc]
      obtain ⟨e, he⟩ := hall n List.mem_cons_self
      simp only [he]
      have := ih { a with vw := a.vw + p.weigh n.key e.val, vf := a.vf + s.sk.frequency n.hash,
                          victims := a.victims ++ [n] }
        (fun m hm => hall m (List.mem_cons_of_mem _ hm)) hf
      obtain ⟨h1, taken, rest', h2, h3, h4, h5⟩ := this
      refine ⟨h1, n :: taken, rest', by simp [h2], by simp [h3], ?_, ?_⟩
      · rw [h4]; simp only [List.map_cons, List.sum_cons, wOf, he, hw n.key e he]; omega
      · rw [h5]; simp only [List.map_cons, List.sum_cons, fOf]; omega
    · rw [if_neg hc]
      exact ⟨hf, [], n :: rest, rfl, by simp, by simp, by simp⟩

theorem two_keys_length {m : List (Nat × UEntry)} {a b : Nat} {ea eb : UEntry}
    (ha : AL.get? m a = some ea) (hb : AL.get? m b = some eb) (hab : a ≠ b) : 2 ≤ m.length := by
  have h1 := AL.length_erase_of_get? ha
  have h2 : AL.get? (AL.erase m a) b = some eb := by rw [AL.get?_erase_ne hab]; exact hb
  have h3 := AL.length_erase_of_get? h2
  omega

/-- Removal of the selected victims while the candidate `k` is pending. -/
theorem removeVictims_spec {p : Params} {k : Nat} :
    ∀ (victims : List AoNode) (s : UState), StructP p (some k) s →
      (∀ v ∈ victims, v ∈ s.prob) → (victims.map (·.id)).Nodup → s.ec + 1 = s.map.length →
      StructP p (some k) (removeVictims victims s) ∧
      (removeVictims victims s).ec + 1 = (removeVictims victims s).map.length ∧
      (removeVictims victims s).ec + victims.length = s.ec ∧
      totalW (removeVictims victims s).map + (victims.map (fun n => wOf s n.key)).sum = totalW s.map ∧
      (removeVictims victims s).ws = s.ws ∧ SameAux s (removeVictims victims s) ∧
      Shrinks s (removeVictims victims s) ∧
      AL.get? (removeVictims victims s).map k = AL.get? s.map k := by
  intro victims
  induction victims with
  | nil =>
    intro s hs _ _ hc
    exact ⟨hs, hc, rfl, by simp [removeVictims], rfl, SameAux.refl s, Shrinks.refl s, rfl⟩
  | cons v rest ih =>
    intro s hs hin hnd hc
    have hv := hin v List.mem_cons_self
    obtain ⟨e, he, heao⟩ := hs.aoBack v hv
    have hvk : v.key ≠ k := pending_no_node_ao hs hv
    have hpend : (some k : Option Nat) ≠ some v.key := fun h => hvk (Option.some.inj h).symm
    obtain ⟨hs', hto, id, n, hao, hfind, _, hprob⟩ := takeOut_spec hs he hpend
    obtain ⟨ep, hep, _⟩ := hs.pendIn k rfl
    have hlen := two_keys_length he hep hvk
    have hec : ¬ (takeOut s v.key e).ec < 1 := by rw [hto.env.ec]; omega
    have hsub : subEc (takeOut s v.key e) 1 =
        { takeOut s v.key e with ec := (takeOut s v.key e).ec - 1 } := by
      simp [subEc, hec]
    have hid : id = v.id := by rw [heao] at hao; exact (Option.some.inj hao).symm
    -- the state handed to the recursive call, described field by field
    obtain ⟨s2, hs2def⟩ : ∃ s2, s2 = subEc (takeOut s v.key e) 1 := ⟨_, rfl⟩
    have hs2 : StructP p (some k) s2 := by
      rw [hs2def, hsub]; exact structP_congr hs' rfl rfl rfl rfl rfl
    have hmap2 : s2.map = AL.erase s.map v.key := by rw [hs2def, hsub]; exact hto.map
    have hprob2 : s2.prob = eraseAo s.prob v.id := by rw [hs2def, hsub, ← hid]; exact hprob
    have hec2 : s2.ec = s.ec - 1 := by rw [hs2def, hsub]; simp only; rw [hto.env.ec]
    have hws2 : s2.ws = s.ws := by rw [hs2def, hsub]; exact hto.env.ws
    have haux2 : SameAux s s2 := by
      rw [hs2def, hsub]; exact ⟨hto.env.sk, hto.env.skOn, hto.env.now, hto.env.nextId⟩
    have hshr2 : Shrinks s s2 := by
      rw [hs2def, hsub]; exact shrinks_congr hto.shrinks rfl rfl rfl
    simp only [List.map_cons, List.nodup_cons] at hnd
    have hin2 : ∀ v' ∈ rest, v' ∈ s2.prob := by
      intro v' hv'
      rw [hprob2]
      refine mem_eraseAo_of_ne (hin v' (List.mem_cons_of_mem _ hv')) ?_
      intro e'; exact hnd.1 (e' ▸ List.mem_map.mpr ⟨v', hv', rfl⟩)
    have hlen2 := AL.length_erase_of_get? he
    have hc2 : s2.ec + 1 = s2.map.length := by rw [hec2, hmap2]; omega
    obtain ⟨r1, r2, r3, r4, r5, r6, r7, r8⟩ := ih s2 hs2 hin2 hnd.2 hc2
    -- weights of the remaining victims are unchanged by the removal of `v`
    have hwsame : ∀ v' ∈ rest, wOf s2 v'.key = wOf s v'.key := by
      intro v' hv'
      have hv'in := hin v' (List.mem_cons_of_mem _ hv')
      have hne : v.key ≠ v'.key := by
        intro ek
        obtain ⟨e2, he2, hao2⟩ := hs.aoBack v' hv'in
        rw [← ek, he] at he2; cases he2
        rw [heao] at hao2
        exact hnd.1 ((Option.some.inj hao2) ▸ List.mem_map.mpr ⟨v', hv', rfl⟩)
      simp only [wOf, hmap2, AL.get?_erase_ne hne]
    have hsum : (rest.map (fun n => wOf s2 n.key)).sum = (rest.map (fun n => wOf s n.key)).sum := by
      congr 1
      exact List.map_congr_left (fun v' hv' => hwsame v' hv')
    have hrv : removeVictims (v :: rest) s = removeVictims rest s2 := by
      simp only [removeVictims, he, hs2def]
    rw [hrv]
    refine ⟨r1, r2, ?_, ?_, ?_, SameAux.trans haux2 r6, Shrinks.trans hshr2 r7, ?_⟩
    · simp only [List.length_cons]; omega
    · rw [hsum, hmap2] at r4
      have := totalW_erase he
      have hwv : wOf s v.key = e.weight := by simp [wOf, he]
      simp only [List.map_cons, List.sum_cons, hwv]
      omega
    · rw [r5, hws2]
    · rw [r8, hmap2, AL.get?_erase_ne hvk]

/-! ### handle_insert and insert -/

theorem maybeEnableSketch_inv {P : Sketch → Prop} (L : SketchLaws P) {p : Params}
    (hsm : SmallSketch p) {s : UState} (hi : Inv P p s) : Inv P p (maybeEnableSketch p s) := by
  unfold maybeEnableSketch
  split
  · rename_i hen
    have hoff : s.skOn = false := by
      unfold shouldEnableSketch at hen
      cases h : s.skOn with
      | false => rfl
      | true => simp [h] at hen
    have hsk0 := hi.skOff hoff
    unfold enableSketch
    cases hc : p.cap with
    | none => exact hi
    | some maxCap =>
      simp only
      refine ⟨invU_of hi.inv (structP_congr hi.inv.struct rfl rfl rfl rfl rfl) rfl rfl rfl, ?_,
        fun h => by simp at h⟩
      simp only
      rw [hsk0]
      apply L.ensure
      split
      · exact hsm.cap maxCap hc
      · exact hsm.capF _ _ _
  · exact hi

theorem state_restore {s : UState} {k : Nat} {entry : UEntry} (hk : AL.get? s.map k = none) :
    ({ ({ s with map := AL.put s.map k entry } : UState) with
        map := AL.erase (AL.put s.map k entry) k } : UState) = s := by
  rw [AL.erase_put_of_none entry hk]

theorem handleInsert_inv {P : Sketch → Prop} (L : SketchLaws P) {p : Params}
    (hsm : SmallSketch p) {s : UState} (hi : Inv P p s) {k v : Nat} (ts : Option Nat)
    (hk : AL.get? s.map k = none) :
    Inv P p (handleInsert p { s with map := AL.put s.map k { val := v, weight := p.weigh k v } }
      k (p.hash k) (p.weigh k v) ts) := by
  generalize hent : ({ val := v, weight := p.weigh k v } : UEntry) = entry
  have heao : entry.ao = none := by rw [← hent]
  have hewo : entry.wo = none := by rw [← hent]
  have hew : entry.weight = p.weigh k v := by rw [← hent]
  have hev : entry.val = v := by rw [← hent]
  have hsp := struct_put_pending (entry := entry) hi.inv.struct hk heao hewo
  have hlen := AL.length_put_of_none entry hk
  have htw := totalW_put_none entry hk
  -- the common tail: nodes for the candidate, counters, sketch
  have tail : ∀ (s3 : UState) (vwt : Nat), StructP p (some k) s3 →
      (s3.sk = s.sk ∧ s3.skOn = s.skOn) →
      s3.ec + 1 = s3.map.length → totalW s3.map + vwt = totalW s.map + p.weigh k v →
      s3.ws = s.ws → AL.get? s3.map k = some entry →
      (∀ k' e', AL.get? s3.map k' = some e' → e'.weight = p.weigh k' e'.val) →
      Inv P p (maybeEnableSketch p
        (let s4 := pushCandidate p s3 k (p.hash k) ts
         let s5 := { s4 with ec := s4.ec + 1 }
         let s6 := { s5 with ws := s5.ws - vwt }
         { s6 with ws := s6.ws + p.weigh k v })) := by
    intro s3 vwt hs3 hsk3 hc3 hw3 hws3 hk3 hwt3
    obtain ⟨entry', hk', e', hv', hw', hmap, hst, hec, hws, hsk, hon, _, _⟩ :=
      pushCandidate_spec (p.hash k) ts hs3
    rw [hk3] at hk'; cases hk'
    apply maybeEnableSketch_inv L hsm
    have hlen4 := AL.length_put_of_some e' hk3
    have htw4 := totalW_put_some e' hk3
    have hge : p.weigh k v ≤ totalW s3.map := by
      have := weight_le_totalW hk3; omega
    refine ⟨⟨structP_congr hst rfl rfl rfl rfl rfl, ⟨?_, ?_, ?_⟩⟩,
      by simp only; rw [hsk, hsk3.1]; exact hi.sk,
      fun h => by simp only at h ⊢; rw [hsk, hsk3.1]; exact hi.skOff (by rw [← hsk3.2, ← hon]; exact h)⟩
    · simp only; rw [hmap, hlen4, hec]; exact hc3
    · simp only; rw [hmap, hws, hws3, hi.inv.counted.ws]; omega
    · intro k' e2 h2
      simp only at h2
      rw [hmap, AL.get?_put] at h2
      by_cases hkk : k = k'
      · subst hkk; simp at h2; subst h2; rw [hw', hv', hew, hev]
      · simp [hkk] at h2; exact hwt3 k' e2 h2
  have hwts2 : ∀ k' e', AL.get? (AL.put s.map k entry) k' = some e' →
      e'.weight = p.weigh k' e'.val := by
    intro k' e2 h2
    rw [AL.get?_put] at h2
    by_cases hkk : k = k'
    · subst hkk; simp at h2; subst h2; rw [hew, hev]
    · simp [hkk] at h2; exact hi.inv.counted.weights k' e2 h2
  unfold handleInsert
  dsimp only
  by_cases hcap : hasEnoughCapacity p (p.weigh k v) s.ws = true
  · rw [if_pos hcap]
    have := tail { s with map := AL.put s.map k entry } 0 hsp ⟨rfl, rfl⟩
      (by simp only; rw [hlen, hi.inv.counted.ec]) (by simp only; omega) rfl
      (by simp [AL.get?_put_self]) hwts2
    simpa using this
  · rw [if_neg hcap]
    by_cases htb : tooBig p (p.weigh k v) = true
    · -- too big: the candidate leaves the map again
      rw [if_pos htb, state_restore hk]; exact hi
    · -- admission
      rw [if_neg htb]
      unfold admitOrReject
      dsimp only
      have hall : ∀ n ∈ s.prob, ∃ e, AL.get? (AL.put s.map k entry) n.key = some e := by
        intro n hn
        obtain ⟨e2, h1, _⟩ := hsp.aoBack n hn
        exact ⟨e2, h1⟩
      obtain ⟨hf, taken, rest, hsplit, hvic, hvw, _⟩ :=
        admitLoop_spec (p := p) (s := { s with map := AL.put s.map k entry })
          (cw := p.weigh k v) (cf := s.sk.frequency (p.hash k)) hwts2 s.prob {} hall rfl
      simp only [hf, Bool.false_eq_true, if_false]
      split
      · -- admitted
        have hvic' : (admitLoop p { s with map := AL.put s.map k entry } (p.weigh k v)
            (s.sk.frequency (p.hash k)) s.prob {}).victims = taken := by simpa using hvic
        rw [hvic']
        have hin : ∀ v' ∈ taken, v' ∈ ({ s with map := AL.put s.map k entry } : UState).prob := by
          intro v' hv'
          simp only; rw [hsplit]; exact List.mem_append_left _ hv'
        have hnd : (taken.map (·.id)).Nodup := by
          have := hi.inv.struct.probIds
          rw [hsplit, List.map_append] at this
          exact (List.nodup_append.mp this).1
        obtain ⟨r1, r2, r3, r4, r5, r6, r7, r8⟩ :=
          removeVictims_spec taken _ hsp hin hnd (by simp only; rw [hlen, hi.inv.counted.ec])
        have hvw' : (admitLoop p { s with map := AL.put s.map k entry } (p.weigh k v)
            (s.sk.frequency (p.hash k)) s.prob {}).vw =
            (taken.map (fun n => wOf { s with map := AL.put s.map k entry } n.key)).sum := by
          simpa using hvw
        rw [hvw']
        refine tail _ _ r1 ⟨r6.sk, r6.skOn⟩ r2 (by simp only at r4; omega) r5
          (by rw [r8]; simp [AL.get?_put_self]) ?_
        intro k' e2 h2
        exact hwts2 k' e2 (r7.sub k' e2 h2)
      · -- rejected
        rw [state_restore hk]; exact hi

end Unsync
end MiniMoka
