/-
  `insert` of the unsync model preserves the invariant: update path, admission
  without eviction, rejection, and admission with victims.
-/
import MiniMoka.Lemmas.UnsyncOps

namespace MiniMoka
namespace Unsync

theorem findAo_eq_none_of {l : List AoNode} {id : Nat} (h : ∀ n ∈ l, n.id ≠ id) :
    findAo l id = none := by
  cases hf : findAo l id with
  | none => rfl
  | some n => exact absurd (findAo_some hf).2 (h n (findAo_some hf).1)

theorem findWo_eq_none_of {l : List WoNode} {id : Nat} (h : ∀ n ∈ l, n.id ≠ id) :
    findWo l id = none := by
  cases hf : findWo l id with
  | none => rfl
  | some n => exact absurd (findWo_some hf).2 (h n (findWo_some hf).1)

/-! ### replacing an entry while keeping its links -/

theorem struct_put_same_links {p : Params} {pend : Option Nat} {s : UState} {k : Nat}
    {old e : UEntry} (hs : StructP p pend s) (hk : AL.get? s.map k = some old)
    (hao : e.ao = old.ao) (hwo : e.wo = old.wo) :
    StructP p pend { s with map := AL.put s.map k e } := by
  have hmem := AL.mem_keys_of_get? hk
  refine ⟨?_, hs.probIds, hs.woIds, ?_, ?_, ?_, ?_, ?_, hs.freshAo, hs.freshWo, hs.noFault⟩
  · simp only; rw [AL.keys_put_of_mem e hmem]; exact hs.keysNodup
  · intro k' e' hk' hp
    simp only at hk'
    rw [AL.get?_put] at hk'
    by_cases hkk : k = k'
    · subst hkk
      simp at hk'; subst hk'
      rw [hao]; exact hs.aoLink k old hk hp
    · simp [hkk] at hk'; exact hs.aoLink k' e' hk' hp
  · intro n hn
    obtain ⟨e2, h1, h2⟩ := hs.aoBack n hn
    simp only
    rw [AL.get?_put]
    by_cases hkk : k = n.key
    · rw [← hkk, hk] at h1; cases h1
      exact ⟨e, by simp [hkk], by rw [hao]; exact h2⟩
    · exact ⟨e2, by simp [hkk, h1], h2⟩
  · intro k' e' hk' hp
    simp only at hk'
    rw [AL.get?_put] at hk'
    by_cases hkk : k = k'
    · subst hkk
      simp at hk'; subst hk'
      rw [hwo]; exact hs.woLink k old hk hp
    · simp [hkk] at hk'; exact hs.woLink k' e' hk' hp
  · intro n hn
    obtain ⟨e2, h1, h2⟩ := hs.woBack n hn
    simp only
    rw [AL.get?_put]
    by_cases hkk : k = n.key
    · rw [← hkk, hk] at h1; cases h1
      exact ⟨e, by simp [hkk], by rw [hwo]; exact h2⟩
    · exact ⟨e2, by simp [hkk, h1], h2⟩
  · intro kp hkp
    obtain ⟨ep, h1, h2⟩ := hs.pendIn kp hkp
    simp only
    rw [AL.get?_put]
    by_cases hkk : k = kp
    · subst hkk
      rw [hk] at h1; cases h1
      exact ⟨e, by simp, by rw [hao, hwo]; exact h2⟩
    · exact ⟨ep, by simp [hkk, h1], h2⟩

/-- The whole of `handle_update` as two touches and a weight adjustment. -/
theorem handleUpdate_eq {p : Params} {s : UState} {k : Nat} {old entry : UEntry}
    (hs : Struct p s) (hk : AL.get? s.map k = some old) (ts : Option Nat) (weight : Nat)
    (hts : ts.isSome = p.hasExpiry) :
    ∃ id n, old.ao = some id ∧ findAo s.prob id = some n ∧ n.key = k ∧
    handleUpdate p { s with map := AL.put s.map k entry } k ts weight old =
      (let e : UEntry := { entry with ao := old.ao, wo := old.wo, weight := weight }
       let s1 : UState := { s with map := AL.put s.map k e }
       let s2 := touchAo s1 id ts
       let s3 := match old.wo with
         | some wid => if p.ttl.isSome then touchWo s2 wid ts
                       else (match ts with
                             | some t => { s2 with wo := setTsWo s2.wo wid t }
                             | none => s2)
         | none => s2
       { s3 with ws := s3.ws - old.weight + weight }) := by
  obtain ⟨id, n, hao, hf, hnk⟩ := hs.aoLink k old hk (by simp)
  refine ⟨id, n, hao, hf, hnk, ?_⟩
  have hwl := hs.woLink k old hk (by simp)
  unfold handleUpdate
  simp only [AL.get?_put_self, AL.put_put]
  cases httl : p.ttl.isSome with
  | false =>
    have hwo : old.wo = none := hwl.2 httl
    cases ts with
    | none =>
      simp [hao, hwo, moveToBackAoE, hf, touchAo]
    | some t =>
      have : findAo (setTsAo s.prob id t) id = some { n with ts := some t } := by
        rw [findAo_setTsAo]; simp [hf]
      simp [hao, hwo, moveToBackAoE, this, touchAo]
  | true =>
    obtain ⟨wid, wn, hwo, hwf, hwk⟩ := hwl.1 httl
    cases ts with
    | none =>
      simp [hao, hwo, moveToBackAoE, hf, touchAo, moveToBackWoE, hwf, touchWo]
    | some t =>
      have h1 : findAo (setTsAo s.prob id t) id = some { n with ts := some t } := by
        rw [findAo_setTsAo]; simp [hf]
      have h2 : findWo (setTsWo s.wo wid t) wid = some { wn with ts := some t } := by
        rw [findWo_setTsWo]; simp [hwf]
      simp [hao, hwo, moveToBackAoE, h1, touchAo, moveToBackWoE, h2, touchWo]

theorem handleUpdate_inv {p : Params} {s : UState} {k v : Nat} {old : UEntry}
    (hi : InvU p s) (hk : AL.get? s.map k = some old) (ts : Option Nat)
    (hts : ts.isSome = p.hasExpiry) :
    InvU p (handleUpdate p { s with map := AL.put s.map k { val := v, weight := p.weigh k v } }
      k ts (p.weigh k v) old) := by
  obtain ⟨id, n, hao, hf, hnk, heq⟩ :=
    handleUpdate_eq (entry := { val := v, weight := p.weigh k v }) hi.struct hk ts (p.weigh k v) hts
  rw [heq]
  have hwl := hi.struct.woLink k old hk (by simp)
  dsimp only
  generalize he : ({ val := v, weight := p.weigh k v, ao := old.ao, wo := old.wo } : UEntry) = e
  have heao : e.ao = old.ao := by rw [← he]
  have hewo : e.wo = old.wo := by rw [← he]
  have hew : e.weight = p.weigh k v := by rw [← he]
  have hev : e.val = v := by rw [← he]
  -- structure
  have hs1 : Struct p { s with map := AL.put s.map k e } :=
    struct_put_same_links hi.struct hk heao hewo
  have hs2 := touchAo_struct hs1 id ts
  have hold := weight_le_totalW hk
  have htw := totalW_put_some e hk
  have hlen := AL.length_put_of_some e hk
  have hweights : ∀ k' e', AL.get? (AL.put s.map k e) k' = some e' →
      e'.weight = p.weigh k' e'.val := by
    intro k' e' h
    rw [AL.get?_put] at h
    by_cases hkk : k = k'
    · subst hkk; simp at h; subst h; rw [hew, hev]
    · simp [hkk] at h; exact hi.counted.weights k' e' h
  cases httl : p.ttl.isSome with
  | false =>
    have hwo : old.wo = none := hwl.2 httl
    simp only [hwo]
    refine ⟨structP_congr hs2 rfl rfl rfl rfl rfl, ⟨?_, ?_, ?_⟩⟩
    · simp only [touchAo]; rw [hlen]; exact hi.counted.ec
    · simp only [touchAo]; rw [hi.counted.ws]; omega
    · simpa [touchAo] using hweights
  | true =>
    obtain ⟨wid, wn, hwo, hwf, hwk⟩ := hwl.1 httl
    simp only [hwo, if_true]
    have hs3 := touchWo_struct hs2 wid ts
    refine ⟨structP_congr hs3 rfl rfl rfl rfl rfl, ⟨?_, ?_, ?_⟩⟩
    · simp only [touchAo, touchWo]; rw [hlen]; exact hi.counted.ec
    · simp only [touchAo, touchWo]; rw [hi.counted.ws]; omega
    · simpa [touchAo, touchWo] using hweights

/-! ### a fresh key: pending entry, then nodes -/

theorem struct_put_pending {p : Params} {s : UState} {k : Nat} {entry : UEntry}
    (hs : Struct p s) (hk : AL.get? s.map k = none) (hao : entry.ao = none)
    (hwo : entry.wo = none) :
    StructP p (some k) { s with map := AL.put s.map k entry } := by
  refine ⟨AL.nodup_put k entry hs.keysNodup, hs.probIds, hs.woIds, ?_, ?_, ?_, ?_, ?_,
    hs.freshAo, hs.freshWo, hs.noFault⟩
  · intro k' e' hk' hp
    simp only at hk'
    have hkk : k ≠ k' := fun e => hp (by rw [e])
    rw [AL.get?_put_ne entry hkk] at hk'
    exact hs.aoLink k' e' hk' (by simp)
  · intro n hn
    obtain ⟨e2, h1, h2⟩ := hs.aoBack n hn
    have hkk : k ≠ n.key := fun e => by rw [e, h1] at hk; cases hk
    exact ⟨e2, by simp only; rw [AL.get?_put_ne entry hkk]; exact h1, h2⟩
  · intro k' e' hk' hp
    simp only at hk'
    have hkk : k ≠ k' := fun e => hp (by rw [e])
    rw [AL.get?_put_ne entry hkk] at hk'
    exact hs.woLink k' e' hk' (by simp)
  · intro n hn
    obtain ⟨e2, h1, h2⟩ := hs.woBack n hn
    have hkk : k ≠ n.key := fun e => by rw [e, h1] at hk; cases hk
    exact ⟨e2, by simp only; rw [AL.get?_put_ne entry hkk]; exact h1, h2⟩
  · intro kp hkp
    cases hkp
    exact ⟨entry, by simp [AL.get?_put_self], hao, hwo⟩

/-- In a state with pending key `k`, no list node carries `k`. -/
theorem pending_no_node_ao {p : Params} {s : UState} {k : Nat} (hs : StructP p (some k) s)
    {n : AoNode} (hn : n ∈ s.prob) : n.key ≠ k := by
  intro e
  obtain ⟨e2, h1, h2⟩ := hs.aoBack n hn
  obtain ⟨ep, h3, h4, _⟩ := hs.pendIn k rfl
  rw [e, h3] at h1; cases h1
  rw [h4] at h2; cases h2

theorem pending_no_node_wo {p : Params} {s : UState} {k : Nat} (hs : StructP p (some k) s)
    {n : WoNode} (hn : n ∈ s.wo) : n.key ≠ k := by
  intro e
  obtain ⟨e2, h1, h2⟩ := hs.woBack n hn
  obtain ⟨ep, h3, _, h4⟩ := hs.pendIn k rfl
  rw [e, h3] at h1; cases h1
  rw [h4] at h2; cases h2

/-- What `pushCandidate` produces. -/
theorem pushCandidate_spec {p : Params} {s : UState} {k : Nat} (hash : UInt64) (ts : Option Nat)
    (hs : StructP p (some k) s) :
    ∃ entry, AL.get? s.map k = some entry ∧
    ∃ e' : UEntry, e'.val = entry.val ∧ e'.weight = entry.weight ∧
      (pushCandidate p s k hash ts).map = AL.put s.map k e' ∧
      Struct p (pushCandidate p s k hash ts) ∧
      (pushCandidate p s k hash ts).ec = s.ec ∧ (pushCandidate p s k hash ts).ws = s.ws ∧
      (pushCandidate p s k hash ts).sk = s.sk ∧ (pushCandidate p s k hash ts).skOn = s.skOn ∧
      (pushCandidate p s k hash ts).now = s.now ∧
      (pushCandidate p s k hash ts).prob =
        s.prob ++ [{ id := s.nextId, key := k, hash := hash, ts := ts }] := by
  obtain ⟨entry, hk, hao, hwo⟩ := hs.pendIn k rfl
  refine ⟨entry, hk, ?_⟩
  have hfa : findAo s.prob s.nextId = none :=
    findAo_eq_none_of (fun n hn => Nat.ne_of_lt (hs.freshAo n hn))
  have hfw : ∀ id, s.nextId ≤ id → findWo s.wo id = none := fun id hid =>
    findWo_eq_none_of (fun n hn => Nat.ne_of_lt (Nat.lt_of_lt_of_le (hs.freshWo n hn) hid))
  have hidsA : (s.prob.map (·.id) ++ [s.nextId]).Nodup := by
    refine List.nodup_append.mpr ⟨hs.probIds, by simp, ?_⟩
    intro a ha b hb
    simp at hb; subst hb
    obtain ⟨m, hm, rfl⟩ := List.mem_map.mp ha
    exact Nat.ne_of_lt (hs.freshAo m hm)
  unfold pushCandidate
  simp only [hk]
  cases httl : p.ttl.isSome with
  | false =>
    simp only [Bool.false_eq_true, if_false]
    refine ⟨{ entry with ao := some s.nextId }, rfl, rfl, by simp, ?_, by simp⟩
    refine ⟨AL.nodup_put k _ hs.keysNodup, by simpa using hidsA, hs.woIds, ?_, ?_, ?_, ?_, ?_, ?_, ?_,
      hs.noFault⟩
    · intro k' e' hk' _
      simp only at hk'
      rw [AL.get?_put] at hk'
      by_cases hkk : k = k'
      · subst hkk; simp at hk'; subst hk'
        refine ⟨s.nextId, { id := s.nextId, key := k, hash := hash, ts := ts }, rfl, ?_, rfl⟩
        simp [findAo_append, hfa, findAo]
      · simp [hkk] at hk'
        obtain ⟨id, n, h1, h2, h3⟩ := hs.aoLink k' e' hk' (fun e => hkk (Option.some.inj e))
        exact ⟨id, n, h1, by simp [findAo_append, h2], h3⟩
    · intro n hn
      simp only at hn
      rcases List.mem_append.mp hn with hn | hn
      · obtain ⟨e2, h1, h2⟩ := hs.aoBack n hn
        have := pending_no_node_ao hs hn
        exact ⟨e2, by simp only; rw [AL.get?_put_ne _ (Ne.symm this)]; exact h1, h2⟩
      · simp at hn; subst hn
        exact ⟨{ entry with ao := some s.nextId }, by simp [AL.get?_put_self], rfl⟩
    · intro k' e' hk' _
      simp only at hk'
      rw [AL.get?_put] at hk'
      by_cases hkk : k = k'
      · subst hkk; simp at hk'; subst hk'
        exact ⟨fun h => by simp [httl] at h, fun _ => hwo⟩
      · simp [hkk] at hk'
        exact hs.woLink k' e' hk' (fun e => hkk (Option.some.inj e))
    · intro n hn
      obtain ⟨e2, h1, h2⟩ := hs.woBack n hn
      have := pending_no_node_wo hs hn
      exact ⟨e2, by simp only; rw [AL.get?_put_ne _ (Ne.symm this)]; exact h1, h2⟩
    · intro kp hkp; cases hkp
    · intro n hn
      simp only at hn
      rcases List.mem_append.mp hn with hn | hn
      · exact Nat.lt_succ_of_lt (hs.freshAo n hn)
      · simp at hn; subst hn; exact Nat.lt_succ_self _
    · intro n hn
      exact Nat.lt_succ_of_lt (hs.freshWo n hn)
  | true =>
    simp only [if_true]
    refine ⟨{ entry with ao := some s.nextId, wo := some (s.nextId + 1) }, rfl, rfl, by simp, ?_,
      by simp⟩
    have hidsW : (s.wo.map (·.id) ++ [s.nextId + 1]).Nodup := by
      refine List.nodup_append.mpr ⟨hs.woIds, by simp, ?_⟩
      intro a ha b hb
      simp at hb; subst hb
      obtain ⟨m, hm, rfl⟩ := List.mem_map.mp ha
      exact Nat.ne_of_lt (Nat.lt_succ_of_lt (hs.freshWo m hm))
    refine ⟨AL.nodup_put k _ hs.keysNodup, by simpa using hidsA, by simpa using hidsW,
      ?_, ?_, ?_, ?_, ?_, ?_, ?_, hs.noFault⟩
    · intro k' e' hk' _
      simp only at hk'
      rw [AL.get?_put] at hk'
      by_cases hkk : k = k'
      · subst hkk; simp at hk'; subst hk'
        refine ⟨s.nextId, { id := s.nextId, key := k, hash := hash, ts := ts }, rfl, ?_, rfl⟩
        simp [findAo_append, hfa, findAo]
      · simp [hkk] at hk'
        obtain ⟨id, n, h1, h2, h3⟩ := hs.aoLink k' e' hk' (fun e => hkk (Option.some.inj e))
        exact ⟨id, n, h1, by simp [findAo_append, h2], h3⟩
    · intro n hn
      simp only at hn
      rcases List.mem_append.mp hn with hn | hn
      · obtain ⟨e2, h1, h2⟩ := hs.aoBack n hn
        have := pending_no_node_ao hs hn
        exact ⟨e2, by simp only; rw [AL.get?_put_ne _ (Ne.symm this)]; exact h1, h2⟩
      · simp at hn; subst hn
        exact ⟨{ entry with ao := some s.nextId, wo := some (s.nextId + 1) },
          by simp [AL.get?_put_self], rfl⟩
    · intro k' e' hk' _
      simp only at hk'
      rw [AL.get?_put] at hk'
      by_cases hkk : k = k'
      · subst hkk; simp at hk'; subst hk'
        refine ⟨fun _ => ⟨s.nextId + 1, { id := s.nextId + 1, key := k, ts := ts }, rfl, ?_, rfl⟩,
          fun h => by simp [httl] at h⟩
        simp [findWo_append, hfw (s.nextId + 1) (Nat.le_succ _), findWo]
      · simp [hkk] at hk'
        have := hs.woLink k' e' hk' (fun e => hkk (Option.some.inj e))
        refine ⟨fun ht => ?_, this.2⟩
        obtain ⟨id, n, h1, h2, h3⟩ := this.1 ht
        exact ⟨id, n, h1, by simp [findWo_append, h2], h3⟩
    · intro n hn
      simp only at hn
      rcases List.mem_append.mp hn with hn | hn
      · obtain ⟨e2, h1, h2⟩ := hs.woBack n hn
        have := pending_no_node_wo hs hn
        exact ⟨e2, by simp only; rw [AL.get?_put_ne _ (Ne.symm this)]; exact h1, h2⟩
      · simp at hn; subst hn
        exact ⟨{ entry with ao := some s.nextId, wo := some (s.nextId + 1) },
          by simp [AL.get?_put_self], rfl⟩
    · intro kp hkp; cases hkp
    · intro n hn
      simp only at hn
      rcases List.mem_append.mp hn with hn | hn
      · exact Nat.lt_succ_of_lt (Nat.lt_succ_of_lt (hs.freshAo n hn))
      · simp at hn; subst hn; show s.nextId < s.nextId + 1 + 1; omega
    · intro n hn
      simp only at hn
      rcases List.mem_append.mp hn with hn | hn
      · exact Nat.lt_succ_of_lt (Nat.lt_succ_of_lt (hs.freshWo n hn))
      · simp at hn; subst hn; show s.nextId + 1 < s.nextId + 1 + 1; omega

end Unsync
end MiniMoka
