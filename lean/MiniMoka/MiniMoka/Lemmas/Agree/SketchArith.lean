/-
  Agreement with the generated sketch arithmetic (Gen/Logic/SketchArith.lean): capacity
  clamp, table index, counter position, aging trigger and the size formula of `reset`,
  table and sample sizing of `ensure_capacity`.
-/
import MiniMoka.Sketch
import MiniMoka.Gen.Logic.SketchArith

namespace MiniMoka
namespace Agree

open Gen.Logic

theorem sketchCapacity_agrees (n : Nat) : Sketch.sketchCapacity n = sketch_capacity n := by
  unfold Sketch.sketchCapacity sketch_capacity
  rfl

/-- `index_of(hash, depth)`: the generated wrapping `u64` expression. -/
theorem indexOf_agrees (s : Sketch) (hash : UInt64) (i : Nat) :
    s.indexOf hash i = (index_of (Sketch.SEED i) s.mask.toUInt64 hash).toNat := by
  unfold Sketch.indexOf index_of
  rfl

/-- `((hash & 3) << 2)`. -/
theorem start_agrees (hash : UInt64) : Sketch.start hash = counter_start hash.toNat := by
  unfold Sketch.start counter_start
  rfl

/-- The size left by an aging step (current formula). -/
theorem reset_size_agrees (size count : Nat) :
    (size - count / 4) / 2 = reset_size size count := by
  unfold reset_size
  rfl

/-- `reset` stores exactly the generated size (when it does not fault). -/
theorem reset_agrees (s s' : Sketch) (h : Sketch.reset false s = .ok s') :
    s'.size = reset_size s.size (s.table.foldl (fun c w => c + Sketch.oddCount w) 0) := by
  unfold Sketch.reset at h
  simp only [Bool.false_eq_true, if_false] at h
  split at h
  · cases h
  · split at h
    · cases h
    · cases h; rfl

/-- The aging trigger `self.size >= self.sample_size`. -/
theorem age_now_agrees (size sample : Nat) : decide (size ≥ sample) = age_now size sample := by
  unfold age_now
  rfl

/-- Sizing in `ensure_capacity`: the table and sample sizes of a sketch that had to grow. -/
theorem ensureCapacity_agrees (s : Sketch) (cap : Nat)
    (h : s.table.size < table_size (min cap (2 ^ Gen.SKETCH_MAX_TABLE_POW))) :
    (s.ensureCapacity cap).table.size = table_size (min cap (2 ^ Gen.SKETCH_MAX_TABLE_POW)) ∧
    (s.ensureCapacity cap).mask = table_size (min cap (2 ^ Gen.SKETCH_MAX_TABLE_POW)) - 1 ∧
    (s.ensureCapacity cap).sampleSize = sample_size cap (min cap (2 ^ Gen.SKETCH_MAX_TABLE_POW)) := by
  unfold Sketch.ensureCapacity table_size sample_size at *
  simp only [decide_eq_true_eq] at h ⊢
  rw [if_neg (by omega)]
  refine ⟨by simp, rfl, ?_⟩
  by_cases hc : cap = 0 <;> simp [hc, Gen.SKETCH_ZERO_CAP_SAMPLE, Gen.SKETCH_SAMPLE_FACTOR, U32_MAX]

end Agree
end MiniMoka
