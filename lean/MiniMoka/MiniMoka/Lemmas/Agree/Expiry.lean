/-
  Agreement with the generated expiry tests (Gen/Logic/Expiry.lean).
-/
import MiniMoka.Unsync
import MiniMoka.Sync
import MiniMoka.Gen.Logic.Expiry

namespace MiniMoka
namespace Agree

open Gen.Logic

/-- `expiredAt` (used for both lists of the single-threaded cache) is the code's
`is_expired_entry_wo` and `is_expired_entry_ao`. -/
theorem unsync_expiredAt_agrees_wo (d ts : Option Nat) (now : Nat) :
    expiredAt d ts now = unsync_is_expired_wo d ts now := by
  unfold expiredAt unsync_is_expired_wo
  cases ts <;> cases d <;> rfl

theorem unsync_expiredAt_agrees_ao (d ts : Option Nat) (now : Nat) :
    expiredAt d ts now = unsync_is_expired_ao d ts now := by
  unfold expiredAt unsync_is_expired_ao
  cases ts <;> cases d <;> rfl

/-- The whole test of the single-threaded cache, as its call sites combine the two. -/
theorem unsync_isExpiredEntry_agrees (p : Params) (s : Unsync.UState) (e : Unsync.UEntry) (now : Nat) :
    Unsync.isExpiredEntry p s e now =
      (unsync_is_expired_wo p.ttl (Unsync.entryLm s e) now ||
       unsync_is_expired_ao p.tti (Unsync.entryLa s e) now) := by
  unfold Unsync.isExpiredEntry
  rw [unsync_expiredAt_agrees_wo, unsync_expiredAt_agrees_ao]

/-- `expiredTs` of the concurrent cache is the code's `is_expired_entry_wo` /
`is_expired_entry_ao` (entries always carry both timestamps there). -/
theorem sync_expiredTs_agrees_wo (d va : Option Nat) (ts now : Nat) :
    Sync.expiredTs d va ts now = sync_is_expired_wo d va (some ts) now := by
  unfold Sync.expiredTs sync_is_expired_wo
  cases va <;> cases d <;> simp
  all_goals (by_cases h : ts < _ <;> simp [h])

theorem sync_expiredTs_agrees_ao (d va : Option Nat) (ts now : Nat) :
    Sync.expiredTs d va ts now = sync_is_expired_ao d va (some ts) now := by
  unfold Sync.expiredTs sync_is_expired_ao
  cases va <;> cases d <;> simp
  all_goals (by_cases h : ts < _ <;> simp [h])

end Agree
end MiniMoka
