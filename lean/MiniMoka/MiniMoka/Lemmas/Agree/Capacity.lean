/-
  Agreement of the hand-written models with the definitions GENERATED from /repo/src by
  tools/translate_logic.py (Gen/Logic/Capacity.lean): capacity tests.
  A change of an operator, operand or constant in the Rust code changes the generated
  definition on the next run and breaks the corresponding theorem here.
-/
import MiniMoka.Unsync
import MiniMoka.Sync
import MiniMoka.Gen.Logic.Capacity

namespace MiniMoka
namespace Agree

open Gen.Logic

theorem unsync_hasEnoughCapacity_agrees (p : Params) (w ws : Nat) :
    Unsync.hasEnoughCapacity p w ws = unsync_has_enough_capacity p.cap w ws := by
  unfold Unsync.hasEnoughCapacity unsync_has_enough_capacity
  cases p.cap <;> rfl

theorem unsync_weightsToEvict_agrees (p : Params) (s : Unsync.UState) :
    Unsync.weightsToEvict p s = unsync_weights_to_evict p.cap s.ws := by
  unfold Unsync.weightsToEvict unsync_weights_to_evict
  cases p.cap <;> rfl

theorem unsync_shouldEnableSketch_agrees (p : Params) (s : Unsync.UState) :
    Unsync.shouldEnableSketch p s = unsync_should_enable_sketch s.skOn p.cap s.ws := by
  unfold Unsync.shouldEnableSketch unsync_should_enable_sketch
  cases s.skOn <;> cases p.cap <;> simp

theorem unsync_tooBig_agrees (p : Params) (w : Nat) :
    Unsync.tooBig p w = match p.cap with
      | some m => unsync_too_big m w
      | none => false := by
  unfold Unsync.tooBig unsync_too_big
  cases p.cap <;> rfl

theorem sync_hasEnoughCapacity_agrees (p : Params) (w : Nat) (s : Sync.SState) :
    Sync.hasEnoughCapacity p w s = sync_has_enough_capacity p.cap w s.cws := by
  unfold Sync.hasEnoughCapacity sync_has_enough_capacity
  cases p.cap <;> rfl

theorem sync_weightsToEvict_agrees (p : Params) (s : Sync.SState) :
    Sync.weightsToEvict p s = sync_weights_to_evict p.cap s.cws := by
  unfold Sync.weightsToEvict sync_weights_to_evict
  cases p.cap <;> rfl

theorem sync_shouldEnableSketch_agrees (p : Params) (s : Sync.SState) :
    Sync.shouldEnableSketch p s = sync_should_enable_sketch s.skOn p.cap s.cws := by
  unfold Sync.shouldEnableSketch sync_should_enable_sketch
  cases s.skOn <;> cases p.cap <;> simp

theorem sync_tooBig_agrees (p : Params) (w : Nat) :
    Sync.tooBig p w = match p.cap with
      | some m => sync_too_big m w
      | none => false := by
  unfold Sync.tooBig sync_too_big
  cases p.cap <;> rfl

end Agree
end MiniMoka
