/-
  Agreement with the generated housekeeping trigger (Gen/Logic/Housekeeper.lean).
-/
import MiniMoka.Sync
import MiniMoka.Gen.Logic.Housekeeper

namespace MiniMoka
namespace Agree

open Gen.Logic

theorem sync_shouldApply_agrees (s : Sync.SState) (len flushPoint : Nat) :
    Sync.shouldApply s len flushPoint = should_apply len flushPoint s.syncAfter s.now := by
  unfold Sync.shouldApply should_apply
  rfl

end Agree
end MiniMoka
