/-
  Agreement with the generated lookup filters (Gen/Logic/Lookup.lean): how `get`,
  `contains_key` and iteration combine the two expiry tests, and when an applied read moves
  the idle timer.
-/
import MiniMoka.Unsync
import MiniMoka.Sync
import MiniMoka.Gen.Logic.Lookup
import MiniMoka.Lemmas.Agree.Expiry

namespace MiniMoka
namespace Agree

open Gen.Logic

/-- The filter of `get` / `contains_key` / iteration on the single-threaded cache: the model's
`isExpiredEntry` is the code's combination of the two generated tests. -/
theorem unsync_lookup_filter_agrees (p : Params) (s : Unsync.UState) (e : Unsync.UEntry) (now : Nat) :
    Unsync.isExpiredEntry p s e now =
      unsync_get_filtered (unsync_is_expired_wo p.ttl (Unsync.entryLm s e) now)
        (unsync_is_expired_ao p.tti (Unsync.entryLa s e) now) ∧
    (!Unsync.isExpiredEntry p s e now) =
      unsync_contains_visible (unsync_is_expired_wo p.ttl (Unsync.entryLm s e) now)
        (unsync_is_expired_ao p.tti (Unsync.entryLa s e) now) ∧
    Unsync.isExpiredEntry p s e now =
      unsync_iter_filtered (unsync_is_expired_wo p.ttl (Unsync.entryLm s e) now)
        (unsync_is_expired_ao p.tti (Unsync.entryLa s e) now) := by
  rw [unsync_isExpiredEntry_agrees]
  unfold unsync_get_filtered unsync_contains_visible unsync_iter_filtered
  refine ⟨rfl, ?_, rfl⟩
  cases unsync_is_expired_wo p.ttl (Unsync.entryLm s e) now <;>
    cases unsync_is_expired_ao p.tti (Unsync.entryLa s e) now <;> rfl

/-- The same on the concurrent cache (`isExpiredInfo`). -/
theorem sync_lookup_filter_agrees (p : Params) (s : Sync.SState) (i : Sync.Info) (now : Nat) :
    Sync.isExpiredInfo p s i now =
      sync_get_filtered (sync_is_expired_wo p.ttl s.va (some i.lm) now)
        (sync_is_expired_ao p.tti s.va (some i.la) now) ∧
    (!Sync.isExpiredInfo p s i now) =
      sync_contains_visible (sync_is_expired_wo p.ttl s.va (some i.lm) now)
        (sync_is_expired_ao p.tti s.va (some i.la) now) ∧
    Sync.isExpiredInfo p s i now =
      sync_iter_filtered (sync_is_expired_wo p.ttl s.va (some i.lm) now)
        (sync_is_expired_ao p.tti s.va (some i.la) now) := by
  unfold Sync.isExpiredInfo
  rw [sync_expiredTs_agrees_wo, sync_expiredTs_agrees_ao]
  unfold sync_get_filtered sync_contains_visible sync_iter_filtered
  refine ⟨rfl, ?_, rfl⟩
  cases sync_is_expired_wo p.ttl s.va (some i.lm) now <;>
    cases sync_is_expired_ao p.tti s.va (some i.la) now <;> rfl

/-- An applied read moves the idle timer exactly when the generated guard says so
(`last_accessed().map_or(true, |la| la < timestamp)`; entries always carry the timestamp). -/
theorem sync_read_moves_timer_agrees (la ts : Nat) :
    decide (la < ts) = sync_read_moves_timer (some la) ts := by
  unfold sync_read_moves_timer
  rfl

theorem sync_applyRead_agrees (p : Params) (s : Sync.SState) (hq : p.q.d6 = false) (hash : UInt64)
    (ve : Sync.VE) (ts : Nat) :
    Sync.applyRead p s (.hit hash ve ts) =
      (let s := Sync.sketchIncrement p s hash
       let s := if sync_read_moves_timer (some (Sync.getInfo s ve.info).la) ts
                then Sync.withInfo s ve.info (fun i => { i with la := ts }) else s
       if (Sync.getInfo s ve.info).admitted then Sync.moveToBackAoE s ve.info else s) := by
  unfold Sync.applyRead sync_read_moves_timer
  simp only [hq, Bool.false_eq_true, if_false, decide_eq_true_eq]

end Agree
end MiniMoka
