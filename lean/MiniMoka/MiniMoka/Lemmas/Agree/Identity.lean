/-
  Agreement with the generated identity guards of the maintenance-side removals
  (Gen/Logic/Identity.lean): an entry is removed by the expiry loops and by LRU eviction only
  if it is the very entry the list node belongs to (same `EntryInfo`) and the second condition
  (still expired / same `last_modified`) holds. These are the sites of the D7 repairs.
-/
import MiniMoka.Sync
import MiniMoka.Gen.Logic.Identity

namespace MiniMoka
namespace Agree

open Gen.Logic

/-- The victim test of `remove_expired_ao` (current code: `d7` off). -/
theorem sync_removeExpiredAo_victim_agrees (p : Params) (hq : p.q.d7 = false) (s : Sync.SState)
    (n : Sync.AoNode) :
    (match Sync.entryOfNode p s n.key n.info with
     | some ve => if Sync.expiredTs p.tti s.va (Sync.getInfo s ve.info).la s.now then some ve else none
     | none => none) =
    (match AL.get? s.map n.key with
     | some ve =>
       if sync_expire_ao_guard (ve.info == n.info)
            (Sync.expiredTs p.tti s.va (Sync.getInfo s ve.info).la s.now) then some ve else none
     | none => none) := by
  unfold Sync.entryOfNode sync_expire_ao_guard
  cases AL.get? s.map n.key with
  | none => rfl
  | some ve =>
    simp only [hq, Bool.false_or]
    by_cases h : (ve.info == n.info) = true
    · simp [h]
    · simp [h]

/-- The victim test of `remove_expired_wo`. -/
theorem sync_removeExpiredWo_victim_agrees (p : Params) (hq : p.q.d7 = false) (s : Sync.SState)
    (n : Sync.WoNode) :
    (match Sync.entryOfNode p s n.key n.info with
     | some ve => if Sync.expiredTs p.ttl s.va (Sync.getInfo s ve.info).lm s.now then some ve else none
     | none => none) =
    (match AL.get? s.map n.key with
     | some ve =>
       if sync_expire_wo_guard (ve.info == n.info)
            (Sync.expiredTs p.ttl s.va (Sync.getInfo s ve.info).lm s.now) then some ve else none
     | none => none) := by
  unfold Sync.entryOfNode sync_expire_wo_guard
  cases AL.get? s.map n.key with
  | none => rfl
  | some ve =>
    simp only [hq, Bool.false_or]
    by_cases h : (ve.info == n.info) = true
    · simp [h]
    · simp [h]

/-- The victim test of `evict_lru_entries`: same info and unchanged `last_modified`. -/
theorem sync_evictLru_victim_agrees (p : Params) (hq : p.q.d7 = false) (s : Sync.SState)
    (n : Sync.AoNode) (ts : Nat) :
    (match Sync.entryOfNode p s n.key n.info with
     | some ve => if (Sync.getInfo s ve.info).lm == ts then some ve else none
     | none => none) =
    (match AL.get? s.map n.key with
     | some ve =>
       if sync_evict_lru_guard (ve.info == n.info) (some (Sync.getInfo s ve.info).lm) ts
       then some ve else none
     | none => none) := by
  unfold Sync.entryOfNode sync_evict_lru_guard
  cases AL.get? s.map n.key with
  | none => rfl
  | some ve =>
    simp only [hq, Bool.false_or]
    by_cases h : (ve.info == n.info) = true
    · simp [h]
    · simp [h]

end Agree
end MiniMoka
