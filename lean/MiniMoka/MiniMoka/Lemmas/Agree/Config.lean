/-
  Agreement with the generated duration limit of the builders (Gen/Logic/Config.lean).
-/
import MiniMoka.Config
import MiniMoka.Gen.Logic.Config

namespace MiniMoka
namespace Agree

open Gen.Logic

/-- The limit, in nanoseconds. -/
theorem maxDuration_agrees :
    Config.maxDuration = max_duration_secs Gen.YEAR_SECONDS * 1000000000 := by
  unfold Config.maxDuration max_duration_secs
  rfl

/-- `build` rejects a duration iff the code's `assert!(d <= max_duration)` fails. -/
theorem tooLong_agrees_ttl (d : Nat) :
    Config.tooLong (some d) = !duration_ok d Config.maxDuration := by
  unfold Config.tooLong duration_ok
  by_cases h : d ≤ Config.maxDuration
  · simp [h, Nat.not_lt.mpr h]
  · simp [h, Nat.lt_of_not_le h]

theorem tooLong_agrees_tti (d : Nat) :
    Config.tooLong (some d) = !duration_ok_tti d Config.maxDuration := by
  unfold Config.tooLong duration_ok_tti
  by_cases h : d ≤ Config.maxDuration
  · simp [h, Nat.not_lt.mpr h]
  · simp [h, Nat.lt_of_not_le h]

end Agree
end MiniMoka
