/-
  Agreement with the generated timestamp stores (Gen/Logic/Stamps.lean): what a store into a shared
  timestamp cell leaves there.  `EntryInfo::set_last_modified` / `set_last_accessed` are PLAIN stores
  (model T, `ConcT.lean`, is written for exactly that: with a forward-only store it has the
  counterexamples `ConcT_counterexample_ttl/_watermark` — the seeded changes `C01h`, `C05i`), the
  `invalidate_all` watermark is a FORWARD-ONLY store (model V, `ConcV.lean`: the repaired defect D12
  is the plain one).  A change of either store regenerates a definition for which these equations fail.
-/
import MiniMoka.ConcT
import MiniMoka.ConcV
import MiniMoka.Gen.Logic.Stamps

namespace MiniMoka
namespace Agree

open Gen.Logic

/-- Model T (the code, `mono = false`): the map write of an update leaves in the shared
`last_modified` what `EntryInfo::set_last_modified` stores. -/
theorem concT_write_agrees (ttl : Option Nat) (s : ConcT.State) (t v r : Nat)
    (h : ConcT.holds s t = some (v, r)) :
    ConcT.step false ttl s (.write t) =
      some { s with cur := some (v, r), lm := entry_set_last_modified s.lm r,
                    pend := s.pend.filter (fun p => p.1 != t) } := by
  unfold entry_set_last_modified
  simp [ConcT.step, h]

/-- The idle timer is stored the same way (the models treat `last_accessed` like `last_modified`). -/
theorem set_last_accessed_agrees (old ts : Nat) :
    entry_set_last_accessed old ts = entry_set_last_modified old ts := by
  unfold entry_set_last_accessed entry_set_last_modified
  rfl

/-- Model T: `invalidate_all` stores into the watermark what `set_valid_after` stores. -/
theorem concT_invAll_agrees (mono : Bool) (ttl : Option Nat) (s : ConcT.State) :
    ConcT.step mono ttl s .invAll =
      some { s with va := some (match s.va with
                                | some v => valid_after_store v s.now
                                | none => s.now) } := by
  unfold valid_after_store
  rfl

/-- Model V (the repaired store, `mono = true`): the same for its two-step `invalidate_all`. -/
theorem concV_storeVa_agrees (va : Option Nat) (r : Nat) :
    ConcV.storeVa true va r = some (match va with
                                    | some w => valid_after_store w r
                                    | none => r) := by
  unfold valid_after_store ConcV.storeVa ConcV.maxVa
  cases va <;> rfl

/-- `AtomicInstant::advance_to` overwrites exactly when that yields the maximum. -/
theorem advance_to_agrees (current : Option Nat) (instant : Nat) :
    (if advance_to_moves current instant then some instant else current) =
      some (match current with
            | some c => max c instant
            | none => instant) := by
  unfold advance_to_moves
  cases current with
  | none => rfl
  | some c =>
    by_cases h : c < instant
    · simp [h, Nat.max_eq_right (Nat.le_of_lt h)]
    · simp [h, Nat.max_eq_left (Nat.le_of_not_lt h)]

end Agree
end MiniMoka
