/-
  Agreement with the generated "is the expiry machinery on" predicates and the default weight
  (Gen/Logic/Enable.lean).
-/
import MiniMoka.Unsync
import MiniMoka.Sync
import MiniMoka.Gen.Logic.Enable

namespace MiniMoka
namespace Agree

open Gen.Logic

/-- `has_expiry()` of both caches. -/
theorem hasExpiry_agrees (p : Params) :
    p.hasExpiry = unsync_has_expiry p.ttl p.tti ∧ p.hasExpiry = sync_has_expiry p.ttl p.tti := by
  unfold Params.hasExpiry unsync_has_expiry sync_has_expiry
  exact ⟨rfl, rfl⟩

/-- The single-threaded cache purges only when an expiry policy is configured. -/
theorem unsync_evictExpiredIfNeeded_agrees (p : Params) (s : Unsync.UState) :
    Unsync.evictExpiredIfNeeded p s =
      if unsync_has_expiry p.ttl p.tti then Unsync.evictExpired p s else s := by
  unfold Unsync.evictExpiredIfNeeded
  rw [(hasExpiry_agrees p).1]

/-- The maintenance run purges when an expiry policy is configured or `invalidate_all` has set
the watermark; LRU eviction runs when there is something to evict. -/
theorem sync_syncRun_agrees (p : Params) (s : Sync.SState) :
    Sync.syncRun p s =
      (let s := { s with cec := s.ec, cws := s.ws }
       let s := Sync.syncLoop p (Gen.MAX_SYNC_REPEATS + 1) s
       let s := if sync_evict_expired_needed (sync_has_expiry p.ttl p.tti) s.va.isSome
                then Sync.evictExpired p s else s
       let wte := Sync.weightsToEvict p s
       let s := if wte > 0 then Sync.evictLruLoop p Gen.SYNC_EVICTION_BATCH_SIZE s wte 0 else s
       { s with ec := s.cec, ws := s.cws }) := by
  unfold Sync.syncRun sync_evict_expired_needed
  rw [(hasExpiry_agrees p).2]

/-- The write-order list is used exactly when time-to-live is configured. -/
theorem sync_writeOrder_agrees (p : Params) : p.ttl.isSome = sync_write_order_enabled p.ttl := by
  unfold sync_write_order_enabled
  rfl

/-- Without a weigher every entry weighs the generated default (1). -/
theorem default_weight_agrees (p : Params) (h : p.hasWeigher = false) (k v : Nat) :
    p.weigh k v = default_weight := by
  unfold Params.weigh default_weight
  simp [h]

end Agree
end MiniMoka
