/-
  Agreement with the generated comparisons of TinyLFU admission (Gen/Logic/Admit.lean):
  the loop guard `victims.weight < candidate.weight`, the early exit
  `candidate.freq < victims.freq` and the final decision
  `victims.weight >= candidate.weight && candidate.freq > victims.freq`.
  The model functions are re-stated as equations whose conditions are the generated ones.
-/
import MiniMoka.Unsync
import MiniMoka.Sync
import MiniMoka.Gen.Logic.Admit

namespace MiniMoka
namespace Agree

open Gen.Logic

/-- One step of the victim-aggregation loop of the single-threaded cache. -/
theorem unsync_admitLoop_agrees (p : Params) (s : Unsync.UState) (cw cf : Nat)
    (n : Unsync.AoNode) (rest : List Unsync.AoNode) (a : Unsync.Admission) :
    Unsync.admitLoop p s cw cf (n :: rest) a =
      if unsync_admit_continue a.vw cw && !unsync_admit_give_up cf a.vf then
        match AL.get? s.map n.key with
        | none => { a with fault := true }
        | some e =>
          Unsync.admitLoop p s cw cf rest
            { a with vw := a.vw + p.weigh n.key e.val,
                     vf := a.vf + s.sk.frequency n.hash,
                     victims := a.victims ++ [n] }
      else a := by
  unfold unsync_admit_continue unsync_admit_give_up
  rw [Unsync.admitLoop]
  by_cases h1 : a.vw < cw <;> by_cases h2 : cf < a.vf <;> simp only [h1, h2, false_and, not_true_eq_false, not_false_eq_true, and_self, and_false, if_true, if_false, decide_true, decide_false, Bool.not_true, Bool.not_false, Bool.and_self, Bool.and_false, Bool.false_and, Bool.false_eq_true]
  all_goals first | rfl | (split <;> rfl)

/-- The decision after the loop (single-threaded cache). -/
theorem unsync_admit_decision_agrees (vw cw cf vf : Nat) :
    (vw ≥ cw ∧ cf > vf) ↔ unsync_admit_accept vw cw cf vf = true := by
  unfold unsync_admit_accept
  simp

theorem unsync_admitOrReject_agrees (p : Params) (s : Unsync.UState) (k : Nat) (hash : UInt64)
    (weight : Nat) (ts : Option Nat) :
    Unsync.admitOrReject p s k hash weight ts =
      (let cf := s.sk.frequency hash
       let a := Unsync.admitLoop p s weight cf s.prob {}
       if a.fault then s.fail .expect
       else if unsync_admit_accept a.vw weight cf a.vf then
         let s := Unsync.removeVictims a.victims s
         let s := Unsync.pushCandidate p s k hash ts
         let s := { s with ec := s.ec + 1 }
         let s := { s with ws := s.ws - a.vw }
         let s := { s with ws := s.ws + weight }
         Unsync.maybeEnableSketch p s
       else { s with map := AL.erase s.map k }) := by
  unfold Unsync.admitOrReject
  simp only [unsync_admit_decision_agrees]

/-- One step of the victim-aggregation loop of the concurrent cache. -/
theorem sync_admitLoop_agrees (p : Params) (s : Sync.SState) (cw cf : Nat)
    (n : Sync.AoNode) (rest : List Sync.AoNode) (a : Sync.Admission) :
    Sync.admitLoop p s cw cf (n :: rest) a =
      if sync_admit_continue a.vw cw && !sync_admit_give_up cf a.vf then
        match Sync.entryOfNode p s n.key n.info with
        | some ve =>
          Sync.admitLoop p s cw cf rest
            { a with vw := a.vw + (Sync.getInfo s ve.info).weight,
                     vf := a.vf + s.sk.frequency n.hash,
                     victims := a.victims ++ [n],
                     retries := 0 }
        | none =>
          let a := { a with skipped := a.skipped ++ [n], retries := a.retries + 1 }
          if a.retries > Gen.MAX_CONSECUTIVE_RETRIES then a else Sync.admitLoop p s cw cf rest a
      else a := by
  unfold sync_admit_continue sync_admit_give_up
  rw [Sync.admitLoop]
  by_cases h1 : a.vw < cw <;> by_cases h2 : cf < a.vf <;> simp only [h1, h2, false_and, not_true_eq_false, not_false_eq_true, and_self, and_false, if_true, if_false, decide_true, decide_false, Bool.not_true, Bool.not_false, Bool.and_self, Bool.and_false, Bool.false_and, Bool.false_eq_true]
  all_goals first | rfl | (split <;> rfl)

theorem sync_admit_decision_agrees (vw cw cf vf : Nat) :
    (vw ≥ cw ∧ cf > vf) ↔ sync_admit_accept vw cw cf vf = true := by
  unfold sync_admit_accept
  simp

theorem sync_admitOrReject_agrees (p : Params) (s : Sync.SState) (key : Nat) (hash : UInt64)
    (ve : Sync.VE) (newW : Nat) :
    Sync.admitOrReject p s key hash ve newW =
      (let cf := s.sk.frequency hash
       let a := Sync.admitLoop p s newW cf s.prob {}
       if sync_admit_accept a.vw newW cf a.vf then
         let (s, skipped) := Sync.removeVictims p a.victims s a.skipped
         let s := Sync.handleAdmit p s key hash ve newW
         Sync.moveSkipped skipped s
       else
         let s := Sync.removeCandidate p s key ve
         Sync.moveSkipped a.skipped s) := by
  unfold Sync.admitOrReject
  simp only [sync_admit_decision_agrees]

end Agree
end MiniMoka
