/-
  Agreement with the generated counter arithmetic (Gen/Logic/Counters.lean): every update of
  `entry_count` / `weighted_size` (single-threaded cache) and of the run-local `EvictionCounters`
  (concurrent cache), and the run-local sums that feed them, is the expression the Rust text
  contains on this run. These are the sites where D1–D4, D8 and D10 lived: a wrong operand
  (`weight` for `old_weight`, the new weight for the accounted one), a `-` for a `+`, a dropped
  decrement all change a generated definition and break one of the equations below, whether or
  not a generated history reaches the difference.

  Shape: each theorem rewrites one model function as the same control flow with the generated
  expressions in the places of the model's own arithmetic (for the current code: every defect
  switch of `Params.q` off).
-/
import MiniMoka.Unsync
import MiniMoka.Sync
import MiniMoka.Gen.Logic.Counters

namespace MiniMoka
namespace Agree

open Gen.Logic

/-! ## single-threaded cache -/

/-- `self.entry_count -= n` with the debug build's overflow check, the new value given. -/
def checkedEc (s : Unsync.UState) (n v : Nat) : Unsync.UState :=
  if s.ec < n then s.fail .overflow else { s with ec := v }

theorem unsync_subEc_is_checked (s : Unsync.UState) (n : Nat) :
    Unsync.subEc s n = checkedEc s n (s.ec - n) := rfl

/-- `invalidate`: `entry_count -= 1`, `saturating_sub_from_total_weight(weight as u64)`. -/
theorem unsync_invalidate_counters_agrees (p : Params) (hq : p.q.d1 = false) (s : Unsync.UState) (k : Nat) :
    Unsync.invalidate p s k =
      (let s := Unsync.maintain p s
       match AL.get? s.map k with
       | none => s
       | some e =>
         let s := Unsync.takeOut s k e
         let s := checkedEc s 1 (unsync_invalidate_ec s.ec)
         { s with ws := unsync_total_sub s.ws (unsync_invalidate_sub_arg e.weight) }) := by
  unfold Unsync.invalidate unsync_invalidate_ec unsync_total_sub unsync_invalidate_sub_arg
  simp only [hq, Bool.false_eq_true, if_false, unsync_subEc_is_checked]
  try rfl

/-- `invalidate_all`: both counters are reset. -/
theorem unsync_invalidateAll_counters_agrees (p : Params) (hq : p.q.d2 = false) (s : Unsync.UState) :
    Unsync.invalidateAll p s =
      { s with map := [], prob := [], wo := [], ws := unsync_invall_ws, ec := unsync_invall_ec } := by
  unfold Unsync.invalidateAll unsync_invall_ws unsync_invall_ec
  simp only [hq, Bool.false_eq_true, if_false]
  try rfl

/-- One removed key of `invalidate_entries_if`: `invalidated += weight`, `invalidated_count += 1`. -/
theorem unsync_invalidateKeys_agrees (p : Params) (hq : p.q.d3 = false) (k : Nat) (rest : List Nat)
    (s : Unsync.UState) (c w : Nat) :
    Unsync.invalidateKeys p (k :: rest) s c w =
      (match AL.get? s.map k with
       | none => Unsync.invalidateKeys p rest s c w
       | some e =>
         Unsync.invalidateKeys p rest (Unsync.takeOut s k e) (unsync_invif_count c)
           (unsync_invif_acc w e.weight)) := by
  unfold unsync_invif_count unsync_invif_acc
  rw [Unsync.invalidateKeys]
  simp only [hq, Bool.false_eq_true, if_false]
  try rfl

/-- `invalidate_entries_if`: `entry_count -= invalidated_count`, the freed weight subtracted. -/
theorem unsync_invalidateEntriesIf_counters_agrees (p : Params) (hq : p.q.d3 = false)
    (s : Unsync.UState) (pr : Pred) :
    Unsync.invalidateEntriesIf p s pr =
      (let keys := (s.map.filter (fun kv => pr.eval kv.1 kv.2.val)).map (·.1)
       let r := Unsync.invalidateKeys p keys s 0 0
       let s := checkedEc r.1 r.2.1 (unsync_invif_ec r.1.ec r.2.1)
       { s with ws := unsync_total_sub s.ws (unsync_invif_sub_arg r.2.2) }) := by
  unfold Unsync.invalidateEntriesIf unsync_invif_ec unsync_total_sub unsync_invif_sub_arg
  simp only [hq, Bool.false_eq_true, if_false, unsync_subEc_is_checked]
  try rfl

/-- `handle_insert`, the branch with room: `entry_count += 1`, the candidate's weight added. -/
theorem unsync_handleInsert_counters_agrees (p : Params) (s : Unsync.UState) (k : Nat) (hash : UInt64)
    (weight : Nat) (ts : Option Nat) (h : Unsync.hasEnoughCapacity p weight s.ws = true) :
    Unsync.handleInsert p s k hash weight ts =
      (let s := Unsync.pushCandidate p s k hash ts
       let s := { s with ec := unsync_insert_ec s.ec,
                         ws := unsync_total_add s.ws (unsync_insert_add_arg weight) }
       Unsync.maybeEnableSketch p s) := by
  unfold Unsync.handleInsert unsync_insert_ec unsync_total_add unsync_insert_add_arg
  simp only [h, if_true]
  try rfl

/-- One victim of an admission: `entry_count -= 1`. -/
theorem unsync_removeVictims_agrees (v : Unsync.AoNode) (rest : List Unsync.AoNode) (s : Unsync.UState) :
    Unsync.removeVictims (v :: rest) s =
      (match AL.get? s.map v.key with
       | none => Unsync.removeVictims rest (s.fail .expect)
       | some e =>
         let s := Unsync.takeOut s v.key e
         Unsync.removeVictims rest (checkedEc s 1 (unsync_admit_victim_ec s.ec))) := by
  unfold unsync_admit_victim_ec
  rw [Unsync.removeVictims]
  rfl

/-- `handle_insert`, the admitted candidate: `entry_count += 1`, the victims' weight subtracted,
then the candidate's added. -/
theorem unsync_admitOrReject_counters_agrees (p : Params) (s : Unsync.UState) (k : Nat) (hash : UInt64)
    (weight : Nat) (ts : Option Nat) :
    Unsync.admitOrReject p s k hash weight ts =
      (let cf := s.sk.frequency hash
       let a := Unsync.admitLoop p s weight cf s.prob {}
       if a.fault then s.fail .expect
       else if a.vw ≥ weight ∧ cf > a.vf then
         let s := Unsync.removeVictims a.victims s
         let s := Unsync.pushCandidate p s k hash ts
         let s := { s with ec := unsync_admit_ec s.ec }
         let s := { s with ws := unsync_total_sub s.ws (unsync_admit_sub_arg a.vw weight) }
         let s := { s with ws := unsync_total_add s.ws (unsync_admit_add_arg a.vw weight) }
         Unsync.maybeEnableSketch p s
       else { s with map := AL.erase s.map k }) := by
  unfold Unsync.admitOrReject unsync_admit_ec unsync_total_sub unsync_total_add unsync_admit_sub_arg
    unsync_admit_add_arg
  rfl

/-- The counters after `handle_update`: the OLD weight is subtracted, the NEW one added. -/
theorem unsync_handleUpdate_counters_agrees (p : Params) (s : Unsync.UState) (k : Nat) (ts : Option Nat)
    (weight : Nat) (old e : Unsync.UEntry) (h : AL.get? s.map k = some e) :
    (Unsync.handleUpdate p s k ts weight old).ws =
      unsync_total_add (unsync_total_sub s.ws (unsync_update_sub_arg old.weight weight))
        (unsync_update_add_arg old.weight weight) ∧
    (Unsync.handleUpdate p s k ts weight old).ec = s.ec := by
  unfold unsync_total_add unsync_total_sub unsync_update_sub_arg unsync_update_add_arg
  unfold Unsync.handleUpdate
  simp only [h]
  have hAo : ∀ (t : Unsync.UState) (x : Unsync.UEntry), (Unsync.moveToBackAoE t x).ws = t.ws ∧
      (Unsync.moveToBackAoE t x).ec = t.ec := by
    intro t x; unfold Unsync.moveToBackAoE Unsync.UState.fail; split <;> (try split) <;> (try split) <;> exact ⟨rfl, rfl⟩
  have hWo : ∀ (t : Unsync.UState) (x : Unsync.UEntry), (Unsync.moveToBackWoE t x).ws = t.ws ∧
      (Unsync.moveToBackWoE t x).ec = t.ec := by
    intro t x; unfold Unsync.moveToBackWoE Unsync.UState.fail; split <;> (try split) <;> (try split) <;> exact ⟨rfl, rfl⟩
  constructor
  · cases ts <;> (split <;> simp [hAo, hWo]) <;> (repeat' split) <;> rfl
  · cases ts <;> (split <;> simp [hAo, hWo]) <;> (repeat' split) <;> rfl

/-- One expired entry of the time-to-live purge: count and freed weight are accumulated. -/
theorem unsync_removeExpiredWo_agrees (p : Params) (hq : p.q.d4 = false) (fuel : Nat) (s : Unsync.UState)
    (c w : Nat) :
    Unsync.removeExpiredWo p (fuel + 1) s c w =
      (match s.wo with
       | [] => (s, c, w)
       | n :: rest =>
         if expiredAt p.ttl n.ts s.now then
           match AL.get? s.map n.key with
           | some e =>
             Unsync.removeExpiredWo p fuel (Unsync.takeOut s n.key e) (unsync_rm_wo_count c)
               (unsync_rm_wo_acc w e.weight)
           | none => Unsync.removeExpiredWo p fuel { s with wo := rest } c w
         else (s, c, w)) := by
  unfold unsync_rm_wo_count unsync_rm_wo_acc
  rw [Unsync.removeExpiredWo]
  simp only [hq, Bool.false_eq_true, if_false]
  try rfl

/-- One expired entry of the time-to-idle purge. -/
theorem unsync_removeExpiredAo_agrees (p : Params) (fuel : Nat) (s : Unsync.UState) (c w : Nat) :
    Unsync.removeExpiredAo p (fuel + 1) s c w =
      (match s.prob with
       | [] => (s, c, w)
       | n :: rest =>
         if expiredAt p.tti n.ts s.now then
           match AL.get? s.map n.key with
           | some e =>
             Unsync.removeExpiredAo p fuel (Unsync.takeOut s n.key e) (unsync_rm_ao_count c)
               (unsync_rm_ao_acc w e.weight)
           | none => Unsync.removeExpiredAo p fuel { s with prob := rest } c w
         else (s, c, w)) := by
  unfold unsync_rm_ao_count unsync_rm_ao_acc
  rw [Unsync.removeExpiredAo]
  try rfl

/-- `evict_expired`: each purge's count leaves `entry_count`, its freed weight `weighted_size`
(the `window` and `protected` deques of the code are always empty: their counts and weights are 0). -/
theorem unsync_evictExpired_counters_agrees (p : Params) (s : Unsync.UState) :
    Unsync.evictExpired p s =
      (let s :=
         if p.ttl.isSome then
           let r := Unsync.removeExpiredWo p Unsync.EVICTION_BATCH_SIZE s 0 0
           let s2 := checkedEc r.1 r.2.1 (unsync_expire_wo_ec r.1.ec r.2.1)
           { s2 with ws := unsync_total_sub s2.ws (unsync_expire_wo_sub_arg r.2.1 r.2.2) }
         else s
       if p.tti.isSome then
         let r := Unsync.removeExpiredAo p Unsync.EVICTION_BATCH_SIZE s 0 0
         let s2 := checkedEc r.1 r.2.1 (unsync_expire_ao_ec r.1.ec 0 r.2.1 0)
         let w1 := unsync_total_sub s2.ws (unsync_expire_ao_sub_arg1 0 r.2.2 0)
         let w2 := unsync_total_sub w1 (unsync_expire_ao_sub_arg2 0 r.2.2 0)
         { s2 with ws := unsync_total_sub w2 (unsync_expire_ao_sub_arg3 0 r.2.2 0) }
       else s) := by
  unfold Unsync.evictExpired unsync_expire_wo_ec unsync_expire_ao_ec unsync_total_sub
    unsync_expire_wo_sub_arg unsync_expire_ao_sub_arg1 unsync_expire_ao_sub_arg2 unsync_expire_ao_sub_arg3
  simp only [unsync_subEc_is_checked, Nat.zero_add, Nat.add_zero, Nat.sub_zero]
  try rfl

/-- One victim of the size eviction: count and freed weight are accumulated. -/
theorem unsync_evictLruLoop_counters_agrees (fuel : Nat) (s : Unsync.UState) (wte c w : Nat) :
    Unsync.evictLruLoop (fuel + 1) s wte c w =
      if w ≥ wte then (s, c, w)
      else
        match s.prob with
        | [] => (s, c, w)
        | n :: rest =>
          match AL.get? s.map n.key with
          | some e =>
            Unsync.evictLruLoop fuel (Unsync.takeOut s n.key e) wte (unsync_lru_count c)
              (unsync_lru_acc w e.weight)
          | none => Unsync.evictLruLoop fuel { s with prob := rest } wte c w := by
  unfold unsync_lru_count unsync_lru_acc
  rw [Unsync.evictLruLoop]
  try rfl

/-- `evict_lru_entries`: `entry_count -= evicted_count`, the evicted weight subtracted. -/
theorem unsync_evictLru_counters_agrees (p : Params) (s : Unsync.UState) :
    Unsync.evictLru p s =
      (let r := Unsync.evictLruLoop Unsync.EVICTION_BATCH_SIZE s (Unsync.weightsToEvict p s) 0 0
       let s2 := checkedEc r.1 r.2.1 (unsync_lru_ec r.1.ec r.2.1)
       { s2 with ws := unsync_total_sub s2.ws (unsync_lru_sub_arg r.2.2) }) := by
  unfold Unsync.evictLru unsync_lru_ec unsync_total_sub unsync_lru_sub_arg
  simp only [unsync_subEc_is_checked]
  try rfl

/-! ## concurrent cache -/

/-- `EvictionCounters::saturating_sub`. -/
theorem sync_subCounters_agrees (s : Sync.SState) (n weight : Nat) :
    Sync.subCounters s n weight =
      (let s := if s.cec < n then s.fail .overflow else { s with cec := sync_counters_sub_ec s.cec n }
       { s with cws := sync_counters_sub_ws s.cws weight }) := by
  unfold Sync.subCounters sync_counters_sub_ec sync_counters_sub_ws
  rfl

/-- `EvictionCounters::saturating_add`. -/
theorem sync_addCounters_agrees (s : Sync.SState) (n weight : Nat) :
    Sync.addCounters s n weight =
      { s with cec := sync_counters_add_ec s.cec n, cws := sync_counters_add_ws s.cws weight } := by
  unfold Sync.addCounters sync_counters_add_ec sync_counters_add_ws
  rfl

/-- The update branch of `handle_upsert`: the weight ACCOUNTED for the entry is replaced by the
current one, the count is left alone, and the current weight becomes the accounted one. -/
theorem sync_applyUpdate_counters_agrees (p : Params) (hq : p.q.d8 = false) (s : Sync.SState)
    (ve : Sync.VE) (oldW newW : Nat) :
    Sync.applyUpdate p s ve oldW newW =
      (let acc := (Sync.getInfo s ve.info).weight
       let s := Sync.subCounters s (sync_update_sub_n acc oldW newW) (sync_update_sub_w acc oldW newW)
       let s := Sync.addCounters s (sync_update_add_n acc oldW newW) (sync_update_add_w acc oldW newW)
       let s := Sync.withInfo s ve.info (fun i => { i with weight := sync_update_stored acc oldW newW })
       let s := Sync.moveToBackAoE s ve.info
       Sync.moveToBackWoE s ve.info) := by
  unfold Sync.applyUpdate sync_update_sub_n sync_update_sub_w sync_update_add_n sync_update_add_w
    sync_update_stored
  simp only [hq, Bool.false_eq_true, if_false]
  try rfl

/-- `handle_admit`: one entry and its weight are added, and that weight is the one recorded. -/
theorem sync_handleAdmit_counters_agrees (p : Params) (hq : p.q.d8 = false) (s : Sync.SState)
    (key : Nat) (hash : UInt64) (ve : Sync.VE) (weight : Nat) :
    Sync.handleAdmit p s key hash ve weight =
      (let s := Sync.addCounters s (sync_admit_add_n weight) (sync_admit_add_w weight)
       let s := Sync.withInfo s ve.info (fun i => { i with weight := sync_admit_stored weight })
       let aoId := s.nextId
       let node : Sync.AoNode := { id := aoId, key := key, hash := hash, info := ve.info, kobj := ve.slot }
       let s := { s with prob := s.prob ++ [node], nextId := s.nextId + 1 }
       let s := Sync.withInfo s ve.info (fun i => { i with ao := some aoId })
       let s :=
         if p.ttl.isSome then
           let woId := s.nextId
           let wnode : Sync.WoNode := { id := woId, key := key, info := ve.info, kobj := ve.slot }
           let s := { s with wo := s.wo ++ [wnode], nextId := s.nextId + 1 }
           Sync.withInfo s ve.info (fun i => { i with wo := some woId })
         else s
       Sync.withInfo s ve.info (fun i => { i with admitted := true })) := by
  unfold Sync.handleAdmit sync_admit_add_n sync_admit_add_w sync_admit_stored
  simp only [hq, Bool.false_eq_true, if_false]
  try rfl

/-- `handle_remove` and `handle_remove_with_deques`: an admitted entry gives back one count and
the weight accounted for it. -/
theorem sync_handleRemove_counters_agrees (s : Sync.SState) (ve : Sync.VE) :
    Sync.handleRemove s ve =
      (let i := Sync.getInfo s ve.info
       if i.admitted then
         let s := Sync.withInfo s ve.info (fun i => { i with admitted := false })
         let s := Sync.subCounters s (sync_remove_sub_n i.weight) (sync_remove_sub_w i.weight)
         let s := Sync.unlinkAo s ve.info
         Sync.unlinkWo s ve.info
       else Sync.withInfo s ve.info (fun i => { i with ao := none, wo := none })) := by
  unfold Sync.handleRemove sync_remove_sub_n sync_remove_sub_w
  rfl

theorem sync_handleRemove_deq_counters_agrees (w : Nat) :
    sync_remove_deq_sub_n w = sync_remove_sub_n w ∧ sync_remove_deq_sub_w w = sync_remove_sub_w w := by
  unfold sync_remove_deq_sub_n sync_remove_sub_n sync_remove_deq_sub_w sync_remove_sub_w
  exact ⟨rfl, rfl⟩

/-- The size eviction of the concurrent cache accumulates the victim's accounted weight. -/
theorem sync_evictLruLoop_counters_agrees (p : Params) (fuel : Nat) (s : Sync.SState) (wte evicted : Nat)
    (n : Sync.AoNode) (rest : List Sync.AoNode) (ve : Sync.VE)
    (hstop : ¬ evicted ≥ wte) (hprob : s.prob = n :: rest) (hd : (Sync.getInfo s n.info).dirty = false)
    (hv : Sync.entryOfNode p s n.key n.info = some ve)
    (hlm : ((Sync.getInfo s ve.info).lm == (Sync.getInfo s n.info).lm) = true) :
    Sync.evictLruLoop p (fuel + 1) s wte evicted =
      Sync.evictLruLoop p fuel (Sync.handleRemove { s with map := AL.erase s.map n.key } ve) wte
        (sync_lru_acc evicted (Sync.getInfo s ve.info).weight) := by
  unfold sync_lru_acc
  rw [Sync.evictLruLoop, if_neg hstop]
  simp only [hprob, hd, Bool.false_eq_true, if_false, hv, hlm, if_true]
  try rfl

end Agree
end MiniMoka
