/-
  Agreement of the sketch's bit tricks (Gen/Logic/SketchBits.lean, translated from
  `common/frequency_sketch.rs` on every run) with the arithmetic reading of a word as sixteen
  4-bit counters (`Sketch.nib`, `Sketch.halveWord`, `Sketch.oddCount`) — for every 64-bit word.
-/
import MiniMoka.Sketch
import MiniMoka.SketchWord
import MiniMoka.Lemmas.Sketch
import MiniMoka.Gen.Logic.SketchBits

namespace MiniMoka
namespace Agree

open Gen.Logic

/-! ## Natural-number facts -/

theorem pow16_eq (j : Nat) : (16 : Nat) ^ j = 2 ^ (4 * j) := by
  rw [Nat.pow_mul]

/-- Bit `k` of counter `j` is bit `4j+k` of the word. -/
theorem testBit_nib (x j k : Nat) :
    (Sketch.nib x j).testBit k = (decide (k < 4) && x.testBit (4 * j + k)) := by
  unfold Sketch.nib
  rw [pow16_eq, show (16 : Nat) = 2 ^ 4 from rfl, Nat.testBit_mod_two_pow, Nat.testBit_div_two_pow,
    Nat.add_comm]

/-- A counter in shift/mask form. -/
theorem nib_eq_shift_and (x j : Nat) : Sketch.nib x j = (x >>> (4 * j)) &&& 15 := by
  unfold Sketch.nib
  rw [Nat.shiftRight_eq_div_pow, pow16_eq, show (15 : Nat) = 2 ^ 4 - 1 from rfl,
    Nat.and_two_pow_sub_one_eq_mod]

theorem and_shiftLeft (a b k : Nat) : a &&& (b <<< k) = ((a >>> k) &&& b) <<< k := by
  apply Nat.eq_of_testBit_eq
  intro i
  simp only [Nat.testBit_and, Nat.testBit_shiftLeft, Nat.testBit_shiftRight]
  by_cases h : k ≤ i
  · have : k + (i - k) = i := by omega
    simp [h, this]
  · simp [h]

theorem shiftLeft_inj (a b k : Nat) : a <<< k = b <<< k ↔ a = b := by
  rw [Nat.shiftLeft_eq, Nat.shiftLeft_eq]
  exact Nat.mul_right_cancel_iff (Nat.pow_pos (by decide))

/-- `w & mask == mask` with `mask = 0xF << 4j` says that counter `j` is saturated. -/
theorem and_mask_eq_iff (x j : Nat) :
    x &&& (15 <<< (4 * j)) = 15 <<< (4 * j) ↔ Sketch.nib x j = 15 := by
  rw [and_shiftLeft, shiftLeft_inj, nib_eq_shift_and]

/-! ## Machine-word shifts by `4 * j`, `j < 16` -/

theorem toNat_shl2 (j : UInt64) (hj : j.toNat < 16) : (j <<< 2).toNat = 4 * j.toNat := by
  rw [UInt64.toNat_shiftLeft]
  have : (2 : UInt64).toNat % 64 = 2 := by decide
  rw [this, Nat.shiftLeft_eq]
  omega

theorem toNat_shl2_mod (j : UInt64) (hj : j.toNat < 16) :
    (j <<< 2).toNat % 64 = 4 * j.toNat := by
  rw [toNat_shl2 j hj]; omega

theorem pow16_le (j : Nat) (hj : j < 16) : 16 ^ j * 16 ≤ 2 ^ 64 := by
  rw [← Nat.pow_succ, ← Sketch.pow16_16]
  exact Nat.pow_le_pow_right (by decide) (by omega)

theorem toNat_inc_mask (j : UInt64) (hj : j.toNat < 16) :
    (inc_mask (inc_offset j)).toNat = 15 <<< (4 * j.toNat) := by
  unfold inc_mask inc_offset
  rw [UInt64.toNat_shiftLeft, toNat_shl2_mod j hj]
  have h15 : (15 : UInt64).toNat = 15 := by decide
  rw [h15]
  apply Nat.mod_eq_of_lt
  rw [Nat.shiftLeft_eq, ← pow16_eq]
  have := pow16_le j.toNat hj
  omega

theorem toNat_inc_delta (j : UInt64) (hj : j.toNat < 16) :
    (inc_delta (inc_offset j)).toNat = 16 ^ j.toNat := by
  unfold inc_delta inc_offset
  rw [UInt64.toNat_shiftLeft, toNat_shl2_mod j hj]
  have h1 : (1 : UInt64).toNat = 1 := by decide
  rw [h1, Nat.one_shiftLeft, ← pow16_eq]
  apply Nat.mod_eq_of_lt
  have := pow16_le j.toNat hj
  have := Sketch.pow16_pos j.toNat
  omega

/-! ## `frequency`: reading a counter -/

theorem counter_of_word_agrees (w start i : UInt64) (h : start.toNat + i.toNat < 16) :
    (counter_of_word w start i).toNat = Sketch.nib w.toNat (start.toNat + i.toNat) := by
  have hsum : (start + i).toNat = start.toNat + i.toNat := by
    rw [UInt64.toNat_add]; omega
  unfold counter_of_word
  rw [UInt64.toNat_and, UInt64.toNat_shiftRight, toNat_shl2_mod _ (by rw [hsum]; exact h), hsum,
    nib_eq_shift_and]
  rfl

/-! ## `increment_at` -/

theorem inc_room_agrees (w j : UInt64) (hj : j.toNat < 16) :
    inc_room w (inc_mask (inc_offset j)) = decide (Sketch.nib w.toNat j.toNat ≠ 15) := by
  unfold inc_room
  apply decide_eq_decide.2
  apply not_congr
  rw [← UInt64.toNat_inj, UInt64.toNat_and, toNat_inc_mask j hj]
  exact and_mask_eq_iff _ _

/-- The `u64` addition `table[index] += 1 << offset` does not wrap. -/
theorem inc_delta_agrees (w j : UInt64) (hj : j.toNat < 16)
    (h : Sketch.nib w.toNat j.toNat ≠ 15) :
    (w + inc_delta (inc_offset j)).toNat = w.toNat + 16 ^ j.toNat := by
  rw [UInt64.toNat_add, toNat_inc_delta j hj]
  apply Nat.mod_eq_of_lt
  rw [← Sketch.pow16_16]
  exact Sketch.add_pow_lt _ _ (by rw [Sketch.pow16_16]; exact w.toNat_lt) hj h

/-! ## `reset`: the two masks -/

/-- `ONE_MASK = 0x1111_1111_1111_1111`: bit 0 of every counter. -/
theorem testBit_oneMask (i : Nat) :
    (1229782938247303441 : Nat).testBit i = (decide (i < 64) && decide (i % 4 = 0)) := by
  by_cases h : i < 64
  · have : ∀ i : Fin 64, (1229782938247303441 : Nat).testBit i.val
        = (decide (i.val < 64) && decide (i.val % 4 = 0)) := by decide
    exact this ⟨i, h⟩
  · have hlt : (1229782938247303441 : Nat) < 2 ^ i :=
      Nat.lt_of_lt_of_le (show (1229782938247303441 : Nat) < 2 ^ 64 by decide)
        (Nat.pow_le_pow_right (by decide) (by omega))
    rw [Nat.testBit_lt_two_pow hlt]; simp [h]

/-- `RESET_MASK = 0x7777_7777_7777_7777`: bits 0..2 of every counter. -/
theorem testBit_resetMask (i : Nat) :
    (8608480567731124087 : Nat).testBit i = (decide (i < 64) && decide (i % 4 ≠ 3)) := by
  by_cases h : i < 64
  · have : ∀ i : Fin 64, (8608480567731124087 : Nat).testBit i.val
        = (decide (i.val < 64) && decide (i.val % 4 ≠ 3)) := by decide
    exact this ⟨i, h⟩
  · have hlt : (8608480567731124087 : Nat) < 2 ^ i :=
      Nat.lt_of_lt_of_le (show (8608480567731124087 : Nat) < 2 ^ 64 by decide)
        (Nat.pow_le_pow_right (by decide) (by omega))
    rw [Nat.testBit_lt_two_pow hlt]; simp [h]

/-! ### `odd_counters` -/

theorem nib_mod_two (x j : Nat) :
    Sketch.nib x j % 2 = if x.testBit (4 * j) then 1 else 0 := by
  rw [Nat.testBit_eq_decide_div_mod_eq, ← pow16_eq]
  unfold Sketch.nib
  by_cases h : x / 16 ^ j % 2 = 1
  · simp only [h, decide_true, if_true]; omega
  · simp only [h, decide_false]; simp; omega

theorem popCountLow_and_oneMask (x n : Nat) (hn : n ≤ 16) :
    SketchWord.popCountLow (x &&& 1229782938247303441) (4 * n) = Sketch.oddFrom x n := by
  induction n with
  | zero => rfl
  | succ n ih =>
    have e : 4 * (n + 1) = 4 * n + 1 + 1 + 1 + 1 := by omega
    rw [e]
    simp only [SketchWord.popCountLow, Sketch.oddFrom, Nat.testBit_and, testBit_oneMask]
    rw [ih (by omega), nib_mod_two]
    have h0 : (4 * n) % 4 = 0 := by omega
    have hl : 4 * n < 64 := by omega
    simp [h0, hl]

theorem odd_counters_agrees (w : UInt64) : odd_counters w = Sketch.oddCount w.toNat := by
  unfold odd_counters SketchWord.popCount Sketch.oddCount
  rw [UInt64.toNat_and]
  have h : (1229782938247303441 : UInt64).toNat = 1229782938247303441 := by decide
  rw [h]
  exact popCountLow_and_oneMask w.toNat 16 (Nat.le_refl _)

/-! ### `halved_word` -/

theorem testBit_halveWord (x i : Nat) :
    (Sketch.halveWord x).testBit i
      = (decide (i < 64) && decide (i % 4 ≠ 3) && x.testBit (i + 1)) := by
  by_cases h : i < 64
  · -- bit `i` is bit `k = i % 4` of counter `j = i / 4`
    have hi : i = 4 * (i / 4) + i % 4 := by omega
    have hk : i % 4 < 4 := by omega
    have hb : (Sketch.halveWord x).testBit i
        = (Sketch.nib (Sketch.halveWord x) (i / 4)).testBit (i % 4) := by
      rw [testBit_nib, ← hi]; simp [hk]
    rw [hb, Sketch.nib_halveWord x (i / 4) (by omega), Nat.testBit_div_two, testBit_nib]
    have e : 4 * (i / 4) + (i % 4 + 1) = i + 1 := by omega
    rw [e]
    by_cases h3 : i % 4 = 3
    · simp [h3]
    · have : i % 4 + 1 < 4 := by omega
      simp [h, h3, this]
  · have hlt : Sketch.halveWord x < 2 ^ i :=
      Nat.lt_of_lt_of_le (by rw [← Sketch.pow16_16]; exact Sketch.halveWord_lt x)
        (Nat.pow_le_pow_right (by decide) (by omega))
    rw [Nat.testBit_lt_two_pow hlt]; simp [h]

theorem halved_word_agrees (w : UInt64) : (halved_word w).toNat = Sketch.halveWord w.toNat := by
  unfold halved_word
  rw [UInt64.toNat_and, UInt64.toNat_shiftRight]
  have h1 : (1 : UInt64).toNat % 64 = 1 := by decide
  have h2 : (8608480567731124087 : UInt64).toNat = 8608480567731124087 := by decide
  rw [h1, h2]
  apply Nat.eq_of_testBit_eq
  intro i
  rw [Nat.testBit_and, Nat.testBit_shiftRight, testBit_resetMask, testBit_halveWord,
    Nat.add_comm 1 i, Bool.and_comm]

#print axioms counter_of_word_agrees
#print axioms inc_room_agrees
#print axioms inc_delta_agrees
#print axioms odd_counters_agrees
#print axioms halved_word_agrees

end Agree
end MiniMoka
