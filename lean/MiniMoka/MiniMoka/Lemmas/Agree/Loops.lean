/-
  Agreement with the generated loop conditions (Gen/Logic/Loops.lean): when LRU eviction
  stops, how often the maintenance loop repeats, when it runs LRU eviction at all.
-/
import MiniMoka.Unsync
import MiniMoka.Sync
import MiniMoka.Gen.Logic.Loops

namespace MiniMoka
namespace Agree

open Gen.Logic

/-- One iteration of the LRU eviction loop of the single-threaded cache. -/
theorem unsync_evictLruLoop_agrees (fuel : Nat) (s : Unsync.UState) (wte c w : Nat) :
    Unsync.evictLruLoop (fuel + 1) s wte c w =
      if unsync_evict_stop w wte then (s, c, w)
      else
        match s.prob with
        | [] => (s, c, w)
        | n :: rest =>
          match AL.get? s.map n.key with
          | some e =>
            Unsync.evictLruLoop fuel (Unsync.takeOut s n.key e) wte (c + 1) (w + e.weight)
          | none => Unsync.evictLruLoop fuel { s with prob := rest } wte c w := by
  unfold unsync_evict_stop
  rw [Unsync.evictLruLoop]
  by_cases h : w ≥ wte <;> simp only [h, if_true, if_false, decide_true, decide_false, Bool.false_eq_true]
  all_goals first | rfl | (split <;> first | rfl | (split <;> rfl))

/-- The stop test of the LRU eviction loop of the concurrent cache. -/
theorem sync_evictLruLoop_stop_agrees (p : Params) (fuel : Nat) (s : Sync.SState) (wte evicted : Nat)
    (h : sync_evict_stop evicted wte = true) :
    Sync.evictLruLoop p (fuel + 1) s wte evicted = s := by
  unfold sync_evict_stop at h
  rw [Sync.evictLruLoop, if_pos (by simpa using h)]

/-- The loop goes on exactly when the generated stop test is false. -/
theorem sync_evict_stop_iff (evicted wte : Nat) :
    sync_evict_stop evicted wte = true ↔ evicted ≥ wte := by
  unfold sync_evict_stop
  simp

/-- The maintenance loop body runs while `should_sync && calls <= max_repeats`, `calls` counting
from 0: at most `MAX_SYNC_REPEATS + 1` times — the fuel `syncRun` gives `syncLoop`. -/
theorem sync_loop_fuel_agrees (calls : Nat) :
    sync_loop_continue true calls Gen.MAX_SYNC_REPEATS = decide (calls < Gen.MAX_SYNC_REPEATS + 1) := by
  unfold sync_loop_continue
  simp [Nat.lt_succ_iff]

theorem sync_loop_stops_agrees (calls m : Nat) : sync_loop_continue false calls m = false := by
  unfold sync_loop_continue
  rfl

/-- One pass of the maintenance loop repeats iff the generated `should_sync` expression says so. -/
theorem sync_syncLoop_agrees (p : Params) (fuel : Nat) (s : Sync.SState) :
    Sync.syncLoop p (fuel + 1) s =
      (let s := if s.readQ.length > 0 then Sync.applyReads p s.readQ.length s else s
       let s := if s.writeQ.length > 0 then Sync.applyWrites p s.writeQ.length s else s
       let s := if Sync.shouldEnableSketch p s then Sync.enableSketch p s else s
       if sync_loop_again s.readQ.length s.writeQ.length Gen.READ_LOG_FLUSH_POINT Gen.WRITE_LOG_FLUSH_POINT
       then Sync.syncLoop p fuel s else s) := by
  unfold sync_loop_again
  rw [Sync.syncLoop]

/-- LRU eviction is entered iff `weights_to_evict > 0`. -/
theorem sync_evict_needed_agrees (wte : Nat) : decide (wte > 0) = sync_evict_needed wte := by
  unfold sync_evict_needed
  rfl

end Agree
end MiniMoka
