/-
  Coupling between the unsync model and the reference bookkeeping of the lookup oracles
  (C01, C05, C06, C07, C16).
-/
import MiniMoka.Lemmas.UnsyncTrace

namespace MiniMoka
namespace Unsync

open Spec

def CoupledE (p : Params) (s : UState) (g : Ghost) (k : Nat) (e : UEntry) : Prop :=
  ∃ ge, AL.get? g.ents k = some ge ∧ ge.alive = true ∧ ge.val = e.val ∧
    (p.ttl.isSome = true → entryLm s e = some ge.tIns) ∧
    (p.hasExpiry = true → entryLa s e = some ge.tAcc)

structure Coupled (p : Params) (s : UState) (g : Ghost) : Prop where
  now : g.now = s.now
  ents : ∀ k e, AL.get? s.map k = some e → CoupledE p s g k e

theorem coupled_shrinks {p : Params} {s s' : UState} {g : Ghost} (hc : Coupled p s g)
    (hs : Shrinks s s') (hn : s'.now = s.now) : Coupled p s' g := by
  refine ⟨hc.now.trans hn.symm, ?_⟩
  intro k e hk
  obtain ⟨ge, h1, h2, h3, h4, h5⟩ := hc.ents k e (hs.sub k e hk)
  exact ⟨ge, h1, h2, h3, fun ht => (hs.lm k e hk).trans (h4 ht), fun hx => (hs.la k e hk).trans (h5 hx)⟩

/-- A resident, unexpired entry passes the three lookup checks. -/
theorem checks_of_entry {p : Params} {s : UState} {g : Ghost} (hc : Coupled p s g) {k : Nat}
    {e : UEntry} (hk : AL.get? s.map k = some e)
    (hexp : p.hasExpiry = true → isExpiredEntry p s e s.now = false) (ov : Option Nat)
    (hov : ov = none ∨ ov = some e.val) :
    checkC01 g (k, ov) = true ∧ checkC05 p.ttl g (k, ov) = true ∧ checkC06 p.tti g (k, ov) = true := by
  obtain ⟨ge, h1, h2, h3, h4, h5⟩ := hc.ents k e hk
  refine ⟨?_, ?_, ?_⟩
  · simp only [checkC01, h1, h2, Bool.true_and]
    rcases hov with h | h <;> simp [h, h3]
  · simp only [checkC05]
    cases httl : p.ttl with
    | none => rfl
    | some d =>
      simp only [h1]
      have hx : p.hasExpiry = true := by simp [Params.hasExpiry, httl]
      have := hexp hx
      simp only [isExpiredEntry, Bool.or_eq_false_iff] at this
      have h6 := h4 (by simp [httl])
      rw [h6, httl] at this
      simp only [expiredAt, decide_eq_false_iff_not] at this
      rw [hc.now]; simp; omega
  · simp only [checkC06]
    cases htti : p.tti with
    | none => rfl
    | some d =>
      simp only [h1]
      have hx : p.hasExpiry = true := by simp [Params.hasExpiry, htti]
      have := hexp hx
      simp only [isExpiredEntry, Bool.or_eq_false_iff] at this
      have h6 := h5 hx
      rw [h6, htti] at this
      simp only [expiredAt, decide_eq_false_iff_not] at this
      rw [hc.now]; simp; omega

/-! ### the reference side -/

theorem get?_killIf (f : Nat → GEntry → Bool) (ents : List (Nat × GEntry)) (k : Nat) :
    AL.get? (killIf f ents) k =
      (AL.get? ents k).map (fun ge => if f k ge then { ge with alive := false } else ge) := by
  induction ents with
  | nil => rfl
  | cons a rest ih =>
    obtain ⟨k', ge⟩ := a
    simp only [killIf, AL.get?_cons]
    by_cases h : k' = k
    · subst h; simp
    · simp [h, ih]

/-! ### timestamps under the list operations -/

theorem entryLa_touchAo {s : UState} (id : Nat) (ts : Option Nat) (e : UEntry)
    (hn : (s.prob.map (·.id)).Nodup) :
    entryLa (touchAo s id ts) e =
      if e.ao = some id then
        (match ts with
         | some t => (findAo s.prob id).map (fun _ => t)
         | none => entryLa s e)
      else entryLa s e := by
  simp only [entryLa]
  cases hao : e.ao with
  | none => simp
  | some id' =>
    simp only [findAo_touchAo id ts id' hn]
    by_cases h : id' = id
    · subst h
      cases ts with
      | none => simp
      | some t =>
        simp only [if_true]
        cases findAo s.prob id' <;> simp
    · have : ¬ (some id' = some id) := fun e => h (Option.some.inj e)
      cases ts with
      | none => simp [this]
      | some t => simp [h, this]

theorem entryLm_touchAo {s : UState} (id : Nat) (ts : Option Nat) (e : UEntry) :
    entryLm (touchAo s id ts) e = entryLm s e := rfl

theorem entryLa_touchWo {s : UState} (id : Nat) (ts : Option Nat) (e : UEntry) :
    entryLa (touchWo s id ts) e = entryLa s e := rfl

theorem entryLm_touchWo {s : UState} (id : Nat) (ts : Option Nat) (e : UEntry)
    (hn : (s.wo.map (·.id)).Nodup) :
    entryLm (touchWo s id ts) e =
      if e.wo = some id then
        (match ts with
         | some t => (findWo s.wo id).map (fun _ => t)
         | none => entryLm s e)
      else entryLm s e := by
  simp only [entryLm]
  cases hwo : e.wo with
  | none => simp
  | some id' =>
    simp only [findWo_touchWo id ts id' hn]
    by_cases h : id' = id
    · subst h
      cases ts with
      | none => simp
      | some t =>
        simp only [if_true]
        cases findWo s.wo id' <;> simp
    · have : ¬ (some id' = some id) := fun e => h (Option.some.inj e)
      cases ts with
      | none => simp [this]
      | some t => simp [h, this]

/-- Two different keys never share a node. -/
theorem ao_ne_of_key_ne {p : Params} {pend : Option Nat} {s : UState} (hs : StructP p pend s)
    {k k' : Nat} {e e' : UEntry} (hk : AL.get? s.map k = some e) (hk' : AL.get? s.map k' = some e')
    (hne : k ≠ k') {id : Nat} (hao : e.ao = some id) : e'.ao ≠ some id := by
  intro hao'
  by_cases hp : pend = some k
  · obtain ⟨ep, h1, h2, _⟩ := hs.pendIn k hp
    rw [hk] at h1; cases h1; rw [h2] at hao; cases hao
  · by_cases hp' : pend = some k'
    · obtain ⟨ep, h1, h2, _⟩ := hs.pendIn k' hp'
      rw [hk'] at h1; cases h1; rw [h2] at hao'; cases hao'
    · obtain ⟨i1, n1, a1, f1, k1⟩ := hs.aoLink k e hk hp
      obtain ⟨i2, n2, a2, f2, k2⟩ := hs.aoLink k' e' hk' hp'
      rw [hao] at a1; cases a1
      rw [hao'] at a2; cases a2
      rw [f1] at f2; cases f2
      exact hne (k1.symm.trans k2)

theorem wo_ne_of_key_ne {p : Params} {pend : Option Nat} {s : UState} (hs : StructP p pend s)
    {k k' : Nat} {e e' : UEntry} (hk : AL.get? s.map k = some e) (hk' : AL.get? s.map k' = some e')
    (hne : k ≠ k') {id : Nat} (hwo : e.wo = some id) : e'.wo ≠ some id := by
  intro hwo'
  by_cases hp : pend = some k
  · obtain ⟨ep, h1, _, h2⟩ := hs.pendIn k hp
    rw [hk] at h1; cases h1; rw [h2] at hwo; cases hwo
  · by_cases hp' : pend = some k'
    · obtain ⟨ep, h1, _, h2⟩ := hs.pendIn k' hp'
      rw [hk'] at h1; cases h1; rw [h2] at hwo'; cases hwo'
    · cases httl : p.ttl.isSome with
      | false =>
        have := (hs.woLink k e hk hp).2 httl
        rw [this] at hwo; cases hwo
      | true =>
        obtain ⟨i1, n1, a1, f1, k1⟩ := (hs.woLink k e hk hp).1 httl
        obtain ⟨i2, n2, a2, f2, k2⟩ := (hs.woLink k' e' hk' hp').1 httl
        rw [hwo] at a1; cases a1
        rw [hwo'] at a2; cases a2
        rw [f1] at f2; cases f2
        exact hne (k1.symm.trans k2)

/-! ### per-operation coupling -/

def allChecks (p : Params) (g : Ghost) (kv : Nat × Option Nat) : Bool :=
  checkC01 g kv && checkC05 p.ttl g kv && checkC06 p.tti g kv

theorem allChecks_of_entry {p : Params} {s : UState} {g : Ghost} (hc : Coupled p s g) {k : Nat}
    {e : UEntry} (hk : AL.get? s.map k = some e)
    (hexp : p.hasExpiry = true → isExpiredEntry p s e s.now = false) (ov : Option Nat)
    (hov : ov = none ∨ ov = some e.val) : allChecks p g (k, ov) = true := by
  obtain ⟨h1, h2, h3⟩ := checks_of_entry hc hk hexp ov hov
  simp [allChecks, h1, h2, h3]

theorem coupled_congr {p : Params} {s s' : UState} {g : Ghost} (hc : Coupled p s g)
    (hm : s'.map = s.map) (hp : s'.prob = s.prob) (hw : s'.wo = s.wo) (hn : s'.now = s.now) :
    Coupled p s' g :=
  coupled_shrinks hc (shrinks_congr (Shrinks.refl s) hm hp hw) hn

theorem opTs_none {p : Params} {s : UState} (h : opTs p s = none) : p.hasExpiry = false := by
  unfold opTs at h; split at h <;> simp_all

theorem opTs_some {p : Params} {s : UState} {t : Nat} (h : opTs p s = some t) :
    p.hasExpiry = true ∧ t = s.now := by
  unfold opTs at h; split at h <;> simp_all

/-- A hit: the entry's node is re-timed and moved; the reference records the access. -/
theorem hit_coupled {p : Params} {s : UState} {g : Ghost} (hs : Struct p s) (hc : Coupled p s g)
    {k : Nat} {e : UEntry} (hk : AL.get? s.map k = some e) {id : Nat} {n : AoNode}
    (hao : e.ao = some id) (hf : findAo s.prob id = some n) :
    Coupled p (touchAo s id (opTs p s)) (ghostStep .unsync g (.get k) (.val (some e.val))) := by
  obtain ⟨ge, h1, h2, h3, h4, h5⟩ := hc.ents k e hk
  have hg : ghostStep .unsync g (.get k) (.val (some e.val)) =
      { g with ents := AL.put g.ents k { ge with tAcc := g.now } } := by
    simp [ghostStep, h1]
  rw [hg]
  refine ⟨hc.now, ?_⟩
  intro k' e' hk'
  have hk'' : AL.get? s.map k' = some e' := hk'
  by_cases hkk : k = k'
  · subst hkk
    rw [hk] at hk''; cases hk''
    refine ⟨{ ge with tAcc := g.now }, by simp [AL.get?_put_self], h2, h3, ?_, ?_⟩
    · intro ht; rw [entryLm_touchAo]; exact h4 ht
    · intro hx
      rw [entryLa_touchAo id _ _ hs.probIds, if_pos hao]
      have : opTs p s = some s.now := by simp [opTs, hx]
      rw [this]; simp [hf, hc.now]
  · obtain ⟨ge', g1, g2, g3, g4, g5⟩ := hc.ents k' e' hk''
    refine ⟨ge', by simp only; rw [AL.get?_put_ne _ hkk]; exact g1, g2, g3, ?_, ?_⟩
    · intro ht; rw [entryLm_touchAo]; exact g4 ht
    · intro hx
      rw [entryLa_touchAo id _ _ hs.probIds, if_neg (ao_ne_of_key_ne hs hk hk'' hkk hao)]
      exact g5 hx

theorem get_coupled {P : Sketch → Prop} (L : SketchLaws P) {p : Params} (hq : NoQuirks p)
    {s : UState} {g : Ghost} (hi : Inv P p s) (hc : Coupled p s g) (k : Nat) :
    (yields (.get k) (.val (get p s k).2)).all (allChecks p g) = true ∧
    Coupled p (get p s k).1 (ghostStep .unsync g (.get k) (.val (get p s k).2)) := by
  obtain ⟨h1, h2, h3⟩ := maintain_spec hq hi.inv
  have hc1 : Coupled p (maintain p s) g := coupled_shrinks hc h2 h3.now
  have hsk1 : P (maintain p s).sk := by rw [h3.sk]; exact hi.sk
  obtain ⟨sk', h4, _, _⟩ := sketchIncrement_spec L hq hsk1 (p.hash k)
  have hi2 : InvU p { maintain p s with sk := sk' } :=
    invU_of h1 (structP_congr h1.struct rfl rfl rfl rfl rfl) rfl rfl rfl
  have hc2 : Coupled p { maintain p s with sk := sk' } g := coupled_congr hc1 rfl rfl rfl rfl
  unfold get
  simp only [h4]
  cases hg : AL.get? (maintain p s).map k with
  | none => exact ⟨by simp [yields], by simpa [ghostStep] using hc2⟩
  | some e =>
    simp only
    obtain ⟨id, n, hao, hf, _⟩ := hi2.struct.aoLink k e hg (by simp)
    have hts : opTs p { maintain p s with sk := sk' } = opTs p (maintain p s) := rfl
    cases hop : opTs p (maintain p s) with
    | none =>
      simp only
      have hx := opTs_none hop
      refine ⟨?_, ?_⟩
      · simp only [yields, List.all_cons, List.all_nil, Bool.and_true]
        exact allChecks_of_entry hc2 hg (by simp [hx]) _ (Or.inr rfl)
      · rw [recordHit_eq none hao hf]
        have := hit_coupled hi2.struct hc2 hg hao hf
        rw [hts, hop] at this; exact this
    | some t =>
      simp only
      obtain ⟨hx, ht⟩ := opTs_some hop
      split
      · exact ⟨by simp [yields], by simpa [ghostStep] using hc2⟩
      · rename_i hne
        refine ⟨?_, ?_⟩
        · simp only [yields, List.all_cons, List.all_nil, Bool.and_true]
          refine allChecks_of_entry hc2 hg (fun _ => ?_) _ (Or.inr rfl)
          rw [ht] at hne
          simpa using hne
        · rw [recordHit_eq (some t) hao hf]
          have := hit_coupled hi2.struct hc2 hg hao hf
          rw [hts, hop] at this; exact this

theorem containsKey_coupled {P : Sketch → Prop} {p : Params} (hq : NoQuirks p)
    {s : UState} {g : Ghost} (hi : Inv P p s) (hc : Coupled p s g) (k : Nat) :
    (yields (.has k) (.bool (containsKey p s k).2)).all (allChecks p g) = true ∧
    Coupled p (containsKey p s k).1 (ghostStep .unsync g (.has k) (.bool (containsKey p s k).2)) := by
  obtain ⟨h1, h2, h3⟩ := maintain_spec hq hi.inv
  have hc1 : Coupled p (maintain p s) g := coupled_shrinks hc h2 h3.now
  unfold containsKey
  dsimp only
  cases hg : AL.get? (maintain p s).map k with
  | none => exact ⟨by simp [yields], by simpa [ghostStep] using hc1⟩
  | some e =>
    dsimp only
    by_cases hx : p.hasExpiry = true
    · rw [if_pos hx]
      refine ⟨?_, by simpa [ghostStep] using hc1⟩
      cases hb : isExpiredEntry p (maintain p s) e (maintain p s).now with
      | true => simp [yields]
      | false =>
        simp only [Bool.not_false, yields, List.all_cons, List.all_nil, Bool.and_true]
        exact allChecks_of_entry hc1 hg (fun _ => hb) _ (Or.inl rfl)
    · rw [if_neg hx]
      refine ⟨?_, by simpa [ghostStep] using hc1⟩
      simp only [yields, List.all_cons, List.all_nil, Bool.and_true]
      exact allChecks_of_entry hc1 hg (fun h => absurd h hx) _ (Or.inl rfl)

theorem iter_checks {p : Params} {s : UState} {g : Ghost} (hs : Struct p s) (hc : Coupled p s g) :
    (yields .iter (.iter (sortBy (·.1) (iter p s)))).all (allChecks p g) = true := by
  simp only [yields, List.all_eq_true, List.mem_map]
  rintro ⟨k, ov⟩ ⟨⟨k', v⟩, hmem, heq⟩
  simp only [Prod.mk.injEq] at heq
  obtain ⟨rfl, rfl⟩ := heq
  rw [mem_sortBy] at hmem
  simp only [iter, List.mem_map, List.mem_filter] at hmem
  obtain ⟨⟨k2, e⟩, ⟨hin, hne⟩, heq2⟩ := hmem
  simp only [Prod.mk.injEq] at heq2
  obtain ⟨rfl, rfl⟩ := heq2
  have hk := AL.get?_of_mem hs.keysNodup hin
  exact allChecks_of_entry hc hk (fun _ => by simpa using hne) _ (Or.inr rfl)

/-! ### invalidation -/

theorem coupled_kill {p : Params} {s : UState} {g : Ghost} (hc : Coupled p s g)
    (f : Nat → GEntry → Bool)
    (hf : ∀ k e ge, AL.get? s.map k = some e → AL.get? g.ents k = some ge → ge.val = e.val →
      f k ge = false) :
    Coupled p s { g with ents := killIf f g.ents } := by
  refine ⟨hc.now, ?_⟩
  intro k e hk
  obtain ⟨ge, h1, h2, h3, h4, h5⟩ := hc.ents k e hk
  refine ⟨ge, ?_, h2, h3, h4, h5⟩
  simp only [get?_killIf, h1, Option.map_some, hf k e ge hk h1 h3]
  rfl

theorem invalidate_coupled {P : Sketch → Prop} {p : Params} (hq : NoQuirks p)
    {s : UState} {g : Ghost} (hi : Inv P p s) (hc : Coupled p s g) (k : Nat) :
    Coupled p (invalidate p s k) (ghostStep .unsync g (.inv k) .ok) := by
  have hd1 : p.q.d1 = false := by rw [hq]
  obtain ⟨h1, h2, h3⟩ := maintain_spec hq hi.inv
  have hc1 : Coupled p (maintain p s) g := coupled_shrinks hc h2 h3.now
  have hg : ghostStep .unsync g (.inv k) .ok = { g with ents := killIf (fun k' _ => k' == k) g.ents } := rfl
  rw [hg]
  unfold invalidate
  dsimp only
  cases hget : AL.get? (maintain p s).map k with
  | none =>
    dsimp only
    refine coupled_kill hc1 _ ?_
    intro k' e ge hk' _ _
    have : k' ≠ k := fun e' => by rw [e', hget] at hk'; cases hk'
    simp [this]
  | some e =>
    simp only [hd1, Bool.false_eq_true, if_false]
    obtain ⟨hs', _, _⟩ := takeOut_spec h1.struct hget (by simp)
    have hl : LoopSpec p (maintain p s) 0 0 (takeOut (maintain p s) k e, 1, e.weight) := by
      have := LoopSpec.step (c := 0) (w := 0) h1.struct hget (LoopSpec.refl hs' 1 (0 + e.weight))
      simpa using this
    obtain ⟨_, hsh, haux, hmap, _, _⟩ := settle h1 hl
    have hc3 := coupled_shrinks hc1 hsh haux.now
    refine coupled_kill hc3 _ ?_
    intro k' e' ge hk' _ _
    have hmap' : ∀ x, AL.get? (AL.erase (maintain p s).map k) x = some e' → x ≠ k := by
      intro x hx e''
      rw [e'', AL.get?_erase_self k h1.struct.keysNodup] at hx; cases hx
    have hto : (takeOut (maintain p s) k e).map = AL.erase (maintain p s).map k :=
      (takeOut_spec h1.struct hget (by simp)).2.1.map
    simp only at hmap hk'
    rw [hmap, hto] at hk'
    simp [hmap' k' hk']

theorem invalidateAll_coupled {p : Params} {s : UState} {g : Ghost} (hc : Coupled p s g) :
    Coupled p (invalidateAll p s) (ghostStep .unsync g .invAll .ok) := by
  refine ⟨hc.now, ?_⟩
  intro k e hk
  simp [invalidateAll] at hk

theorem invalidateKeys_removed {p : Params} (hq : NoQuirks p) (keys : List Nat) :
    ∀ (s : UState) (c w : Nat), Struct p s →
      ∀ k ∈ keys, AL.get? (invalidateKeys p keys s c w).1.map k = none := by
  have hd3 : p.q.d3 = false := by rw [hq]
  induction keys with
  | nil => intro s c w _ k hk; simp at hk
  | cons k0 rest ih =>
    intro s c w hs k hk
    unfold invalidateKeys
    cases hg : AL.get? s.map k0 with
    | none =>
      dsimp only
      rcases List.mem_cons.mp hk with h | h
      · subst h
        have := (invalidateKeys_spec hq rest s c w hs).shrinks.sub k
        cases h2 : AL.get? (invalidateKeys p rest s c w).1.map k with
        | none => rfl
        | some e => have := this e h2; rw [hg] at this; cases this
      · exact ih s c w hs k h
    | some e =>
      simp only [hd3]
      obtain ⟨hs', hto, _⟩ := takeOut_spec hs hg (by simp)
      rcases List.mem_cons.mp hk with h | h
      · subst h
        have := (invalidateKeys_spec hq rest (takeOut s k e) (c + 1)
          (if false = true then w - e.weight else w + e.weight) hs').shrinks.sub k
        cases h2 : AL.get? (invalidateKeys p rest (takeOut s k e) (c + 1)
            (if false = true then w - e.weight else w + e.weight)).1.map k with
        | none => rfl
        | some e2 =>
          have := this e2 h2
          rw [hto.map, AL.get?_erase_self k hs.keysNodup] at this; cases this
      · exact ih _ _ _ hs' k h

theorem invalidateEntriesIf_coupled {P : Sketch → Prop} {p : Params} (hq : NoQuirks p)
    {s : UState} {g : Ghost} (hi : Inv P p s) (hc : Coupled p s g) (pr : Pred) :
    Coupled p (invalidateEntriesIf p s pr) (ghostStep .unsync g (.invIf pr) .ok) := by
  have hd3 : p.q.d3 = false := by rw [hq]
  have hg : ghostStep .unsync g (.invIf pr) .ok =
      { g with ents := killIf (fun k ge => pr.eval k ge.val) g.ents } := rfl
  rw [hg]
  unfold invalidateEntriesIf
  dsimp only
  have hl := invalidateKeys_spec hq
    ((s.map.filter (fun kv => pr.eval kv.1 kv.2.val)).map (·.1)) s 0 0 hi.inv.struct
  have hrm := invalidateKeys_removed hq
    ((s.map.filter (fun kv => pr.eval kv.1 kv.2.val)).map (·.1)) s 0 0 hi.inv.struct
  generalize invalidateKeys p _ s 0 0 = r at hl hrm ⊢
  obtain ⟨s1, c, w⟩ := r
  simp only [hd3, Bool.false_eq_true, if_false]
  obtain ⟨_, hsh, haux, hmap, _, _⟩ := settle hi.inv hl
  have hc3 := coupled_shrinks hc hsh haux.now
  refine coupled_kill hc3 _ ?_
  intro k e ge hk _ hval
  simp only at hmap hk
  rw [hmap] at hk
  have hin : AL.get? s.map k = some e := hl.shrinks.sub k e hk
  cases hpr : pr.eval k ge.val with
  | false => rfl
  | true =>
    have : k ∈ (s.map.filter (fun kv => pr.eval kv.1 kv.2.val)).map (·.1) := by
      refine List.mem_map.mpr ⟨(k, e), List.mem_filter.mpr ⟨AL.mem_of_get? hin, ?_⟩, rfl⟩
      simpa [← hval] using hpr
    have := hrm k this
    simp only at this
    rw [this] at hk; cases hk

theorem adv_coupled {p : Params} {s : UState} {g : Ghost} (hc : Coupled p s g) (d : Nat) :
    Coupled p { s with now := s.now + d } (ghostStep .unsync g (.adv d) .ok) := by
  refine ⟨by simp [ghostStep, hc.now], ?_⟩
  intro k e hk
  exact hc.ents k e hk

/-! ### insert -/

theorem pushCandidate_times {p : Params} {s : UState} {k : Nat} (hash : UInt64) (ts : Option Nat)
    (hs : StructP p (some k) s) :
    (∀ k' e', k' ≠ k → AL.get? (pushCandidate p s k hash ts).map k' = some e' →
      AL.get? s.map k' = some e' ∧ entryLa (pushCandidate p s k hash ts) e' = entryLa s e' ∧
      entryLm (pushCandidate p s k hash ts) e' = entryLm s e') ∧
    (∀ e', AL.get? (pushCandidate p s k hash ts).map k = some e' →
      entryLa (pushCandidate p s k hash ts) e' = ts ∧
      (p.ttl.isSome = true → entryLm (pushCandidate p s k hash ts) e' = ts)) := by
  obtain ⟨entry, hk, hao, hwo⟩ := hs.pendIn k rfl
  have hfa : findAo s.prob s.nextId = none :=
    findAo_eq_none_of (fun n hn => Nat.ne_of_lt (hs.freshAo n hn))
  have hfw : findWo s.wo (s.nextId + 1) = none :=
    findWo_eq_none_of (fun n hn => Nat.ne_of_lt (Nat.lt_succ_of_lt (hs.freshWo n hn)))
  have hother : ∀ k' e', k' ≠ k → AL.get? s.map k' = some e' →
      (∀ x, entryLa { s with prob := s.prob ++ [x] } e' = entryLa s e') ∧
      (∀ x, entryLm { s with wo := s.wo ++ [x] } e' = entryLm s e') := by
    intro k' e' hne hk'
    have hp : (some k : Option Nat) ≠ some k' := fun e => hne (Option.some.inj e).symm
    obtain ⟨id, n, h1, h2, _⟩ := hs.aoLink k' e' hk' hp
    refine ⟨fun x => by simp [entryLa, h1, findAo_append, h2], fun x => ?_⟩
    cases httl : p.ttl.isSome with
    | false => simp [entryLm, (hs.woLink k' e' hk' hp).2 httl]
    | true =>
      obtain ⟨wid, wn, w1, w2, _⟩ := (hs.woLink k' e' hk' hp).1 httl
      simp [entryLm, w1, findWo_append, w2]
  unfold pushCandidate
  simp only [hk]
  cases httl : p.ttl.isSome with
  | false =>
    simp only [Bool.false_eq_true, if_false]
    refine ⟨?_, ?_⟩
    · intro k' e' hne hk'
      rw [AL.get?_put_ne _ (Ne.symm hne)] at hk'
      exact ⟨hk', (hother k' e' hne hk').1 _, rfl⟩
    · intro e' hk'
      simp only [AL.get?_put_self, Option.some.injEq] at hk'
      subst hk'
      exact ⟨by simp [entryLa, findAo_append, hfa, findAo], fun h => by simp at h⟩
  | true =>
    simp only [if_true]
    refine ⟨?_, ?_⟩
    · intro k' e' hne hk'
      rw [AL.get?_put_ne _ (Ne.symm hne)] at hk'
      exact ⟨hk', (hother k' e' hne hk').1 _, (hother k' e' hne hk').2 _⟩
    · intro e' hk'
      simp only [AL.get?_put_self, Option.some.injEq] at hk'
      subst hk'
      exact ⟨by simp [entryLa, findAo_append, hfa, findAo],
        fun _ => by simp [entryLm, findWo_append, hfw, findWo]⟩

/-- Coupling is insensitive to the counters and the sketch. -/
theorem coupled_frame {p : Params} {s s' : UState} {g : Ghost} (hc : Coupled p s g)
    (hm : s'.map = s.map) (hp : s'.prob = s.prob) (hw : s'.wo = s.wo) (hn : s'.now = s.now) :
    Coupled p s' g := coupled_congr hc hm hp hw hn

theorem maybeEnableSketch_frame (p : Params) (s : UState) :
    (maybeEnableSketch p s).map = s.map ∧ (maybeEnableSketch p s).prob = s.prob ∧
    (maybeEnableSketch p s).wo = s.wo ∧ (maybeEnableSketch p s).now = s.now := by
  unfold maybeEnableSketch enableSketch
  split
  · split <;> simp
  · simp

/-- After an insert of `(k, v)` at reading `now`, the reference entry of `k`. -/
def insertedG (g : Ghost) (k v : Nat) : Ghost :=
  { g with ents := AL.put g.ents k { val := v, tIns := g.now, tAcc := g.now, alive := true } }

theorem coupled_insert_absent {p : Params} {s : UState} {g : Ghost} (hc : Coupled p s g)
    {k : Nat} (hk : AL.get? s.map k = none) (v : Nat) : Coupled p s (insertedG g k v) := by
  refine ⟨hc.now, ?_⟩
  intro k' e hk'
  have hne : k ≠ k' := fun e' => by rw [e', hk'] at hk; cases hk
  obtain ⟨ge, h1, h2⟩ := hc.ents k' e hk'
  exact ⟨ge, by simp only [insertedG]; rw [AL.get?_put_ne _ hne]; exact h1, h2⟩

/-- The common tail of `handle_insert`: nodes for the candidate. -/
theorem pushed_coupled {p : Params} {s s3 : UState} {g : Ghost} {k v : Nat} (hc : Coupled p s g)
    (hs3 : StructP p (some k) s3)
    (hsub : ∀ k' e', k' ≠ k → AL.get? s3.map k' = some e' →
      AL.get? s.map k' = some e' ∧ entryLa s3 e' = entryLa s e' ∧ entryLm s3 e' = entryLm s e')
    (hval : ∀ e, AL.get? s3.map k = some e → e.val = v) (hnow : s3.now = s.now) :
    Coupled p (pushCandidate p s3 k (p.hash k) (opTs p s)) (insertedG g k v) := by
  obtain ⟨h1, h2⟩ := pushCandidate_times (p.hash k) (opTs p s) hs3
  obtain ⟨entry, hk3, e', hv', _, hmap, _, _, _, _, _, hnow', _⟩ :=
    pushCandidate_spec (p.hash k) (opTs p s) hs3
  refine ⟨by simp only [insertedG]; rw [hnow', hnow]; exact hc.now, ?_⟩
  intro k' e hk'
  by_cases hkk : k' = k
  · subst hkk
    obtain ⟨t1, t2⟩ := h2 e hk'
    have hev : e.val = v := by
      rw [hmap, AL.get?_put_self] at hk'
      cases hk'
      rw [hv']; exact hval entry hk3
    refine ⟨{ val := v, tIns := g.now, tAcc := g.now, alive := true },
      by simp [insertedG, AL.get?_put_self], rfl, hev.symm, ?_, ?_⟩
    · intro ht
      rw [t2 ht]
      have hx : p.hasExpiry = true := by simp [Params.hasExpiry, ht]
      simp [opTs, hx, hc.now]
    · intro hx
      rw [t1]; simp [opTs, hx, hc.now]
  · obtain ⟨a1, a2, a3⟩ := h1 k' e hkk hk'
    obtain ⟨b1, b2, b3⟩ := hsub k' e hkk a1
    obtain ⟨ge, c1, c2, c3, c4, c5⟩ := hc.ents k' e b1
    refine ⟨ge, by simp only [insertedG]; rw [AL.get?_put_ne _ (Ne.symm hkk)]; exact c1, c2, c3, ?_, ?_⟩
    · intro ht; rw [a3, b3]; exact c4 ht
    · intro hx; rw [a2, b2]; exact c5 hx

theorem update_coupled {p : Params} {s : UState} {g : Ghost} (hi : InvU p s)
    (hc : Coupled p s g) {k v : Nat} {old : UEntry} (hk : AL.get? s.map k = some old) :
    Coupled p (handleUpdate p { s with map := AL.put s.map k { val := v, weight := p.weigh k v } }
      k (opTs p s) (p.weigh k v) old) (insertedG g k v) := by
  obtain ⟨id, n, hao, hf, hnk, heq⟩ :=
    handleUpdate_eq (entry := { val := v, weight := p.weigh k v }) hi.struct hk (opTs p s)
      (p.weigh k v) (opTs_isSome p s)
  rw [heq]
  have hwl := hi.struct.woLink k old hk (by simp)
  dsimp only
  generalize he : ({ val := v, weight := p.weigh k v, ao := old.ao, wo := old.wo } : UEntry) = e
  have heao : e.ao = old.ao := by rw [← he]
  have hewo : e.wo = old.wo := by rw [← he]
  have hev : e.val = v := by rw [← he]
  have hs1 : Struct p { s with map := AL.put s.map k e } :=
    struct_put_same_links hi.struct hk heao hewo
  -- entries other than `k` keep their timestamps under both touches
  have hget : ∀ k', AL.get? (AL.put s.map k e) k' = if k = k' then some e else AL.get? s.map k' :=
    fun k' => AL.get?_put s.map k k' e
  have hnow : g.now = s.now := hc.now
  cases httl : p.ttl.isSome with
  | false =>
    have hwo : old.wo = none := hwl.2 httl
    simp only [hwo]
    refine ⟨by simp [insertedG, touchAo, hnow], ?_⟩
    intro k' e' hk'
    simp only [touchAo] at hk'
    rw [hget] at hk'
    by_cases hkk : k = k'
    · subst hkk
      simp at hk'; subst hk'
      refine ⟨{ val := v, tIns := g.now, tAcc := g.now, alive := true },
        by simp [insertedG, AL.get?_put_self], rfl, hev.symm, fun ht => by simp [httl] at ht, ?_⟩
      intro hx
      show entryLa (touchAo { s with map := AL.put s.map k e } id (opTs p s)) e = _
      rw [entryLa_touchAo id _ _ hs1.probIds, if_pos (heao.trans hao)]
      simp [opTs, hx, hf, hnow]
    · simp [hkk] at hk'
      obtain ⟨ge, c1, c2, c3, c4, c5⟩ := hc.ents k' e' hk'
      refine ⟨ge, by simp only [insertedG]; rw [AL.get?_put_ne _ hkk]; exact c1, c2, c3,
        fun ht => by simp [httl] at ht, ?_⟩
      intro hx
      show entryLa (touchAo { s with map := AL.put s.map k e } id (opTs p s)) e' = _
      rw [entryLa_touchAo id _ _ hs1.probIds, if_neg (ao_ne_of_key_ne hi.struct hk hk' hkk hao)]
      exact c5 hx
  | true =>
    obtain ⟨wid, wn, hwo, hwf, hwk⟩ := hwl.1 httl
    simp only [hwo, if_true]
    have hs2 := touchAo_struct hs1 id (opTs p s)
    refine ⟨by simp [insertedG, touchAo, touchWo, hnow], ?_⟩
    intro k' e' hk'
    simp only [touchAo, touchWo] at hk'
    rw [hget] at hk'
    have hx : p.hasExpiry = true := by simp [Params.hasExpiry, httl]
    have hla : ∀ x : UEntry, entryLa { touchWo (touchAo { s with map := AL.put s.map k e } id (opTs p s))
        wid (opTs p s) with ws := (touchWo (touchAo { s with map := AL.put s.map k e } id (opTs p s))
        wid (opTs p s)).ws - old.weight + p.weigh k v } x =
        entryLa (touchAo { s with map := AL.put s.map k e } id (opTs p s)) x := fun _ => rfl
    have hlm : ∀ x : UEntry, entryLm { touchWo (touchAo { s with map := AL.put s.map k e } id (opTs p s))
        wid (opTs p s) with ws := (touchWo (touchAo { s with map := AL.put s.map k e } id (opTs p s))
        wid (opTs p s)).ws - old.weight + p.weigh k v } x =
        entryLm (touchWo (touchAo { s with map := AL.put s.map k e } id (opTs p s)) wid (opTs p s)) x :=
      fun _ => rfl
    by_cases hkk : k = k'
    · subst hkk
      simp at hk'; subst hk'
      refine ⟨{ val := v, tIns := g.now, tAcc := g.now, alive := true },
        by simp [insertedG, AL.get?_put_self], rfl, hev.symm, ?_, ?_⟩
      · intro _
        rw [hlm, entryLm_touchWo wid _ _ hs2.woIds, if_pos (hewo.trans hwo)]
        simp [opTs, hx, touchAo, hwf, hnow]
      · intro _
        rw [hla, entryLa_touchAo id _ _ hs1.probIds, if_pos (heao.trans hao)]
        simp [opTs, hx, hf, hnow]
    · simp [hkk] at hk'
      obtain ⟨ge, c1, c2, c3, c4, c5⟩ := hc.ents k' e' hk'
      refine ⟨ge, by simp only [insertedG]; rw [AL.get?_put_ne _ hkk]; exact c1, c2, c3, ?_, ?_⟩
      · intro ht
        rw [hlm, entryLm_touchWo wid _ _ hs2.woIds,
          if_neg (wo_ne_of_key_ne hi.struct hk hk' hkk hwo)]
        exact c4 ht
      · intro _
        rw [hla, entryLa_touchAo id _ _ hs1.probIds,
          if_neg (ao_ne_of_key_ne hi.struct hk hk' hkk hao)]
        exact c5 hx

theorem handleInsert_coupled {P : Sketch → Prop} {p : Params}
    {s : UState} {g : Ghost} (hi : Inv P p s) (hc : Coupled p s g) {k v : Nat}
    (hk : AL.get? s.map k = none) :
    Coupled p (handleInsert p { s with map := AL.put s.map k { val := v, weight := p.weigh k v } }
      k (p.hash k) (p.weigh k v) (opTs p s)) (insertedG g k v) := by
  generalize hent : ({ val := v, weight := p.weigh k v } : UEntry) = entry
  have heao : entry.ao = none := by rw [← hent]
  have hewo : entry.wo = none := by rw [← hent]
  have hew : entry.weight = p.weigh k v := by rw [← hent]
  have hev : entry.val = v := by rw [← hent]
  have hsp := struct_put_pending (entry := entry) hi.inv.struct hk heao hewo
  have hlen := AL.length_put_of_none entry hk
  have hwts2 : ∀ k' e', AL.get? (AL.put s.map k entry) k' = some e' →
      e'.weight = p.weigh k' e'.val := by
    intro k' e2 h2
    rw [AL.get?_put] at h2
    by_cases hkk : k = k'
    · subst hkk; simp at h2; subst h2; rw [hew, hev]
    · simp [hkk] at h2; exact hi.inv.counted.weights k' e2 h2
  -- the common tail
  have tail : ∀ (s3 : UState) (vwt : Nat), StructP p (some k) s3 →
      (∀ k' e', k' ≠ k → AL.get? s3.map k' = some e' →
        AL.get? s.map k' = some e' ∧ entryLa s3 e' = entryLa s e' ∧ entryLm s3 e' = entryLm s e') →
      (∀ e, AL.get? s3.map k = some e → e.val = v) → s3.now = s.now →
      Coupled p (maybeEnableSketch p
        (let s4 := pushCandidate p s3 k (p.hash k) (opTs p s)
         let s5 := { s4 with ec := s4.ec + 1 }
         let s6 := { s5 with ws := s5.ws - vwt }
         { s6 with ws := s6.ws + p.weigh k v })) (insertedG g k v) := by
    intro s3 vwt hs3 hsub hval hnow
    have := pushed_coupled hc hs3 hsub hval hnow
    obtain ⟨m1, m2, m3, m4⟩ := maybeEnableSketch_frame p
      (let s4 := pushCandidate p s3 k (p.hash k) (opTs p s)
       let s5 := { s4 with ec := s4.ec + 1 }
       let s6 := { s5 with ws := s5.ws - vwt }
       { s6 with ws := s6.ws + p.weigh k v })
    exact coupled_frame this m1 m2 m3 m4
  have hsub2 : ∀ k' e', k' ≠ k → AL.get? (AL.put s.map k entry) k' = some e' →
      AL.get? s.map k' = some e' := by
    intro k' e' hne h
    rw [AL.get?_put_ne _ (Ne.symm hne)] at h; exact h
  unfold handleInsert
  dsimp only
  by_cases hcap : hasEnoughCapacity p (p.weigh k v) s.ws = true
  · rw [if_pos hcap]
    have := tail { s with map := AL.put s.map k entry } 0 hsp
      (fun k' e' hne h => ⟨hsub2 k' e' hne h, rfl, rfl⟩)
      (fun e h => by simp [AL.get?_put_self] at h; rw [← h, hev]) rfl
    simpa using this
  · rw [if_neg hcap]
    by_cases htb : tooBig p (p.weigh k v) = true
    · rw [if_pos htb, state_restore hk]; exact coupled_insert_absent hc hk v
    · rw [if_neg htb]
      unfold admitOrReject
      dsimp only
      have hall : ∀ n ∈ s.prob, ∃ e, AL.get? (AL.put s.map k entry) n.key = some e := by
        intro n hn
        obtain ⟨e2, h1, _⟩ := hsp.aoBack n hn
        exact ⟨e2, h1⟩
      obtain ⟨hf, taken, rest, hsplit, hvic, hvw, _⟩ :=
        admitLoop_spec (p := p) (s := { s with map := AL.put s.map k entry })
          (cw := p.weigh k v) (cf := s.sk.frequency (p.hash k)) hwts2 s.prob {} hall rfl
      simp only [hf, Bool.false_eq_true, if_false]
      split
      · have hvic' : (admitLoop p { s with map := AL.put s.map k entry } (p.weigh k v)
            (s.sk.frequency (p.hash k)) s.prob {}).victims = taken := by simpa using hvic
        rw [hvic']
        have hin : ∀ v' ∈ taken, v' ∈ ({ s with map := AL.put s.map k entry } : UState).prob := by
          intro v' hv'
          simp only; rw [hsplit]; exact List.mem_append_left _ hv'
        have hnd : (taken.map (·.id)).Nodup := by
          have := hi.inv.struct.probIds
          rw [hsplit, List.map_append] at this
          exact (List.nodup_append.mp this).1
        obtain ⟨r1, r2, r3, r4, r5, r6, r7, r8⟩ :=
          removeVictims_spec taken _ hsp hin hnd (by simp only; rw [hlen, hi.inv.counted.ec])
        refine tail _ _ r1 ?_ ?_ r6.now
        · intro k' e' hne h
          have h2 := r7.sub k' e' h
          exact ⟨hsub2 k' e' hne h2, r7.la k' e' h, r7.lm k' e' h⟩
        · intro e h
          rw [r8] at h
          simp [AL.get?_put_self] at h; rw [← h, hev]
      · rw [state_restore hk]; exact coupled_insert_absent hc hk v

theorem insert_coupled {P : Sketch → Prop} {p : Params} (hq : NoQuirks p)
    {s : UState} {g : Ghost} (hi : Inv P p s) (hc : Coupled p s g) (k v : Nat) :
    Coupled p (insert p s k v) (ghostStep .unsync g (.ins k v) .ok) := by
  obtain ⟨h1, h2, h3⟩ := maintain_spec hq hi.inv
  have hi1 : Inv P p (maintain p s) := hi.of_aux h1 h3.sk h3.skOn
  have hc1 : Coupled p (maintain p s) g := coupled_shrinks hc h2 h3.now
  have hg : ghostStep .unsync g (.ins k v) .ok = insertedG g k v := rfl
  rw [hg]
  unfold insert
  dsimp only
  cases hget : AL.get? (maintain p s).map k with
  | some old => exact update_coupled h1 hc1 hget
  | none => exact handleInsert_coupled hi1 hc1 hget

/-- One step: the lookup checks pass and the coupling is re-established. -/
theorem step_coupled {P : Sketch → Prop} (L : SketchLaws P) {p : Params} (hq : NoQuirks p)
    (hsm : SmallSketch p) {s : UState} {g : Ghost} (hi : Inv P p s) (hc : Coupled p s g) (op : Op) :
    (yields op (step p s op).2).all (allChecks p g) = true ∧
    Coupled p (step p s op).1 (ghostStep .unsync g op (step p s op).2) := by
  have hobs := step_obs L hq hsm hi op
  have hst : (step p s op).1 = match op with
      | .ins k v => insert p s k v
      | .get k => (get p s k).1
      | .has k => (containsKey p s k).1
      | .iter => s
      | .inv k => invalidate p s k
      | .invAll => invalidateAll p s
      | .invIf pr => invalidateEntriesIf p s pr
      | .sync => s
      | .adv d => { s with now := s.now + d }
      | .snap => s
      | .freq _ => s := by
    have hnf := hi.inv.struct.noFault
    have hnext := (step_inv L hq hsm hi op).inv.struct.noFault
    unfold step at hnext ⊢
    simp only [hnf, Option.isSome_none, Bool.false_eq_true, if_false] at hnext ⊢
    cases op <;> dsimp only at hnext ⊢ <;> (split at hnext <;> simp_all)
  rw [hobs, hst]
  cases op with
  | ins k v => exact ⟨by simp [yields], insert_coupled hq hi hc k v⟩
  | get k => exact get_coupled L hq hi hc k
  | has k => exact containsKey_coupled hq hi hc k
  | iter => exact ⟨iter_checks hi.inv.struct hc, by simpa [ghostStep] using hc⟩
  | inv k => exact ⟨by simp [yields], invalidate_coupled hq hi hc k⟩
  | invAll => exact ⟨by simp [yields], invalidateAll_coupled hc⟩
  | invIf pr => exact ⟨by simp [yields], invalidateEntriesIf_coupled hq hi hc pr⟩
  | sync => exact ⟨by simp [yields], by simpa [ghostStep] using hc⟩
  | adv d => exact ⟨by simp [yields], adv_coupled hc d⟩
  | snap => exact ⟨by simp [yields], by simpa [ghostStep] using hc⟩
  | freq k => exact ⟨by simp [yields], by simpa [ghostStep] using hc⟩

/-- Lifting to traces: any check implied by `allChecks` holds along every trace. -/
theorem lookupOracle_of_coupled {P : Sketch → Prop} (L : SketchLaws P) {p : Params}
    (hq : NoQuirks p) (hsm : SmallSketch p) (check : Ghost → Nat × Option Nat → Bool)
    (himp : ∀ g kv, allChecks p g kv = true → check g kv = true) :
    ∀ (h : List Op) (s : UState) (g : Ghost), Inv P p s → Coupled p s g →
      lookupOracle .unsync check g (run p s h) = true := by
  intro h
  induction h with
  | nil => intro s g _ _; rfl
  | cons op rest ih =>
    intro s g hi hc
    obtain ⟨h1, h2⟩ := step_coupled L hq hsm hi hc op
    simp only [run, lookupOracle]
    split
    · rfl
    · simp only [Bool.and_eq_true]
      refine ⟨?_, ih _ _ (step_inv L hq hsm hi op) h2⟩
      rw [List.all_eq_true] at h1 ⊢
      exact fun kv hkv => himp g kv (h1 kv hkv)

theorem init_coupled (p : Params) : Coupled p {} {} :=
  ⟨rfl, fun k e hk => by simp at hk⟩

end Unsync
end MiniMoka
