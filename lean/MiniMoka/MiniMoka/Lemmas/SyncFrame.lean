/-
  Frame lemmas for the sequential sync model: what maintenance can and cannot change.

  `Frame0 s s'`: the map only shrinks; key / last_modified / last_accessed of every info,
  the read queue, `valid_after` and the clock are unchanged.  Everything in maintenance
  except `apply_reads` satisfies it.  `Frame s s'` additionally allows `last_accessed` to
  move forward to the timestamp of a queued hit, and the read queue to shrink.
-/
import MiniMoka.Sync
import MiniMoka.Lemmas.AL

namespace MiniMoka
namespace Sync

theorem getInfo_withInfo (s : SState) (i : Nat) (f : Info → Info) (j : Nat) :
    getInfo (withInfo s i f) j = if i = j then f (getInfo s i) else getInfo s j := by
  simp only [getInfo, withInfo, AL.get?_put]
  by_cases h : i = j <;> simp [h]

structure Frame0 (s s' : SState) : Prop where
  kn : (AL.keys s.map).Nodup → (AL.keys s'.map).Nodup
  mapSub : (AL.keys s.map).Nodup → ∀ k ve, AL.get? s'.map k = some ve → AL.get? s.map k = some ve
  key : ∀ i, (getInfo s' i).key = (getInfo s i).key
  lm : ∀ i, (getInfo s' i).lm = (getInfo s i).lm
  la : ∀ i, (getInfo s' i).la = (getInfo s i).la
  readQ : s'.readQ = s.readQ
  va : s'.va = s.va
  now : s'.now = s.now
  nextId : s.nextId ≤ s'.nextId

theorem Frame0.refl (s : SState) : Frame0 s s :=
  ⟨fun h => h, fun _ _ _ h => h, fun _ => rfl, fun _ => rfl, fun _ => rfl, rfl, rfl, rfl,
   Nat.le_refl _⟩

theorem Frame0.trans {a b c : SState} (h1 : Frame0 a b) (h2 : Frame0 b c) : Frame0 a c :=
  ⟨fun h => h2.kn (h1.kn h),
   fun hn k ve h => h1.mapSub hn k ve (h2.mapSub (h1.kn hn) k ve h),
   fun i => (h2.key i).trans (h1.key i), fun i => (h2.lm i).trans (h1.lm i),
   fun i => (h2.la i).trans (h1.la i), h2.readQ.trans h1.readQ, h2.va.trans h1.va,
   h2.now.trans h1.now, Nat.le_trans h1.nextId h2.nextId⟩

/-- A state that differs only in fields the frame does not mention. -/
theorem frame0_of_eq {s s' : SState} (hm : s'.map = s.map) (hi : s'.infos = s.infos)
    (hr : s'.readQ = s.readQ) (hv : s'.va = s.va) (hn : s'.now = s.now)
    (hx : s.nextId ≤ s'.nextId := by first | exact Nat.le_refl _ | exact Nat.le_succ _) :
    Frame0 s s' := by
  refine ⟨fun h => by rw [hm]; exact h, fun _ k ve h => by rw [hm] at h; exact h, ?_, ?_, ?_,
    hr, hv, hn, hx⟩ <;> intro i <;> simp [getInfo, hi]

theorem frame0_fail (s : SState) (f : Fault) : Frame0 s (s.fail f) := by
  unfold SState.fail; split
  · exact Frame0.refl s
  · exact frame0_of_eq rfl rfl rfl rfl rfl

theorem frame0_withInfo (s : SState) (i : Nat) (f : Info → Info)
    (hf : ∀ x, (f x).key = x.key ∧ (f x).lm = x.lm ∧ (f x).la = x.la) :
    Frame0 s (withInfo s i f) := by
  refine ⟨fun h => h, fun _ k ve h => h, ?_, ?_, ?_, rfl, rfl, rfl, Nat.le_refl _⟩ <;> intro j <;>
    rw [getInfo_withInfo] <;> by_cases h : i = j <;> simp [h, hf]

theorem frame0_erase (s : SState) (k : Nat) :
    Frame0 s { s with map := AL.erase s.map k } := by
  refine ⟨fun hn => AL.nodup_erase k hn, ?_, fun _ => rfl, fun _ => rfl, fun _ => rfl, rfl, rfl, rfl,
    Nat.le_refl _⟩
  intro hn k' ve h
  simp only at h
  rw [AL.get?_erase k k' hn] at h
  by_cases hk : k = k'
  · simp [hk] at h
  · simpa [hk] using h

/-! ### record updates of fields the frame does not mention -/

theorem frame0_set_prob (s : SState) (x : List AoNode) : Frame0 s { s with prob := x } :=
  frame0_of_eq rfl rfl rfl rfl rfl
theorem frame0_set_wo (s : SState) (x : List WoNode) : Frame0 s { s with wo := x } :=
  frame0_of_eq rfl rfl rfl rfl rfl
theorem frame0_set_cec (s : SState) (x : Nat) : Frame0 s { s with cec := x } :=
  frame0_of_eq rfl rfl rfl rfl rfl
theorem frame0_set_cws (s : SState) (x : Nat) : Frame0 s { s with cws := x } :=
  frame0_of_eq rfl rfl rfl rfl rfl
theorem frame0_set_cec_cws (s : SState) (x y : Nat) : Frame0 s { s with cec := x, cws := y } :=
  frame0_of_eq rfl rfl rfl rfl rfl
theorem frame0_set_ec_ws (s : SState) (x y : Nat) : Frame0 s { s with ec := x, ws := y } :=
  frame0_of_eq rfl rfl rfl rfl rfl
theorem frame0_set_sk (s : SState) (x : Sketch) : Frame0 s { s with sk := x } :=
  frame0_of_eq rfl rfl rfl rfl rfl
theorem frame0_set_sk_on (s : SState) (x : Sketch) (b : Bool) : Frame0 s { s with sk := x, skOn := b } :=
  frame0_of_eq rfl rfl rfl rfl rfl
theorem frame0_set_writeQ (s : SState) (x : List WOp) : Frame0 s { s with writeQ := x } :=
  frame0_of_eq rfl rfl rfl rfl rfl
theorem frame0_set_running (s : SState) (b : Bool) : Frame0 s { s with running := b } :=
  frame0_of_eq rfl rfl rfl rfl rfl
theorem frame0_set_running_after (s : SState) (b : Bool) (x : Nat) :
    Frame0 s { s with running := b, syncAfter := x } :=
  frame0_of_eq rfl rfl rfl rfl rfl
theorem frame0_push_ao (s : SState) (x : List AoNode) :
    Frame0 s { s with prob := x, nextId := s.nextId + 1 } :=
  frame0_of_eq rfl rfl rfl rfl rfl
theorem frame0_push_wo (s : SState) (x : List WoNode) :
    Frame0 s { s with wo := x, nextId := s.nextId + 1 } :=
  frame0_of_eq rfl rfl rfl rfl rfl

theorem frame0_withInfo' (s : SState) (i : Nat) (f : Info → Info)
    (hf : ∀ x, (f x).key = x.key ∧ (f x).lm = x.lm ∧ (f x).la = x.la := by
      intro x; exact ⟨rfl, rfl, rfl⟩) :
    Frame0 s (withInfo s i f) := frame0_withInfo s i f hf

/-- Peels one layer off the target state, working backwards from the result. -/
macro "frame0_step" : tactic => `(tactic| first
  | exact Frame0.refl _
  | exact frame0_fail _ _
  | refine Frame0.trans ?_ (frame0_fail _ _)
  | refine Frame0.trans ?_ (frame0_withInfo' _ _ _)
  | refine Frame0.trans ?_ (frame0_erase _ _)
  | refine Frame0.trans ?_ (frame0_set_prob _ _)
  | refine Frame0.trans ?_ (frame0_set_wo _ _)
  | refine Frame0.trans ?_ (frame0_set_cec _ _)
  | refine Frame0.trans ?_ (frame0_set_cws _ _)
  | refine Frame0.trans ?_ (frame0_set_cec_cws _ _ _)
  | refine Frame0.trans ?_ (frame0_set_ec_ws _ _ _)
  | refine Frame0.trans ?_ (frame0_set_sk _ _)
  | refine Frame0.trans ?_ (frame0_set_sk_on _ _ _)
  | refine Frame0.trans ?_ (frame0_set_writeQ _ _)
  | refine Frame0.trans ?_ (frame0_set_running _ _)
  | refine Frame0.trans ?_ (frame0_set_running_after _ _ _)
  | refine Frame0.trans ?_ (frame0_push_ao _ _)
  | refine Frame0.trans ?_ (frame0_push_wo _ _))

/-! ### the primitives of maintenance -/

theorem moveNodeToBackAo_frame0 (s : SState) (id : Nat) : Frame0 s (moveNodeToBackAo s id) := by
  unfold moveNodeToBackAo; split <;> repeat frame0_step

theorem moveNodeToBackWo_frame0 (s : SState) (id : Nat) : Frame0 s (moveNodeToBackWo s id) := by
  unfold moveNodeToBackWo; split <;> repeat frame0_step

theorem moveToBackAoE_frame0 (s : SState) (i : Nat) : Frame0 s (moveToBackAoE s i) := by
  unfold moveToBackAoE; split
  · exact Frame0.refl s
  · exact moveNodeToBackAo_frame0 s _

theorem moveToBackWoE_frame0 (s : SState) (i : Nat) : Frame0 s (moveToBackWoE s i) := by
  unfold moveToBackWoE; split
  · exact Frame0.refl s
  · exact moveNodeToBackWo_frame0 s _

theorem unlinkAo_frame0 (s : SState) (i : Nat) : Frame0 s (unlinkAo s i) := by
  unfold unlinkAo; split
  · exact Frame0.refl s
  · dsimp only; split <;> repeat frame0_step

theorem unlinkWo_frame0 (s : SState) (i : Nat) : Frame0 s (unlinkWo s i) := by
  unfold unlinkWo; split
  · exact Frame0.refl s
  · dsimp only; split <;> repeat frame0_step

theorem subCounters_frame0 (s : SState) (n w : Nat) : Frame0 s (subCounters s n w) := by
  unfold subCounters
  dsimp only
  split <;> repeat frame0_step

theorem addCounters_frame0 (s : SState) (n w : Nat) : Frame0 s (addCounters s n w) :=
  frame0_of_eq rfl rfl rfl rfl rfl

theorem handleRemove_frame0 (s : SState) (ve : VE) : Frame0 s (handleRemove s ve) := by
  unfold handleRemove
  dsimp only
  split
  · refine Frame0.trans ?_ (unlinkWo_frame0 _ _)
    refine Frame0.trans ?_ (unlinkAo_frame0 _ _)
    refine Frame0.trans ?_ (subCounters_frame0 _ _ _)
    repeat frame0_step
  · repeat frame0_step

theorem handleAdmit_frame0 (p : Params) (s : SState) (key : Nat) (hash : UInt64) (ve : VE)
    (w : Nat) : Frame0 s (handleAdmit p s key hash ve w) := by
  unfold handleAdmit
  dsimp only
  frame0_step
  split
  · frame0_step
    frame0_step
    frame0_step
    frame0_step
    split
    · exact addCounters_frame0 _ _ _
    · frame0_step
      exact addCounters_frame0 _ _ _
  · frame0_step
    frame0_step
    split
    · exact addCounters_frame0 _ _ _
    · frame0_step
      exact addCounters_frame0 _ _ _

theorem removeVictims_frame0 (p : Params) (vs : List AoNode) :
    ∀ (s : SState) (sk : List AoNode), Frame0 s (removeVictims p vs s sk).1 := by
  induction vs with
  | nil => intro s sk; exact Frame0.refl s
  | cons v rest ih =>
    intro s sk
    unfold removeVictims
    split
    · exact (frame0_fail s _).trans (ih _ _)
    · split
      · refine Frame0.trans ?_ (ih _ _)
        refine Frame0.trans ?_ (handleRemove_frame0 _ _)
        frame0_step; exact Frame0.refl s
      · exact ih _ _

theorem moveSkipped_frame0 (ns : List AoNode) : ∀ (s : SState), Frame0 s (moveSkipped ns s) := by
  induction ns with
  | nil => intro s; exact Frame0.refl s
  | cons n rest ih => intro s; exact (moveNodeToBackAo_frame0 s n.id).trans (ih _)

theorem removeCandidate_frame0 (p : Params) (s : SState) (key : Nat) (ve : VE) :
    Frame0 s (removeCandidate p s key ve) := by
  unfold removeCandidate
  split
  · split
    · frame0_step; exact Frame0.refl s
    · exact Frame0.refl s
  · exact Frame0.refl s

theorem applyUpdate_frame0 (p : Params) (s : SState) (ve : VE) (oldW newW : Nat) :
    Frame0 s (applyUpdate p s ve oldW newW) := by
  unfold applyUpdate
  dsimp only
  refine Frame0.trans ?_ (moveToBackWoE_frame0 _ _)
  refine Frame0.trans ?_ (moveToBackAoE_frame0 _ _)
  split
  · refine Frame0.trans ?_ (addCounters_frame0 _ _ _)
    exact subCounters_frame0 _ _ _
  · frame0_step
    refine Frame0.trans ?_ (addCounters_frame0 _ _ _)
    exact subCounters_frame0 _ _ _

theorem admitOrReject_frame0 (p : Params) (s : SState) (key : Nat) (hash : UInt64) (ve : VE)
    (newW : Nat) : Frame0 s (admitOrReject p s key hash ve newW) := by
  unfold admitOrReject
  dsimp only
  split
  · refine Frame0.trans ?_ (moveSkipped_frame0 _ _)
    refine Frame0.trans ?_ (handleAdmit_frame0 _ _ _ _ _ _)
    exact removeVictims_frame0 _ _ _ _
  · refine Frame0.trans ?_ (moveSkipped_frame0 _ _)
    exact removeCandidate_frame0 _ _ _ _

theorem handleUpsert_frame0 (p : Params) (s : SState) (key : Nat) (hash : UInt64) (ve : VE)
    (oldW newW : Nat) : Frame0 s (handleUpsert p s key hash ve oldW newW) := by
  unfold handleUpsert
  dsimp only
  generalize currentWeight p s key ve newW = newW
  have h0 : Frame0 s (withInfo s ve.info (fun i => { i with dirty := false })) :=
    frame0_withInfo' _ _ _
  refine Frame0.trans h0 ?_
  generalize withInfo s ve.info (fun i => { i with dirty := false }) = s1
  by_cases h1 : (getInfo s1 ve.info).admitted = true
  · rw [if_pos h1]; exact applyUpdate_frame0 _ _ _ _ _
  · rw [if_neg h1]
    by_cases h2 : (!p.q.d7 && !isCurrentEntry s1 key ve) = true
    · rw [if_pos h2]; exact Frame0.refl _
    · rw [if_neg h2]
      by_cases h3 : hasEnoughCapacity p newW s1 = true
      · rw [if_pos h3]; exact handleAdmit_frame0 _ _ _ _ _ _
      · rw [if_neg h3]
        by_cases h4 : tooBig p newW = true
        · rw [if_pos h4]; exact removeCandidate_frame0 _ _ _ _
        · rw [if_neg h4]; exact admitOrReject_frame0 _ _ _ _ _ _

theorem applyWrite_frame0 (p : Params) (s : SState) (op : WOp) : Frame0 s (applyWrite p s op) := by
  cases op with
  | upsert key hash ve oldW newW => exact handleUpsert_frame0 _ _ _ _ _ _ _
  | remove key ve => exact handleRemove_frame0 _ _

theorem applyWrites_frame0 (p : Params) (n : Nat) : ∀ (s : SState), Frame0 s (applyWrites p n s) := by
  induction n with
  | zero => intro s; exact Frame0.refl s
  | succ n ih =>
    intro s
    unfold applyWrites
    split
    · exact Frame0.refl s
    · refine Frame0.trans ?_ (ih _)
      refine Frame0.trans ?_ (applyWrite_frame0 _ _ _)
      frame0_step; exact Frame0.refl s

theorem trySkipUpdated_frame0 (s : SState) (key : Nat) : Frame0 s (trySkipUpdated s key).1 := by
  unfold trySkipUpdated
  split
  · split
    · exact (moveToBackAoE_frame0 _ _).trans (moveToBackWoE_frame0 _ _)
    · exact Frame0.refl s
  · split
    · exact moveNodeToBackAo_frame0 _ _
    · exact Frame0.refl s

theorem removeExpiredAo_frame0 (p : Params) (n : Nat) :
    ∀ (s : SState), Frame0 s (removeExpiredAo p n s) := by
  induction n with
  | zero => intro s; exact Frame0.refl s
  | succ n ih =>
    intro s
    unfold removeExpiredAo
    split
    · exact Frame0.refl s
    · split
      · dsimp only
        split
        · refine Frame0.trans ?_ (ih _)
          refine Frame0.trans ?_ (handleRemove_frame0 _ _)
          frame0_step; exact Frame0.refl s
        · split
          · exact (trySkipUpdated_frame0 s _).trans (ih _)
          · exact trySkipUpdated_frame0 s _
      · exact Frame0.refl s

theorem removeExpiredWo_frame0 (p : Params) (n : Nat) :
    ∀ (s : SState), Frame0 s (removeExpiredWo p n s) := by
  induction n with
  | zero => intro s; exact Frame0.refl s
  | succ n ih =>
    intro s
    unfold removeExpiredWo
    split
    · exact Frame0.refl s
    · split
      · dsimp only
        split
        · refine Frame0.trans ?_ (ih _)
          refine Frame0.trans ?_ (handleRemove_frame0 _ _)
          frame0_step; exact Frame0.refl s
        · split
          · split
            · exact ((moveToBackAoE_frame0 _ _).trans (moveToBackWoE_frame0 _ _)).trans (ih _)
            · exact Frame0.refl s
          · exact (moveNodeToBackWo_frame0 _ _).trans (ih _)
      · exact Frame0.refl s

theorem evictExpired_frame0 (p : Params) (s : SState) : Frame0 s (evictExpired p s) := by
  unfold evictExpired
  dsimp only
  split
  · split
    · exact (removeExpiredWo_frame0 _ _ _).trans (removeExpiredAo_frame0 _ _ _)
    · exact removeExpiredWo_frame0 _ _ _
  · split
    · exact removeExpiredAo_frame0 _ _ _
    · exact Frame0.refl s

theorem evictLruLoop_frame0 (p : Params) (n : Nat) :
    ∀ (s : SState) (wte ev : Nat), Frame0 s (evictLruLoop p n s wte ev) := by
  induction n with
  | zero => intro s _ _; exact Frame0.refl s
  | succ n ih =>
    intro s wte ev
    unfold evictLruLoop
    split
    · exact Frame0.refl s
    · split
      · exact Frame0.refl s
      · dsimp only
        split
        · split
          · exact (trySkipUpdated_frame0 s _).trans (ih _ _ _)
          · exact trySkipUpdated_frame0 s _
        · split
          · refine Frame0.trans ?_ (ih _ _ _)
            refine Frame0.trans ?_ (handleRemove_frame0 _ _)
            frame0_step; exact Frame0.refl s
          · split
            · exact (trySkipUpdated_frame0 s _).trans (ih _ _ _)
            · exact trySkipUpdated_frame0 s _

theorem enableSketch_frame0 (p : Params) (s : SState) : Frame0 s (enableSketch p s) := by
  unfold enableSketch
  split
  · frame0_step; exact Frame0.refl s
  · exact Frame0.refl s

/-! ### the full frame: `last_accessed` may move forward to a queued hit -/

def NoQuirks (p : Params) : Prop := p.q = {}

structure Frame (s s' : SState) : Prop where
  kn : (AL.keys s.map).Nodup → (AL.keys s'.map).Nodup
  mapSub : (AL.keys s.map).Nodup → ∀ k ve, AL.get? s'.map k = some ve → AL.get? s.map k = some ve
  key : ∀ i, (getInfo s' i).key = (getInfo s i).key
  lm : ∀ i, (getInfo s' i).lm = (getInfo s i).lm
  laLe : ∀ i, (getInfo s i).la ≤ (getInfo s' i).la
  la : ∀ i, (getInfo s' i).la = (getInfo s i).la ∨
    ∃ hash ve, ROp.hit hash ve (getInfo s' i).la ∈ s.readQ ∧ ve.info = i
  readQ : ∀ op, op ∈ s'.readQ → op ∈ s.readQ
  va : s'.va = s.va
  now : s'.now = s.now
  nextId : s.nextId ≤ s'.nextId

theorem Frame0.toFrame {s s' : SState} (h : Frame0 s s') : Frame s s' :=
  ⟨h.kn, h.mapSub, h.key, h.lm, fun i => by rw [h.la i]; exact Nat.le_refl _,
   fun i => Or.inl (h.la i), fun op hop => by rw [h.readQ] at hop; exact hop, h.va, h.now,
   h.nextId⟩

theorem Frame.refl (s : SState) : Frame s s := (Frame0.refl s).toFrame

theorem Frame.trans {a b c : SState} (h1 : Frame a b) (h2 : Frame b c) : Frame a c := by
  refine ⟨fun h => h2.kn (h1.kn h), fun hn k ve h => h1.mapSub hn k ve (h2.mapSub (h1.kn hn) k ve h),
    fun i => (h2.key i).trans (h1.key i), fun i => (h2.lm i).trans (h1.lm i),
    fun i => Nat.le_trans (h1.laLe i) (h2.laLe i), ?_, fun op hop => h1.readQ op (h2.readQ op hop),
    h2.va.trans h1.va, h2.now.trans h1.now, Nat.le_trans h1.nextId h2.nextId⟩
  intro i
  rcases h2.la i with e2 | ⟨hash, ve, hin, hve⟩
  · rcases h1.la i with e1 | ⟨hash, ve, hin, hve⟩
    · exact Or.inl (e2.trans e1)
    · exact Or.inr ⟨hash, ve, by rw [e2]; exact hin, hve⟩
  · exact Or.inr ⟨hash, ve, h1.readQ _ hin, hve⟩

theorem sketchIncrement_frame0 (p : Params) (s : SState) (h : UInt64) :
    Frame0 s (sketchIncrement p s h) := by
  unfold sketchIncrement
  split
  · frame0_step; exact Frame0.refl s
  · exact frame0_fail _ _

/-- Applying the read op at the head of the queue. -/
theorem applyRead_frame {p : Params} (hq : NoQuirks p) (s : SState) (op : ROp) (rest : List ROp)
    (hs : s.readQ = op :: rest) : Frame s (applyRead p { s with readQ := rest } op) := by
  have hd6 : p.q.d6 = false := by rw [hq]
  have hpop : Frame s { s with readQ := rest } :=
    ⟨fun h => h, fun _ _ _ h => h, fun _ => rfl, fun _ => rfl, fun _ => Nat.le_refl _,
     fun _ => Or.inl rfl, fun o ho => by rw [hs]; exact List.mem_cons_of_mem _ ho, rfl, rfl,
     Nat.le_refl _⟩
  cases op with
  | miss hash => exact hpop.trans (sketchIncrement_frame0 _ _ _).toFrame
  | hit hash ve ts =>
    unfold applyRead
    simp only [hd6, Bool.false_eq_true, if_false]
    generalize hs1 : sketchIncrement p { s with readQ := rest } hash = s1
    have h1 : Frame s s1 := by
      rw [← hs1]; exact hpop.trans (sketchIncrement_frame0 _ _ _).toFrame
    have h2 : Frame s (if (getInfo s1 ve.info).la < ts
        then withInfo s1 ve.info (fun i => { i with la := ts }) else s1) := by
      split
      · rename_i hlt
        refine ⟨h1.kn, fun hn k v h => h1.mapSub hn k v h, ?_, ?_, ?_, ?_, h1.readQ, h1.va, h1.now,
          h1.nextId⟩
        · intro i; rw [getInfo_withInfo]; by_cases e : ve.info = i <;> simp [e, h1.key]
        · intro i; rw [getInfo_withInfo]; by_cases e : ve.info = i <;> simp [e, h1.lm]
        · intro i; rw [getInfo_withInfo]
          by_cases e : ve.info = i
          · subst e; simp; exact Nat.le_trans (h1.laLe _) (Nat.le_of_lt hlt)
          · simp [e]; exact h1.laLe i
        · intro i; rw [getInfo_withInfo]
          by_cases e : ve.info = i
          · subst e; simp
            exact Or.inr ⟨hash, ve, by rw [hs]; exact List.mem_cons_self, rfl⟩
          · simp [e]; exact h1.la i
      · exact h1
    generalize (if (getInfo s1 ve.info).la < ts
        then withInfo s1 ve.info (fun i => { i with la := ts }) else s1) = s2 at h2 ⊢
    split
    · exact h2.trans (moveToBackAoE_frame0 _ _).toFrame
    · exact h2

theorem applyReads_frame {p : Params} (hq : NoQuirks p) (n : Nat) :
    ∀ (s : SState), Frame s (applyReads p n s) := by
  induction n with
  | zero => intro s; exact Frame.refl s
  | succ n ih =>
    intro s
    unfold applyReads
    split
    · exact Frame.refl s
    · rename_i op rest hs
      exact (applyRead_frame hq s op rest hs).trans (ih _)

theorem syncLoop_frame {p : Params} (hq : NoQuirks p) (n : Nat) :
    ∀ (s : SState), Frame s (syncLoop p n s) := by
  induction n with
  | zero => intro s; exact Frame.refl s
  | succ n ih =>
    intro s
    unfold syncLoop
    dsimp only
    have h1 : Frame s (if s.readQ.length > 0 then applyReads p s.readQ.length s else s) := by
      split
      · exact applyReads_frame hq _ _
      · exact Frame.refl s
    generalize (if s.readQ.length > 0 then applyReads p s.readQ.length s else s) = s1 at h1 ⊢
    have h2 : Frame s1 (if s1.writeQ.length > 0 then applyWrites p s1.writeQ.length s1 else s1) := by
      split
      · exact (applyWrites_frame0 _ _ _).toFrame
      · exact Frame.refl _
    generalize (if s1.writeQ.length > 0 then applyWrites p s1.writeQ.length s1 else s1) = s2 at h2 ⊢
    have h3 : Frame s2 (if shouldEnableSketch p s2 = true then enableSketch p s2 else s2) := by
      split
      · exact (enableSketch_frame0 _ _).toFrame
      · exact Frame.refl _
    generalize (if shouldEnableSketch p s2 = true then enableSketch p s2 else s2) = s3 at h3 ⊢
    split
    · exact ((h1.trans h2).trans h3).trans (ih _)
    · exact (h1.trans h2).trans h3

theorem syncRun_frame {p : Params} (hq : NoQuirks p) (s : SState) : Frame s (syncRun p s) := by
  unfold syncRun
  dsimp only
  have h0 : Frame s { s with cec := s.ec, cws := s.ws } := (frame0_set_cec_cws _ _ _).toFrame
  have h1 := syncLoop_frame hq (Gen.MAX_SYNC_REPEATS + 1) { s with cec := s.ec, cws := s.ws }
  generalize syncLoop p (Gen.MAX_SYNC_REPEATS + 1) { s with cec := s.ec, cws := s.ws } = s1 at h1 ⊢
  have h2 : Frame s1 (if (p.hasExpiry || s1.va.isSome) = true then evictExpired p s1 else s1) := by
    split
    · exact (evictExpired_frame0 _ _).toFrame
    · exact Frame.refl _
  generalize (if (p.hasExpiry || s1.va.isSome) = true then evictExpired p s1 else s1) = s2 at h2 ⊢
  have h3 : Frame s2 (if weightsToEvict p s2 > 0
      then evictLruLoop p Gen.SYNC_EVICTION_BATCH_SIZE s2 (weightsToEvict p s2) 0 else s2) := by
    split
    · exact (evictLruLoop_frame0 _ _ _ _ _).toFrame
    · exact Frame.refl _
  generalize (if weightsToEvict p s2 > 0
      then evictLruLoop p Gen.SYNC_EVICTION_BATCH_SIZE s2 (weightsToEvict p s2) 0 else s2) = s3 at h3 ⊢
  exact (((h0.trans h1).trans h2).trans h3).trans (frame0_set_ec_ws _ _ _).toFrame

theorem trySync_frame {p : Params} (hq : NoQuirks p) (s : SState) : Frame s (trySync p s) := by
  unfold trySync
  split
  · exact Frame.refl s
  · dsimp only
    refine Frame.trans ?_ (frame0_set_running _ _).toFrame
    refine Frame.trans ?_ (syncRun_frame hq _)
    exact (frame0_set_running_after _ _ _).toFrame

theorem scheduleWriteOp_frame {p : Params} (hq : NoQuirks p) (n : Nat) :
    ∀ (s : SState) (op : WOp), Frame s (scheduleWriteOp p n s op) := by
  induction n with
  | zero => intro s op; exact (frame0_fail _ _).toFrame
  | succ n ih =>
    intro s op
    unfold scheduleWriteOp
    dsimp only
    have h1 : Frame s (if shouldApply s s.writeQ.length Gen.WRITE_LOG_FLUSH_POINT = true
        then trySync p s else s) := by
      split
      · exact trySync_frame hq s
      · exact Frame.refl s
    generalize (if shouldApply s s.writeQ.length Gen.WRITE_LOG_FLUSH_POINT = true
        then trySync p s else s) = s1 at h1 ⊢
    split
    · exact h1.trans (frame0_set_writeQ _ _).toFrame
    · exact h1.trans (ih _ _)

end Sync
end MiniMoka
