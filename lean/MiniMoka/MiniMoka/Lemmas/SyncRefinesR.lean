/-
  Link between the detailed sequential model S of `sync::Cache` (`MiniMoka/Sync.lean`) and the
  abstract model R of per-key atomic map steps (`MiniMoka/ConcR.lean`): every operation of S
  is an execution fragment of R with exactly one map step (on its key), everything else it
  does to the map being deletions (`daemon` events).  Theorems: `Props/C02Refines.lean`.

  The abstraction is `absMap s` = key ↦ value of the map entry.  R's `store`/`remove` are
  filter-based and S's `put`/`erase` positional, so maps are compared by their lookups
  (`KVEq`); `ConcR.step` inspects the map only through `lookup`.
-/
import MiniMoka.ConcR
import MiniMoka.Lemmas.ConcR
import MiniMoka.Lemmas.SyncFrame
import MiniMoka.Lemmas.SyncKeys

namespace MiniMoka
namespace SyncR

open ConcR (KV Key Val Tid Oid Ev State lookup remove store runFrom threadIdle)
open Sync (SState VE KN NoQuirks Frame)

/-! ## The abstraction and lookup-equality of maps -/

def absKV (m : List (Nat × VE)) : KV := m.map (fun kv => (kv.1, kv.2.val))

/-- The map of R that a state of S stands for: key ↦ value of the map entry. -/
def absMap (s : SState) : KV := absKV s.map

/-- Same lookups. -/
def KVEq (m m' : KV) : Prop := ∀ k, lookup m k = lookup m' k

/-- Every binding of `m'` is a binding of `m` (`m'` is `m` with some keys deleted). -/
def KVSub (m m' : KV) : Prop := ∀ k v, lookup m' k = some v → lookup m k = some v

theorem KVEq.refl (m : KV) : KVEq m m := fun _ => rfl
theorem KVEq.symm {m m' : KV} (h : KVEq m m') : KVEq m' m := fun k => (h k).symm
theorem KVEq.trans {a b c : KV} (h1 : KVEq a b) (h2 : KVEq b c) : KVEq a c :=
  fun k => (h1 k).trans (h2 k)

theorem KVEq.store {m m' : KV} (h : KVEq m m') (k : Key) (v : Val) :
    KVEq (store m k v) (store m' k v) := by
  intro k'; rw [ConcR.lookup_store, ConcR.lookup_store, h k']

theorem KVEq.remove {m m' : KV} (h : KVEq m m') (k : Key) : KVEq (remove m k) (remove m' k) := by
  intro k'; rw [ConcR.lookup_remove, ConcR.lookup_remove, h k']

theorem lookup_absKV (m : List (Nat × VE)) (k : Nat) :
    lookup (absKV m) k = (AL.get? m k).map (·.val) := by
  induction m with
  | nil => rfl
  | cons a m ih =>
    obtain ⟨k', ve⟩ := a
    show AL.get? ((k', ve.val) :: absKV m) k = _
    rw [AL.get?_cons, AL.get?_cons]
    by_cases h : k' = k
    · simp [h]
    · simp only [h, if_false]; exact ih

theorem lookup_absMap (s : SState) (k : Nat) :
    lookup (absMap s) k = (AL.get? s.map k).map (·.val) := lookup_absKV s.map k

theorem absKV_put (m : List (Nat × VE)) (k : Nat) (ve : VE) :
    KVEq (store (absKV m) k ve.val) (absKV (AL.put m k ve)) := by
  intro k'
  rw [ConcR.lookup_store, lookup_absKV, lookup_absKV, AL.get?_put]
  by_cases h : k = k' <;> simp [h]

theorem absKV_erase {m : List (Nat × VE)} (hn : (AL.keys m).Nodup) (k : Nat) :
    KVEq (remove (absKV m) k) (absKV (AL.erase m k)) := by
  intro k'
  rw [ConcR.lookup_remove, lookup_absKV, lookup_absKV, AL.get?_erase k k' hn]
  by_cases h : k = k' <;> simp [h]

/-! ## Deleting a list of keys; the keys that disappeared -/

def removeAll (m : KV) (ds : List Key) : KV := ds.foldl remove m

theorem lookup_removeAll (ds : List Key) : ∀ (m : KV) (k : Key),
    lookup (removeAll m ds) k = if k ∈ ds then none else lookup m k := by
  induction ds with
  | nil => intro m k; simp [removeAll]
  | cons d ds ih =>
    intro m k
    show lookup (removeAll (remove m d) ds) k = _
    rw [ih, ConcR.lookup_remove]
    by_cases h1 : k ∈ ds
    · simp [h1]
    · by_cases h2 : d = k
      · simp [h2]
      · have h3 : ¬ k = d := fun e => h2 e.symm
        simp [h1, h2, h3]

/-- The keys bound in `m` and not in `m'`, in the order of `m`. -/
def delKeys (m m' : KV) : List Key := (AL.keys m).filter (fun k => (lookup m' k).isNone)

theorem mem_delKeys {m m' : KV} {k : Key} :
    k ∈ delKeys m m' ↔ k ∈ AL.keys m ∧ lookup m' k = none := by
  simp [delKeys, List.mem_filter]

/-- Deleting from (a map with the lookups of) `m` the keys that `m'` lacks gives `m'`. -/
theorem removeAll_delKeys {am m m' : KV} (he : KVEq am m) (hs : KVSub m m') :
    KVEq (removeAll am (delKeys m m')) m' := by
  intro k
  rw [lookup_removeAll]
  cases h : lookup m' k with
  | some v =>
    have hn : ¬ k ∈ delKeys m m' := by rw [mem_delKeys, h]; simp
    rw [if_neg hn, he k]; exact hs k v h
  | none =>
    by_cases hk : k ∈ AL.keys m
    · rw [if_pos (mem_delKeys.2 ⟨hk, h⟩)]
    · have hn : ¬ k ∈ delKeys m m' := by rw [mem_delKeys]; exact fun x => hk x.1
      rw [if_neg hn, he k]
      exact (AL.get?_eq_none_iff m k).2 hk

theorem delKeys_self (m : KV) : delKeys m m = [] := by
  rw [List.eq_nil_iff_forall_not_mem]
  intro k hk
  rw [mem_delKeys] at hk
  exact ((AL.get?_eq_none_iff m k).1 hk.2) hk.1

theorem KVSub.refl (m : KV) : KVSub m m := fun _ _ h => h

theorem KVSub.congr {m1 m2 m1' m2' : KV} (h : KVSub m1 m1') (e : KVEq m1 m2) (e' : KVEq m1' m2') :
    KVSub m2 m2' := by
  intro k v hk; rw [← e k]; rw [← e' k] at hk; exact h k v hk

/-! ## R: running daemons and one complete call -/

/-- The semantics of R from a given state: `ConcR.runFrom`, the fold of `ConcR.step`. -/
abbrev runR : State → List Ev → Option State := runFrom

theorem runFrom_daemons (ds : List Key) : ∀ (a : State),
    runFrom a (ds.map Ev.daemon) = some { a with map := removeAll a.map ds } := by
  induction ds with
  | nil => intro a; rfl
  | cons d ds ih =>
    intro a
    show runFrom { a with map := remove a.map d } (ds.map Ev.daemon) = _
    rw [ih]; rfl

/-- The map after the map step of an operation of R. -/
def mapAfter (m : KV) : ConcR.Op → KV
  | .ins k v => store m k v
  | .del k => remove m k
  | .get _ => m

/-- The value fixed at the map step of an operation of R. -/
def retOf (m : KV) : ConcR.Op → Option Val
  | .get k => lookup m k
  | _ => none

/-- One complete call: invocation, the map step, deletions by maintenance, response. -/
def callFrag (t : Tid) (o : Oid) (op : ConcR.Op) (ds : List Key) (r : Option Val) : List Ev :=
  [Ev.invoke t o op, Ev.mapStep o] ++ ds.map Ev.daemon ++ [Ev.respond o r]

theorem KVEq.mapAfter {m m' : KV} (h : KVEq m m') (op : ConcR.Op) :
    KVEq (mapAfter m op) (mapAfter m' op) := by
  cases op with
  | ins k v => exact h.store k v
  | del k => exact h.remove k
  | get k => exact h

theorem runFrom_callFrag (a : State) (t : Tid) (o : Oid) (op : ConcR.Op) (ds : List Key)
    (r : Option Val) (hfresh : AL.get? a.ops o = none) (hidle : threadIdle a t = true)
    (hr : r = retOf a.map op ∨ r = none) :
    runFrom a (callFrag t o op ds r) =
      some { map := removeAll (mapAfter a.map op) ds,
             ops := AL.put a.ops o ⟨t, op, .done, retOf a.map op⟩ } := by
  unfold callFrag
  rw [List.append_assoc, ConcR.runFrom_append]
  have h1 : runFrom a [Ev.invoke t o op, Ev.mapStep o] =
      some { map := mapAfter a.map op,
             ops := AL.put a.ops o ⟨t, op, .stepped, retOf a.map op⟩ } := by
    have hi : ConcR.step a (.invoke t o op) =
        some { a with ops := AL.put a.ops o ⟨t, op, .invoked, none⟩ } := by
      simp [ConcR.step, hfresh, hidle]
    simp only [runFrom, hi]
    cases op <;>
      simp [ConcR.step, AL.get?_put_self, AL.put_put, mapAfter, retOf]
  rw [h1, Option.bind_some, ConcR.runFrom_append, runFrom_daemons, Option.bind_some]
  simp only [runFrom, ConcR.step, AL.get?_put_self]
  have hr' : r = retOf a.map op ∨ r = none := hr
  simp [hr', AL.put_put]

/-! ## R respects lookup-equality -/

/-- States of R with the same lookups and the same records. -/
def StEq (a b : State) : Prop := KVEq a.map b.map ∧ a.ops = b.ops

/-- `ConcR.step` respects `KVEq`: it looks at the map through `lookup` only. -/
theorem step_congr {a b : State} (h : StEq a b) (e : Ev) :
    (ConcR.step a e = none ∧ ConcR.step b e = none) ∨
    ∃ a' b', ConcR.step a e = some a' ∧ ConcR.step b e = some b' ∧ StEq a' b' := by
  obtain ⟨am, ops⟩ := a
  obtain ⟨bm, ops'⟩ := b
  obtain ⟨hm, ho⟩ := h
  simp only at hm ho
  subst ho
  cases e with
  | invoke t o op =>
    simp only [ConcR.step]
    by_cases hc : (AL.get? ops o).isNone = true ∧
        threadIdle { map := am, ops := ops } t = true
    · have hc' : (AL.get? ops o).isNone = true ∧
          threadIdle { map := bm, ops := ops } t = true := hc
      rw [if_pos hc, if_pos hc']; exact Or.inr ⟨_, _, rfl, rfl, hm, rfl⟩
    · have hc' : ¬ ((AL.get? ops o).isNone = true ∧
          threadIdle { map := bm, ops := ops } t = true) := hc
      rw [if_neg hc, if_neg hc']; exact Or.inl ⟨rfl, rfl⟩
  | mapStep o =>
    simp only [ConcR.step]
    cases hg : AL.get? ops o with
    | none => exact Or.inl ⟨rfl, rfl⟩
    | some r =>
      simp only
      by_cases hp : r.phase = .invoked
      · rw [if_pos hp, if_pos hp]
        cases hop : r.op with
        | ins k v => exact Or.inr ⟨_, _, rfl, rfl, hm.store k v, rfl⟩
        | del k => exact Or.inr ⟨_, _, rfl, rfl, hm.remove k, rfl⟩
        | get k => exact Or.inr ⟨_, _, rfl, rfl, hm, by simp only [hm k]⟩
      · rw [if_neg hp, if_neg hp]; exact Or.inl ⟨rfl, rfl⟩
  | respond o x =>
    simp only [ConcR.step]
    cases hg : AL.get? ops o with
    | none => exact Or.inl ⟨rfl, rfl⟩
    | some r =>
      simp only
      by_cases hc : r.phase = .stepped ∧ (x = r.ret ∨ x = none)
      · rw [if_pos hc, if_pos hc]; exact Or.inr ⟨_, _, rfl, rfl, hm, rfl⟩
      · rw [if_neg hc, if_neg hc]; exact Or.inl ⟨rfl, rfl⟩
  | daemon k => exact Or.inr ⟨_, _, rfl, rfl, hm.remove k, rfl⟩

theorem runFrom_congr (evs : List Ev) : ∀ {a b : State}, StEq a b →
    (runFrom a evs = none ∧ runFrom b evs = none) ∨
    ∃ a' b', runFrom a evs = some a' ∧ runFrom b evs = some b' ∧ StEq a' b' := by
  induction evs with
  | nil => intro a b h; exact Or.inr ⟨a, b, rfl, rfl, h⟩
  | cons e es ih =>
    intro a b h
    rcases step_congr h e with ⟨h1, h2⟩ | ⟨a', b', h1, h2, h3⟩
    · left; simp only [runFrom, h1, h2, and_self]
    · simp only [runFrom, h1, h2]; exact ih h3
/-! ## S: apart from its one map step, an operation only shrinks the map -/

open Sync in
theorem sub_of_frame {s1 s' : SState} (hf : Frame s1 s') (hk : KN s1) :
    KVSub (absMap s1) (absMap s') := by
  intro k v h
  rw [lookup_absMap] at h ⊢
  cases hg : AL.get? s'.map k with
  | none => rw [hg] at h; cases h
  | some ve => rw [hg] at h; rw [hf.mapSub hk k ve hg]; exact h

theorem KVSub.of_eq_left {m1 m2 m' : KV} (h : KVSub m1 m') (e : KVEq m1 m2) : KVSub m2 m' :=
  h.congr e (KVEq.refl _)

open Sync in
theorem recordReadOp_sub {p : Params} (hq : NoQuirks p) {s : SState} (hk : KN s) (op : ROp) :
    KVSub (absMap s) (absMap (recordReadOp p s op)) := by
  unfold recordReadOp
  dsimp only
  have h1 : KVSub (absMap s) (absMap (if shouldApply s s.readQ.length Gen.READ_LOG_FLUSH_POINT = true
      then trySync p s else s)) := by
    split
    · exact sub_of_frame (trySync_frame hq s) hk
    · exact KVSub.refl _
  generalize (if shouldApply s s.readQ.length Gen.READ_LOG_FLUSH_POINT = true
      then trySync p s else s) = s1 at h1 ⊢
  split
  · exact h1
  · exact h1

open Sync in
/-- `schedule_write_op` after the map step `put k ve`. -/
theorem sub_after_put {p : Params} (hq : NoQuirks p) {s : SState} (hk : KN s) (k : Nat) (ve : VE)
    (s1 : SState) (hm : s1.map = AL.put s.map k ve) (op : WOp) :
    KVSub (store (absMap s) k ve.val) (absMap (scheduleWriteOp p 3 s1 op)) := by
  have hk1 : KN s1 := by unfold KN; rw [hm]; exact AL.nodup_put k ve hk
  refine (sub_of_frame (scheduleWriteOp_frame hq 3 s1 op) hk1).of_eq_left ?_
  unfold absMap; rw [hm]; exact (absKV_put s.map k ve).symm

open Sync in
/-- `schedule_write_op` after the map step `erase k`. -/
theorem sub_after_erase {p : Params} (hq : NoQuirks p) {s : SState} (hk : KN s) (k : Nat)
    (s1 : SState) (hm : s1.map = AL.erase s.map k) (op : WOp) :
    KVSub (remove (absMap s) k) (absMap (scheduleWriteOp p 3 s1 op)) := by
  have hk1 : KN s1 := by unfold KN; rw [hm]; exact AL.nodup_erase k hk
  refine (sub_of_frame (scheduleWriteOp_frame hq 3 s1 op) hk1).of_eq_left ?_
  unfold absMap; rw [hm]; exact (absKV_erase hk k).symm

open Sync in
/-- `insert k v`: the map step `store k v`, then deletions only. -/
theorem insert_sub {p : Params} (hq : NoQuirks p) {s : SState} (hk : KN s) (k v : Nat) :
    KVSub (store (absMap s) k v) (absMap (insert p s k v)) := by
  unfold Sync.insert
  dsimp only
  split
  · rename_i old _
    exact sub_after_put hq hk k ⟨s.nextId, v, old.info, old.slot⟩ _ rfl _
  · exact sub_after_put hq hk k ⟨s.nextId + 1, v, s.nextId, s.nextId + 1⟩ _ rfl _

open Sync in
/-- `invalidate k`: the map step `remove k`, then deletions only. -/
theorem invalidate_sub {p : Params} (hq : NoQuirks p) {s : SState} (hk : KN s) (k : Nat) :
    KVSub (remove (absMap s) k) (absMap (invalidate p s k)) := by
  unfold invalidate
  split
  · rename_i hnone
    intro k' v h
    rw [ConcR.lookup_remove]
    by_cases e : k = k'
    · subst e; rw [lookup_absMap, hnone] at h; cases h
    · rw [if_neg e]; exact h
  · exact sub_after_erase hq hk k _ rfl _

open Sync in
/-- `get k`: deletions only (the map step reads). -/
theorem get_sub {p : Params} (hq : NoQuirks p) {s : SState} (hk : KN s) (k : Nat) :
    KVSub (absMap s) (absMap (get p s k).1) := by
  unfold Sync.get
  dsimp only
  split
  · exact recordReadOp_sub hq hk _
  · split
    · exact recordReadOp_sub hq hk _
    · exact recordReadOp_sub hq hk _

open Sync in
/-- `get k` returns what its map step read, or `none` (filtered lookup). -/
theorem get_ret (p : Params) (s : SState) (k : Nat) :
    (get p s k).2 = lookup (absMap s) k ∨ (get p s k).2 = none := by
  unfold Sync.get
  dsimp only
  split
  · exact Or.inr rfl
  · rename_i ve hve
    split
    · exact Or.inr rfl
    · left; rw [lookup_absMap, hve]; rfl

open Sync in
theorem sync_sub {p : Params} (hq : NoQuirks p) {s : SState} (hk : KN s) :
    KVSub (absMap s) (absMap (syncRun p s)) :=
  sub_of_frame (syncRun_frame hq s) hk

/-! ## `Sync.step` on a state without fault -/

open Sync in
/-- The `match` of `Sync.step`. -/
def stepRaw (p : Params) (s : SState) (op : Op) : SState × Obs :=
  match op with
  | .ins k v => (insert p s k v, .ok)
  | .get k => let (s', v) := get p s k; (s', .val v)
  | .has k => (s, .bool (containsKey p s k))
  | .iter => (s, .iter (sortBy (·.1) (iter p s)))
  | .inv k => (invalidate p s k, .ok)
  | .invAll => (invalidateAll s, .ok)
  | .invIf _ => (s, .badOp)
  | .sync => (syncRun p s, .ok)
  | .adv d => ({ s with now := s.now + d }, .ok)
  | .snap => (s, .snap (snapshot p s))
  | .freq k => (s, .freq (s.sk.frequency (p.hash k)))

open Sync in
theorem step_eq (p : Params) {s : SState} (hf : s.fault = none) (op : Op) :
    step p s op = match (stepRaw p s op).1.fault with
      | some f => ((stepRaw p s op).1, Obs.panic f)
      | none => stepRaw p s op := by
  have h0 : ¬ (s.fault.isSome = true) := by rw [hf]; simp
  unfold step
  rw [if_neg h0]
  rfl

open Sync in
theorem step_nofault (p : Params) {s : SState} (hf : s.fault = none) (op : Op) :
    (step p s op).1 = (stepRaw p s op).1 ∧
    ((step p s op).2 = (stepRaw p s op).2 ∨ ∃ f, (step p s op).2 = .panic f) := by
  rw [step_eq p hf op]
  split
  · exact ⟨rfl, Or.inr ⟨_, rfl⟩⟩
  · exact ⟨rfl, Or.inl rfl⟩

/-! ## The fragment of R that an operation of S stands for -/

/-- The data operations of S are the operations of R; everything else is not (see the
remarks at the top of `ConcR.lean`). -/
def ropOf : Op → Option ConcR.Op
  | .ins k v => some (.ins k v)
  | .inv k => some (.del k)
  | .get k => some (.get k)
  | _ => none

/-- The value a call returns, as R sees it: that of a `get`; `none` for everything else. -/
def respOf : Obs → Option Val
  | .val v => v
  | _ => none

/-- The events of R for the operation `op` of S performed in state `s` by thread `t` as
instance `o`.  A data operation: invocation, its map step, one `daemon` per key that the
maintenance inside the call deleted (in the model, as in the code, maintenance runs after the
map step: inside `schedule_write_op` / `record_read_op`), the response.  Any other operation:
one `daemon` per deleted key (non-empty only for `sync`). -/
def fragOf (p : Params) (s : SState) (t : Tid) (o : Oid) (op : Op) : List Ev :=
  let s' := (Sync.step p s op).1
  match ropOf op with
  | some rop =>
    callFrag t o rop (delKeys (mapAfter (absMap s) rop) (absMap s')) (respOf (Sync.step p s op).2)
  | none => (delKeys (absMap s) (absMap s')).map Ev.daemon

/-- The execution of R for a history of S run by thread `t`; instance ids are positions. -/
def evsOf (p : Params) (t : Tid) : SState → Oid → List Op → List Ev
  | _, _, [] => []
  | s, n, op :: rest => fragOf p s t n op ++ evsOf p t (Sync.step p s op).1 (n + 1) rest

/-- The map right after the map step of `op` (if it has one). -/
def preMap (m : KV) (op : Op) : KV :=
  match ropOf op with
  | some rop => mapAfter m rop
  | none => m

theorem step_sub {p : Params} (hq : NoQuirks p) {s : SState} (hk : KN s) (hf : s.fault = none)
    (op : Op) : KVSub (preMap (absMap s) op) (absMap (Sync.step p s op).1) := by
  rw [(step_nofault p hf op).1]
  cases op with
  | ins k v => exact insert_sub hq hk k v
  | get k => exact get_sub hq hk k
  | inv k => exact invalidate_sub hq hk k
  | sync => exact sync_sub hq hk
  | _ => exact KVSub.refl _

theorem step_resp (p : Params) {s : SState} (hf : s.fault = none) (op : Op) :
    respOf (Sync.step p s op).2 =
        (match ropOf op with
         | some rop => retOf (absMap s) rop
         | none => none) ∨
      respOf (Sync.step p s op).2 = none := by
  rcases (step_nofault p hf op).2 with h | ⟨f, h⟩
  · rw [h]
    cases op with
    | get k =>
      show (Sync.get p s k).2 = lookup (absMap s) k ∨ (Sync.get p s k).2 = none
      exact get_ret p s k
    | _ => exact Or.inr rfl
  · rw [h]; exact Or.inr rfl

theorem retOf_congr {m m' : KV} (h : KVEq m m') (op : ConcR.Op) : retOf m op = retOf m' op := by
  cases op with
  | get k => exact h k
  | _ => rfl

/-- **One operation of S is a fragment of R.** -/
theorem fragOf_refines {p : Params} (hq : NoQuirks p) {s : SState} (hk : KN s)
    (hf : s.fault = none) (a : State) (hm : KVEq a.map (absMap s)) (t : Tid) (o : Oid)
    (hfresh : AL.get? a.ops o = none) (hidle : threadIdle a t = true) (op : Op) :
    ∃ a', runFrom a (fragOf p s t o op) = some a' ∧
      KVEq a'.map (absMap (Sync.step p s op).1) ∧
      a'.ops = (match ropOf op with
        | some rop => AL.put a.ops o ⟨t, rop, .done, retOf a.map rop⟩
        | none => a.ops) := by
  have hsub := step_sub hq hk hf op
  have hresp := step_resp p hf op
  unfold preMap at hsub
  unfold fragOf
  cases hro : ropOf op with
  | some rop =>
    simp only [hro] at hsub hresp ⊢
    rw [← retOf_congr hm rop] at hresp
    exact ⟨_, runFrom_callFrag a t o rop _ _ hfresh hidle hresp,
      removeAll_delKeys (hm.mapAfter rop) hsub, rfl⟩
  | none =>
    simp only [hro] at hsub ⊢
    exact ⟨_, runFrom_daemons _ a, removeAll_delKeys hm hsub, rfl⟩

/-- Every daemon of a fragment deletes a key that the operation's final map lacks. -/
theorem fragOf_daemons {p : Params} {s : SState} {t : Tid} {o : Oid} {op : Op} {k : Key}
    (h : Ev.daemon k ∈ fragOf p s t o op) : lookup (absMap (Sync.step p s op).1) k = none := by
  unfold fragOf at h
  cases hro : ropOf op with
  | some rop =>
    simp only [hro, callFrag] at h
    simp only [List.mem_append, List.mem_cons, List.mem_map, List.not_mem_nil, or_false,
      reduceCtorEq, false_or] at h
    obtain ⟨d, hd, e⟩ := h
    cases e
    exact (mem_delKeys.1 hd).2
  | none =>
    simp only [hro, List.mem_map] at h
    obtain ⟨d, hd, e⟩ := h
    cases e
    exact (mem_delKeys.1 hd).2

/-! ## Histories -/

/-- All recorded instances have ids below `n` and are complete. -/
def OpsDone (a : State) (n : Nat) : Prop := ∀ x ∈ a.ops, x.1 < n ∧ x.2.phase = .done

theorem opsDone_init : OpsDone State.init 0 := by intro x hx; cases hx

theorem opsDone_fresh {a : State} {n o : Nat} (h : OpsDone a n) (hn : n ≤ o) :
    AL.get? a.ops o = none := by
  rw [AL.get?_eq_none_iff, AL.keys_eq_map]
  intro hmem
  obtain ⟨x, hx, e⟩ := List.mem_map.1 hmem
  have := (h x hx).1
  omega

theorem opsDone_idle {a : State} {n : Nat} (h : OpsDone a n) (t : Tid) :
    threadIdle a t = true := by
  unfold threadIdle
  rw [List.all_eq_true]
  intro x hx
  simp [(h x hx).2]

theorem mem_put {β : Type} {m : List (Nat × β)} {k : Nat} {b : β} {x : Nat × β}
    (h : x ∈ AL.put m k b) : x ∈ m ∨ x = (k, b) := by
  induction m with
  | nil => simp [AL.put] at h; exact Or.inr h
  | cons y m ih =>
    obtain ⟨k', v⟩ := y
    rw [AL.put_cons] at h
    by_cases hk : k' = k
    · rw [if_pos hk] at h
      rcases List.mem_cons.1 h with h | h
      · exact Or.inr (by rw [h, hk])
      · exact Or.inl (List.mem_cons_of_mem _ h)
    · rw [if_neg hk] at h
      rcases List.mem_cons.1 h with h | h
      · exact Or.inl (by rw [h]; exact List.mem_cons_self)
      · rcases ih h with h | h
        · exact Or.inl (List.mem_cons_of_mem _ h)
        · exact Or.inr h

theorem step_fault_none (p : Params) {s : SState} (hf : s.fault = none) (op : Op)
    (hnp : ∀ f, (Sync.step p s op).2 ≠ Obs.panic f) : (Sync.step p s op).1.fault = none := by
  rw [step_eq p hf op] at hnp ⊢
  cases hc : (stepRaw p s op).1.fault with
  | none => simp only [hc]
  | some f => simp only [hc] at hnp; exact absurd rfl (hnp f)

theorem noPanic_cons {p : Params} {s : SState} {op : Op} {rest : List Op}
    (h : Spec.noPanic (Sync.run p s (op :: rest)) = true) :
    (∀ f, (Sync.step p s op).2 ≠ Obs.panic f) ∧
      Spec.noPanic (Sync.run p (Sync.step p s op).1 rest) = true := by
  have hrun : Sync.run p s (op :: rest) =
      (op, (Sync.step p s op).2) :: Sync.run p (Sync.step p s op).1 rest := rfl
  rw [hrun] at h
  unfold Spec.noPanic at h ⊢
  rw [List.all_cons, Bool.and_eq_true] at h
  refine ⟨?_, h.2⟩
  intro f hf
  have h1 := h.1
  rw [hf] at h1
  cases h1

/-- **A history of S is an execution of R** (from any matching pair of states). -/
theorem evsOf_refines {p : Params} (hq : NoQuirks p) (t : Tid) (h : List Op) :
    ∀ (s : SState) (a : State) (n : Nat), KN s → s.fault = none →
      Spec.noPanic (Sync.run p s h) = true → KVEq a.map (absMap s) → OpsDone a n →
      ∃ a', runFrom a (evsOf p t s n h) = some a' ∧
        KVEq a'.map (absMap (Sync.runState p s h)) ∧ OpsDone a' (n + h.length) := by
  induction h with
  | nil => intro s a n _ _ _ hm hd; exact ⟨a, rfl, hm, hd⟩
  | cons op rest ih =>
    intro s a n hk hf hnp hm hd
    obtain ⟨hnp1, hnp2⟩ := noPanic_cons hnp
    obtain ⟨a1, hr1, hm1, hops1⟩ := fragOf_refines hq hk hf a hm t n
      (opsDone_fresh hd (Nat.le_refl n)) (opsDone_idle hd t) op
    have hd1 : OpsDone a1 (n + 1) := by
      intro x hx
      rw [hops1] at hx
      cases hro : ropOf op with
      | some rop =>
        simp only [hro] at hx
        rcases mem_put hx with hx | hx
        · exact ⟨Nat.lt_succ_of_lt (hd x hx).1, (hd x hx).2⟩
        · rw [hx]; exact ⟨Nat.lt_succ_self n, rfl⟩
      | none =>
        simp only [hro] at hx
        exact ⟨Nat.lt_succ_of_lt (hd x hx).1, (hd x hx).2⟩
    obtain ⟨a2, hr2, hm2, hd2⟩ := ih (Sync.step p s op).1 a1 (n + 1) (Sync.kn_step hq hk op)
      (step_fault_none p hf op hnp1) hnp2 hm1 hd1
    refine ⟨a2, ?_, hm2, ?_⟩
    · show runFrom a (fragOf p s t n op ++ evsOf p t (Sync.step p s op).1 (n + 1) rest) = _
      rw [ConcR.runFrom_append, hr1]; exact hr2
    · rw [List.length_cons, ← Nat.add_assoc, Nat.add_right_comm]
      exact hd2

/-! ## The calls of an execution: who was invoked as what and what was the response -/

/-- The responses of an execution, in order. -/
def resps : List Ev → List (Oid × Option Val)
  | [] => []
  | .respond o r :: es => (o, r) :: resps es
  | _ :: es => resps es

/-- Instance, thread, operation (`ConcR.opOf`: its invocation in the trace) and returned
value of every response of `evs`, in response order. -/
def callsOf (evs : List Ev) : List (Oid × Tid × ConcR.Op × Option Val) :=
  (resps evs).filterMap fun x => (ConcR.opOf evs x.1).map fun y => (x.1, y.1, y.2, x.2)

/-- The same, read off a trace of S run by thread `t` (ids are positions, from `n`): the data
operations with their observations: the value observed by a `get`, `none` for `insert` /
`invalidate`. -/
def callsOfTrace (t : Tid) : Nat → List (Op × Obs) → List (Oid × Tid × ConcR.Op × Option Val)
  | _, [] => []
  | n, (op, ob) :: rest =>
    match ropOf op with
    | some rop => (n, t, rop, respOf ob) :: callsOfTrace t (n + 1) rest
    | none => callsOfTrace t (n + 1) rest

theorem callsOfTrace_cons (t : Tid) (n : Nat) (op : Op) (ob : Obs) (rest : List (Op × Obs)) :
    callsOfTrace t n ((op, ob) :: rest) =
      (match ropOf op with
       | some rop => (n, t, rop, respOf ob) :: callsOfTrace t (n + 1) rest
       | none => callsOfTrace t (n + 1) rest) := rfl

theorem resps_append (l1 l2 : List Ev) : resps (l1 ++ l2) = resps l1 ++ resps l2 := by
  induction l1 with
  | nil => rfl
  | cons e es ih => cases e <;> simp [resps, ih]

theorem resps_daemons (ds : List Key) : resps (ds.map Ev.daemon) = [] := by
  induction ds with
  | nil => rfl
  | cons d ds ih => simpa [resps] using ih

theorem opOf_daemons (ds : List Key) (o : Oid) : ConcR.opOf (ds.map Ev.daemon) o = none := by
  induction ds with
  | nil => rfl
  | cons d ds ih => simpa [ConcR.opOf] using ih

theorem resps_callFrag (t : Tid) (o : Oid) (op : ConcR.Op) (ds : List Key) (r : Option Val) :
    resps (callFrag t o op ds r) = [(o, r)] := by
  unfold callFrag
  rw [resps_append, resps_append, resps_daemons]
  rfl

theorem opOf_callFrag (t : Tid) (o : Oid) (op : ConcR.Op) (ds : List Key) (r : Option Val)
    (o' : Oid) : ConcR.opOf (callFrag t o op ds r) o' = if o = o' then some (t, op) else none := by
  unfold callFrag
  rw [List.append_assoc, List.cons_append, List.cons_append, List.nil_append]
  simp only [ConcR.opOf]
  by_cases h : o = o'
  · rw [if_pos h, if_pos h]
  · rw [if_neg h, if_neg h, ConcR.opOf_append, opOf_daemons]; rfl

theorem callsOf_evsOf_aux (p : Params) (t : Tid) (h : List Op) :
    ∀ (s : SState) (n : Nat) (pre : List Ev), (∀ o, n ≤ o → ConcR.opOf pre o = none) →
      (resps (evsOf p t s n h)).filterMap
          (fun x => (ConcR.opOf (pre ++ evsOf p t s n h) x.1).map fun y => (x.1, y.1, y.2, x.2)) =
        callsOfTrace t n (Sync.run p s h) := by
  induction h with
  | nil => intro s n pre _; rfl
  | cons op rest ih =>
    intro s n pre hpre
    have hrun : Sync.run p s (op :: rest) =
        (op, (Sync.step p s op).2) :: Sync.run p (Sync.step p s op).1 rest := rfl
    have hevs : evsOf p t s n (op :: rest) =
        fragOf p s t n op ++ evsOf p t (Sync.step p s op).1 (n + 1) rest := rfl
    rw [hrun, hevs, resps_append, List.filterMap_append, ← List.append_assoc]
    have hpre' : ∀ o, n + 1 ≤ o → ConcR.opOf (pre ++ fragOf p s t n op) o = none := by
      intro o ho
      rw [ConcR.opOf_append, hpre o (by omega)]
      unfold fragOf
      cases hro : ropOf op with
      | some rop =>
        show (none : Option (Tid × ConcR.Op)).or (ConcR.opOf (callFrag t n rop _ _) o) = none
        rw [opOf_callFrag, if_neg (Nat.ne_of_lt ho)]; rfl
      | none =>
        show (none : Option (Tid × ConcR.Op)).or (ConcR.opOf (List.map Ev.daemon _) o) = none
        rw [opOf_daemons]; rfl
    rw [ih (Sync.step p s op).1 (n + 1) (pre ++ fragOf p s t n op) hpre']
    rw [callsOfTrace_cons]
    cases hro : ropOf op with
    | some rop =>
      have hfr : fragOf p s t n op = callFrag t n rop
          (delKeys (mapAfter (absMap s) rop) (absMap (Sync.step p s op).1))
          (respOf (Sync.step p s op).2) := by
        unfold fragOf; simp only [hro]
      have hop : ConcR.opOf (pre ++ fragOf p s t n op ++
          evsOf p t (Sync.step p s op).1 (n + 1) rest) n = some (t, rop) := by
        rw [List.append_assoc, ConcR.opOf_append, hpre n (Nat.le_refl n), ConcR.opOf_append, hfr,
          opOf_callFrag, if_pos rfl]
        rfl
      show List.filterMap _ (resps (fragOf p s t n op)) ++ _ = _ :: _
      rw [hfr, resps_callFrag]
      rw [hfr] at hop
      rw [List.filterMap_cons]
      simp only [hop, Option.map_some, List.filterMap_nil, List.singleton_append]
    | none =>
      have hfr : resps (fragOf p s t n op) = [] := by
        unfold fragOf; simp only [hro]; exact resps_daemons _
      show List.filterMap _ (resps (fragOf p s t n op)) ++ _ = _
      rw [hfr]; rfl

theorem callsOf_evsOf (p : Params) (t : Tid) (h : List Op) :
    callsOf (evsOf p t {} 0 h) = callsOfTrace t 0 (Sync.trace p h) := by
  have := callsOf_evsOf_aux p t h {} 0 [] (fun _ _ => rfl)
  rw [List.nil_append] at this
  exact this

/-- Along a history without panic no state carries a fault. -/
theorem runState_fault_none (p : Params) (h : List Op) : ∀ (s : SState), s.fault = none →
    Spec.noPanic (Sync.run p s h) = true → (Sync.runState p s h).fault = none := by
  induction h with
  | nil => intro s hf _; exact hf
  | cons op rest ih =>
    intro s hf hnp
    obtain ⟨h1, h2⟩ := noPanic_cons hnp
    exact ih _ (step_fault_none p hf op h1) h2

theorem runState_append (p : Params) (h1 h2 : List Op) : ∀ (s : SState),
    Sync.runState p s (h1 ++ h2) = Sync.runState p (Sync.runState p s h1) h2 := by
  induction h1 with
  | nil => intro s; rfl
  | cons op rest ih => intro s; exact ih _

end SyncR
end MiniMoka
