/-
  Lemmas for `Props/ConcSRefill.lean`: what one thread does after any many-thread phase.

  * `path_of_step'`: every call of the one-thread model `Sync.step` is a path of the many-thread
    system from ANY state in which no maintenance run is in progress — the queues may be as long
    as the channels allow (the bound `QInv` of the one-thread model, "queues at most at their
    flush points", is not needed: the first housekeeping of `schedule_write_op` makes room).
  * `reach_vaLe`: the `invalidate_all` watermark never lies in the future, for all interleavings.
  * `fitsC03Sync_run_reach`: the C03 part-B oracle accepts every one-thread continuation of a
    reachable state in which nobody holds an operation.
  * the refill: `refill_drain` (invalidating every key and `sync` leaves an empty, quiescent
    cache) and `refill_fill` (then `ins k 1; sync` for at most `capacity` distinct keys retains
    every one of them).
-/
import MiniMoka.Lemmas.ConcS
import MiniMoka.Lemmas.SyncFits

namespace MiniMoka
namespace ConcS

open Sync Sync.Nodes Sync.Counters Spec

/-! ### one thread after a many-thread phase -/

/-- `schedule_write_op` of one thread is `[maint] ; enq`, whatever the length of the queue. -/
theorem path_scheduleWriteOp' (p : Params) {s : SState} (hr : s.running = false) (t : Tid)
    (op : WOp) :
    ∃ evs, runEvs p ⟨s, [(t, .write op)]⟩ evs = some ⟨scheduleWriteOp p 3 s op, []⟩ := by
  show ∃ evs, runEvs p ⟨s, [(t, .write op)]⟩ evs = some ⟨
    (if (housekeepW p s).writeQ.length < Gen.WRITE_LOG_SIZE
      then { housekeepW p s with writeQ := (housekeepW p s).writeQ ++ [op] }
      else scheduleWriteOp p 2 (housekeepW p s) op), []⟩
  unfold housekeepW
  by_cases ha : shouldApply s s.writeQ.length Gen.WRITE_LOG_FLUSH_POINT = true
  · rw [if_pos ha]
    have hw := (trySync_spec p s hr).writeQ
    have hlt : (trySync p s).writeQ.length < Gen.WRITE_LOG_SIZE := by rw [hw]; decide
    rw [if_pos hlt]
    refine ⟨[.maint t, .enq t], ?_⟩
    simp only [runEvs, step, hr, Bool.false_eq_true, if_false, pendOf_single, if_pos hlt,
      dropPend_single]
  · rw [if_neg ha]
    have hlt : s.writeQ.length < Gen.WRITE_LOG_SIZE := by
      unfold shouldApply at ha
      simp only [Bool.or_eq_true, decide_eq_true_eq, not_or, Nat.not_le] at ha
      exact Nat.lt_trans ha.1 wfp_lt_size
    rw [if_pos hlt]
    refine ⟨[.enq t], ?_⟩
    simp only [runEvs, step, pendOf_single, if_pos hlt, dropPend_single]

/-- `record_read_op` of one thread is `[maint] ; enq` (a full read queue drops the operation in
both systems). -/
theorem path_recordReadOp' (p : Params) {s : SState} (hr : s.running = false) (t : Tid)
    (op : ROp) :
    ∃ evs, runEvs p ⟨s, [(t, .read op)]⟩ evs = some ⟨recordReadOp p s op, []⟩ := by
  show ∃ evs, runEvs p ⟨s, [(t, .read op)]⟩ evs = some ⟨
    (if (housekeepR p s).readQ.length < Gen.READ_LOG_SIZE
      then { housekeepR p s with readQ := (housekeepR p s).readQ ++ [op] }
      else housekeepR p s), []⟩
  unfold housekeepR
  by_cases ha : shouldApply s s.readQ.length Gen.READ_LOG_FLUSH_POINT = true
  · rw [if_pos ha]
    refine ⟨[.maint t, .enq t], ?_⟩
    by_cases hlt : (trySync p s).readQ.length < Gen.READ_LOG_SIZE
    · simp only [runEvs, step, hr, Bool.false_eq_true, if_false, pendOf_single, if_pos hlt,
        dropPend_single]
    · simp only [runEvs, step, hr, Bool.false_eq_true, if_false, pendOf_single, if_neg hlt,
        dropPend_single]
  · rw [if_neg ha]
    refine ⟨[.enq t], ?_⟩
    by_cases hlt : s.readQ.length < Gen.READ_LOG_SIZE
    · simp only [runEvs, step, pendOf_single, if_pos hlt, dropPend_single]
    · simp only [runEvs, step, pendOf_single, if_neg hlt, dropPend_single]

/-- `path_of_step` without the one-thread queue bound. -/
theorem path_of_step' (p : Params) {s : SState} (hr : s.running = false) (op : Op) (t : Tid) :
    ∃ evs, runEvs p ⟨s, []⟩ evs = some ⟨(Sync.step p s op).1, []⟩ := by
  unfold Sync.step
  by_cases hf : s.fault.isSome = true
  · rw [if_pos hf]; exact ⟨[], rfl⟩
  · rw [if_neg hf]
    dsimp only
    have key : ∀ r : SState × Obs, (∃ evs, runEvs p ⟨s, []⟩ evs = some ⟨r.1, []⟩) →
        ∃ evs, runEvs p ⟨s, []⟩ evs =
          some ⟨(match r.1.fault with | some f => (r.1, Obs.panic f) | none => r).1, []⟩ := by
      intro r hr
      split <;> exact hr
    apply key
    cases op with
    | ins k v =>
      show ∃ evs, runEvs p ⟨s, []⟩ evs = some ⟨Sync.insert p s k v, []⟩
      rw [insert_eq]
      have hrM : (insertMap p s k v).1.running = false := by
        unfold insertMap; dsimp only; split <;> exact hr
      obtain ⟨evs, he⟩ := path_scheduleWriteOp' p hrM t (insertMap p s k v).2
      refine ⟨.insMap t k v :: evs, ?_⟩
      simp only [runEvs, step, pendOf_nil, List.nil_append]
      exact he
    | get k =>
      show ∃ evs, runEvs p ⟨s, []⟩ evs = some ⟨(Sync.get p s k).1, []⟩
      rw [get_eq]
      obtain ⟨evs, he⟩ := path_recordReadOp' p hr t (lookup p s k).1
      refine ⟨.getMap t k :: evs, ?_⟩
      simp only [runEvs, step, pendOf_nil, List.nil_append]
      exact he
    | has k => exact ⟨[], rfl⟩
    | iter => exact ⟨[], rfl⟩
    | inv k =>
      show ∃ evs, runEvs p ⟨s, []⟩ evs = some ⟨Sync.invalidate p s k, []⟩
      rw [invalidate_eq]
      cases ho : (invalidateMap s k).2 with
      | none =>
        refine ⟨[.invMap t k], ?_⟩
        simp only [runEvs, step, pendOf_nil, ho]
      | some wop =>
        have hrM : (invalidateMap s k).1.running = false := by
          unfold invalidateMap; split <;> exact hr
        obtain ⟨evs, he⟩ := path_scheduleWriteOp' p hrM t wop
        refine ⟨.invMap t k :: evs, ?_⟩
        simp only [runEvs, step, pendOf_nil, ho, List.nil_append]
        exact he
    | invAll => exact ⟨[.invAll t], rfl⟩
    | invIf pr => exact ⟨[], rfl⟩
    | sync =>
      refine ⟨[.sync t], ?_⟩
      simp only [runEvs, step, hr, Bool.false_eq_true, if_false]
    | adv d => exact ⟨[.tick d], rfl⟩
    | snap => exact ⟨[], rfl⟩
    | freq k => exact ⟨[], rfl⟩

theorem reach_of_runEvs' {p : Params} : ∀ (evs : List Ev) (c c' : CState), Reach p c →
    runEvs p c evs = some c' → Reach p c' := by
  intro evs
  induction evs with
  | nil => intro c c' hr h; simp only [runEvs] at h; rw [← Option.some.inj h]; exact hr
  | cons e rest ih =>
    intro c c' hr h
    simp only [runEvs] at h
    cases hs : ConcS.step p c e with
    | none => rw [hs] at h; cases h
    | some c1 => rw [hs] at h; exact ih c1 c' (Reach.step e hr hs) h

/-- A call of the single thread from a reachable state in which nobody holds an operation leads
to such a state. -/
theorem reach_step {p : Params} (hq : NoQuirks p) (hsm : SmallSketch p) {s : SState}
    (hr : Reach p ⟨s, []⟩) (op : Op) : Reach p ⟨(Sync.step p s op).1, []⟩ := by
  obtain ⟨evs, he⟩ := path_of_step' p (reach_csinv hq hsm hr).running op 0
  exact reach_of_runEvs' evs _ _ hr he

theorem reach_stateAfter {p : Params} (hq : NoQuirks p) (hsm : SmallSketch p) (h : List Op) :
    ∀ {s : SState}, Reach p ⟨s, []⟩ → Reach p ⟨stateAfter p s h, []⟩ := by
  induction h with
  | nil => intro s hs; exact hs
  | cons op rest ih => intro s hs; exact ih (reach_step hq hsm hs op)

/-- In a reachable state with nothing held and both queues empty the invariant of the
one-thread model holds. -/
theorem reach_tinv {p : Params} (hq : NoQuirks p) (hsm : SmallSketch p) {s : SState}
    (hr : Reach p ⟨s, []⟩) (hw : s.writeQ = []) (hrq : s.readQ = []) : TInv p s [] := by
  have h := reach_csinv hq hsm hr
  refine ⟨h.top, ⟨h.running, ?_, ?_⟩, h.cinv⟩
  · rw [hw]; exact Nat.zero_le _
  · rw [hrq]; exact Nat.zero_le _

/-! ### the watermark never lies in the future, for all interleavings -/

theorem insertMap_va_now (p : Params) (s : SState) (k v : Nat) :
    (insertMap p s k v).1.va = s.va ∧ (insertMap p s k v).1.now = s.now := by
  unfold insertMap
  dsimp only
  cases AL.get? s.map k <;> exact ⟨rfl, rfl⟩

theorem invalidateMap_va_now (s : SState) (k : Nat) :
    (invalidateMap s k).1.va = s.va ∧ (invalidateMap s k).1.now = s.now := by
  unfold invalidateMap
  cases AL.get? s.map k <;> exact ⟨rfl, rfl⟩

theorem step_vaLe {p : Params} (hq : NoQuirks p) {c c' : CState} (h : VaLe c.s) (e : Ev)
    (hs : step p c e = some c') : VaLe c'.s := by
  cases e with
  | insMap t k v =>
    simp only [step] at hs
    cases hp : pendOf c.pending t with
    | some x => rw [hp] at hs; cases hs
    | none =>
      rw [hp] at hs
      have e := Option.some.inj hs
      subst e
      exact h.of_eq (insertMap_va_now p c.s k v).1 (insertMap_va_now p c.s k v).2
  | invMap t k =>
    simp only [step] at hs
    cases hp : pendOf c.pending t with
    | some x => rw [hp] at hs; cases hs
    | none =>
      rw [hp] at hs
      dsimp only at hs
      cases ho : (invalidateMap c.s k).2 with
      | none =>
        rw [ho] at hs
        have e := Option.some.inj hs
        subst e
        exact h
      | some op =>
        rw [ho] at hs
        have e := Option.some.inj hs
        subst e
        exact h.of_eq (invalidateMap_va_now c.s k).1 (invalidateMap_va_now c.s k).2
  | getMap t k =>
    simp only [step] at hs
    cases hp : pendOf c.pending t with
    | some x => rw [hp] at hs; cases hs
    | none =>
      rw [hp] at hs
      have e := Option.some.inj hs
      subst e
      exact h
  | maint t =>
    simp only [step] at hs
    split at hs
    · cases hs
    · have e := Option.some.inj hs
      subst e
      exact h.frame (trySync_frame hq c.s)
  | sync t =>
    simp only [step] at hs
    split at hs
    · cases hs
    · have e := Option.some.inj hs
      subst e
      exact h.frame (syncRun_frame hq c.s)
  | enq t =>
    simp only [step] at hs
    cases hp : pendOf c.pending t with
    | none => rw [hp] at hs; cases hs
    | some pd =>
      rw [hp] at hs
      cases pd with
      | write op =>
        dsimp only at hs
        split at hs
        · have e := Option.some.inj hs
          subst e
          exact h.of_eq rfl rfl
        · cases hs
      | read op =>
        dsimp only at hs
        split at hs
        · have e := Option.some.inj hs
          subst e
          exact h.of_eq rfl rfl
        · have e := Option.some.inj hs
          subst e
          exact h
  | tick d =>
    simp only [step] at hs
    have e := Option.some.inj hs
    subst e
    intro v hv
    exact Nat.le_trans (h v hv) (Nat.le_add_right _ _)
  | invAll t =>
    simp only [step] at hs
    have e := Option.some.inj hs
    subst e
    intro v hv
    simp only [invalidateAll, Option.some.injEq] at hv
    subst hv
    exact Nat.le_refl _

/-- `valid_after ≤ now` in every reachable state of the many-thread system. -/
theorem reach_vaLe {p : Params} (hq : NoQuirks p) {c : CState} (h : Reach p c) : VaLe c.s := by
  induction h with
  | init => intro v hv; cases hv
  | step e _ hs ih => exact step_vaLe hq ih e hs

/-! ### C03 part B for every one-thread continuation -/

/-- `fitsC03Sync_run` from a reachable state of the many-thread system in which nobody holds an
operation (the queues may be longer than one thread could make them). -/
theorem fitsC03Sync_run_reach {p : Params} (hq : NoQuirks p) (hsm : SmallSketch p) {c : Nat}
    (hcap : p.cap = some c) :
    ∀ (h : List Op) (s : SState), Reach p ⟨s, []⟩ →
      fitsC03Sync c p.ttl p.tti p.weigh (run p s h) = true := by
  intro h
  induction h with
  | nil => intro s _; rfl
  | cons op rest ih =>
    intro s hr
    rw [run_cons]
    have hinv := reach_csinv hq hsm hr
    have hr1 := reach_step hq hsm hr op
    have ih' := ih _ hr1
    by_cases hwin : ∃ before rst, (op, (Sync.step p s op).2) = (Op.sync, Obs.ok) ∧
        run p (Sync.step p s op).1 rest = (Op.snap, Obs.snap before) :: rst
    · obtain ⟨before, rst, e1, e2⟩ := hwin
      rw [e1, e2, fitsC03Sync_window, Bool.and_eq_true]
      refine ⟨?_, by rw [← e2]; exact ih'⟩
      simp only [Prod.mk.injEq] at e1
      obtain ⟨eop, _⟩ := e1
      subst eop
      have hst : (Sync.step p s .sync).1 = syncRun p s := step_fst hinv.top.nofault .sync
      rw [hst] at e2 hr1
      have ht1 : TInv p (syncRun p s) [] :=
        reach_tinv hq hsm hr1 (syncRun_writeQ p s) (syncRun_readQ p s)
      cases rest with
      | nil => simp [run] at e2
      | cons op2 rest2 =>
        rw [run_cons] at e2
        simp only [List.cons.injEq, Prod.mk.injEq] at e2
        obtain ⟨⟨eop2, eobs2⟩, erst⟩ := e2
        subst eop2
        have hb := step_snap p (syncRun p s) .snap before eobs2
        have hst2 : (Sync.step p (syncRun p s) .snap).1 = syncRun p s :=
          step_fst ht1.top.nofault .snap
        rw [hst2] at erst
        rw [hb, ← erst]
        exact winResult_ok hq hsm hcap ht1 (reach_vaLe hq hr1)
          (syncRun_writeQ p s) (syncRun_readQ p s) rest2
    · rw [fitsC03Sync_other _ _ _ _ _ _ (fun b r hh => hwin ⟨b, r, hh.1, hh.2⟩)]
      exact ih'

/-! ### the sequential refill -/

theorem stateAfter_append (p : Params) (l1 l2 : List Op) : ∀ (s : SState),
    stateAfter p s (l1 ++ l2) = stateAfter p (stateAfter p s l1) l2 := by
  induction l1 with
  | nil => intro s; rfl
  | cons op rest ih => intro s; exact ih _

theorem sum_map_const_one {α : Type} (l : List α) (f : α → Nat) (hf : ∀ x, x ∈ l → f x = 1) :
    (l.map f).sum = l.length := by
  induction l with
  | nil => rfl
  | cons a l ih =>
    rw [List.map_cons, List.sum_cons, List.length_cons, hf a (List.mem_cons_self ..),
      ih (fun x hx => hf x (List.mem_cons_of_mem _ hx))]
    omega

theorem al_nil_of_no_get {β : Type} (m : List (Nat × β)) (h : ∀ k v, AL.get? m k = some v → False) :
    m = [] := by
  cases m with
  | nil => rfl
  | cons a m =>
    obtain ⟨k, v⟩ := a
    exact (h k v (by rw [AL.get?_cons, if_pos rfl])).elim

/-- Phase (a), the invalidations: once every key of the list has been invalidated by the single
thread, only keys outside the list can be left. -/
theorem refill_invs {p : Params} (hq : NoQuirks p) (hsm : SmallSketch p) :
    ∀ (l : List Nat) (s : SState), Reach p ⟨s, []⟩ →
      Reach p ⟨stateAfter p s (l.map Op.inv), []⟩ ∧
      ∀ k ve, AL.get? (stateAfter p s (l.map Op.inv)).map k = some ve →
        AL.get? s.map k = some ve ∧ k ∉ l := by
  intro l
  induction l with
  | nil => intro s hr; exact ⟨hr, fun k ve h => ⟨h, List.not_mem_nil⟩⟩
  | cons k0 l ih =>
    intro s hr
    have hinv := reach_csinv hq hsm hr
    have hr1 := reach_step hq hsm hr (.inv k0)
    have hst : (Sync.step p s (.inv k0)).1 = invalidate p s k0 :=
      step_fst hinv.top.nofault (.inv k0)
    obtain ⟨a1, a2⟩ := ih _ hr1
    refine ⟨a1, ?_⟩
    intro k ve hk
    obtain ⟨b1, b2⟩ := a2 k ve hk
    rw [hst] at b1
    have hkn := hinv.top.map.kn
    have hsub : AL.get? s.map k = some ve ∧ k ≠ k0 := by
      unfold invalidate at b1
      cases hg : AL.get? s.map k0 with
      | none =>
        rw [hg] at b1
        refine ⟨b1, ?_⟩
        intro e; rw [e, hg] at b1; cases b1
      | some ve0 =>
        rw [hg] at b1
        dsimp only at b1
        have hfr := scheduleWriteOp_frame hq 3 { s with map := AL.erase s.map k0 }
          (.remove k0 ve0)
        have h1 := hfr.mapSub (AL.nodup_erase k0 hkn) k ve b1
        have h2 : AL.get? (AL.erase s.map k0) k = some ve := h1
        rw [AL.get?_erase k0 k hkn] at h2
        by_cases e : k0 = k
        · rw [if_pos e] at h2; cases h2
        · rw [if_neg e] at h2; exact ⟨h2, fun e' => e e'.symm⟩
    refine ⟨hsub.1, ?_⟩
    intro hmem
    rcases List.mem_cons.mp hmem with e | e
    · exact hsub.2 e
    · exact b2 e

/-- The state of a refill in progress: reachable, quiescent, and the map holds exactly the keys
refilled so far, each with value 1 and written at the current instant. -/
structure Filled (p : Params) (s : SState) (done : List Nat) : Prop where
  r : Reach p ⟨s, []⟩
  wq : s.writeQ = []
  rq : s.readQ = []
  sub : ∀ k ve, AL.get? s.map k = some ve → k ∈ done
  all : ∀ k, k ∈ done → ∃ ve, AL.get? s.map k = some ve ∧ ve.val = 1 ∧
    (getInfo s ve.info).la = s.now ∧ (getInfo s ve.info).lm = s.now

/-- Phase (a): invalidate every key of the map, then `sync`: the cache is empty and quiescent. -/
theorem refill_drain {p : Params} (hq : NoQuirks p) (hsm : SmallSketch p) {s : SState}
    (hr : Reach p ⟨s, []⟩) :
    Filled p (stateAfter p s (s.map.map (fun kv => Op.inv kv.1) ++ [Op.sync])) [] ∧
    (stateAfter p s (s.map.map (fun kv => Op.inv kv.1) ++ [Op.sync])).map = [] := by
  have hl : s.map.map (fun kv => Op.inv kv.1) = (AL.keys s.map).map Op.inv := by
    rw [AL.keys_eq_map, List.map_map]; rfl
  rw [hl, stateAfter_append]
  obtain ⟨a1, a2⟩ := refill_invs hq hsm (AL.keys s.map) s hr
  generalize stateAfter p s ((AL.keys s.map).map Op.inv) = s1 at a1 a2
  have hinv1 := reach_csinv hq hsm a1
  have hm1 : s1.map = [] := by
    apply al_nil_of_no_get
    intro k ve hk
    obtain ⟨b1, b2⟩ := a2 k ve hk
    exact b2 (AL.mem_keys_of_get? b1)
  have hst : (Sync.step p s1 .sync).1 = syncRun p s1 := step_fst hinv1.top.nofault .sync
  have hr2 := reach_step hq hsm a1 .sync
  show Filled p (Sync.step p s1 .sync).1 [] ∧ (Sync.step p s1 .sync).1.map = []
  rw [hst] at hr2 ⊢
  have hm2 : (syncRun p s1).map = [] := by
    apply al_nil_of_no_get
    intro k ve hk
    have := (syncRun_frame hq s1).mapSub hinv1.top.map.kn k ve hk
    rw [hm1] at this; cases this
  refine ⟨⟨hr2, syncRun_writeQ p s1, syncRun_readQ p s1, ?_, ?_⟩, hm2⟩
  · intro k ve hk
    rw [hm2] at hk; cases hk
  · intro k hk; cases hk

/-- One round of phase (b): `insert(k, 1); sync()` for a fresh key while there is room. -/
theorem refill_one {p : Params} (hq : NoQuirks p) (hsm : SmallSketch p) {c : Nat}
    (hcap : p.cap = some c) (hnw : p.hasWeigher = false)
    (hlives : p.ttl ≠ some 0 ∧ p.tti ≠ some 0) {s : SState} {done : List Nat} {k : Nat}
    (h : Filled p s done) (hk : k ∉ done) (hroom : done.length + 1 ≤ c) :
    Filled p (stateAfter p s [Op.ins k 1, Op.sync]) (done ++ [k]) := by
  have ht : TInv p s [] := reach_tinv hq hsm h.r h.wq h.rq
  have hv : VaLe s := reach_vaLe hq h.r
  have hkn := ht.top.map.kn
  have hk0 : AL.get? s.map k = none := by
    cases hg : AL.get? s.map k with
    | none => rfl
    | some ve => exact absurd (h.sub k ve hg) hk
  have hw1 : ∀ k' v', p.weigh k' v' = 1 := by
    intro k' v'; unfold Params.weigh; rw [hnw]; rfl
  have hfit : budTotal (blOf p s.map) + p.weigh k 1 ≤ c := by
    rw [budTotal_blOf, hw1, sum_map_const_one _ _ (fun x _ => hw1 x.1 x.2.val)]
    have hlen : (AL.keys s.map).length ≤ done.length := by
      refine nodup_length_le _ _ hkn ?_
      intro x hx
      have := (AL.get?_isSome_iff s.map x).mpr hx
      cases hg : AL.get? s.map x with
      | none => rw [hg] at this; cases this
      | some ve => exact h.sub x ve hg
    rw [AL.keys_eq_map, List.length_map] at hlen
    omega
  -- the states
  have hst1 : (Sync.step p s (.ins k 1)).1 = insert p s k 1 := step_fst ht.top.nofault (.ins k 1)
  have hr1 := reach_step hq hsm h.r (.ins k 1)
  rw [hst1] at hr1
  have hinv1 := reach_csinv hq hsm hr1
  have hst2 : (Sync.step p (insert p s k 1) .sync).1 = syncRun p (insert p s k 1) :=
    step_fst hinv1.top.nofault .sync
  have hr2 := reach_step hq hsm hr1 .sync
  rw [hst2] at hr2
  show Filled p (Sync.step p (Sync.step p s (.ins k 1)).1 .sync).1 (done ++ [k])
  rw [hst1, hst2]
  -- the window
  have hseg := seg_init (p := p) ht hv h.wq h.rq hk0
  obtain ⟨hseg', hfit'⟩ := seg_insert hq hsm hcap hseg 1
  obtain ⟨⟨ve, hve, hval⟩, hkb⟩ := hfit' hfit hlives
  have hkb1 : KeptB p k s (insert p s k 1) := hkb (fun _ _ _ hh => Or.inl hh)
  obtain ⟨a1, a2, a3, _⟩ := seg_sync_fit hq hsm hcap hseg' hve (by rw [hval]; exact hfit) hlives
  have hkb2 := a2 hkb1
  have hfr := syncRun_frame hq (insert p s k 1)
  have hkn1 := hseg'.t.top.map.kn
  have hla : ∀ j, (getInfo (syncRun p (insert p s k 1)) j).la = (getInfo (insert p s k 1) j).la := by
    intro j
    rcases hfr.la j with e | ⟨_, _, hin, _⟩
    · exact e
    · rw [hseg'.rq] at hin; cases hin
  refine ⟨hr2, syncRun_writeQ p _, syncRun_readQ p _, ?_, ?_⟩
  · intro k' ve' hk'
    by_cases e : k' = k
    · rw [e]; exact List.mem_append_right _ (List.mem_singleton.mpr rfl)
    · have h1 := hfr.mapSub hkn1 k' ve' hk'
      exact List.mem_append_left _ (h.sub k' ve' (hseg'.os k' ve' e h1).1)
  · intro k' hk'
    rcases List.mem_append.mp hk' with hd | hd
    · have hne : k' ≠ k := fun e => hk (e ▸ hd)
      obtain ⟨ve', g1, g2, g3, g4⟩ := h.all k' hd
      rcases hkb2 k' ve' hne g1 with hh | hh
      · have h1 := hfr.mapSub hkn1 k' ve' hh
        obtain ⟨_, o2, o3⟩ := hseg'.os k' ve' hne h1
        refine ⟨ve', hh, g2, ?_, ?_⟩
        · rw [hla, o2, g3, a3]
        · rw [hfr.lm, o3, g4, a3]
      · rw [fresh_not_expired hv hlives g3 g4] at hh; cases hh
    · have e : k' = k := List.mem_singleton.mp hd
      subst e
      obtain ⟨_, s2, s3⟩ := hseg'.s1 ve hve
      refine ⟨ve, a1, hval, ?_, ?_⟩
      · rw [hla, s2, hfr.now]
      · rw [hfr.lm, s3, hfr.now]

/-- Phase (b): `insert(k, 1); sync()` for each of a list of distinct fresh keys that fits in the
capacity: all of them, and those refilled before, are retained. -/
theorem refill_fill {p : Params} (hq : NoQuirks p) (hsm : SmallSketch p) {c : Nat}
    (hcap : p.cap = some c) (hnw : p.hasWeigher = false)
    (hlives : p.ttl ≠ some 0 ∧ p.tti ≠ some 0) :
    ∀ (fresh : List Nat) (s : SState) (done : List Nat), Filled p s done →
      (done ++ fresh).Nodup → (done ++ fresh).length ≤ c →
      Filled p (stateAfter p s (fresh.flatMap fun k => [Op.ins k 1, Op.sync])) (done ++ fresh) := by
  intro fresh
  induction fresh with
  | nil => intro s done h _ _; rw [List.append_nil]; exact h
  | cons k rest ih =>
    intro s done h hnd hlen
    have e1 : done ++ k :: rest = (done ++ [k]) ++ rest := by
      rw [List.append_assoc]; rfl
    rw [e1] at hnd hlen ⊢
    have hnd1 : (done ++ [k]).Nodup := (List.nodup_append.mp hnd).1
    have hk : k ∉ done := by
      intro hm
      exact (List.nodup_append.mp hnd1).2.2 k hm k (List.mem_singleton.mpr rfl) rfl
    have hroom : done.length + 1 ≤ c := by
      rw [List.length_append, List.length_append] at hlen
      simp only [List.length_cons, List.length_nil] at hlen
      omega
    have h1 := refill_one hq hsm hcap hnw hlives h hk hroom
    have e2 : (List.flatMap (fun k => [Op.ins k 1, Op.sync]) (k :: rest)) =
        [Op.ins k 1, Op.sync] ++ List.flatMap (fun k => [Op.ins k 1, Op.sync]) rest := by
      rw [List.flatMap_cons]
    rw [e2, stateAfter_append]
    exact ih _ _ h1 hnd hlen

/-- What `Filled` says about a key: the map holds it with value 1 and `contains_key` sees it. -/
theorem Filled.resident {p : Params} (hq : NoQuirks p) (hsm : SmallSketch p)
    (hlives : p.ttl ≠ some 0 ∧ p.tti ≠ some 0) {s : SState} {done : List Nat}
    (h : Filled p s done) {k : Nat} (hk : k ∈ done) :
    (AL.get? s.map k).map (·.val) = some 1 ∧ (Sync.step p s (.has k)).2 = .bool true := by
  obtain ⟨ve, g1, g2, g3, g4⟩ := h.all k hk
  have hnf := (reach_csinv hq hsm h.r).top.nofault
  refine ⟨by rw [g1, Option.map_some, g2], ?_⟩
  unfold Sync.step
  rw [if_neg (by rw [hnf]; exact Bool.false_ne_true)]
  dsimp only
  rw [hnf]
  dsimp only
  unfold containsKey
  rw [g1]
  dsimp only
  rw [fresh_not_expired (reach_vaLe hq h.r) hlives g3 g4]
  rfl

/-- … and `get` returns the value. -/
theorem Filled.get_sees {p : Params} (hq : NoQuirks p) (hsm : SmallSketch p)
    (hlives : p.ttl ≠ some 0 ∧ p.tti ≠ some 0) {s : SState} {done : List Nat}
    (h : Filled p s done) {k : Nat} (hk : k ∈ done) :
    (Sync.step p s (.get k)).2 = .val (some 1) := by
  obtain ⟨ve, g1, g2, g3, g4⟩ := h.all k hk
  have hnf := (reach_csinv hq hsm h.r).top.nofault
  have hnf1 := (reach_csinv hq hsm (reach_step hq hsm h.r (.get k))).top.nofault
  rw [step_fst hnf (.get k)] at hnf1
  have hnf2 : (Sync.get p s k).1.fault = none := hnf1
  have hg : (Sync.get p s k).2 = some 1 := by
    unfold Sync.get
    rw [g1]
    dsimp only
    rw [fresh_not_expired (reach_vaLe hq h.r) hlives g3 g4]
    simp [g2]
  unfold Sync.step
  rw [if_neg (by rw [hnf]; exact Bool.false_ne_true)]
  dsimp only
  rw [hnf2, hg]

/-- No capacity has leaked: the map holds exactly as many entries as keys were refilled, and the
published counters `entry_count` and `weighted_size` say so. -/
theorem Filled.counters {p : Params} (hq : NoQuirks p) (hsm : SmallSketch p)
    (hnw : p.hasWeigher = false) {s : SState} {done : List Nat} (h : Filled p s done)
    (hnd : done.Nodup) :
    s.map.length = done.length ∧ s.ec = done.length ∧ s.ws = done.length := by
  have ht : TInv p s [] := reach_tinv hq hsm h.r h.wq h.rq
  obtain ⟨q1, q2, q3, _, _⟩ := quiescent ht h.wq
  have hkn := ht.top.map.kn
  have hlen : s.map.length = done.length := by
    have l1 : (AL.keys s.map).length ≤ done.length := by
      refine nodup_length_le _ _ hkn ?_
      intro x hx
      have := (AL.get?_isSome_iff s.map x).mpr hx
      cases hg : AL.get? s.map x with
      | none => rw [hg] at this; cases this
      | some ve => exact h.sub x ve hg
    have l2 : done.length ≤ (AL.keys s.map).length := by
      refine nodup_length_le _ _ hnd ?_
      intro x hx
      obtain ⟨ve, g, _⟩ := h.all x hx
      exact AL.mem_keys_of_get? g
    rw [AL.keys_eq_map, List.length_map] at l1 l2
    omega
  refine ⟨hlen, q1.trans hlen, ?_⟩
  rw [q2, sum_map_const_one _ _ (fun kv hkv => by
    rw [q3 kv hkv]; unfold Params.weigh; rw [hnw]; rfl), hlen]

end ConcS
end MiniMoka
