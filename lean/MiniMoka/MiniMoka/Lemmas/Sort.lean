/-
  `sortBy` (used only to canonicalise outputs) is a permutation.
-/
import MiniMoka.Basic

namespace MiniMoka

theorem insertSorted_perm {α : Type} (key : α → Nat) (a : α) (l : List α) :
    (insertSorted key a l).Perm (a :: l) := by
  induction l with
  | nil => simp [insertSorted]
  | cons b l ih =>
    simp only [insertSorted]
    split
    · exact List.Perm.refl _
    · exact (List.Perm.cons b ih).trans (List.Perm.swap a b l)

theorem sortBy_perm {α : Type} (key : α → Nat) (l : List α) : (sortBy key l).Perm l := by
  induction l with
  | nil => simp [sortBy]
  | cons a l ih =>
    simp only [sortBy, List.foldr_cons]
    exact (insertSorted_perm key a _).trans (List.Perm.cons a ih)

theorem length_sortBy {α : Type} (key : α → Nat) (l : List α) : (sortBy key l).length = l.length :=
  (sortBy_perm key l).length_eq

theorem mem_sortBy {α : Type} (key : α → Nat) (l : List α) (a : α) : a ∈ sortBy key l ↔ a ∈ l :=
  (sortBy_perm key l).mem_iff

theorem sum_map_sortBy {α : Type} (key : α → Nat) (f : α → Nat) (l : List α) :
    ((sortBy key l).map f).sum = (l.map f).sum :=
  ((sortBy_perm key l).map f).sum_nat

end MiniMoka
