/-
  Coupling between the sequential sync model and the reference bookkeeping of the lookup
  oracles (C01, C05, C06, C07, C16), for any placement of `sync` and any queue state.
-/
import MiniMoka.Lemmas.SyncFrame
import MiniMoka.Lemmas.Sort
import MiniMoka.Spec.Oracles

namespace MiniMoka
namespace Sync

open Spec

structure CoupledS (p : Params) (s : SState) (g : Ghost) : Prop where
  kn : (AL.keys s.map).Nodup
  now : g.now = s.now
  vaLe : ∀ v, s.va = some v → v ≤ s.now
  tLe : ∀ k ge, AL.get? g.ents k = some ge → ge.tAcc ≤ g.now ∧ ge.tIns ≤ g.now
  refsMap : ∀ k ve, AL.get? s.map k = some ve → ve.info < s.nextId
  refsHits : ∀ hash ve ts, ROp.hit hash ve ts ∈ s.readQ → ve.info < s.nextId
  ents : ∀ k ve, AL.get? s.map k = some ve → ∃ ge, AL.get? g.ents k = some ge ∧
    ge.val = ve.val ∧ (getInfo s ve.info).key = k ∧ (getInfo s ve.info).lm = ge.tIns ∧
    (getInfo s ve.info).la ≤ ge.tAcc ∧
    (ge.alive = true ∨ ∃ v, s.va = some v ∧ (getInfo s ve.info).lm < v)
  hits : ∀ hash ve ts, ROp.hit hash ve ts ∈ s.readQ →
    ∃ ge, AL.get? g.ents (getInfo s ve.info).key = some ge ∧ ts ≤ ge.tAcc

theorem coupledS_frame {p : Params} {s s' : SState} {g : Ghost} (hc : CoupledS p s g)
    (hf : Frame s s') : CoupledS p s' g := by
  refine ⟨hf.kn hc.kn, hc.now.trans hf.now.symm, ?_, hc.tLe, ?_, ?_, ?_, ?_⟩
  · intro v hv; rw [hf.va] at hv; rw [hf.now]; exact hc.vaLe v hv
  · intro k ve h
    exact Nat.lt_of_lt_of_le (hc.refsMap k ve (hf.mapSub hc.kn k ve h)) hf.nextId
  · intro hash ve ts h
    exact Nat.lt_of_lt_of_le (hc.refsHits hash ve ts (hf.readQ _ h)) hf.nextId
  · intro k ve h
    obtain ⟨ge, h1, h2, h3, h4, h5, h6⟩ := hc.ents k ve (hf.mapSub hc.kn k ve h)
    refine ⟨ge, h1, h2, (hf.key _).trans h3, (hf.lm _).trans h4, ?_, ?_⟩
    · rcases hf.la ve.info with e | ⟨hash, ve', hin, hve'⟩
      · rw [e]; exact h5
      · obtain ⟨ge', g1, g2⟩ := hc.hits hash ve' _ hin
        rw [hve', h3, h1] at g1
        cases g1
        exact g2
    · rcases h6 with h6 | ⟨v, hv, hlt⟩
      · exact Or.inl h6
      · exact Or.inr ⟨v, by rw [hf.va]; exact hv, by rw [hf.lm]; exact hlt⟩
  · intro hash ve ts h
    obtain ⟨ge, g1, g2⟩ := hc.hits hash ve ts (hf.readQ _ h)
    exact ⟨ge, by rw [hf.key]; exact g1, g2⟩

def allChecks (p : Params) (g : Ghost) (kv : Nat × Option Nat) : Bool :=
  checkC01 g kv && checkC05 p.ttl g kv && checkC06 p.tti g kv

/-- A resident entry that `is_expired_entry` does not filter out passes the three checks. -/
theorem allChecks_of_entry {p : Params} {s : SState} {g : Ghost} (hc : CoupledS p s g) {k : Nat}
    {ve : VE} (hk : AL.get? s.map k = some ve)
    (hexp : isExpiredInfo p s (getInfo s ve.info) s.now = false) (ov : Option Nat)
    (hov : ov = none ∨ ov = some ve.val) : allChecks p g (k, ov) = true := by
  obtain ⟨ge, h1, h2, h3, h4, h5, h6⟩ := hc.ents k ve hk
  simp only [isExpiredInfo, Bool.or_eq_false_iff, expiredTs] at hexp
  obtain ⟨⟨e1, e2⟩, ⟨e3, e4⟩⟩ := hexp
  have halive : ge.alive = true := by
    rcases h6 with h6 | ⟨v, hv, hlt⟩
    · exact h6
    · rw [hv] at e1; simp at e1; omega
  simp only [allChecks, Bool.and_eq_true]
  refine ⟨⟨?_, ?_⟩, ?_⟩
  · simp only [checkC01, h1, halive, Bool.true_and]
    rcases hov with h | h <;> simp [h, h2]
  · simp only [checkC05]
    cases httl : p.ttl with
    | none => rfl
    | some d =>
      rw [httl] at e2
      simp only [h1, decide_eq_true_eq]
      simp at e2
      rw [hc.now, ← h4]; omega
  · simp only [checkC06]
    cases htti : p.tti with
    | none => rfl
    | some d =>
      rw [htti] at e4
      simp only [h1, decide_eq_true_eq]
      simp at e4
      rw [hc.now]; omega

/-! ### reference-side helpers -/

theorem get?_killIf (f : Nat → GEntry → Bool) (ents : List (Nat × GEntry)) (k : Nat) :
    AL.get? (killIf f ents) k =
      (AL.get? ents k).map (fun ge => if f k ge then { ge with alive := false } else ge) := by
  induction ents with
  | nil => rfl
  | cons a rest ih =>
    obtain ⟨k', ge⟩ := a
    simp only [killIf, AL.get?_cons]
    by_cases h : k' = k
    · subst h; simp
    · simp [h, ih]

/-- Killing reference entries keeps the coupling as long as every resident entry that is
killed is hidden by the watermark. -/
theorem coupledS_kill {p : Params} {s : SState} {g : Ghost} (hc : CoupledS p s g)
    (f : Nat → GEntry → Bool)
    (hf : ∀ k ve ge, AL.get? s.map k = some ve → AL.get? g.ents k = some ge → f k ge = true →
      ∃ v, s.va = some v ∧ (getInfo s ve.info).lm < v) :
    CoupledS p s { g with ents := killIf f g.ents } := by
  refine ⟨hc.kn, hc.now, hc.vaLe, ?_, hc.refsMap, hc.refsHits, ?_, ?_⟩
  · intro k ge h
    simp only [get?_killIf] at h
    cases h0 : AL.get? g.ents k with
    | none => simp [h0] at h
    | some ge0 =>
      simp [h0] at h
      have := hc.tLe k ge0 h0
      split at h <;> (subst h; exact this)
  · intro k ve h
    obtain ⟨ge, h1, h2, h3, h4, h5, h6⟩ := hc.ents k ve h
    by_cases hk : f k ge = true
    · refine ⟨{ ge with alive := false }, by simp [get?_killIf, h1, hk], h2, h3, h4, h5,
        Or.inr (hf k ve ge h h1 hk)⟩
    · refine ⟨ge, by simp [get?_killIf, h1, hk], h2, h3, h4, h5, h6⟩
  · intro hash ve ts h
    obtain ⟨ge, g1, g2⟩ := hc.hits hash ve ts h
    by_cases hk : f (getInfo s ve.info).key ge = true
    · exact ⟨{ ge with alive := false }, by simp [get?_killIf, g1, hk], g2⟩
    · exact ⟨ge, by simp [get?_killIf, g1, hk], g2⟩

/-- Recording an access of `k` in the reference. -/
theorem coupledS_touch {p : Params} {s : SState} {g : Ghost} (hc : CoupledS p s g) {k : Nat}
    {ge : GEntry} (hk : AL.get? g.ents k = some ge) :
    CoupledS p s { g with ents := AL.put g.ents k { ge with tAcc := g.now } } := by
  have hge := hc.tLe k ge hk
  refine ⟨hc.kn, hc.now, hc.vaLe, ?_, hc.refsMap, hc.refsHits, ?_, ?_⟩
  · intro k' ge' h
    simp only at h
    rw [AL.get?_put] at h
    by_cases e : k = k'
    · simp [e] at h; subst h; exact ⟨Nat.le_refl _, hge.2⟩
    · simp [e] at h; exact hc.tLe k' ge' h
  · intro k' ve h
    obtain ⟨ge', h1, h2, h3, h4, h5, h6⟩ := hc.ents k' ve h
    by_cases e : k = k'
    · subst e
      rw [hk] at h1; cases h1
      exact ⟨{ ge with tAcc := g.now }, by simp [AL.get?_put_self], h2, h3, h4,
        Nat.le_trans h5 hge.1, h6⟩
    · exact ⟨ge', by simp only; rw [AL.get?_put_ne _ e]; exact h1, h2, h3, h4, h5, h6⟩
  · intro hash ve ts h
    obtain ⟨ge', g1, g2⟩ := hc.hits hash ve ts h
    by_cases e : k = (getInfo s ve.info).key
    · rw [← e, hk] at g1; cases g1
      exact ⟨{ ge with tAcc := g.now }, by simp only; rw [← e, AL.get?_put_self],
        Nat.le_trans g2 hge.1⟩
    · exact ⟨ge', by simp only; rw [AL.get?_put_ne _ e]; exact g1, g2⟩

/-! ### get -/

theorem recordReadOp_miss {p : Params} (hq : NoQuirks p) {s : SState} {g : Ghost}
    (hc : CoupledS p s g) (h : UInt64) : CoupledS p (recordReadOp p s (.miss h)) g := by
  unfold recordReadOp
  dsimp only
  have h1 : Frame s (if shouldApply s s.readQ.length Gen.READ_LOG_FLUSH_POINT = true
      then trySync p s else s) := by
    split
    · exact trySync_frame hq s
    · exact Frame.refl s
  have hc1 := coupledS_frame hc h1
  generalize (if shouldApply s s.readQ.length Gen.READ_LOG_FLUSH_POINT = true
      then trySync p s else s) = s1 at hc1 ⊢
  split
  · refine ⟨hc1.kn, hc1.now, hc1.vaLe, hc1.tLe, hc1.refsMap, ?_, hc1.ents, ?_⟩
    · intro hash ve ts hin
      simp only [List.mem_append, List.mem_singleton] at hin
      rcases hin with hin | hin
      · exact hc1.refsHits hash ve ts hin
      · cases hin
    · intro hash ve ts hin
      simp only [List.mem_append, List.mem_singleton] at hin
      rcases hin with hin | hin
      · exact hc1.hits hash ve ts hin
      · cases hin
  · exact hc1

theorem recordReadOp_hit {p : Params} (hq : NoQuirks p) {s : SState} {g : Ghost}
    (hc : CoupledS p s g) {k : Nat} {ve : VE} (hk : AL.get? s.map k = some ve) (h : UInt64) :
    CoupledS p (recordReadOp p s (.hit h ve s.now))
      (ghostStep .sync g (.get k) (.val (some ve.val))) := by
  obtain ⟨ge, e1, e2, e3, e4, e5, e6⟩ := hc.ents k ve hk
  have hg : ghostStep .sync g (.get k) (.val (some ve.val)) =
      { g with ents := AL.put g.ents k { ge with tAcc := g.now } } := by
    simp [ghostStep, e1]
  rw [hg]
  unfold recordReadOp
  dsimp only
  have h1 : Frame s (if shouldApply s s.readQ.length Gen.READ_LOG_FLUSH_POINT = true
      then trySync p s else s) := by
    split
    · exact trySync_frame hq s
    · exact Frame.refl s
  have hc1 := coupledS_touch (coupledS_frame hc h1) e1
  have hkey := h1.key ve.info
  have hnow := h1.now
  have hnid := h1.nextId
  generalize (if shouldApply s s.readQ.length Gen.READ_LOG_FLUSH_POINT = true
      then trySync p s else s) = s1 at hc1 hkey hnow hnid ⊢
  split
  · refine ⟨hc1.kn, hc1.now, hc1.vaLe, hc1.tLe, hc1.refsMap, ?_, hc1.ents, ?_⟩
    · intro hash ve' ts hin
      simp only [List.mem_append, List.mem_singleton] at hin
      rcases hin with hin | hin
      · exact hc1.refsHits hash ve' ts hin
      · cases hin
        exact Nat.lt_of_lt_of_le (hc.refsMap k ve hk) hnid
    · intro hash ve' ts hin
      simp only [List.mem_append, List.mem_singleton] at hin
      rcases hin with hin | hin
      · exact hc1.hits hash ve' ts hin
      · cases hin
        refine ⟨{ ge with tAcc := g.now }, ?_, ?_⟩
        · show AL.get? (AL.put g.ents k { ge with tAcc := g.now }) (getInfo s1 ve.info).key = _
          rw [hkey, e3, AL.get?_put_self]
        · simp [hc.now]
  · exact hc1

theorem get_coupled {p : Params} (hq : NoQuirks p) {s : SState} {g : Ghost}
    (hc : CoupledS p s g) (k : Nat) :
    (yields (.get k) (.val (get p s k).2)).all (allChecks p g) = true ∧
    CoupledS p (get p s k).1 (ghostStep .sync g (.get k) (.val (get p s k).2)) := by
  unfold get
  dsimp only
  cases hk : AL.get? s.map k with
  | none =>
    exact ⟨by simp [yields], by simpa [ghostStep] using recordReadOp_miss hq hc _⟩
  | some ve =>
    dsimp only
    cases hx : isExpiredInfo p s (getInfo s ve.info) s.now with
    | true =>
      simp only [if_true]
      exact ⟨by simp [yields], by simpa [ghostStep] using recordReadOp_miss hq hc _⟩
    | false =>
      simp only [Bool.false_eq_true, if_false]
      refine ⟨?_, recordReadOp_hit hq hc hk _⟩
      simp only [yields, List.all_cons, List.all_nil, Bool.and_true]
      exact allChecks_of_entry hc hk hx _ (Or.inr rfl)

theorem containsKey_checks {p : Params} {s : SState} {g : Ghost} (hc : CoupledS p s g) (k : Nat) :
    (yields (.has k) (.bool (containsKey p s k))).all (allChecks p g) = true := by
  unfold containsKey
  cases hk : AL.get? s.map k with
  | none => simp [yields]
  | some ve =>
    dsimp only
    cases hx : isExpiredInfo p s (getInfo s ve.info) s.now with
    | true => simp [yields]
    | false =>
      simp only [Bool.not_false, yields, List.all_cons, List.all_nil, Bool.and_true]
      exact allChecks_of_entry hc hk hx _ (Or.inl rfl)

theorem iter_checks {p : Params} {s : SState} {g : Ghost} (hc : CoupledS p s g) :
    (yields .iter (.iter (sortBy (·.1) (iter p s)))).all (allChecks p g) = true := by
  simp only [yields, List.all_eq_true, List.mem_map]
  rintro ⟨k, ov⟩ ⟨⟨k', v⟩, hmem, heq⟩
  simp only [Prod.mk.injEq] at heq
  obtain ⟨rfl, rfl⟩ := heq
  rw [mem_sortBy] at hmem
  simp only [iter, List.mem_map, List.mem_filter] at hmem
  obtain ⟨⟨k2, ve⟩, ⟨hin, hne⟩, heq2⟩ := hmem
  simp only [Prod.mk.injEq] at heq2
  obtain ⟨rfl, rfl⟩ := heq2
  have hk := AL.get?_of_mem hc.kn hin
  exact allChecks_of_entry hc hk (by simpa using hne) _ (Or.inr rfl)

/-! ### invalidation, clock, sync -/

theorem invalidate_coupled {p : Params} (hq : NoQuirks p) {s : SState} {g : Ghost}
    (hc : CoupledS p s g) (k : Nat) :
    CoupledS p (invalidate p s k) (ghostStep .sync g (.inv k) .ok) := by
  have hg : ghostStep .sync g (.inv k) .ok = { g with ents := killIf (fun k' _ => k' == k) g.ents } := rfl
  rw [hg]
  unfold invalidate
  cases hk : AL.get? s.map k with
  | none =>
    dsimp only
    refine coupledS_kill hc _ ?_
    intro k' ve ge h _ hf
    have : k' = k := by simpa using hf
    rw [this, hk] at h; cases h
  | some ve =>
    dsimp only
    have h1 : Frame s (scheduleWriteOp p 3 { s with map := AL.erase s.map k } (.remove k ve)) :=
      (frame0_erase s k).toFrame.trans (scheduleWriteOp_frame hq 3 _ _)
    have hc1 := coupledS_frame hc h1
    refine coupledS_kill hc1 _ ?_
    intro k' ve' ge h _ hf
    have hkk : k' = k := by simpa using hf
    have := h1.mapSub hc.kn k' ve' h
    -- the key was erased before the frame; it cannot be in the final map
    have hsub : Frame { s with map := AL.erase s.map k }
        (scheduleWriteOp p 3 { s with map := AL.erase s.map k } (.remove k ve)) :=
      scheduleWriteOp_frame hq 3 _ _
    have h2 := hsub.mapSub (AL.nodup_erase k hc.kn) k' ve' h
    simp only at h2
    rw [hkk, AL.get?_erase_self k hc.kn] at h2
    cases h2

theorem invalidateAll_coupled {p : Params} {s : SState} {g : Ghost} (hc : CoupledS p s g) :
    CoupledS p (invalidateAll s) (ghostStep .sync g .invAll .ok) := by
  have hg : ghostStep .sync g .invAll .ok =
      { g with ents := killIf (fun _ ge => ge.tIns < g.now) g.ents } := rfl
  rw [hg]
  have hbase : CoupledS p (invalidateAll s) g := by
    refine ⟨hc.kn, hc.now, ?_, hc.tLe, hc.refsMap, hc.refsHits, ?_, hc.hits⟩
    · intro v hv
      simp only [invalidateAll, Option.some.injEq] at hv
      subst hv; exact Nat.le_refl _
    · intro k ve h
      obtain ⟨ge, h1, h2, h3, h4, h5, h6⟩ := hc.ents k ve h
      refine ⟨ge, h1, h2, h3, h4, h5, ?_⟩
      rcases h6 with h6 | ⟨v, hv, hlt⟩
      · exact Or.inl h6
      · exact Or.inr ⟨s.now, rfl, Nat.lt_of_lt_of_le hlt (hc.vaLe v hv)⟩
  refine coupledS_kill hbase _ ?_
  intro k ve ge h hge hf
  obtain ⟨ge', h1, _, _, h4, _, _⟩ := hc.ents k ve h
  rw [hge] at h1; cases h1
  refine ⟨s.now, rfl, ?_⟩
  have : ge.tIns < g.now := by simpa using hf
  show (getInfo s ve.info).lm < s.now
  rw [h4, ← hc.now]; exact this

theorem adv_coupled {p : Params} {s : SState} {g : Ghost} (hc : CoupledS p s g) (d : Nat) :
    CoupledS p { s with now := s.now + d } (ghostStep .sync g (.adv d) .ok) := by
  refine ⟨hc.kn, by simp [ghostStep, hc.now], ?_, ?_, hc.refsMap, hc.refsHits, hc.ents, hc.hits⟩
  · intro v hv; exact Nat.le_trans (hc.vaLe v hv) (Nat.le_add_right _ _)
  · intro k ge h
    have := hc.tLe k ge h
    simp only [ghostStep]
    exact ⟨Nat.le_trans this.1 (Nat.le_add_right _ _), Nat.le_trans this.2 (Nat.le_add_right _ _)⟩

/-! ### insert -/

def insertedG (g : Ghost) (k v : Nat) : Ghost :=
  { g with ents := AL.put g.ents k { val := v, tIns := g.now, tAcc := g.now, alive := true } }

theorem insert_coupled {p : Params} (hq : NoQuirks p) {s : SState} {g : Ghost}
    (hc : CoupledS p s g) (k v : Nat) :
    CoupledS p (insert p s k v) (ghostStep .sync g (.ins k v) .ok) := by
  have hd8 : p.q.d8 = false := by rw [hq]
  have hg : ghostStep .sync g (.ins k v) .ok = insertedG g k v := rfl
  rw [hg]
  -- the reference side after the insert
  have htLe : ∀ k' ge, AL.get? (insertedG g k v).ents k' = some ge →
      ge.tAcc ≤ (insertedG g k v).now ∧ ge.tIns ≤ (insertedG g k v).now := by
    intro k' ge h
    simp only [insertedG] at h ⊢
    rw [AL.get?_put] at h
    by_cases e : k = k'
    · simp [e] at h; subst h; exact ⟨Nat.le_refl _, Nat.le_refl _⟩
    · simp [e] at h; exact hc.tLe k' ge h
  -- hits keep a reference entry with a large enough access time
  have hhits : ∀ (key : Nat) (ts : Nat), (∃ ge, AL.get? g.ents key = some ge ∧ ts ≤ ge.tAcc) →
      ∃ ge, AL.get? (insertedG g k v).ents key = some ge ∧ ts ≤ ge.tAcc := by
    intro key ts ⟨ge, g1, g2⟩
    simp only [insertedG]
    by_cases e : k = key
    · subst e
      exact ⟨_, AL.get?_put_self _ _ _, Nat.le_trans g2 (hc.tLe _ ge g1).1⟩
    · exact ⟨ge, by rw [AL.get?_put_ne _ e]; exact g1, g2⟩
  unfold insert
  dsimp only
  cases hk : AL.get? s.map k with
  | some old =>
    dsimp only
    refine coupledS_frame ?_ (scheduleWriteOp_frame hq 3 _ _)
    obtain ⟨geo, o1, o2, o3, o4, o5, o6⟩ := hc.ents k old hk
    have hgi : ∀ j, (getInfo (refreshInfo p s old.info s.now (p.weigh k v)) j).key = (getInfo s j).key ∧
        (getInfo (refreshInfo p s old.info s.now (p.weigh k v)) j).lm =
          (if old.info = j then s.now else (getInfo s j).lm) ∧
        (getInfo (refreshInfo p s old.info s.now (p.weigh k v)) j).la =
          (if old.info = j then s.now else (getInfo s j).la) := by
      intro j
      unfold refreshInfo
      rw [getInfo_withInfo]
      by_cases e : old.info = j <;> simp [e]
    generalize hW : refreshInfo p s old.info s.now (p.weigh k v) = W at hgi ⊢
    have hWmap : W.map = s.map := by rw [← hW]; rfl
    have hWnext : W.nextId = s.nextId := by rw [← hW]; rfl
    have hWread : W.readQ = s.readQ := by rw [← hW]; rfl
    have hWva : W.va = s.va := by rw [← hW]; rfl
    have hWnow : W.now = s.now := by rw [← hW]; rfl
    refine ⟨by simp only; rw [hWmap]; exact AL.nodup_put k _ hc.kn, by simp only; rw [hWnow]; exact hc.now,
      by simp only; rw [hWva, hWnow]; exact hc.vaLe, htLe, ?_, ?_, ?_, ?_⟩
    · intro k' ve h
      simp only at h
      rw [hWmap, AL.get?_put] at h
      simp only; rw [hWnext]
      by_cases e : k = k'
      · simp [e] at h; subst h
        exact Nat.lt_succ_of_lt (hc.refsMap k old hk)
      · simp [e] at h; exact Nat.lt_succ_of_lt (hc.refsMap k' ve h)
    · intro hash ve ts h
      simp only at h ⊢
      rw [hWread] at h; rw [hWnext]
      exact Nat.lt_succ_of_lt (hc.refsHits hash ve ts h)
    · intro k' ve h
      simp only at h
      rw [hWmap, AL.get?_put] at h
      by_cases e : k = k'
      · simp [e] at h; subst h; subst e
        refine ⟨{ val := v, tIns := g.now, tAcc := g.now, alive := true },
          by simp [insertedG, AL.get?_put_self], rfl, ?_, ?_, ?_, Or.inl rfl⟩
        · show (getInfo W old.info).key = k
          rw [(hgi _).1]; exact o3
        · show (getInfo W old.info).lm = g.now
          rw [(hgi _).2.1]; simp [hc.now]
        · show (getInfo W old.info).la ≤ g.now
          rw [(hgi _).2.2]; simp [hc.now]
      · simp [e] at h
        obtain ⟨ge, h1, h2, h3, h4, h5, h6⟩ := hc.ents k' ve h
        have hne : old.info ≠ ve.info := by
          intro e2; rw [e2, h3] at o3; exact e o3.symm
        refine ⟨ge, by simp only [insertedG]; rw [AL.get?_put_ne _ e]; exact h1, h2, ?_, ?_, ?_, ?_⟩
        · show (getInfo W ve.info).key = k'
          rw [(hgi _).1]; exact h3
        · show (getInfo W ve.info).lm = ge.tIns
          rw [(hgi _).2.1]; simp [hne, h4]
        · show (getInfo W ve.info).la ≤ ge.tAcc
          rw [(hgi _).2.2]; simp [hne, h5]
        · rcases h6 with h6 | ⟨va, hva, hlt⟩
          · exact Or.inl h6
          · refine Or.inr ⟨va, by simp only; rw [hWva]; exact hva, ?_⟩
            show (getInfo W ve.info).lm < va
            rw [(hgi _).2.1]; simp [hne, hlt]
    · intro hash ve ts h
      simp only at h
      rw [hWread] at h
      have := hc.hits hash ve ts h
      have hkey : (getInfo W ve.info).key = (getInfo s ve.info).key := (hgi _).1
      show ∃ ge, AL.get? (insertedG g k v).ents (getInfo W ve.info).key = some ge ∧ ts ≤ ge.tAcc
      rw [hkey]
      exact hhits _ _ this
  | none =>
    dsimp only
    refine coupledS_frame ?_ (scheduleWriteOp_frame hq 3 _ _)
    have hgi : ∀ (inf : Info) (m : List (Nat × VE)) j, getInfo
        { s with nextId := s.nextId + 2, infos := AL.put s.infos s.nextId inf, map := m } j =
        if s.nextId = j then inf else getInfo s j := by
      intro inf m j
      simp only [getInfo, AL.get?_put]
      by_cases e : s.nextId = j <;> simp [e]
    refine ⟨AL.nodup_put k _ hc.kn, hc.now, hc.vaLe, htLe, ?_, ?_, ?_, ?_⟩
    · intro k' ve h
      simp only at h
      rw [AL.get?_put] at h
      by_cases e : k = k'
      · simp [e] at h; subst h; show s.nextId < s.nextId + 2; omega
      · simp [e] at h
        have := hc.refsMap k' ve h
        show ve.info < s.nextId + 2; omega
    · intro hash ve ts h
      have := hc.refsHits hash ve ts h
      show ve.info < s.nextId + 2; omega
    · intro k' ve h
      simp only at h
      rw [AL.get?_put] at h
      by_cases e : k = k'
      · simp [e] at h; subst h; subst e
        refine ⟨{ val := v, tIns := g.now, tAcc := g.now, alive := true },
          by simp [insertedG, AL.get?_put_self], rfl, ?_, ?_, ?_, Or.inl rfl⟩
        · rw [hgi]; simp
        · rw [hgi]; simp [hc.now]
        · rw [hgi]; simp [hc.now]
      · simp [e] at h
        obtain ⟨ge, h1, h2, h3, h4, h5, h6⟩ := hc.ents k' ve h
        have hne : s.nextId ≠ ve.info := Nat.ne_of_gt (hc.refsMap k' ve h)
        refine ⟨ge, by simp only [insertedG]; rw [AL.get?_put_ne _ e]; exact h1, h2, ?_, ?_, ?_, ?_⟩
        · rw [hgi]; simp [hne, h3]
        · rw [hgi]; simp [hne, h4]
        · rw [hgi]; simp [hne, h5]
        · rcases h6 with h6 | ⟨va, hva, hlt⟩
          · exact Or.inl h6
          · refine Or.inr ⟨va, hva, ?_⟩
            rw [hgi]; simp [hne, hlt]
    · intro hash ve ts h
      have hne : s.nextId ≠ ve.info := Nat.ne_of_gt (hc.refsHits hash ve ts h)
      have := hc.hits hash ve ts h
      rw [hgi]; simp only [hne, if_false]
      exact hhits _ _ this

/-! ### one step, then whole traces -/

theorem step_coupled {p : Params} (hq : NoQuirks p) {s : SState} {g : Ghost}
    (hc : CoupledS p s g) (op : Op) :
    stops (step p s op).2 = true ∨
    ((yields op (step p s op).2).all (allChecks p g) = true ∧
     CoupledS p (step p s op).1 (ghostStep .sync g op (step p s op).2)) := by
  unfold step
  by_cases hf : s.fault.isSome = true
  · left; simp [hf, stops]
  · simp only [hf]
    -- the result of the operation proper
    have key : ∀ (r : SState × Obs),
        (stops r.2 = true ∨
          ((yields op r.2).all (allChecks p g) = true ∧ CoupledS p r.1 (ghostStep .sync g op r.2))) →
        stops (match r.1.fault with
          | some f => (r.1, Obs.panic f)
          | none => r).2 = true ∨
        ((yields op (match r.1.fault with
          | some f => (r.1, Obs.panic f)
          | none => r).2).all (allChecks p g) = true ∧
         CoupledS p (match r.1.fault with
          | some f => (r.1, Obs.panic f)
          | none => r).1 (ghostStep .sync g op (match r.1.fault with
          | some f => (r.1, Obs.panic f)
          | none => r).2)) := by
      intro r hr
      cases hfl : r.1.fault with
      | some f => left; simp [stops]
      | none => simpa using hr
    apply key
    cases op with
    | ins k v => exact Or.inr ⟨by simp [yields], insert_coupled hq hc k v⟩
    | get k => exact Or.inr (get_coupled hq hc k)
    | has k => exact Or.inr ⟨containsKey_checks hc k, by simpa [ghostStep] using hc⟩
    | iter => exact Or.inr ⟨iter_checks hc, by simpa [ghostStep] using hc⟩
    | inv k => exact Or.inr ⟨by simp [yields], invalidate_coupled hq hc k⟩
    | invAll => exact Or.inr ⟨by simp [yields], invalidateAll_coupled hc⟩
    | invIf pr => exact Or.inl rfl
    | sync =>
      exact Or.inr ⟨by simp [yields],
        by simpa [ghostStep] using coupledS_frame hc (syncRun_frame hq s)⟩
    | adv d => exact Or.inr ⟨by simp [yields], adv_coupled hc d⟩
    | snap => exact Or.inr ⟨by simp [yields], by simpa [ghostStep] using hc⟩
    | freq k => exact Or.inr ⟨by simp [yields], by simpa [ghostStep] using hc⟩

theorem lookupOracle_of_coupled {p : Params} (hq : NoQuirks p)
    (check : Ghost → Nat × Option Nat → Bool)
    (himp : ∀ g kv, allChecks p g kv = true → check g kv = true) :
    ∀ (h : List Op) (s : SState) (g : Ghost), CoupledS p s g →
      lookupOracle .sync check g (run p s h) = true := by
  intro h
  induction h with
  | nil => intro s g _; rfl
  | cons op rest ih =>
    intro s g hc
    simp only [run, lookupOracle]
    rcases step_coupled hq hc op with hstop | ⟨h1, h2⟩
    · simp [hstop]
    · split
      · rfl
      · simp only [Bool.and_eq_true]
        refine ⟨?_, ih _ _ h2⟩
        rw [List.all_eq_true] at h1 ⊢
        exact fun kv hkv => himp g kv (h1 kv hkv)

theorem init_coupled (p : Params) : CoupledS p {} {} := by
  refine ⟨by simp, rfl, ?_, ?_, ?_, ?_, ?_, ?_⟩ <;> simp

end Sync
end MiniMoka
