/-
  The interface the cache models need from the sketch (`SketchLaws`), discharged with the
  invariants proved in `Lemmas/Sketch.lean`.
-/
import MiniMoka.Lemmas.Sketch
import MiniMoka.Lemmas.UnsyncOps

namespace MiniMoka
namespace Sketch

/-- A sketch in good standing: well-formed, and either still empty or satisfying the counter
invariant with a table below 2^28 words. -/
def Good (s : Sketch) : Prop :=
  WF s ∧ (s.table.size = 0 ∨ (CInv s ∧ s.table.size < 2 ^ 28))

theorem good_default : Good {} := ⟨wf_default, Or.inl rfl⟩

theorem good_init {cap : Nat} (hcap : cap ≤ 2 ^ 27) : Good (init cap) :=
  ⟨wf_init cap, Or.inr ⟨cinv_init cap, init_small hcap⟩⟩

theorem good_increment {s : Sketch} (hg : Good s) (h : UInt64) :
    ∃ s', s.increment false h = .ok s' ∧ Good s' := by
  obtain ⟨hwf, hrest⟩ := hg
  rcases hrest with h0 | ⟨hc, hsmall⟩
  · exact ⟨s, increment_of_incrStep (incrStep_empty h h0), hwf, Or.inl h0⟩
  · by_cases hne : s.table.size = 0
    · exact ⟨s, increment_of_incrStep (incrStep_empty h hne), hwf, Or.inl hne⟩
    · obtain ⟨s', r, hstep⟩ := step_ok hwf hne hc hsmall h
      refine ⟨s', increment_of_incrStep hstep, wf_step hwf hstep, Or.inr ⟨cinv_step hwf hne hc hstep, ?_⟩⟩
      rw [(step_frame hstep).2.2]; exact hsmall

theorem increment_default (h : UInt64) : ({} : Sketch).increment false h = .ok {} :=
  increment_of_incrStep (incrStep_empty h rfl)

end Sketch

/-- The sketch laws hold for `Sketch.Good`. -/
theorem sketchLaws : SketchLaws Sketch.Good where
  init := Sketch.good_default
  ensure := fun _ hcap => Sketch.good_init hcap
  incr := fun _ h hg => Sketch.good_increment hg h
  incrDefault := Sketch.increment_default

end MiniMoka
