/-
  Lemmas about the node lists of the unsync model (lookup / erase / retime / move by
  node id).  The write-order versions are generated from the access-order ones by
  renaming.
-/
import MiniMoka.Unsync
import MiniMoka.Lemmas.AL

namespace MiniMoka
namespace Unsync

theorem findAo_some {l : List AoNode} {id : Nat} {n : AoNode} (h : findAo l id = some n) :
    n ∈ l ∧ n.id = id := by
  induction l with
  | nil => simp [findAo] at h
  | cons a l ih =>
    simp only [findAo] at h
    by_cases ha : a.id = id
    · simp [ha] at h; subst h; exact ⟨List.mem_cons_self, ha⟩
    · simp [ha] at h; exact ⟨List.mem_cons_of_mem _ (ih h).1, (ih h).2⟩

theorem findAo_none {l : List AoNode} {id : Nat} (h : findAo l id = none) :
    ∀ n ∈ l, n.id ≠ id := by
  induction l with
  | nil => simp
  | cons a l ih =>
    simp only [findAo] at h
    by_cases ha : a.id = id
    · simp [ha] at h
    · simp [ha] at h
      intro n hn
      rcases List.mem_cons.mp hn with hn | hn
      · subst hn; exact ha
      · exact ih h n hn

theorem findAo_of_mem {l : List AoNode} {n : AoNode} (hn : (l.map (·.id)).Nodup) (h : n ∈ l) :
    findAo l n.id = some n := by
  induction l with
  | nil => simp at h
  | cons a l ih =>
    simp only [List.map_cons, List.nodup_cons] at hn
    simp only [findAo]
    rcases List.mem_cons.mp h with h | h
    · subst h; simp
    · have : a.id ≠ n.id := fun e => hn.1 (e ▸ List.mem_map.mpr ⟨n, h, rfl⟩)
      simp [this, ih hn.2 h]

theorem mem_eraseAo {l : List AoNode} {id : Nat} {n : AoNode} (h : n ∈ eraseAo l id) : n ∈ l := by
  induction l with
  | nil => simp [eraseAo] at h
  | cons a l ih =>
    simp only [eraseAo] at h
    by_cases ha : a.id = id
    · simp [ha] at h; exact List.mem_cons_of_mem _ h
    · simp [ha] at h
      rcases h with h | h
      · subst h; exact List.mem_cons_self
      · exact List.mem_cons_of_mem _ (ih h)

theorem mem_eraseAo_of_ne {l : List AoNode} {id : Nat} {n : AoNode} (h : n ∈ l) (hne : n.id ≠ id) :
    n ∈ eraseAo l id := by
  induction l with
  | nil => simp at h
  | cons a l ih =>
    simp only [eraseAo]
    rcases List.mem_cons.mp h with h | h
    · subst h; simp [hne]
    · by_cases ha : a.id = id
      · simp [ha, h]
      · simp [ha, ih h]

theorem ids_eraseAo_sublist (l : List AoNode) (id : Nat) :
    ((eraseAo l id).map (·.id)).Sublist (l.map (·.id)) := by
  induction l with
  | nil => simp [eraseAo]
  | cons a l ih =>
    simp only [eraseAo]
    by_cases ha : a.id = id
    · simp [ha]
    · simp [ha]; exact ih

theorem nodup_eraseAo {l : List AoNode} (id : Nat) (h : (l.map (·.id)).Nodup) :
    ((eraseAo l id).map (·.id)).Nodup :=
  List.Nodup.sublist (ids_eraseAo_sublist l id) h

theorem not_mem_eraseAo_self {l : List AoNode} {id : Nat} {n : AoNode}
    (hn : (l.map (·.id)).Nodup) (h : n ∈ eraseAo l id) : n.id ≠ id := by
  induction l with
  | nil => simp [eraseAo] at h
  | cons a l ih =>
    simp only [List.map_cons, List.nodup_cons] at hn
    simp only [eraseAo] at h
    by_cases ha : a.id = id
    · simp [ha] at h
      intro e
      exact hn.1 (ha ▸ e ▸ List.mem_map.mpr ⟨n, h, rfl⟩)
    · simp [ha] at h
      rcases h with h | h
      · subst h; exact ha
      · exact ih hn.2 h

theorem findAo_eraseAo_ne {l : List AoNode} {id id' : Nat} (h : id ≠ id') :
    findAo (eraseAo l id') id = findAo l id := by
  induction l with
  | nil => simp [eraseAo]
  | cons a l ih =>
    simp only [eraseAo]
    by_cases ha : a.id = id'
    · have : a.id ≠ id := fun e => h (e ▸ ha)
      simp [ha, findAo, ha ▸ this]
    · simp only [ha, if_false, findAo, ih]

theorem length_eraseAo {l : List AoNode} {id : Nat} {n : AoNode} (h : findAo l id = some n) :
    (eraseAo l id).length + 1 = l.length := by
  induction l with
  | nil => simp [findAo] at h
  | cons a l ih =>
    simp only [findAo] at h
    simp only [eraseAo]
    by_cases ha : a.id = id
    · simp [ha]
    · simp [ha] at h; simp [ha, ih h]

theorem findAo_append (l1 l2 : List AoNode) (id : Nat) :
    findAo (l1 ++ l2) id = (findAo l1 id).orElse (fun _ => findAo l2 id) := by
  induction l1 with
  | nil => simp [findAo]
  | cons a l ih =>
    simp only [List.cons_append, findAo]
    by_cases ha : a.id = id
    · simp [ha]
    · simp [ha, ih]

theorem findAo_eraseAo_self {l : List AoNode} (id : Nat) (hn : (l.map (·.id)).Nodup) :
    findAo (eraseAo l id) id = none := by
  cases h : findAo (eraseAo l id) id with
  | none => rfl
  | some n =>
    have := findAo_some h
    exact absurd this.2 (not_mem_eraseAo_self hn this.1)

theorem ids_setTsAo (l : List AoNode) (id t : Nat) :
    (setTsAo l id t).map (·.id) = l.map (·.id) := by
  induction l with
  | nil => rfl
  | cons a l ih =>
    simp only [setTsAo]
    by_cases ha : a.id = id
    · simp [ha]
    · simp [ha, ih]

theorem findAo_setTsAo (l : List AoNode) (id t id' : Nat) :
    findAo (setTsAo l id t) id' =
      if id' = id then (findAo l id').map (fun n => { n with ts := some t }) else findAo l id' := by
  induction l with
  | nil => simp [setTsAo, findAo]
  | cons a l ih =>
    simp only [setTsAo]
    by_cases ha : a.id = id
    · simp only [ha, if_true, findAo]
      by_cases h2 : id = id'
      · subst h2; simp [ha]
      · have h3 : ¬ id' = id := fun e => h2 e.symm
        simp [h2, h3]
    · simp only [ha, if_false, findAo]
      by_cases h2 : a.id = id'
      · have h3 : ¬ id' = id := fun e => ha (h2.trans e)
        simp [h2, h3]
      · simp [h2, ih]

theorem moveToBackAo_eq {l : List AoNode} {id : Nat} {n : AoNode} (h : findAo l id = some n) :
    moveToBackAo l id = eraseAo l id ++ [n] := by
  simp [moveToBackAo, h]

theorem nodup_moveToBackAo {l : List AoNode} (id : Nat) (hn : (l.map (·.id)).Nodup) :
    ((moveToBackAo l id).map (·.id)).Nodup := by
  cases h : findAo l id with
  | none => simpa [moveToBackAo, h] using hn
  | some n =>
    rw [moveToBackAo_eq h]
    have hid := (findAo_some h).2
    simp only [List.map_append, List.map_cons, List.map_nil]
    refine List.nodup_append.mpr ⟨nodup_eraseAo id hn, by simp, ?_⟩
    intro a ha b hb
    simp at hb
    subst hb
    obtain ⟨m, hm, rfl⟩ := List.mem_map.mp ha
    rw [hid]
    exact not_mem_eraseAo_self hn hm

theorem findAo_moveToBackAo {l : List AoNode} (id id' : Nat) (hn : (l.map (·.id)).Nodup) :
    findAo (moveToBackAo l id) id' = findAo l id' := by
  cases h : findAo l id with
  | none => simp [moveToBackAo, h]
  | some n =>
    rw [moveToBackAo_eq h, findAo_append]
    have hid := (findAo_some h).2
    by_cases e : id' = id
    · subst e
      rw [findAo_eraseAo_self id' hn]
      simp [findAo, hid, h]
    · rw [findAo_eraseAo_ne e]
      cases h2 : findAo l id' with
      | some m => simp
      | none =>
        have : ¬ n.id = id' := fun e' => e (e'.symm.trans hid)
        simp [findAo, this]

theorem mem_iff_findAo {l : List AoNode} {n : AoNode} (hn : (l.map (·.id)).Nodup) :
    n ∈ l ↔ findAo l n.id = some n :=
  ⟨findAo_of_mem hn, fun h => (findAo_some h).1⟩

theorem findWo_some {l : List WoNode} {id : Nat} {n : WoNode} (h : findWo l id = some n) :
    n ∈ l ∧ n.id = id := by
  induction l with
  | nil => simp [findWo] at h
  | cons a l ih =>
    simp only [findWo] at h
    by_cases ha : a.id = id
    · simp [ha] at h; subst h; exact ⟨List.mem_cons_self, ha⟩
    · simp [ha] at h; exact ⟨List.mem_cons_of_mem _ (ih h).1, (ih h).2⟩

theorem findWo_none {l : List WoNode} {id : Nat} (h : findWo l id = none) :
    ∀ n ∈ l, n.id ≠ id := by
  induction l with
  | nil => simp
  | cons a l ih =>
    simp only [findWo] at h
    by_cases ha : a.id = id
    · simp [ha] at h
    · simp [ha] at h
      intro n hn
      rcases List.mem_cons.mp hn with hn | hn
      · subst hn; exact ha
      · exact ih h n hn

theorem findWo_of_mem {l : List WoNode} {n : WoNode} (hn : (l.map (·.id)).Nodup) (h : n ∈ l) :
    findWo l n.id = some n := by
  induction l with
  | nil => simp at h
  | cons a l ih =>
    simp only [List.map_cons, List.nodup_cons] at hn
    simp only [findWo]
    rcases List.mem_cons.mp h with h | h
    · subst h; simp
    · have : a.id ≠ n.id := fun e => hn.1 (e ▸ List.mem_map.mpr ⟨n, h, rfl⟩)
      simp [this, ih hn.2 h]

theorem mem_eraseWo {l : List WoNode} {id : Nat} {n : WoNode} (h : n ∈ eraseWo l id) : n ∈ l := by
  induction l with
  | nil => simp [eraseWo] at h
  | cons a l ih =>
    simp only [eraseWo] at h
    by_cases ha : a.id = id
    · simp [ha] at h; exact List.mem_cons_of_mem _ h
    · simp [ha] at h
      rcases h with h | h
      · subst h; exact List.mem_cons_self
      · exact List.mem_cons_of_mem _ (ih h)

theorem mem_eraseWo_of_ne {l : List WoNode} {id : Nat} {n : WoNode} (h : n ∈ l) (hne : n.id ≠ id) :
    n ∈ eraseWo l id := by
  induction l with
  | nil => simp at h
  | cons a l ih =>
    simp only [eraseWo]
    rcases List.mem_cons.mp h with h | h
    · subst h; simp [hne]
    · by_cases ha : a.id = id
      · simp [ha, h]
      · simp [ha, ih h]

theorem ids_eraseWo_sublist (l : List WoNode) (id : Nat) :
    ((eraseWo l id).map (·.id)).Sublist (l.map (·.id)) := by
  induction l with
  | nil => simp [eraseWo]
  | cons a l ih =>
    simp only [eraseWo]
    by_cases ha : a.id = id
    · simp [ha]
    · simp [ha]; exact ih

theorem nodup_eraseWo {l : List WoNode} (id : Nat) (h : (l.map (·.id)).Nodup) :
    ((eraseWo l id).map (·.id)).Nodup :=
  List.Nodup.sublist (ids_eraseWo_sublist l id) h

theorem not_mem_eraseWo_self {l : List WoNode} {id : Nat} {n : WoNode}
    (hn : (l.map (·.id)).Nodup) (h : n ∈ eraseWo l id) : n.id ≠ id := by
  induction l with
  | nil => simp [eraseWo] at h
  | cons a l ih =>
    simp only [List.map_cons, List.nodup_cons] at hn
    simp only [eraseWo] at h
    by_cases ha : a.id = id
    · simp [ha] at h
      intro e
      exact hn.1 (ha ▸ e ▸ List.mem_map.mpr ⟨n, h, rfl⟩)
    · simp [ha] at h
      rcases h with h | h
      · subst h; exact ha
      · exact ih hn.2 h

theorem findWo_eraseWo_ne {l : List WoNode} {id id' : Nat} (h : id ≠ id') :
    findWo (eraseWo l id') id = findWo l id := by
  induction l with
  | nil => simp [eraseWo]
  | cons a l ih =>
    simp only [eraseWo]
    by_cases ha : a.id = id'
    · have : a.id ≠ id := fun e => h (e ▸ ha)
      simp [ha, findWo, ha ▸ this]
    · simp only [ha, if_false, findWo, ih]

theorem length_eraseWo {l : List WoNode} {id : Nat} {n : WoNode} (h : findWo l id = some n) :
    (eraseWo l id).length + 1 = l.length := by
  induction l with
  | nil => simp [findWo] at h
  | cons a l ih =>
    simp only [findWo] at h
    simp only [eraseWo]
    by_cases ha : a.id = id
    · simp [ha]
    · simp [ha] at h; simp [ha, ih h]

theorem findWo_append (l1 l2 : List WoNode) (id : Nat) :
    findWo (l1 ++ l2) id = (findWo l1 id).orElse (fun _ => findWo l2 id) := by
  induction l1 with
  | nil => simp [findWo]
  | cons a l ih =>
    simp only [List.cons_append, findWo]
    by_cases ha : a.id = id
    · simp [ha]
    · simp [ha, ih]

theorem findWo_eraseWo_self {l : List WoNode} (id : Nat) (hn : (l.map (·.id)).Nodup) :
    findWo (eraseWo l id) id = none := by
  cases h : findWo (eraseWo l id) id with
  | none => rfl
  | some n =>
    have := findWo_some h
    exact absurd this.2 (not_mem_eraseWo_self hn this.1)

theorem ids_setTsWo (l : List WoNode) (id t : Nat) :
    (setTsWo l id t).map (·.id) = l.map (·.id) := by
  induction l with
  | nil => rfl
  | cons a l ih =>
    simp only [setTsWo]
    by_cases ha : a.id = id
    · simp [ha]
    · simp [ha, ih]

theorem findWo_setTsWo (l : List WoNode) (id t id' : Nat) :
    findWo (setTsWo l id t) id' =
      if id' = id then (findWo l id').map (fun n => { n with ts := some t }) else findWo l id' := by
  induction l with
  | nil => simp [setTsWo, findWo]
  | cons a l ih =>
    simp only [setTsWo]
    by_cases ha : a.id = id
    · simp only [ha, if_true, findWo]
      by_cases h2 : id = id'
      · subst h2; simp [ha]
      · have h3 : ¬ id' = id := fun e => h2 e.symm
        simp [h2, h3]
    · simp only [ha, if_false, findWo]
      by_cases h2 : a.id = id'
      · have h3 : ¬ id' = id := fun e => ha (h2.trans e)
        simp [h2, h3]
      · simp [h2, ih]

theorem moveToBackWo_eq {l : List WoNode} {id : Nat} {n : WoNode} (h : findWo l id = some n) :
    moveToBackWo l id = eraseWo l id ++ [n] := by
  simp [moveToBackWo, h]

theorem nodup_moveToBackWo {l : List WoNode} (id : Nat) (hn : (l.map (·.id)).Nodup) :
    ((moveToBackWo l id).map (·.id)).Nodup := by
  cases h : findWo l id with
  | none => simpa [moveToBackWo, h] using hn
  | some n =>
    rw [moveToBackWo_eq h]
    have hid := (findWo_some h).2
    simp only [List.map_append, List.map_cons, List.map_nil]
    refine List.nodup_append.mpr ⟨nodup_eraseWo id hn, by simp, ?_⟩
    intro a ha b hb
    simp at hb
    subst hb
    obtain ⟨m, hm, rfl⟩ := List.mem_map.mp ha
    rw [hid]
    exact not_mem_eraseWo_self hn hm

theorem findWo_moveToBackWo {l : List WoNode} (id id' : Nat) (hn : (l.map (·.id)).Nodup) :
    findWo (moveToBackWo l id) id' = findWo l id' := by
  cases h : findWo l id with
  | none => simp [moveToBackWo, h]
  | some n =>
    rw [moveToBackWo_eq h, findWo_append]
    have hid := (findWo_some h).2
    by_cases e : id' = id
    · subst e
      rw [findWo_eraseWo_self id' hn]
      simp [findWo, hid, h]
    · rw [findWo_eraseWo_ne e]
      cases h2 : findWo l id' with
      | some m => simp
      | none =>
        have : ¬ n.id = id' := fun e' => e (e'.symm.trans hid)
        simp [findWo, this]

theorem mem_iff_findWo {l : List WoNode} {n : WoNode} (hn : (l.map (·.id)).Nodup) :
    n ∈ l ↔ findWo l n.id = some n :=
  ⟨findWo_of_mem hn, fun h => (findWo_some h).1⟩

end Unsync
end MiniMoka
