/-
  Keys of the concurrent cache's map stay pairwise distinct along every history
  (independently of faults), and the resulting exactness of iteration.
-/
import MiniMoka.Lemmas.SyncLookup

namespace MiniMoka
namespace Sync

def KN (s : SState) : Prop := (AL.keys s.map).Nodup

theorem recordReadOp_kn {p : Params} (hq : NoQuirks p) {s : SState} (h : KN s) (op : ROp) :
    KN (recordReadOp p s op) := by
  unfold recordReadOp
  dsimp only
  have h1 : KN (if shouldApply s s.readQ.length Gen.READ_LOG_FLUSH_POINT = true
      then trySync p s else s) := by
    split
    · exact (trySync_frame hq s).kn h
    · exact h
  generalize (if shouldApply s s.readQ.length Gen.READ_LOG_FLUSH_POINT = true
      then trySync p s else s) = s1 at h1 ⊢
  split
  · exact h1
  · exact h1

theorem kn_step {p : Params} (hq : NoQuirks p) {s : SState} (h : KN s) (op : Op) :
    KN (step p s op).1 := by
  unfold step
  split
  · exact h
  · have key : ∀ (r : SState × Obs), KN r.1 → KN (match r.1.fault with
        | some f => (r.1, Obs.panic f)
        | none => r).1 := by
      intro r hr; split <;> exact hr
    apply key
    cases op with
    | ins k v =>
      show KN (insert p s k v)
      unfold insert
      dsimp only
      split
      · exact (scheduleWriteOp_frame hq 3 _ _).kn (by
          show (AL.keys (AL.put (refreshInfo p s _ s.now _).map k _)).Nodup
          exact AL.nodup_put k _ h)
      · exact (scheduleWriteOp_frame hq 3 _ _).kn (AL.nodup_put k _ h)
    | get k =>
      show KN (get p s k).1
      unfold get
      dsimp only
      split
      · exact recordReadOp_kn hq h _
      · split
        · exact recordReadOp_kn hq h _
        · exact recordReadOp_kn hq h _
    | has k => exact h
    | iter => exact h
    | inv k =>
      show KN (invalidate p s k)
      unfold invalidate
      split
      · exact h
      · exact (scheduleWriteOp_frame hq 3 _ _).kn (AL.nodup_erase k h)
    | invAll => exact h
    | invIf pr => exact h
    | sync => exact (syncRun_frame hq s).kn h
    | adv d => exact h
    | snap => exact h
    | freq k => exact h

def runState (p : Params) : SState → List Op → SState
  | s, [] => s
  | s, op :: rest => runState p (step p s op).1 rest

theorem kn_run {p : Params} (hq : NoQuirks p) (h : List Op) : ∀ {s : SState}, KN s → KN (runState p s h) := by
  induction h with
  | nil => intro s hs; exact hs
  | cons op rest ih => intro s hs; exact ih (kn_step hq hs op)

end Sync
end MiniMoka
