/-
  Counters and object identities of the sequential sync model (`MiniMoka/Sync.lean`).

  `CInv p s Q` relates the map, the entry infos, the two node lists and a *logical* write
  queue `Q` (the operations that have been decided but not applied yet: the physical queue
  plus, inside the maintenance run that `insert` / `invalidate` perform between their map
  step and the queuing of their own operation, that operation):

   * every node of the access-order list belongs to an info that is either the info of the
     map's current entry of its key or awaits a queued `remove`;
   * every map entry either awaits a queued `upsert` *of this very value entry* or is admitted
     with policy weight `weigh key value`;
   * the run-local weighted size is the sum of the policy weights of the admitted infos;
   * value entries of the map have distinct identities and key objects, and list nodes hold
     the key object of the entry that owns them;
   * a dirty entry of the map awaits a queued `upsert`.

  With both queues empty this gives `entry_count = |map|`, `weighted_size = Σ weights =
  Σ weigh key value`, and as many live key / value objects as entries (`quiescent`,
  `map_ids_nodup`, `map_length_le`).  With nothing pending, every iteration of the LRU eviction
  loop evicts the head of the access-order list, so after `Inner::sync` the weighted size is
  within the capacity unless a full batch has been evicted (`syncRun_weight`).

  Layout: `Same` (steps that change nothing the invariant reads), `CInv` and its general
  preservation lemma `CInv.step`, the three primitives `handle_remove` / `handle_admit` /
  update (`handleRemove_spec`, `handleAdmit_cinv`, `applyUpdate_cinv`), then one `_g` lemma per
  function of the write and eviction paths over `G` (`Safe ∧ MapOK ∧ CInv`, reusing the
  `_safe` lemmas of `SyncNodes.lean`), the maintenance run (`syncLoop_g`, `syncRun_ctop`),
  the public API over `TInv` (`step_t`), and at the end the corrected capacity oracle
  `Spec.boundC04Sync` / `Spec.oracleC04` with its proof `boundC04SyncGo_run`.
-/
import MiniMoka.Lemmas.SyncNodes
import MiniMoka.Lemmas.SyncQueues
import MiniMoka.Lemmas.Sort
import MiniMoka.Lemmas.SketchLaws
import MiniMoka.Spec.Oracles

namespace MiniMoka
namespace Sync
namespace Counters

open Nodes

/-! ### small facts about lists -/

theorem mem_eraseAo_sub {l : List AoNode} {id : Nat} {m : AoNode} (h : m ∈ eraseAo l id) :
    m ∈ l := by
  induction l with
  | nil => simp [eraseAo] at h
  | cons a l ih =>
    simp only [eraseAo] at h
    by_cases ha : a.id = id
    · rw [if_pos ha] at h; exact List.mem_cons_of_mem _ h
    · rw [if_neg ha] at h
      rcases List.mem_cons.mp h with h | h
      · rw [h]; exact List.mem_cons_self
      · exact List.mem_cons_of_mem _ (ih h)

theorem mem_eraseWo_sub {l : List WoNode} {id : Nat} {m : WoNode} (h : m ∈ eraseWo l id) :
    m ∈ l := by
  induction l with
  | nil => simp [eraseWo] at h
  | cons a l ih =>
    simp only [eraseWo] at h
    by_cases ha : a.id = id
    · rw [if_pos ha] at h; exact List.mem_cons_of_mem _ h
    · rw [if_neg ha] at h
      rcases List.mem_cons.mp h with h | h
      · rw [h]; exact List.mem_cons_self
      · exact List.mem_cons_of_mem _ (ih h)

/-- A duplicate-free list whose elements all occur in `l` is at most as long as `l`. -/
theorem nodup_length_le {α : Type} [DecidableEq α] : ∀ (a l : List α), a.Nodup →
    (∀ x, x ∈ a → x ∈ l) → a.length ≤ l.length := by
  intro a
  induction a with
  | nil => intro l _ _; exact Nat.zero_le _
  | cons x a ih =>
    intro l hn hs
    simp only [List.nodup_cons] at hn
    have hx : x ∈ l := hs x List.mem_cons_self
    have := ih (l.erase x) hn.2 (fun y hy => by
      have hne : y ≠ x := fun e => hn.1 (e ▸ hy)
      exact (List.mem_erase_of_ne hne).mpr (hs y (List.mem_cons_of_mem _ hy)))
    rw [List.length_erase_of_mem hx] at this
    have hpos : 0 < l.length := List.length_pos_of_mem hx
    simp only [List.length_cons]
    omega

/-! ### the weighted size -/

/-- Σ of the policy weights of the infos that own an access-order node. -/
def wsumOf (s : SState) : Nat := (s.prob.map fun n => (getInfo s n.info).weight).sum

theorem wsumOf_congr {s s' : SState} (hp : s'.prob.Perm s.prob)
    (hw : ∀ n, n ∈ s.prob → (getInfo s' n.info).weight = (getInfo s n.info).weight) :
    wsumOf s' = wsumOf s := by
  unfold wsumOf
  rw [(hp.map _).sum_nat]
  congr 1
  exact List.map_congr_left hw

/-! ### states that differ in nothing the counters depend on -/

/-- Same map, same key / policy weight / admission flag of every info, the node lists
permuted, same local weighted size. -/
structure Same (s s' : SState) : Prop where
  map : s'.map = s.map
  nextId : s'.nextId = s.nextId
  key : ∀ j, (getInfo s' j).key = (getInfo s j).key
  weight : ∀ j, (getInfo s' j).weight = (getInfo s j).weight
  adm : ∀ j, (getInfo s' j).admitted = (getInfo s j).admitted
  dirty : ∀ j, (getInfo s' j).dirty = true → (getInfo s j).dirty = true
  prob : s'.prob.Perm s.prob
  wo : s'.wo.Perm s.wo
  cws : s'.cws = s.cws

theorem Same.refl (s : SState) : Same s s :=
  ⟨rfl, rfl, fun _ => rfl, fun _ => rfl, fun _ => rfl, fun _ h => h, List.Perm.refl _,
   List.Perm.refl _, rfl⟩

theorem Same.trans {a b c : SState} (h1 : Same a b) (h2 : Same b c) : Same a c :=
  ⟨h2.map.trans h1.map, h2.nextId.trans h1.nextId, fun j => (h2.key j).trans (h1.key j),
   fun j => (h2.weight j).trans (h1.weight j), fun j => (h2.adm j).trans (h1.adm j),
   fun j h => h1.dirty j (h2.dirty j h),
   h2.prob.trans h1.prob, h2.wo.trans h1.wo, h2.cws.trans h1.cws⟩

theorem dirty_false_of {a b : Bool} (h : a = true → b = true) (hb : b = false) : a = false := by
  cases a with
  | false => rfl
  | true => rw [h rfl] at hb; cases hb

theorem same_of_eq {s s' : SState} (hm : s'.map = s.map) (hi : s'.infos = s.infos)
    (hp : s'.prob = s.prob) (hw : s'.wo = s.wo) (hc : s'.cws = s.cws)
    (hn : s'.nextId = s.nextId) : Same s s' := by
  have hg : ∀ j, getInfo s' j = getInfo s j := getInfo_congr hi
  exact ⟨hm, hn, fun j => by rw [hg], fun j => by rw [hg], fun j => by rw [hg],
    fun j h => by rw [hg] at h; exact h, by rw [hp], by rw [hw], hc⟩

theorem same_fail (s : SState) (f : Fault) : Same s (s.fail f) := by
  unfold SState.fail; split
  · exact Same.refl s
  · exact same_of_eq rfl rfl rfl rfl rfl rfl

theorem same_withInfo (s : SState) (i : Nat) (f : Info → Info)
    (hf : ∀ x, (f x).key = x.key ∧ (f x).weight = x.weight ∧ (f x).admitted = x.admitted ∧
      ((f x).dirty = true → x.dirty = true) := by
      intro x; exact ⟨rfl, rfl, rfl, id⟩) :
    Same s (withInfo s i f) := by
  refine ⟨rfl, rfl, ?_, ?_, ?_, ?_, List.Perm.refl _, List.Perm.refl _, rfl⟩ <;> intro j <;>
    rw [getInfo_withInfo] <;> by_cases h : i = j
  · rw [if_pos h, ← h]; exact (hf _).1
  · rw [if_neg h]
  · rw [if_pos h, ← h]; exact (hf _).2.1
  · rw [if_neg h]
  · rw [if_pos h, ← h]; exact (hf _).2.2.1
  · rw [if_neg h]
  · rw [if_pos h, ← h]; exact (hf _).2.2.2
  · rw [if_neg h]; exact id

theorem moveNodeToBackAo_same (s : SState) (id : Nat) : Same s (moveNodeToBackAo s id) := by
  unfold moveNodeToBackAo
  cases h : findAo s.prob id with
  | none => exact same_fail s _
  | some n =>
    exact ⟨rfl, rfl, fun _ => rfl, fun _ => rfl, fun _ => rfl, fun _ h => h, perm_moveToBackAo h,
      List.Perm.refl _, rfl⟩

theorem moveNodeToBackWo_same (s : SState) (id : Nat) : Same s (moveNodeToBackWo s id) := by
  unfold moveNodeToBackWo
  cases h : findWo s.wo id with
  | none => exact same_fail s _
  | some n =>
    exact ⟨rfl, rfl, fun _ => rfl, fun _ => rfl, fun _ => rfl, fun _ h => h, List.Perm.refl _,
      perm_moveToBackWo h, rfl⟩

theorem moveToBackAoE_same (s : SState) (i : Nat) : Same s (moveToBackAoE s i) := by
  unfold moveToBackAoE; split
  · exact Same.refl s
  · exact moveNodeToBackAo_same s _

theorem moveToBackWoE_same (s : SState) (i : Nat) : Same s (moveToBackWoE s i) := by
  unfold moveToBackWoE; split
  · exact Same.refl s
  · exact moveNodeToBackWo_same s _

theorem trySkipUpdated_same (s : SState) (key : Nat) : Same s (trySkipUpdated s key).1 := by
  unfold trySkipUpdated
  split
  · split
    · exact (moveToBackAoE_same _ _).trans (moveToBackWoE_same _ _)
    · exact Same.refl s
  · split
    · exact moveNodeToBackAo_same _ _
    · exact Same.refl s

theorem moveSkipped_same (ns : List AoNode) : ∀ (s : SState), Same s (moveSkipped ns s) := by
  induction ns with
  | nil => intro s; exact Same.refl s
  | cons n rest ih => intro s; exact (moveNodeToBackAo_same s n.id).trans (ih _)

theorem sketchIncrement_same (p : Params) (s : SState) (h : UInt64) :
    Same s (sketchIncrement p s h) := by
  unfold sketchIncrement
  split
  · exact same_of_eq rfl rfl rfl rfl rfl rfl
  · exact same_fail s _

theorem applyRead_same (p : Params) (s : SState) (op : ROp) : Same s (applyRead p s op) := by
  cases op with
  | miss hash => exact sketchIncrement_same p s hash
  | hit hash ve ts =>
    unfold applyRead
    dsimp only
    refine Same.trans (sketchIncrement_same p s hash) ?_
    generalize sketchIncrement p s hash = s1
    have h2 : Same s1 (if p.q.d6 = true then withInfo s1 ve.info (fun i => { i with la := ts })
        else if (getInfo s1 ve.info).la < ts then withInfo s1 ve.info (fun i => { i with la := ts })
        else s1) := by
      split
      · exact same_withInfo _ _ _
      · split
        · exact same_withInfo _ _ _
        · exact Same.refl _
    refine Same.trans h2 ?_
    generalize (if p.q.d6 = true then withInfo s1 ve.info (fun i => { i with la := ts })
        else if (getInfo s1 ve.info).la < ts then withInfo s1 ve.info (fun i => { i with la := ts })
        else s1) = s2
    split
    · exact moveToBackAoE_same _ _
    · exact Same.refl _

theorem applyReads_same (p : Params) (n : Nat) : ∀ (s : SState), Same s (applyReads p n s) := by
  induction n with
  | zero => intro s; exact Same.refl s
  | succ n ih =>
    intro s
    unfold applyReads
    split
    · exact Same.refl s
    · rename_i op rest _
      have h0 : Same s { s with readQ := rest } := same_of_eq rfl rfl rfl rfl rfl rfl
      exact (h0.trans (applyRead_same p _ op)).trans (ih _)

theorem enableSketch_same (p : Params) (s : SState) : Same s (enableSketch p s) := by
  unfold enableSketch
  split
  · exact same_of_eq rfl rfl rfl rfl rfl rfl
  · exact Same.refl s

/-! ### the invariant -/

/-- `i` is the info of an entry the map holds. -/
def Cur (s : SState) (i : Nat) : Prop := ∃ k ve, AL.get? s.map k = some ve ∧ ve.info = i

/-- See the head of the file. `Q` is the logical write queue. -/
structure CInv (p : Params) (s : SState) (Q : List WOp) : Prop where
  mapKey : ∀ k ve, AL.get? s.map k = some ve → (getInfo s ve.info).key = k
  mapId : ∀ k ve, AL.get? s.map k = some ve → ve.id < s.nextId ∧ ve.slot < s.nextId
  idInj : ∀ k k' ve ve', AL.get? s.map k = some ve → AL.get? s.map k' = some ve' →
    ve.id = ve'.id → k = k'
  slotInj : ∀ k k' ve ve', AL.get? s.map k = some ve → AL.get? s.map k' = some ve' →
    ve.slot = ve'.slot → k = k'
  nodeKey : ∀ n, n ∈ s.prob → (getInfo s n.info).key = n.key
  nodeCur : ∀ n, n ∈ s.prob → Cur s n.info ∨ ∃ k ve, WOp.remove k ve ∈ Q ∧ ve.info = n.info
  cur : ∀ k ve, AL.get? s.map k = some ve → (∃ h o w, WOp.upsert k h ve o w ∈ Q) ∨
    ((getInfo s ve.info).admitted = true ∧ (getInfo s ve.info).weight = p.weigh k ve.val)
  remDead : ∀ k ve, WOp.remove k ve ∈ Q → ¬ Cur s ve.info
  remBound : ∀ k ve, WOp.remove k ve ∈ Q → ve.info < s.nextId
  upKey : ∀ k h ve o w, WOp.upsert k h ve o w ∈ Q →
    (getInfo s ve.info).key = k ∧ ve.info < s.nextId
  upSlot : ∀ k h ve o w, WOp.upsert k h ve o w ∈ Q → ∀ c, AL.get? s.map k = some c →
    c.info = ve.info → c.slot = ve.slot
  probSlot : ∀ n, n ∈ s.prob → ∀ k c, AL.get? s.map k = some c → c.info = n.info →
    n.kobj = c.slot
  woSlot : ∀ n, n ∈ s.wo → ∀ k c, AL.get? s.map k = some c → c.info = n.info → n.kobj = c.slot
  dirtyQ : ∀ k ve, AL.get? s.map k = some ve → (getInfo s ve.info).dirty = true →
    ∃ k' h v o w, WOp.upsert k' h v o w ∈ Q ∧ v.info = ve.info
  wsum : s.cws = wsumOf s

/-- The general preservation argument for a step that leaves the logical queue alone: the
map shrinks, info keys stay, new nodes carry the key and key object of the entry that owns
them, nodes that stay keep their entry, entries that stay keep admission and weight. -/
theorem CInv.step {p : Params} {s s' : SState} {Q : List WOp} (h : CInv p s Q)
    (hmap : ∀ k ve, AL.get? s'.map k = some ve → AL.get? s.map k = some ve)
    (hkey : ∀ j, (getInfo s' j).key = (getInfo s j).key)
    (hnext : s.nextId ≤ s'.nextId)
    (hprob : ∀ m, m ∈ s'.prob → m ∈ s.prob ∨ ((getInfo s m.info).key = m.key ∧
      ∀ k c, AL.get? s.map k = some c → c.info = m.info → m.kobj = c.slot))
    (hwo : ∀ m, m ∈ s'.wo → m ∈ s.wo ∨
      ∀ k c, AL.get? s.map k = some c → c.info = m.info → m.kobj = c.slot)
    (hcurN : ∀ n, n ∈ s'.prob → Cur s' n.info ∨ (n ∈ s.prob ∧ ¬ Cur s n.info))
    (hcurE : ∀ k ve, AL.get? s'.map k = some ve →
      ((getInfo s ve.info).admitted = true ∧ (getInfo s ve.info).weight = p.weigh k ve.val) →
      ((getInfo s' ve.info).admitted = true ∧ (getInfo s' ve.info).weight = p.weigh k ve.val))
    (hdirty : ∀ k ve, AL.get? s'.map k = some ve → (getInfo s' ve.info).dirty = true →
      (getInfo s ve.info).dirty = true)
    (hws : s'.cws = wsumOf s') : CInv p s' Q where
  mapKey k ve hk := by rw [hkey]; exact h.mapKey k ve (hmap k ve hk)
  mapId k ve hk :=
    ⟨Nat.lt_of_lt_of_le (h.mapId k ve (hmap k ve hk)).1 hnext,
     Nat.lt_of_lt_of_le (h.mapId k ve (hmap k ve hk)).2 hnext⟩
  idInj k k' ve ve' hk hk' := h.idInj k k' ve ve' (hmap k ve hk) (hmap k' ve' hk')
  slotInj k k' ve ve' hk hk' := h.slotInj k k' ve ve' (hmap k ve hk) (hmap k' ve' hk')
  nodeKey n hn := by
    rw [hkey]
    rcases hprob n hn with h1 | h1
    · exact h.nodeKey n h1
    · exact h1.1
  nodeCur n hn := by
    rcases hcurN n hn with h1 | ⟨h1, h2⟩
    · exact Or.inl h1
    · rcases h.nodeCur n h1 with h3 | h3
      · exact absurd h3 h2
      · exact Or.inr h3
  cur k ve hk := by
    rcases h.cur k ve (hmap k ve hk) with h1 | h1
    · exact Or.inl h1
    · exact Or.inr (hcurE k ve hk h1)
  remDead k ve hq := fun ⟨k', c, hc, hi⟩ => h.remDead k ve hq ⟨k', c, hmap k' c hc, hi⟩
  remBound k ve hq := Nat.lt_of_lt_of_le (h.remBound k ve hq) hnext
  upKey k hh ve o w hq := by
    rw [hkey]
    exact ⟨(h.upKey k hh ve o w hq).1, Nat.lt_of_lt_of_le (h.upKey k hh ve o w hq).2 hnext⟩
  upSlot k hh ve o w hq c hc := h.upSlot k hh ve o w hq c (hmap k c hc)
  probSlot n hn k c hc hi := by
    rcases hprob n hn with h1 | h1
    · exact h.probSlot n h1 k c (hmap k c hc) hi
    · exact h1.2 k c (hmap k c hc) hi
  woSlot n hn k c hc hi := by
    rcases hwo n hn with h1 | h1
    · exact h.woSlot n h1 k c (hmap k c hc) hi
    · exact h1 k c (hmap k c hc) hi
  dirtyQ k ve hk hd := h.dirtyQ k ve (hmap k ve hk) (hdirty k ve hk hd)
  wsum := hws

theorem Cur.same {s s' : SState} (hm : s'.map = s.map) {i : Nat} (h : Cur s i) : Cur s' i := by
  obtain ⟨k, ve, hk, hi⟩ := h
  exact ⟨k, ve, by rw [hm]; exact hk, hi⟩

theorem CInv.same {p : Params} {s s' : SState} {Q : List WOp} (h : CInv p s Q)
    (hs : Same s s') : CInv p s' Q := by
  refine h.step (fun k ve hk => by rw [hs.map] at hk; exact hk) hs.key
    (by rw [hs.nextId]; exact Nat.le_refl _)
    (fun m hm => Or.inl (hs.prob.mem_iff.mp hm)) (fun m hm => Or.inl (hs.wo.mem_iff.mp hm))
    ?_ ?_ (fun _ ve _ hd => hs.dirty ve.info hd) ?_
  · intro n hn
    have hn' := hs.prob.mem_iff.mp hn
    by_cases hc : Cur s n.info
    · exact Or.inl (hc.same hs.map)
    · exact Or.inr ⟨hn', hc⟩
  · intro k ve _ hx
    rw [hs.adm, hs.weight]; exact hx
  · rw [hs.cws, h.wsum]
    exact (wsumOf_congr hs.prob (fun n _ => hs.weight n.info)).symm

/-- The queue loses an `upsert` whose entry, if it is still the map's, has been admitted with
the right weight. -/
theorem CInv.dropUpsert {p : Params} {s : SState} {Q : List WOp} {key : Nat} {hash : UInt64}
    {ve : VE} {oldW newW : Nat} (h : CInv p s (WOp.upsert key hash ve oldW newW :: Q))
    (hadm : AL.get? s.map key = some ve →
      (getInfo s ve.info).admitted = true ∧ (getInfo s ve.info).weight = p.weigh key ve.val)
    (hnd : (getInfo s ve.info).dirty = false) :
    CInv p s Q where
  mapKey := h.mapKey
  mapId := h.mapId
  idInj := h.idInj
  slotInj := h.slotInj
  nodeKey := h.nodeKey
  nodeCur n hn := by
    rcases h.nodeCur n hn with h1 | ⟨k, v, hq, hi⟩
    · exact Or.inl h1
    · rcases List.mem_cons.mp hq with e | hq
      · cases e
      · exact Or.inr ⟨k, v, hq, hi⟩
  cur k c hk := by
    rcases h.cur k c hk with ⟨hh, o, w, hq⟩ | h1
    · rcases List.mem_cons.mp hq with e | hq
      · injection e with e1 _ e3
        subst e1; subst e3
        exact Or.inr (hadm hk)
      · exact Or.inl ⟨hh, o, w, hq⟩
    · exact Or.inr h1
  remDead k v hq := h.remDead k v (List.mem_cons_of_mem _ hq)
  remBound k v hq := h.remBound k v (List.mem_cons_of_mem _ hq)
  upKey k hh v o w hq := h.upKey k hh v o w (List.mem_cons_of_mem _ hq)
  upSlot k hh v o w hq := h.upSlot k hh v o w (List.mem_cons_of_mem _ hq)
  probSlot := h.probSlot
  woSlot := h.woSlot
  dirtyQ k c hk hd := by
    obtain ⟨k', hh, v, o, w, hq, hi⟩ := h.dirtyQ k c hk hd
    rcases List.mem_cons.mp hq with e | hq
    · injection e with _ _ e3
      subst e3
      rw [← hi, hnd] at hd; cases hd
    · exact ⟨k', hh, v, o, w, hq, hi⟩
  wsum := h.wsum

/-- The queue loses a `remove` whose info owns no node any more. -/
theorem CInv.dropRemove {p : Params} {s : SState} {Q : List WOp} {key : Nat} {ve : VE}
    (h : CInv p s (WOp.remove key ve :: Q)) (hno : ∀ n, n ∈ s.prob → n.info ≠ ve.info) :
    CInv p s Q where
  mapKey := h.mapKey
  mapId := h.mapId
  idInj := h.idInj
  slotInj := h.slotInj
  nodeKey := h.nodeKey
  nodeCur n hn := by
    rcases h.nodeCur n hn with h1 | ⟨k, v, hq, hi⟩
    · exact Or.inl h1
    · rcases List.mem_cons.mp hq with e | hq
      · injection e with _ e2
        subst e2
        exact absurd hi.symm (hno n hn)
      · exact Or.inr ⟨k, v, hq, hi⟩
  cur k c hk := by
    rcases h.cur k c hk with ⟨hh, o, w, hq⟩ | h1
    · rcases List.mem_cons.mp hq with e | hq
      · cases e
      · exact Or.inl ⟨hh, o, w, hq⟩
    · exact Or.inr h1
  remDead k v hq := h.remDead k v (List.mem_cons_of_mem _ hq)
  remBound k v hq := h.remBound k v (List.mem_cons_of_mem _ hq)
  upKey k hh v o w hq := h.upKey k hh v o w (List.mem_cons_of_mem _ hq)
  upSlot k hh v o w hq := h.upSlot k hh v o w (List.mem_cons_of_mem _ hq)
  probSlot := h.probSlot
  woSlot := h.woSlot
  dirtyQ k c hk hd := by
    obtain ⟨k', hh, v, o, w, hq, hi⟩ := h.dirtyQ k c hk hd
    rcases List.mem_cons.mp hq with e | hq
    · cases e
    · exact ⟨k', hh, v, o, w, hq, hi⟩
  wsum := h.wsum

/-! ### record shapes through which `getInfo` looks -/

theorem getInfo_set_cec_cws (s : SState) (a b j : Nat) :
    getInfo { s with cec := a, cws := b } j = getInfo s j := rfl
theorem getInfo_set_prob (s : SState) (x : List AoNode) (j : Nat) :
    getInfo { s with prob := x } j = getInfo s j := rfl
theorem getInfo_set_wo (s : SState) (x : List WoNode) (j : Nat) :
    getInfo { s with wo := x } j = getInfo s j := rfl
theorem getInfo_set_map (s : SState) (x : List (Nat × VE)) (j : Nat) :
    getInfo { s with map := x } j = getInfo s j := rfl
theorem getInfo_push_ao (s : SState) (x : List AoNode) (n j : Nat) :
    getInfo { s with prob := x, nextId := n } j = getInfo s j := rfl
theorem getInfo_push_wo (s : SState) (x : List WoNode) (n j : Nat) :
    getInfo { s with wo := x, nextId := n } j = getInfo s j := rfl
theorem getInfo_addCounters (s : SState) (a b j : Nat) :
    getInfo (addCounters s a b) j = getInfo s j := rfl

/-! ### sums over the access-order list -/

theorem erase_info_ne {s : SState} (hc : NodesCore s) {n : AoNode} (hn : n ∈ s.prob) {m : AoNode}
    (hm : m ∈ eraseAo s.prob n.id) : m.info ≠ n.info := by
  have hf := findAo_of_mem hc.probIds hn
  obtain ⟨h1, h2⟩ := (mem_eraseAo_iff hf hc.probIds m).mp hm
  exact fun e => h2 (hc.info_inj h1 hn e)

theorem sum_split {s : SState} (hc : NodesCore s) {n : AoNode} (hn : n ∈ s.prob) (f : Nat → Nat) :
    (s.prob.map fun m => f m.info).sum =
      f n.info + ((eraseAo s.prob n.id).map fun m => f m.info).sum := by
  have hf := findAo_of_mem hc.probIds hn
  have := ((perm_cons_eraseAo hf).map (fun m => f m.info)).sum_nat
  rw [this]; simp

theorem sum_erase_congr {s : SState} (hc : NodesCore s) {n : AoNode} (hn : n ∈ s.prob)
    (f g : Nat → Nat) (hfg : ∀ j, j ≠ n.info → g j = f j) :
    ((eraseAo s.prob n.id).map fun m => g m.info).sum =
      ((eraseAo s.prob n.id).map fun m => f m.info).sum := by
  congr 1
  exact List.map_congr_left (fun m hm => hfg m.info (erase_info_ne hc hn hm))

/-! ### `unlink_wo` touches nothing the invariant reads except the write-order list -/

theorem unlinkWo_quiet (s : SState) (i : Nat) :
    (unlinkWo s i).map = s.map ∧ (unlinkWo s i).nextId = s.nextId ∧
    (unlinkWo s i).prob = s.prob ∧ (unlinkWo s i).cws = s.cws ∧
    (∀ j, (getInfo (unlinkWo s i) j).key = (getInfo s j).key ∧
      (getInfo (unlinkWo s i) j).weight = (getInfo s j).weight ∧
      (getInfo (unlinkWo s i) j).admitted = (getInfo s j).admitted ∧
      (getInfo (unlinkWo s i) j).dirty = (getInfo s j).dirty) ∧
    (∀ m, m ∈ (unlinkWo s i).wo → m ∈ s.wo) := by
  unfold unlinkWo
  split
  · exact ⟨rfl, rfl, rfl, rfl, fun _ => ⟨rfl, rfl, rfl, rfl⟩, fun _ h => h⟩
  · rename_i id _
    dsimp only
    have hg : ∀ j, (getInfo (withInfo s i fun i => { i with wo := none }) j).key = (getInfo s j).key ∧
        (getInfo (withInfo s i fun i => { i with wo := none }) j).weight = (getInfo s j).weight ∧
        (getInfo (withInfo s i fun i => { i with wo := none }) j).admitted
          = (getInfo s j).admitted ∧
        (getInfo (withInfo s i fun i => { i with wo := none }) j).dirty
          = (getInfo s j).dirty := by
      intro j
      rw [getInfo_withInfo]
      by_cases e : i = j
      · rw [if_pos e, e]; exact ⟨rfl, rfl, rfl, rfl⟩
      · rw [if_neg e]; exact ⟨rfl, rfl, rfl, rfl⟩
    split
    · exact ⟨rfl, rfl, rfl, rfl, hg, fun m hm => mem_eraseWo_sub hm⟩
    · have hs := same_fail (withInfo s i fun i => { i with wo := none }) Fault.useAfterFree
      refine ⟨hs.map, hs.nextId, ?_, hs.cws, fun j => ?_, fun m hm => hs.wo.mem_iff.mp hm⟩
      · unfold SState.fail; split <;> rfl
      · have hgi : ∀ j, getInfo ((withInfo s i fun i => { i with wo := none }).fail
            Fault.useAfterFree) j = getInfo (withInfo s i fun i => { i with wo := none }) j := by
          intro j; unfold SState.fail; split <;> rfl
        rw [hgi]; exact hg j

/-- What the invariant needs to know about `handle_remove`. -/
theorem handleRemove_spec {s : SState} (h : Safe s) (ve : VE) :
    (handleRemove s ve).map = s.map ∧ (handleRemove s ve).nextId = s.nextId ∧
    (∀ j, (getInfo (handleRemove s ve) j).key = (getInfo s j).key) ∧
    (∀ j, (getInfo (handleRemove s ve) j).weight = (getInfo s j).weight) ∧
    (∀ j, j ≠ ve.info → (getInfo (handleRemove s ve) j).admitted = (getInfo s j).admitted) ∧
    (getInfo (handleRemove s ve) ve.info).admitted = false ∧
    (∀ m, m ∈ (handleRemove s ve).prob → m ∈ s.prob) ∧
    (∀ m, m ∈ (handleRemove s ve).wo → m ∈ s.wo) ∧
    (s.cws = wsumOf s → (handleRemove s ve).cws = wsumOf (handleRemove s ve)) ∧
    (∀ j, (getInfo (handleRemove s ve) j).dirty = (getInfo s j).dirty) ∧
    ((getInfo s ve.info).admitted = true →
      (handleRemove s ve).cws = s.cws - (getInfo s ve.info).weight ∧
      (getInfo s ve.info).weight ≤ wsumOf s) := by
  unfold handleRemove
  dsimp only
  by_cases hadm : (getInfo s ve.info).admitted = true
  · rw [if_pos hadm]
    obtain ⟨id, hao⟩ := h.adm_ao hadm
    obtain ⟨n, hn, hnid, hninfo⟩ := h.aoNode _ _ hao
    subst hnid
    have hfind : findAo s.prob n.id = some n := findAo_of_mem h.probIds hn
    have hlen : 1 ≤ s.cec := by
      rw [h.count]
      cases hp : s.prob with
      | nil => rw [hp] at hn; cases hn
      | cons a l => simp
    generalize hs1 : withInfo s ve.info (fun i => { i with admitted := false }) = s1
    have hg1 : ∀ j, getInfo s1 j =
        if ve.info = j then { getInfo s ve.info with admitted := false } else getInfo s j := by
      intro j; rw [← hs1, getInfo_withInfo]
    have hc1 : s1.cec = s.cec := by rw [← hs1]; rfl
    rw [subCounters_eq (by rw [hc1]; exact hlen)]
    generalize hs2 : ({ s1 with cec := s1.cec - 1, cws := s1.cws - (getInfo s ve.info).weight } :
      SState) = s2
    have hg2 : ∀ j, getInfo s2 j = getInfo s1 j := fun j => by rw [← hs2]; rfl
    have hp2 : s2.prob = s.prob := by rw [← hs2, ← hs1]; rfl
    have hao2 : (getInfo s2 ve.info).ao = some n.id := by rw [hg2, hg1]; simpa using hao
    rw [unlinkAo_eq hao2 (by rw [hp2]; exact hfind)]
    generalize hT : ({ withInfo s2 ve.info (fun x => { x with ao := none }) with
      prob := eraseAo s2.prob n.id } : SState) = T
    have hTmap : T.map = s.map := by rw [← hT, ← hs2, ← hs1]; rfl
    have hTnext : T.nextId = s.nextId := by rw [← hT, ← hs2, ← hs1]; rfl
    have hTprob : T.prob = eraseAo s.prob n.id := by rw [← hT]; simp only; rw [hp2]
    have hTwo : T.wo = s.wo := by rw [← hT, ← hs2, ← hs1]; rfl
    have hTcws : T.cws = s.cws - (getInfo s ve.info).weight := by rw [← hT, ← hs2, ← hs1]; rfl
    have hTg : ∀ j, getInfo T j = if ve.info = j then
        { getInfo s ve.info with admitted := false, ao := none } else getInfo s j := by
      intro j
      have : getInfo T j = if ve.info = j then { getInfo s2 ve.info with ao := none }
          else getInfo s2 j := by
        rw [← hT]; exact getInfo_withInfo s2 ve.info (fun x => { x with ao := none }) j
      rw [this, hg2, hg2, hg1, hg1]
      by_cases e : ve.info = j
      · simp only [if_pos e, if_true]
      · simp only [if_neg e]
    obtain ⟨q1, q2, q3, q4, q5, q6⟩ := unlinkWo_quiet T ve.info
    have hkey : ∀ j, (getInfo (unlinkWo T ve.info) j).key = (getInfo s j).key := by
      intro j; rw [(q5 j).1, hTg]; by_cases e : ve.info = j
      · rw [if_pos e, ← e]
      · rw [if_neg e]
    have hweight : ∀ j, (getInfo (unlinkWo T ve.info) j).weight = (getInfo s j).weight := by
      intro j; rw [(q5 j).2.1, hTg]; by_cases e : ve.info = j
      · rw [if_pos e, ← e]
      · rw [if_neg e]
    refine ⟨q1.trans hTmap, q2.trans hTnext, hkey, hweight, ?_, ?_, ?_, ?_, ?_, ?_, ?_⟩
    · intro j hj
      rw [(q5 j).2.2.1, hTg, if_neg (fun e => hj e.symm)]
    · rw [(q5 _).2.2.1, hTg, if_pos rfl]
    · intro m hm
      rw [q3, hTprob] at hm
      exact mem_eraseAo_sub hm
    · intro m hm
      have := q6 m hm
      rw [hTwo] at this; exact this
    · intro hws
      rw [q4, hTcws, hws]
      have e1 : wsumOf (unlinkWo T ve.info) =
          ((eraseAo s.prob n.id).map fun m => (getInfo s m.info).weight).sum := by
        unfold wsumOf
        rw [q3, hTprob]
        congr 1
        exact List.map_congr_left (fun m _ => hweight m.info)
      rw [e1]
      unfold wsumOf
      rw [sum_split h.toNodesCore hn (fun j => (getInfo s j).weight), hninfo]
      omega
    · intro j; rw [(q5 j).2.2.2, hTg]; by_cases e : ve.info = j
      · rw [if_pos e, ← e]
      · rw [if_neg e]
    · intro _
      refine ⟨by rw [q4, hTcws], ?_⟩
      unfold wsumOf
      rw [sum_split h.toNodesCore hn (fun j => (getInfo s j).weight), hninfo]
      exact Nat.le_add_right _ _
  · rw [if_neg hadm]
    have hna : (getInfo s ve.info).admitted = false := by
      cases hx : (getInfo s ve.info).admitted with
      | false => rfl
      | true => exact absurd hx hadm
    have hs : Same s (withInfo s ve.info fun i => { i with ao := none, wo := none }) :=
      same_withInfo _ _ _
    refine ⟨hs.map, hs.nextId, hs.key, hs.weight, fun j _ => hs.adm j, ?_,
      fun m hm => hs.prob.mem_iff.mp hm, fun m hm => hs.wo.mem_iff.mp hm, ?_, ?_,
      fun hx => absurd hx hadm⟩
    · rw [hs.adm]; exact hna
    · intro hws
      rw [hs.cws, hws]
      exact (wsumOf_congr hs.prob (fun n _ => hs.weight n.info)).symm
    · intro j
      rw [getInfo_withInfo]
      by_cases e : ve.info = j
      · rw [if_pos e, ← e]
      · rw [if_neg e]

/-! ### the good states of a maintenance run -/

/-- Memory safety, well-formed map, and the counters invariant for the logical queue `Q`. -/
structure G (p : Params) (s : SState) (Q : List WOp) : Prop where
  safe : Safe s
  map : MapOK s
  inv : CInv p s Q

theorem G.same {p : Params} {s s' : SState} {Q : List WOp} (h : G p s Q) (hs : Safe s')
    (hf : Frame0 s s') (hsame : Same s s') : G p s' Q :=
  ⟨hs, h.map.frame0 hf, h.inv.same hsame⟩

/-- An entry whose info is not admitted leaves the map. -/
theorem CInv.eraseNotAdm {p : Params} {s : SState} {Q : List WOp} (h : CInv p s Q) (hs : Safe s)
    (hm : MapOK s) {k : Nat} {ve : VE} (hk : AL.get? s.map k = some ve)
    (hna : (getInfo s ve.info).admitted = false) :
    CInv p { s with map := AL.erase s.map k } Q := by
  have hsub : ∀ k' c, AL.get? (AL.erase s.map k) k' = some c → AL.get? s.map k' = some c := by
    intro k' c hc
    rw [AL.get?_erase k k' hm.kn] at hc
    by_cases e : k = k'
    · simp [e] at hc
    · simpa [e] using hc
  refine h.step hsub (fun _ => rfl) (Nat.le_refl _) (fun m hm => Or.inl hm)
    (fun m hm => Or.inl hm) ?_ (fun k' c _ hx => hx) (fun _ _ _ hd => hd) h.wsum
  intro n hn
  by_cases hc : Cur s n.info
  · obtain ⟨k', c, hc1, hc2⟩ := hc
    refine Or.inl ⟨k', c, ?_, hc2⟩
    have hne : k ≠ k' := by
      intro e
      rw [← e, hk] at hc1
      have : ve = c := Option.some.inj hc1
      have hadm := hs.probAdm hn
      rw [← hc2, ← this, hna] at hadm
      cases hadm
    show AL.get? (AL.erase s.map k) k' = some c
    rw [AL.get?_erase k k' hm.kn, if_neg hne]; exact hc1
  · exact Or.inr ⟨hn, hc⟩

/-- `handle_remove` of an info no entry of the (possibly just shrunk) map refers to. -/
theorem handleRemove_cinv {p : Params} {s : SState} {Q : List WOp} (h : CInv p s Q)
    (hs : Safe s) (m0 : List (Nat × VE)) (ve : VE)
    (hsub : ∀ k c, AL.get? m0 k = some c → AL.get? s.map k = some c)
    (hkeep : ∀ k c, AL.get? s.map k = some c → c.info ≠ ve.info → AL.get? m0 k = some c)
    (hdead : ∀ k c, AL.get? m0 k = some c → c.info ≠ ve.info) :
    CInv p (handleRemove { s with map := m0 } ve) Q := by
  have hs0 : Safe { s with map := m0 } := hs.of_eq rfl rfl rfl (Nat.le_refl _) rfl rfl
  obtain ⟨r1, r2, r3, r4, r5, r6, r7, r8, r9, r10, _⟩ := handleRemove_spec hs0 ve
  have hs1 := (handleRemove_safe hs0 ve).1
  refine h.step (fun k c hc => by rw [r1] at hc; exact hsub k c hc) r3
    (by rw [r2]; exact Nat.le_refl _) (fun m hm => Or.inl (r7 m hm)) (fun m hm => Or.inl (r8 m hm))
    ?_ ?_ (fun _ c _ hd => by rw [r10] at hd; exact hd) (r9 h.wsum)
  · intro n hn
    have hne : n.info ≠ ve.info := by
      intro e
      have := hs1.probAdm hn
      rw [e, r6] at this; cases this
    by_cases hc : Cur s n.info
    · obtain ⟨k, c, hc1, hc2⟩ := hc
      refine Or.inl ⟨k, c, ?_, hc2⟩
      rw [r1]
      exact hkeep k c hc1 (by rw [hc2]; exact hne)
    · exact Or.inr ⟨r7 n hn, hc⟩
  · intro k c hc hx
    rw [r1] at hc
    rw [r5 _ (hdead k c hc), r4]
    exact hx

/-! ### `handle_admit` -/

theorem handleAdmit_spec {p : Params} (hd8 : p.q.d8 = false) (s : SState) (key : Nat)
    (hash : UInt64) (ve : VE) (w : Nat) :
    (handleAdmit p s key hash ve w).map = s.map ∧
    s.nextId ≤ (handleAdmit p s key hash ve w).nextId ∧
    (∀ j, j ≠ ve.info → getInfo (handleAdmit p s key hash ve w) j = getInfo s j) ∧
    (getInfo (handleAdmit p s key hash ve w) ve.info).key = (getInfo s ve.info).key ∧
    (getInfo (handleAdmit p s key hash ve w) ve.info).weight = w ∧
    (getInfo (handleAdmit p s key hash ve w) ve.info).admitted = true ∧
    (getInfo (handleAdmit p s key hash ve w) ve.info).dirty = (getInfo s ve.info).dirty ∧
    (∃ node : AoNode, node.key = key ∧ node.info = ve.info ∧ node.kobj = ve.slot ∧
      (handleAdmit p s key hash ve w).prob = s.prob ++ [node]) ∧
    (∀ m, m ∈ (handleAdmit p s key hash ve w).wo → m ∈ s.wo ∨ (m.info = ve.info ∧ m.kobj = ve.slot)) ∧
    (handleAdmit p s key hash ve w).cws = s.cws + w := by
  simp only [handleAdmit, hd8, Bool.false_eq_true, if_false]
  by_cases ht : p.ttl.isSome = true
  · simp only [if_pos ht]
    refine ⟨rfl, ?_, ?_, ?_, ?_, ?_, ?_, ⟨_, rfl, rfl, rfl, rfl⟩, ?_, rfl⟩
    · show s.nextId ≤ s.nextId + 1 + 1
      omega
    · intro j hj
      have hj' : ¬ ve.info = j := fun e => hj e.symm
      simp only [getInfo_withInfo, getInfo_push_ao, getInfo_push_wo, getInfo_addCounters, if_neg hj']
    · simp only [getInfo_withInfo, getInfo_push_ao, getInfo_push_wo, getInfo_addCounters, if_true]
    · simp only [getInfo_withInfo, getInfo_push_ao, getInfo_push_wo, getInfo_addCounters, if_true]
    · simp only [getInfo_withInfo, getInfo_push_ao, getInfo_push_wo, getInfo_addCounters, if_true]
    · simp only [getInfo_withInfo, getInfo_push_ao, getInfo_push_wo, getInfo_addCounters, if_true]
    · intro m hm
      have hm' : m ∈ s.wo ++ [({ id := s.nextId + 1, key := key, info := ve.info, kobj := ve.slot } :
          WoNode)] := hm
      rcases List.mem_append.mp hm' with h1 | h1
      · exact Or.inl h1
      · simp only [List.mem_singleton] at h1
        rw [h1]; exact Or.inr ⟨rfl, rfl⟩
  · simp only [if_neg ht]
    refine ⟨rfl, ?_, ?_, ?_, ?_, ?_, ?_, ⟨_, rfl, rfl, rfl, rfl⟩, ?_, rfl⟩
    · show s.nextId ≤ s.nextId + 1
      omega
    · intro j hj
      have hj' : ¬ ve.info = j := fun e => hj e.symm
      simp only [getInfo_withInfo, getInfo_push_ao, getInfo_addCounters, if_neg hj']
    · simp only [getInfo_withInfo, getInfo_push_ao, getInfo_addCounters, if_true]
    · simp only [getInfo_withInfo, getInfo_push_ao, getInfo_addCounters, if_true]
    · simp only [getInfo_withInfo, getInfo_push_ao, getInfo_addCounters, if_true]
    · simp only [getInfo_withInfo, getInfo_push_ao, getInfo_addCounters, if_true]
    · intro m hm
      exact Or.inl hm

/-- `handle_admit` of the info of the map's current entry of `key`. -/
theorem handleAdmit_cinv {p : Params} (hq : NoQuirks p) {s : SState} {Q : List WOp}
    (h : CInv p s Q) (hs : Safe s) (key : Nat) (hash : UInt64) (ve : VE) (w : Nat) (c : VE)
    (hk : AL.get? s.map key = some c) (hci : c.info = ve.info) (hslot : c.slot = ve.slot)
    (hna : (getInfo s ve.info).admitted = false) :
    CInv p (handleAdmit p s key hash ve w) Q ∧
      (handleAdmit p s key hash ve w).map = s.map ∧
      (getInfo (handleAdmit p s key hash ve w) ve.info).admitted = true ∧
      (getInfo (handleAdmit p s key hash ve w) ve.info).weight = w ∧
      (getInfo (handleAdmit p s key hash ve w) ve.info).dirty = (getInfo s ve.info).dirty := by
  have hd8 : p.q.d8 = false := by rw [hq]
  obtain ⟨r1, r2, r3, r4, r5, r6, r7, ⟨node, n1, n2, n3, n4⟩, r8, r9⟩ :=
    handleAdmit_spec hd8 s key hash ve w
  refine ⟨?_, r1, r6, r5, r7⟩
  have hkeyi : (getInfo s ve.info).key = key := by rw [← hci]; exact h.mapKey key c hk
  have hown : ∀ k c', AL.get? s.map k = some c' → c'.info = ve.info → c' = c := by
    intro k c' hc' hi
    have : k = key := by rw [← h.mapKey k c' hc', hi, hkeyi]
    rw [this, hk] at hc'
    exact (Option.some.inj hc').symm
  have hne : ∀ m, m ∈ s.prob → m.info ≠ ve.info := by
    intro m hm e
    have := hs.probAdm hm
    rw [e, hna] at this; cases this
  refine h.step (fun k c' hc' => by rw [r1] at hc'; exact hc') ?_ r2 ?_ ?_ ?_ ?_ ?_ ?_
  · intro j
    by_cases e : j = ve.info
    · rw [e, r4]
    · rw [r3 j e]
  · intro m hm
    rw [n4] at hm
    rcases List.mem_append.mp hm with h1 | h1
    · exact Or.inl h1
    · simp only [List.mem_singleton] at h1
      refine Or.inr ⟨by rw [h1, n2, n1]; exact hkeyi, ?_⟩
      intro k c' hc' hi
      rw [h1, n2] at hi
      rw [hown k c' hc' hi, h1, n3, hslot]
  · intro m hm
    rcases r8 m hm with h1 | ⟨h1, h2⟩
    · exact Or.inl h1
    · refine Or.inr ?_
      intro k c' hc' hi
      rw [h1] at hi
      rw [hown k c' hc' hi, h2, hslot]
  · intro n hn
    rw [n4] at hn
    rcases List.mem_append.mp hn with h1 | h1
    · by_cases hc : Cur s n.info
      · exact Or.inl (hc.same r1)
      · exact Or.inr ⟨h1, hc⟩
    · simp only [List.mem_singleton] at h1
      refine Or.inl ⟨key, c, by rw [r1]; exact hk, ?_⟩
      rw [h1, n2]; exact hci
  · intro k c' _ hx
    have : c'.info ≠ ve.info := by
      intro e
      rw [e, hna] at hx; cases hx.1
    rw [r3 _ this]; exact hx
  · intro k c' _ hd
    by_cases e : c'.info = ve.info
    · rw [e, r7] at hd; rw [e]; exact hd
    · rw [r3 _ e] at hd; exact hd
  · rw [r9, h.wsum]
    unfold wsumOf
    rw [n4, List.map_append, List.sum_append]
    simp only [List.map_cons, List.map_nil, List.sum_cons, List.sum_nil, Nat.add_zero]
    rw [n2, r5]
    have : s.prob.map (fun n => (getInfo (handleAdmit p s key hash ve w) n.info).weight) =
        s.prob.map (fun n => (getInfo s n.info).weight) :=
      List.map_congr_left (fun m hm => by rw [r3 _ (hne m hm)])
    rw [this]

/-! ### the update branch of `handle_upsert` -/

theorem applyUpdate_cinv {p : Params} (hq : NoQuirks p) {s : SState} {Q : List WOp}
    (h : CInv p s Q) (hs : Safe s) (ve : VE) (oldW nw : Nat)
    (hadm : (getInfo s ve.info).admitted = true)
    (hw : ∀ k c, AL.get? s.map k = some c → c.info = ve.info → nw = p.weigh k c.val) :
    CInv p (applyUpdate p s ve oldW nw) Q ∧
      (applyUpdate p s ve oldW nw).map = s.map ∧
      (getInfo (applyUpdate p s ve oldW nw) ve.info).admitted = true ∧
      (getInfo (applyUpdate p s ve oldW nw) ve.info).weight = nw ∧
      ((getInfo (applyUpdate p s ve oldW nw) ve.info).dirty = true →
        (getInfo s ve.info).dirty = true) := by
  have hd8 : p.q.d8 = false := by rw [hq]
  unfold applyUpdate
  simp only [hd8, Bool.false_eq_true, if_false]
  rw [subCounters_eq (Nat.zero_le _)]
  generalize hs3 : withInfo (addCounters
      ({ s with cec := s.cec - 0, cws := s.cws - (getInfo s ve.info).weight } : SState) 0 nw)
      ve.info (fun i => { i with weight := nw }) = s3
  have hg3 : ∀ j, getInfo s3 j =
      if ve.info = j then { getInfo s ve.info with weight := nw } else getInfo s j := by
    intro j
    rw [← hs3]
    simp only [getInfo_withInfo, getInfo_addCounters, getInfo_set_cec_cws]
  have hm3 : s3.map = s.map := by rw [← hs3]; rfl
  have hn3 : s3.nextId = s.nextId := by rw [← hs3]; rfl
  have hp3 : s3.prob = s.prob := by rw [← hs3]; rfl
  have hw3 : s3.wo = s.wo := by rw [← hs3]; rfl
  have hc3 : s3.cws = s.cws - (getInfo s ve.info).weight + nw := by rw [← hs3]; rfl
  have hO : ∀ j, j ≠ ve.info → getInfo s3 j = getInfo s j := by
    intro j hj; rw [hg3, if_neg (fun e => hj e.symm)]
  have hI : getInfo s3 ve.info = { getInfo s ve.info with weight := nw } := by
    rw [hg3, if_pos rfl]
  have hc : CInv p s3 Q := by
    refine h.step (fun k c hc => by rw [hm3] at hc; exact hc) ?_ (by rw [hn3]; exact Nat.le_refl _)
      (fun m hm => Or.inl (by rw [hp3] at hm; exact hm))
      (fun m hm => Or.inl (by rw [hw3] at hm; exact hm)) ?_ ?_ ?_ ?_
    · intro j
      by_cases e : j = ve.info
      · rw [e, hI]
      · rw [hO j e]
    · intro n hn
      rw [hp3] at hn
      by_cases hc : Cur s n.info
      · exact Or.inl (hc.same hm3)
      · exact Or.inr ⟨hn, hc⟩
    · intro k c hc hx
      rw [hm3] at hc
      by_cases e : c.info = ve.info
      · rw [e, hI]
        rw [e] at hx
        exact ⟨hx.1, hw k c hc e⟩
      · rw [hO _ e]; exact hx
    · intro k c _ hd
      by_cases e : c.info = ve.info
      · rw [e, hI] at hd; rw [e]; exact hd
      · rw [hO _ e] at hd; exact hd
    · obtain ⟨id, hao⟩ := hs.adm_ao hadm
      obtain ⟨n, hn, _, hninfo⟩ := hs.aoNode _ _ hao
      rw [hc3, h.wsum]
      unfold wsumOf
      rw [hp3, sum_split hs.toNodesCore hn (fun j => (getInfo s3 j).weight),
        sum_split hs.toNodesCore hn (fun j => (getInfo s j).weight),
        sum_erase_congr hs.toNodesCore hn (fun j => (getInfo s j).weight)
          (fun j => (getInfo s3 j).weight) (fun j hj => by rw [hO j (by rw [← hninfo]; exact hj)]),
        hninfo, hI]
      simp only
      omega
  have hsame : Same s3 (moveToBackWoE (moveToBackAoE s3 ve.info) ve.info) :=
    (moveToBackAoE_same _ _).trans (moveToBackWoE_same _ _)
  refine ⟨hc.same hsame, hsame.map.trans hm3, ?_, ?_, ?_⟩
  · rw [hsame.adm, hI]; exact hadm
  · rw [hsame.weight, hI]
  · intro hd
    have := hsame.dirty _ hd
    rw [hI] at this; exact this

/-! ### eviction of one entry -/

theorem entryOfNode_get {p : Params} {s : SState} {key info : Nat} {ve : VE}
    (h : entryOfNode p s key info = some ve) : AL.get? s.map key = some ve := by
  unfold entryOfNode at h
  cases hg : AL.get? s.map key with
  | none => rw [hg] at h; cases h
  | some cur =>
    rw [hg] at h
    dsimp only at h
    by_cases e : (p.q.d7 || cur.info == info) = true
    · rw [if_pos e] at h; exact h
    · rw [if_neg e] at h; cases h

/-- The map's entry of `k` leaves the map and its info is detached (`handle_remove`): what
the three eviction paths (admission victims, expiry, LRU) do. -/
theorem evict_g {p : Params} {s : SState} {Q : List WOp} (h : G p s Q) {k : Nat} {ve : VE}
    (hk : AL.get? s.map k = some ve) :
    G p (handleRemove { s with map := AL.erase s.map k } ve) Q ∧
    (∀ k' c, AL.get? s.map k' = some c → k' ≠ k →
      AL.get? (handleRemove { s with map := AL.erase s.map k } ve).map k' = some c) ∧
    (∀ j, (getInfo s j).admitted = false →
      (getInfo (handleRemove { s with map := AL.erase s.map k } ve) j).admitted = false) ∧
    (∀ j, (getInfo (handleRemove { s with map := AL.erase s.map k } ve) j).dirty
      = (getInfo s j).dirty) := by
  have hs0 := safe_eraseMap h.safe k
  obtain ⟨hs1, _, hmono⟩ := handleRemove_safe hs0 ve
  have hf : Frame0 s (handleRemove { s with map := AL.erase s.map k } ve) :=
    (frame0_erase s k).trans (handleRemove_frame0 _ _)
  have hmapeq := (handleRemove_spec hs0 ve).1
  have hget : ∀ k' c, AL.get? s.map k' = some c → k' ≠ k →
      AL.get? (AL.erase s.map k) k' = some c := by
    intro k' c hc hne
    rw [AL.get?_erase k k' h.map.kn, if_neg (fun e => hne e.symm)]; exact hc
  refine ⟨⟨hs1, h.map.frame0 hf, ?_⟩, ?_, hmono, (handleRemove_spec hs0 ve).2.2.2.2.2.2.2.2.2.1⟩
  · refine handleRemove_cinv h.inv h.safe (AL.erase s.map k) ve ?_ ?_ ?_
    · intro k' c hc
      rw [AL.get?_erase k k' h.map.kn] at hc
      by_cases e : k = k'
      · simp [e] at hc
      · simpa [e] using hc
    · intro k' c hc hne
      refine hget k' c hc ?_
      intro e
      rw [e, hk] at hc
      exact hne (by rw [Option.some.inj hc])
    · intro k' c hc e
      rw [AL.get?_erase k k' h.map.kn] at hc
      by_cases e' : k = k'
      · simp [e'] at hc
      · rw [if_neg e'] at hc
        have h1 := h.inv.mapKey k' c hc
        have h2 := h.inv.mapKey k ve hk
        rw [e, h2] at h1
        exact e' h1
  · intro k' c hc hne
    rw [hmapeq]
    exact hget k' c hc hne

/-! ### admission -/

theorem removeVictims_g {p : Params} (hd7 : p.q.d7 = false) {Q : List WOp} :
    ∀ (vs : List AoNode) (s : SState) (sk : List AoNode), G p s Q →
      (∀ v, v ∈ vs → v ∈ s.prob) → (∀ m, m ∈ sk → m ∈ s.prob) → (vs.map (·.id)).Nodup →
      (∀ v, v ∈ vs → ∀ m, m ∈ sk → v.id ≠ m.id) →
      G p (removeVictims p vs s sk).1 Q ∧
        (∀ m, m ∈ (removeVictims p vs s sk).2 → m ∈ (removeVictims p vs s sk).1.prob) ∧
        (∀ j, (getInfo s j).admitted = false →
          (getInfo (removeVictims p vs s sk).1 j).admitted = false) ∧
        (∀ k c, AL.get? s.map k = some c → (getInfo s c.info).admitted = false →
          AL.get? (removeVictims p vs s sk).1.map k = some c) ∧
        (∀ j, (getInfo (removeVictims p vs s sk).1 j).dirty = (getInfo s j).dirty) := by
  intro vs
  induction vs with
  | nil =>
    intro s sk h _ hsk _ _
    exact ⟨h, hsk, fun _ hj => hj, fun _ _ hc _ => hc, fun _ => rfl⟩
  | cons v rest ih =>
    intro s sk h hvs hsk hnd hdis
    simp only [List.map_cons, List.nodup_cons] at hnd
    have hv : v ∈ s.prob := hvs v List.mem_cons_self
    have hrest : ∀ r, r ∈ rest → r ∈ s.prob := fun r hr => hvs r (List.mem_cons_of_mem _ hr)
    have hne : ∀ r, r ∈ rest → r.id ≠ v.id := fun r hr e =>
      hnd.1 (e ▸ List.mem_map.mpr ⟨r, hr, rfl⟩)
    rw [removeVictims, findAo_of_mem h.safe.probIds hv]
    dsimp only
    split
    · rename_i ve hve
      have hinfo := entryOfNode_info hd7 hve
      have hget := entryOfNode_get hve
      have h0 := safe_eraseMap h.safe v.key
      obtain ⟨_, hkeep, _⟩ := handleRemove_safe h0 ve
      obtain ⟨g1, hmapk, hmono, hdirt⟩ := evict_g h hget
      have hkeep' : ∀ m, m ∈ s.prob → m.id ≠ v.id →
          m ∈ (handleRemove { s with map := AL.erase s.map v.key } ve).prob := by
        intro m hm hmid
        refine hkeep m hm (fun e => hmid ?_)
        exact h.safe.info_inj hm hv (e.trans hinfo)
      obtain ⟨i1, i2, i3, i4, i5⟩ := ih _ sk g1 (fun r hr => hkeep' r (hrest r hr) (hne r hr))
        (fun m hm => hkeep' m (hsk m hm) (fun e => hdis v List.mem_cons_self m hm e.symm))
        hnd.2 (fun r hr m hm => hdis r (List.mem_cons_of_mem _ hr) m hm)
      refine ⟨i1, i2, fun j hj => i3 j (hmono j hj), ?_, fun j => (i5 j).trans (hdirt j)⟩
      intro k c hc hna
      refine i4 k c (hmapk k c hc ?_) (hmono _ hna)
      intro e
      rw [e, hget] at hc
      have hadm := h.safe.probAdm hv
      rw [← hinfo, Option.some.inj hc, hna] at hadm
      cases hadm
    · refine ih s (sk ++ [v]) h hrest ?_ hnd.2 ?_
      · intro m hm
        rcases List.mem_append.mp hm with hm | hm
        · exact hsk m hm
        · simp at hm; rw [hm]; exact hv
      · intro r hr m hm
        rcases List.mem_append.mp hm with hm | hm
        · exact hdis r (List.mem_cons_of_mem _ hr) m hm
        · simp at hm; rw [hm]; exact hne r hr

theorem removeCandidate_cinv {p : Params} (hd7 : p.q.d7 = false) {s : SState} {Q : List WOp}
    {key : Nat} {hash : UInt64} {ve : VE} {o w : Nat}
    (h : G p s (WOp.upsert key hash ve o w :: Q))
    (hna : (getInfo s ve.info).admitted = false) (hnd : (getInfo s ve.info).dirty = false)
    {c : VE} (hc : AL.get? s.map key = some c) (hci : c.info = ve.info) :
    CInv p (removeCandidate p s key ve) Q := by
  unfold removeCandidate
  rw [hc]
  dsimp only
  rw [hd7, Bool.false_or]
  by_cases e : (c.id == ve.id) = true
  · rw [if_pos e]
    refine (h.inv.eraseNotAdm h.safe h.map hc (by rw [hci]; exact hna)).dropUpsert ?_ hnd
    intro hk
    exfalso
    have : AL.get? (AL.erase s.map key) key = none := AL.get?_erase_self key h.map.kn
    rw [this] at hk; cases hk
  · rw [if_neg e]
    refine h.inv.dropUpsert ?_ hnd
    intro hk
    exfalso
    rw [hc] at hk
    rw [Option.some.inj hk] at e
    simp at e

theorem admitOrReject_cinv {p : Params} (hq : NoQuirks p) {s : SState} {Q : List WOp}
    {key : Nat} {hash : UInt64} {ve : VE} {o w : Nat}
    (h : G p s (WOp.upsert key hash ve o w :: Q))
    (hna : (getInfo s ve.info).admitted = false) (hnd : (getInfo s ve.info).dirty = false)
    {c : VE} (hc : AL.get? s.map key = some c) (hci : c.info = ve.info)
    (hslot : c.slot = ve.slot) (nw : Nat) (hnw : nw = p.weigh key c.val) :
    CInv p (admitOrReject p s key hash ve nw) Q := by
  have hd7 : p.q.d7 = false := by rw [hq]
  unfold admitOrReject
  dsimp only
  obtain ⟨vs, ss, h1, h2, h3, h4, h5, h6⟩ :=
    admitLoop_split p s nw (s.sk.frequency hash) s.prob {} h.safe.probIds
  generalize admitLoop p s nw (s.sk.frequency hash) s.prob {} = a at h1 h2 ⊢
  have e1 : a.victims = vs := by rw [h1]; rfl
  have e2 : a.skipped = ss := by rw [h2]; rfl
  split
  · have hrv := removeVictims_g hd7 a.victims s a.skipped h (by rw [e1]; exact h3)
      (by rw [e2]; exact h4) (by rw [e1]; exact h5) (by rw [e1, e2]; exact h6)
    generalize removeVictims p a.victims s a.skipped = r at hrv ⊢
    obtain ⟨s1, sk1⟩ := r
    obtain ⟨g1, _, r3, r4, r5⟩ := hrv
    dsimp only at g1 r3 r4 r5 ⊢
    have hc1 : AL.get? s1.map key = some c := r4 key c hc (by rw [hci]; exact hna)
    obtain ⟨a1, a2, a3, a4, a5⟩ :=
      handleAdmit_cinv hq g1.inv g1.safe key hash ve nw c hc1 hci hslot (r3 _ hna)
    refine CInv.same (a1.dropUpsert ?_ (by rw [a5, r5]; exact hnd)) (moveSkipped_same _ _)
    intro hk
    rw [a2, hc1] at hk
    have e := Option.some.inj hk
    subst e
    exact ⟨a3, by rw [a4]; exact hnw⟩
  · exact (removeCandidate_cinv hd7 h hna hnd hc hci).same (moveSkipped_same _ _)

/-! ### `apply_writes` -/

theorem handleUpsert_g {p : Params} (hq : NoQuirks p) {s : SState} {Q : List WOp} {key : Nat}
    {hash : UInt64} {ve : VE} {oldW newW : Nat}
    (h : G p s (WOp.upsert key hash ve oldW newW :: Q)) :
    G p (handleUpsert p s key hash ve oldW newW) Q := by
  have hd7 : p.q.d7 = false := by rw [hq]
  have hd10 : p.q.d10 = false := by rw [hq]
  refine ⟨handleUpsert_safe hq h.safe h.map _ _ _ _ _,
    h.map.frame0 (handleUpsert_frame0 _ _ _ _ _ _ _), ?_⟩
  have hnw : ∀ c, AL.get? s.map key = some c → c.info = ve.info →
      currentWeight p s key ve newW = p.weigh key c.val := by
    intro c hc hi
    unfold currentWeight
    rw [hd10, hc]
    simp [hi]
  unfold handleUpsert
  dsimp only
  generalize currentWeight p s key ve newW = nw at hnw ⊢
  have h1 : G p (withInfo s ve.info (fun i => { i with dirty := false }))
      (WOp.upsert key hash ve oldW newW :: Q) :=
    ⟨h.safe.withInfo _ _ rfl rfl rfl, ⟨h.map.kn, h.map.bound⟩,
      h.inv.same (same_withInfo _ _ _ (fun x => ⟨rfl, rfl, rfl, fun hx => by cases hx⟩))⟩
  have hnw1 : ∀ c, AL.get? (withInfo s ve.info (fun i => { i with dirty := false })).map key
      = some c → c.info = ve.info → nw = p.weigh key c.val := hnw
  have hnd : (getInfo (withInfo s ve.info (fun i => { i with dirty := false })) ve.info).dirty
      = false := by rw [getInfo_withInfo, if_pos rfl]
  clear hnw
  generalize withInfo s ve.info (fun i => { i with dirty := false }) = s1 at h1 hnw1 hnd ⊢
  have hup := h1.inv.upKey key hash ve oldW newW List.mem_cons_self
  by_cases c1 : (getInfo s1 ve.info).admitted = true
  · rw [if_pos c1]
    obtain ⟨a1, a2, a3, a4, a5⟩ := applyUpdate_cinv hq h1.inv h1.safe ve oldW nw c1 (by
      intro k c hc hi
      have : k = key := by rw [← h1.inv.mapKey k c hc, hi]; exact hup.1
      subst this; exact hnw1 c hc hi)
    refine a1.dropUpsert ?_ (dirty_false_of a5 hnd)
    intro hk
    rw [a2] at hk
    exact ⟨a3, by rw [a4]; exact hnw1 ve hk rfl⟩
  · rw [if_neg c1]
    have hna : (getInfo s1 ve.info).admitted = false := by
      cases hx : (getInfo s1 ve.info).admitted with
      | false => rfl
      | true => exact absurd hx c1
    by_cases c2 : (!p.q.d7 && !isCurrentEntry s1 key ve) = true
    · rw [if_pos c2]
      refine h1.inv.dropUpsert ?_ hnd
      intro hk
      exfalso
      rw [hd7] at c2
      unfold isCurrentEntry at c2
      rw [hk] at c2
      simp at c2
    · rw [if_neg c2]
      obtain ⟨c, hc, hci⟩ : ∃ c, AL.get? s1.map key = some c ∧ c.info = ve.info := by
        rw [hd7] at c2
        unfold isCurrentEntry at c2
        cases hg : AL.get? s1.map key with
        | none => rw [hg] at c2; simp at c2
        | some cur =>
          rw [hg] at c2
          exact ⟨cur, rfl, by simpa using c2⟩
      have hslot := h1.inv.upSlot key hash ve oldW newW List.mem_cons_self c hc hci
      by_cases c3 : hasEnoughCapacity p nw s1 = true
      · rw [if_pos c3]
        obtain ⟨a1, a2, a3, a4, a5⟩ :=
          handleAdmit_cinv hq h1.inv h1.safe key hash ve nw c hc hci hslot hna
        refine a1.dropUpsert ?_ (by rw [a5]; exact hnd)
        intro hk
        rw [a2] at hk
        exact ⟨a3, by rw [a4]; exact hnw1 ve hk rfl⟩
      · rw [if_neg c3]
        by_cases c4 : tooBig p nw = true
        · rw [if_pos c4]; exact removeCandidate_cinv hd7 h1 hna hnd hc hci
        · rw [if_neg c4]
          exact admitOrReject_cinv hq h1 hna hnd hc hci hslot nw (hnw1 c hc hci)

theorem applyWrite_g {p : Params} (hq : NoQuirks p) {s : SState} {Q : List WOp} (op : WOp)
    (h : G p s (op :: Q)) : G p (applyWrite p s op) Q := by
  cases op with
  | upsert key hash ve oldW newW => exact handleUpsert_g hq h
  | remove key ve =>
    refine ⟨(handleRemove_safe h.safe ve).1, h.map.frame0 (handleRemove_frame0 _ _), ?_⟩
    have hdead : ∀ k c, AL.get? s.map k = some c → c.info ≠ ve.info := by
      intro k c hc e
      exact h.inv.remDead key ve List.mem_cons_self ⟨k, c, hc, e⟩
    have h1 : CInv p (handleRemove { s with map := s.map } ve) (WOp.remove key ve :: Q) :=
      handleRemove_cinv h.inv h.safe s.map ve (fun _ _ hc => hc) (fun _ _ hc _ => hc) hdead
    have h2 : CInv p (handleRemove s ve) (WOp.remove key ve :: Q) := h1
    refine h2.dropRemove ?_
    intro n hn e
    have hadm := (handleRemove_safe h.safe ve).1.probAdm hn
    rw [e, (handleRemove_spec h.safe ve).2.2.2.2.2.1] at hadm
    cases hadm

theorem applyWrites_g {p : Params} (hq : NoQuirks p) (ex : List WOp) (n : Nat) :
    ∀ (s : SState), G p s (s.writeQ ++ ex) →
      G p (applyWrites p n s) ((applyWrites p n s).writeQ ++ ex) := by
  induction n with
  | zero => intro s h; exact h
  | succ n ih =>
    intro s h
    unfold applyWrites
    split
    · exact h
    · rename_i op rest hw
      rw [hw] at h
      have h0 : G p { s with writeQ := rest } (op :: (rest ++ ex)) :=
        ⟨safe_setWriteQ h.safe rest, ⟨h.map.kn, h.map.bound⟩,
          h.inv.same (same_of_eq rfl rfl rfl rfl rfl rfl)⟩
      have h1 := applyWrite_g hq op h0
      have hq1 : (applyWrite p { s with writeQ := rest } op).writeQ = rest :=
        (applyWrite_qframe p { s with writeQ := rest } op).writeQ
      exact ih _ (by rw [hq1]; exact h1)

/-! ### eviction -/

theorem victim_some {o : Option VE} {c : VE → Prop} [DecidablePred c] {ve : VE}
    (h : (match o with
      | some v => if c v then some v else none
      | none => none) = some ve) : o = some ve := by
  cases o with
  | none => cases h
  | some v =>
    dsimp only at h
    split at h
    · exact h
    · cases h

theorem trySkipUpdated_g {p : Params} {s : SState} {Q : List WOp} (h : G p s Q) (key : Nat) :
    G p (trySkipUpdated s key).1 Q :=
  h.same (trySkipUpdated_safe h.safe key) (trySkipUpdated_frame0 s key)
    (trySkipUpdated_same s key)

theorem removeExpiredAo_g {p : Params} {Q : List WOp} (n : Nat) :
    ∀ (s : SState), G p s Q → G p (removeExpiredAo p n s) Q := by
  induction n with
  | zero => intro s h; exact h
  | succ n ih =>
    intro s h
    unfold removeExpiredAo
    split
    · exact h
    · split
      · dsimp only
        split
        · rename_i ve hv
          exact ih _ (evict_g h (entryOfNode_get (victim_some hv))).1
        · split
          · exact ih _ (trySkipUpdated_g h _)
          · exact trySkipUpdated_g h _
      · exact h

theorem removeExpiredWo_g {p : Params} {Q : List WOp} (n : Nat) :
    ∀ (s : SState), G p s Q → G p (removeExpiredWo p n s) Q := by
  induction n with
  | zero => intro s h; exact h
  | succ n ih =>
    intro s h
    unfold removeExpiredWo
    split
    · exact h
    · rename_i nd rest hw
      split
      · dsimp only
        split
        · rename_i ve hv
          exact ih _ (evict_g h (entryOfNode_get (victim_some hv))).1
        · split
          · split
            · exact ih _ (h.same (moveToBackWoE_safe (moveToBackAoE_safe h.safe _).1 _).1
                ((moveToBackAoE_frame0 _ _).trans (moveToBackWoE_frame0 _ _))
                ((moveToBackAoE_same _ _).trans (moveToBackWoE_same _ _)))
            · exact h
          · exact ih _ (h.same
              (moveNodeToBackWo_safe h.safe (by rw [hw]; exact List.mem_cons_self)).1
              (moveNodeToBackWo_frame0 _ _) (moveNodeToBackWo_same _ _))
      · exact h

theorem evictExpired_g {p : Params} {s : SState} {Q : List WOp} (h : G p s Q) :
    G p (evictExpired p s) Q := by
  unfold evictExpired
  dsimp only
  split
  · split
    · exact removeExpiredAo_g _ _ (removeExpiredWo_g _ _ h)
    · exact removeExpiredWo_g _ _ h
  · split
    · exact removeExpiredAo_g _ _ h
    · exact h

theorem evictLruLoop_g {p : Params} {Q : List WOp} (n : Nat) :
    ∀ (s : SState) (wte ev : Nat), G p s Q → G p (evictLruLoop p n s wte ev) Q := by
  induction n with
  | zero => intro s _ _ h; exact h
  | succ n ih =>
    intro s wte ev h
    unfold evictLruLoop
    split
    · exact h
    · split
      · exact h
      · dsimp only
        split
        · split
          · exact ih _ _ _ (trySkipUpdated_g h _)
          · exact trySkipUpdated_g h _
        · split
          · rename_i ve hv
            exact ih _ _ _ (evict_g h (entryOfNode_get (victim_some hv))).1
          · split
            · exact ih _ _ _ (trySkipUpdated_g h _)
            · exact trySkipUpdated_g h _

/-! ### the maintenance run -/

theorem applyReads_g {p : Params} (hq : NoQuirks p) {P : Sketch → Prop} (L : SketchLaws P)
    {s : SState} {Q : List WOp} (h : G p s Q) (hk : SkOK P s) (n : Nat) :
    G p (applyReads p n s) Q :=
  ⟨(applyReads_inv L hq n s h.safe hk).1, h.map.frame (applyReads_frame hq _ _),
    h.inv.same (applyReads_same p n s)⟩

/-- The loop of `Inner::sync`: the operations it pops from the write queue are exactly
the ones it applies; `ex` (operations not queued yet) stays pending. -/
theorem syncLoop_g {P : Sketch → Prop} (L : SketchLaws P) {p : Params} (hq : NoQuirks p)
    (hsm : SmallSketch p) (ex : List WOp) (n : Nat) :
    ∀ (s : SState), RunInv P s → CInv p s (s.writeQ ++ ex) →
      RunInv P (syncLoop p n s) ∧ CInv p (syncLoop p n s) ((syncLoop p n s).writeQ ++ ex) := by
  induction n with
  | zero => intro s h hc; exact ⟨h, hc⟩
  | succ n ih =>
    intro s h hc
    unfold syncLoop
    dsimp only
    have h1 : RunInv P (if s.readQ.length > 0 then applyReads p s.readQ.length s else s) ∧
        CInv p (if s.readQ.length > 0 then applyReads p s.readQ.length s else s)
          ((if s.readQ.length > 0 then applyReads p s.readQ.length s else s).writeQ ++ ex) := by
      split
      · obtain ⟨a, b⟩ := applyReads_inv L hq s.readQ.length s h.safe h.sk
        refine ⟨⟨a, h.map.frame (applyReads_frame hq _ _), b⟩, ?_⟩
        rw [applyReads_writeQ]
        exact hc.same (applyReads_same p _ s)
      · exact ⟨h, hc⟩
    generalize (if s.readQ.length > 0 then applyReads p s.readQ.length s else s) = s1 at h1 ⊢
    have h2 : RunInv P (if s1.writeQ.length > 0 then applyWrites p s1.writeQ.length s1 else s1) ∧
        CInv p (if s1.writeQ.length > 0 then applyWrites p s1.writeQ.length s1 else s1)
          ((if s1.writeQ.length > 0 then applyWrites p s1.writeQ.length s1 else s1).writeQ
            ++ ex) := by
      split
      · have g := applyWrites_g hq ex s1.writeQ.length s1 ⟨h1.1.safe, h1.1.map, h1.2⟩
        exact ⟨⟨g.safe, g.map, h1.1.sk.same (applyWrites_sk _ _ _)⟩, g.inv⟩
      · exact h1
    generalize (if s1.writeQ.length > 0 then applyWrites p s1.writeQ.length s1 else s1) = s2
      at h2 ⊢
    have h3 : RunInv P (if shouldEnableSketch p s2 = true then enableSketch p s2 else s2) ∧
        CInv p (if shouldEnableSketch p s2 = true then enableSketch p s2 else s2)
          ((if shouldEnableSketch p s2 = true then enableSketch p s2 else s2).writeQ ++ ex) := by
      split
      · rename_i hen
        refine ⟨⟨enableSketch_safe p h2.1.safe, h2.1.map.frame0 (enableSketch_frame0 _ _),
          enableSketch_skOK L hsm h2.1.sk hen⟩, ?_⟩
        rw [(enableSketch_qframe p s2).writeQ]
        exact h2.2.same (enableSketch_same p s2)
      · exact h2
    generalize (if shouldEnableSketch p s2 = true then enableSketch p s2 else s2) = s3 at h3 ⊢
    split
    · exact ih _ h3.1 h3.2
    · exact h3

/-! ### between operations -/

/-- The counters invariant between operations: the published weighted size takes the place
of the run-local one. -/
def CTop (p : Params) (s : SState) (Q : List WOp) : Prop :=
  CInv p { s with cec := s.ec, cws := s.ws } Q

theorem CTop.of_eq {p : Params} {s s' : SState} {Q : List WOp} (h : CTop p s Q)
    (hm : s'.map = s.map) (hi : s'.infos = s.infos) (hp : s'.prob = s.prob) (hw : s'.wo = s.wo)
    (hc : s'.ws = s.ws) (hn : s'.nextId = s.nextId) : CTop p s' Q :=
  CInv.same h (same_of_eq hm hi hp hw hc hn)

/-- `Inner::sync`: everything queued is applied, `ex` stays pending. -/
theorem syncRun_ctop {P : Sketch → Prop} (L : SketchLaws P) {p : Params} (hq : NoQuirks p)
    (hsm : SmallSketch p) {s : SState} (ex : List WOp) (h : TopInv P s)
    (hc : CTop p s (s.writeQ ++ ex)) : CTop p (syncRun p s) ex := by
  unfold syncRun
  dsimp only
  have h0 : RunInv P { s with cec := s.ec, cws := s.ws } :=
    ⟨⟨⟨h.nodes.toNodesCore.congr (fun _ => rfl) (fun _ => rfl) (fun _ => rfl) (List.Perm.refl _)
        (List.Perm.refl _) (Nat.le_refl _), h.nodes.count⟩, h.nofault⟩,
     ⟨h.map.kn, h.map.bound⟩, ⟨h.sk.sk, h.sk.skOff⟩⟩
  have h1 := syncLoop_g L hq hsm ex (Gen.MAX_SYNC_REPEATS + 1) _ h0 hc
  have hq1 := (syncLoop_queues p Gen.MAX_SYNC_REPEATS { s with cec := s.ec, cws := s.ws }).1
  generalize syncLoop p (Gen.MAX_SYNC_REPEATS + 1) { s with cec := s.ec, cws := s.ws } = s1
    at h1 hq1 ⊢
  rw [hq1, List.nil_append] at h1
  have g1 : G p s1 ex := ⟨h1.1.safe, h1.1.map, h1.2⟩
  have g2 : G p (if (p.hasExpiry || s1.va.isSome) = true then evictExpired p s1 else s1) ex := by
    split
    · exact evictExpired_g g1
    · exact g1
  generalize (if (p.hasExpiry || s1.va.isSome) = true then evictExpired p s1 else s1) = s2
    at g2 ⊢
  have g3 : G p (if weightsToEvict p s2 > 0
      then evictLruLoop p Gen.SYNC_EVICTION_BATCH_SIZE s2 (weightsToEvict p s2) 0 else s2) ex := by
    split
    · exact evictLruLoop_g _ _ _ _ g2
    · exact g2
  generalize (if weightsToEvict p s2 > 0
      then evictLruLoop p Gen.SYNC_EVICTION_BATCH_SIZE s2 (weightsToEvict p s2) 0 else s2) = s3
    at g3 ⊢
  exact g3.inv.same (same_of_eq rfl rfl rfl rfl rfl rfl)

/-- The invariant of the reachable states, for the logical write queue `writeQ ++ ex`. -/
structure TInv (p : Params) (s : SState) (ex : List WOp) : Prop where
  top : TopInv Sketch.Good s
  q : QInv s
  c : CTop p s (s.writeQ ++ ex)

theorem trySync_t {p : Params} (hq : NoQuirks p) (hsm : SmallSketch p) {s : SState}
    {ex : List WOp} (h : TInv p s ex) : TInv p (trySync p s) ex := by
  have hs := trySync_spec p s h.q.running
  refine ⟨trySync_inv sketchLaws hq hsm h.top, ⟨hs.running, ?_, ?_⟩, ?_⟩
  · rw [hs.writeQ]; exact Nat.zero_le _
  · rw [hs.readQ]; exact Nat.zero_le _
  · rw [hs.writeQ, List.nil_append]
    unfold trySync
    rw [if_neg (by rw [h.q.running]; exact Bool.false_ne_true)]
    dsimp only
    have h0 : ∀ a, TopInv Sketch.Good { s with running := true, syncAfter := a } :=
      fun a => h.top.of_eq rfl rfl rfl rfl rfl rfl rfl rfl rfl
    have c0 : ∀ a, CTop p { s with running := true, syncAfter := a }
        (({ s with running := true, syncAfter := a } : SState).writeQ ++ ex) :=
      fun a => h.c.of_eq rfl rfl rfl rfl rfl rfl
    exact (syncRun_ctop sketchLaws hq hsm ex (h0 _) (c0 _)).of_eq rfl rfl rfl rfl rfl rfl

theorem housekeepW_t {p : Params} (hq : NoQuirks p) (hsm : SmallSketch p) {s : SState}
    {ex : List WOp} (h : TInv p s ex) : TInv p (housekeepW p s) ex := by
  unfold housekeepW
  split
  · exact trySync_t hq hsm h
  · exact h

theorem housekeepR_t {p : Params} (hq : NoQuirks p) (hsm : SmallSketch p) {s : SState}
    {ex : List WOp} (h : TInv p s ex) : TInv p (housekeepR p s) ex := by
  unfold housekeepR
  split
  · exact trySync_t hq hsm h
  · exact h

/-- `schedule_write_op`: the pending operation `op` becomes a queued one. -/
theorem scheduleWriteOp_t {p : Params} (hq : NoQuirks p) (hsm : SmallSketch p) {s : SState}
    {op : WOp} (fuel : Nat) (h : TInv p s [op]) : TInv p (scheduleWriteOp p (fuel + 1) s op) [] := by
  rw [scheduleWriteOp_enqueues p fuel h.q]
  have h1 := housekeepW_t hq hsm h
  have hlt := (housekeepW_spec p h.q).2.1
  refine ⟨h1.top.of_eq rfl rfl rfl rfl rfl rfl rfl rfl rfl, ⟨h1.q.running, ?_, h1.q.readQ⟩, ?_⟩
  · show ((housekeepW p s).writeQ ++ [op]).length ≤ _
    rw [List.length_append]
    exact hlt
  · show CTop p _ (((housekeepW p s).writeQ ++ [op]) ++ [])
    rw [List.append_nil]
    exact h1.c.of_eq rfl rfl rfl rfl rfl rfl

theorem recordReadOp_t {p : Params} (hq : NoQuirks p) (hsm : SmallSketch p) {s : SState}
    (rop : ROp) (h : TInv p s []) : TInv p (recordReadOp p s rop) [] := by
  rw [recordReadOp_enqueues p h.q]
  have h1 := housekeepR_t hq hsm h
  have hlt := (housekeepR_spec p h.q).2.1
  refine ⟨h1.top.of_eq rfl rfl rfl rfl rfl rfl rfl rfl rfl, ⟨h1.q.running, h1.q.writeQ, ?_⟩, ?_⟩
  · show ((housekeepR p s).readQ ++ [rop]).length ≤ _
    rw [List.length_append]
    exact hlt
  · exact h1.c.of_eq rfl rfl rfl rfl rfl rfl

/-! ### the map steps of `insert` and `invalidate` -/

theorem node_info_lt {s : SState} (hc : NodesCore s) {n : AoNode} (hn : n ∈ s.prob) :
    n.info < s.nextId := by
  apply Nat.lt_of_not_le
  intro hle
  have := hc.probAdm hn
  rw [hc.infoFresh _ hle] at this; cases this

theorem wo_info_lt {s : SState} (hc : NodesCore s) {n : WoNode} (hn : n ∈ s.wo) :
    n.info < s.nextId := by
  apply Nat.lt_of_not_le
  intro hle
  have h1 := hc.woOwn n hn
  have h2 := hc.woAdm n.info (by rw [h1]; rfl)
  rw [hc.infoFresh _ hle] at h2; cases h2

/-- The map step of `insert`: the entry `ve` is put under `k` (replacing an entry that
shares its info and key object, or as a fresh entry with a fresh info) and its `upsert`
becomes pending. -/
theorem CInv.put {p : Params} {s s' : SState} {Q : List WOp} (h : CInv p s Q)
    (hc : NodesCore s) (hm : MapOK s) (k : Nat) (hash : UInt64) (ve : VE) (o w : Nat)
    (hmap : s'.map = AL.put s.map k ve) (hnext : s.nextId ≤ s'.nextId)
    (hframe : ∀ j, j < s.nextId → (getInfo s' j).key = (getInfo s j).key ∧
      (getInfo s' j).weight = (getInfo s j).weight ∧
      (getInfo s' j).admitted = (getInfo s j).admitted ∧
      (j ≠ ve.info → (getInfo s' j).dirty = true → (getInfo s j).dirty = true))
    (hvkey : (getInfo s' ve.info).key = k)
    (hvb : ve.info < s'.nextId ∧ ve.id < s'.nextId ∧ ve.slot < s'.nextId ∧ s.nextId ≤ ve.id)
    (hslot : ∀ k' c, AL.get? s.map k' = some c → (c.slot = ve.slot ↔ k' = k))
    (hinfo : ∀ k' c, AL.get? s.map k' = some c → (c.info = ve.info ↔ k' = k))
    (hdead : ve.info < s.nextId → Cur s ve.info)
    (hprob : s'.prob = s.prob) (hwo : s'.wo = s.wo) (hcws : s'.cws = s.cws) :
    CInv p s' (Q ++ [WOp.upsert k hash ve o w]) := by
  have hget : ∀ k' c, AL.get? s'.map k' = some c →
      (k' = k ∧ c = ve) ∨ (k' ≠ k ∧ AL.get? s.map k' = some c) := by
    intro k' c hk
    rw [hmap, AL.get?_put] at hk
    by_cases e : k = k'
    · rw [if_pos e] at hk
      exact Or.inl ⟨e.symm, (Option.some.inj hk).symm⟩
    · rw [if_neg e] at hk
      exact Or.inr ⟨fun e' => e e'.symm, hk⟩
  have hget' : ∀ k' c, k' ≠ k → AL.get? s.map k' = some c → AL.get? s'.map k' = some c := by
    intro k' c hne hk
    rw [hmap, AL.get?_put, if_neg (fun e => hne e.symm)]; exact hk
  have hgetk : AL.get? s'.map k = some ve := by rw [hmap, AL.get?_put, if_pos rfl]
  have hold : ve.info < s.nextId →
      ∃ c0, AL.get? s.map k = some c0 ∧ c0.info = ve.info ∧ c0.slot = ve.slot := by
    intro hlt
    obtain ⟨k0, c0, h1, h2⟩ := hdead hlt
    have : k0 = k := (hinfo k0 c0 h1).mp h2
    subst this
    exact ⟨c0, h1, h2, (hslot k0 c0 h1).mpr rfl⟩
  have hcur : ∀ i, Cur s i → Cur s' i := by
    intro i ⟨k', c, h1, h2⟩
    by_cases e : k' = k
    · exact ⟨k, ve, hgetk, by rw [← h2]; exact ((hinfo k' c h1).mpr e).symm⟩
    · exact ⟨k', c, hget' k' c e h1, h2⟩
  have hmemQ : ∀ op, op ∈ Q → op ∈ Q ++ [WOp.upsert k hash ve o w] :=
    fun op hop => List.mem_append_left _ hop
  refine ⟨?_, ?_, ?_, ?_, ?_, ?_, ?_, ?_, ?_, ?_, ?_, ?_, ?_, ?_, ?_⟩
  · -- mapKey
    intro k' c hk
    rcases hget k' c hk with ⟨e1, e2⟩ | ⟨_, h1⟩
    · rw [e1, e2]; exact hvkey
    · rw [(hframe _ (hm.bound k' c h1)).1]; exact h.mapKey k' c h1
  · -- mapId
    intro k' c hk
    rcases hget k' c hk with ⟨_, e2⟩ | ⟨_, h1⟩
    · rw [e2]; exact ⟨hvb.2.1, hvb.2.2.1⟩
    · exact ⟨Nat.lt_of_lt_of_le (h.mapId k' c h1).1 hnext,
        Nat.lt_of_lt_of_le (h.mapId k' c h1).2 hnext⟩
  · -- idInj
    intro k1 k2 c1 c2 hk1 hk2 e
    rcases hget k1 c1 hk1 with ⟨a1, a2⟩ | ⟨a1, a2⟩ <;> rcases hget k2 c2 hk2 with ⟨b1, b2⟩ | ⟨b1, b2⟩
    · rw [a1, b1]
    · exfalso
      have := (h.mapId k2 c2 b2).1
      rw [← e, a2] at this
      exact Nat.lt_irrefl _ (Nat.lt_of_lt_of_le this hvb.2.2.2)
    · exfalso
      have := (h.mapId k1 c1 a2).1
      rw [e, b2] at this
      exact Nat.lt_irrefl _ (Nat.lt_of_lt_of_le this hvb.2.2.2)
    · exact h.idInj k1 k2 c1 c2 a2 b2 e
  · -- slotInj
    intro k1 k2 c1 c2 hk1 hk2 e
    rcases hget k1 c1 hk1 with ⟨a1, a2⟩ | ⟨a1, a2⟩ <;> rcases hget k2 c2 hk2 with ⟨b1, b2⟩ | ⟨b1, b2⟩
    · rw [a1, b1]
    · exact absurd ((hslot k2 c2 b2).mp (by rw [← e, a2])) b1
    · exact absurd ((hslot k1 c1 a2).mp (by rw [e, b2])) a1
    · exact h.slotInj k1 k2 c1 c2 a2 b2 e
  · -- nodeKey
    intro n hn
    rw [hprob] at hn
    rw [(hframe _ (node_info_lt hc hn)).1]; exact h.nodeKey n hn
  · -- nodeCur
    intro n hn
    rw [hprob] at hn
    rcases h.nodeCur n hn with h1 | ⟨k0, v0, h1, h2⟩
    · exact Or.inl (hcur _ h1)
    · exact Or.inr ⟨k0, v0, hmemQ _ h1, h2⟩
  · -- cur
    intro k' c hk
    rcases hget k' c hk with ⟨e1, e2⟩ | ⟨_, h1⟩
    · rw [e1, e2]
      exact Or.inl ⟨hash, o, w, List.mem_append_right _ List.mem_cons_self⟩
    · rcases h.cur k' c h1 with ⟨hh, oo, ww, h2⟩ | h2
      · exact Or.inl ⟨hh, oo, ww, hmemQ _ h2⟩
      · have hf := hframe _ (hm.bound k' c h1)
        exact Or.inr (by rw [hf.2.2.1, hf.2.1]; exact h2)
  · -- remDead
    intro k0 v0 hq
    rcases List.mem_append.mp hq with hq | hq
    · intro ⟨k', c, h1, h2⟩
      rcases hget k' c h1 with ⟨_, e2⟩ | ⟨_, h3⟩
      · have hlt : ve.info < s.nextId := by
          rw [← e2, h2]; exact h.remBound k0 v0 hq
        refine h.remDead k0 v0 hq ?_
        rw [← h2, e2]; exact hdead hlt
      · exact h.remDead k0 v0 hq ⟨k', c, h3, h2⟩
    · simp only [List.mem_singleton] at hq; cases hq
  · -- remBound
    intro k0 v0 hq
    rcases List.mem_append.mp hq with hq | hq
    · exact Nat.lt_of_lt_of_le (h.remBound k0 v0 hq) hnext
    · simp only [List.mem_singleton] at hq; cases hq
  · -- upKey
    intro k0 h0 v0 o0 w0 hq
    rcases List.mem_append.mp hq with hq | hq
    · have := h.upKey k0 h0 v0 o0 w0 hq
      exact ⟨by rw [(hframe _ this.2).1]; exact this.1, Nat.lt_of_lt_of_le this.2 hnext⟩
    · simp only [List.mem_singleton] at hq
      injection hq with e1 _ e3
      rw [e1, e3]; exact ⟨hvkey, hvb.1⟩
  · -- upSlot
    intro k0 h0 v0 o0 w0 hq c hk hi
    rcases List.mem_append.mp hq with hq | hq
    · rcases hget k0 c hk with ⟨e1, e2⟩ | ⟨_, h3⟩
      · have hlt : ve.info < s.nextId := by
          rw [← e2, hi]; exact (h.upKey k0 h0 v0 o0 w0 hq).2
        obtain ⟨c0, g1, g2, g3⟩ := hold hlt
        rw [e2, ← g3]
        rw [e1] at hq
        exact h.upSlot k h0 v0 o0 w0 hq c0 g1 (by rw [g2, ← e2]; exact hi)
      · exact h.upSlot k0 h0 v0 o0 w0 hq c h3 hi
    · simp only [List.mem_singleton] at hq
      injection hq with e1 _ e3
      rw [e1, hgetk] at hk
      rw [e3, ← Option.some.inj hk]
  · -- probSlot
    intro n hn k' c hk hi
    rw [hprob] at hn
    rcases hget k' c hk with ⟨_, e2⟩ | ⟨_, h3⟩
    · have hlt : ve.info < s.nextId := by rw [← e2, hi]; exact node_info_lt hc hn
      obtain ⟨c0, g1, g2, g3⟩ := hold hlt
      rw [e2, ← g3]
      exact h.probSlot n hn k c0 g1 (by rw [g2, ← e2]; exact hi)
    · exact h.probSlot n hn k' c h3 hi
  · -- woSlot
    intro n hn k' c hk hi
    rw [hwo] at hn
    rcases hget k' c hk with ⟨_, e2⟩ | ⟨_, h3⟩
    · have hlt : ve.info < s.nextId := by rw [← e2, hi]; exact wo_info_lt hc hn
      obtain ⟨c0, g1, g2, g3⟩ := hold hlt
      rw [e2, ← g3]
      exact h.woSlot n hn k c0 g1 (by rw [g2, ← e2]; exact hi)
    · exact h.woSlot n hn k' c h3 hi
  · -- dirtyQ
    intro k' c hk hd
    rcases hget k' c hk with ⟨_, e2⟩ | ⟨hne, h3⟩
    · exact ⟨k, hash, ve, o, w, List.mem_append_right _ List.mem_cons_self, by rw [e2]⟩
    · by_cases e : c.info = ve.info
      · exact ⟨k, hash, ve, o, w, List.mem_append_right _ List.mem_cons_self, e.symm⟩
      · obtain ⟨k0, h0, v0, o0, w0, hq, hi⟩ :=
          h.dirtyQ k' c h3 ((hframe _ (hm.bound k' c h3)).2.2.2 e hd)
        exact ⟨k0, h0, v0, o0, w0, hmemQ _ hq, hi⟩
  · -- wsum
    rw [hcws, h.wsum]
    exact (wsumOf_congr (by rw [hprob]) (fun n hn => (hframe _ (node_info_lt hc hn)).2.1)).symm

/-- The map step of `invalidate`: the entry leaves the map and its `remove` becomes
pending. -/
theorem CInv.invalidate {p : Params} {s : SState} {Q : List WOp} (h : CInv p s Q) (hm : MapOK s)
    {k : Nat} {ve : VE} (hk : AL.get? s.map k = some ve) :
    CInv p { s with map := AL.erase s.map k } (Q ++ [WOp.remove k ve]) := by
  have hsub : ∀ k' c, AL.get? (AL.erase s.map k) k' = some c →
      k' ≠ k ∧ AL.get? s.map k' = some c := by
    intro k' c hc
    rw [AL.get?_erase k k' hm.kn] at hc
    by_cases e : k = k'
    · simp [e] at hc
    · rw [if_neg e] at hc; exact ⟨fun e' => e e'.symm, hc⟩
  have hmemQ : ∀ op, op ∈ Q → op ∈ Q ++ [WOp.remove k ve] :=
    fun op hop => List.mem_append_left _ hop
  have hcur : ∀ i, Cur { s with map := AL.erase s.map k } i → Cur s i :=
    fun i ⟨k', c, h1, h2⟩ => ⟨k', c, (hsub k' c h1).2, h2⟩
  refine ⟨?_, ?_, ?_, ?_, h.nodeKey, ?_, ?_, ?_, ?_, ?_, ?_, ?_, ?_, ?_, h.wsum⟩
  · intro k' c hc; exact h.mapKey k' c (hsub k' c hc).2
  · intro k' c hc; exact h.mapId k' c (hsub k' c hc).2
  · intro k1 k2 c1 c2 h1 h2; exact h.idInj k1 k2 c1 c2 (hsub k1 c1 h1).2 (hsub k2 c2 h2).2
  · intro k1 k2 c1 c2 h1 h2; exact h.slotInj k1 k2 c1 c2 (hsub k1 c1 h1).2 (hsub k2 c2 h2).2
  · intro n hn
    rcases h.nodeCur n hn with ⟨k', c, h1, h2⟩ | ⟨k0, v0, h1, h2⟩
    · by_cases e : k' = k
      · rw [e, hk] at h1
        refine Or.inr ⟨k, ve, List.mem_append_right _ List.mem_cons_self, ?_⟩
        rw [Option.some.inj h1]; exact h2
      · refine Or.inl ⟨k', c, ?_, h2⟩
        show AL.get? (AL.erase s.map k) k' = some c
        rw [AL.get?_erase k k' hm.kn, if_neg (fun e' => e e'.symm)]; exact h1
    · exact Or.inr ⟨k0, v0, hmemQ _ h1, h2⟩
  · intro k' c hc
    rcases h.cur k' c (hsub k' c hc).2 with ⟨hh, oo, ww, h2⟩ | h2
    · exact Or.inl ⟨hh, oo, ww, hmemQ _ h2⟩
    · exact Or.inr h2
  · intro k0 v0 hq
    rcases List.mem_append.mp hq with hq | hq
    · exact fun hc => h.remDead k0 v0 hq (hcur _ hc)
    · simp only [List.mem_singleton] at hq
      injection hq with _ e2
      rw [e2]
      intro ⟨k', c, h1, h2⟩
      obtain ⟨g1, g2⟩ := hsub k' c h1
      have a1 := h.mapKey k' c g2
      have a2 := h.mapKey k ve hk
      rw [h2, a2] at a1
      exact g1 a1.symm
  · intro k0 v0 hq
    rcases List.mem_append.mp hq with hq | hq
    · exact h.remBound k0 v0 hq
    · simp only [List.mem_singleton] at hq
      injection hq with _ e2
      rw [e2]; exact hm.bound k ve hk
  · intro k0 h0 v0 o0 w0 hq
    rcases List.mem_append.mp hq with hq | hq
    · exact h.upKey k0 h0 v0 o0 w0 hq
    · simp only [List.mem_singleton] at hq; cases hq
  · intro k0 h0 v0 o0 w0 hq c hc
    rcases List.mem_append.mp hq with hq | hq
    · exact h.upSlot k0 h0 v0 o0 w0 hq c (hsub k0 c hc).2
    · simp only [List.mem_singleton] at hq; cases hq
  · intro n hn k' c hc; exact h.probSlot n hn k' c (hsub k' c hc).2
  · intro n hn k' c hc; exact h.woSlot n hn k' c (hsub k' c hc).2
  · intro k' c hc hd
    obtain ⟨k0, h0, v0, o0, w0, hq, hi⟩ := h.dirtyQ k' c (hsub k' c hc).2 hd
    exact ⟨k0, h0, v0, o0, w0, hmemQ _ hq, hi⟩

/-! ### the public API -/

theorem TInv.cinv {p : Params} {s : SState} (h : TInv p s []) :
    CInv p { s with cec := s.ec, cws := s.ws } s.writeQ := by
  have := h.c
  rw [List.append_nil] at this
  exact this

theorem insert_t {p : Params} (hq : NoQuirks p) (hsm : SmallSketch p) {s : SState}
    (h : TInv p s []) (k v : Nat) : TInv p (insert p s k v) [] := by
  have hd8 : p.q.d8 = false := by rw [hq]
  have hc := h.cinv
  have hnc : NodesCore { s with cec := s.ec, cws := s.ws } :=
    h.top.nodes.toNodesCore.congr (fun _ => rfl) (fun _ => rfl) (fun _ => rfl)
      (List.Perm.refl _) (List.Perm.refl _) (Nat.le_refl _)
  have hmo : MapOK { s with cec := s.ec, cws := s.ws } := ⟨h.top.map.kn, h.top.map.bound⟩
  unfold insert
  dsimp only
  split
  · rename_i old hg
    have hold := h.top.map.bound k old hg
    apply scheduleWriteOp_t hq hsm 2
    refine ⟨?_, qinv_of_eq h.q rfl rfl rfl, ?_⟩
    · have h1 : TopInv Sketch.Good (refreshInfo p s old.info s.now (p.weigh k v)) :=
        h.top.withInfo _ _ rfl rfl rfl
      have hm1 : (refreshInfo p s old.info s.now (p.weigh k v)).map = s.map := rfl
      have hn1 : (refreshInfo p s old.info s.now (p.weigh k v)).nextId = s.nextId := rfl
      generalize refreshInfo p s old.info s.now (p.weigh k v) = s1 at h1 hm1 hn1 ⊢
      refine ⟨⟨⟨h1.nodes.toNodesCore.congr (fun _ => rfl) (fun _ => rfl) (fun _ => rfl)
        (List.Perm.refl _) (List.Perm.refl _) (Nat.le_succ _), h1.nodes.count⟩, ?_,
        ⟨h1.sk.sk, h1.sk.skOff⟩⟩, h1.nofault⟩
      exact mapOK_put h1.map k _ (s1.nextId + 1) (by simp only; rw [hn1]; omega) (Nat.le_succ _) _
        rfl rfl rfl
    · refine CInv.put hc hnc hmo k (p.hash k)
        { id := s.nextId, val := v, info := old.info, slot := old.slot }
        (getInfo s old.info).weight (p.weigh k v) rfl (Nat.le_succ _) ?_ ?_ ?_ ?_ ?_
        (fun _ => ⟨k, old, hg, rfl⟩) rfl rfl rfl
      · intro j _
        show (getInfo (refreshInfo p s old.info s.now (p.weigh k v)) j).key = (getInfo s j).key ∧
          (getInfo (refreshInfo p s old.info s.now (p.weigh k v)) j).weight = (getInfo s j).weight ∧
          (getInfo (refreshInfo p s old.info s.now (p.weigh k v)) j).admitted
            = (getInfo s j).admitted ∧
          (j ≠ old.info → (getInfo (refreshInfo p s old.info s.now (p.weigh k v)) j).dirty = true →
            (getInfo s j).dirty = true)
        unfold refreshInfo
        rw [getInfo_withInfo]
        by_cases e : old.info = j
        · rw [if_pos e, ← e]
          simp only [hd8, Bool.false_eq_true, if_false, true_and]
          exact fun hne => absurd rfl hne
        · rw [if_neg e]; exact ⟨rfl, rfl, rfl, fun _ hd => hd⟩
      · show (getInfo (refreshInfo p s old.info s.now (p.weigh k v)) old.info).key = k
        unfold refreshInfo
        rw [getInfo_withInfo, if_pos rfl]
        exact hc.mapKey k old hg
      · exact ⟨Nat.lt_succ_of_lt hold, Nat.lt_succ_self _,
          Nat.lt_succ_of_lt (hc.mapId k old hg).2, Nat.le_refl _⟩
      · intro k' c hk'
        constructor
        · intro e; exact hc.slotInj k' k c old hk' hg e
        · intro e
          rw [e] at hk'
          have : old = c := Option.some.inj (hg.symm.trans hk')
          rw [this]
      · intro k' c hk'
        constructor
        · intro e
          have a1 := hc.mapKey k' c hk'
          have a2 := hc.mapKey k old hg
          rw [e] at a1
          exact a1.symm.trans a2
        · intro e
          rw [e] at hk'
          have : old = c := Option.some.inj (hg.symm.trans hk')
          rw [this]
  · rename_i hg
    apply scheduleWriteOp_t hq hsm 2
    have hna := h.top.nodes.infoFresh s.nextId (Nat.le_refl _)
    have hao := h.top.nodes.toNodesCore.notAdm_ao hna
    have hwo := h.top.nodes.toNodesCore.notAdm_wo hna
    refine ⟨?_, qinv_of_eq h.q rfl rfl rfl, ?_⟩
    · refine ⟨⟨⟨h.top.nodes.toNodesCore.congr ?_ ?_ ?_ (List.Perm.refl _) (List.Perm.refl _)
        (Nat.le_add_right _ 2), h.top.nodes.count⟩, ?_, ⟨h.top.sk.sk, h.top.sk.skOff⟩⟩,
        h.top.nofault⟩
      · intro j
        simp only [getInfo, AL.get?_put]
        by_cases e : s.nextId = j
        · subst e; simp only [if_true, Option.getD_some]; exact hao.symm
        · simp only [e, if_false]
      · intro j
        simp only [getInfo, AL.get?_put]
        by_cases e : s.nextId = j
        · subst e; simp only [if_true, Option.getD_some]; exact hwo.symm
        · simp only [e, if_false]
      · intro j
        simp only [getInfo, AL.get?_put]
        by_cases e : s.nextId = j
        · subst e; simp only [if_true, Option.getD_some]; exact hna.symm
        · simp only [e, if_false]
      · exact mapOK_put h.top.map k _ (s.nextId + 2) (by simp only; omega)
          (Nat.le_add_right _ 2) _ rfl rfl rfl
    · refine CInv.put hc hnc hmo k (p.hash k)
        { id := s.nextId + 1, val := v, info := s.nextId, slot := s.nextId + 1 }
        0 (p.weigh k v) rfl (Nat.le_add_right _ 2) ?_ ?_ ?_ ?_ ?_ ?_ rfl rfl rfl
      · intro j hj
        have e : ¬ s.nextId = j := fun e => Nat.lt_irrefl _ (e ▸ hj)
        simp only [getInfo, AL.get?_put, if_neg e, true_and]
        exact fun _ hd => hd
      · simp only [getInfo, AL.get?_put, if_true, Option.getD_some]
      · refine ⟨?_, ?_, ?_, ?_⟩ <;> simp only <;> omega
      · intro k' c hk'
        constructor
        · intro e
          have := (hc.mapId k' c hk').2
          simp only at e this
          omega
        · intro e
          rw [e] at hk'
          rw [hg] at hk'; cases hk'
      · intro k' c hk'
        constructor
        · intro e
          have := hmo.bound k' c hk'
          simp only at e this
          omega
        · intro e
          rw [e] at hk'
          rw [hg] at hk'; cases hk'
      · intro hlt
        exact absurd hlt (Nat.lt_irrefl _)

theorem invalidate_t {p : Params} (hq : NoQuirks p) (hsm : SmallSketch p) {s : SState}
    (h : TInv p s []) (k : Nat) : TInv p (invalidate p s k) [] := by
  unfold invalidate
  split
  · exact h
  · rename_i ve hg
    dsimp only
    apply scheduleWriteOp_t hq hsm 2
    refine ⟨?_, qinv_of_eq h.q rfl rfl rfl, ?_⟩
    · exact ⟨⟨⟨h.top.nodes.toNodesCore.congr (fun _ => rfl) (fun _ => rfl) (fun _ => rfl)
        (List.Perm.refl _) (List.Perm.refl _) (Nat.le_refl _), h.top.nodes.count⟩,
        h.top.map.frame0 (frame0_erase s k), ⟨h.top.sk.sk, h.top.sk.skOff⟩⟩, h.top.nofault⟩
    · exact CInv.invalidate (s := { s with cec := s.ec, cws := s.ws }) h.cinv
        ⟨h.top.map.kn, h.top.map.bound⟩ hg

theorem get_t {p : Params} (hq : NoQuirks p) (hsm : SmallSketch p) {s : SState}
    (h : TInv p s []) (k : Nat) : TInv p (get p s k).1 [] := by
  unfold get
  dsimp only
  split
  · exact recordReadOp_t hq hsm _ h
  · split
    · exact recordReadOp_t hq hsm _ h
    · exact recordReadOp_t hq hsm _ h

theorem sync_t {p : Params} (hq : NoQuirks p) (hsm : SmallSketch p) {s : SState}
    (h : TInv p s []) : TInv p (syncRun p s) [] := by
  refine ⟨syncRun_inv sketchLaws hq hsm h.top, (syncOp_spec p h.q).1, ?_⟩
  rw [syncRun_writeQ, List.nil_append]
  exact syncRun_ctop sketchLaws hq hsm [] h.top h.c

theorem TInv.of_eq {p : Params} {s s' : SState} (h : TInv p s [])
    (hm : s'.map = s.map) (hi : s'.infos = s.infos) (hp : s'.prob = s.prob) (hw : s'.wo = s.wo)
    (hn : s'.nextId = s.nextId) (hc : s'.ec = s.ec) (hws : s'.ws = s.ws)
    (hsk : s'.sk = s.sk) (hon : s'.skOn = s.skOn) (hf : s'.fault = s.fault)
    (hg : s'.running = s.running) (hwq : s'.writeQ = s.writeQ) (hrq : s'.readQ = s.readQ) :
    TInv p s' [] :=
  ⟨h.top.of_eq hi hp hw hn hc hm hsk hon hf, qinv_of_eq h.q hg hwq hrq,
    by rw [hwq]; exact h.c.of_eq hm hi hp hw hws hn⟩

theorem init_t (p : Params) : TInv p {} [] := by
  refine ⟨init_inv sketchLaws, qinv_init, ?_⟩
  have hnil : ∀ k (ve : VE), AL.get? ([] : List (Nat × VE)) k = some ve → False :=
    fun _ _ hx => by cases hx
  exact
    { mapKey := fun k ve hk => (hnil k ve hk).elim
      mapId := fun k ve hk => (hnil k ve hk).elim
      idInj := fun k _ ve _ hk => (hnil k ve hk).elim
      slotInj := fun k _ ve _ hk => (hnil k ve hk).elim
      nodeKey := fun _ hn => nomatch hn
      nodeCur := fun _ hn => nomatch hn
      cur := fun k ve hk => (hnil k ve hk).elim
      remDead := fun _ _ hq => nomatch hq
      remBound := fun _ _ hq => nomatch hq
      upKey := fun _ _ _ _ _ hq => nomatch hq
      upSlot := fun _ _ _ _ _ hq => nomatch hq
      probSlot := fun _ hn => nomatch hn
      woSlot := fun _ hn => nomatch hn
      dirtyQ := fun k ve hk => (hnil k ve hk).elim
      wsum := rfl }

/-- Every API call keeps the invariant of the reachable states. -/
theorem step_t {p : Params} (hq : NoQuirks p) (hsm : SmallSketch p) {s : SState}
    (h : TInv p s []) (op : Op) : TInv p (step p s op).1 [] := by
  unfold step
  rw [if_neg (by rw [h.top.nofault]; exact Bool.false_ne_true)]
  dsimp only
  have key : ∀ r : SState × Obs, TInv p r.1 [] →
      TInv p (match r.1.fault with | some f => (r.1, Obs.panic f) | none => r).1 [] := by
    intro r hr
    split <;> exact hr
  apply key
  cases op with
  | ins k v => exact insert_t hq hsm h k v
  | get k => exact get_t hq hsm h k
  | has k => exact h
  | iter => exact h
  | inv k => exact invalidate_t hq hsm h k
  | invAll => exact h.of_eq rfl rfl rfl rfl rfl rfl rfl rfl rfl rfl rfl rfl rfl
  | invIf pr => exact h
  | sync => exact sync_t hq hsm h
  | adv d => exact h.of_eq rfl rfl rfl rfl rfl rfl rfl rfl rfl rfl rfl rfl rfl
  | snap => exact h
  | freq k => exact h

/-! ### what the invariant says about a state -/

/-- If `f` is injective along a key `g` that is duplicate-free on `l`, `l.map f` is
duplicate-free. -/
theorem nodup_map_of {α : Type} (f g : α → Nat) : ∀ (l : List α), (l.map g).Nodup →
    (∀ a, a ∈ l → ∀ b, b ∈ l → f a = f b → g a = g b) → (l.map f).Nodup := by
  intro l
  induction l with
  | nil => intro _ _; exact List.nodup_nil
  | cons x l ih =>
    intro hn hinj
    simp only [List.map_cons, List.nodup_cons] at hn ⊢
    refine ⟨?_, ih hn.2 (fun a ha b hb => hinj a (List.mem_cons_of_mem _ ha) b
      (List.mem_cons_of_mem _ hb))⟩
    intro hx
    obtain ⟨b, hb, e⟩ := List.mem_map.mp hx
    refine hn.1 ?_
    rw [hinj x List.mem_cons_self b (List.mem_cons_of_mem _ hb) e.symm]
    exact List.mem_map.mpr ⟨b, hb, rfl⟩

/-- Distinct entries of the map have distinct value-entry identities and key objects. -/
theorem map_ids_nodup {p : Params} {s : SState} (h : TInv p s []) :
    (s.map.map (·.2.id)).Nodup ∧ (s.map.map (·.2.slot)).Nodup := by
  have hc := h.cinv
  have hkn : (s.map.map (·.1)).Nodup := by rw [← AL.keys_eq_map]; exact h.top.map.kn
  constructor
  · refine nodup_map_of _ (·.1) s.map hkn ?_
    intro a ha b hb e
    exact hc.idInj a.1 b.1 a.2 b.2 (AL.get?_of_mem h.top.map.kn ha)
      (AL.get?_of_mem h.top.map.kn hb) e
  · refine nodup_map_of _ (·.1) s.map hkn ?_
    intro a ha b hb e
    exact hc.slotInj a.1 b.1 a.2 b.2 (AL.get?_of_mem h.top.map.kn ha)
      (AL.get?_of_mem h.top.map.kn hb) e

/-- The map holds at most `entry_count + |write queue|` entries. -/
theorem map_length_le {p : Params} {s : SState} (h : TInv p s []) :
    s.map.length ≤ s.ec + s.writeQ.length := by
  have hc := h.cinv
  have hnc := h.top.nodes
  let opKey : WOp → Nat := fun op => match op with
    | .upsert k _ _ _ _ => k
    | .remove k _ => k
  have h1 : (AL.keys s.map).length ≤ (s.prob.map (·.key) ++ s.writeQ.map opKey).length := by
    refine nodup_length_le _ _ h.top.map.kn ?_
    intro k hk
    obtain ⟨ve, hve⟩ : ∃ ve, AL.get? s.map k = some ve := by
      have := (AL.get?_isSome_iff s.map k).mpr hk
      cases hx : AL.get? s.map k with
      | none => rw [hx] at this; cases this
      | some ve => exact ⟨ve, rfl⟩
    rcases hc.cur k ve hve with ⟨hh, o, w, hq⟩ | ⟨hadm, _⟩
    · exact List.mem_append_right _ (List.mem_map.mpr ⟨_, hq, rfl⟩)
    · obtain ⟨id, hao⟩ := hnc.toNodesCore.adm_ao hadm
      obtain ⟨n, hn, _, hni⟩ := hnc.aoNode _ _ hao
      refine List.mem_append_left _ (List.mem_map.mpr ⟨n, hn, ?_⟩)
      have a1 := hc.nodeKey n hn
      have a2 := hc.mapKey k ve hve
      rw [hni] at a1
      exact a1.symm.trans a2
  rw [AL.keys_eq_map, List.length_map, List.length_append, List.length_map, List.length_map,
    ← hnc.count] at h1
  exact h1

/-- With an empty write queue: every entry is admitted and owns exactly one node; the
published counters are the number of entries and the sum of their policy weights, which
are the weigher applied to key and value; the nodes hold key objects of the map. -/
theorem quiescent {p : Params} {s : SState} (h : TInv p s []) (hw : s.writeQ = []) :
    s.ec = s.map.length ∧
    s.ws = (s.map.map fun kv => (getInfo s kv.2.info).weight).sum ∧
    (∀ kv, kv ∈ s.map → (getInfo s kv.2.info).weight = p.weigh kv.1 kv.2.val) ∧
    (∀ n, n ∈ s.prob → n.kobj ∈ s.map.map (·.2.slot)) ∧
    (∀ n, n ∈ s.wo → n.kobj ∈ s.map.map (·.2.slot)) := by
  have hc := h.cinv
  rw [hw] at hc
  have hnc := h.top.nodes
  have hkn := h.top.map.kn
  have hadm : ∀ k ve, AL.get? s.map k = some ve → (getInfo s ve.info).admitted = true ∧
      (getInfo s ve.info).weight = p.weigh k ve.val := by
    intro k ve hk
    rcases hc.cur k ve hk with ⟨_, _, _, hq⟩ | h1
    · cases hq
    · exact h1
  have hcur : ∀ n, n ∈ s.prob → ∃ k ve, AL.get? s.map k = some ve ∧ ve.info = n.info := by
    intro n hn
    rcases hc.nodeCur n hn with h1 | ⟨_, _, hq, _⟩
    · exact h1
    · cases hq
  have hperm : (s.prob.map (·.info)).Perm (s.map.map (·.2.info)) := by
    refine (List.perm_ext_iff_of_nodup ?_ ?_).mpr ?_
    · refine nodup_map_of _ (·.id) s.prob hnc.probIds ?_
      intro a ha b hb e
      exact hnc.toNodesCore.info_inj ha hb e
    · refine nodup_map_of _ (·.1) s.map (by rw [← AL.keys_eq_map]; exact hkn) ?_
      intro a ha b hb e
      have a1 := hc.mapKey a.1 a.2 (AL.get?_of_mem hkn ha)
      have a2 := hc.mapKey b.1 b.2 (AL.get?_of_mem hkn hb)
      have e' : a.2.info = b.2.info := e
      rw [e'] at a1
      exact a1.symm.trans a2
    · intro i
      constructor
      · intro hi
        obtain ⟨n, hn, rfl⟩ := List.mem_map.mp hi
        obtain ⟨k, ve, h1, h2⟩ := hcur n hn
        exact List.mem_map.mpr ⟨(k, ve), AL.mem_of_get? h1, h2⟩
      · intro hi
        obtain ⟨kv, hkv, rfl⟩ := List.mem_map.mp hi
        have hg := AL.get?_of_mem (x := kv.1) (v := kv.2) hkn hkv
        obtain ⟨id, hao⟩ := hnc.toNodesCore.adm_ao (hadm kv.1 kv.2 hg).1
        obtain ⟨n, hn, _, hni⟩ := hnc.aoNode _ _ hao
        exact List.mem_map.mpr ⟨n, hn, hni⟩
  refine ⟨?_, ?_, ?_, ?_, ?_⟩
  · have := hperm.length_eq
    rw [List.length_map, List.length_map] at this
    rw [hnc.count]; exact this
  · have h1 : s.ws = wsumOf s := hc.wsum
    have h2 := (hperm.map (fun i => (getInfo s i).weight)).sum_nat
    rw [List.map_map, List.map_map] at h2
    rw [h1]
    exact h2
  · intro kv hkv
    exact (hadm kv.1 kv.2 (AL.get?_of_mem hkn hkv)).2
  · intro n hn
    obtain ⟨k, ve, h1, h2⟩ := hcur n hn
    rw [hc.probSlot n hn k ve h1 h2]
    exact List.mem_map.mpr ⟨(k, ve), AL.mem_of_get? h1, rfl⟩
  · intro n hn
    have a1 := hnc.woOwn n hn
    have a2 := hnc.woAdm n.info (by rw [a1]; rfl)
    obtain ⟨id, hao⟩ := hnc.toNodesCore.adm_ao a2
    obtain ⟨m, hm, _, hmi⟩ := hnc.aoNode _ _ hao
    obtain ⟨k, ve, h1, h2⟩ := hcur m hm
    rw [hc.woSlot n hn k ve h1 (h2.trans hmi)]
    exact List.mem_map.mpr ⟨(k, ve), AL.mem_of_get? h1, rfl⟩

/-- The invariant holds after every history. -/
theorem stateAfter_t {p : Params} (hq : NoQuirks p) (hsm : SmallSketch p) (h : List Op) :
    ∀ {s : SState}, TInv p s [] → TInv p (stateAfter p s h) [] := by
  induction h with
  | nil => intro s hs; exact hs
  | cons op rest ih => intro s hs; exact ih (step_t hq hsm hs op)

/-! ### the capacity after a maintenance run

With nothing pending (`Q = []`) every node of the access-order list belongs to the map's
entry of its key and no entry is dirty, so every iteration of the LRU eviction loop evicts
the head of the list: the loop stops when enough weight has been evicted, when the list is
empty, or when its batch (`SYNC_EVICTION_BATCH_SIZE` iterations) is used up. -/

theorem frame_map_length {s s' : SState} (hf : Frame s s') (hkn : (AL.keys s.map).Nodup) :
    s'.map.length ≤ s.map.length := by
  have h1 : (AL.keys s'.map).length ≤ (AL.keys s.map).length := by
    refine nodup_length_le _ _ (hf.kn hkn) ?_
    intro k hk
    have := (AL.get?_isSome_iff s'.map k).mpr hk
    cases hx : AL.get? s'.map k with
    | none => rw [hx] at this; cases this
    | some ve => exact AL.mem_keys_of_get? (hf.mapSub hkn k ve hx)
  rw [AL.keys_eq_map, AL.keys_eq_map, List.length_map, List.length_map] at h1
  exact h1

/-- With an empty logical queue the head of the access-order list is evicted. -/
theorem evictLruLoop_step {p : Params} (hq : NoQuirks p) {s : SState} (h : G p s [])
    (fuel wte ev : Nat) (hlt : ¬ ev ≥ wte) {n : AoNode} {rest : List AoNode}
    (hp : s.prob = n :: rest) :
    ∃ ve, AL.get? s.map n.key = some ve ∧ ve.info = n.info ∧
      evictLruLoop p (fuel + 1) s wte ev =
        evictLruLoop p fuel (handleRemove { s with map := AL.erase s.map n.key } ve) wte
          (ev + (getInfo s ve.info).weight) := by
  have hd7 : p.q.d7 = false := by rw [hq]
  have hn : n ∈ s.prob := by rw [hp]; exact List.mem_cons_self
  obtain ⟨ve, hve, hvi⟩ : ∃ ve, AL.get? s.map n.key = some ve ∧ ve.info = n.info := by
    rcases h.inv.nodeCur n hn with ⟨k, ve, h1, h2⟩ | ⟨_, _, hq', _⟩
    · have a1 := h.inv.mapKey k ve h1
      have a2 := h.inv.nodeKey n hn
      rw [h2, a2] at a1
      rw [← a1] at h1
      exact ⟨ve, h1, h2⟩
    · cases hq'
  have hnd : (getInfo s n.info).dirty = false := by
    cases hx : (getInfo s n.info).dirty with
    | false => rfl
    | true =>
      obtain ⟨_, _, _, _, _, hq', _⟩ := h.inv.dirtyQ n.key ve hve (by rw [hvi]; exact hx)
      cases hq'
  have hE : entryOfNode p s n.key n.info = some ve := by
    unfold entryOfNode
    rw [hve]
    dsimp only
    rw [hd7, Bool.false_or, hvi, if_pos (beq_self_eq_true _)]
  refine ⟨ve, hve, hvi, ?_⟩
  rw [evictLruLoop, if_neg hlt]
  simp only [hp]
  rw [hnd]
  simp only [Bool.false_eq_true, if_false]
  rw [hE]
  dsimp only
  rw [hvi, if_pos (beq_self_eq_true _)]
  dsimp only
  rw [hvi]

theorem evictLruLoop_progress {p : Params} (hq : NoQuirks p) (wte : Nat) :
    ∀ (fuel : Nat) (s : SState) (ev : Nat), G p s [] →
      G p (evictLruLoop p fuel s wte ev) [] ∧
      (wte ≤ ev + (s.cws - (evictLruLoop p fuel s wte ev).cws) ∨
        (evictLruLoop p fuel s wte ev).prob = [] ∨
        (evictLruLoop p fuel s wte ev).map.length + fuel ≤ s.map.length) ∧
      (evictLruLoop p fuel s wte ev).cws ≤ s.cws ∧
      (evictLruLoop p fuel s wte ev).map.length ≤ s.map.length := by
  intro fuel
  induction fuel with
  | zero =>
    intro s ev h
    exact ⟨h, Or.inr (Or.inr (Nat.le_refl _)), Nat.le_refl _, Nat.le_refl _⟩
  | succ fuel ih =>
    intro s ev h
    by_cases hlt : ev ≥ wte
    · have : evictLruLoop p (fuel + 1) s wte ev = s := by
        rw [evictLruLoop, if_pos hlt]
      rw [this]
      exact ⟨h, Or.inl (by omega), Nat.le_refl _, Nat.le_refl _⟩
    · cases hp : s.prob with
      | nil =>
        have : evictLruLoop p (fuel + 1) s wte ev = s := by
          rw [evictLruLoop, if_neg hlt]
          simp only [hp]
        rw [this]
        exact ⟨h, Or.inr (Or.inl hp), Nat.le_refl _, Nat.le_refl _⟩
      | cons n rest =>
        obtain ⟨ve, hve, hvi, heq⟩ := evictLruLoop_step hq h fuel wte ev hlt hp
        rw [heq]
        have hn : n ∈ s.prob := by rw [hp]; exact List.mem_cons_self
        have hadm : (getInfo s ve.info).admitted = true := by rw [hvi]; exact h.safe.probAdm hn
        have hs0 := safe_eraseMap h.safe n.key
        obtain ⟨r1, _, _, _, _, _, _, _, _, _, r11⟩ := handleRemove_spec hs0 ve
        obtain ⟨c1, c2⟩ := r11 hadm
        have hw : (getInfo s ve.info).weight ≤ s.cws := by
          have : wsumOf { s with map := AL.erase s.map n.key } = wsumOf s := rfl
          rw [this, ← h.inv.wsum] at c2
          exact c2
        have hc1 : (handleRemove { s with map := AL.erase s.map n.key } ve).cws =
            s.cws - (getInfo s ve.info).weight := c1
        have hm1 : (handleRemove { s with map := AL.erase s.map n.key } ve).map.length + 1 =
            s.map.length := by
          rw [r1]; exact AL.length_erase_of_get? hve
        obtain ⟨g1, _⟩ := evict_g h hve
        obtain ⟨i1, i2, i3, i4⟩ := ih _ (ev + (getInfo s ve.info).weight) g1
        refine ⟨i1, ?_, by omega, by omega⟩
        rcases i2 with i2 | i2 | i2
        · exact Or.inl (by omega)
        · exact Or.inr (Or.inl i2)
        · exact Or.inr (Or.inr (by omega))

/-- After `Inner::sync` from a reachable state (one thread: nothing is pending once the
queues are drained) the published weighted size is within the capacity, unless the LRU
eviction removed a full batch of entries. -/
theorem syncRun_weight_gen {p : Params} (hq : NoQuirks p) (hsm : SmallSketch p) {s : SState}
    (ht : TopInv Sketch.Good s) (hc : CTop p s (s.writeQ ++ [])) {c : Nat}
    (hcap : p.cap = some c) :
    (syncRun p s).ws ≤ c ∨
      (syncRun p s).map.length + Gen.SYNC_EVICTION_BATCH_SIZE ≤ s.map.length := by
  unfold syncRun
  dsimp only
  have h0 : RunInv Sketch.Good { s with cec := s.ec, cws := s.ws } :=
    ⟨⟨⟨ht.nodes.toNodesCore.congr (fun _ => rfl) (fun _ => rfl) (fun _ => rfl)
        (List.Perm.refl _) (List.Perm.refl _) (Nat.le_refl _), ht.nodes.count⟩, ht.nofault⟩,
     ⟨ht.map.kn, ht.map.bound⟩, ⟨ht.sk.sk, ht.sk.skOff⟩⟩
  have h1 := syncLoop_g sketchLaws hq hsm [] (Gen.MAX_SYNC_REPEATS + 1) _ h0 hc
  have hq1 := (syncLoop_queues p Gen.MAX_SYNC_REPEATS { s with cec := s.ec, cws := s.ws }).1
  have hf1 := syncLoop_frame hq (Gen.MAX_SYNC_REPEATS + 1) { s with cec := s.ec, cws := s.ws }
  generalize syncLoop p (Gen.MAX_SYNC_REPEATS + 1) { s with cec := s.ec, cws := s.ws } = s1
    at h1 hq1 hf1 ⊢
  rw [hq1, List.nil_append] at h1
  have hl1 : s1.map.length ≤ s.map.length :=
    frame_map_length (s := { s with cec := s.ec, cws := s.ws }) hf1 ht.map.kn
  have g1 : G p s1 [] := ⟨h1.1.safe, h1.1.map, h1.2⟩
  have g2 : G p (if (p.hasExpiry || s1.va.isSome) = true then evictExpired p s1 else s1) [] ∧
      (if (p.hasExpiry || s1.va.isSome) = true then evictExpired p s1 else s1).map.length
        ≤ s1.map.length := by
    split
    · exact ⟨evictExpired_g g1, frame_map_length (evictExpired_frame0 p s1).toFrame g1.map.kn⟩
    · exact ⟨g1, Nat.le_refl _⟩
  generalize (if (p.hasExpiry || s1.va.isSome) = true then evictExpired p s1 else s1) = s2
    at g2 ⊢
  obtain ⟨g2, hl2⟩ := g2
  have hwte : weightsToEvict p s2 = s2.cws - c := by
    unfold weightsToEvict; rw [hcap]
  generalize weightsToEvict p s2 = W at hwte ⊢
  by_cases hpos : W > 0
  · rw [if_pos hpos]
    obtain ⟨g3, i2, i3, _⟩ := evictLruLoop_progress hq W Gen.SYNC_EVICTION_BATCH_SIZE s2 0 g2
    show (evictLruLoop p Gen.SYNC_EVICTION_BATCH_SIZE s2 W 0).cws ≤ c ∨
      (evictLruLoop p Gen.SYNC_EVICTION_BATCH_SIZE s2 W 0).map.length +
        Gen.SYNC_EVICTION_BATCH_SIZE ≤ s.map.length
    rcases i2 with i2 | i2 | i2
    · left; omega
    · left
      rw [g3.inv.wsum]
      unfold wsumOf
      rw [i2]
      exact Nat.zero_le _
    · right; omega
  · rw [if_neg hpos]
    left
    show s2.cws ≤ c
    rw [hwte] at hpos
    omega

theorem syncRun_weight {p : Params} (hq : NoQuirks p) (hsm : SmallSketch p) {s : SState}
    (h : TInv p s []) {c : Nat} (hcap : p.cap = some c) :
    (syncRun p s).ws ≤ c ∨
      (syncRun p s).map.length + Gen.SYNC_EVICTION_BATCH_SIZE ≤ s.map.length :=
  syncRun_weight_gen hq hsm h.top h.c hcap

/-! ### the number of entries is bounded by the number of `insert` calls -/

theorem step_map_length {p : Params} (hq : NoQuirks p) {s : SState} (h : TInv p s [])
    (op : Op) :
    (step p s op).1.map.length ≤ s.map.length + (match op with | .ins _ _ => 1 | _ => 0) := by
  have hkn := h.top.map.kn
  have hsched : ∀ (s0 : SState) (wop : WOp), (AL.keys s0.map).Nodup →
      (scheduleWriteOp p 3 s0 wop).map.length ≤ s0.map.length :=
    fun s0 wop hk => frame_map_length (scheduleWriteOp_frame hq 3 s0 wop) hk
  have hread : ∀ rop, (recordReadOp p s rop).map.length ≤ s.map.length := by
    intro rop
    rw [recordReadOp_enqueues p h.q]
    show (housekeepR p s).map.length ≤ s.map.length
    unfold housekeepR
    split
    · exact frame_map_length (trySync_frame hq s) hkn
    · exact Nat.le_refl _
  unfold step
  rw [if_neg (by rw [h.top.nofault]; exact Bool.false_ne_true)]
  dsimp only
  have key : ∀ (N : Nat) (r : SState × Obs), r.1.map.length ≤ N →
      (match r.1.fault with | some f => (r.1, Obs.panic f) | none => r).1.map.length ≤ N := by
    intro N r hr
    split <;> exact hr
  apply key
  cases op with
  | ins k v =>
    show (insert p s k v).map.length ≤ s.map.length + 1
    unfold insert
    dsimp only
    split
    · rename_i old hg
      refine Nat.le_trans (hsched _ _ (AL.nodup_put k _ hkn)) ?_
      show (AL.put s.map k _).length ≤ _
      rw [AL.length_put_of_some _ hg]
      exact Nat.le_succ _
    · rename_i hg
      refine Nat.le_trans (hsched _ _ (AL.nodup_put k _ hkn)) ?_
      show (AL.put s.map k _).length ≤ _
      rw [AL.length_put_of_none _ hg]
      exact Nat.le_refl _
  | get k =>
    show (get p s k).1.map.length ≤ s.map.length + 0
    unfold get
    dsimp only
    split
    · exact hread _
    · split
      · exact hread _
      · exact hread _
  | has k => exact Nat.le_refl _
  | iter => exact Nat.le_refl _
  | inv k =>
    show (invalidate p s k).map.length ≤ s.map.length + 0
    unfold invalidate
    split
    · exact Nat.le_refl _
    · rename_i ve hg
      dsimp only
      refine Nat.le_trans (hsched _ _ (AL.nodup_erase k hkn)) ?_
      show (AL.erase s.map k).length ≤ _
      have := AL.length_erase_of_get? hg
      omega
  | invAll => exact Nat.le_refl _
  | invIf pr => exact Nat.le_refl _
  | sync => exact frame_map_length (syncRun_frame hq s) hkn
  | adv d => exact Nat.le_refl _
  | snap => exact Nat.le_refl _
  | freq k => exact Nat.le_refl _

theorem step_snap_eq {p : Params} {s : SState} (hf : s.fault = none) :
    step p s .snap = (s, .snap (snapshot p s)) := by
  unfold step
  rw [if_neg (by rw [hf]; exact Bool.false_ne_true)]
  dsimp only
  rw [hf]

theorem step_sync_eq {p : Params} {s : SState} (hf : s.fault = none)
    (hf' : (syncRun p s).fault = none) : step p s .sync = (syncRun p s, .ok) := by
  unfold step
  rw [if_neg (by rw [hf]; exact Bool.false_ne_true)]
  dsimp only
  rw [hf']

theorem run_cons_inv {p : Params} {s : SState} {h : List Op} {x : Op × Obs}
    {t : List (Op × Obs)} (e : run p s h = x :: t) :
    ∃ op h', h = op :: h' ∧ x = (op, (step p s op).2) ∧ t = run p (step p s op).1 h' := by
  cases h with
  | nil => cases e
  | cons op h' =>
    have hrun : run p s (op :: h') = (op, (step p s op).2) :: run p (step p s op).1 h' := rfl
    rw [hrun] at e
    injection e with e1 e2
    exact ⟨op, h', rfl, e1.symm, e2.symm⟩

/-! ### the snapshot of a state -/

theorem snapshot_entries_length (p : Params) (s : SState) :
    (snapshot p s).entries.length = s.map.length := by
  simp only [snapshot]
  rw [length_sortBy, List.length_map]

theorem snapshot_sum (p : Params) (s : SState) (f : EntryView → Nat) :
    ((snapshot p s).entries.map f).sum = (s.map.map fun kv => f (entryView s kv)).sum := by
  simp only [snapshot]
  rw [sum_map_sortBy, List.map_map]
  rfl

end Counters
end Sync



namespace Sync
namespace Counters

open Nodes

theorem snapshot_count {p : Params} {s : SState} (h : TInv p s []) :
    decide ((snapshot p s).entries.length ≤ (snapshot p s).ec + (snapshot p s).wq + 1) = true := by
  rw [decide_eq_true_eq, snapshot_entries_length]
  exact Nat.le_succ_of_le (map_length_le h)

/-- The weight clause of the corrected oracle at the snapshot that follows `sync`. -/
theorem snapshot_weight_after_sync {p : Params} (hq : NoQuirks p) (hsm : SmallSketch p)
    {s : SState} (h : TInv p s []) {c : Nat} (hcap : p.cap = some c) (N : Nat)
    (hN : s.map.length ≤ N) :
    (!((snapshot p (syncRun p s)).rq == 0 && (snapshot p (syncRun p s)).wq == 0) ||
      decide (Spec.snapWeight (snapshot p (syncRun p s)) ≤ c) ||
      decide ((snapshot p (syncRun p s)).entries.length + Gen.SYNC_EVICTION_BATCH_SIZE ≤ N))
      = true := by
  have h' := sync_t hq hsm h
  obtain ⟨_, q2, _, _, _⟩ := quiescent h' (syncRun_writeQ p s)
  have hw : Spec.snapWeight (snapshot p (syncRun p s)) = (syncRun p s).ws := by
    unfold Spec.snapWeight
    rw [snapshot_sum, q2]
    rfl
  rw [hw, snapshot_entries_length]
  rcases syncRun_weight hq hsm h hcap with h1 | h1
  · rw [decide_eq_true h1]; simp
  · rw [decide_eq_true (Nat.le_trans h1 hN)]; simp

/-- The corrected capacity oracle accepts every run from a reachable state; `n` bounds the
number of entries of the map. -/
theorem boundC04SyncGo_run {p : Params} (hq : NoQuirks p) (hsm : SmallSketch p) {c : Nat}
    (hcap : p.cap = some c) : ∀ (n : Nat) (t : Spec.Trace) (s : SState) (h : List Op),
      TInv p s [] → s.map.length ≤ n → run p s h = t → Spec.boundC04SyncGo c n t = true := by
  intro n t
  fun_induction Spec.boundC04SyncGo c n t with
  | case1 n mid after tail ih =>
    intro s h hs hn e
    obtain ⟨op1, h1, rfl, e1, e1'⟩ := run_cons_inv e
    injection e1 with a1 b1
    subst a1
    rw [step_snap_eq hs.top.nofault] at b1 e1'
    dsimp only at b1 e1'
    injection b1 with b1
    subst b1
    obtain ⟨op2, h2, rfl, e2, e2'⟩ := run_cons_inv e1'.symm
    injection e2 with a2 _
    subst a2
    have hs' := sync_t hq hsm hs
    rw [step_sync_eq hs.top.nofault hs'.top.nofault] at e2'
    dsimp only at e2'
    obtain ⟨op3, h3, rfl, e3, _⟩ := run_cons_inv e2'.symm
    injection e3 with a3 b3
    subst a3
    rw [step_snap_eq hs'.top.nofault] at b3
    dsimp only at b3
    injection b3 with b3
    subst b3
    have hlen : (syncRun p s).map.length ≤ n :=
      Nat.le_trans (frame_map_length (syncRun_frame hq s) hs.top.map.kn) hn
    rw [Bool.and_eq_true, Bool.and_eq_true]
    refine ⟨⟨snapshot_count hs, ?_⟩, ih _ _ hs' hlen e2'.symm⟩
    rw [snapshot_entries_length p s]
    exact snapshot_weight_after_sync hq hsm hs hcap _ (Nat.le_refl _)
  | case2 n after tail ih =>
    intro s h hs hn e
    obtain ⟨op2, h2, rfl, e2, e2'⟩ := run_cons_inv e
    injection e2 with a2 _
    subst a2
    have hs' := sync_t hq hsm hs
    rw [step_sync_eq hs.top.nofault hs'.top.nofault] at e2'
    dsimp only at e2'
    obtain ⟨op3, h3, rfl, e3, _⟩ := run_cons_inv e2'.symm
    injection e3 with a3 b3
    subst a3
    rw [step_snap_eq hs'.top.nofault] at b3
    dsimp only at b3
    injection b3 with b3
    subst b3
    have hlen : (syncRun p s).map.length ≤ n :=
      Nat.le_trans (frame_map_length (syncRun_frame hq s) hs.top.map.kn) hn
    rw [Bool.and_eq_true]
    exact ⟨snapshot_weight_after_sync hq hsm hs hcap n hn, ih _ _ hs' hlen e2'.symm⟩
  | case3 n sn rest _ ih =>
    intro s h hs hn e
    obtain ⟨op1, h1, rfl, e1, e1'⟩ := run_cons_inv e
    injection e1 with a1 b1
    subst a1
    rw [step_snap_eq hs.top.nofault] at b1 e1'
    dsimp only at b1 e1'
    injection b1 with b1
    subst b1
    rw [Bool.and_eq_true]
    exact ⟨snapshot_count hs, ih _ _ hs hn e1'.symm⟩
  | case4 n k v o rest ih =>
    intro s h hs hn e
    obtain ⟨op1, h1, rfl, e1, e1'⟩ := run_cons_inv e
    injection e1 with a1 _
    subst a1
    refine ih _ _ (step_t hq hsm hs _) ?_ e1'.symm
    exact Nat.le_trans (step_map_length hq hs (.ins k v)) (Nat.succ_le_succ hn)
  | case5 n head rest _ _ _ hins ih =>
    intro s h hs hn e
    obtain ⟨op1, h1, rfl, e1, e1'⟩ := run_cons_inv e
    refine ih _ _ (step_t hq hsm hs _) ?_ e1'.symm
    have := step_map_length hq hs op1
    cases op1 with
    | ins k v => exact absurd e1 (hins k v _)
    | _ => exact Nat.le_trans this hn
  | case6 => intros; rfl

/-! ### the invariant does not record the order of the queue

Every clause of `CInv` speaks about *membership* in the logical queue only: an entry awaits
"some queued upsert of this very value entry", a node "some queued remove of its info".
Nothing says that the last upsert of an info carries the current value.  Hence any
reordering of the write queue (in particular the inversion of two upserts of one key that two
threads can produce) leaves the invariant intact, and everything proved from it applies to
the reordered state. -/

theorem CInv.of_mem {p : Params} {s : SState} {Q Q' : List WOp} (h : CInv p s Q)
    (hm : ∀ op, op ∈ Q' ↔ op ∈ Q) : CInv p s Q' where
  mapKey := h.mapKey
  mapId := h.mapId
  idInj := h.idInj
  slotInj := h.slotInj
  nodeKey := h.nodeKey
  nodeCur n hn := by
    rcases h.nodeCur n hn with h1 | ⟨k, ve, hq, hi⟩
    · exact Or.inl h1
    · exact Or.inr ⟨k, ve, (hm _).mpr hq, hi⟩
  cur k ve hk := by
    rcases h.cur k ve hk with ⟨hh, o, w, hq⟩ | h1
    · exact Or.inl ⟨hh, o, w, (hm _).mpr hq⟩
    · exact Or.inr h1
  remDead k ve hq := h.remDead k ve ((hm _).mp hq)
  remBound k ve hq := h.remBound k ve ((hm _).mp hq)
  upKey k hh ve o w hq := h.upKey k hh ve o w ((hm _).mp hq)
  upSlot k hh ve o w hq := h.upSlot k hh ve o w ((hm _).mp hq)
  probSlot := h.probSlot
  woSlot := h.woSlot
  dirtyQ k ve hk hd := by
    obtain ⟨k', hh, v, o, w, hq, hi⟩ := h.dirtyQ k ve hk hd
    exact ⟨k', hh, v, o, w, (hm _).mpr hq, hi⟩
  wsum := h.wsum

/-- A reachable state whose write queue has been permuted arbitrarily still satisfies the
invariant of the reachable states. -/
theorem TInv.perm_writeQ {p : Params} {s : SState} (h : TInv p s []) {Q' : List WOp}
    (hp : Q'.Perm s.writeQ) : TInv p { s with writeQ := Q' } [] := by
  refine ⟨h.top.of_eq rfl rfl rfl rfl rfl rfl rfl rfl rfl, ⟨h.q.running, ?_, h.q.readQ⟩, ?_⟩
  · show Q'.length ≤ _
    rw [hp.length_eq]; exact h.q.writeQ
  · have h1 : CInv p { s with cec := s.ec, cws := s.ws } (Q' ++ []) :=
      h.cinv.of_mem (fun op => by rw [List.append_nil]; exact hp.mem_iff)
    exact h1.same (same_of_eq rfl rfl rfl rfl rfl rfl)

end Counters
end Sync
end MiniMoka
