/-
  Precision of invalidation on the unsync model: exactly the targeted entries leave.
-/
import MiniMoka.Lemmas.UnsyncLookup

namespace MiniMoka
namespace Unsync

/-- `invalidateKeys` keeps every entry whose key is not in the list. -/
theorem invalidateKeys_keeps {p : Params} (hq : NoQuirks p) (keys : List Nat) :
    ∀ (s : UState) (c w : Nat), Struct p s → ∀ k e, k ∉ keys → AL.get? s.map k = some e →
      AL.get? (invalidateKeys p keys s c w).1.map k = some e := by
  have hd3 : p.q.d3 = false := by rw [hq]
  induction keys with
  | nil => intro s c w _ k e _ h; simpa [invalidateKeys] using h
  | cons k0 rest ih =>
    intro s c w hs k e hk h
    simp only [List.mem_cons, not_or] at hk
    unfold invalidateKeys
    cases hg : AL.get? s.map k0 with
    | none => exact ih s c w hs k e hk.2 h
    | some e0 =>
      simp only [hd3]
      obtain ⟨hs', hto, _⟩ := takeOut_spec hs hg (by simp)
      refine ih _ _ _ hs' k e hk.2 ?_
      rw [hto.map, AL.get?_erase_ne (Ne.symm hk.1)]; exact h

/-- `invalidate_entries_if(pred)` removes exactly the entries that satisfy the predicate. -/
theorem invalidateEntriesIf_exact {P : Sketch → Prop} {p : Params} (hq : NoQuirks p) {s : UState}
    (hi : Inv P p s) (pr : Pred) (k : Nat) (e : UEntry) :
    AL.get? (invalidateEntriesIf p s pr).map k = some e ↔
      (AL.get? s.map k = some e ∧ pr.eval k e.val = false) := by
  have hd3 : p.q.d3 = false := by rw [hq]
  unfold invalidateEntriesIf
  dsimp only
  have hl := invalidateKeys_spec hq
    ((s.map.filter (fun kv => pr.eval kv.1 kv.2.val)).map (·.1)) s 0 0 hi.inv.struct
  have hrm := invalidateKeys_removed hq
    ((s.map.filter (fun kv => pr.eval kv.1 kv.2.val)).map (·.1)) s 0 0 hi.inv.struct
  have hkeep := invalidateKeys_keeps hq
    ((s.map.filter (fun kv => pr.eval kv.1 kv.2.val)).map (·.1)) s 0 0 hi.inv.struct
  generalize invalidateKeys p _ s 0 0 = r at hl hrm hkeep ⊢
  obtain ⟨s1, c, w⟩ := r
  simp only [hd3, Bool.false_eq_true, if_false]
  obtain ⟨_, _, _, hmap, _, _⟩ := settle hi.inv hl
  simp only at hmap
  rw [hmap]
  constructor
  · intro h
    have hin := hl.shrinks.sub k e h
    refine ⟨hin, ?_⟩
    cases hpr : pr.eval k e.val with
    | false => rfl
    | true =>
      have : k ∈ (s.map.filter (fun kv => pr.eval kv.1 kv.2.val)).map (·.1) :=
        List.mem_map.mpr ⟨(k, e), List.mem_filter.mpr ⟨AL.mem_of_get? hin, by simpa using hpr⟩, rfl⟩
      have := hrm k this
      simp only at this
      rw [this] at h; cases h
  · rintro ⟨hin, hpr⟩
    refine hkeep k e ?_ hin
    intro hmem
    obtain ⟨⟨k', e'⟩, hf, hk'⟩ := List.mem_map.mp hmem
    simp only at hk'; subst hk'
    obtain ⟨hin', hpr'⟩ := List.mem_filter.mp hf
    have := AL.get?_of_mem hi.inv.struct.keysNodup hin'
    rw [hin] at this; cases this
    simp only at hpr'
    rw [hpr] at hpr'; cases hpr'

/-- `invalidate(k)` removes `k` from what the maintenance at its start leaves, and nothing else. -/
theorem invalidate_exact {P : Sketch → Prop} {p : Params} (hq : NoQuirks p) {s : UState}
    (hi : Inv P p s) (k k' : Nat) :
    AL.get? (invalidate p s k).map k' =
      if k = k' then none else AL.get? (maintain p s).map k' := by
  have hd1 : p.q.d1 = false := by rw [hq]
  obtain ⟨h1, _, _⟩ := maintain_spec hq hi.inv
  unfold invalidate
  dsimp only
  cases hg : AL.get? (maintain p s).map k with
  | none =>
    dsimp only
    by_cases e : k = k'
    · subst e; simp [hg]
    · simp [e]
  | some e =>
    simp only [hd1, Bool.false_eq_true, if_false]
    have hto := (takeOut_spec h1.struct hg (by simp)).2.1.map
    show AL.get? (subEc (takeOut (maintain p s) k e) 1).map k' = _
    have : (subEc (takeOut (maintain p s) k e) 1).map = (takeOut (maintain p s) k e).map := by
      unfold subEc; split <;> simp [UState.fail] <;> split <;> rfl
    rw [this, hto, AL.get?_erase k k' h1.struct.keysNodup]

end Unsync
end MiniMoka
