/-
  TinyLFU admission and recency on the sequential model of `sync::Cache` (C13 / C12, kind
  `.sync`).

  Part 1 (C13): provenance of list nodes (a node stores the hash of its key), time-stamp
  sanity, what a maintenance run does to a quiescent calm cache (nothing) and to one with a
  single queued insert of a new key (the closed formula of `admit`), the correspondence with
  snapshots and the walk of the trace oracle `admitC13Sync` over model traces.

  Part 2 (C12): between two quiescent snapshots with at most one use, maintenance only removes
  nodes and moves *unstable* ones (the node of the used info, nodes whose entry has left the
  map) to the back (`Mv`, `Seg`, `SI`); the global invariants this needs (`KeyOk`: an info
  belongs to one key; `GDP`: a dirty entry has its insert queued); the order at a quiescent
  snapshot (`final_order`) and the walk of `recencyWalk` over model traces.
-/
import MiniMoka.Lemmas.SyncNodes
import MiniMoka.Lemmas.SyncQueues
import MiniMoka.Lemmas.SketchLaws
import MiniMoka.Lemmas.UnsyncAdmit
import MiniMoka.Spec.Oracles

namespace MiniMoka
namespace Sync
namespace Admit

open Nodes Spec
open Unsync.Admit (shortestPre shortestPre_zero shortestPre_cons_pos shortestPre_nil_pos
  shortestPrefix_eq sameKeys_iff nodup_map_of_inj find?_key_of_nodup shortestPre_eq_some_iff
  IsShortestPre)

/-! ### the loop of `Inner::sync` runs its body once -/

theorem syncLoop_one (p : Params) (fuel : Nat) (s : SState) :
    syncLoop p (fuel + 1) s = syncPass p s := by
  obtain ⟨a, b, _⟩ := syncPass_spec p s
  rw [syncLoop_succ]
  have : ((syncPass p s).readQ.length ≥ Gen.READ_LOG_FLUSH_POINT ||
      (syncPass p s).writeQ.length ≥ Gen.WRITE_LOG_FLUSH_POINT) = false := by
    rw [a, b]
    simp only [List.length_nil, ge_iff_le, Bool.or_eq_false_iff, decide_eq_false_iff_not,
      Nat.not_le]
    exact ⟨rfp_pos, wfp_pos⟩
  rw [this]
  rfl

/-- `Inner::sync` in one piece. -/
theorem syncRun_eq (p : Params) (s : SState) :
    syncRun p s =
      (let s1 := syncPass p { s with cec := s.ec, cws := s.ws }
       let s2 := if p.hasExpiry || s1.va.isSome then evictExpired p s1 else s1
       let s3 := if weightsToEvict p s2 > 0
         then evictLruLoop p Gen.SYNC_EVICTION_BATCH_SIZE s2 (weightsToEvict p s2) 0 else s2
       { s3 with ec := s3.cec, ws := s3.cws }) := by
  unfold syncRun
  dsimp only
  rw [syncLoop_one]

/-! ### provenance of list nodes -/

/-- Every node of the lists of `s'` is a node of the lists of `s`. -/
structure Sub (s s' : SState) : Prop where
  prob : ∀ n, n ∈ s'.prob → n ∈ s.prob
  wo : ∀ n, n ∈ s'.wo → n ∈ s.wo
  /-- no info is made dirty -/
  dirty : ∀ j, (getInfo s' j).dirty = true → (getInfo s j).dirty = true

theorem Sub.refl (s : SState) : Sub s s := ⟨fun _ h => h, fun _ h => h, fun _ h => h⟩

theorem Sub.trans {a b c : SState} (h1 : Sub a b) (h2 : Sub b c) : Sub a c :=
  ⟨fun n h => h1.prob n (h2.prob n h), fun n h => h1.wo n (h2.wo n h),
   fun j h => h1.dirty j (h2.dirty j h)⟩

theorem sub_of_eq {s s' : SState} (hp : s'.prob = s.prob) (hw : s'.wo = s.wo)
    (hi : s'.infos = s.infos) : Sub s s' :=
  ⟨fun n h => by rw [hp] at h; exact h, fun n h => by rw [hw] at h; exact h,
   fun j h => by rw [getInfo_congr hi] at h; exact h⟩

theorem sub_fail (s : SState) (f : Fault) : Sub s (s.fail f) := by
  unfold SState.fail; split
  · exact Sub.refl s
  · exact sub_of_eq rfl rfl rfl

/-- An update of one info that does not set the dirty flag. -/
theorem sub_withInfo (s : SState) (i : Nat) (f : Info → Info)
    (hf : ∀ x, (f x).dirty = true → x.dirty = true := by
      intro x h; first | exact h | cases h) : Sub s (withInfo s i f) := by
  refine ⟨fun _ h => h, fun _ h => h, ?_⟩
  intro j h
  rw [getInfo_withInfo] at h
  by_cases e : i = j
  · rw [if_pos e] at h; rw [← e]; exact hf _ h
  · rw [if_neg e] at h; exact h

theorem sub_addCounters (s : SState) (n w : Nat) : Sub s (addCounters s n w) :=
  sub_of_eq rfl rfl rfl

theorem sub_erase (s : SState) (k : Nat) : Sub s { s with map := AL.erase s.map k } :=
  sub_of_eq rfl rfl rfl

theorem sub_set_readQ (s : SState) (q : List ROp) : Sub s { s with readQ := q } :=
  sub_of_eq rfl rfl rfl

theorem sub_set_writeQ (s : SState) (q : List WOp) : Sub s { s with writeQ := q } :=
  sub_of_eq rfl rfl rfl

theorem mem_of_mem_eraseAo {l : List AoNode} {id : Nat} {m : AoNode} (h : m ∈ eraseAo l id) :
    m ∈ l := by
  induction l with
  | nil => exact h
  | cons a l ih =>
    unfold eraseAo at h
    by_cases e : a.id = id
    · rw [if_pos e] at h; exact List.mem_cons_of_mem _ h
    · rw [if_neg e] at h
      rcases List.mem_cons.mp h with h | h
      · rw [h]; exact List.mem_cons_self
      · exact List.mem_cons_of_mem _ (ih h)

theorem mem_of_mem_eraseWo {l : List WoNode} {id : Nat} {m : WoNode} (h : m ∈ eraseWo l id) :
    m ∈ l := by
  induction l with
  | nil => exact h
  | cons a l ih =>
    unfold eraseWo at h
    by_cases e : a.id = id
    · rw [if_pos e] at h; exact List.mem_cons_of_mem _ h
    · rw [if_neg e] at h
      rcases List.mem_cons.mp h with h | h
      · rw [h]; exact List.mem_cons_self
      · exact List.mem_cons_of_mem _ (ih h)

theorem moveNodeToBackAo_sub (s : SState) (id : Nat) : Sub s (moveNodeToBackAo s id) := by
  unfold moveNodeToBackAo
  split
  · rename_i n hf
    refine ⟨fun m hm => ?_, fun _ h => h, fun _ h => h⟩
    rcases List.mem_append.mp hm with hm | hm
    · exact mem_of_mem_eraseAo hm
    · simp at hm; rw [hm]; exact (findAo_some hf).1
  · exact sub_fail _ _

theorem moveNodeToBackWo_sub (s : SState) (id : Nat) : Sub s (moveNodeToBackWo s id) := by
  unfold moveNodeToBackWo
  split
  · rename_i n hf
    refine ⟨fun _ h => h, fun m hm => ?_, fun _ h => h⟩
    rcases List.mem_append.mp hm with hm | hm
    · exact mem_of_mem_eraseWo hm
    · simp at hm; rw [hm]; exact (findWo_some hf).1
  · exact sub_fail _ _

theorem moveToBackAoE_sub (s : SState) (i : Nat) : Sub s (moveToBackAoE s i) := by
  unfold moveToBackAoE; split
  · exact Sub.refl s
  · exact moveNodeToBackAo_sub s _

theorem moveToBackWoE_sub (s : SState) (i : Nat) : Sub s (moveToBackWoE s i) := by
  unfold moveToBackWoE; split
  · exact Sub.refl s
  · exact moveNodeToBackWo_sub s _

theorem unlinkAo_sub (s : SState) (i : Nat) : Sub s (unlinkAo s i) := by
  unfold unlinkAo; split
  · exact Sub.refl s
  · dsimp only
    split
    · refine ⟨fun m hm => mem_of_mem_eraseAo hm, fun _ h => h, fun j h => ?_⟩
      have h' : (getInfo (withInfo s i (fun x => { x with ao := none })) j).dirty = true := h
      exact (sub_withInfo s i _).dirty j h'
    · exact (sub_withInfo s _ _).trans (sub_fail _ _)

theorem unlinkWo_sub (s : SState) (i : Nat) : Sub s (unlinkWo s i) := by
  unfold unlinkWo; split
  · exact Sub.refl s
  · dsimp only
    split
    · refine ⟨fun _ h => h, fun m hm => mem_of_mem_eraseWo hm, fun j h => ?_⟩
      have h' : (getInfo (withInfo s i (fun x => { x with wo := none })) j).dirty = true := h
      exact (sub_withInfo s i _).dirty j h'
    · exact (sub_withInfo s _ _).trans (sub_fail _ _)

theorem subCounters_sub (s : SState) (n w : Nat) : Sub s (subCounters s n w) := by
  unfold subCounters
  dsimp only
  split
  · exact (sub_fail s _).trans (sub_of_eq rfl rfl rfl)
  · exact sub_of_eq rfl rfl rfl

theorem handleRemove_sub (s : SState) (ve : VE) : Sub s (handleRemove s ve) := by
  unfold handleRemove
  dsimp only
  split
  · refine Sub.trans ?_ (unlinkWo_sub _ _)
    refine Sub.trans ?_ (unlinkAo_sub _ _)
    refine Sub.trans ?_ (subCounters_sub _ _ _)
    exact sub_withInfo _ _ _
  · exact sub_withInfo _ _ _

theorem removeVictims_sub (p : Params) (vs : List AoNode) :
    ∀ (s : SState) (sk : List AoNode), Sub s (removeVictims p vs s sk).1 := by
  induction vs with
  | nil => intro s sk; exact Sub.refl s
  | cons v rest ih =>
    intro s sk
    unfold removeVictims
    split
    · exact (sub_fail s _).trans (ih _ _)
    · split
      · refine Sub.trans ?_ (ih _ _)
        refine Sub.trans ?_ (handleRemove_sub _ _)
        exact sub_erase _ _
      · exact ih _ _

theorem moveSkipped_sub (ns : List AoNode) : ∀ (s : SState), Sub s (moveSkipped ns s) := by
  induction ns with
  | nil => intro s; exact Sub.refl s
  | cons n rest ih => intro s; exact (moveNodeToBackAo_sub s n.id).trans (ih _)

theorem removeCandidate_sub (p : Params) (s : SState) (key : Nat) (ve : VE) :
    Sub s (removeCandidate p s key ve) := by
  unfold removeCandidate
  split
  · split
    · exact sub_of_eq rfl rfl rfl
    · exact Sub.refl s
  · exact Sub.refl s

theorem applyUpdate_sub (p : Params) (s : SState) (ve : VE) (oldW newW : Nat) :
    Sub s (applyUpdate p s ve oldW newW) := by
  unfold applyUpdate
  dsimp only
  refine Sub.trans ?_ (moveToBackWoE_sub _ _)
  refine Sub.trans ?_ (moveToBackAoE_sub _ _)
  split
  · exact (subCounters_sub _ _ _).trans (sub_addCounters _ _ _)
  · exact ((subCounters_sub _ _ _).trans (sub_addCounters _ _ _)).trans (sub_withInfo _ _ _)

theorem trySkipUpdated_sub (s : SState) (key : Nat) : Sub s (trySkipUpdated s key).1 := by
  unfold trySkipUpdated
  split
  · split
    · exact (moveToBackAoE_sub _ _).trans (moveToBackWoE_sub _ _)
    · exact Sub.refl s
  · split
    · exact moveNodeToBackAo_sub _ _
    · exact Sub.refl s

theorem removeExpiredAo_sub (p : Params) (n : Nat) :
    ∀ (s : SState), Sub s (removeExpiredAo p n s) := by
  induction n with
  | zero => intro s; exact Sub.refl s
  | succ n ih =>
    intro s
    unfold removeExpiredAo
    split
    · exact Sub.refl s
    · split
      · dsimp only
        split
        · refine Sub.trans ?_ (ih _)
          refine Sub.trans ?_ (handleRemove_sub _ _)
          exact sub_erase _ _
        · split
          · exact (trySkipUpdated_sub s _).trans (ih _)
          · exact trySkipUpdated_sub s _
      · exact Sub.refl s

theorem removeExpiredWo_sub (p : Params) (n : Nat) :
    ∀ (s : SState), Sub s (removeExpiredWo p n s) := by
  induction n with
  | zero => intro s; exact Sub.refl s
  | succ n ih =>
    intro s
    unfold removeExpiredWo
    split
    · exact Sub.refl s
    · split
      · dsimp only
        split
        · refine Sub.trans ?_ (ih _)
          refine Sub.trans ?_ (handleRemove_sub _ _)
          exact sub_erase _ _
        · split
          · split
            · exact ((moveToBackAoE_sub _ _).trans (moveToBackWoE_sub _ _)).trans (ih _)
            · exact Sub.refl s
          · exact (moveNodeToBackWo_sub _ _).trans (ih _)
      · exact Sub.refl s

theorem evictExpired_sub (p : Params) (s : SState) : Sub s (evictExpired p s) := by
  unfold evictExpired
  dsimp only
  split
  · split
    · exact (removeExpiredWo_sub _ _ _).trans (removeExpiredAo_sub _ _ _)
    · exact removeExpiredWo_sub _ _ _
  · split
    · exact removeExpiredAo_sub _ _ _
    · exact Sub.refl s

theorem evictLruLoop_sub (p : Params) (n : Nat) :
    ∀ (s : SState) (wte ev : Nat), Sub s (evictLruLoop p n s wte ev) := by
  induction n with
  | zero => intro s _ _; exact Sub.refl s
  | succ n ih =>
    intro s wte ev
    unfold evictLruLoop
    split
    · exact Sub.refl s
    · split
      · exact Sub.refl s
      · dsimp only
        split
        · split
          · exact (trySkipUpdated_sub s _).trans (ih _ _ _)
          · exact trySkipUpdated_sub s _
        · split
          · refine Sub.trans ?_ (ih _ _ _)
            refine Sub.trans ?_ (handleRemove_sub _ _)
            exact sub_erase _ _
          · split
            · exact (trySkipUpdated_sub s _).trans (ih _ _ _)
            · exact trySkipUpdated_sub s _

theorem enableSketch_sub (p : Params) (s : SState) : Sub s (enableSketch p s) := by
  unfold enableSketch
  split
  · exact sub_of_eq rfl rfl rfl
  · exact Sub.refl s

theorem sketchIncrement_sub (p : Params) (s : SState) (h : UInt64) :
    Sub s (sketchIncrement p s h) := by
  unfold sketchIncrement
  split
  · exact sub_of_eq rfl rfl rfl
  · exact sub_fail _ _

theorem applyRead_sub (p : Params) (s : SState) (op : ROp) : Sub s (applyRead p s op) := by
  cases op with
  | miss hash => exact sketchIncrement_sub _ _ _
  | hit hash ve ts =>
    unfold applyRead
    dsimp only
    have h1 := sketchIncrement_sub p s hash
    generalize sketchIncrement p s hash = s1 at h1 ⊢
    have h2 : Sub s1 (if p.q.d6 = true then withInfo s1 ve.info (fun i => { i with la := ts })
        else if (getInfo s1 ve.info).la < ts then withInfo s1 ve.info (fun i => { i with la := ts })
        else s1) := by
      split
      · exact sub_withInfo _ _ _
      · split
        · exact sub_withInfo _ _ _
        · exact Sub.refl _
    generalize (if p.q.d6 = true then withInfo s1 ve.info (fun i => { i with la := ts })
        else if (getInfo s1 ve.info).la < ts then withInfo s1 ve.info (fun i => { i with la := ts })
        else s1) = s2 at h2 ⊢
    split
    · exact (h1.trans h2).trans (moveToBackAoE_sub _ _)
    · exact h1.trans h2

theorem applyReads_sub (p : Params) (n : Nat) : ∀ (s : SState), Sub s (applyReads p n s) := by
  induction n with
  | zero => intro s; exact Sub.refl s
  | succ n ih =>
    intro s
    unfold applyReads
    split
    · exact Sub.refl s
    · refine Sub.trans ?_ (ih _)
      refine Sub.trans ?_ (applyRead_sub _ _ _)
      exact sub_set_readQ _ _

/-- Every node of the lists of `s'` is a node of the lists of `s` or belongs to the candidate
(`key`, `hash`, info `info`) that was admitted. -/
structure SubC (key : Nat) (hash : UInt64) (info : Nat) (s s' : SState) : Prop where
  prob : ∀ n, n ∈ s'.prob → n ∈ s.prob ∨ (n.key = key ∧ n.hash = hash ∧ n.info = info)
  wo : ∀ n, n ∈ s'.wo → n ∈ s.wo ∨ n.info = info
  dirty : ∀ j, (getInfo s' j).dirty = true → (getInfo s j).dirty = true

theorem Sub.toC {s s' : SState} (h : Sub s s') (key : Nat) (hash : UInt64) (info : Nat) :
    SubC key hash info s s' :=
  ⟨fun n hn => Or.inl (h.prob n hn), fun n hn => Or.inl (h.wo n hn), h.dirty⟩

theorem SubC.trans_sub {key : Nat} {hash : UInt64} {info : Nat} {a b c : SState}
    (h1 : SubC key hash info a b) (h2 : Sub b c) : SubC key hash info a c :=
  ⟨fun n hn => h1.prob n (h2.prob n hn), fun n hn => h1.wo n (h2.wo n hn),
   fun j h => h1.dirty j (h2.dirty j h)⟩

theorem Sub.trans_c {key : Nat} {hash : UInt64} {info : Nat} {a b c : SState}
    (h1 : Sub a b) (h2 : SubC key hash info b c) : SubC key hash info a c :=
  ⟨fun n hn => (h2.prob n hn).imp (h1.prob n) id, fun n hn => (h2.wo n hn).imp (h1.wo n) id,
   fun j h => h1.dirty j (h2.dirty j h)⟩

theorem SubC.trans {key : Nat} {hash : UInt64} {info : Nat} {a b c : SState}
    (h1 : SubC key hash info a b) (h2 : SubC key hash info b c) : SubC key hash info a c := by
  refine ⟨fun n hn => ?_, fun n hn => ?_, fun j h => h1.dirty j (h2.dirty j h)⟩
  · rcases h2.prob n hn with h | h
    · exact h1.prob n h
    · exact Or.inr h
  · rcases h2.wo n hn with h | h
    · exact h1.wo n h
    · exact Or.inr h

theorem subc_push_ao (key : Nat) (hash : UInt64) (info : Nat) (s : SState) (node : AoNode)
    (h1 : node.key = key) (h2 : node.hash = hash) (h3 : node.info = info) :
    SubC key hash info s { s with prob := s.prob ++ [node], nextId := s.nextId + 1 } := by
  refine ⟨fun n hn => ?_, fun n hn => Or.inl hn, fun _ h => h⟩
  have hn' : n ∈ s.prob ++ [node] := hn
  rcases List.mem_append.mp hn' with h | h
  · exact Or.inl h
  · simp at h; rw [h]; exact Or.inr ⟨h1, h2, h3⟩

theorem subc_push_wo (key : Nat) (hash : UInt64) (info : Nat) (s : SState) (wn : WoNode)
    (h3 : wn.info = info) :
    SubC key hash info s { s with wo := s.wo ++ [wn], nextId := s.nextId + 1 } := by
  refine ⟨fun n hn => Or.inl hn, fun n hn => ?_, fun _ h => h⟩
  have hn' : n ∈ s.wo ++ [wn] := hn
  rcases List.mem_append.mp hn' with h | h
  · exact Or.inl h
  · simp at h; rw [h]; exact Or.inr h3

theorem handleAdmit_subc (p : Params) (s : SState) (key : Nat) (hash : UInt64) (ve : VE)
    (w : Nat) : SubC key hash ve.info s (handleAdmit p s key hash ve w) := by
  unfold handleAdmit
  dsimp only
  have h2 : Sub s (if p.q.d8 = true then addCounters s 1 w
      else withInfo (addCounters s 1 w) ve.info (fun i => { i with weight := w })) := by
    split
    · exact sub_addCounters _ _ _
    · exact (sub_addCounters _ _ _).trans (sub_withInfo _ _ _)
  generalize (if p.q.d8 = true then addCounters s 1 w
      else withInfo (addCounters s 1 w) ve.info (fun i => { i with weight := w })) = s2 at h2 ⊢
  refine Sub.trans_c h2 ?_
  refine SubC.trans_sub ?_ (sub_withInfo _ _ _)
  split
  · refine SubC.trans_sub ?_ (sub_withInfo _ _ _)
    refine SubC.trans ?_ (subc_push_wo _ _ _ _ _ rfl)
    refine SubC.trans_sub ?_ (sub_withInfo _ _ _)
    exact subc_push_ao _ _ _ _ _ rfl rfl rfl
  · refine SubC.trans_sub ?_ (sub_withInfo _ _ _)
    exact subc_push_ao _ _ _ _ _ rfl rfl rfl

theorem admitOrReject_subc (p : Params) (s : SState) (key : Nat) (hash : UInt64) (ve : VE)
    (newW : Nat) : SubC key hash ve.info s (admitOrReject p s key hash ve newW) := by
  unfold admitOrReject
  dsimp only
  split
  · refine SubC.trans_sub ?_ (moveSkipped_sub _ _)
    exact (removeVictims_sub _ _ _ _).trans_c (handleAdmit_subc _ _ _ _ _ _)
  · exact ((removeCandidate_sub _ _ _ _).trans (moveSkipped_sub _ _)).toC _ _ _

theorem handleUpsert_subc (p : Params) (s : SState) (key : Nat) (hash : UInt64) (ve : VE)
    (oldW newW : Nat) : SubC key hash ve.info s (handleUpsert p s key hash ve oldW newW) := by
  unfold handleUpsert
  dsimp only
  generalize currentWeight p s key ve newW = newW
  have h0 : Sub s (withInfo s ve.info (fun i => { i with dirty := false })) :=
    sub_withInfo _ _ _
  refine h0.trans_c ?_
  generalize withInfo s ve.info (fun i => { i with dirty := false }) = s1
  by_cases h1 : (getInfo s1 ve.info).admitted = true
  · rw [if_pos h1]; exact (applyUpdate_sub _ _ _ _ _).toC _ _ _
  · rw [if_neg h1]
    by_cases h2 : (!p.q.d7 && !isCurrentEntry s1 key ve) = true
    · rw [if_pos h2]; exact (Sub.refl _).toC _ _ _
    · rw [if_neg h2]
      by_cases h3 : hasEnoughCapacity p newW s1 = true
      · rw [if_pos h3]; exact handleAdmit_subc _ _ _ _ _ _
      · rw [if_neg h3]
        by_cases h4 : tooBig p newW = true
        · rw [if_pos h4]; exact (removeCandidate_sub _ _ _ _).toC _ _ _
        · rw [if_neg h4]; exact admitOrReject_subc _ _ _ _ _ _

/-! ### a node stores the hash of its key -/

/-- Every node of the access-order list stores the hash of its key. -/
def PH (p : Params) (s : SState) : Prop := ∀ n, n ∈ s.prob → n.hash = p.hash n.key

/-- Every queued insert carries the hash of its key. -/
def QH (p : Params) (q : List WOp) : Prop :=
  ∀ key hash ve o w, WOp.upsert key hash ve o w ∈ q → hash = p.hash key

structure HashOk (p : Params) (s : SState) : Prop where
  prob : PH p s
  wq : QH p s.writeQ

theorem PH.sub {p : Params} {s s' : SState} (h : PH p s) (hs : Sub s s') : PH p s' :=
  fun n hn => h n (hs.prob n hn)

theorem PH.subc {p : Params} {s s' : SState} {key info : Nat} (h : PH p s)
    (hs : SubC key (p.hash key) info s s') : PH p s' := by
  intro n hn
  rcases hs.prob n hn with h1 | ⟨e1, e2, _⟩
  · exact h n h1
  · rw [e2, e1]

theorem applyWrite_ph {p : Params} {s : SState} (h : PH p s) (op : WOp) (hop : QH p [op]) :
    PH p (applyWrite p s op) := by
  cases op with
  | upsert key hash ve oldW newW =>
    have e : hash = p.hash key := hop key hash ve oldW newW List.mem_cons_self
    subst e
    exact h.subc (handleUpsert_subc _ _ _ _ _ _ _)
  | remove key ve => exact h.sub (handleRemove_sub _ _)

theorem applyWrites_ph {p : Params} (n : Nat) :
    ∀ (s : SState), PH p s → QH p s.writeQ → PH p (applyWrites p n s) := by
  induction n with
  | zero => intro s h _; exact h
  | succ n ih =>
    intro s h hq
    unfold applyWrites
    split
    · exact h
    · rename_i op rest hs
      have h0 : PH p { s with writeQ := rest } := h
      have hop : QH p [op] := by
        intro key hash ve o w hm
        simp at hm
        exact hq key hash ve o w (by rw [hs, hm]; exact List.mem_cons_self)
      refine ih _ (applyWrite_ph h0 op hop) ?_
      rw [(applyWrite_qframe p { s with writeQ := rest } op).writeQ]
      intro key hash ve o w hm
      exact hq key hash ve o w (by rw [hs]; exact List.mem_cons_of_mem _ hm)

theorem syncPass_ph {p : Params} {s : SState} (h : HashOk p s) : PH p (syncPass p s) := by
  unfold syncPass
  dsimp only
  have h1 : HashOk p (if s.readQ.length > 0 then applyReads p s.readQ.length s else s) := by
    split
    · exact ⟨h.prob.sub (applyReads_sub _ _ _), by rw [applyReads_writeQ]; exact h.wq⟩
    · exact h
  generalize (if s.readQ.length > 0 then applyReads p s.readQ.length s else s) = s1 at h1 ⊢
  have h2 : PH p (if s1.writeQ.length > 0 then applyWrites p s1.writeQ.length s1 else s1) := by
    split
    · exact applyWrites_ph _ _ h1.prob h1.wq
    · exact h1.prob
  generalize (if s1.writeQ.length > 0 then applyWrites p s1.writeQ.length s1 else s1) = s2 at h2 ⊢
  split
  · exact h2.sub (enableSketch_sub _ _)
  · exact h2

theorem syncRun_hash {p : Params} {s : SState} (h : HashOk p s) : HashOk p (syncRun p s) := by
  refine ⟨?_, by rw [syncRun_writeQ]; intro _ _ _ _ _ hm; cases hm⟩
  rw [syncRun_eq]
  dsimp only
  have h1 : PH p (syncPass p { s with cec := s.ec, cws := s.ws }) := syncPass_ph ⟨h.prob, h.wq⟩
  generalize syncPass p { s with cec := s.ec, cws := s.ws } = s1 at h1 ⊢
  have h2 : PH p (if (p.hasExpiry || s1.va.isSome) = true then evictExpired p s1 else s1) := by
    split
    · exact h1.sub (evictExpired_sub _ _)
    · exact h1
  generalize (if (p.hasExpiry || s1.va.isSome) = true then evictExpired p s1 else s1) = s2 at h2 ⊢
  have h3 : PH p (if weightsToEvict p s2 > 0
      then evictLruLoop p Gen.SYNC_EVICTION_BATCH_SIZE s2 (weightsToEvict p s2) 0 else s2) := by
    split
    · exact h2.sub (evictLruLoop_sub _ _ _ _ _)
    · exact h2
  exact h3

theorem trySync_hash {p : Params} {s : SState} (h : HashOk p s) : HashOk p (trySync p s) := by
  unfold trySync
  split
  · exact h
  · dsimp only
    have h0 : HashOk p { s with running := true, syncAfter := s.now + Gen.PERIODICAL_SYNC_INTERVAL_MILLIS * 1000000 } :=
      ⟨h.prob, h.wq⟩
    have := syncRun_hash h0
    exact ⟨this.prob, this.wq⟩

theorem housekeepW_hash {p : Params} {s : SState} (h : HashOk p s) :
    HashOk p (housekeepW p s) := by
  unfold housekeepW; split
  · exact trySync_hash h
  · exact h

theorem housekeepR_hash {p : Params} {s : SState} (h : HashOk p s) :
    HashOk p (housekeepR p s) := by
  unfold housekeepR; split
  · exact trySync_hash h
  · exact h

theorem qh_append {p : Params} {q : List WOp} (h : QH p q) (op : WOp) (hop : QH p [op]) :
    QH p (q ++ [op]) := by
  intro key hash ve o w hm
  rcases List.mem_append.mp hm with hm | hm
  · exact h key hash ve o w hm
  · exact hop key hash ve o w hm

theorem scheduleWriteOp3 (p : Params) {s : SState} (h : QInv s) (op : WOp) :
    scheduleWriteOp p 3 s op =
      { housekeepW p s with writeQ := (housekeepW p s).writeQ ++ [op] } :=
  scheduleWriteOp_enqueues p 2 h op

theorem scheduleWriteOp_hash {p : Params} {s : SState} (hq : QInv s) (h : HashOk p s) (op : WOp)
    (hop : QH p [op]) : HashOk p (scheduleWriteOp p 3 s op) := by
  rw [scheduleWriteOp3 p hq]
  have := housekeepW_hash h
  exact ⟨this.prob, qh_append this.wq _ hop⟩

theorem HashOk.of_eq {p : Params} {s t : SState} (h : HashOk p s) (e1 : t.prob = s.prob)
    (e2 : t.writeQ = s.writeQ) : HashOk p t :=
  ⟨fun n hn => h.prob n (e1 ▸ hn), by rw [e2]; exact h.wq⟩

theorem insert_hash {p : Params} {s : SState} (hq : QInv s) (h : HashOk p s) (k v : Nat) :
    HashOk p (insert p s k v) := by
  unfold insert
  dsimp only
  split
  · refine scheduleWriteOp_hash (s := _) ?_ ?_ _ ?_
    · exact qinv_of_eq hq rfl rfl rfl
    · exact ⟨h.prob, h.wq⟩
    · intro key hash ve o w hm
      simp at hm
      rw [hm.1, hm.2.1]
  · refine scheduleWriteOp_hash (s := _) ?_ ?_ _ ?_
    · exact qinv_of_eq hq rfl rfl rfl
    · exact ⟨h.prob, h.wq⟩
    · intro key hash ve o w hm
      simp at hm
      rw [hm.1, hm.2.1]

theorem recordReadOp_hash {p : Params} {s : SState} (hq : QInv s) (h : HashOk p s) (op : ROp) :
    HashOk p (recordReadOp p s op) := by
  rw [recordReadOp_enqueues p hq]
  have := housekeepR_hash (p := p) h
  exact ⟨this.prob, this.wq⟩

theorem get_hash {p : Params} {s : SState} (hq : QInv s) (h : HashOk p s) (k : Nat) :
    HashOk p (get p s k).1 := by
  unfold get
  dsimp only
  split
  · exact recordReadOp_hash hq h _
  · split
    · exact recordReadOp_hash hq h _
    · exact recordReadOp_hash hq h _

theorem invalidate_hash {p : Params} {s : SState} (hq : QInv s) (h : HashOk p s) (k : Nat) :
    HashOk p (invalidate p s k) := by
  unfold invalidate
  split
  · exact h
  · dsimp only
    refine scheduleWriteOp_hash (s := _) ?_ ?_ _ ?_
    · exact qinv_of_eq hq rfl rfl rfl
    · exact ⟨h.prob, h.wq⟩
    · intro key hash ve o w hm
      simp at hm

/-! ### the plain transition of a step -/

/-- The transition `step` performs in a state without a fault, before the fault check. -/
def rawStep (p : Params) (s : SState) (op : Op) : SState × Obs :=
  match op with
  | .ins k v => (insert p s k v, .ok)
  | .get k => ((get p s k).1, .val (get p s k).2)
  | .has k => (s, .bool (containsKey p s k))
  | .iter => (s, .iter (sortBy (·.1) (iter p s)))
  | .inv k => (invalidate p s k, .ok)
  | .invAll => (invalidateAll s, .ok)
  | .invIf _ => (s, .badOp)
  | .sync => (syncRun p s, .ok)
  | .adv d => ({ s with now := s.now + d }, .ok)
  | .snap => (s, .snap (snapshot p s))
  | .freq k => (s, .freq (s.sk.frequency (p.hash k)))

theorem step_eq_raw (p : Params) (s : SState) (op : Op) (h : s.fault = none) :
    step p s op = match (rawStep p s op).1.fault with
      | some f => ((rawStep p s op).1, Obs.panic f)
      | none => rawStep p s op := by
  unfold step
  rw [if_neg (by rw [h]; simp)]
  cases op <;> rfl

theorem step_fst (p : Params) (s : SState) (op : Op) (h : s.fault = none) :
    (step p s op).1 = (rawStep p s op).1 := by
  rw [step_eq_raw p s op h]
  split <;> rfl

theorem step_ok (p : Params) (s : SState) (op : Op) (h : s.fault = none)
    (h' : (step p s op).1.fault = none) : step p s op = rawStep p s op := by
  rw [step_fst p s op h] at h'
  rw [step_eq_raw p s op h, h']

/-! ### time stamps never lie in the future -/

structure TsOk (s : SState) : Prop where
  va : ∀ v, s.va = some v → v ≤ s.now
  lm : ∀ i, (getInfo s i).lm ≤ s.now
  la : ∀ i, (getInfo s i).la ≤ s.now
  rq : ∀ hash ve ts, ROp.hit hash ve ts ∈ s.readQ → ts ≤ s.now

theorem TsOk.frame {s s' : SState} (h : TsOk s) (hf : Frame s s') : TsOk s' := by
  refine ⟨?_, ?_, ?_, ?_⟩
  · intro v hv; rw [hf.va] at hv; rw [hf.now]; exact h.va v hv
  · intro i; rw [hf.lm, hf.now]; exact h.lm i
  · intro i
    rw [hf.now]
    rcases hf.la i with e | ⟨hash, ve, hin, _⟩
    · rw [e]; exact h.la i
    · exact h.rq _ _ _ hin
  · intro hash ve ts hin
    rw [hf.now]
    exact h.rq _ _ _ (hf.readQ _ hin)

theorem housekeepW_frame {p : Params} (hq : NoQuirks p) (s : SState) :
    Frame s (housekeepW p s) := by
  unfold housekeepW; split
  · exact trySync_frame hq s
  · exact Frame.refl s

theorem housekeepR_frame {p : Params} (hq : NoQuirks p) (s : SState) :
    Frame s (housekeepR p s) := by
  unfold housekeepR; split
  · exact trySync_frame hq s
  · exact Frame.refl s

theorem TsOk.of_eq {s t : SState} (h : TsOk s) (e1 : t.infos = s.infos) (e2 : t.va = s.va)
    (e3 : t.now = s.now) (e4 : t.readQ = s.readQ) : TsOk t := by
  have hg : ∀ j, getInfo t j = getInfo s j := getInfo_congr e1
  refine ⟨?_, ?_, ?_, ?_⟩
  · intro v hv; rw [e2] at hv; rw [e3]; exact h.va v hv
  · intro i; rw [hg, e3]; exact h.lm i
  · intro i; rw [hg, e3]; exact h.la i
  · intro hash ve ts hin; rw [e4] at hin; rw [e3]; exact h.rq _ _ _ hin

theorem insert_ts {p : Params} (hq : NoQuirks p) {s : SState} (h : TsOk s) (k v : Nat) :
    TsOk (insert p s k v) := by
  unfold insert
  dsimp only
  split
  · refine TsOk.frame ?_ (scheduleWriteOp_frame hq 3 _ _)
    rename_i old _
    refine ⟨h.va, ?_, ?_, h.rq⟩
    · intro i
      show (getInfo (refreshInfo p s old.info s.now (p.weigh k v)) i).lm ≤ s.now
      unfold refreshInfo
      rw [getInfo_withInfo]
      by_cases e : old.info = i
      · rw [if_pos e]; exact Nat.le_refl _
      · rw [if_neg e]; exact h.lm i
    · intro i
      show (getInfo (refreshInfo p s old.info s.now (p.weigh k v)) i).la ≤ s.now
      unfold refreshInfo
      rw [getInfo_withInfo]
      by_cases e : old.info = i
      · rw [if_pos e]; exact Nat.le_refl _
      · rw [if_neg e]; exact h.la i
  · refine TsOk.frame ?_ (scheduleWriteOp_frame hq 3 _ _)
    refine ⟨h.va, ?_, ?_, h.rq⟩
    · intro i
      simp only [getInfo, AL.get?_put]
      by_cases e : s.nextId = i
      · simp only [e, if_true, Option.getD_some]; exact Nat.le_refl _
      · simp only [e, if_false]; exact h.lm i
    · intro i
      simp only [getInfo, AL.get?_put]
      by_cases e : s.nextId = i
      · simp only [e, if_true, Option.getD_some]; exact Nat.le_refl _
      · simp only [e, if_false]; exact h.la i

theorem recordReadOp_ts {p : Params} (hq : NoQuirks p) {s : SState} (hqi : QInv s) (h : TsOk s)
    (op : ROp) (hop : ∀ hash ve ts, op = ROp.hit hash ve ts → ts ≤ s.now) :
    TsOk (recordReadOp p s op) := by
  rw [recordReadOp_enqueues p hqi]
  have hf := housekeepR_frame hq s
  have h1 := h.frame hf
  refine ⟨h1.va, h1.lm, h1.la, ?_⟩
  intro hash ve ts hin
  rcases List.mem_append.mp hin with hin | hin
  · exact h1.rq _ _ _ hin
  · simp at hin
    rw [hf.now]
    exact hop hash ve ts hin.symm

theorem get_ts {p : Params} (hq : NoQuirks p) {s : SState} (hqi : QInv s) (h : TsOk s) (k : Nat) :
    TsOk (get p s k).1 := by
  unfold get
  dsimp only
  split
  · exact recordReadOp_ts hq hqi h _ (fun _ _ _ e => by cases e)
  · split
    · exact recordReadOp_ts hq hqi h _ (fun _ _ _ e => by cases e)
    · exact recordReadOp_ts hq hqi h _ (fun _ _ _ e => by cases e; exact Nat.le_refl _)

theorem invalidate_ts {p : Params} (hq : NoQuirks p) {s : SState} (h : TsOk s) (k : Nat) :
    TsOk (invalidate p s k) := by
  unfold invalidate
  split
  · exact h
  · dsimp only
    refine TsOk.frame ?_ (scheduleWriteOp_frame hq 3 _ _)
    exact ⟨h.va, h.lm, h.la, h.rq⟩

/-! ### the invariant carried along a trace -/

structure AInv (p : Params) (s : SState) : Prop where
  top : TopInv Sketch.Good s
  q : QInv s
  hash : HashOk p s
  ts : TsOk s

theorem init_ainv (p : Params) : AInv p {} := by
  refine ⟨init_inv sketchLaws, qinv_init, ⟨?_, ?_⟩, ⟨?_, ?_, ?_, ?_⟩⟩
  · intro n hn; cases hn
  · intro _ _ _ _ _ hm; cases hm
  · intro v hv; cases hv
  · intro i; exact Nat.le_refl _
  · intro i; exact Nat.le_refl _
  · intro _ _ _ hm; cases hm

theorem step_ainv {p : Params} (hq : NoQuirks p) (hsm : SmallSketch p) {s : SState}
    (h : AInv p s) (op : Op) : AInv p (step p s op).1 := by
  have hnf := h.top.nofault
  obtain ⟨t1, t2, _⟩ := step_inv sketchLaws hq hsm h.top op
  obtain ⟨q1, q2⟩ := step_qinv p h.q op
  have hnf' : (step p s op).1.fault = none := by
    rcases t2 with t2 | t2
    · exact t2
    · have := q2 t2; rw [hnf] at this; cases this
  refine ⟨⟨t1, hnf'⟩, q1, ?_, ?_⟩
  · rw [step_fst p s op hnf]
    cases op with
    | ins k v => exact insert_hash h.q h.hash k v
    | get k => exact get_hash h.q h.hash k
    | inv k => exact invalidate_hash h.q h.hash k
    | sync => exact syncRun_hash h.hash
    | invAll => exact ⟨h.hash.prob, h.hash.wq⟩
    | adv d => exact ⟨h.hash.prob, h.hash.wq⟩
    | _ => exact h.hash
  · rw [step_fst p s op hnf]
    cases op with
    | ins k v => exact insert_ts hq h.ts k v
    | get k => exact get_ts hq h.q h.ts k
    | inv k => exact invalidate_ts hq h.ts k
    | sync => exact h.ts.frame (syncRun_frame hq s)
    | invAll =>
      refine ⟨?_, h.ts.lm, h.ts.la, h.ts.rq⟩
      intro v hv
      have : some s.now = some v := hv
      cases this; exact Nat.le_refl _
    | adv d =>
      refine ⟨?_, ?_, ?_, ?_⟩
      · intro v hv; exact Nat.le_trans (h.ts.va v hv) (Nat.le_add_right _ _)
      · intro i; exact Nat.le_trans (h.ts.lm i) (Nat.le_add_right _ _)
      · intro i; exact Nat.le_trans (h.ts.la i) (Nat.le_add_right _ _)
      · intro a b c hm; exact Nat.le_trans (h.ts.rq a b c hm) (Nat.le_add_right _ _)
    | _ => exact h.ts

/-! ### maintenance of a quiescent calm cache does nothing -/

/-- No node of either list belongs to an info that is past an expiry deadline. -/
structure NoExp (p : Params) (s : SState) : Prop where
  ao : ∀ n, n ∈ s.prob → expiredTs p.tti s.va (getInfo s n.info).la s.now = false
  wo : ∀ n, n ∈ s.wo → expiredTs p.ttl s.va (getInfo s n.info).lm s.now = false

theorem removeExpiredAo_noop {p : Params} {s : SState} (h : NoExp p s) (fuel : Nat) :
    removeExpiredAo p fuel s = s := by
  cases fuel with
  | zero => rfl
  | succ fuel =>
    unfold removeExpiredAo
    cases hp : s.prob with
    | nil => rfl
    | cons n rest =>
      dsimp only
      have := h.ao n (by rw [hp]; exact List.mem_cons_self)
      rw [this]
      rfl

theorem removeExpiredWo_noop {p : Params} {s : SState} (h : NoExp p s) (fuel : Nat) :
    removeExpiredWo p fuel s = s := by
  cases fuel with
  | zero => rfl
  | succ fuel =>
    unfold removeExpiredWo
    cases hp : s.wo with
    | nil => rfl
    | cons n rest =>
      dsimp only
      have := h.wo n (by rw [hp]; exact List.mem_cons_self)
      rw [this]
      rfl

theorem evictExpired_noop {p : Params} {s : SState} (h : NoExp p s) : evictExpired p s = s := by
  unfold evictExpired
  dsimp only
  have e1 : (if p.ttl.isSome = true then removeExpiredWo p Gen.SYNC_EVICTION_BATCH_SIZE s else s) = s := by
    split
    · exact removeExpiredWo_noop h _
    · rfl
  rw [e1]
  split
  · exact removeExpiredAo_noop h _
  · rfl

/-- The two states agree on everything the cache's behaviour depends on, except the local
counters of a maintenance run, the housekeeper's flags and the representation of the sketch
(all popularity estimates agree). -/
structure Quiet (s s' : SState) : Prop where
  map : s'.map = s.map
  infos : s'.infos = s.infos
  prob : s'.prob = s.prob
  wo : s'.wo = s.wo
  readQ : s'.readQ = s.readQ
  writeQ : s'.writeQ = s.writeQ
  ec : s'.ec = s.ec
  ws : s'.ws = s.ws
  va : s'.va = s.va
  now : s'.now = s.now
  nextId : s'.nextId = s.nextId
  fault : s'.fault = s.fault
  freq : ∀ h, s'.sk.frequency h = s.sk.frequency h

theorem Quiet.refl (s : SState) : Quiet s s :=
  ⟨rfl, rfl, rfl, rfl, rfl, rfl, rfl, rfl, rfl, rfl, rfl, rfl, fun _ => rfl⟩

theorem Quiet.trans {a b c : SState} (h1 : Quiet a b) (h2 : Quiet b c) : Quiet a c :=
  ⟨h2.map.trans h1.map, h2.infos.trans h1.infos, h2.prob.trans h1.prob, h2.wo.trans h1.wo,
   h2.readQ.trans h1.readQ, h2.writeQ.trans h1.writeQ, h2.ec.trans h1.ec, h2.ws.trans h1.ws,
   h2.va.trans h1.va, h2.now.trans h1.now, h2.nextId.trans h1.nextId, h2.fault.trans h1.fault,
   fun h => (h2.freq h).trans (h1.freq h)⟩

theorem Quiet.getInfo {s s' : SState} (h : Quiet s s') (j : Nat) : getInfo s' j = getInfo s j :=
  getInfo_congr h.infos j

theorem NoExp.quiet {p : Params} {s s' : SState} (h : NoExp p s) (hq : Quiet s s') :
    NoExp p s' := by
  refine ⟨?_, ?_⟩
  · intro n hn
    rw [hq.prob] at hn
    rw [hq.va, hq.getInfo, hq.now]
    exact h.ao n hn
  · intro n hn
    rw [hq.wo] at hn
    rw [hq.va, hq.getInfo, hq.now]
    exact h.wo n hn

theorem frequency_zero_table (s : Sketch) (h : UInt64) (hz : ∀ i, s.table.getD i 0 = 0) :
    s.frequency h = 0 := by
  unfold Sketch.frequency
  split
  · rfl
  · have hc : ∀ i, s.counterAt h i = 0 := by
      intro i
      unfold Sketch.counterAt Sketch.nib
      rw [hz]
      simp
    rw [hc 0, hc 1, hc 2, hc 3]
    rfl

/-- A fresh table holds no counts. -/
theorem frequency_ensure_default (c : Nat) (h : UInt64) :
    (({} : Sketch).ensureCapacity c).frequency h = 0 := by
  apply frequency_zero_table
  intro i
  unfold Sketch.ensureCapacity
  dsimp only
  generalize (if min c (2 ^ Gen.SKETCH_MAX_TABLE_POW) = 0 then 1
    else Sketch.nextPow2 (min c (2 ^ Gen.SKETCH_MAX_TABLE_POW))) = ts
  by_cases hge : (#[] : Array Nat).size ≥ ts
  · rw [if_pos hge]; rfl
  · rw [if_neg hge]
    simp [Array.getD]

theorem syncPass_empty (p : Params) (s : SState) (hr : s.readQ = []) (hw : s.writeQ = []) :
    syncPass p s = if shouldEnableSketch p s then enableSketch p s else s := by
  unfold syncPass
  simp only [hr, hw, List.length_nil, Nat.lt_irrefl, if_false, gt_iff_lt]

/-- `Inner::sync` on a cache with empty queues, nothing expired and nothing to evict. -/
theorem syncRun_quiet {p : Params} {cap : Nat} (hcap : p.cap = some cap) {s : SState}
    (hr : s.readQ = []) (hw : s.writeQ = []) (hne : NoExp p s) (hws : s.ws ≤ cap)
    (hsk : s.skOn = false → s.sk = {}) : Quiet s (syncRun p s) := by
  rw [syncRun_eq]
  dsimp only
  rw [syncPass_empty p { s with cec := s.ec, cws := s.ws } hr hw]
  have key : ∀ s1 : SState, Quiet s s1 → s1.cws = s.ws → s1.cec = s.ec →
      Quiet s
        (let s2 := if (p.hasExpiry || s1.va.isSome) = true then evictExpired p s1 else s1
         let s3 := if weightsToEvict p s2 > 0
           then evictLruLoop p Gen.SYNC_EVICTION_BATCH_SIZE s2 (weightsToEvict p s2) 0 else s2
         { s3 with ec := s3.cec, ws := s3.cws }) := by
    intro s1 hq1 hc1 hc2
    dsimp only
    have e2 : (if (p.hasExpiry || s1.va.isSome) = true then evictExpired p s1 else s1) = s1 := by
      split
      · exact evictExpired_noop (hne.quiet hq1)
      · rfl
    rw [e2]
    have e3 : weightsToEvict p s1 = 0 := by
      unfold weightsToEvict
      rw [hcap]
      dsimp only
      omega
    rw [e3]
    simp only [Nat.lt_irrefl, if_false, gt_iff_lt]
    exact ⟨hq1.map, hq1.infos, hq1.prob, hq1.wo, hq1.readQ, hq1.writeQ, hc2, hc1, hq1.va, hq1.now,
      hq1.nextId, hq1.fault, hq1.freq⟩
  by_cases hen : shouldEnableSketch p { s with cec := s.ec, cws := s.ws } = true
  · rw [if_pos hen]
    have hoff : s.skOn = false := by
      unfold shouldEnableSketch at hen
      cases h : s.skOn with
      | false => rfl
      | true => simp [h] at hen
    have hsk0 := hsk hoff
    have he : Quiet s (enableSketch p { s with cec := s.ec, cws := s.ws }) ∧
        (enableSketch p { s with cec := s.ec, cws := s.ws }).cws = s.ws ∧
        (enableSketch p { s with cec := s.ec, cws := s.ws }).cec = s.ec := by
      unfold enableSketch
      rw [hcap]
      dsimp only
      refine ⟨⟨rfl, rfl, rfl, rfl, rfl, rfl, rfl, rfl, rfl, rfl, rfl, rfl, ?_⟩, rfl, rfl⟩
      intro h
      show (s.sk.ensureCapacity _).frequency h = s.sk.frequency h
      rw [hsk0, frequency_ensure_default]
      rfl
    exact key _ he.1 he.2.1 he.2.2
  · rw [if_neg hen]
    exact key _ ⟨rfl, rfl, rfl, rfl, rfl, rfl, rfl, rfl, rfl, rfl, rfl, rfl, fun _ => rfl⟩ rfl rfl

theorem trySync_quiet {p : Params} {cap : Nat} (hcap : p.cap = some cap) {s : SState}
    (hr : s.readQ = []) (hw : s.writeQ = []) (hne : NoExp p s) (hws : s.ws ≤ cap)
    (hsk : s.skOn = false → s.sk = {}) : Quiet s (trySync p s) := by
  unfold trySync
  split
  · exact Quiet.refl s
  · dsimp only
    generalize s.now + Gen.PERIODICAL_SYNC_INTERVAL_MILLIS * 1000000 = sa
    have h0 : Quiet s { s with running := true, syncAfter := sa } :=
      ⟨rfl, rfl, rfl, rfl, rfl, rfl, rfl, rfl, rfl, rfl, rfl, rfl, fun _ => rfl⟩
    have h1 := syncRun_quiet hcap (s := { s with running := true, syncAfter := sa }) hr hw
      (hne.quiet h0) hws hsk
    have h2 := h0.trans h1
    exact ⟨h2.map, h2.infos, h2.prob, h2.wo, h2.readQ, h2.writeQ, h2.ec, h2.ws, h2.va, h2.now,
      h2.nextId, h2.fault, h2.freq⟩

theorem housekeepW_quiet {p : Params} {cap : Nat} (hcap : p.cap = some cap) {s : SState}
    (hr : s.readQ = []) (hw : s.writeQ = []) (hne : NoExp p s) (hws : s.ws ≤ cap)
    (hsk : s.skOn = false → s.sk = {}) : Quiet s (housekeepW p s) := by
  unfold housekeepW
  split
  · exact trySync_quiet hcap hr hw hne hws hsk
  · exact Quiet.refl s

/-! ### closed formula of the victim-aggregation loop -/

/-- Weights of the residents in recency order, as `admit` reads them. -/
def probWeights (s : SState) : List Nat := s.prob.map (fun n => (getInfo s n.info).weight)

/-- Popularity estimates of the residents in recency order, as `admit` reads them. -/
def probFreqs (s : SState) : List Nat := s.prob.map (fun n => s.sk.frequency n.hash)

/-- Every node of the list is owned by the entry the map holds under the node's key. -/
def AllCur (s : SState) (l : List AoNode) : Prop :=
  ∀ n, n ∈ l → ∃ e, AL.get? s.map n.key = some e ∧ e.info = n.info

theorem entryOfNode_cur {p : Params} (hd7 : p.q.d7 = false) {s : SState} {n : AoNode} {e : VE}
    (h1 : AL.get? s.map n.key = some e) (h2 : e.info = n.info) :
    entryOfNode p s n.key n.info = some e := by
  unfold entryOfNode
  rw [h1]
  dsimp only
  rw [hd7, Bool.false_or, h2, beq_self_eq_true, if_pos rfl]

/-- The admission loop on a list of current nodes, started with accumulator `a`: nothing is
skipped; the final test succeeds iff the shortest prefix whose weight covers what is still
missing exists and its summed popularity (added to what was aggregated so far) stays below
the candidate's; the victims are then exactly that prefix. -/
theorem admitLoop_closed_gen {p : Params} (hd7 : p.q.d7 = false) {s : SState} {cw cf : Nat} :
    ∀ (nodes : List AoNode) (a : Admission), AllCur s nodes →
      (admitLoop p s cw cf nodes a).skipped = a.skipped ∧
      ((cw ≤ (admitLoop p s cw cf nodes a).vw ∧ (admitLoop p s cw cf nodes a).vf < cf) ↔
        ∃ n, shortestPre (cw - a.vw) (nodes.map (fun n => (getInfo s n.info).weight)) = some n ∧
          a.vf + ((nodes.map (fun n => s.sk.frequency n.hash)).take n).sum < cf) ∧
      (∀ n, shortestPre (cw - a.vw) (nodes.map (fun n => (getInfo s n.info).weight)) = some n →
          a.vf + ((nodes.map (fun n => s.sk.frequency n.hash)).take n).sum < cf →
          (admitLoop p s cw cf nodes a).victims = a.victims ++ nodes.take n ∧
          (admitLoop p s cw cf nodes a).vw =
            a.vw + ((nodes.map (fun n => (getInfo s n.info).weight)).take n).sum) := by
  intro nodes
  induction nodes with
  | nil =>
    intro a _
    simp only [admitLoop, List.map_nil, List.take_nil, List.sum_nil, Nat.add_zero,
      List.append_nil]
    refine ⟨trivial, ?_⟩
    by_cases h : cw - a.vw = 0
    · rw [h]
      simp only [shortestPre_zero, Option.some.injEq]
      refine ⟨⟨fun ⟨_, h2⟩ => ⟨0, rfl, h2⟩, fun ⟨_, _, h2⟩ => ⟨by omega, h2⟩⟩, ?_⟩
      intro n _ _; simp
    · rw [shortestPre_nil_pos h]
      refine ⟨⟨fun ⟨h1, _⟩ => absurd h1 (by omega), fun ⟨_, h1, _⟩ => by cases h1⟩, ?_⟩
      intro n h1; cases h1
  | cons nd rest ih =>
    intro a hall
    unfold admitLoop
    by_cases hc : a.vw < cw ∧ ¬ cf < a.vf
    · rw [if_pos hc]
      obtain ⟨e, he, hei⟩ := hall nd List.mem_cons_self
      rw [entryOfNode_cur hd7 he hei]
      dsimp only
      rw [hei]
      have hne : cw - a.vw ≠ 0 := by omega
      have := ih { a with vw := a.vw + (getInfo s nd.info).weight,
                          vf := a.vf + s.sk.frequency nd.hash,
                          victims := a.victims ++ [nd], retries := 0 }
        (fun m hm => hall m (List.mem_cons_of_mem _ hm))
      simp only at this
      obtain ⟨ih0, ih1, ih2⟩ := this
      simp only [List.map_cons]
      rw [shortestPre_cons_pos hne]
      have hsub : cw - a.vw - (getInfo s nd.info).weight =
          cw - (a.vw + (getInfo s nd.info).weight) := by omega
      rw [hsub]
      refine ⟨ih0, ih1.trans ⟨?_, ?_⟩, ?_⟩
      · rintro ⟨n, h1, h2⟩
        refine ⟨n + 1, by simp [h1], ?_⟩
        simp only [List.take_succ_cons, List.sum_cons] at h2 ⊢
        omega
      · rintro ⟨n, h1, h2⟩
        cases n with
        | zero =>
          cases hh : shortestPre (cw - (a.vw + (getInfo s nd.info).weight))
            (rest.map (fun n => (getInfo s n.info).weight)) <;> simp [hh] at h1
        | succ n =>
          have h1' : shortestPre (cw - (a.vw + (getInfo s nd.info).weight))
              (rest.map (fun n => (getInfo s n.info).weight)) = some n := by
            cases hh : shortestPre (cw - (a.vw + (getInfo s nd.info).weight))
              (rest.map (fun n => (getInfo s n.info).weight)) <;> simp [hh] at h1
            exact congrArg some h1
          refine ⟨n, h1', ?_⟩
          simp only [List.take_succ_cons, List.sum_cons] at h2 ⊢
          omega
      · intro n h1 h2
        cases n with
        | zero =>
          cases hh : shortestPre (cw - (a.vw + (getInfo s nd.info).weight))
            (rest.map (fun n => (getInfo s n.info).weight)) <;> simp [hh] at h1
        | succ n =>
          have h1' : shortestPre (cw - (a.vw + (getInfo s nd.info).weight))
              (rest.map (fun n => (getInfo s n.info).weight)) = some n := by
            cases hh : shortestPre (cw - (a.vw + (getInfo s nd.info).weight))
              (rest.map (fun n => (getInfo s n.info).weight)) <;> simp [hh] at h1
            exact congrArg some h1
          simp only [List.take_succ_cons, List.sum_cons] at h2 ⊢
          obtain ⟨r1, r2⟩ := ih2 n h1' (by omega)
          refine ⟨by rw [r1]; simp, by rw [r2]; omega⟩
    · rw [if_neg hc]
      refine ⟨rfl, ?_⟩
      by_cases hge : cw ≤ a.vw
      · have h0 : cw - a.vw = 0 := by omega
        rw [h0]
        simp only [shortestPre_zero, Option.some.injEq]
        refine ⟨⟨fun ⟨_, h2⟩ => ⟨0, rfl, by simpa using h2⟩,
          fun ⟨n, hn, h2⟩ => ⟨hge, by subst hn; simpa using h2⟩⟩, ?_⟩
        intro n hn _; subst hn; simp
      · have hlt : cf < a.vf := by
          by_cases h : cf < a.vf
          · exact h
          · exact absurd ⟨by omega, h⟩ hc
        refine ⟨⟨fun ⟨h1, _⟩ => absurd h1 hge, fun ⟨n, _, h2⟩ => by omega⟩, ?_⟩
        intro n _ h2; omega

/-- **Closed formula of `admit`** on a list of current nodes. -/
theorem admitLoop_closed {p : Params} (hd7 : p.q.d7 = false) {s : SState} {cw cf : Nat}
    (hall : AllCur s s.prob) :
    (admitLoop p s cw cf s.prob {}).skipped = [] ∧
    ((admitLoop p s cw cf s.prob {}).vw ≥ cw ∧ cf > (admitLoop p s cw cf s.prob {}).vf ↔
      ∃ n, shortestPre cw (probWeights s) = some n ∧ cf > ((probFreqs s).take n).sum) ∧
    (∀ n, shortestPre cw (probWeights s) = some n → cf > ((probFreqs s).take n).sum →
        (admitLoop p s cw cf s.prob {}).victims = s.prob.take n ∧
        (admitLoop p s cw cf s.prob {}).vw = ((probWeights s).take n).sum) := by
  have := admitLoop_closed_gen (p := p) hd7 (s := s) (cw := cw) (cf := cf) s.prob {} hall
  simpa [probWeights, probFreqs] using this

/-! ### exact effect of `handle_remove` on an admitted entry -/

theorem fail_prob (s : SState) (f : Fault) : (s.fail f).prob = s.prob := by
  unfold SState.fail; split <;> rfl
theorem fail_map (s : SState) (f : Fault) : (s.fail f).map = s.map := by
  unfold SState.fail; split <;> rfl
theorem fail_cws (s : SState) (f : Fault) : (s.fail f).cws = s.cws := by
  unfold SState.fail; split <;> rfl
theorem fail_infos (s : SState) (f : Fault) : (s.fail f).infos = s.infos := by
  unfold SState.fail; split <;> rfl

theorem unlinkWo_prob (s : SState) (i : Nat) : (unlinkWo s i).prob = s.prob := by
  unfold unlinkWo; split
  · rfl
  · dsimp only; split
    · rfl
    · rw [fail_prob]; rfl

theorem unlinkWo_map (s : SState) (i : Nat) : (unlinkWo s i).map = s.map := by
  unfold unlinkWo; split
  · rfl
  · dsimp only; split
    · rfl
    · rw [fail_map]; rfl

theorem unlinkWo_cws (s : SState) (i : Nat) : (unlinkWo s i).cws = s.cws := by
  unfold unlinkWo; split
  · rfl
  · dsimp only; split
    · rfl
    · rw [fail_cws]; rfl

theorem getInfo_eq_of (s' s : SState) (j : Nat) (h : s'.infos = s.infos) :
    getInfo s' j = getInfo s j := getInfo_congr h j

theorem unlinkWo_getInfo_ne (s : SState) (i : Nat) {j : Nat} (hj : j ≠ i) :
    getInfo (unlinkWo s i) j = getInfo s j := by
  have hij : ¬ i = j := fun e => hj e.symm
  unfold unlinkWo; split
  · rfl
  · dsimp only; split
    · refine Eq.trans (getInfo_eq_of _ (withInfo s i (fun x => { x with wo := none })) j ?_) ?_
      · rfl
      · rw [getInfo_withInfo, if_neg hij]
    · rw [getInfo_congr (fail_infos _ _), getInfo_withInfo, if_neg hij]

theorem eraseAo_head (n : AoNode) (rest : List AoNode) : eraseAo (n :: rest) n.id = rest := by
  simp [eraseAo]

/-- `handle_remove` of the entry that owns node `n`. -/
theorem handleRemove_exact {s : SState} (h : Safe s) (ve : VE) {n : AoNode} (hn : n ∈ s.prob)
    (hinfo : n.info = ve.info) :
    (handleRemove s ve).prob = eraseAo s.prob n.id ∧ (handleRemove s ve).map = s.map ∧
    (handleRemove s ve).cws = s.cws - (getInfo s ve.info).weight ∧
    (∀ j, j ≠ ve.info → getInfo (handleRemove s ve) j = getInfo s j) := by
  have hadm : (getInfo s ve.info).admitted = true := by rw [← hinfo]; exact h.probAdm hn
  have hao : (getInfo s ve.info).ao = some n.id := by rw [← hinfo]; exact h.probOwn n hn
  have hfind : findAo s.prob n.id = some n := findAo_of_mem h.probIds hn
  have hpos : 1 ≤ s.cec := by
    rw [h.count]; exact List.length_pos_of_mem hn
  unfold handleRemove
  dsimp only
  rw [if_pos hadm]
  rw [subCounters_eq (s := withInfo s ve.info (fun i => { i with admitted := false })) hpos]
  generalize hB : ({ withInfo s ve.info (fun i => { i with admitted := false }) with
      cec := (withInfo s ve.info (fun i => { i with admitted := false })).cec - 1,
      cws := (withInfo s ve.info (fun i => { i with admitted := false })).cws -
        (getInfo s ve.info).weight } : SState) = B
  have hBp : B.prob = s.prob := by rw [← hB]; rfl
  have hBm : B.map = s.map := by rw [← hB]; rfl
  have hBc : B.cws = s.cws - (getInfo s ve.info).weight := by rw [← hB]; rfl
  have hBi : ∀ j, getInfo B j =
      if ve.info = j then { getInfo s ve.info with admitted := false } else getInfo s j := by
    intro j; rw [← hB]
    refine Eq.trans
      (getInfo_eq_of _ (withInfo s ve.info (fun i => { i with admitted := false })) j ?_) ?_
    · rfl
    · exact getInfo_withInfo _ _ _ _
  have h1 : (getInfo B ve.info).ao = some n.id := by rw [hBi, if_pos rfl]; exact hao
  have h2 : findAo B.prob n.id = some n := by rw [hBp]; exact hfind
  rw [unlinkAo_eq h1 h2]
  refine ⟨?_, ?_, ?_, ?_⟩
  · rw [unlinkWo_prob]; show eraseAo B.prob n.id = _; rw [hBp]
  · rw [unlinkWo_map]; exact hBm
  · rw [unlinkWo_cws]; exact hBc
  · intro j hj
    have hij : ¬ ve.info = j := fun e => hj e.symm
    rw [unlinkWo_getInfo_ne _ _ hj]
    refine Eq.trans (getInfo_eq_of _ (withInfo B ve.info (fun x => { x with ao := none })) j ?_) ?_
    · rfl
    · rw [getInfo_withInfo, if_neg hij, hBi, if_neg hij]

/-! ### erasing a list of keys -/

def eraseKeys (m : List (Nat × VE)) (ks : List Nat) : List (Nat × VE) :=
  ks.foldl (fun m k => AL.erase m k) m

theorem nodup_eraseKeys {m : List (Nat × VE)} (hn : (AL.keys m).Nodup) (ks : List Nat) :
    (AL.keys (eraseKeys m ks)).Nodup := by
  induction ks generalizing m with
  | nil => exact hn
  | cons k ks ih => exact ih (m := AL.erase m k) (AL.nodup_erase k hn)

theorem get?_eraseKeys {m : List (Nat × VE)} (hn : (AL.keys m).Nodup) (ks : List Nat) (x : Nat) :
    AL.get? (eraseKeys m ks) x = if x ∈ ks then none else AL.get? m x := by
  induction ks generalizing m with
  | nil => simp [eraseKeys]
  | cons k ks ih =>
    have := ih (m := AL.erase m k) (AL.nodup_erase k hn)
    simp only [eraseKeys, List.foldl_cons] at this ⊢
    rw [this, AL.get?_erase k x hn]
    by_cases h1 : x ∈ ks
    · simp [h1]
    · by_cases h2 : k = x
      · subst h2; simp
      · have : ¬ x = k := fun e => h2 e.symm
        simp [h1, h2, this]

/-! ### removal of a prefix of the access-order list -/

/-- `removeVictims` on a prefix of current nodes: the rest of the list stays, the victims'
keys leave the map, nothing is skipped, the local weighted size drops by the victims' weights,
other infos are untouched. -/
theorem removeVictims_prefix {p : Params} (hd7 : p.q.d7 = false) :
    ∀ (vs : List AoNode) (s : SState) (rest sk0 : List AoNode), Safe s → s.prob = vs ++ rest →
      AllCur s vs → (AL.keys s.map).Nodup →
      (removeVictims p vs s sk0).2 = sk0 ∧
      (removeVictims p vs s sk0).1.prob = rest ∧
      (removeVictims p vs s sk0).1.map = eraseKeys s.map (vs.map (·.key)) ∧
      Safe (removeVictims p vs s sk0).1 ∧
      (removeVictims p vs s sk0).1.cws =
        s.cws - (vs.map (fun n => (getInfo s n.info).weight)).sum ∧
      (∀ j, (∀ n, n ∈ vs → n.info ≠ j) → getInfo (removeVictims p vs s sk0).1 j = getInfo s j) := by
  intro vs
  induction vs with
  | nil =>
    intro s rest sk0 h hp _ _
    exact ⟨rfl, by simpa [removeVictims] using hp, rfl, h, by simp [removeVictims], fun _ _ => rfl⟩
  | cons v vs ih =>
    intro s rest sk0 h hp hcur hkn
    have hv : v ∈ s.prob := by rw [hp]; exact List.mem_cons_self
    obtain ⟨e, he, hei⟩ := hcur v List.mem_cons_self
    rw [removeVictims, findAo_of_mem h.probIds hv]
    dsimp only
    rw [entryOfNode_cur hd7 he hei]
    dsimp only
    have h0 := safe_eraseMap h v.key
    obtain ⟨x1, x2, x3, x4⟩ := handleRemove_exact h0 e (n := v) hv hei.symm
    obtain ⟨hs1, _, _⟩ := handleRemove_safe h0 e
    generalize handleRemove { s with map := AL.erase s.map v.key } e = s1 at x1 x2 x3 x4 hs1 ⊢
    have hp1 : s1.prob = vs ++ rest := by
      rw [x1]; show eraseAo s.prob v.id = _; rw [hp]; exact eraseAo_head v _
    have hm1 : s1.map = AL.erase s.map v.key := x2
    -- the remaining victims differ from `v` in id, info and key
    have hids : ((v :: vs).map (·.id)).Nodup := by
      have := h.probIds
      rw [hp, List.map_append] at this
      exact (List.nodup_append.mp this).1
    simp only [List.map_cons, List.nodup_cons] at hids
    have hne : ∀ n, n ∈ vs → n.info ≠ v.info ∧ n.key ≠ v.key := by
      intro n hnv
      have hnp : n ∈ s.prob := by rw [hp]; exact List.mem_append_left _ (List.mem_cons_of_mem _ hnv)
      have hid : n.id ≠ v.id := fun e' => hids.1 (e' ▸ List.mem_map.mpr ⟨n, hnv, rfl⟩)
      have hi : n.info ≠ v.info := fun e' => hid (h.info_inj hnp hv e')
      refine ⟨hi, fun e' => hi ?_⟩
      obtain ⟨e2, he2, hei2⟩ := hcur n (List.mem_cons_of_mem _ hnv)
      rw [e', he] at he2
      cases he2
      rw [← hei2, hei]
    have hcur1 : AllCur s1 vs := by
      intro n hnv
      obtain ⟨e2, he2, hei2⟩ := hcur n (List.mem_cons_of_mem _ hnv)
      refine ⟨e2, ?_, hei2⟩
      rw [hm1, AL.get?_erase_ne (fun e' => (hne n hnv).2 e'.symm)]
      exact he2
    have hkn1 : (AL.keys s1.map).Nodup := by rw [hm1]; exact AL.nodup_erase _ hkn
    obtain ⟨r1, r2, r3, r4, r5, r6⟩ := ih s1 rest sk0 hs1 hp1 hcur1 hkn1
    refine ⟨r1, r2, ?_, r4, ?_, ?_⟩
    · rw [r3, hm1]; rfl
    · rw [r5, x3]
      have hw : vs.map (fun n => (getInfo s1 n.info).weight) =
          vs.map (fun n => (getInfo s n.info).weight) := by
        apply List.map_congr_left
        intro n hnv
        rw [x4 _ (by rw [hei]; exact (hne n hnv).1)]
        rfl
      rw [hw, List.map_cons, List.sum_cons, hei]
      show s.cws - (getInfo s v.info).weight - _ = _
      omega
    · intro j hj
      rw [r6 j (fun n hnv => hj n (List.mem_cons_of_mem _ hnv))]
      rw [x4 j (by rw [hei]; exact fun e' => hj v List.mem_cons_self e'.symm)]
      rfl

/-! ### the admission of a new key that finds no room -/

theorem handleAdmit_exact (p : Params) (s : SState) (key : Nat) (hash : UInt64) (ve : VE)
    (w : Nat) :
    (handleAdmit p s key hash ve w).map = s.map ∧
    (handleAdmit p s key hash ve w).prob = s.prob ++
      [{ id := s.nextId, key := key, hash := hash, info := ve.info, kobj := ve.slot }] ∧
    (handleAdmit p s key hash ve w).cws = s.cws + w := by
  unfold handleAdmit
  dsimp only
  split <;> split <;> exact ⟨rfl, rfl, rfl⟩

theorem moveSkipped_nil (s : SState) : moveSkipped [] s = s := rfl

/-- `admit` and its consequences in a state all of whose nodes are current: the closed
formula decides; on admission the shortest sufficient prefix leaves and the candidate's node
goes to the back; on rejection only the candidate leaves the map. -/
theorem admitOrReject_cand {p : Params} (hd7 : p.q.d7 = false) {s : SState} {k : Nat}
    {hash : UInt64} {ve : VE} {w : Nat} (hs : Safe s) (hkn : (AL.keys s.map).Nodup)
    (hcand : AL.get? s.map k = some ve) (hcur : AllCur s s.prob) :
    (∀ n, shortestPre w (probWeights s) = some n →
      s.sk.frequency hash > ((probFreqs s).take n).sum →
      (admitOrReject p s k hash ve w).map = eraseKeys s.map ((s.prob.take n).map (·.key)) ∧
      (∃ node : AoNode, node.key = k ∧ node.info = ve.info ∧
        (admitOrReject p s k hash ve w).prob = s.prob.drop n ++ [node]) ∧
      (admitOrReject p s k hash ve w).cws = s.cws - ((probWeights s).take n).sum + w) ∧
    ((¬ ∃ n, shortestPre w (probWeights s) = some n ∧
        s.sk.frequency hash > ((probFreqs s).take n).sum) →
      (admitOrReject p s k hash ve w).map = AL.erase s.map k ∧
      (admitOrReject p s k hash ve w).prob = s.prob ∧
      (admitOrReject p s k hash ve w).cws = s.cws ∧
      Sub s (admitOrReject p s k hash ve w)) := by
  obtain ⟨c0, c1, c2⟩ := admitLoop_closed (p := p) hd7 (s := s) (cw := w)
    (cf := s.sk.frequency hash) hcur
  refine ⟨?_, ?_⟩
  · intro n hn1 hn2
    obtain ⟨hvic, _⟩ := c2 n hn1 hn2
    unfold admitOrReject
    dsimp only
    rw [if_pos (c1.mpr ⟨n, hn1, hn2⟩), hvic, c0]
    have hcurv : AllCur s (s.prob.take n) := fun m hm => hcur m (List.mem_of_mem_take hm)
    obtain ⟨r1, r2, r3, _, r5, _⟩ := removeVictims_prefix hd7 (s.prob.take n) s (s.prob.drop n) []
      hs (List.take_append_drop n s.prob).symm hcurv hkn
    generalize removeVictims p (s.prob.take n) s [] = r at r1 r2 r3 r5 ⊢
    obtain ⟨s2, sk2⟩ := r
    dsimp only at r1 r2 r3 r5 ⊢
    subst r1
    rw [moveSkipped_nil]
    obtain ⟨a1, a2, a3⟩ := handleAdmit_exact p s2 k hash ve w
    refine ⟨by rw [a1, r3], ⟨_, rfl, rfl, by rw [a2, r2]⟩, ?_⟩
    rw [a3, r5]
    have : (s.prob.take n).map (fun n => (getInfo s n.info).weight) = (probWeights s).take n := by
      unfold probWeights; rw [List.map_take]
    rw [this]
  · intro hno
    unfold admitOrReject
    dsimp only
    rw [if_neg (fun h => hno (c1.mp h)), c0, moveSkipped_nil]
    have : removeCandidate p s k ve = { s with map := AL.erase s.map k } := by
      unfold removeCandidate
      rw [hcand]
      dsimp only
      rw [hd7, Bool.false_or, beq_self_eq_true, if_pos rfl]
    rw [this]
    exact ⟨rfl, rfl, rfl, sub_of_eq rfl rfl rfl⟩

/-- `handle_upsert` for the queued insert of a key that is new, not admitted yet, not
oversized and finds no room, in a state all of whose nodes are current. -/
theorem handleUpsert_cand {p : Params} (hq : NoQuirks p) {cap : Nat} (hcap : p.cap = some cap)
    {s : SState} {k v : Nat} {ve : VE} (oldW w0 : Nat) (hs : Safe s)
    (hkn : (AL.keys s.map).Nodup) (hcand : AL.get? s.map k = some ve) (hval : ve.val = v)
    (hna : (getInfo s ve.info).admitted = false) (hcur : AllCur s s.prob)
    (hroom : s.cws + p.weigh k v > cap) (hfit : p.weigh k v ≤ cap) :
    (∀ n, shortestPre (p.weigh k v) (probWeights s) = some n →
      s.sk.frequency (p.hash k) > ((probFreqs s).take n).sum →
      (handleUpsert p s k (p.hash k) ve oldW w0).map =
        eraseKeys s.map ((s.prob.take n).map (·.key)) ∧
      (∃ node : AoNode, node.key = k ∧ node.info = ve.info ∧
        (handleUpsert p s k (p.hash k) ve oldW w0).prob = s.prob.drop n ++ [node]) ∧
      (handleUpsert p s k (p.hash k) ve oldW w0).cws =
        s.cws - ((probWeights s).take n).sum + p.weigh k v) ∧
    ((¬ ∃ n, shortestPre (p.weigh k v) (probWeights s) = some n ∧
        s.sk.frequency (p.hash k) > ((probFreqs s).take n).sum) →
      (handleUpsert p s k (p.hash k) ve oldW w0).map = AL.erase s.map k ∧
      (handleUpsert p s k (p.hash k) ve oldW w0).prob = s.prob ∧
      (handleUpsert p s k (p.hash k) ve oldW w0).cws = s.cws ∧
      Sub s (handleUpsert p s k (p.hash k) ve oldW w0)) := by
  have hd7 : p.q.d7 = false := by rw [hq]
  have hd10 : p.q.d10 = false := by rw [hq]
  have hcw : currentWeight p s k ve w0 = p.weigh k v := by
    unfold currentWeight
    rw [hd10, hcand]
    simp only [Bool.false_eq_true, if_false, beq_self_eq_true, if_true, hval]
  unfold handleUpsert
  dsimp only
  rw [hcw]
  generalize hs1 : withInfo s ve.info (fun i => { i with dirty := false }) = s1
  have hg : ∀ j, getInfo s1 j =
      if ve.info = j then { getInfo s ve.info with dirty := false } else getInfo s j := by
    intro j; rw [← hs1]; exact getInfo_withInfo _ _ _ _
  have hgw : ∀ j, (getInfo s1 j).weight = (getInfo s j).weight := by
    intro j; rw [hg]
    by_cases e : ve.info = j
    · rw [if_pos e, e]
    · rw [if_neg e]
  have hm1 : s1.map = s.map := by rw [← hs1]; rfl
  have hp1 : s1.prob = s.prob := by rw [← hs1]; rfl
  have hc1 : s1.cws = s.cws := by rw [← hs1]; rfl
  have hk1 : s1.sk = s.sk := by rw [← hs1]; rfl
  have hsafe1 : Safe s1 := by rw [← hs1]; exact hs.withInfo _ _ rfl rfl rfl
  have hna1 : ¬ (getInfo s1 ve.info).admitted = true := by
    rw [hg, if_pos rfl]
    show ¬ (getInfo s ve.info).admitted = true
    rw [hna]; exact Bool.false_ne_true
  rw [if_neg hna1]
  have hcurE : isCurrentEntry s1 k ve = true := by
    unfold isCurrentEntry
    rw [hm1, hcand]
    exact beq_self_eq_true _
  rw [hd7, hcurE]
  simp only [Bool.not_false, Bool.not_true, Bool.and_false, Bool.false_eq_true, if_false]
  have hroom1 : ¬ hasEnoughCapacity p (p.weigh k v) s1 = true := by
    unfold hasEnoughCapacity
    rw [hcap, hc1]
    simp only [decide_eq_true_eq]
    omega
  rw [if_neg hroom1]
  have hbig : ¬ tooBig p (p.weigh k v) = true := by
    unfold tooBig
    rw [hcap]
    simp only [decide_eq_true_eq]
    omega
  rw [if_neg hbig]
  have hcur1 : AllCur s1 s1.prob := by
    rw [hp1]; intro n hn; rw [hm1]; exact hcur n hn
  have hW : probWeights s1 = probWeights s := by
    unfold probWeights; rw [hp1]
    exact List.map_congr_left (fun n _ => hgw n.info)
  have hF : probFreqs s1 = probFreqs s := by
    unfold probFreqs; rw [hp1, hk1]
  obtain ⟨adm, rej⟩ := admitOrReject_cand (p := p) hd7 (s := s1) (k := k) (hash := p.hash k)
    (ve := ve) (w := p.weigh k v) hsafe1 (by rw [hm1]; exact hkn) (by rw [hm1]; exact hcand) hcur1
  rw [hW, hF, hk1, hm1, hp1, hc1] at adm
  rw [hW, hF, hk1, hm1, hp1, hc1] at rej
  refine ⟨adm, ?_⟩
  intro hno
  obtain ⟨r1, r2, r3, r4⟩ := rej hno
  exact ⟨r1, r2, r3, Sub.trans (by rw [← hs1]; exact sub_withInfo _ _ _) r4⟩

/-! ### a maintenance run with one queued write -/

/-- Agreement on everything but the sketch, the counters that a run publishes and the queues. -/
structure SameCore (s s' : SState) : Prop where
  map : s'.map = s.map
  infos : s'.infos = s.infos
  prob : s'.prob = s.prob
  wo : s'.wo = s.wo
  va : s'.va = s.va
  now : s'.now = s.now
  cws : s'.cws = s.cws
  cec : s'.cec = s.cec

theorem NoExp.same {p : Params} {s s' : SState} (h : NoExp p s) (hq : SameCore s s') :
    NoExp p s' := by
  refine ⟨?_, ?_⟩
  · intro n hn
    rw [hq.prob] at hn
    rw [hq.va, getInfo_congr hq.infos, hq.now]
    exact h.ao n hn
  · intro n hn
    rw [hq.wo] at hn
    rw [hq.va, getInfo_congr hq.infos, hq.now]
    exact h.wo n hn

theorem enableSketch_same (p : Params) (s : SState) : SameCore s (enableSketch p s) := by
  unfold enableSketch
  split
  · exact ⟨rfl, rfl, rfl, rfl, rfl, rfl, rfl, rfl⟩
  · exact ⟨rfl, rfl, rfl, rfl, rfl, rfl, rfl, rfl⟩

theorem applyWrites_single (p : Params) (s : SState) (op : WOp) (hw : s.writeQ = [op]) :
    applyWrites p s.writeQ.length s = applyWrite p { s with writeQ := [] } op := by
  have : s.writeQ.length = 0 + 1 := by rw [hw]; rfl
  rw [this, applyWrites]
  simp only [hw]
  rfl

theorem syncPass_one (p : Params) (t : SState) (op : WOp) (hr : t.readQ = [])
    (hw : t.writeQ = [op]) :
    syncPass p t =
      if shouldEnableSketch p (applyWrite p { t with writeQ := [] } op)
      then enableSketch p (applyWrite p { t with writeQ := [] } op)
      else applyWrite p { t with writeQ := [] } op := by
  unfold syncPass
  dsimp only
  have e1 : (if t.readQ.length > 0 then applyReads p t.readQ.length t else t) = t := by
    rw [if_neg]; rw [hr]; exact Nat.lt_irrefl 0
  rw [e1]
  have e2 : (if t.writeQ.length > 0 then applyWrites p t.writeQ.length t else t) =
      applyWrite p { t with writeQ := [] } op := by
    rw [if_pos (by rw [hw]; exact Nat.zero_lt_one)]
    exact applyWrites_single p t op hw
  rw [e2]

/-- `Inner::sync` with an empty read queue and one queued write, when the write leaves
nothing expired and nothing to evict: the run is that write. -/
theorem syncRun_one {p : Params} {cap : Nat} (hcap : p.cap = some cap) {s : SState} (op : WOp)
    (hr : s.readQ = []) (hw : s.writeQ = [op])
    (hne : NoExp p (applyWrite p { s with cec := s.ec, cws := s.ws, writeQ := [] } op))
    (hcws : (applyWrite p { s with cec := s.ec, cws := s.ws, writeQ := [] } op).cws ≤ cap) :
    (syncRun p s).map = (applyWrite p { s with cec := s.ec, cws := s.ws, writeQ := [] } op).map ∧
    (syncRun p s).prob =
      (applyWrite p { s with cec := s.ec, cws := s.ws, writeQ := [] } op).prob := by
  rw [syncRun_eq]
  dsimp only
  have hpass : ∃ s2, syncPass p { s with cec := s.ec, cws := s.ws } = s2 ∧
      SameCore (applyWrite p { s with cec := s.ec, cws := s.ws, writeQ := [] } op) s2 := by
    rw [syncPass_one p { s with cec := s.ec, cws := s.ws } op hr hw]
    split
    · exact ⟨_, rfl, enableSketch_same _ _⟩
    · exact ⟨_, rfl, ⟨rfl, rfl, rfl, rfl, rfl, rfl, rfl, rfl⟩⟩
  obtain ⟨s2, e2, hsame⟩ := hpass
  rw [e2]
  generalize applyWrite p { s with cec := s.ec, cws := s.ws, writeQ := [] } op = s1 at hne hcws hsame ⊢
  have e3 : (if (p.hasExpiry || s2.va.isSome) = true then evictExpired p s2 else s2) = s2 := by
    split
    · exact evictExpired_noop (hne.same hsame)
    · rfl
  rw [e3]
  have e4 : weightsToEvict p s2 = 0 := by
    unfold weightsToEvict
    rw [hcap, hsame.cws]
    dsimp only
    omega
  rw [e4]
  simp only [Nat.lt_irrefl, if_false, gt_iff_lt]
  exact ⟨hsame.map, hsame.prob⟩

/-! ### a quiescent calm cache, an insert of a new key, a maintenance run -/

/-- A quiescent calm cache: nothing queued, within capacity, every node of the access-order
list owned by the map's entry for its key, no resident past an expiry deadline. -/
structure CalmS (p : Params) (cap : Nat) (s : SState) : Prop where
  readQ : s.readQ = []
  writeQ : s.writeQ = []
  ws : s.ws ≤ cap
  cur : AllCur s s.prob
  live : ∀ k ve, AL.get? s.map k = some ve →
    isExpiredInfo p s (getInfo s ve.info) s.now = false

theorem CalmS.noExp {p : Params} {cap : Nat} {s : SState} (hc : CalmS p cap s)
    (hn : NodesCore s) : NoExp p s := by
  refine ⟨?_, ?_⟩
  · intro n hnp
    obtain ⟨e, he, hei⟩ := hc.cur n hnp
    have := hc.live _ _ he
    unfold isExpiredInfo at this
    rw [Bool.or_eq_false_iff] at this
    rw [← hei]; exact this.2
  · intro n hnw
    have h1 := hn.woOwn n hnw
    have h2 := hn.woAdm n.info (by rw [h1]; rfl)
    obtain ⟨id, h3⟩ := hn.adm_ao h2
    obtain ⟨m, hm, _, hmi⟩ := hn.aoNode _ _ h3
    obtain ⟨e, he, hei⟩ := hc.cur m hm
    have := hc.live _ _ he
    unfold isExpiredInfo at this
    rw [Bool.or_eq_false_iff] at this
    rw [← hmi, ← hei]; exact this.1

/-- The value entry `insert` creates for a new key. -/
def candVE (s : SState) (v : Nat) : VE :=
  { id := s.nextId + 1, val := v, info := s.nextId, slot := s.nextId + 1 }

/-- The map step of the insert of a new key: a fresh info, a fresh value entry. -/
def withCand (p : Params) (s : SState) (k v : Nat) : SState :=
  { s with nextId := s.nextId + 2,
           infos := AL.put s.infos s.nextId
             { key := k, admitted := false, dirty := true, la := s.now, lm := s.now,
               weight := p.weigh k v },
           map := AL.put s.map k (candVE s v) }

/-- The write operation `insert` queues for a new key. -/
def candOp (p : Params) (s : SState) (k v : Nat) : WOp :=
  .upsert k (p.hash k) (candVE s v) 0 (p.weigh k v)

theorem insert_fresh (p : Params) {s : SState} (hq : QInv s) {k : Nat} (v : Nat)
    (hnew : AL.get? s.map k = none) :
    insert p s k v =
      { housekeepW p (withCand p s k v) with
        writeQ := (housekeepW p (withCand p s k v)).writeQ ++ [candOp p s k v] } := by
  unfold insert
  dsimp only
  rw [hnew]
  dsimp only
  exact scheduleWriteOp3 p (s := withCand p s k v) (qinv_of_eq hq rfl rfl rfl) _

/-- The info `insert` creates for a new key. -/
def candInfo (p : Params) (s : SState) (k v : Nat) : Info :=
  { key := k, admitted := false, dirty := true, la := s.now, lm := s.now, weight := p.weigh k v }

theorem getInfo_withCand (p : Params) (s : SState) (k v j : Nat) :
    getInfo (withCand p s k v) j = if s.nextId = j then candInfo p s k v else getInfo s j := by
  simp only [getInfo, withCand, candInfo, AL.get?_put]
  by_cases e : s.nextId = j <;> simp [e]

theorem node_info_lt {s : SState} (hn : NodesCore s) {n : AoNode} (h : n ∈ s.prob) :
    n.info < s.nextId := by
  have := hn.probAdm h
  apply Nat.lt_of_not_le
  intro hle
  rw [hn.infoFresh _ hle] at this
  cases this

theorem wo_info_lt {s : SState} (hn : NodesCore s) {n : WoNode} (h : n ∈ s.wo) :
    n.info < s.nextId := by
  have := hn.woAdm n.info (by rw [hn.woOwn n h]; rfl)
  apply Nat.lt_of_not_le
  intro hle
  rw [hn.infoFresh _ hle] at this
  cases this

/-- A time stamp taken now is not expired if some time stamp of the past is not. -/
theorem expiredTs_fresh {d va : Option Nat} {now ts : Nat} (hva : ∀ v, va = some v → v ≤ now)
    (hts : ts ≤ now) (h : expiredTs d va ts now = false) : expiredTs d va now now = false := by
  unfold expiredTs at h ⊢
  rw [Bool.or_eq_false_iff] at h ⊢
  refine ⟨?_, ?_⟩
  · cases hv : va with
    | none => rfl
    | some v =>
      have := hva v hv
      simp only [decide_eq_false_iff_not, Nat.not_lt]
      exact this
  · cases hd : d with
    | none => rfl
    | some d' =>
      have h2 := h.2
      rw [hd] at h2
      simp only [decide_eq_false_iff_not, Nat.not_le] at h2 ⊢
      omega

theorem NoExp.of_frame_sub {p : Params} {s s' : SState} (h : NoExp p s) (hf : Frame0 s s')
    (hs : Sub s s') : NoExp p s' := by
  refine ⟨?_, ?_⟩
  · intro n hn
    rw [hf.va, hf.la, hf.now]
    exact h.ao n (hs.prob n hn)
  · intro n hn
    rw [hf.va, hf.lm, hf.now]
    exact h.wo n (hs.wo n hn)

theorem NoExp.of_frame_subc {p : Params} {s s' : SState} {key info : Nat} {hash : UInt64}
    (h : NoExp p s) (hf : Frame0 s s') (hs : SubC key hash info s s')
    (hao : expiredTs p.tti s.va (getInfo s info).la s.now = false)
    (hwo : expiredTs p.ttl s.va (getInfo s info).lm s.now = false) : NoExp p s' := by
  refine ⟨?_, ?_⟩
  · intro n hn
    rw [hf.va, hf.la, hf.now]
    rcases hs.prob n hn with h1 | ⟨_, _, h1⟩
    · exact h.ao n h1
    · rw [h1]; exact hao
  · intro n hn
    rw [hf.va, hf.lm, hf.now]
    rcases hs.wo n hn with h1 | h1
    · exact h.wo n h1
    · rw [h1]; exact hwo

theorem sum_take_pos_ne_nil {l : List Nat} {n : Nat} (h : 0 < (l.take n).sum) : l ≠ [] := by
  intro e; rw [e] at h; simp at h

/-- **The admission decision of the concurrent cache, state level.**  In a quiescent calm
state `s`, the insert of a new key `k` that is not oversized and finds no room, followed by a
maintenance run: with `n` the length of the shortest prefix of the access order whose weights
cover `weigh k v`, if it exists and the popularity estimate of `k` read in `s` exceeds the
summed estimates of that prefix, exactly the keys of that prefix leave the map, `k` stays, and
the access order is the rest followed by `k`; otherwise the candidate is dropped and the map
and the access order are what they were. -/
theorem insert_sync_calm {p : Params} (hq : NoQuirks p) (hsm : SmallSketch p) {cap : Nat}
    (hcap : p.cap = some cap) {s : SState} (hi : AInv p s) (hc : CalmS p cap s) (k v : Nat)
    (hnew : AL.get? s.map k = none) (hfit : p.weigh k v ≤ cap)
    (hroom : s.ws + p.weigh k v > cap) :
    (∀ n, shortestPre (p.weigh k v) (probWeights s) = some n →
      s.sk.frequency (p.hash k) > ((probFreqs s).take n).sum →
      (syncRun p (insert p s k v)).map =
        eraseKeys (AL.put s.map k (candVE s v)) ((s.prob.take n).map (·.key)) ∧
      ∃ node : AoNode, node.key = k ∧
        (syncRun p (insert p s k v)).prob = s.prob.drop n ++ [node]) ∧
    ((¬ ∃ n, shortestPre (p.weigh k v) (probWeights s) = some n ∧
        s.sk.frequency (p.hash k) > ((probFreqs s).take n).sum) →
      (syncRun p (insert p s k v)).map = AL.erase (AL.put s.map k (candVE s v)) k ∧
      (syncRun p (insert p s k v)).prob = s.prob) := by
  have hnc := hi.top.nodes.toNodesCore
  have hne := hc.noExp hnc
  have hins := insert_fresh p hi.q v hnew
  have hi2 : AInv p (insert p s k v) := by
    have := step_ainv hq hsm hi (.ins k v)
    rw [step_fst p s _ hi.top.nofault] at this
    exact this
  -- the state after the map step
  have c_info := getInfo_withCand p s k v
  have c_map : (withCand p s k v).map = AL.put s.map k (candVE s v) := rfl
  have c_prob : (withCand p s k v).prob = s.prob := rfl
  have c_va : (withCand p s k v).va = s.va := rfl
  have c_now : (withCand p s k v).now = s.now := rfl
  have c_sk : (withCand p s k v).sk = s.sk := rfl
  have c_ws : (withCand p s k v).ws = s.ws := rfl
  have c_wq : (withCand p s k v).writeQ = [] := hc.writeQ
  have c_rq : (withCand p s k v).readQ = [] := hc.readQ
  have hne_c : NoExp p (withCand p s k v) := by
    refine ⟨?_, ?_⟩
    · intro n hn
      have hlt := node_info_lt hnc (show n ∈ s.prob from hn)
      rw [c_info, if_neg (by omega)]
      exact hne.ao n hn
    · intro n hn
      have hlt := wo_info_lt hnc (show n ∈ s.wo from hn)
      rw [c_info, if_neg (by omega)]
      exact hne.wo n hn
  have hQ := housekeepW_quiet hcap (s := withCand p s k v) hc.readQ hc.writeQ hne_c hc.ws
    hi.top.sk.skOff
  generalize withCand p s k v = c at hins c_info c_map c_prob c_va c_now c_sk c_ws c_wq c_rq hne_c hQ
  generalize housekeepW p c = H at hins hQ
  have hHw : H.writeQ = [] := by rw [hQ.writeQ]; exact c_wq
  rw [hHw, List.nil_append] at hins
  rw [hins] at hi2 ⊢
  have hwpos : 0 < p.weigh k v := by have := hc.ws; omega
  -- the queued write, applied to a state `g` that agrees with `H`
  have key : ∀ g : SState, g.map = H.map → g.infos = H.infos → g.prob = H.prob → g.wo = H.wo →
      g.va = H.va → g.now = H.now → g.cws = H.ws → g.cec = H.ec → g.sk = H.sk →
      g.nextId = H.nextId → g.fault = H.fault →
      (∀ n, shortestPre (p.weigh k v) (probWeights s) = some n →
        s.sk.frequency (p.hash k) > ((probFreqs s).take n).sum →
        (handleUpsert p g k (p.hash k) (candVE s v) 0 (p.weigh k v)).map =
          eraseKeys (AL.put s.map k (candVE s v)) ((s.prob.take n).map (·.key)) ∧
        (∃ node : AoNode, node.key = k ∧
          (handleUpsert p g k (p.hash k) (candVE s v) 0 (p.weigh k v)).prob =
            s.prob.drop n ++ [node]) ∧
        NoExp p (handleUpsert p g k (p.hash k) (candVE s v) 0 (p.weigh k v)) ∧
        (handleUpsert p g k (p.hash k) (candVE s v) 0 (p.weigh k v)).cws ≤ cap) ∧
      ((¬ ∃ n, shortestPre (p.weigh k v) (probWeights s) = some n ∧
          s.sk.frequency (p.hash k) > ((probFreqs s).take n).sum) →
        (handleUpsert p g k (p.hash k) (candVE s v) 0 (p.weigh k v)).map =
          AL.erase (AL.put s.map k (candVE s v)) k ∧
        (handleUpsert p g k (p.hash k) (candVE s v) 0 (p.weigh k v)).prob = s.prob ∧
        NoExp p (handleUpsert p g k (p.hash k) (candVE s v) 0 (p.weigh k v)) ∧
        (handleUpsert p g k (p.hash k) (candVE s v) 0 (p.weigh k v)).cws ≤ cap) := by
    intro g gm gi gp gw gva gnow gcws gcec gsk gnid gf
    have hgm : g.map = AL.put s.map k (candVE s v) := by rw [gm, hQ.map, c_map]
    have hgp : g.prob = s.prob := by rw [gp, hQ.prob, c_prob]
    have hgva : g.va = s.va := by rw [gva, hQ.va, c_va]
    have hgnow : g.now = s.now := by rw [gnow, hQ.now, c_now]
    have hgI : ∀ j, getInfo g j = if s.nextId = j then candInfo p s k v else getInfo s j := by
      intro j; rw [getInfo_congr gi, getInfo_congr hQ.infos, c_info]
    have hgf : ∀ h, g.sk.frequency h = s.sk.frequency h := by
      intro h; rw [gsk, hQ.freq, c_sk]
    have hgc : g.cws = s.ws := by rw [gcws, hQ.ws, c_ws]
    -- invariants of `g`
    have hu := hi2.top
    have hsafe : Safe g := by
      refine ⟨⟨hu.nodes.toNodesCore.congr (s' := g) ?_ ?_ ?_ ?_ ?_ ?_, ?_⟩, ?_⟩
      · intro j; rw [getInfo_congr (s := { H with writeQ := [candOp p s k v] }) gi]
      · intro j; rw [getInfo_congr (s := { H with writeQ := [candOp p s k v] }) gi]
      · intro j; rw [getInfo_congr (s := { H with writeQ := [candOp p s k v] }) gi]
      · exact gp ▸ List.Perm.refl _
      · exact gw ▸ List.Perm.refl _
      · exact Nat.le_of_eq gnid.symm
      · rw [gcec, gp]; exact hu.nodes.count
      · rw [gf]; exact hu.nofault
    have hkn : (AL.keys g.map).Nodup := by rw [gm]; exact hu.map.kn
    have hcand : AL.get? g.map k = some (candVE s v) := by rw [hgm]; exact AL.get?_put_self _ _ _
    have hna : (getInfo g (candVE s v).info).admitted = false := by
      rw [hgI, if_pos (show s.nextId = (candVE s v).info from rfl)]; rfl
    have hcur : AllCur g g.prob := by
      rw [hgp]
      intro n hn
      obtain ⟨e, he, hei⟩ := hc.cur n hn
      refine ⟨e, ?_, hei⟩
      have hne' : k ≠ n.key := by
        intro e'; rw [← e', hnew] at he; cases he
      rw [hgm, AL.get?_put_ne _ hne']
      exact he
    have hW : probWeights g = probWeights s := by
      unfold probWeights
      rw [hgp]
      apply List.map_congr_left
      intro n hn
      have := node_info_lt hnc hn
      rw [hgI, if_neg (by omega)]
    have hF : probFreqs g = probFreqs s := by
      unfold probFreqs
      rw [hgp]
      exact List.map_congr_left (fun n _ => hgf n.hash)
    have hneg : NoExp p g := by
      refine ⟨?_, ?_⟩
      · intro n hn
        rw [gp, hQ.prob] at hn
        rw [gva, hQ.va, getInfo_congr gi, getInfo_congr hQ.infos, gnow, hQ.now]
        exact hne_c.ao n hn
      · intro n hn
        rw [gw, hQ.wo] at hn
        rw [gva, hQ.va, getInfo_congr gi, getInfo_congr hQ.infos, gnow, hQ.now]
        exact hne_c.wo n hn
    obtain ⟨adm, rej⟩ := handleUpsert_cand hq hcap (s := g) (k := k) (v := v) (ve := candVE s v)
      0 (p.weigh k v) hsafe hkn hcand rfl hna hcur (by rw [hgc]; exact hroom) hfit
    rw [hW, hF, hgf, hgm, hgp, hgc] at adm
    rw [hW, hF, hgf, hgm, hgp, hgc] at rej
    have hfr := handleUpsert_frame0 p g k (p.hash k) (candVE s v) 0 (p.weigh k v)
    have hsc := handleUpsert_subc p g k (p.hash k) (candVE s v) 0 (p.weigh k v)
    refine ⟨?_, ?_⟩
    · intro n hn1 hn2
      obtain ⟨m1, m2, m3⟩ := adm n hn1 hn2
      obtain ⟨_, hsum, _⟩ := (shortestPre_eq_some_iff _ _ _).mp hn1
      refine ⟨m1, ?_, ?_, ?_⟩
      · obtain ⟨node, a1, _, a3⟩ := m2
        exact ⟨node, a1, a3⟩
      · -- a resident exists, so the fresh time stamps are not expired either
        have hnil : s.prob ≠ [] := by
          intro e
          have : probWeights s = [] := by unfold probWeights; rw [e]; rfl
          exact sum_take_pos_ne_nil (Nat.lt_of_lt_of_le hwpos hsum) this
        obtain ⟨m, hm⟩ := List.exists_mem_of_ne_nil _ hnil
        obtain ⟨e, he, hei⟩ := hc.cur m hm
        have hl := hc.live _ _ he
        unfold isExpiredInfo at hl
        rw [Bool.or_eq_false_iff] at hl
        refine hneg.of_frame_subc hfr hsc ?_ ?_
        · rw [hgva, hgnow, hgI, if_pos (show s.nextId = (candVE s v).info from rfl)]
          exact expiredTs_fresh hi.ts.va (hi.ts.la _) hl.2
        · rw [hgva, hgnow, hgI, if_pos (show s.nextId = (candVE s v).info from rfl)]
          exact expiredTs_fresh hi.ts.va (hi.ts.lm _) hl.1
      · rw [m3]
        have := hc.ws
        omega
    · intro hno
      obtain ⟨r1, r2, r3, r4⟩ := rej hno
      refine ⟨r1, r2, hneg.of_frame_sub hfr r4, ?_⟩
      rw [r3]; exact hc.ws
  have hr : ({ H with writeQ := [candOp p s k v] } : SState).readQ = [] := by
    show H.readQ = []
    rw [hQ.readQ]; exact c_rq
  obtain ⟨kadm, krej⟩ := key
    { { H with writeQ := [candOp p s k v] } with cec := H.ec, cws := H.ws, writeQ := [] }
    rfl rfl rfl rfl rfl rfl rfl rfl rfl rfl rfl
  refine ⟨?_, ?_⟩
  · intro n hn1 hn2
    obtain ⟨m1, m2, m3, m4⟩ := kadm n hn1 hn2
    obtain ⟨e1, e2⟩ := syncRun_one hcap (s := { H with writeQ := [candOp p s k v] })
      (candOp p s k v) hr rfl m3 m4
    exact ⟨e1.trans m1, by obtain ⟨node, a1, a2⟩ := m2; exact ⟨node, a1, e2.trans a2⟩⟩
  · intro hno
    obtain ⟨m1, m2, m3, m4⟩ := krej hno
    obtain ⟨e1, e2⟩ := syncRun_one hcap (s := { H with writeQ := [candOp p s k v] })
      (candOp p s k v) hr rfl m3 m4
    exact ⟨e1.trans m1, e2.trans m2⟩

/-! ### an insert of a new key that fits -/

/-- A time stamp taken now is not expired when the duration is not zero. -/
theorem expiredTs_now {d va : Option Nat} {now : Nat} (hva : ∀ v, va = some v → v ≤ now)
    (hd : d ≠ some 0) : expiredTs d va now now = false := by
  unfold expiredTs
  rw [Bool.or_eq_false_iff]
  refine ⟨?_, ?_⟩
  · cases hv : va with
    | none => rfl
    | some v =>
      have := hva v hv
      simp only [decide_eq_false_iff_not, Nat.not_lt]
      exact this
  · cases hd' : d with
    | none => rfl
    | some d' =>
      have : d' ≠ 0 := fun e => hd (by rw [hd', e])
      simp only [decide_eq_false_iff_not, Nat.not_le]
      omega

/-- `handle_upsert` for the queued insert of a new key that finds room: admitted without
consulting the popularity estimates, no resident leaves. -/
theorem handleUpsert_fits {p : Params} (hq : NoQuirks p) {cap : Nat} (hcap : p.cap = some cap)
    {s : SState} {k v : Nat} {ve : VE} (oldW w0 : Nat)
    (hcand : AL.get? s.map k = some ve) (hval : ve.val = v)
    (hna : (getInfo s ve.info).admitted = false) (hroom : s.cws + p.weigh k v ≤ cap) :
    (handleUpsert p s k (p.hash k) ve oldW w0).map = s.map ∧
    (∃ node : AoNode, node.key = k ∧
      (handleUpsert p s k (p.hash k) ve oldW w0).prob = s.prob ++ [node]) ∧
    (handleUpsert p s k (p.hash k) ve oldW w0).cws = s.cws + p.weigh k v := by
  have hd7 : p.q.d7 = false := by rw [hq]
  have hd10 : p.q.d10 = false := by rw [hq]
  have hcw : currentWeight p s k ve w0 = p.weigh k v := by
    unfold currentWeight
    rw [hd10, hcand]
    simp only [Bool.false_eq_true, if_false, beq_self_eq_true, if_true, hval]
  unfold handleUpsert
  dsimp only
  rw [hcw]
  generalize hs1 : withInfo s ve.info (fun i => { i with dirty := false }) = s1
  have hg : ∀ j, getInfo s1 j =
      if ve.info = j then { getInfo s ve.info with dirty := false } else getInfo s j := by
    intro j; rw [← hs1]; exact getInfo_withInfo _ _ _ _
  have hm1 : s1.map = s.map := by rw [← hs1]; rfl
  have hp1 : s1.prob = s.prob := by rw [← hs1]; rfl
  have hc1 : s1.cws = s.cws := by rw [← hs1]; rfl
  have hna1 : ¬ (getInfo s1 ve.info).admitted = true := by
    rw [hg, if_pos rfl]
    show ¬ (getInfo s ve.info).admitted = true
    rw [hna]; exact Bool.false_ne_true
  rw [if_neg hna1]
  have hcurE : isCurrentEntry s1 k ve = true := by
    unfold isCurrentEntry
    rw [hm1, hcand]
    exact beq_self_eq_true _
  rw [hd7, hcurE]
  simp only [Bool.not_false, Bool.not_true, Bool.and_false, Bool.false_eq_true, if_false]
  have hroom1 : hasEnoughCapacity p (p.weigh k v) s1 = true := by
    unfold hasEnoughCapacity
    rw [hcap, hc1]
    simp only [decide_eq_true_eq]
    exact hroom
  rw [if_pos hroom1]
  obtain ⟨a1, a2, a3⟩ := handleAdmit_exact p s1 k (p.hash k) ve (p.weigh k v)
  exact ⟨by rw [a1, hm1], ⟨_, rfl, by rw [a2, hp1]⟩, by rw [a3, hc1]⟩

/-- In a quiescent calm state, the insert of a new key that fits outright (and does not expire
the moment it is inserted), followed by a maintenance run: the key is resident, at the most
recently used end, and no resident has left. -/
theorem insert_sync_fits {p : Params} (hq : NoQuirks p) (hsm : SmallSketch p) {cap : Nat}
    (hcap : p.cap = some cap) {s : SState} (hi : AInv p s) (hc : CalmS p cap s) (k v : Nat)
    (hnew : AL.get? s.map k = none) (hroom : s.ws + p.weigh k v ≤ cap)
    (httl : p.ttl ≠ some 0) (htti : p.tti ≠ some 0) :
    (syncRun p (insert p s k v)).map = AL.put s.map k (candVE s v) ∧
    ∃ node : AoNode, node.key = k ∧ (syncRun p (insert p s k v)).prob = s.prob ++ [node] := by
  have hnc := hi.top.nodes.toNodesCore
  have hne := hc.noExp hnc
  have hins := insert_fresh p hi.q v hnew
  have hi2 : AInv p (insert p s k v) := by
    have := step_ainv hq hsm hi (.ins k v)
    rw [step_fst p s _ hi.top.nofault] at this
    exact this
  have c_info := getInfo_withCand p s k v
  have c_map : (withCand p s k v).map = AL.put s.map k (candVE s v) := rfl
  have c_prob : (withCand p s k v).prob = s.prob := rfl
  have c_va : (withCand p s k v).va = s.va := rfl
  have c_now : (withCand p s k v).now = s.now := rfl
  have c_ws : (withCand p s k v).ws = s.ws := rfl
  have c_wq : (withCand p s k v).writeQ = [] := hc.writeQ
  have c_rq : (withCand p s k v).readQ = [] := hc.readQ
  have hne_c : NoExp p (withCand p s k v) := by
    refine ⟨?_, ?_⟩
    · intro n hn
      have hlt := node_info_lt hnc (show n ∈ s.prob from hn)
      rw [c_info, if_neg (by omega)]
      exact hne.ao n hn
    · intro n hn
      have hlt := wo_info_lt hnc (show n ∈ s.wo from hn)
      rw [c_info, if_neg (by omega)]
      exact hne.wo n hn
  have hQ := housekeepW_quiet hcap (s := withCand p s k v) hc.readQ hc.writeQ hne_c hc.ws
    hi.top.sk.skOff
  generalize withCand p s k v = c at hins c_info c_map c_prob c_va c_now c_ws c_wq c_rq hne_c hQ
  generalize housekeepW p c = H at hins hQ
  have hHw : H.writeQ = [] := by rw [hQ.writeQ]; exact c_wq
  rw [hHw, List.nil_append] at hins
  rw [hins] at hi2 ⊢
  have key : ∀ g : SState, g.map = H.map → g.infos = H.infos → g.prob = H.prob → g.wo = H.wo →
      g.va = H.va → g.now = H.now → g.cws = H.ws →
      (handleUpsert p g k (p.hash k) (candVE s v) 0 (p.weigh k v)).map =
        AL.put s.map k (candVE s v) ∧
      (∃ node : AoNode, node.key = k ∧
        (handleUpsert p g k (p.hash k) (candVE s v) 0 (p.weigh k v)).prob = s.prob ++ [node]) ∧
      NoExp p (handleUpsert p g k (p.hash k) (candVE s v) 0 (p.weigh k v)) ∧
      (handleUpsert p g k (p.hash k) (candVE s v) 0 (p.weigh k v)).cws ≤ cap := by
    intro g gm gi gp gw gva gnow gcws
    have hgm : g.map = AL.put s.map k (candVE s v) := by rw [gm, hQ.map, c_map]
    have hgp : g.prob = s.prob := by rw [gp, hQ.prob, c_prob]
    have hgva : g.va = s.va := by rw [gva, hQ.va, c_va]
    have hgnow : g.now = s.now := by rw [gnow, hQ.now, c_now]
    have hgI : ∀ j, getInfo g j = if s.nextId = j then candInfo p s k v else getInfo s j := by
      intro j; rw [getInfo_congr gi, getInfo_congr hQ.infos, c_info]
    have hgc : g.cws = s.ws := by rw [gcws, hQ.ws, c_ws]
    have hcand : AL.get? g.map k = some (candVE s v) := by rw [hgm]; exact AL.get?_put_self _ _ _
    have hna : (getInfo g (candVE s v).info).admitted = false := by
      rw [hgI, if_pos (show s.nextId = (candVE s v).info from rfl)]; rfl
    have hneg : NoExp p g := by
      refine ⟨?_, ?_⟩
      · intro n hn
        rw [gp, hQ.prob] at hn
        rw [gva, hQ.va, getInfo_congr gi, getInfo_congr hQ.infos, gnow, hQ.now]
        exact hne_c.ao n hn
      · intro n hn
        rw [gw, hQ.wo] at hn
        rw [gva, hQ.va, getInfo_congr gi, getInfo_congr hQ.infos, gnow, hQ.now]
        exact hne_c.wo n hn
    obtain ⟨m1, m2, m3⟩ := handleUpsert_fits hq hcap (s := g) (k := k) (v := v)
      (ve := candVE s v) 0 (p.weigh k v) hcand rfl hna (by rw [hgc]; exact hroom)
    have hfr := handleUpsert_frame0 p g k (p.hash k) (candVE s v) 0 (p.weigh k v)
    have hsc := handleUpsert_subc p g k (p.hash k) (candVE s v) 0 (p.weigh k v)
    refine ⟨by rw [m1, hgm], by rw [hgp] at m2; exact m2, ?_, by rw [m3, hgc]; exact hroom⟩
    refine hneg.of_frame_subc hfr hsc ?_ ?_
    · rw [hgva, hgnow, hgI, if_pos (show s.nextId = (candVE s v).info from rfl)]
      exact expiredTs_now hi.ts.va htti
    · rw [hgva, hgnow, hgI, if_pos (show s.nextId = (candVE s v).info from rfl)]
      exact expiredTs_now hi.ts.va httl
  have hr : ({ H with writeQ := [candOp p s k v] } : SState).readQ = [] := by
    show H.readQ = []
    rw [hQ.readQ]; exact c_rq
  obtain ⟨m1, m2, m3, m4⟩ := key
    { { H with writeQ := [candOp p s k v] } with cec := H.ec, cws := H.ws, writeQ := [] }
    rfl rfl rfl rfl rfl rfl rfl
  obtain ⟨e1, e2⟩ := syncRun_one hcap (s := { H with writeQ := [candOp p s k v] })
    (candOp p s k v) hr rfl m3 m4
  exact ⟨e1.trans m1, by obtain ⟨node, a1, a2⟩ := m2; exact ⟨node, a1, e2.trans a2⟩⟩

/-! ### snapshots versus states -/

theorem snapshot_entries_all {p : Params} {s : SState} (f : EntryView → Bool) :
    (snapshot p s).entries.all f = true ↔
      ∀ k e, (k, e) ∈ s.map → f (entryView s (k, e)) = true := by
  simp only [snapshot, List.all_eq_true, mem_sortBy, List.mem_map]
  constructor
  · intro h k e hm; exact h _ ⟨(k, e), hm, rfl⟩
  · rintro h x ⟨⟨k, e⟩, hm, rfl⟩; exact h k e hm

/-- Looking a key up in a sorted list of per-entry records. -/
theorem find?_sortBy_map {α β : Type} (key : α → Nat) (g : Nat × β → α)
    (hg : ∀ kv, key (g kv) = kv.1) (m : List (Nat × β)) (hn : (AL.keys m).Nodup) (k : Nat) :
    (sortBy key (m.map g)).find? (fun x => key x == k) =
      (AL.get? m k).map (fun e => g (k, e)) := by
  have hperm := sortBy_perm key (m.map g)
  have hkeys : ((sortBy key (m.map g)).map key).Nodup := by
    refine ((hperm.map key).nodup_iff).mpr ?_
    have : (m.map g).map key = AL.keys m := by
      rw [AL.keys_eq_map, List.map_map]
      exact List.map_congr_left (fun kv _ => hg kv)
    rw [this]; exact hn
  cases hget : AL.get? m k with
  | none =>
    simp only [Option.map_none]
    rw [List.find?_eq_none]
    intro x hx
    rw [mem_sortBy, List.mem_map] at hx
    obtain ⟨kv, hkv, rfl⟩ := hx
    rw [hg]
    intro hk
    have hk' : kv.1 = k := by simpa using hk
    have : k ∈ AL.keys m := by
      rw [AL.keys_eq_map]; exact List.mem_map.mpr ⟨kv, hkv, hk'⟩
    rw [← AL.get?_isSome_iff, hget] at this
    cases this
  | some e =>
    simp only [Option.map_some]
    have hmem : g (k, e) ∈ sortBy key (m.map g) := by
      rw [mem_sortBy]; exact List.mem_map.mpr ⟨(k, e), AL.mem_of_get? hget, rfl⟩
    have := find?_key_of_nodup key _ hkeys hmem
    rw [hg] at this
    exact this

theorem weightOfKey_snapshot {p : Params} {s : SState} (hkn : (AL.keys s.map).Nodup) (k : Nat) :
    weightOfKey (snapshot p s) k =
      match AL.get? s.map k with
      | some ve => (getInfo s ve.info).weight
      | none => 0 := by
  unfold weightOfKey
  have := find?_sortBy_map (·.key) (entryView s) (fun _ => rfl) s.map hkn k
  simp only [snapshot]
  rw [this]
  cases AL.get? s.map k <;> simp [entryView]

theorem freqOfKey_snapshot {p : Params} {s : SState} (hkn : (AL.keys s.map).Nodup) (k : Nat) :
    freqOfKey (snapshot p s) k =
      match AL.get? s.map k with
      | some _ => s.sk.frequency (p.hash k)
      | none => 0 := by
  unfold freqOfKey
  have := find?_sortBy_map (α := Nat × Nat) (·.1)
    (fun kv => (kv.1, s.sk.frequency (p.hash kv.1))) (fun _ => rfl) s.map hkn k
  simp only [snapshot]
  rw [this]
  cases AL.get? s.map k <;> simp

theorem lruOrder_snapshot (p : Params) (s : SState) :
    lruOrder (snapshot p s) = s.prob.map (·.key) := by
  simp [lruOrder, snapshot, List.map_map, Function.comp_def]

theorem mem_keysOf_snapshot (p : Params) (s : SState) (k : Nat) :
    k ∈ keysOf (snapshot p s) ↔ ∃ e, AL.get? s.map k = some e := by
  simp only [keysOf, snapshot, List.mem_map, mem_sortBy]
  constructor
  · rintro ⟨ev, ⟨kv, hkv, rfl⟩, rfl⟩
    have : kv.1 ∈ AL.keys s.map := by
      rw [AL.keys_eq_map]; exact List.mem_map.mpr ⟨kv, hkv, rfl⟩
    rw [← AL.get?_isSome_iff] at this
    cases h : AL.get? s.map kv.1 with
    | none => rw [h] at this; cases this
    | some e => exact ⟨e, by simpa [entryView] using h⟩
  · rintro ⟨e, he⟩
    exact ⟨entryView s (k, e), ⟨(k, e), AL.mem_of_get? he, rfl⟩, rfl⟩

theorem allCur_of_snapshot {p : Params} {s : SState}
    (h : (snapshot p s).prob.all (·.current) = true) : AllCur s s.prob := by
  intro n hn
  simp only [snapshot, List.all_eq_true, List.mem_map] at h
  have := h _ ⟨n, hn, rfl⟩
  cases hg : AL.get? s.map n.key with
  | none => rw [hg] at this; cases this
  | some e =>
    rw [hg] at this
    exact ⟨e, rfl, eq_of_beq this⟩

theorem live_of_entryLiveAt {p : Params} {s : SState} {k : Nat} {ve : VE}
    (h : entryLiveAt p.ttl p.tti s.now s.va (entryView s (k, ve)) = true) :
    isExpiredInfo p s (getInfo s ve.info) s.now = false := by
  unfold entryLiveAt entryView at h
  unfold isExpiredInfo expiredTs
  simp only [Bool.and_eq_true, Bool.not_eq_true'] at h
  obtain ⟨⟨h1, h2⟩, h3⟩ := h
  unfold expiredAt at h1 h2
  cases hva : s.va with
  | none =>
    cases httl : p.ttl <;> cases htti : p.tti <;> simp_all
  | some va =>
    rw [hva] at h3
    simp only [Bool.and_eq_true, Bool.not_eq_true', decide_eq_false_iff_not] at h3
    cases httl : p.ttl <;> cases htti : p.tti <;> simp_all

theorem calmS_of_snapshot {p : Params} {cap : Nat} {s : SState}
    (hcalm : calm cap p.ttl p.tti (snapshot p s) = true) (hr : (snapshot p s).rq = 0)
    (hw : (snapshot p s).wq = 0) : CalmS p cap s := by
  simp only [calm, Bool.and_eq_true, decide_eq_true_eq] at hcalm
  obtain ⟨⟨⟨hws, hlive⟩, _⟩, hcur⟩ := hcalm
  rw [snapshot_entries_all] at hlive
  refine ⟨List.length_eq_zero_iff.mp hr, List.length_eq_zero_iff.mp hw, hws,
    allCur_of_snapshot hcur, ?_⟩
  intro k ve he
  exact live_of_entryLiveAt (hlive k ve (AL.mem_of_get? he))

/-- The oracle's prediction, read off a state all of whose nodes are current. -/
theorem predictAdmission_snapshot {p : Params} {s : SState} (hkn : (AL.keys s.map).Nodup)
    (hcur : AllCur s s.prob) (hh : PH p s) (w f : Nat) :
    predictAdmission (snapshot p s) w f =
      match shortestPre w (probWeights s) with
      | none => none
      | some n =>
        if f > ((probFreqs s).take n).sum then some ((s.prob.take n).map (·.key)) else none := by
  unfold predictAdmission
  rw [shortestPrefix_eq, lruOrder_snapshot]
  have hW : (s.prob.map (·.key)).map (weightOfKey (snapshot p s)) = probWeights s := by
    unfold probWeights
    rw [List.map_map]
    apply List.map_congr_left
    intro n hn
    obtain ⟨e, he, hei⟩ := hcur n hn
    simp only [Function.comp, weightOfKey_snapshot hkn, he, hei]
  have hF : (s.prob.map (·.key)).map (freqOfKey (snapshot p s)) = probFreqs s := by
    unfold probFreqs
    rw [List.map_map]
    apply List.map_congr_left
    intro n hn
    obtain ⟨e, he, _⟩ := hcur n hn
    simp only [Function.comp, freqOfKey_snapshot hkn, he, hh n hn]
  rw [hW, Nat.sub_zero]
  cases shortestPre w (probWeights s) with
  | none => rfl
  | some n =>
    simp only [Option.map_some, List.nil_append]
    rw [← hF, List.map_take, List.map_take]

/-! ### the C13 trace oracle on model traces -/

/-- The check the C13 oracle performs around `insert` + `sync` holds for the model: the
snapshot after is what the closed formula predicts from the quiescent snapshot of `s` and the
estimate of `k` read in `s`. -/
theorem admissionOk_model {p : Params} (hq : NoQuirks p) (hsm : SmallSketch p) {cap : Nat}
    (hcap : p.cap = some cap) {s : SState} (hi : AInv p s) (hr : (snapshot p s).rq = 0)
    (hw : (snapshot p s).wq = 0) (k v : Nat) :
    admissionOk cap p.ttl p.tti p.weigh (snapshot p s) k v (s.sk.frequency (p.hash k))
      (snapshot p (syncRun p (insert p s k v))) = true := by
  unfold admissionOk
  dsimp only
  cases happ : (!(keysOf (snapshot p s)).contains k && calm cap p.ttl p.tti (snapshot p s) &&
      decide (p.weigh k v ≤ cap) && decide ((snapshot p s).ws + p.weigh k v > cap)) with
  | false => rfl
  | true =>
  simp only [Bool.not_true, Bool.false_or]
  simp only [Bool.and_eq_true, Bool.not_eq_true', decide_eq_true_eq] at happ
  obtain ⟨⟨⟨hfresh, hcalm⟩, hle⟩, hgt⟩ := happ
  have hnew : AL.get? s.map k = none := by
    cases hg : AL.get? s.map k with
    | none => rfl
    | some e =>
      have : k ∈ keysOf (snapshot p s) := (mem_keysOf_snapshot p s k).mpr ⟨e, hg⟩
      rw [← List.contains_iff_mem, hfresh] at this; cases this
  have hc := calmS_of_snapshot hcalm hr hw
  have hkn := hi.top.map.kn
  have hkn2 : (AL.keys (AL.put s.map k (candVE s v))).Nodup := AL.nodup_put _ _ hkn
  obtain ⟨hadm, hrej⟩ := insert_sync_calm hq hsm hcap hi hc k v hnew hle hgt
  rw [predictAdmission_snapshot hkn hc.cur hi.hash.prob]
  have hrejected : (¬ ∃ n, shortestPre (p.weigh k v) (probWeights s) = some n ∧
      s.sk.frequency (p.hash k) > ((probFreqs s).take n).sum) →
      sameKeys (keysOf (snapshot p (syncRun p (insert p s k v)))) (keysOf (snapshot p s)) = true := by
    intro hno
    rw [sameKeys_iff]
    intro x
    rw [mem_keysOf_snapshot, mem_keysOf_snapshot, (hrej hno).1, AL.get?_erase k x hkn2]
    by_cases hx : k = x
    · subst hx
      rw [if_pos rfl, hnew]
    · rw [if_neg hx, AL.get?_put_ne _ hx]
  cases hsp : shortestPre (p.weigh k v) (probWeights s) with
  | none =>
    dsimp only
    apply hrejected
    rintro ⟨n, h1, _⟩
    rw [hsp] at h1; cases h1
  | some n =>
    dsimp only
    by_cases hf : s.sk.frequency (p.hash k) > ((probFreqs s).take n).sum
    · rw [if_pos hf]
      dsimp only
      obtain ⟨hmap, _⟩ := hadm n hsp hf
      rw [sameKeys_iff]
      intro x
      rw [mem_keysOf_snapshot, hmap, get?_eraseKeys hkn2]
      simp only [List.mem_cons, List.mem_filter, Bool.not_eq_true', mem_keysOf_snapshot]
      -- no victim has the candidate's key
      have hkv : k ∉ (s.prob.take n).map (·.key) := by
        intro hin
        obtain ⟨m, hm, hmk⟩ := List.mem_map.mp hin
        obtain ⟨e, he, _⟩ := hc.cur m (List.mem_of_mem_take hm)
        rw [hmk, hnew] at he; cases he
      by_cases hx : x = k
      · subst hx
        rw [if_neg hkv, AL.get?_put_self]
        exact ⟨fun _ => Or.inl rfl, fun _ => ⟨_, rfl⟩⟩
      · have hx' : k ≠ x := fun e => hx e.symm
        by_cases hin : x ∈ (s.prob.take n).map (·.key)
        · rw [if_pos hin]
          constructor
          · rintro ⟨e', he'⟩; cases he'
          · rintro (h | ⟨_, h⟩)
            · exact absurd h hx
            · rw [← List.contains_iff_mem] at hin
              rw [hin] at h; cases h
        · rw [if_neg hin, AL.get?_put_ne _ hx']
          constructor
          · intro h
            refine Or.inr ⟨h, ?_⟩
            cases hcn : ((s.prob.take n).map (·.key)).contains x with
            | false => rfl
            | true => exact absurd (List.contains_iff_mem.mp hcn) hin
          · rintro (h | ⟨h, _⟩)
            · exact absurd h hx
            · exact h
    · rw [if_neg hf]
      dsimp only
      apply hrejected
      rintro ⟨n', h1, h2⟩
      rw [hsp] at h1; cases h1
      exact hf h2

theorem run_cons (p : Params) (s : SState) (op : Op) (rest : List Op) :
    run p s (op :: rest) = (op, (step p s op).2) :: run p (step p s op).1 rest := rfl

/-- One step of a run from a state satisfying the invariant. -/
theorem run_cons_ok {p : Params} (hq : NoQuirks p) (hsm : SmallSketch p) {s : SState}
    (hi : AInv p s) (op : Op) (rest : List Op) :
    run p s (op :: rest) = (op, (rawStep p s op).2) :: run p (rawStep p s op).1 rest ∧
    AInv p (rawStep p s op).1 := by
  have h2 := step_ainv hq hsm hi op
  have := step_ok p s op hi.top.nofault h2.top.nofault
  rw [run_cons, this]
  rw [this] at h2
  exact ⟨rfl, h2⟩

theorem run_eq_cons {p : Params} (hq : NoQuirks p) (hsm : SmallSketch p) {s : SState}
    (hi : AInv p s) {h : List Op} {x : Op × Obs} {t : List (Op × Obs)} (e : run p s h = x :: t) :
    ∃ op rest, h = op :: rest ∧ x = (op, (rawStep p s op).2) ∧
      t = run p (rawStep p s op).1 rest ∧ AInv p (rawStep p s op).1 := by
  cases h with
  | nil => cases e
  | cons op rest =>
    obtain ⟨e1, h2⟩ := run_cons_ok hq hsm hi op rest
    rw [e1] at e
    obtain ⟨e2, e3⟩ := List.cons.inj e
    exact ⟨op, rest, rfl, e2.symm, e3.symm, h2⟩

/-- The C13 walk over a model trace: every window
`sync, snap, freq k, ins k v, [snap,] sync, snap` passes. -/
theorem admitC13Sync_run {p : Params} (hq : NoQuirks p) (hsm : SmallSketch p) {cap : Nat}
    (hcap : p.cap = some cap) :
    ∀ (n : Nat) (h : List Op), h.length ≤ n → ∀ (s : SState), AInv p s →
      admitC13Sync cap p.ttl p.tti p.weigh (run p s h) = true := by
  intro n
  induction n with
  | zero =>
    intro h hl s _
    have : h = [] := List.length_eq_zero_iff.mp (Nat.le_zero.mp hl)
    subst this
    simp [run, admitC13Sync]
  | succ n ih =>
    intro h hl s hi
    cases h with
    | nil => simp [run, admitC13Sync]
    | cons op rest =>
      have hlr : rest.length ≤ n := by simpa using hl
      obtain ⟨hrun, hi1⟩ := run_cons_ok hq hsm hi op rest
      rw [hrun]
      unfold admitC13Sync
      split
      · -- sync, snap, freq, ins, sync, snap
        rename_i before k f k' v after rest' heq
        obtain ⟨e1, e2⟩ := List.cons.inj heq
        have hop : op = .sync := (Prod.mk.inj e1).1
        subst hop
        obtain ⟨op2, r2, hr2, hx2, ht2, hi2⟩ := run_eq_cons hq hsm hi1 e2
        have hop2 : op2 = .snap := (Prod.mk.inj hx2).1.symm
        subst hop2
        have hbefore : before = snapshot p (syncRun p s) := Obs.snap.inj (Prod.mk.inj hx2).2
        obtain ⟨op3, r3, hr3, hx3, ht3, hi3⟩ := run_eq_cons hq hsm hi2 ht2.symm
        have hop3 : op3 = .freq k := (Prod.mk.inj hx3).1.symm
        subst hop3
        have hf : f = (syncRun p s).sk.frequency (p.hash k) := Obs.freq.inj (Prod.mk.inj hx3).2
        obtain ⟨op4, r4, hr4, hx4, ht4, hi4⟩ := run_eq_cons hq hsm hi3 ht3.symm
        have hop4 : op4 = .ins k' v := (Prod.mk.inj hx4).1.symm
        subst hop4
        obtain ⟨op5, r5, hr5, hx5, ht5, hi5⟩ := run_eq_cons hq hsm hi4 ht4.symm
        have hop5 : op5 = .sync := (Prod.mk.inj hx5).1.symm
        subst hop5
        obtain ⟨op6, r6, hr6, hx6, ht6, hi6⟩ := run_eq_cons hq hsm hi5 ht5.symm
        have hop6 : op6 = .snap := (Prod.mk.inj hx6).1.symm
        subst hop6
        have hafter : after = snapshot p (syncRun p (insert p (syncRun p s) k' v)) :=
          Obs.snap.inj (Prod.mk.inj hx6).2
        subst hr2 hr3 hr4 hr5 hr6
        rw [Bool.and_eq_true]
        refine ⟨?_, ?_⟩
        · by_cases hk : k = k'
          · subst hk
            cases hquiet : (before.rq == 0 && before.wq == 0 && after.rq == 0 && after.wq == 0) with
            | false => simp
            | true =>
              simp only [Bool.and_eq_true, beq_iff_eq] at hquiet
              have hadm := admissionOk_model hq hsm hcap (s := syncRun p s) hi1
                (by rw [← hbefore]; exact hquiet.1.1.1) (by rw [← hbefore]; exact hquiet.1.1.2) k v
              rw [hbefore, hf, hafter, hadm]
              simp
          · simp [hk]
        · have : ((Op.sync, Obs.ok) :: (Op.snap, Obs.snap after) :: rest') =
              run p (insert p (syncRun p s) k' v) (.sync :: .snap :: r6) := by
            have hi4' : AInv p (insert p (syncRun p s) k' v) := hi4
            have hi5' : AInv p (syncRun p (insert p (syncRun p s) k' v)) := hi5
            rw [(run_cons_ok hq hsm hi4' _ _).1]
            show _ = _ :: run p (syncRun p (insert p (syncRun p s) k' v)) (.snap :: r6)
            rw [(run_cons_ok hq hsm hi5' _ _).1, hafter, ht6]
            rfl
          rw [this]
          refine ih _ ?_ _ hi4
          simp only [List.length_cons] at hlr ⊢
          omega
      · -- sync, snap, freq, ins, snap, sync, snap
        rename_i before k f k' v mid after rest' heq
        obtain ⟨e1, e2⟩ := List.cons.inj heq
        have hop : op = .sync := (Prod.mk.inj e1).1
        subst hop
        obtain ⟨op2, r2, hr2, hx2, ht2, hi2⟩ := run_eq_cons hq hsm hi1 e2
        have hop2 : op2 = .snap := (Prod.mk.inj hx2).1.symm
        subst hop2
        have hbefore : before = snapshot p (syncRun p s) := Obs.snap.inj (Prod.mk.inj hx2).2
        obtain ⟨op3, r3, hr3, hx3, ht3, hi3⟩ := run_eq_cons hq hsm hi2 ht2.symm
        have hop3 : op3 = .freq k := (Prod.mk.inj hx3).1.symm
        subst hop3
        have hf : f = (syncRun p s).sk.frequency (p.hash k) := Obs.freq.inj (Prod.mk.inj hx3).2
        obtain ⟨op4, r4, hr4, hx4, ht4, hi4⟩ := run_eq_cons hq hsm hi3 ht3.symm
        have hop4 : op4 = .ins k' v := (Prod.mk.inj hx4).1.symm
        subst hop4
        obtain ⟨op5, r5, hr5, hx5, ht5, hi5⟩ := run_eq_cons hq hsm hi4 ht4.symm
        have hop5 : op5 = .snap := (Prod.mk.inj hx5).1.symm
        subst hop5
        have hmid : mid = snapshot p (insert p (syncRun p s) k' v) :=
          Obs.snap.inj (Prod.mk.inj hx5).2
        obtain ⟨op6, r6, hr6, hx6, ht6, hi6⟩ := run_eq_cons hq hsm hi5 ht5.symm
        have hop6 : op6 = .sync := (Prod.mk.inj hx6).1.symm
        subst hop6
        obtain ⟨op7, r7, hr7, hx7, ht7, hi7⟩ := run_eq_cons hq hsm hi6 ht6.symm
        have hop7 : op7 = .snap := (Prod.mk.inj hx7).1.symm
        subst hop7
        have hafter : after = snapshot p (syncRun p (insert p (syncRun p s) k' v)) :=
          Obs.snap.inj (Prod.mk.inj hx7).2
        subst hr2 hr3 hr4 hr5 hr6 hr7
        rw [Bool.and_eq_true]
        refine ⟨?_, ?_⟩
        · by_cases hk : k = k'
          · subst hk
            cases hquiet : (before.rq == 0 && before.wq == 0 && after.rq == 0 && after.wq == 0) with
            | false => simp
            | true =>
              simp only [Bool.and_eq_true, beq_iff_eq] at hquiet
              have hadm := admissionOk_model hq hsm hcap (s := syncRun p s) hi1
                (by rw [← hbefore]; exact hquiet.1.1.1) (by rw [← hbefore]; exact hquiet.1.1.2) k v
              rw [hbefore, hf, hafter, hadm]
              simp
          · simp [hk]
        · have : ((Op.snap, Obs.snap mid) :: (Op.sync, Obs.ok) :: (Op.snap, Obs.snap after) :: rest') =
              run p (insert p (syncRun p s) k' v) (.snap :: .sync :: .snap :: r7) := by
            have hi4' : AInv p (insert p (syncRun p s) k' v) := hi4
            have hi6' : AInv p (syncRun p (insert p (syncRun p s) k' v)) := hi6
            rw [(run_cons_ok hq hsm hi4' _ _).1]
            show _ = _ :: run p (insert p (syncRun p s) k' v) (.sync :: .snap :: r7)
            rw [(run_cons_ok hq hsm hi4' _ _).1]
            show _ = _ :: _ :: run p (syncRun p (insert p (syncRun p s) k' v)) (.snap :: r7)
            rw [(run_cons_ok hq hsm hi6' _ _).1, hmid, hafter, ht7]
            rfl
          rw [this]
          refine ih _ ?_ _ hi4
          simp only [List.length_cons] at hlr ⊢
          omega
      · rename_i x t heq
        obtain ⟨_, e2⟩ := List.cons.inj heq
        rw [← e2]
        exact ih rest hlr _ hi1
      · rfl

/-- **C13 on traces** (concurrent cache driven by one thread): the oracle accepts every trace
of the model. -/
theorem oracleC13_trace {p : Params} (hq : NoQuirks p) (hsm : SmallSketch p) (h : List Op) :
    oracleC13 .sync p.cap p.ttl p.tti p.weigh (trace p h) = true := by
  unfold oracleC13 trace
  cases hcap : p.cap with
  | none => rfl
  | some cap =>
    dsimp only
    exact admitC13Sync_run hq hsm hcap h.length h (Nat.le_refl _) {} (init_ainv p)

/-! ## Recency (C12): the access order between two quiescent snapshots

Between two quiescent snapshots the access-order list changes only by removals and by moving
*unstable* nodes to the back: nodes of the one info that was used (a recorded hit, a queued
insert) and nodes that no longer belong to the map's entry of their key (their `Remove` is
still queued). -/

/-- The node does not belong to the entry the map holds under its key. -/
def NonCur (s : SState) (n : AoNode) : Prop :=
  ∀ e, AL.get? s.map n.key = some e → e.info ≠ n.info

/-- Unstable: a node of the used info, or a node that is not current. -/
def Unst (u : Option Nat) (s : SState) (n : AoNode) : Prop := some n.info = u ∨ NonCur s n

theorem NonCur.mono {s s' : SState} {n : AoNode}
    (hsub : ∀ k ve, AL.get? s'.map k = some ve → AL.get? s.map k = some ve) (h : NonCur s n) :
    NonCur s' n := fun e he => h e (hsub _ _ he)

theorem Unst.mono {u : Option Nat} {s s' : SState} {n : AoNode}
    (hsub : ∀ k ve, AL.get? s'.map k = some ve → AL.get? s.map k = some ve) (h : Unst u s n) :
    Unst u s' n := h.imp id (NonCur.mono hsub)

/-- `l` is a sublist `A` of `l0` followed by nodes `T` satisfying `P`; if `d`, the nodes of `A`
satisfy `Q`. -/
def Split (d : Bool) (P Q : AoNode → Prop) (l0 l : List AoNode) : Prop :=
  ∃ A T, l = A ++ T ∧ A.Sublist l0 ∧ (∀ n, n ∈ T → P n) ∧ (d = true → ∀ n, n ∈ A → Q n)

theorem Split.refl (P Q : AoNode → Prop) (l : List AoNode) : Split false P Q l l :=
  ⟨l, [], by simp, List.Sublist.refl _, (fun _ h => by cases h), (fun h => by cases h)⟩

theorem Split.of_sublist {P Q : AoNode → Prop} {l0 l : List AoNode} (h : l.Sublist l0) :
    Split false P Q l0 l :=
  ⟨l, [], by simp, h, (fun _ h => by cases h), (fun h => by cases h)⟩

theorem Split.weaken {d : Bool} {P Q : AoNode → Prop} {l0 l : List AoNode}
    (h : Split d P Q l0 l) : Split false P Q l0 l := by
  obtain ⟨A, T, h1, h2, h3, _⟩ := h
  exact ⟨A, T, h1, h2, h3, fun h => by cases h⟩

theorem Split.trans {d1 d2 : Bool} {P P' Q : AoNode → Prop} {l0 l1 l2 : List AoNode}
    (h1 : Split d1 P Q l0 l1) (h2 : Split d2 P' Q l1 l2) (mono : ∀ n, P n → P' n) :
    Split (d1 || d2) P' Q l0 l2 := by
  obtain ⟨A1, T1, e1, s1, p1, q1⟩ := h1
  obtain ⟨A2, T2, e2, s2, p2, q2⟩ := h2
  rw [e1] at s2
  obtain ⟨A2a, A2b, ea, sa, sb⟩ := List.sublist_append_iff.mp s2
  refine ⟨A2a, A2b ++ T2, by rw [e2, ea, List.append_assoc], sa.trans s1, ?_, ?_⟩
  · intro n hn
    rcases List.mem_append.mp hn with h | h
    · exact mono n (p1 n (sb.subset h))
    · exact p2 n h
  · intro hd n hn
    cases hd1 : d1 with
    | true => exact q1 hd1 n (sa.subset hn)
    | false =>
      rw [hd1, Bool.false_or] at hd
      exact q2 hd n (by rw [ea]; exact List.mem_append_left _ hn)

/-- One piece of maintenance as seen by the access order. -/
structure Mv (d : Bool) (u : Option Nat) (s s' : SState) : Prop where
  split : Split d (Unst u s') (fun n => some n.info ≠ u) s.prob s'.prob
  kn : (AL.keys s.map).Nodup → (AL.keys s'.map).Nodup
  mapSub : (AL.keys s.map).Nodup →
    ∀ k ve, AL.get? s'.map k = some ve → AL.get? s.map k = some ve

theorem Mv.refl (u : Option Nat) (s : SState) : Mv false u s s :=
  ⟨Split.refl _ _ _, fun h => h, fun _ _ _ h => h⟩

theorem Mv.weaken {d : Bool} {u : Option Nat} {s s' : SState} (h : Mv d u s s') :
    Mv false u s s' := ⟨h.split.weaken, h.kn, h.mapSub⟩

theorem Mv.of_sublist {u : Option Nat} {s s' : SState} (h : s'.prob.Sublist s.prob)
    (hf : Frame s s') : Mv false u s s' :=
  ⟨Split.of_sublist h, hf.kn, hf.mapSub⟩

theorem Mv.trans {d1 d2 : Bool} {u : Option Nat} {a b c : SState}
    (hkn : (AL.keys a.map).Nodup) (h1 : Mv d1 u a b) (h2 : Mv d2 u b c) :
    Mv (d1 || d2) u a c :=
  ⟨h1.split.trans h2.split (fun _ h => h.mono (h2.mapSub (h1.kn hkn))),
   fun h => h2.kn (h1.kn h),
   fun hn k ve h => h1.mapSub hn k ve (h2.mapSub (h1.kn hn) k ve h)⟩

/-- The access order of `s` relative to the reference list `N` (the access order at the last
quiescent snapshot). -/
def Seg (d : Bool) (u : Option Nat) (N : List AoNode) (s : SState) : Prop :=
  Split d (Unst u s) (fun n => some n.info ≠ u) N s.prob

theorem Seg.step {d1 d2 : Bool} {u : Option Nat} {N : List AoNode} {s s' : SState}
    (hkn : (AL.keys s.map).Nodup) (h : Seg d1 u N s) (hm : Mv d2 u s s') :
    Seg (d1 || d2) u N s' :=
  Split.trans h hm.split (fun _ hn => hn.mono (hm.mapSub hkn))

theorem Seg.step' {d : Bool} {u : Option Nat} {N : List AoNode} {s s' : SState}
    (hkn : (AL.keys s.map).Nodup) (h : Seg d u N s) (hm : Mv false u s s') : Seg d u N s' := by
  have := h.step hkn hm
  rwa [Bool.or_false] at this

/-! ### removals -/

theorem eraseAo_sublist (l : List AoNode) (id : Nat) : (eraseAo l id).Sublist l := by
  induction l with
  | nil => exact List.Sublist.refl _
  | cons a l ih =>
    unfold eraseAo
    by_cases e : a.id = id
    · rw [if_pos e]; exact List.sublist_cons_self _ _
    · rw [if_neg e]; exact ih.cons_cons _

theorem unlinkAo_sublist (s : SState) (i : Nat) : (unlinkAo s i).prob.Sublist s.prob := by
  unfold unlinkAo; split
  · exact List.Sublist.refl _
  · dsimp only
    split
    · exact eraseAo_sublist _ _
    · rw [fail_prob]; exact List.Sublist.refl _

theorem subCounters_prob (s : SState) (n w : Nat) : (subCounters s n w).prob = s.prob := by
  unfold subCounters
  dsimp only
  split
  · exact fail_prob _ _
  · rfl

theorem handleRemove_sublist (s : SState) (ve : VE) : (handleRemove s ve).prob.Sublist s.prob := by
  unfold handleRemove
  dsimp only
  split
  · rw [unlinkWo_prob]
    refine (unlinkAo_sublist _ _).trans ?_
    rw [subCounters_prob]
    exact List.Sublist.refl _
  · exact List.Sublist.refl _

theorem removeVictims_sublist (p : Params) (vs : List AoNode) :
    ∀ (s : SState) (sk : List AoNode), (removeVictims p vs s sk).1.prob.Sublist s.prob := by
  induction vs with
  | nil => intro s sk; exact List.Sublist.refl _
  | cons v rest ih =>
    intro s sk
    unfold removeVictims
    split
    · refine (ih _ _).trans ?_
      rw [fail_prob]; exact List.Sublist.refl _
    · split
      · exact (ih _ _).trans (handleRemove_sublist _ _)
      · exact ih _ _

/-! ### moves -/

theorem Mv.of_eq {u : Option Nat} {s s' : SState} (hp : s'.prob = s.prob) (hf : Frame s s') :
    Mv false u s s' :=
  Mv.of_sublist (by rw [hp]; exact List.Sublist.refl _) hf

/-- Nothing moves and no node belongs to the used info. -/
theorem Mv.of_eq_done {u : Option Nat} {s s' : SState} (hp : s'.prob = s.prob) (hf : Frame s s')
    (hno : ∀ n, n ∈ s.prob → some n.info ≠ u) : Mv true u s s' :=
  ⟨⟨s.prob, [], by rw [hp]; simp, List.Sublist.refl _, (fun _ h => by cases h), fun _ => hno⟩,
   hf.kn, hf.mapSub⟩

theorem frame_of_map_infos {s s' : SState} (hm : s'.map = s.map) (hi : s'.infos = s.infos)
    (hr : s'.readQ = s.readQ) (hv : s'.va = s.va) (hn : s'.now = s.now)
    (hx : s.nextId ≤ s'.nextId) : Frame s s' :=
  (frame0_of_eq hm hi hr hv hn hx).toFrame

theorem moveNodeToBackAo_mv {d : Bool} {u : Option Nat} {s : SState} {id : Nat} {n : AoNode}
    (hf : findAo s.prob id = some n) (hn : Unst u s n)
    (hA : d = true → ∀ m, m ∈ eraseAo s.prob id → some m.info ≠ u) :
    Mv d u s (moveNodeToBackAo s id) := by
  rw [moveNodeToBackAo_eq hf]
  refine ⟨⟨eraseAo s.prob id, [n], rfl, eraseAo_sublist _ _, ?_, hA⟩, fun h => h, fun _ _ _ h => h⟩
  intro m hm
  simp at hm
  rw [hm]
  exact hn

theorem no_node_of_not_admitted {s : SState} (hs : Safe s) {i : Nat}
    (hna : (getInfo s i).admitted = false) : ∀ n, n ∈ s.prob → n.info ≠ i := by
  intro n hn e
  have := hs.probAdm hn
  rw [e, hna] at this
  cases this

/-- `move_to_back_ao` of the entry of the used info: its node (if it has one) goes to the
back, no other node belongs to that info. -/
theorem moveToBackAoE_mv {u : Option Nat} {s : SState} (hs : Safe s) {i : Nat}
    (hi : some i = u) : Mv true u s (moveToBackAoE s i) := by
  unfold moveToBackAoE
  cases hx : (getInfo s i).ao with
  | none =>
    dsimp only
    refine Mv.of_eq_done rfl (Frame.refl s) ?_
    intro n hn e
    have hna : (getInfo s i).admitted = false := by
      cases ha : (getInfo s i).admitted with
      | false => rfl
      | true =>
        have := (hs.admIff i).mp ha
        rw [hx] at this; cases this
    rw [← hi] at e
    exact no_node_of_not_admitted hs hna n hn (Option.some.inj e)
  | some id =>
    dsimp only
    obtain ⟨n, hf, hni⟩ := hs.toNodesCore.aoFind hx
    refine moveNodeToBackAo_mv hf (Or.inl (by rw [hni]; exact hi)) ?_
    intro _ m hm e
    rw [← hi] at e
    have hmi : m.info = i := Option.some.inj e
    obtain ⟨hmp, hmid⟩ := (mem_eraseAo_iff hf hs.probIds m).mp hm
    have hnp := (findAo_some hf).1
    have := hs.info_inj hmp hnp (hmi.trans hni.symm)
    exact hmid (this.trans (findAo_some hf).2)

theorem moveNodeToBackWo_prob (s : SState) (id : Nat) : (moveNodeToBackWo s id).prob = s.prob := by
  unfold moveNodeToBackWo; split
  · rfl
  · exact fail_prob _ _

theorem moveToBackWoE_prob (s : SState) (i : Nat) : (moveToBackWoE s i).prob = s.prob := by
  unfold moveToBackWoE; split
  · rfl
  · exact moveNodeToBackWo_prob _ _

theorem handleAdmit_mv {u : Option Nat} (p : Params) {s : SState} (key : Nat) (hash : UInt64)
    (ve : VE) (w : Nat) (hi : some ve.info = u) (hno : ∀ n, n ∈ s.prob → some n.info ≠ u) :
    Mv true u s (handleAdmit p s key hash ve w) := by
  obtain ⟨a1, a2, _⟩ := handleAdmit_exact p s key hash ve w
  have hf := (handleAdmit_frame0 p s key hash ve w).toFrame
  refine ⟨⟨s.prob, [_], a2, List.Sublist.refl _, ?_, fun _ => hno⟩, hf.kn, hf.mapSub⟩
  intro m hm
  simp at hm
  rw [hm]
  exact Or.inl hi

theorem moveNodeToBackAo_map (s : SState) (id : Nat) : (moveNodeToBackAo s id).map = s.map := by
  unfold moveNodeToBackAo; split
  · rfl
  · exact fail_map _ _

theorem moveSkipped_mv {u : Option Nat} : ∀ (ns : List AoNode) (s : SState), Safe s →
    (AL.keys s.map).Nodup → (∀ n, n ∈ ns → n ∈ s.prob) → (∀ n, n ∈ ns → Unst u s n) →
    Mv false u s (moveSkipped ns s) := by
  intro ns
  induction ns with
  | nil => intro s _ _ _ _; exact Mv.refl u s
  | cons n rest ih =>
    intro s hs hkn hns hu
    rw [moveSkipped]
    have hnp := hns n List.mem_cons_self
    have hf := findAo_of_mem hs.probIds hnp
    have m1 : Mv false u s (moveNodeToBackAo s n.id) :=
      moveNodeToBackAo_mv hf (hu n List.mem_cons_self) (fun h => by cases h)
    obtain ⟨h1, k1⟩ := moveNodeToBackAo_safe hs hnp
    have hmap := moveNodeToBackAo_map s n.id
    have m2 := ih (moveNodeToBackAo s n.id) h1 (by rw [hmap]; exact hkn)
      (fun m hm => k1 m (hns m (List.mem_cons_of_mem _ hm)))
      (fun m hm => (hu m (List.mem_cons_of_mem _ hm)).mono (fun k ve h => by rw [hmap] at h; exact h))
    exact Mv.trans hkn m1 m2

theorem nonCur_of_entryOfNode_none {p : Params} (hd7 : p.q.d7 = false) {s : SState} {n : AoNode}
    (h : entryOfNode p s n.key n.info = none) : NonCur s n := by
  intro e he
  unfold entryOfNode at h
  rw [he] at h
  dsimp only at h
  rw [hd7, Bool.false_or] at h
  by_cases c : (e.info == n.info) = true
  · rw [if_pos c] at h; cases h
  · intro e'; exact c (by rw [e']; exact beq_self_eq_true _)

theorem admitLoop_skipped (p : Params) (s : SState) (cw cf : Nat) :
    ∀ (l : List AoNode) (a : Admission) (m : AoNode), m ∈ (admitLoop p s cw cf l a).skipped →
      m ∈ a.skipped ∨ (m ∈ l ∧ entryOfNode p s m.key m.info = none) := by
  intro l
  induction l with
  | nil => intro a m hm; exact Or.inl hm
  | cons n rest ih =>
    intro a m hm
    rw [admitLoop] at hm
    split at hm
    · split at hm
      · rcases ih _ m hm with h | ⟨h1, h2⟩
        · exact Or.inl h
        · exact Or.inr ⟨List.mem_cons_of_mem _ h1, h2⟩
      · rename_i hnone
        dsimp only at hm
        split at hm
        · rcases List.mem_append.mp hm with h | h
          · exact Or.inl h
          · simp at h; rw [h]; exact Or.inr ⟨List.mem_cons_self, hnone⟩
        · rcases ih _ m hm with h | ⟨h1, h2⟩
          · rcases List.mem_append.mp h with h | h
            · exact Or.inl h
            · simp at h; rw [h]; exact Or.inr ⟨List.mem_cons_self, hnone⟩
          · exact Or.inr ⟨List.mem_cons_of_mem _ h1, h2⟩
    · exact Or.inl hm

theorem removeVictims_skipped {p : Params} (hd7 : p.q.d7 = false) :
    ∀ (vs : List AoNode) (s : SState) (sk : List AoNode), (AL.keys s.map).Nodup →
      ∀ m, m ∈ (removeVictims p vs s sk).2 →
        m ∈ sk ∨ NonCur (removeVictims p vs s sk).1 m := by
  intro vs
  induction vs with
  | nil => intro s sk _ m hm; exact Or.inl hm
  | cons v rest ih =>
    intro s sk hkn m hm
    cases hf : findAo s.prob v.id with
    | none =>
      have e : removeVictims p (v :: rest) s sk =
          removeVictims p rest (s.fail .useAfterFree) sk := by
        rw [removeVictims, hf]
      rw [e] at hm ⊢
      exact ih _ sk (by rw [fail_map]; exact hkn) m hm
    | some x =>
      cases hve : entryOfNode p s v.key v.info with
      | some ve =>
        have e : removeVictims p (v :: rest) s sk =
            removeVictims p rest (handleRemove { s with map := AL.erase s.map v.key } ve) sk := by
          rw [removeVictims, hf]; dsimp only; rw [hve]
        rw [e] at hm ⊢
        refine ih _ sk ?_ m hm
        exact (handleRemove_frame0 _ _).kn (AL.nodup_erase _ hkn)
      | none =>
        have e : removeVictims p (v :: rest) s sk = removeVictims p rest s (sk ++ [v]) := by
          rw [removeVictims, hf]; dsimp only; rw [hve]
        rw [e] at hm ⊢
        rcases ih s (sk ++ [v]) hkn m hm with h | h
        · rcases List.mem_append.mp h with h | h
          · exact Or.inl h
          · simp at h
            rw [h]
            exact Or.inr ((nonCur_of_entryOfNode_none hd7 hve).mono
              ((removeVictims_frame0 p rest s (sk ++ [v])).mapSub hkn))
        · exact Or.inr h

theorem removeCandidate_prob (p : Params) (s : SState) (key : Nat) (ve : VE) :
    (removeCandidate p s key ve).prob = s.prob := by
  unfold removeCandidate
  split
  · split <;> rfl
  · rfl

/-- `admit` and what follows it, for the queued insert of the used info (which is not
admitted yet): victims leave, the candidate's node (if admitted) and the skipped nodes (which
are not current) go to the back. -/
theorem admitOrReject_mv {u : Option Nat} {p : Params} (hd7 : p.q.d7 = false) {s : SState}
    (hs : Safe s) (hkn : (AL.keys s.map).Nodup) (key : Nat) (hash : UInt64) (ve : VE) (newW : Nat)
    (hi : some ve.info = u) (hna : (getInfo s ve.info).admitted = false)
    (hlt : ve.info < s.nextId) : Mv true u s (admitOrReject p s key hash ve newW) := by
  have hno : ∀ n, n ∈ s.prob → some n.info ≠ u := by
    intro n hn e
    rw [← hi] at e
    exact no_node_of_not_admitted hs hna n hn (Option.some.inj e)
  unfold admitOrReject
  dsimp only
  obtain ⟨vs, ss, h1, h2, h3, h4, h5, h6⟩ :=
    admitLoop_split p s newW (s.sk.frequency hash) s.prob {} hs.probIds
  have hsk := admitLoop_skipped p s newW (s.sk.frequency hash) s.prob {}
  generalize admitLoop p s newW (s.sk.frequency hash) s.prob {} = a at h1 h2 hsk ⊢
  have e1 : a.victims = vs := by rw [h1]; rfl
  have e2 : a.skipped = ss := by rw [h2]; rfl
  have hskN : ∀ m, m ∈ a.skipped → NonCur s m := by
    intro m hm
    rcases hsk m hm with h | ⟨_, h⟩
    · cases h
    · exact nonCur_of_entryOfNode_none hd7 h
  split
  · have hfr := removeVictims_frame0 p a.victims s a.skipped
    have hrv := removeVictims_safe hd7 a.victims s a.skipped hs (by rw [e1]; exact h3)
      (by rw [e2]; exact h4) (by rw [e1]; exact h5) (by rw [e1, e2]; exact h6)
    have hsub := removeVictims_sublist p a.victims s a.skipped
    have hskp := removeVictims_skipped hd7 a.victims s a.skipped hkn
    generalize removeVictims p a.victims s a.skipped = r at hfr hrv hsub hskp ⊢
    obtain ⟨s1, sk1⟩ := r
    obtain ⟨r1, r2, r3⟩ := hrv
    dsimp only at r1 r2 r3 hfr hsub hskp ⊢
    have hkn1 := hfr.kn hkn
    have m1 : Mv false u s s1 := Mv.of_sublist hsub hfr.toFrame
    have hno1 : ∀ n, n ∈ s1.prob → some n.info ≠ u := fun n hn => hno n (hsub.subset hn)
    have m2 : Mv true u s1 (handleAdmit p s1 key hash ve newW) :=
      handleAdmit_mv p key hash ve newW hi hno1
    obtain ⟨a1, a2⟩ := handleAdmit_safe (p := p) r1 key hash ve newW (r3 _ hna)
      (Nat.lt_of_lt_of_le hlt hfr.nextId)
    have hmap3 := (handleAdmit_exact p s1 key hash ve newW).1
    have m3 : Mv false u (handleAdmit p s1 key hash ve newW)
        (moveSkipped sk1 (handleAdmit p s1 key hash ve newW)) := by
      refine moveSkipped_mv sk1 _ a1 (by rw [hmap3]; exact hkn1) (fun n hn => a2 n (r2 n hn)) ?_
      intro m hm
      refine Or.inr (NonCur.mono (s := s1) (fun k ve' h => by rw [hmap3] at h; exact h) ?_)
      rcases hskp m hm with h | h
      · exact (hskN m h).mono (hfr.mapSub hkn)
      · exact h
    have := (Mv.trans hkn m1 m2).trans hkn m3
    simpa using this
  · have hf := (removeCandidate_frame0 p s key ve).toFrame
    have m1 : Mv true u s (removeCandidate p s key ve) :=
      Mv.of_eq_done (removeCandidate_prob p s key ve) hf hno
    obtain ⟨c1, c2⟩ := removeCandidate_safe (p := p) hs key ve
    have m2 : Mv false u (removeCandidate p s key ve)
        (moveSkipped a.skipped (removeCandidate p s key ve)) := by
      refine moveSkipped_mv a.skipped _ c1 (hf.kn hkn)
        (fun n hn => c2 n (h4 n (by rw [← e2]; exact hn))) ?_
      intro m hm
      exact Or.inr ((hskN m hm).mono (hf.mapSub hkn))
    have := Mv.trans hkn m1 m2
    simpa using this

theorem applyUpdate_mv {u : Option Nat} (p : Params) {s : SState} (hs : Safe s) (ve : VE)
    (oldW newW : Nat) (hi : some ve.info = u) : Mv true u s (applyUpdate p s ve oldW newW) := by
  unfold applyUpdate
  dsimp only
  rw [subCounters_eq (Nat.zero_le _)]
  generalize hs3 : (if p.q.d8 = true then
      addCounters { s with cec := s.cec - 0, cws := s.cws - (if p.q.d8 = true then oldW
        else (getInfo s ve.info).weight) } 0 newW
    else withInfo (addCounters { s with cec := s.cec - 0, cws := s.cws - (if p.q.d8 = true then oldW
        else (getInfo s ve.info).weight) } 0 newW) ve.info (fun i => { i with weight := newW })) = s3
  have h3 : Safe s3 := by
    rw [← hs3]
    have h2 : ∀ w, Safe (addCounters { s with cec := s.cec - 0, cws := w } 0 newW) :=
      fun w => hs.of_eq rfl rfl rfl (Nat.le_refl _) rfl rfl
    split
    · exact h2 _
    · exact (h2 _).withInfo _ _ rfl rfl rfl
  have hp3 : s3.prob = s.prob := by rw [← hs3]; split <;> rfl
  have hf3 : Frame s s3 := by
    rw [← hs3]
    split
    · exact frame_of_map_infos rfl rfl rfl rfl rfl (Nat.le_refl _)
    · refine Frame.trans ?_ (frame0_withInfo' _ _ _).toFrame
      exact frame_of_map_infos rfl rfl rfl rfl rfl (Nat.le_refl _)
  have m1 : Mv false u s s3 := Mv.of_eq hp3 hf3
  have m2 : Mv true u s3 (moveToBackAoE s3 ve.info) := moveToBackAoE_mv h3 hi
  have m3 : Mv false u (moveToBackAoE s3 ve.info) (moveToBackWoE (moveToBackAoE s3 ve.info) ve.info) :=
    Mv.of_eq (moveToBackWoE_prob _ _) (moveToBackWoE_frame0 _ _).toFrame
  refine ⟨?_, fun h => m3.kn (m2.kn (m1.kn h)),
    fun hn k v h => m1.mapSub hn k v (m2.mapSub (m1.kn hn) k v (m3.mapSub (m2.kn (m1.kn hn)) k v h))⟩
  -- the maps of all these states are that of `s`: monotonicity of `Unst` is trivial
  have hm3 : s3.map = s.map := by rw [← hs3]; split <;> rfl
  have hma : (moveToBackAoE s3 ve.info).map = s3.map := by
    unfold moveToBackAoE; split
    · rfl
    · exact moveNodeToBackAo_map _ _
  have := (m1.split.trans m2.split (fun n h => h.mono (fun k v h' => by rw [hma] at h'; exact h'))).trans
    m3.split (fun n h => h.mono (fun k v h' => by
      have : (moveToBackWoE (moveToBackAoE s3 ve.info) ve.info).map = (moveToBackAoE s3 ve.info).map := by
        unfold moveToBackWoE; split
        · rfl
        · unfold moveNodeToBackWo; split
          · rfl
          · exact fail_map _ _
      rw [this] at h'; exact h'))
  simpa using this

/-- `handle_upsert` for a queued insert of the used info. -/
theorem handleUpsert_mv {u : Option Nat} {p : Params} (hq : NoQuirks p) {s : SState}
    (hs : Safe s) (hm : MapOK s) (key : Nat) (hash : UInt64) (ve : VE) (oldW newW : Nat)
    (hi : some ve.info = u) : Mv true u s (handleUpsert p s key hash ve oldW newW) := by
  have hd7 : p.q.d7 = false := by rw [hq]
  unfold handleUpsert
  dsimp only
  generalize currentWeight p s key ve newW = nw
  have h1 : Safe (withInfo s ve.info (fun i => { i with dirty := false })) :=
    hs.withInfo _ _ rfl rfl rfl
  have hm1 : MapOK (withInfo s ve.info (fun i => { i with dirty := false })) :=
    ⟨hm.kn, hm.bound⟩
  have m0 : Mv false u s (withInfo s ve.info (fun i => { i with dirty := false })) :=
    Mv.of_eq rfl (frame0_withInfo' _ _ _).toFrame
  generalize withInfo s ve.info (fun i => { i with dirty := false }) = s1 at h1 hm1 m0 ⊢
  have fin : ∀ {s2 : SState}, Mv true u s1 s2 → Mv true u s s2 := by
    intro s2 h
    have := Mv.trans hm.kn m0 h
    simpa using this
  by_cases c1 : (getInfo s1 ve.info).admitted = true
  · rw [if_pos c1]; exact fin (applyUpdate_mv p h1 ve oldW nw hi)
  · rw [if_neg c1]
    have hna : (getInfo s1 ve.info).admitted = false := by
      cases hx : (getInfo s1 ve.info).admitted with
      | false => rfl
      | true => exact absurd hx c1
    have hno : ∀ n, n ∈ s1.prob → some n.info ≠ u := by
      intro n hn e
      rw [← hi] at e
      exact no_node_of_not_admitted h1 hna n hn (Option.some.inj e)
    by_cases c2 : (!p.q.d7 && !isCurrentEntry s1 key ve) = true
    · rw [if_pos c2]; exact fin (Mv.of_eq_done rfl (Frame.refl _) hno)
    · rw [if_neg c2]
      have hlt : ve.info < s1.nextId := by
        rw [hd7] at c2
        unfold isCurrentEntry at c2
        cases hg : AL.get? s1.map key with
        | none => rw [hg] at c2; simp at c2
        | some cur =>
          rw [hg] at c2
          have : cur.info = ve.info := by simpa using c2
          rw [← this]; exact hm1.bound key cur hg
      by_cases c3 : hasEnoughCapacity p nw s1 = true
      · rw [if_pos c3]; exact fin (handleAdmit_mv p key hash ve nw hi hno)
      · rw [if_neg c3]
        by_cases c4 : tooBig p nw = true
        · rw [if_pos c4]
          exact fin (Mv.of_eq_done (removeCandidate_prob p s1 key ve)
            (removeCandidate_frame0 p s1 key ve).toFrame hno)
        · rw [if_neg c4]
          exact fin (admitOrReject_mv hd7 h1 hm1.kn key hash ve nw hi hna hlt)

/-! ### the queues of a segment: every recorded hit and queued insert is of the used info -/

def isUpsert : WOp → Bool
  | .upsert _ _ _ _ _ => true
  | .remove _ _ => false

def isHit : ROp → Bool
  | .hit _ _ _ => true
  | .miss _ => false

def WQU (u : Option Nat) (q : List WOp) : Prop :=
  ∀ key hash ve o w, WOp.upsert key hash ve o w ∈ q → some ve.info = u

def RQU (u : Option Nat) (q : List ROp) : Prop :=
  ∀ hash ve ts, ROp.hit hash ve ts ∈ q → some ve.info = u

theorem Mv.cast {d d' : Bool} {u : Option Nat} {s s' : SState} (h : Mv d u s s') (e : d = d') :
    Mv d' u s s' := e ▸ h

theorem handleRemove_mv {u : Option Nat} (s : SState) (ve : VE) :
    Mv false u s (handleRemove s ve) :=
  Mv.of_sublist (handleRemove_sublist s ve) (handleRemove_frame0 s ve).toFrame

theorem applyWrite_mv {u : Option Nat} {p : Params} (hq : NoQuirks p) {s : SState} (hs : Safe s)
    (hm : MapOK s) (op : WOp) (hop : WQU u [op]) :
    Mv (isUpsert op) u s (applyWrite p s op) := by
  cases op with
  | upsert key hash ve oldW newW =>
    exact handleUpsert_mv hq hs hm key hash ve oldW newW
      (hop key hash ve oldW newW List.mem_cons_self)
  | remove key ve => exact handleRemove_mv s ve

theorem applyWrites_mv {u : Option Nat} {p : Params} (hq : NoQuirks p) (n : Nat) :
    ∀ (s : SState), Safe s → MapOK s → WQU u s.writeQ →
      Mv ((s.writeQ.take n).any isUpsert) u s (applyWrites p n s) := by
  induction n with
  | zero => intro s _ _ _; exact Mv.refl u s
  | succ n ih =>
    intro s hs hm hw
    unfold applyWrites
    split
    · rename_i hq0
      rw [hq0]; exact Mv.refl u s
    · rename_i op rest hq0
      have h0 : Safe { s with writeQ := rest } := safe_setWriteQ hs rest
      have hm0 : MapOK { s with writeQ := rest } := ⟨hm.kn, hm.bound⟩
      have m0 : Mv false u s { s with writeQ := rest } :=
        Mv.of_eq rfl (frame0_set_writeQ s rest).toFrame
      have hop : WQU u [op] := by
        intro key hash ve o w hmem
        simp at hmem
        exact hw key hash ve o w (by rw [hq0, hmem]; exact List.mem_cons_self)
      have m1 := applyWrite_mv hq h0 hm0 op hop
      have h1 := applyWrite_safe hq h0 hm0 op
      have hm1 := hm0.frame0 (applyWrite_frame0 p _ op)
      have hwq1 : (applyWrite p { s with writeQ := rest } op).writeQ = rest :=
        (applyWrite_qframe p { s with writeQ := rest } op).writeQ
      have m2 := ih _ h1 hm1 (by
        rw [hwq1]
        intro key hash ve o w hmem
        exact hw key hash ve o w (by rw [hq0]; exact List.mem_cons_of_mem _ hmem))
      rw [hwq1] at m2
      have := (Mv.trans hm.kn m0 m1).trans hm.kn m2
      refine this.cast ?_
      rw [hq0, List.take_succ_cons, List.any_cons, Bool.false_or]

theorem Mv.of_eq_map {u : Option Nat} {s s' : SState} (hp : s'.prob = s.prob)
    (hm : s'.map = s.map) : Mv false u s s' :=
  ⟨Split.of_sublist (by rw [hp]; exact List.Sublist.refl _), fun h => by rw [hm]; exact h,
   fun _ k ve h => by rw [hm] at h; exact h⟩

theorem Mv.of_eq_map_done {u : Option Nat} {s s' : SState} (hp : s'.prob = s.prob)
    (hm : s'.map = s.map) (hno : ∀ n, n ∈ s.prob → some n.info ≠ u) : Mv true u s s' :=
  ⟨⟨s.prob, [], by rw [hp]; simp, List.Sublist.refl _, (fun _ h => by cases h), fun _ => hno⟩,
   fun h => by rw [hm]; exact h, fun _ k ve h => by rw [hm] at h; exact h⟩

theorem applyRead_mv {u : Option Nat} {p : Params} (hq : NoQuirks p) {s : SState} (hs : Safe s)
    (hkn : (AL.keys s.map).Nodup) (hk : SkOK Sketch.Good s) (op : ROp) (hop : RQU u [op]) :
    Mv (isHit op) u s (applyRead p s op) := by
  have hd6 : p.q.d6 = false := by rw [hq]
  cases op with
  | miss hash =>
    obtain ⟨sk', e, _, _⟩ := sketchIncrement_spec sketchLaws hq hk.sk hash
    show Mv false u s (sketchIncrement p s hash)
    rw [e]
    exact Mv.of_eq_map rfl rfl
  | hit hash ve ts =>
    obtain ⟨sk', e, _, _⟩ := sketchIncrement_spec sketchLaws hq hk.sk hash
    have hi : some ve.info = u := hop hash ve ts List.mem_cons_self
    show Mv true u s (applyRead p s (.hit hash ve ts))
    unfold applyRead
    simp only [hd6, Bool.false_eq_true, if_false]
    obtain ⟨h1, _⟩ := sketchIncrement_inv sketchLaws hq hs hk hash
    have m1 : Mv false u s (sketchIncrement p s hash) := by
      rw [e]; exact Mv.of_eq_map rfl rfl
    generalize sketchIncrement p s hash = s1 at h1 m1 ⊢
    have h2 : Safe (if (getInfo s1 ve.info).la < ts
        then withInfo s1 ve.info (fun i => { i with la := ts }) else s1) ∧
        Mv false u s1 (if (getInfo s1 ve.info).la < ts
        then withInfo s1 ve.info (fun i => { i with la := ts }) else s1) := by
      split
      · exact ⟨h1.withInfo _ _ rfl rfl rfl, Mv.of_eq_map rfl rfl⟩
      · exact ⟨h1, Mv.refl u s1⟩
    generalize (if (getInfo s1 ve.info).la < ts
        then withInfo s1 ve.info (fun i => { i with la := ts }) else s1) = s2 at h2 ⊢
    have m12 : Mv false u s s2 := by
      have := Mv.trans hkn m1 h2.2
      simpa using this
    by_cases ha : (getInfo s2 ve.info).admitted = true
    · rw [if_pos ha]
      have := Mv.trans hkn m12 (moveToBackAoE_mv h2.1 hi)
      simpa using this
    · rw [if_neg ha]
      have hna : (getInfo s2 ve.info).admitted = false := by
        cases hx : (getInfo s2 ve.info).admitted with
        | false => rfl
        | true => exact absurd hx ha
      have hno : ∀ n, n ∈ s2.prob → some n.info ≠ u := by
        intro n hn e'
        rw [← hi] at e'
        exact no_node_of_not_admitted h2.1 hna n hn (Option.some.inj e')
      have := Mv.trans hkn m12 (Mv.of_eq_map_done rfl rfl hno)
      simpa using this

theorem applyReads_mv {u : Option Nat} {p : Params} (hq : NoQuirks p) (n : Nat) :
    ∀ (s : SState), Safe s → (AL.keys s.map).Nodup → SkOK Sketch.Good s → RQU u s.readQ →
      Mv ((s.readQ.take n).any isHit) u s (applyReads p n s) := by
  induction n with
  | zero => intro s _ _ _ _; exact Mv.refl u s
  | succ n ih =>
    intro s hs hkn hk hr
    unfold applyReads
    split
    · rename_i hq0
      rw [hq0]; exact Mv.refl u s
    · rename_i op rest hq0
      have h0 : Safe { s with readQ := rest } := hs.of_eq rfl rfl rfl (Nat.le_refl _) rfl rfl
      have k0 : SkOK Sketch.Good { s with readQ := rest } := ⟨hk.sk, hk.skOff⟩
      have m0 : Mv false u s { s with readQ := rest } := Mv.of_eq_map rfl rfl
      have hop : RQU u [op] := by
        intro hash ve ts hmem
        simp at hmem
        exact hr hash ve ts (by rw [hq0, hmem]; exact List.mem_cons_self)
      have m1 := applyRead_mv hq h0 hkn k0 op hop
      obtain ⟨h1, k1⟩ := applyRead_inv sketchLaws hq h0 k0 op
      have hrq1 : (applyRead p { s with readQ := rest } op).readQ = rest :=
        (applyRead_qframe p { s with readQ := rest } op).readQ
      have m2 := ih _ h1 (m1.kn hkn) k1 (by
        rw [hrq1]
        intro hash ve ts hmem
        exact hr hash ve ts (by rw [hq0]; exact List.mem_cons_of_mem _ hmem))
      rw [hrq1] at m2
      have := (Mv.trans hkn m0 m1).trans hkn m2
      refine this.cast ?_
      rw [hq0, List.take_succ_cons, List.any_cons, Bool.false_or]

/-! ### eviction: only unstable nodes are skipped -/

/-- Within a segment, a dirty entry of the map belongs to the used info. -/
def DirtyOk (u : Option Nat) (s : SState) : Prop :=
  ∀ k e, AL.get? s.map k = some e → (getInfo s e.info).dirty = true → some e.info = u

theorem DirtyOk.step {u : Option Nat} {s s' : SState} (h : DirtyOk u s)
    (hkn : (AL.keys s.map).Nodup) (hd : ∀ j, (getInfo s' j).dirty = true → (getInfo s j).dirty = true)
    (hsub : (AL.keys s.map).Nodup → ∀ k ve, AL.get? s'.map k = some ve → AL.get? s.map k = some ve) :
    DirtyOk u s' :=
  fun k e he hdirty => h k e (hsub hkn k e he) (hd _ hdirty)

/-- What the eviction loops keep. -/
structure RI (u : Option Nat) (s : SState) : Prop where
  safe : Safe s
  mapok : MapOK s
  dirty : DirtyOk u s

theorem RI.next {u : Option Nat} {s s' : SState} (h : RI u s) (hs : Safe s') (hf : Frame0 s s')
    (hsub : Sub s s') : RI u s' :=
  ⟨hs, h.mapok.frame0 hf, h.dirty.step h.mapok.kn hsub.dirty hf.mapSub⟩

theorem RI.remove {u : Option Nat} {s : SState} (h : RI u s) (k : Nat) (ve : VE) :
    RI u (handleRemove { s with map := AL.erase s.map k } ve) ∧
    Mv false u s (handleRemove { s with map := AL.erase s.map k } ve) := by
  have hf : Frame0 s (handleRemove { s with map := AL.erase s.map k } ve) :=
    (frame0_erase s k).trans (handleRemove_frame0 _ _)
  refine ⟨h.next (handleRemove_safe (safe_eraseMap h.safe k) ve).1 hf
    ((sub_erase s k).trans (handleRemove_sub _ _)), ?_⟩
  exact Mv.of_sublist (handleRemove_sublist _ _) hf.toFrame

theorem moveToBackAoE_map (s : SState) (i : Nat) : (moveToBackAoE s i).map = s.map := by
  unfold moveToBackAoE; split
  · rfl
  · exact moveNodeToBackAo_map _ _

theorem moveNodeToBackWo_map (s : SState) (id : Nat) : (moveNodeToBackWo s id).map = s.map := by
  unfold moveNodeToBackWo; split
  · rfl
  · exact fail_map _ _

theorem moveToBackWoE_map (s : SState) (i : Nat) : (moveToBackWoE s i).map = s.map := by
  unfold moveToBackWoE; split
  · rfl
  · exact moveNodeToBackWo_map _ _

/-- Moving the nodes of a dirty entry back (`try_skip_updated_entry`, `remove_expired_wo`). -/
theorem RI.touch {u : Option Nat} {s : SState} (h : RI u s) {k : Nat} {ve : VE}
    (hg : AL.get? s.map k = some ve) (hd : (getInfo s ve.info).dirty = true) :
    RI u (moveToBackWoE (moveToBackAoE s ve.info) ve.info) ∧
    Mv false u s (moveToBackWoE (moveToBackAoE s ve.info) ve.info) := by
  have hi := h.dirty k ve hg hd
  obtain ⟨s1, _⟩ := moveToBackAoE_safe h.safe ve.info
  obtain ⟨s2, _⟩ := moveToBackWoE_safe s1 ve.info
  refine ⟨h.next s2 ((moveToBackAoE_frame0 _ _).trans (moveToBackWoE_frame0 _ _))
    ((moveToBackAoE_sub _ _).trans (moveToBackWoE_sub _ _)), ?_⟩
  have m1 : Mv true u s (moveToBackAoE s ve.info) := moveToBackAoE_mv h.safe hi
  have m2 : Mv false u (moveToBackAoE s ve.info) (moveToBackWoE (moveToBackAoE s ve.info) ve.info) :=
    Mv.of_eq_map (moveToBackWoE_prob _ _) (moveToBackWoE_map _ _)
  exact (Mv.trans h.mapok.kn m1 m2).weaken

theorem RI.skip {u : Option Nat} {s : SState} (h : RI u s) (key : Nat)
    (hk : ∀ n rest, s.prob = n :: rest → n.key = key) :
    RI u (trySkipUpdated s key).1 ∧ Mv false u s (trySkipUpdated s key).1 := by
  have hri : RI u (trySkipUpdated s key).1 :=
    h.next (trySkipUpdated_safe h.safe key) (trySkipUpdated_frame0 s key) (trySkipUpdated_sub s key)
  refine ⟨hri, ?_⟩
  unfold trySkipUpdated
  cases hg : AL.get? s.map key with
  | some ve =>
    dsimp only
    by_cases hd : (getInfo s ve.info).dirty = true
    · rw [if_pos hd]; exact (h.touch hg hd).2
    · rw [if_neg hd]; exact Mv.refl u s
  | none =>
    dsimp only
    cases hp : s.prob with
    | nil => exact Mv.refl u s
    | cons n rest =>
      dsimp only
      have hf : findAo s.prob n.id = some n := by rw [hp]; simp [findAo]
      refine moveNodeToBackAo_mv hf (Or.inr ?_) (fun hx => by cases hx)
      intro e he
      rw [hk n rest hp, hg] at he
      cases he

theorem Mv.trans' {u : Option Nat} {a b c : SState} (hkn : (AL.keys a.map).Nodup)
    (h1 : Mv false u a b) (h2 : Mv false u b c) : Mv false u a c :=
  (Mv.trans hkn h1 h2).cast rfl

theorem removeExpiredAo_mv {u : Option Nat} (p : Params) (n : Nat) :
    ∀ (s : SState), RI u s → Mv false u s (removeExpiredAo p n s) := by
  induction n with
  | zero => intro s _; exact Mv.refl u s
  | succ n ih =>
    intro s h
    unfold removeExpiredAo
    split
    · exact Mv.refl u s
    · rename_i nd rest hp
      split
      · dsimp only
        split
        · rename_i ve _
          obtain ⟨r1, m1⟩ := h.remove nd.key ve
          exact Mv.trans' h.mapok.kn m1 (ih _ r1)
        · obtain ⟨r1, m1⟩ := h.skip nd.key (fun n' rest' e => by
            rw [hp] at e; cases e; rfl)
          split
          · exact Mv.trans' h.mapok.kn m1 (ih _ r1)
          · exact m1
      · exact Mv.refl u s

theorem removeExpiredWo_mv {u : Option Nat} (p : Params) (n : Nat) :
    ∀ (s : SState), RI u s → Mv false u s (removeExpiredWo p n s) := by
  induction n with
  | zero => intro s _; exact Mv.refl u s
  | succ n ih =>
    intro s h
    unfold removeExpiredWo
    split
    · exact Mv.refl u s
    · rename_i nd rest hp
      split
      · dsimp only
        split
        · rename_i ve _
          obtain ⟨r1, m1⟩ := h.remove nd.key ve
          exact Mv.trans' h.mapok.kn m1 (ih _ r1)
        · split
          · rename_i ve hg
            split
            · rename_i hd
              obtain ⟨r1, m1⟩ := h.touch hg hd
              exact Mv.trans' h.mapok.kn m1 (ih _ r1)
            · exact Mv.refl u s
          · have r1 : RI u (moveNodeToBackWo s nd.id) :=
              h.next (moveNodeToBackWo_safe h.safe (by rw [hp]; exact List.mem_cons_self)).1
                (moveNodeToBackWo_frame0 _ _) (moveNodeToBackWo_sub _ _)
            have m1 : Mv false u s (moveNodeToBackWo s nd.id) :=
              Mv.of_eq_map (moveNodeToBackWo_prob _ _) (moveNodeToBackWo_map _ _)
            exact Mv.trans' h.mapok.kn m1 (ih _ r1)
      · exact Mv.refl u s

theorem evictExpired_ri {u : Option Nat} (p : Params) {s : SState} (h : RI u s) :
    RI u (evictExpired p s) :=
  h.next (evictExpired_safe p h.safe) (evictExpired_frame0 p s) (evictExpired_sub p s)

theorem evictExpired_mv {u : Option Nat} (p : Params) {s : SState} (h : RI u s) :
    Mv false u s (evictExpired p s) := by
  unfold evictExpired
  dsimp only
  have h1 : RI u (if p.ttl.isSome = true then removeExpiredWo p Gen.SYNC_EVICTION_BATCH_SIZE s else s) ∧
      Mv false u s (if p.ttl.isSome = true then removeExpiredWo p Gen.SYNC_EVICTION_BATCH_SIZE s
        else s) := by
    split
    · exact ⟨h.next (removeExpiredWo_safe p _ _ h.safe) (removeExpiredWo_frame0 p _ _)
        (removeExpiredWo_sub p _ _), removeExpiredWo_mv p _ _ h⟩
    · exact ⟨h, Mv.refl u s⟩
  generalize (if p.ttl.isSome = true then removeExpiredWo p Gen.SYNC_EVICTION_BATCH_SIZE s
    else s) = s1 at h1 ⊢
  split
  · exact Mv.trans' h.mapok.kn h1.2 (removeExpiredAo_mv p _ _ h1.1)
  · exact h1.2

theorem evictLruLoop_mv {u : Option Nat} (p : Params) (n : Nat) :
    ∀ (s : SState) (wte ev : Nat), RI u s → Mv false u s (evictLruLoop p n s wte ev) := by
  induction n with
  | zero => intro s _ _ _; exact Mv.refl u s
  | succ n ih =>
    intro s wte ev h
    unfold evictLruLoop
    split
    · exact Mv.refl u s
    · split
      · exact Mv.refl u s
      · rename_i nd rest hp
        have hk : ∀ n' rest', s.prob = n' :: rest' → n'.key = nd.key := fun n' rest' e => by
          rw [hp] at e; cases e; rfl
        dsimp only
        split
        · obtain ⟨r1, m1⟩ := h.skip nd.key hk
          split
          · exact Mv.trans' h.mapok.kn m1 (ih _ _ _ r1)
          · exact m1
        · split
          · rename_i ve _
            obtain ⟨r1, m1⟩ := h.remove nd.key ve
            exact Mv.trans' h.mapok.kn m1 (ih _ _ _ r1)
          · obtain ⟨r1, m1⟩ := h.skip nd.key hk
            split
            · exact Mv.trans' h.mapok.kn m1 (ih _ _ _ r1)
            · exact m1

/-! ### a maintenance run as seen by the access order -/

theorem applyWrites_dm (p : Params) (n : Nat) : ∀ (s : SState) (j : Nat),
    (getInfo (applyWrites p n s) j).dirty = true → (getInfo s j).dirty = true := by
  induction n with
  | zero => intro s j h; exact h
  | succ n ih =>
    intro s j h
    unfold applyWrites at h
    split at h
    · exact h
    · rename_i op rest _
      have h1 := ih _ j h
      cases op with
      | upsert key hash ve oldW newW =>
        exact (handleUpsert_subc p { s with writeQ := rest } key hash ve oldW newW).dirty j h1
      | remove key ve => exact (handleRemove_sub { s with writeQ := rest } ve).dirty j h1

theorem any_take_length {α : Type} (l : List α) (f : α → Bool) :
    (l.take l.length).any f = l.any f := by rw [List.take_length]

/-- The body of the loop of `Inner::sync` within a segment. -/
theorem syncPass_mv {u : Option Nat} {p : Params} (hq : NoQuirks p) {s0 : SState}
    (h0 : RunInv Sketch.Good s0) (hr0 : RQU u s0.readQ) (hw0 : WQU u s0.writeQ)
    (d0 : DirtyOk u s0) :
    RI u (syncPass p s0) ∧
    Mv (s0.readQ.any isHit || s0.writeQ.any isUpsert) u s0 (syncPass p s0) := by
  unfold syncPass
  dsimp only
  have h1 : RunInv Sketch.Good (if s0.readQ.length > 0 then applyReads p s0.readQ.length s0 else s0) ∧
      Mv (s0.readQ.any isHit) u s0
        (if s0.readQ.length > 0 then applyReads p s0.readQ.length s0 else s0) ∧
      DirtyOk u (if s0.readQ.length > 0 then applyReads p s0.readQ.length s0 else s0) ∧
      (if s0.readQ.length > 0 then applyReads p s0.readQ.length s0 else s0).writeQ = s0.writeQ := by
    split
    · obtain ⟨a, b⟩ := applyReads_inv sketchLaws hq s0.readQ.length s0 h0.safe h0.sk
      have hf := applyReads_frame hq s0.readQ.length s0
      refine ⟨⟨a, h0.map.frame hf, b⟩, ?_, ?_, applyReads_writeQ p _ _⟩
      · exact (applyReads_mv hq _ s0 h0.safe h0.map.kn h0.sk hr0).cast (any_take_length _ _)
      · exact d0.step h0.map.kn (applyReads_sub p _ _).dirty hf.mapSub
    · rename_i hlen
      have : s0.readQ = [] := by
        cases hq0 : s0.readQ with
        | nil => rfl
        | cons a t => rw [hq0] at hlen; exact absurd (Nat.succ_pos _) hlen
      refine ⟨h0, ?_, d0, rfl⟩
      rw [this]; exact Mv.refl u s0
  generalize (if s0.readQ.length > 0 then applyReads p s0.readQ.length s0 else s0) = s1 at h1 ⊢
  obtain ⟨r1, m1, d1, w1⟩ := h1
  have h2 : RunInv Sketch.Good (if s1.writeQ.length > 0 then applyWrites p s1.writeQ.length s1 else s1) ∧
      Mv (s0.writeQ.any isUpsert) u s1
        (if s1.writeQ.length > 0 then applyWrites p s1.writeQ.length s1 else s1) ∧
      DirtyOk u (if s1.writeQ.length > 0 then applyWrites p s1.writeQ.length s1 else s1) := by
    split
    · have hf := applyWrites_frame0 p s1.writeQ.length s1
      refine ⟨⟨applyWrites_safe hq _ _ r1.safe r1.map, r1.map.frame0 hf,
        r1.sk.same (applyWrites_sk _ _ _)⟩, ?_, ?_⟩
      · have := applyWrites_mv (u := u) hq s1.writeQ.length s1 r1.safe r1.map (by rw [w1]; exact hw0)
        exact this.cast (by rw [any_take_length, w1])
      · exact d1.step r1.map.kn (applyWrites_dm p _ _) hf.mapSub
    · rename_i hlen
      have : s0.writeQ = [] := by
        rw [← w1]
        cases hq0 : s1.writeQ with
        | nil => rfl
        | cons a t => rw [hq0] at hlen; exact absurd (Nat.succ_pos _) hlen
      refine ⟨r1, ?_, d1⟩
      rw [this]; exact Mv.refl u s1
  generalize (if s1.writeQ.length > 0 then applyWrites p s1.writeQ.length s1 else s1) = s2 at h2 ⊢
  obtain ⟨r2, m2, d2⟩ := h2
  have c2 := Mv.trans h0.map.kn m1 m2
  split
  · have hsame := enableSketch_same p s2
    refine ⟨⟨enableSketch_safe p r2.safe, r2.map.frame0 (enableSketch_frame0 _ _),
      d2.step r2.map.kn (enableSketch_sub p s2).dirty (enableSketch_frame0 _ _).mapSub⟩, ?_⟩
    have := Mv.trans h0.map.kn c2 (Mv.of_eq_map (u := u) hsame.prob hsame.map)
    exact this.cast (by simp)
  · exact ⟨⟨r2.safe, r2.map, d2⟩, c2⟩

/-- `Inner::sync` within a segment: only unstable nodes move; if a hit or an insert of the used
info was queued, its node is unstable from now on (`d = true`). -/
theorem syncRun_mv {u : Option Nat} {p : Params} (hq : NoQuirks p)
    {s : SState} (h : TopInv Sketch.Good s) (hr : RQU u s.readQ) (hw : WQU u s.writeQ)
    (hd : DirtyOk u s) :
    Mv (s.readQ.any isHit || s.writeQ.any isUpsert) u s (syncRun p s) ∧
    DirtyOk u (syncRun p s) := by
  rw [syncRun_eq]
  dsimp only
  have hkn := h.map.kn
  have h0 : RunInv Sketch.Good { s with cec := s.ec, cws := s.ws } :=
    ⟨⟨⟨h.nodes.toNodesCore.congr (fun _ => rfl) (fun _ => rfl) (fun _ => rfl) (List.Perm.refl _)
        (List.Perm.refl _) (Nat.le_refl _), h.nodes.count⟩, h.nofault⟩,
     ⟨h.map.kn, h.map.bound⟩, ⟨h.sk.sk, h.sk.skOff⟩⟩
  have m0 : Mv false u s { s with cec := s.ec, cws := s.ws } := Mv.of_eq_map rfl rfl
  obtain ⟨r3, m3⟩ := syncPass_mv (u := u) hq h0 hr hw hd
  have m3' : Mv (s.readQ.any isHit || s.writeQ.any isUpsert) u
      { s with cec := s.ec, cws := s.ws } (syncPass p { s with cec := s.ec, cws := s.ws }) := m3
  generalize syncPass p { s with cec := s.ec, cws := s.ws } = s3 at r3 m3' ⊢
  have h4 : RI u (if (p.hasExpiry || s3.va.isSome) = true then evictExpired p s3 else s3) ∧
      Mv false u s3 (if (p.hasExpiry || s3.va.isSome) = true then evictExpired p s3 else s3) := by
    split
    · exact ⟨evictExpired_ri p r3, evictExpired_mv p r3⟩
    · exact ⟨r3, Mv.refl u s3⟩
  generalize (if (p.hasExpiry || s3.va.isSome) = true then evictExpired p s3 else s3) = s4 at h4 ⊢
  obtain ⟨r4, m4⟩ := h4
  have h5 : RI u (if weightsToEvict p s4 > 0
        then evictLruLoop p Gen.SYNC_EVICTION_BATCH_SIZE s4 (weightsToEvict p s4) 0 else s4) ∧
      Mv false u s4 (if weightsToEvict p s4 > 0
        then evictLruLoop p Gen.SYNC_EVICTION_BATCH_SIZE s4 (weightsToEvict p s4) 0 else s4) := by
    split
    · exact ⟨r4.next (evictLruLoop_safe p _ _ _ _ r4.safe) (evictLruLoop_frame0 p _ _ _ _)
        (evictLruLoop_sub p _ _ _ _), evictLruLoop_mv p _ _ _ _ r4⟩
    · exact ⟨r4, Mv.refl u s4⟩
  generalize (if weightsToEvict p s4 > 0
      then evictLruLoop p Gen.SYNC_EVICTION_BATCH_SIZE s4 (weightsToEvict p s4) 0 else s4) = s5 at h5 ⊢
  obtain ⟨r5, m5⟩ := h5
  have m6 : Mv false u s5 { s5 with ec := s5.cec, ws := s5.cws } := Mv.of_eq_map rfl rfl
  refine ⟨?_, r5.dirty⟩
  have c1 := Mv.trans hkn m0 m3'
  have c4 := Mv.trans hkn c1 m4
  have c5 := Mv.trans hkn c4 m5
  have c6 := Mv.trans hkn c5 m6
  exact c6.cast (by simp)

/-! ### an info belongs to one key -/

/-- The key recorded in an info (ghost) is the key of the nodes that the info owns. -/
def KP (s : SState) : Prop := ∀ n, n ∈ s.prob → (getInfo s n.info).key = n.key

/-- … and the key under which the map holds its entries. -/
def KM (s : SState) : Prop := ∀ k e, AL.get? s.map k = some e → (getInfo s e.info).key = k

/-- … and the key of the queued inserts, whose infos have been allocated. -/
def KQ (s : SState) : Prop :=
  ∀ key hash ve o w, WOp.upsert key hash ve o w ∈ s.writeQ →
    (getInfo s ve.info).key = key ∧ ve.info < s.nextId

structure KeyOk (s : SState) : Prop where
  prob : KP s
  map : KM s
  wq : KQ s

theorem KP.sub {s s' : SState} (h : KP s) (hs : Sub s s') (hk : ∀ i, (getInfo s' i).key = (getInfo s i).key) :
    KP s' := fun n hn => by rw [hk]; exact h n (hs.prob n hn)

theorem KP.subc {s s' : SState} {key info : Nat} {hash : UInt64} (h : KP s)
    (hs : SubC key hash info s s') (hk : ∀ i, (getInfo s' i).key = (getInfo s i).key)
    (hi : (getInfo s info).key = key) : KP s' := by
  intro n hn
  rw [hk]
  rcases hs.prob n hn with h1 | ⟨e1, _, e3⟩
  · exact h n h1
  · rw [e3, e1]; exact hi

theorem KM.frame {s s' : SState} (h : KM s) (hkn : (AL.keys s.map).Nodup) (hf : Frame s s') :
    KM s' := fun k e he => by rw [hf.key]; exact h k e (hf.mapSub hkn k e he)

theorem applyWrites_kp {p : Params} (n : Nat) : ∀ (s : SState), KP s →
    (∀ key hash ve o w, WOp.upsert key hash ve o w ∈ s.writeQ → (getInfo s ve.info).key = key) →
    KP (applyWrites p n s) := by
  induction n with
  | zero => intro s h _; exact h
  | succ n ih =>
    intro s h hq
    unfold applyWrites
    split
    · exact h
    · rename_i op rest hs
      have h0 : KP { s with writeQ := rest } := h
      have hf := applyWrite_frame0 p { s with writeQ := rest } op
      have h1 : KP (applyWrite p { s with writeQ := rest } op) := by
        cases op with
        | upsert key hash ve oldW newW =>
          exact h0.subc (handleUpsert_subc p _ key hash ve oldW newW) hf.key
            (hq key hash ve oldW newW (by rw [hs]; exact List.mem_cons_self))
        | remove key ve => exact h0.sub (handleRemove_sub _ ve) hf.key
      refine ih _ h1 ?_
      rw [(applyWrite_qframe p { s with writeQ := rest } op).writeQ]
      intro key hash ve o w hm
      rw [hf.key]
      exact hq key hash ve o w (by rw [hs]; exact List.mem_cons_of_mem _ hm)

theorem syncRun_keyok {p : Params} (hq : NoQuirks p) {s : SState} (hkn : (AL.keys s.map).Nodup)
    (h : KeyOk s) : KeyOk (syncRun p s) := by
  have hfr := syncRun_frame hq s
  refine ⟨?_, h.map.frame hkn hfr, by intro _ _ _ _ _ hm; rw [syncRun_writeQ] at hm; cases hm⟩
  rw [syncRun_eq]
  dsimp only
  have h1 : KP (syncPass p { s with cec := s.ec, cws := s.ws }) ∧
      ∀ i, (getInfo (syncPass p { s with cec := s.ec, cws := s.ws }) i).key = (getInfo s i).key := by
    unfold syncPass
    dsimp only
    have a1 : KP (if ({ s with cec := s.ec, cws := s.ws } : SState).readQ.length > 0
        then applyReads p ({ s with cec := s.ec, cws := s.ws } : SState).readQ.length
          { s with cec := s.ec, cws := s.ws } else { s with cec := s.ec, cws := s.ws }) ∧
        (∀ i, (getInfo (if ({ s with cec := s.ec, cws := s.ws } : SState).readQ.length > 0
        then applyReads p ({ s with cec := s.ec, cws := s.ws } : SState).readQ.length
          { s with cec := s.ec, cws := s.ws } else { s with cec := s.ec, cws := s.ws }) i).key =
          (getInfo s i).key) ∧
        (if ({ s with cec := s.ec, cws := s.ws } : SState).readQ.length > 0
        then applyReads p ({ s with cec := s.ec, cws := s.ws } : SState).readQ.length
          { s with cec := s.ec, cws := s.ws } else { s with cec := s.ec, cws := s.ws }).writeQ =
          s.writeQ := by
      split
      · have hf := applyReads_frame hq ({ s with cec := s.ec, cws := s.ws } : SState).readQ.length
          { s with cec := s.ec, cws := s.ws }
        exact ⟨KP.sub (s := { s with cec := s.ec, cws := s.ws }) h.prob (applyReads_sub p _ _) hf.key,
          hf.key, applyReads_writeQ p _ _⟩
      · exact ⟨h.prob, fun _ => rfl, rfl⟩
    generalize (if ({ s with cec := s.ec, cws := s.ws } : SState).readQ.length > 0
        then applyReads p ({ s with cec := s.ec, cws := s.ws } : SState).readQ.length
          { s with cec := s.ec, cws := s.ws } else { s with cec := s.ec, cws := s.ws }) = s1 at a1 ⊢
    obtain ⟨k1, e1, w1⟩ := a1
    have a2 : KP (if s1.writeQ.length > 0 then applyWrites p s1.writeQ.length s1 else s1) ∧
        ∀ i, (getInfo (if s1.writeQ.length > 0 then applyWrites p s1.writeQ.length s1 else s1) i).key =
          (getInfo s i).key := by
      split
      · refine ⟨applyWrites_kp _ s1 k1 ?_, fun i => by rw [(applyWrites_frame0 p _ s1).key, e1]⟩
        intro key hash ve o w hm
        rw [w1] at hm
        rw [e1]
        exact (h.wq key hash ve o w hm).1
      · exact ⟨k1, e1⟩
    generalize (if s1.writeQ.length > 0 then applyWrites p s1.writeQ.length s1 else s1) = s2 at a2 ⊢
    obtain ⟨k2, e2⟩ := a2
    split
    · have hf := enableSketch_frame0 p s2
      exact ⟨k2.sub (enableSketch_sub p s2) hf.key, fun i => by rw [hf.key, e2]⟩
    · exact ⟨k2, e2⟩
  generalize syncPass p { s with cec := s.ec, cws := s.ws } = s1 at h1 ⊢
  obtain ⟨k1, _⟩ := h1
  have h2 : KP (if (p.hasExpiry || s1.va.isSome) = true then evictExpired p s1 else s1) := by
    split
    · exact k1.sub (evictExpired_sub _ _) (evictExpired_frame0 _ _).key
    · exact k1
  generalize (if (p.hasExpiry || s1.va.isSome) = true then evictExpired p s1 else s1) = s2 at h2 ⊢
  have h3 : KP (if weightsToEvict p s2 > 0
      then evictLruLoop p Gen.SYNC_EVICTION_BATCH_SIZE s2 (weightsToEvict p s2) 0 else s2) := by
    split
    · exact h2.sub (evictLruLoop_sub _ _ _ _ _) (evictLruLoop_frame0 _ _ _ _ _).key
    · exact h2
  exact h3

theorem KeyOk.of_eq {s t : SState} (h : KeyOk s) (e1 : t.prob = s.prob) (e2 : t.map = s.map)
    (e3 : t.infos = s.infos) (e4 : t.writeQ = s.writeQ) (e5 : t.nextId = s.nextId) : KeyOk t := by
  have hg : ∀ j, getInfo t j = getInfo s j := getInfo_congr e3
  refine ⟨?_, ?_, ?_⟩
  · intro n hn; rw [e1] at hn; rw [hg]; exact h.prob n hn
  · intro k e he; rw [e2] at he; rw [hg]; exact h.map k e he
  · intro key hash ve o w hm; rw [e4] at hm; rw [hg, e5]; exact h.wq key hash ve o w hm

theorem trySync_keyok {p : Params} (hq : NoQuirks p) {s : SState} (hkn : (AL.keys s.map).Nodup)
    (h : KeyOk s) : KeyOk (trySync p s) := by
  unfold trySync
  split
  · exact h
  · dsimp only
    generalize s.now + Gen.PERIODICAL_SYNC_INTERVAL_MILLIS * 1000000 = sa
    have h0 : KeyOk { s with running := true, syncAfter := sa } := h.of_eq rfl rfl rfl rfl rfl
    exact (syncRun_keyok hq (s := { s with running := true, syncAfter := sa }) hkn h0).of_eq
      rfl rfl rfl rfl rfl

theorem housekeepW_keyok {p : Params} (hq : NoQuirks p) {s : SState}
    (hkn : (AL.keys s.map).Nodup) (h : KeyOk s) : KeyOk (housekeepW p s) := by
  unfold housekeepW; split
  · exact trySync_keyok hq hkn h
  · exact h

theorem housekeepR_keyok {p : Params} (hq : NoQuirks p) {s : SState}
    (hkn : (AL.keys s.map).Nodup) (h : KeyOk s) : KeyOk (housekeepR p s) := by
  unfold housekeepR; split
  · exact trySync_keyok hq hkn h
  · exact h

/-- Queuing a write operation after the housekeeping of `schedule_write_op`. -/
theorem scheduleWriteOp_keyok {p : Params} (hq : NoQuirks p) {s : SState} (hqi : QInv s)
    (hkn : (AL.keys s.map).Nodup) (h : KeyOk s) (op : WOp)
    (hop : ∀ key hash ve o w, op = WOp.upsert key hash ve o w →
      (getInfo s ve.info).key = key ∧ ve.info < s.nextId) :
    KeyOk (scheduleWriteOp p 3 s op) := by
  rw [scheduleWriteOp3 p hqi]
  have h1 := housekeepW_keyok hq hkn h
  have hf := housekeepW_frame hq s
  refine ⟨h1.prob, h1.map, ?_⟩
  intro key hash ve o w hm
  rcases List.mem_append.mp hm with hm | hm
  · exact h1.wq key hash ve o w hm
  · simp at hm
    obtain ⟨a, b⟩ := hop key hash ve o w hm.symm
    show (getInfo (housekeepW p s) ve.info).key = key ∧ ve.info < (housekeepW p s).nextId
    rw [hf.key]
    exact ⟨a, Nat.lt_of_lt_of_le b hf.nextId⟩

theorem insert_keyok {p : Params} (hq : NoQuirks p) {s : SState} (hi : AInv p s) (h : KeyOk s)
    (k v : Nat) : KeyOk (insert p s k v) := by
  have hnc := hi.top.nodes.toNodesCore
  unfold insert
  dsimp only
  split
  · rename_i old hg
    have hold := hi.top.map.bound k old hg
    have hkey : ∀ j, (getInfo (refreshInfo p s old.info s.now (p.weigh k v)) j).key =
        (getInfo s j).key := by
      intro j
      unfold refreshInfo
      rw [getInfo_withInfo]
      by_cases e : old.info = j
      · rw [if_pos e, e]
      · rw [if_neg e]
    refine scheduleWriteOp_keyok hq (s := _) ?_ ?_ ?_ _ ?_
    · exact qinv_of_eq hi.q rfl rfl rfl
    · exact AL.nodup_put _ _ hi.top.map.kn
    · refine ⟨?_, ?_, ?_⟩
      · intro n hn
        show (getInfo (refreshInfo p s old.info s.now (p.weigh k v)) n.info).key = n.key
        rw [hkey]; exact h.prob n hn
      · intro k' e he
        show (getInfo (refreshInfo p s old.info s.now (p.weigh k v)) e.info).key = k'
        rw [hkey]
        have he' : AL.get? (AL.put s.map k _) k' = some e := he
        rw [AL.get?_put] at he'
        by_cases ekk : k = k'
        · rw [if_pos ekk] at he'
          cases he'
          rw [← ekk]; exact h.map k old hg
        · rw [if_neg ekk] at he'; exact h.map k' e he'
      · intro key hash ve o w hm
        show (getInfo (refreshInfo p s old.info s.now (p.weigh k v)) ve.info).key = key ∧
          ve.info < s.nextId + 1
        rw [hkey]
        obtain ⟨a, b⟩ := h.wq key hash ve o w hm
        exact ⟨a, Nat.lt_succ_of_lt b⟩
    · intro key hash ve o w e
      cases e
      show (getInfo (refreshInfo p s old.info s.now (p.weigh k v)) old.info).key = k ∧
        old.info < s.nextId + 1
      rw [hkey]
      exact ⟨h.map k old hg, Nat.lt_succ_of_lt hold⟩
  · rename_i hg
    have c_info := getInfo_withCand p s k v
    refine scheduleWriteOp_keyok hq (s := withCand p s k v) ?_ ?_ ?_ _ ?_
    · exact qinv_of_eq hi.q rfl rfl rfl
    · exact AL.nodup_put _ _ hi.top.map.kn
    · refine ⟨?_, ?_, ?_⟩
      · intro n hn
        have := node_info_lt hnc (show n ∈ s.prob from hn)
        rw [c_info, if_neg (by omega)]
        exact h.prob n hn
      · intro k' e he
        have he' : AL.get? (AL.put s.map k (candVE s v)) k' = some e := he
        rw [AL.get?_put] at he'
        by_cases ekk : k = k'
        · rw [if_pos ekk] at he'
          cases he'
          rw [c_info, if_pos (show s.nextId = (candVE s v).info from rfl), ← ekk]; rfl
        · rw [if_neg ekk] at he'
          have := hi.top.map.bound k' e he'
          rw [c_info, if_neg (by omega)]
          exact h.map k' e he'
      · intro key hash ve o w hm
        obtain ⟨a, b⟩ := h.wq key hash ve o w hm
        rw [c_info, if_neg (by omega)]
        exact ⟨a, Nat.lt_of_lt_of_le b (Nat.le_add_right _ 2)⟩
    · intro key hash ve o w e
      cases e
      show (getInfo (withCand p s k v) s.nextId).key = k ∧ s.nextId < s.nextId + 2
      rw [c_info, if_pos rfl]
      exact ⟨rfl, Nat.lt_add_of_pos_right (by decide)⟩

theorem get_keyok {p : Params} (hq : NoQuirks p) {s : SState} (hi : AInv p s) (h : KeyOk s)
    (k : Nat) : KeyOk (get p s k).1 := by
  have key : ∀ op, KeyOk (recordReadOp p s op) := by
    intro op
    rw [recordReadOp_enqueues p hi.q]
    exact (housekeepR_keyok hq hi.top.map.kn h).of_eq rfl rfl rfl rfl rfl
  unfold get
  dsimp only
  split
  · exact key _
  · split <;> exact key _

theorem invalidate_keyok {p : Params} (hq : NoQuirks p) {s : SState} (hi : AInv p s)
    (h : KeyOk s) (k : Nat) : KeyOk (invalidate p s k) := by
  unfold invalidate
  split
  · exact h
  · dsimp only
    refine scheduleWriteOp_keyok hq (s := _) ?_ ?_ ?_ _ ?_
    · exact qinv_of_eq hi.q rfl rfl rfl
    · exact AL.nodup_erase _ hi.top.map.kn
    · refine ⟨h.prob, ?_, h.wq⟩
      intro k' e he
      exact h.map k' e ((frame0_erase s k).mapSub hi.top.map.kn k' e he)
    · intro _ _ _ _ _ e; cases e

/-! ### a dirty entry has its insert queued -/

def GDP (u : Option Nat) (s : SState) : Prop :=
  ∀ k e, AL.get? s.map k = some e → (getInfo s e.info).dirty = true →
    (∃ key hash ve o w, WOp.upsert key hash ve o w ∈ s.writeQ ∧ ve.info = e.info) ∨
      some e.info = u

/-- `handle_upsert` leaves the info of its entry clean. -/
theorem handleUpsert_clean (p : Params) (s : SState) (key : Nat) (hash : UInt64) (ve : VE)
    (oldW newW : Nat) : (getInfo (handleUpsert p s key hash ve oldW newW) ve.info).dirty = false := by
  unfold handleUpsert
  dsimp only
  generalize currentWeight p s key ve newW = nw
  have h0 : (getInfo (withInfo s ve.info (fun i => { i with dirty := false })) ve.info).dirty = false := by
    rw [getInfo_withInfo, if_pos rfl]
  generalize withInfo s ve.info (fun i => { i with dirty := false }) = s1 at h0 ⊢
  have fin : ∀ {s2 : SState}, (∀ j, (getInfo s2 j).dirty = true → (getInfo s1 j).dirty = true) →
      (getInfo s2 ve.info).dirty = false := by
    intro s2 h
    cases hx : (getInfo s2 ve.info).dirty with
    | false => rfl
    | true => have := h _ hx; rw [h0] at this; cases this
  by_cases h1 : (getInfo s1 ve.info).admitted = true
  · rw [if_pos h1]; exact fin (applyUpdate_sub _ _ _ _ _).dirty
  · rw [if_neg h1]
    by_cases h2 : (!p.q.d7 && !isCurrentEntry s1 key ve) = true
    · rw [if_pos h2]; exact h0
    · rw [if_neg h2]
      by_cases h3 : hasEnoughCapacity p nw s1 = true
      · rw [if_pos h3]; exact fin (handleAdmit_subc _ _ key hash _ _).dirty
      · rw [if_neg h3]
        by_cases h4 : tooBig p nw = true
        · rw [if_pos h4]; exact fin (removeCandidate_sub _ _ _ _).dirty
        · rw [if_neg h4]; exact fin (admitOrReject_subc _ _ key hash _ _).dirty

theorem applyWrites_gdp {u : Option Nat} (p : Params) (n : Nat) : ∀ (s : SState),
    (AL.keys s.map).Nodup → GDP u s → GDP u (applyWrites p n s) := by
  induction n with
  | zero => intro s _ h; exact h
  | succ n ih =>
    intro s hkn h
    unfold applyWrites
    split
    · exact h
    · rename_i op rest hs
      have hf := applyWrite_frame0 p { s with writeQ := rest } op
      have hwq := (applyWrite_qframe p { s with writeQ := rest } op).writeQ
      refine ih _ (hf.kn hkn) ?_
      intro k e he hd
      have he0 : AL.get? s.map k = some e := hf.mapSub hkn k e he
      have hd0 : (getInfo s e.info).dirty = true := by
        cases op with
        | upsert key hash ve oldW newW =>
          exact (handleUpsert_subc p { s with writeQ := rest } key hash ve oldW newW).dirty _ hd
        | remove key ve => exact (handleRemove_sub { s with writeQ := rest } ve).dirty _ hd
      rcases h k e he0 hd0 with ⟨key, hash, ve, o, w, hm, hinfo⟩ | hu
      · rw [hs] at hm
        rcases List.mem_cons.mp hm with hm | hm
        · -- the insert of this very info has just been applied: it is clean
          exfalso
          rw [← hm] at hd
          have := handleUpsert_clean p { s with writeQ := rest } key hash ve o w
          rw [hinfo] at this
          have hd' : (getInfo (handleUpsert p { s with writeQ := rest } key hash ve o w) e.info).dirty =
              true := hd
          rw [this] at hd'
          cases hd'
        · exact Or.inl ⟨key, hash, ve, o, w, by rw [hwq]; exact hm, hinfo⟩
      · exact Or.inr hu

theorem syncRun_gd {u : Option Nat} {p : Params} (hq : NoQuirks p) {s : SState}
    (hkn : (AL.keys s.map).Nodup) (h : GDP u s) : DirtyOk u (syncRun p s) := by
  rw [syncRun_eq]
  dsimp only
  have h1 : DirtyOk u (syncPass p { s with cec := s.ec, cws := s.ws }) ∧
      (AL.keys (syncPass p { s with cec := s.ec, cws := s.ws }).map).Nodup := by
    unfold syncPass
    dsimp only
    have a1 : GDP u (if ({ s with cec := s.ec, cws := s.ws } : SState).readQ.length > 0
        then applyReads p ({ s with cec := s.ec, cws := s.ws } : SState).readQ.length
          { s with cec := s.ec, cws := s.ws } else { s with cec := s.ec, cws := s.ws }) ∧
        (AL.keys (if ({ s with cec := s.ec, cws := s.ws } : SState).readQ.length > 0
        then applyReads p ({ s with cec := s.ec, cws := s.ws } : SState).readQ.length
          { s with cec := s.ec, cws := s.ws } else { s with cec := s.ec, cws := s.ws }).map).Nodup := by
      split
      · have hf := applyReads_frame hq ({ s with cec := s.ec, cws := s.ws } : SState).readQ.length
          { s with cec := s.ec, cws := s.ws }
        refine ⟨?_, hf.kn hkn⟩
        intro k e he hd
        have := h k e (hf.mapSub hkn k e he)
          ((applyReads_sub p _ { s with cec := s.ec, cws := s.ws }).dirty _ hd)
        rw [applyReads_writeQ]
        exact this
      · exact ⟨h, hkn⟩
    generalize (if ({ s with cec := s.ec, cws := s.ws } : SState).readQ.length > 0
        then applyReads p ({ s with cec := s.ec, cws := s.ws } : SState).readQ.length
          { s with cec := s.ec, cws := s.ws } else { s with cec := s.ec, cws := s.ws }) = s1 at a1 ⊢
    obtain ⟨g1, kn1⟩ := a1
    have a2 : DirtyOk u (if s1.writeQ.length > 0 then applyWrites p s1.writeQ.length s1 else s1) ∧
        (AL.keys (if s1.writeQ.length > 0 then applyWrites p s1.writeQ.length s1 else s1).map).Nodup := by
      split
      · refine ⟨?_, (applyWrites_frame0 p _ s1).kn kn1⟩
        have g2 := applyWrites_gdp (u := u) p s1.writeQ.length s1 kn1 g1
        intro k e he hd
        rcases g2 k e he hd with ⟨key, hash, ve, o, w, hm, _⟩ | hu
        · rw [applyWrites_writeQ, List.drop_length] at hm; cases hm
        · exact hu
      · rename_i hlen
        refine ⟨?_, kn1⟩
        intro k e he hd
        rcases g1 k e he hd with ⟨key, hash, ve, o, w, hm, _⟩ | hu
        · cases hq0 : s1.writeQ with
          | nil => rw [hq0] at hm; cases hm
          | cons a t => rw [hq0] at hlen; exact absurd (Nat.succ_pos _) hlen
        · exact hu
    generalize (if s1.writeQ.length > 0 then applyWrites p s1.writeQ.length s1 else s1) = s2 at a2 ⊢
    obtain ⟨d2, kn2⟩ := a2
    split
    · have hf := enableSketch_frame0 p s2
      exact ⟨d2.step kn2 (enableSketch_sub p s2).dirty hf.mapSub, hf.kn kn2⟩
    · exact ⟨d2, kn2⟩
  generalize syncPass p { s with cec := s.ec, cws := s.ws } = s1 at h1 ⊢
  obtain ⟨d1, kn1⟩ := h1
  have h2 : DirtyOk u (if (p.hasExpiry || s1.va.isSome) = true then evictExpired p s1 else s1) ∧
      (AL.keys (if (p.hasExpiry || s1.va.isSome) = true then evictExpired p s1 else s1).map).Nodup := by
    split
    · have hf := evictExpired_frame0 p s1
      exact ⟨d1.step kn1 (evictExpired_sub p s1).dirty hf.mapSub, hf.kn kn1⟩
    · exact ⟨d1, kn1⟩
  generalize (if (p.hasExpiry || s1.va.isSome) = true then evictExpired p s1 else s1) = s2 at h2 ⊢
  obtain ⟨d2, kn2⟩ := h2
  have h3 : DirtyOk u (if weightsToEvict p s2 > 0
      then evictLruLoop p Gen.SYNC_EVICTION_BATCH_SIZE s2 (weightsToEvict p s2) 0 else s2) := by
    split
    · have hf := evictLruLoop_frame0 p Gen.SYNC_EVICTION_BATCH_SIZE s2 (weightsToEvict p s2) 0
      exact d2.step kn2 (evictLruLoop_sub p _ _ _ _).dirty hf.mapSub
    · exact d2
  exact h3

theorem DirtyOk.gdp {u : Option Nat} {s : SState} (h : DirtyOk u s) : GDP u s :=
  fun k e he hd => Or.inr (h k e he hd)

theorem GDP.of_eq {u : Option Nat} {s t : SState} (h : GDP u s) (e1 : t.map = s.map)
    (e2 : t.infos = s.infos) (e3 : t.writeQ = s.writeQ) : GDP u t := by
  intro k e he hd
  rw [e1] at he
  rw [getInfo_congr e2] at hd
  rw [e3]
  exact h k e he hd

theorem trySync_gd {u : Option Nat} {p : Params} (hq : NoQuirks p) {s : SState}
    (hkn : (AL.keys s.map).Nodup) (h : GDP u s) : GDP u (trySync p s) := by
  unfold trySync
  split
  · exact h
  · dsimp only
    generalize s.now + Gen.PERIODICAL_SYNC_INTERVAL_MILLIS * 1000000 = sa
    have h0 : GDP u { s with running := true, syncAfter := sa } := h.of_eq rfl rfl rfl
    have := (syncRun_gd hq (s := { s with running := true, syncAfter := sa }) hkn h0).gdp
    exact this.of_eq rfl rfl rfl

theorem housekeepW_gd {u : Option Nat} {p : Params} (hq : NoQuirks p) {s : SState}
    (hkn : (AL.keys s.map).Nodup) (h : GDP u s) : GDP u (housekeepW p s) := by
  unfold housekeepW; split
  · exact trySync_gd hq hkn h
  · exact h

theorem housekeepR_gd {u : Option Nat} {p : Params} (hq : NoQuirks p) {s : SState}
    (hkn : (AL.keys s.map).Nodup) (h : GDP u s) : GDP u (housekeepR p s) := by
  unfold housekeepR; split
  · exact trySync_gd hq hkn h
  · exact h

/-- Queuing the insert of the info that the housekeeping tolerated as dirty. -/
theorem scheduleWriteOp_gd {p : Params} (hq : NoQuirks p) {s : SState} (hqi : QInv s)
    (hkn : (AL.keys s.map).Nodup) {i : Nat} (h : GDP (some i) s) (key : Nat) (hash : UInt64)
    (ve : VE) (o w : Nat) (hve : ve.info = i) :
    GDP none (scheduleWriteOp p 3 s (.upsert key hash ve o w)) := by
  rw [scheduleWriteOp3 p hqi]
  have h1 := housekeepW_gd hq hkn h
  intro k e he hd
  rcases h1 k e he hd with ⟨key', hash', ve', o', w', hm, hinfo⟩ | hu
  · exact Or.inl ⟨key', hash', ve', o', w', List.mem_append_left _ hm, hinfo⟩
  · refine Or.inl ⟨key, hash, ve, o, w, List.mem_append_right _ List.mem_cons_self, ?_⟩
    rw [hve]; exact (Option.some.inj hu).symm

theorem insert_gd {p : Params} (hq : NoQuirks p) {s : SState} (hi : AInv p s) (h : GDP none s)
    (k v : Nat) : GDP none (insert p s k v) := by
  unfold insert
  dsimp only
  split
  · rename_i old hg
    have hinfo : ∀ j, j ≠ old.info →
        getInfo (refreshInfo p s old.info s.now (p.weigh k v)) j = getInfo s j := by
      intro j hj
      unfold refreshInfo
      rw [getInfo_withInfo, if_neg (fun e => hj e.symm)]
    refine scheduleWriteOp_gd hq (s := _) (i := old.info) ?_ ?_ ?_ _ _ _ _ _ rfl
    · exact qinv_of_eq hi.q rfl rfl rfl
    · exact AL.nodup_put _ _ hi.top.map.kn
    · intro k' e he hd
      by_cases hei : e.info = old.info
      · exact Or.inr (by rw [hei])
      · have he' : AL.get? (AL.put s.map k _) k' = some e := he
        rw [AL.get?_put] at he'
        have hd' : (getInfo (refreshInfo p s old.info s.now (p.weigh k v)) e.info).dirty = true := hd
        rw [hinfo _ hei] at hd'
        by_cases ekk : k = k'
        · rw [if_pos ekk] at he'
          cases he'
          exact absurd rfl hei
        · rw [if_neg ekk] at he'
          rcases h k' e he' hd' with hl | hr
          · exact Or.inl hl
          · cases hr
  · rename_i hg
    have c_info := getInfo_withCand p s k v
    refine scheduleWriteOp_gd hq (s := withCand p s k v) (i := s.nextId) ?_ ?_ ?_ _ _ _ _ _ rfl
    · exact qinv_of_eq hi.q rfl rfl rfl
    · exact AL.nodup_put _ _ hi.top.map.kn
    · intro k' e he hd
      by_cases hei : e.info = s.nextId
      · exact Or.inr (by rw [hei])
      · have he' : AL.get? (AL.put s.map k (candVE s v)) k' = some e := he
        rw [AL.get?_put] at he'
        rw [c_info, if_neg (fun e' => hei e'.symm)] at hd
        by_cases ekk : k = k'
        · rw [if_pos ekk] at he'
          cases he'
          exact absurd rfl hei
        · rw [if_neg ekk] at he'
          rcases h k' e he' hd with hl | hr
          · exact Or.inl hl
          · cases hr

theorem get_gd {p : Params} (hq : NoQuirks p) {s : SState} (hi : AInv p s) (h : GDP none s)
    (k : Nat) : GDP none (get p s k).1 := by
  have key : ∀ op, GDP none (recordReadOp p s op) := by
    intro op
    rw [recordReadOp_enqueues p hi.q]
    exact (housekeepR_gd hq hi.top.map.kn h).of_eq rfl rfl rfl
  unfold get
  dsimp only
  split
  · exact key _
  · split <;> exact key _

theorem invalidate_gd {p : Params} (hq : NoQuirks p) {s : SState} (hi : AInv p s)
    (h : GDP none s) (k : Nat) : GDP none (invalidate p s k) := by
  unfold invalidate
  split
  · exact h
  · dsimp only
    rw [scheduleWriteOp3 p (s := { s with map := AL.erase s.map k }) (qinv_of_eq hi.q rfl rfl rfl)]
    have h0 : GDP none { s with map := AL.erase s.map k } := by
      intro k' e he hd
      exact h k' e ((frame0_erase s k).mapSub hi.top.map.kn k' e he) hd
    have h1 := housekeepW_gd hq (s := { s with map := AL.erase s.map k })
      (AL.nodup_erase _ hi.top.map.kn) h0
    intro k' e he hd
    rcases h1 k' e he hd with ⟨key', hash', ve', o', w', hm, hinfo⟩ | hu
    · exact Or.inl ⟨key', hash', ve', o', w', List.mem_append_left _ hm, hinfo⟩
    · cases hu

/-! ### the invariant carried along a trace, for the recency walk -/

structure RInv (p : Params) (s : SState) : Prop where
  ainv : AInv p s
  key : KeyOk s
  gd : GDP none s

theorem init_rinv (p : Params) : RInv p {} := by
  refine ⟨init_ainv p, ⟨?_, ?_, ?_⟩, ?_⟩
  · intro n hn; cases hn
  · intro k e he; cases he
  · intro _ _ _ _ _ hm; cases hm
  · intro k e he; cases he

theorem rawStep_rinv {p : Params} (hq : NoQuirks p) (hsm : SmallSketch p) {s : SState}
    (h : RInv p s) (op : Op) : RInv p (rawStep p s op).1 := by
  have ha : AInv p (rawStep p s op).1 := (run_cons_ok hq hsm h.ainv op []).2
  refine ⟨ha, ?_, ?_⟩
  · cases op with
    | ins k v => exact insert_keyok hq h.ainv h.key k v
    | get k => exact get_keyok hq h.ainv h.key k
    | inv k => exact invalidate_keyok hq h.ainv h.key k
    | sync => exact syncRun_keyok hq h.ainv.top.map.kn h.key
    | invAll => exact h.key.of_eq rfl rfl rfl rfl rfl
    | adv d => exact h.key.of_eq rfl rfl rfl rfl rfl
    | _ => exact h.key
  · cases op with
    | ins k v => exact insert_gd hq h.ainv h.gd k v
    | get k => exact get_gd hq h.ainv h.gd k
    | inv k => exact invalidate_gd hq h.ainv h.gd k
    | sync => exact (syncRun_gd hq h.ainv.top.map.kn h.gd).gdp
    | invAll => exact h.gd.of_eq rfl rfl rfl
    | adv d => exact h.gd.of_eq rfl rfl rfl
    | _ => exact h.gd

/-! ### the invariant of a segment with at most one use -/

/-- `N`: the access order at the last quiescent snapshot; `mv`: the key used since (at most
one); `u`: the info of that use; `d`: the use has been applied by maintenance. -/
structure SI (N : List AoNode) (mv : List Nat) (u : Option Nat) (d : Bool) (s : SState) : Prop where
  seg : Seg d u N s
  rq : RQU u s.readQ
  wq : WQU u s.writeQ
  dirty : DirtyOk u s
  g : ∀ n, n ∈ s.prob → n.key ∈ mv → Unst u s n
  ku : ∀ i, u = some i → mv = [(getInfo s i).key]
  mv0 : u = none → mv = []

/-- The use, if not applied yet, is still queued. -/
def Pend (d : Bool) (u : Option Nat) (s : SState) : Prop :=
  d = false → u = none ∨ (s.readQ.any isHit || s.writeQ.any isUpsert) = true

theorem Seg.of_eq {d : Bool} {u : Option Nat} {N : List AoNode} {s t : SState} (h : Seg d u N s)
    (hp : t.prob = s.prob) (hm : ∀ n, Unst u s n → Unst u t n) : Seg d u N t := by
  obtain ⟨A, T, e, hs, hT, hA⟩ := h
  exact ⟨A, T, by rw [hp]; exact e, hs, fun n hn => hm n (hT n hn), hA⟩

theorem SI.of_eq {N : List AoNode} {mv : List Nat} {u : Option Nat} {d : Bool} {s t : SState}
    (h : SI N mv u d s) (e1 : t.prob = s.prob) (e2 : t.map = s.map) (e3 : t.infos = s.infos)
    (e4 : t.readQ = s.readQ) (e5 : t.writeQ = s.writeQ) : SI N mv u d t := by
  have hU : ∀ n, Unst u s n → Unst u t n := fun n hn => hn.mono (fun k ve hk => by rw [e2] at hk; exact hk)
  refine ⟨h.seg.of_eq e1 hU, by rw [e4]; exact h.rq, by rw [e5]; exact h.wq, ?_, ?_, ?_, h.mv0⟩
  · intro k e he hd
    rw [e2] at he
    rw [getInfo_congr e3] at hd
    exact h.dirty k e he hd
  · intro n hn hk
    rw [e1] at hn
    exact hU n (h.g n hn hk)
  · intro i hi
    rw [getInfo_congr e3]
    exact h.ku i hi

theorem SI.syncRun {p : Params} (hq : NoQuirks p) {N : List AoNode} {mv : List Nat}
    {u : Option Nat} {d : Bool} {s : SState} (ht : TopInv Sketch.Good s) (h : SI N mv u d s) :
    SI N mv u (d || (s.readQ.any isHit || s.writeQ.any isUpsert)) (syncRun p s) := by
  obtain ⟨m, dok⟩ := syncRun_mv (u := u) hq ht h.rq h.wq h.dirty
  have hkn := ht.map.kn
  refine ⟨h.seg.step hkn m, ?_, ?_, dok, ?_, ?_, h.mv0⟩
  · rw [syncRun_readQ]; intro _ _ _ hm; cases hm
  · rw [syncRun_writeQ]; intro _ _ _ _ _ hm; cases hm
  · intro n hn hk
    obtain ⟨A, T, e, hs, hT, _⟩ := m.split
    rw [e] at hn
    rcases List.mem_append.mp hn with hn | hn
    · exact (h.g n (hs.subset hn) hk).mono (m.mapSub hkn)
    · exact hT n hn
  · intro i hi
    rw [(syncRun_frame hq s).key]
    exact h.ku i hi

theorem Pend.syncRun {p : Params} {u : Option Nat} {d : Bool} {s : SState} (h : Pend d u s) :
    Pend (d || (s.readQ.any isHit || s.writeQ.any isUpsert)) u (syncRun p s) := by
  intro hd
  rw [Bool.or_eq_false_iff] at hd
  rcases h hd.1 with h1 | h1
  · exact Or.inl h1
  · rw [hd.2] at h1; cases h1

theorem Pend.of_eq {u : Option Nat} {d : Bool} {s t : SState} (h : Pend d u s)
    (e4 : t.readQ = s.readQ) (e5 : t.writeQ = s.writeQ) : Pend d u t := by
  intro hd; rw [e4, e5]; exact h hd

theorem trySync_si {p : Params} (hq : NoQuirks p) {N : List AoNode} {mv : List Nat}
    {u : Option Nat} {d : Bool} {s : SState} (ht : TopInv Sketch.Good s) (h : SI N mv u d s) :
    ∃ d', SI N mv u d' (trySync p s) ∧ (Pend d u s → Pend d' u (trySync p s)) := by
  unfold trySync
  split
  · exact ⟨d, h, fun x => x⟩
  · dsimp only
    generalize s.now + Gen.PERIODICAL_SYNC_INTERVAL_MILLIS * 1000000 = sa
    have ht0 : TopInv Sketch.Good { s with running := true, syncAfter := sa } :=
      ht.of_eq rfl rfl rfl rfl rfl rfl rfl rfl rfl
    have h0 : SI N mv u d { s with running := true, syncAfter := sa } :=
      h.of_eq rfl rfl rfl rfl rfl
    refine ⟨_, (h0.syncRun hq ht0).of_eq rfl rfl rfl rfl rfl, ?_⟩
    intro hp
    have hp0 : Pend d u { s with running := true, syncAfter := sa } := hp.of_eq rfl rfl
    exact (hp0.syncRun (p := p)).of_eq rfl rfl

theorem housekeepW_si {p : Params} (hq : NoQuirks p) {N : List AoNode} {mv : List Nat}
    {u : Option Nat} {d : Bool} {s : SState} (ht : TopInv Sketch.Good s) (h : SI N mv u d s) :
    ∃ d', SI N mv u d' (housekeepW p s) ∧ (Pend d u s → Pend d' u (housekeepW p s)) := by
  unfold housekeepW; split
  · exact trySync_si hq ht h
  · exact ⟨d, h, fun x => x⟩

theorem housekeepR_si {p : Params} (hq : NoQuirks p) {N : List AoNode} {mv : List Nat}
    {u : Option Nat} {d : Bool} {s : SState} (ht : TopInv Sketch.Good s) (h : SI N mv u d s) :
    ∃ d', SI N mv u d' (housekeepR p s) ∧ (Pend d u s → Pend d' u (housekeepR p s)) := by
  unfold housekeepR; split
  · exact trySync_si hq ht h
  · exact ⟨d, h, fun x => x⟩

/-- Queuing a write that is not an insert. -/
theorem SI.push_remove {N : List AoNode} {mv : List Nat} {u : Option Nat} {d : Bool} {s : SState}
    (h : SI N mv u d s) (hp : Pend d u s) (k : Nat) (ve : VE) :
    SI N mv u d { s with writeQ := s.writeQ ++ [.remove k ve] } ∧
    Pend d u { s with writeQ := s.writeQ ++ [.remove k ve] } := by
  refine ⟨⟨h.seg.of_eq rfl (fun _ x => x), h.rq, ?_, h.dirty, h.g, h.ku, h.mv0⟩, ?_⟩
  · intro key hash ve' o w hm
    rcases List.mem_append.mp hm with hm | hm
    · exact h.wq key hash ve' o w hm
    · simp at hm
  · intro hd
    rcases hp hd with h1 | h1
    · exact Or.inl h1
    · refine Or.inr ?_
      show (s.readQ.any isHit || (s.writeQ ++ [WOp.remove k ve]).any isUpsert) = true
      rw [List.any_append]
      simpa [isUpsert] using h1

/-- Recording a miss. -/
theorem SI.push_miss {N : List AoNode} {mv : List Nat} {u : Option Nat} {d : Bool} {s : SState}
    (h : SI N mv u d s) (hp : Pend d u s) (hash : UInt64) :
    SI N mv u d { s with readQ := s.readQ ++ [.miss hash] } ∧
    Pend d u { s with readQ := s.readQ ++ [.miss hash] } := by
  refine ⟨⟨h.seg.of_eq rfl (fun _ x => x), ?_, h.wq, h.dirty, h.g, h.ku, h.mv0⟩, ?_⟩
  · intro hash' ve' ts hm
    rcases List.mem_append.mp hm with hm | hm
    · exact h.rq hash' ve' ts hm
    · simp at hm
  · intro hd
    rcases hp hd with h1 | h1
    · exact Or.inl h1
    · refine Or.inr ?_
      show ((s.readQ ++ [ROp.miss hash]).any isHit || s.writeQ.any isUpsert) = true
      rw [List.any_append]
      simpa [isHit] using h1

/-- The map step of `invalidate`. -/
theorem SI.erase {N : List AoNode} {mv : List Nat} {u : Option Nat} {d : Bool} {s : SState}
    (hkn : (AL.keys s.map).Nodup) (h : SI N mv u d s) (k : Nat) :
    SI N mv u d { s with map := AL.erase s.map k } := by
  have hsub := (frame0_erase s k).mapSub hkn
  have hU : ∀ n, Unst u s n → Unst u { s with map := AL.erase s.map k } n := fun n hn => hn.mono hsub
  refine ⟨h.seg.of_eq rfl hU, h.rq, h.wq, ?_, fun n hn hk => hU n (h.g n hn hk), h.ku, h.mv0⟩
  intro k' e he hd
  exact h.dirty k' e (hsub k' e he) hd

/-! ### the one use of a segment -/

/-- The map step of `insert` (a fresh info, or the resident's info re-timed and marked dirty):
from now on `i` is the used info. -/
theorem SI.put {N : List AoNode} {d : Bool} {s c : SState} (h : SI N [] none d s) {k i : Nat}
    {ve' : VE} (hp : c.prob = s.prob) (hrq : c.readQ = s.readQ) (hwq : c.writeQ = s.writeQ)
    (hm : c.map = AL.put s.map k ve') (hve : ve'.info = i)
    (hinf : ∀ j, j ≠ i → getInfo c j = getInfo s j) (hkey : (getInfo c i).key = k) :
    SI N [k] (some i) false c := by
  have hU : ∀ n, Unst none s n → Unst (some i) c n := by
    intro n hn
    rcases hn with hn | hn
    · cases hn
    · by_cases e : n.info = i
      · exact Or.inl (by rw [e])
      · refine Or.inr ?_
        intro x hx
        rw [hm, AL.get?_put] at hx
        by_cases ek : k = n.key
        · rw [if_pos ek] at hx
          cases hx
          rw [hve]; exact fun e' => e e'.symm
        · rw [if_neg ek] at hx
          exact hn x hx
  refine ⟨?_, ?_, ?_, ?_, ?_, ?_, fun e => by cases e⟩
  · obtain ⟨A, T, e, hs, hT, _⟩ := h.seg
    exact ⟨A, T, by rw [hp]; exact e, hs, fun n hn => hU n (hT n hn), fun e => by cases e⟩
  · rw [hrq]
    intro hash ve ts hmem
    have := h.rq hash ve ts hmem
    cases this
  · rw [hwq]
    intro key hash ve o w hmem
    have := h.wq key hash ve o w hmem
    cases this
  · intro k' e he hd
    by_cases hei : e.info = i
    · rw [hei]
    · exfalso
      rw [hinf _ hei] at hd
      rw [hm, AL.get?_put] at he
      by_cases ek : k = k'
      · rw [if_pos ek] at he
        cases he
        exact hei hve
      · rw [if_neg ek] at he
        have := h.dirty k' e he hd
        cases this
  · intro n hn hk
    simp at hk
    by_cases e : n.info = i
    · exact Or.inl (by rw [e])
    · refine Or.inr ?_
      intro x hx
      rw [hm, hk, AL.get?_put_self] at hx
      cases hx
      rw [hve]; exact fun e' => e e'.symm
  · intro j hj
    cases hj
    rw [hkey]

/-- Queuing the insert of the used info. -/
theorem SI.push_upsert {N : List AoNode} {mv : List Nat} {i : Nat} {d : Bool} {s : SState}
    (h : SI N mv (some i) d s) (key : Nat) (hash : UInt64) (ve : VE) (o w : Nat)
    (hve : ve.info = i) :
    SI N mv (some i) d { s with writeQ := s.writeQ ++ [.upsert key hash ve o w] } ∧
    Pend d (some i) { s with writeQ := s.writeQ ++ [.upsert key hash ve o w] } := by
  refine ⟨⟨h.seg.of_eq rfl (fun _ x => x), h.rq, ?_, h.dirty, h.g, h.ku, h.mv0⟩, ?_⟩
  · intro key' hash' ve' o' w' hm
    rcases List.mem_append.mp hm with hm | hm
    · exact h.wq key' hash' ve' o' w' hm
    · simp at hm
      rw [hm.2.2.1, hve]
  · intro _
    refine Or.inr ?_
    show (s.readQ.any isHit || (s.writeQ ++ [WOp.upsert key hash ve o w]).any isUpsert) = true
    rw [List.any_append]
    simp [isUpsert]

/-- Recording the hit of a segment that had no use so far. -/
theorem SI.push_hit {N : List AoNode} {d : Bool} {s : SState} (h : SI N [] none d s) (k : Nat)
    (hash : UInt64) (ve : VE) (ts : Nat) (hg : ∀ e, AL.get? s.map k = some e → e = ve)
    (hkey : (getInfo s ve.info).key = k) :
    SI N [k] (some ve.info) false { s with readQ := s.readQ ++ [.hit hash ve ts] } ∧
    Pend false (some ve.info) { s with readQ := s.readQ ++ [.hit hash ve ts] } := by
  refine ⟨⟨?_, ?_, ?_, ?_, ?_, ?_, fun e => by cases e⟩, ?_⟩
  · obtain ⟨A, T, e, hs, hT, _⟩ := h.seg
    refine ⟨A, T, e, hs, fun n hn => ?_, fun e => by cases e⟩
    rcases hT n hn with h1 | h1
    · cases h1
    · exact Or.inr h1
  · intro hash' ve' ts' hm
    rcases List.mem_append.mp hm with hm | hm
    · have := h.rq hash' ve' ts' hm; cases this
    · simp at hm
      rw [hm.2.1]
  · intro key hash' ve' o w hm
    have := h.wq key hash' ve' o w hm
    cases this
  · intro k' e he hd
    have := h.dirty k' e he hd
    cases this
  · intro n hn hk
    simp at hk
    by_cases hc : ∃ e, AL.get? s.map n.key = some e ∧ e.info = n.info
    · obtain ⟨e, he, hei⟩ := hc
      rw [hk] at he
      rw [hg e he] at hei
      exact Or.inl (by rw [hei])
    · exact Or.inr (fun e he hei => hc ⟨e, he, hei⟩)
  · intro j hj
    cases hj
    show [k] = [(getInfo s ve.info).key]
    rw [hkey]
  · intro _
    refine Or.inr ?_
    show ((s.readQ ++ [ROp.hit hash ve ts]).any isHit || s.writeQ.any isUpsert) = true
    rw [List.any_append]
    simp [isHit]

theorem SI.no_use {N : List AoNode} {u : Option Nat} {d : Bool} {s : SState}
    (h : SI N [] u d s) : u = none := by
  cases hu : u with
  | none => rfl
  | some i => have := h.ku i hu; cases this

/-! ### the recency walk: one step of the model against one step of the oracle -/

/-- The oracle's bookkeeping of a use (`multi = false`). -/
def useSt (st : RecSt) (k : Nat) : RecSt :=
  { st with moved := st.moved.filter (· != k) ++ [k],
            valid := st.valid && (false || st.moved.isEmpty) }

/-- What the recency walk knows about the model state: while the segment since the last
quiescent snapshot `b` is one the rule speaks about, the segment invariant holds relative to
the access order shown in `b`. -/
def WInv (st : RecSt) (s : SState) : Prop :=
  st.valid = true → ∀ b, st.prev = some b →
    ∃ N u d, lruOrder b = N.map (·.key) ∧ (N.map (·.key)).Nodup ∧ SI N st.moved u d s ∧ Pend d u s

theorem WInv.of_eq {st : RecSt} {s t : SState} (h : WInv st s) (e1 : t.prob = s.prob)
    (e2 : t.map = s.map) (e3 : t.infos = s.infos) (e4 : t.readQ = s.readQ)
    (e5 : t.writeQ = s.writeQ) : WInv st t := by
  intro hv b hb
  obtain ⟨N, u, d, h1, h2, h3, h4⟩ := h hv b hb
  exact ⟨N, u, d, h1, h2, h3.of_eq e1 e2 e3 e4 e5, h4.of_eq e4 e5⟩

theorem WInv.sync {p : Params} (hq : NoQuirks p) {st : RecSt} {s : SState}
    (ht : TopInv Sketch.Good s) (h : WInv st s) : WInv st (syncRun p s) := by
  intro hv b hb
  obtain ⟨N, u, d, h1, h2, h3, h4⟩ := h hv b hb
  exact ⟨N, u, _, h1, h2, h3.syncRun hq ht, h4.syncRun⟩

theorem topInv_erase {s : SState} (h : TopInv Sketch.Good s) (k : Nat) :
    TopInv Sketch.Good { s with map := AL.erase s.map k } :=
  ⟨⟨⟨h.nodes.toNodesCore.congr (fun _ => rfl) (fun _ => rfl) (fun _ => rfl)
      (List.Perm.refl _) (List.Perm.refl _) (Nat.le_refl _), h.nodes.count⟩,
    h.map.frame0 (frame0_erase s k), ⟨h.sk.sk, h.sk.skOff⟩⟩, h.nofault⟩

theorem WInv.inv {p : Params} (hq : NoQuirks p) {st : RecSt} {s : SState} (hi : AInv p s)
    (h : WInv st s) (k : Nat) : WInv st (invalidate p s k) := by
  unfold invalidate
  split
  · exact h
  · rename_i ve _
    dsimp only
    rw [scheduleWriteOp3 p (s := { s with map := AL.erase s.map k }) (qinv_of_eq hi.q rfl rfl rfl)]
    intro hv b hb
    obtain ⟨N, u, d, h1, h2, h3, h4⟩ := h hv b hb
    have h3' := h3.erase hi.top.map.kn k
    have h4' : Pend d u { s with map := AL.erase s.map k } := h4.of_eq rfl rfl
    obtain ⟨d', a1, a2⟩ := housekeepW_si hq (topInv_erase hi.top k) h3'
    obtain ⟨b1, b2⟩ := a1.push_remove (a2 h4') k ve
    exact ⟨N, u, d', h1, h2, b1, b2⟩

theorem WInv.miss {p : Params} (hq : NoQuirks p) {st : RecSt} {s : SState} (hi : AInv p s)
    (h : WInv st s) (hash : UInt64) : WInv st (recordReadOp p s (.miss hash)) := by
  rw [recordReadOp_enqueues p hi.q]
  intro hv b hb
  obtain ⟨N, u, d, h1, h2, h3, h4⟩ := h hv b hb
  obtain ⟨d', a1, a2⟩ := housekeepR_si hq hi.top h3
  obtain ⟨b1, b2⟩ := a1.push_miss (a2 h4) hash
  exact ⟨N, u, d', h1, h2, b1, b2⟩

theorem useSt_valid {st : RecSt} {k : Nat} (h : (useSt st k).valid = true) :
    st.valid = true ∧ st.moved = [] ∧ (useSt st k).moved = [k] := by
  unfold useSt at h ⊢
  simp only [Bool.false_or, Bool.and_eq_true, List.isEmpty_iff] at h
  refine ⟨h.1, h.2, ?_⟩
  simp [h.2]

theorem WInv.hit {p : Params} (hq : NoQuirks p) {st : RecSt} {s : SState} (hr : RInv p s)
    (h : WInv st s) (k : Nat) (hash : UInt64) (ve : VE) (ts : Nat)
    (hg : AL.get? s.map k = some ve) :
    WInv (useSt st k) (recordReadOp p s (.hit hash ve ts)) := by
  have hi := hr.ainv
  rw [recordReadOp_enqueues p hi.q]
  intro hv b hb
  obtain ⟨v1, v2, v3⟩ := useSt_valid hv
  obtain ⟨N, u, d, h1, h2, h3, h4⟩ := h v1 b hb
  rw [v2] at h3
  have hu := h3.no_use
  subst hu
  obtain ⟨d', a1, _⟩ := housekeepR_si hq hi.top h3
  have hf := housekeepR_frame hq s
  have hg' : ∀ e, AL.get? (housekeepR p s).map k = some e → e = ve := by
    intro e he
    have := hf.mapSub hi.top.map.kn k e he
    rw [hg] at this
    exact (Option.some.inj this).symm
  have hkey : (getInfo (housekeepR p s) ve.info).key = k := by
    rw [hf.key]; exact hr.key.map k ve hg
  obtain ⟨b1, b2⟩ := a1.push_hit k hash ve ts hg' hkey
  rw [v3]
  exact ⟨N, some ve.info, false, h1, h2, b1, b2⟩

theorem WInv.getOp {p : Params} (hq : NoQuirks p) {st : RecSt} {s : SState} (hr : RInv p s)
    (h : WInv st s) (k : Nat) :
    ((get p s k).2 = none → WInv st (get p s k).1) ∧
    (∀ v, (get p s k).2 = some v → WInv (useSt st k) (get p s k).1) := by
  unfold get
  dsimp only
  split
  · exact ⟨fun _ => h.miss hq hr.ainv _, fun v e => by cases e⟩
  · rename_i ve hg
    split
    · exact ⟨fun _ => h.miss hq hr.ainv _, fun v e => by cases e⟩
    · exact ⟨(fun e => by cases e), fun v _ => h.hit hq hr k _ ve _ hg⟩

theorem WInv.ins {p : Params} (hq : NoQuirks p) {st : RecSt} {s : SState}
    (hr : RInv p s) (h : WInv st s) (k v : Nat) : WInv (useSt st k) (insert p s k v) := by
  have hi := hr.ainv
  have ht := hi.top
  intro hv b hb
  obtain ⟨v1, v2, v3⟩ := useSt_valid hv
  obtain ⟨N, u, d, h1, h2, h3, _⟩ := h v1 b hb
  rw [v2] at h3
  have hu := h3.no_use
  subst hu
  rw [v3]
  unfold insert
  dsimp only
  split
  · rename_i old hg
    have hold := ht.map.bound k old hg
    have h1t : TopInv Sketch.Good (refreshInfo p s old.info s.now (p.weigh k v)) :=
      refreshInfo_inv ht _ _ _
    have hinfo : ∀ j, j ≠ old.info →
        getInfo (refreshInfo p s old.info s.now (p.weigh k v)) j = getInfo s j := by
      intro j hj; unfold refreshInfo; rw [getInfo_withInfo, if_neg (fun e => hj e.symm)]
    have hkey0 : (getInfo (refreshInfo p s old.info s.now (p.weigh k v)) old.info).key = k := by
      unfold refreshInfo; rw [getInfo_withInfo, if_pos rfl]
      exact hr.key.map k old hg
    have e1 : (refreshInfo p s old.info s.now (p.weigh k v)).prob = s.prob := rfl
    have e2 : (refreshInfo p s old.info s.now (p.weigh k v)).readQ = s.readQ := rfl
    have e3 : (refreshInfo p s old.info s.now (p.weigh k v)).writeQ = s.writeQ := rfl
    have e4 : (refreshInfo p s old.info s.now (p.weigh k v)).map = s.map := rfl
    have e5 : (refreshInfo p s old.info s.now (p.weigh k v)).nextId = s.nextId := rfl
    have e6 : (refreshInfo p s old.info s.now (p.weigh k v)).running = s.running := rfl
    generalize refreshInfo p s old.info s.now (p.weigh k v) = r0 at h1t hinfo hkey0 e1 e2 e3 e4 e5 e6 ⊢
    generalize hc : ({ r0 with nextId := r0.nextId + 1, map := AL.put r0.map k { id := r0.nextId, val := v, info := old.info, slot := old.slot } } : SState) = c
    have htc : TopInv Sketch.Good c := by
      rw [← hc]
      refine ⟨⟨⟨h1t.nodes.toNodesCore.congr (fun _ => rfl) (fun _ => rfl) (fun _ => rfl)
        (List.Perm.refl _) (List.Perm.refl _) (Nat.le_succ _), h1t.nodes.count⟩, ?_,
        ⟨h1t.sk.sk, h1t.sk.skOff⟩⟩, h1t.nofault⟩
      exact mapOK_put h1t.map k _ (r0.nextId + 1) (by show old.info < r0.nextId + 1; omega)
        (Nat.le_succ _) _ rfl rfl rfl
    have hqc : QInv c := by
      rw [← hc]
      exact ⟨by show r0.running = false; rw [e6]; exact hi.q.running,
        by show r0.writeQ.length ≤ _; rw [e3]; exact hi.q.writeQ,
        by show r0.readQ.length ≤ _; rw [e2]; exact hi.q.readQ⟩
    have hsi : SI N [k] (some old.info) false c := by
      refine h3.put (k := k) (i := old.info)
        (ve' := { id := r0.nextId, val := v, info := old.info, slot := old.slot })
        (by rw [← hc]; exact e1) (by rw [← hc]; exact e2) (by rw [← hc]; exact e3)
        (by rw [← hc]; show AL.put r0.map k _ = _; rw [e4]) rfl ?_ ?_
      · intro j hj
        rw [← hc]
        exact hinfo j hj
      · rw [← hc]
        exact hkey0
    rw [scheduleWriteOp3 p hqc]
    obtain ⟨d', a1, _⟩ := housekeepW_si hq htc hsi
    obtain ⟨b1, b2⟩ := a1.push_upsert k (p.hash k)
      { id := r0.nextId, val := v, info := old.info, slot := old.slot }
      (getInfo s old.info).weight (p.weigh k v) rfl
    exact ⟨N, some old.info, d', h1, h2, b1, b2⟩
  · rename_i hg
    have c_info := getInfo_withCand p s k v
    have hna := ht.nodes.infoFresh s.nextId (Nat.le_refl _)
    have hao := ht.nodes.toNodesCore.notAdm_ao hna
    have hwo := ht.nodes.toNodesCore.notAdm_wo hna
    have htc : TopInv Sketch.Good (withCand p s k v) := by
      refine ⟨⟨⟨ht.nodes.toNodesCore.congr ?_ ?_ ?_ (List.Perm.refl _) (List.Perm.refl _)
        (Nat.le_add_right _ 2), ht.nodes.count⟩, ?_, ⟨ht.sk.sk, ht.sk.skOff⟩⟩, ht.nofault⟩
      · intro j
        rw [c_info]
        by_cases e : s.nextId = j
        · rw [if_pos e, ← e]; exact hao.symm
        · rw [if_neg e]
      · intro j
        rw [c_info]
        by_cases e : s.nextId = j
        · rw [if_pos e, ← e]; exact hwo.symm
        · rw [if_neg e]
      · intro j
        rw [c_info]
        by_cases e : s.nextId = j
        · rw [if_pos e, ← e]; exact hna.symm
        · rw [if_neg e]
      · exact mapOK_put ht.map k (candVE s v) (s.nextId + 2)
          (by show s.nextId < s.nextId + 2; omega) (Nat.le_add_right _ 2) _ rfl rfl rfl
    have hqc : QInv (withCand p s k v) := qinv_of_eq hi.q rfl rfl rfl
    have hsi : SI N [k] (some s.nextId) false (withCand p s k v) := by
      refine h3.put (k := k) (i := s.nextId) (ve' := candVE s v) rfl rfl rfl rfl rfl ?_ ?_
      · intro j hj
        rw [c_info, if_neg (fun e => hj e.symm)]
      · rw [c_info, if_pos rfl]; rfl
    show ∃ N u d, _ ∧ _ ∧
      SI N [k] u d (scheduleWriteOp p 3 (withCand p s k v) (candOp p s k v)) ∧
      Pend d u (scheduleWriteOp p 3 (withCand p s k v) (candOp p s k v))
    rw [scheduleWriteOp3 p hqc]
    obtain ⟨d', a1, _⟩ := housekeepW_si hq htc hsi
    obtain ⟨b1, b2⟩ := a1.push_upsert k (p.hash k) (candVE s v) 0 (p.weigh k v) rfl
    exact ⟨N, some s.nextId, d', h1, h2, b1, b2⟩

/-! ### the order at a quiescent snapshot -/

theorem sublist_eq_filter {l' l : List Nat} (hs : l'.Sublist l) (hn : l.Nodup) :
    l' = l.filter (l'.contains ·) := by
  induction hs with
  | slnil => rfl
  | @cons l1 l2 a h ih =>
    rw [List.nodup_cons] at hn
    have : l1.contains a = false := by
      cases hc : l1.contains a with
      | false => rfl
      | true => exact absurd (h.subset (List.contains_iff_mem.mp hc)) hn.1
    rw [List.filter_cons_of_neg (by rw [this]; exact Bool.false_ne_true)]
    exact ih hn.2
  | @cons_cons l1 l2 a h ih =>
    rw [List.nodup_cons] at hn
    have ih' := ih hn.2
    rw [List.filter_cons_of_pos (by simp)]
    congr 1
    have hc : l2.filter ((a :: l1).contains ·) = l2.filter (l1.contains ·) := by
      apply List.filter_congr
      intro x hx
      have hxa : x ≠ a := fun e => hn.1 (e ▸ hx)
      simp [hxa]
    rw [hc]; exact ih'

theorem prob_keys_nodup {s : SState} (hnc : NodesCore s) (hcur : AllCur s s.prob) :
    (s.prob.map (·.key)).Nodup := by
  refine nodup_map_of_inj (·.id) (·.key) s.prob hnc.probIds ?_
  intro a ha b hb hk
  obtain ⟨ea, h1, h2⟩ := hcur a ha
  obtain ⟨eb, h3, h4⟩ := hcur b hb
  have hk' : a.key = b.key := hk
  rw [hk', h3] at h1
  cases h1
  exact hnc.info_inj ha hb (h2.symm.trans h4)

/-- **The recency rule at a quiescent snapshot.**  With both queues empty and every node
current, the access order is: the survivors of the reference order `N` (other than the used
key) in their old relative order, then the used key if it is still resident. -/
theorem final_order {N : List AoNode} {mv : List Nat} {u : Option Nat} {d : Bool} {s : SState}
    (hnc : NodesCore s) (hkp : KP s) (hN : (N.map (·.key)).Nodup) (h : SI N mv u d s)
    (hp : Pend d u s) (hr : s.readQ = []) (hw : s.writeQ = []) (hcur : AllCur s s.prob) :
    s.prob.map (·.key) =
      (N.map (·.key)).filter (fun k => (s.prob.map (·.key)).contains k && !mv.contains k) ++
        mv.filter ((s.prob.map (·.key)).contains ·) := by
  have hd : d = true ∨ u = none := by
    cases hdd : d with
    | true => exact Or.inl rfl
    | false =>
      rcases hp hdd with h1 | h1
      · exact Or.inr h1
      · rw [hr, hw] at h1; cases h1
  obtain ⟨A, T, e, hs, hT, hA⟩ := h.seg
  have hcurN : ∀ n, n ∈ s.prob → ¬ NonCur s n := by
    intro n hn hnc'
    obtain ⟨x, hx, hxi⟩ := hcur n hn
    exact hnc' x hx hxi
  have hTu : ∀ n, n ∈ T → some n.info = u := by
    intro n hn
    rcases hT n hn with h1 | h1
    · exact h1
    · exact absurd h1 (hcurN n (by rw [e]; exact List.mem_append_right _ hn))
  have hAk : (A.map (·.key)).Sublist (N.map (·.key)) := hs.map _
  have hAeq := sublist_eq_filter hAk hN
  cases hu : u with
  | none =>
    have hT0 : T = [] := by
      cases hTl : T with
      | nil => rfl
      | cons n rest =>
        have := hTu n (by rw [hTl]; exact List.mem_cons_self)
        rw [hu] at this; cases this
    have hmv := h.mv0 hu
    rw [e, hT0, hmv, List.append_nil]
    simp only [List.contains_nil, Bool.not_false, Bool.and_true, List.filter_nil, List.append_nil]
    exact hAeq
  | some i =>
    have hdt : d = true := by
      rcases hd with h1 | h1
      · exact h1
      · rw [hu] at h1; cases h1
    have hmv := h.ku i hu
    generalize hk : (getInfo s i).key = k at hmv
    have hTk : ∀ n, n ∈ T → n.key = k := by
      intro n hn
      have := hTu n hn
      rw [hu] at this
      have hni : n.info = i := Option.some.inj this
      rw [← hk, ← hni]
      exact (hkp n (by rw [e]; exact List.mem_append_right _ hn)).symm
    have hkA : k ∉ A.map (·.key) := by
      intro hin
      obtain ⟨m, hm, hmk⟩ := List.mem_map.mp hin
      have hmp : m ∈ s.prob := by rw [e]; exact List.mem_append_left _ hm
      rcases h.g m hmp (by rw [hmv]; simp; exact hmk) with h1 | h1
      · exact hA hdt m hm (by rw [hu] at h1 ⊢; exact h1)
      · exact hcurN m hmp h1
    -- `T` has at most one node
    have hT1 : T = [] ∨ ∃ n, T = [n] := by
      cases hTl : T with
      | nil => exact Or.inl rfl
      | cons n rest =>
        cases hrl : rest with
        | nil => exact Or.inr ⟨n, rfl⟩
        | cons m rest' =>
          exfalso
          have hn : n ∈ T := by rw [hTl]; exact List.mem_cons_self
          have hm : m ∈ T := by rw [hTl, hrl]; exact List.mem_cons_of_mem _ List.mem_cons_self
          have e1 := hTu n hn
          have e2 := hTu m hm
          have hinfo : n.info = m.info := Option.some.inj (e1.trans e2.symm)
          have hid := hnc.info_inj (by rw [e]; exact List.mem_append_right _ hn)
            (by rw [e]; exact List.mem_append_right _ hm) hinfo
          have hnd := hnc.probIds
          rw [e, hTl, hrl, List.map_append] at hnd
          have := (List.nodup_append.mp hnd).2.1
          simp only [List.map_cons, List.nodup_cons, List.mem_cons] at this
          exact this.1 (Or.inl hid)
    have hstay : s.prob.map (·.key) = A.map (·.key) ++ T.map (·.key) := by
      rw [e, List.map_append]
    rw [hmv, hstay]
    have hfirst : (N.map (·.key)).filter
        (fun x => (A.map (·.key) ++ T.map (·.key)).contains x && !([k] : List Nat).contains x) =
        A.map (·.key) := by
      conv => rhs; rw [hAeq]
      apply List.filter_congr
      intro x _
      by_cases hxa : x ∈ A.map (·.key)
      · have hxk : x ≠ k := fun e' => hkA (e' ▸ hxa)
        simp [hxa, hxk]
      · have : (A.map (·.key)).contains x = false := by
          cases hc : (A.map (·.key)).contains x with
          | false => rfl
          | true => exact absurd (List.contains_iff_mem.mp hc) hxa
        by_cases hxk : x = k
        · rw [this, hxk]
          simp
        · have hxT : x ∉ T.map (·.key) := by
            intro hin
            obtain ⟨n, hn, hnk⟩ := List.mem_map.mp hin
            exact hxk (hnk ▸ hTk n hn)
          simp [hxa, hxT]
    rw [hfirst]
    congr 1
    rcases hT1 with h0 | ⟨n, h1⟩
    · rw [h0]
      simp only [List.map_nil, List.append_nil]
      rw [List.filter_cons_of_neg]
      · rfl
      · intro hc
        exact hkA (List.contains_iff_mem.mp hc)
    · rw [h1]
      have hnk : n.key = k := hTk n (by rw [h1]; exact List.mem_cons_self)
      simp [hnk]

/-! ### the recency walk over a model trace -/

/-- At a quiescent snapshot the walk starts a new segment. -/
theorem WInv.reset {p : Params} {s : SState} (hr : RInv p s)
    (hq : quiescent (snapshot p s) = true) :
    WInv { prev := some (snapshot p s) } s := by
  simp only [quiescent, Bool.and_eq_true, beq_iff_eq] at hq
  obtain ⟨⟨hrq, hwq⟩, hcur⟩ := hq
  have hr0 : s.readQ = [] := List.length_eq_zero_iff.mp hrq
  have hw0 : s.writeQ = [] := List.length_eq_zero_iff.mp hwq
  have hnc := hr.ainv.top.nodes.toNodesCore
  intro _ b hb
  cases hb
  refine ⟨s.prob, none, true, lruOrder_snapshot p s,
    prob_keys_nodup hnc (allCur_of_snapshot hcur), ?_, fun h => by cases h⟩
  refine ⟨⟨s.prob, [], by simp, List.Sublist.refl _, (fun _ h => by cases h),
    fun _ _ _ e => by cases e⟩, ?_, ?_, ?_, ?_, (fun _ e => by cases e), fun _ => rfl⟩
  · rw [hr0]; intro _ _ _ hm; cases hm
  · rw [hw0]; intro _ _ _ _ _ hm; cases hm
  · intro k e he hd
    rcases hr.gd k e he hd with ⟨_, _, _, _, _, hm, _⟩ | h1
    · rw [hw0] at hm; cases hm
    · exact h1
  · intro n _ hk; cases hk

/-- The check at a quiescent snapshot. -/
theorem WInv.check {p : Params} {st : RecSt} {s : SState} (hr : RInv p s) (h : WInv st s)
    (hq : quiescent (snapshot p s) = true) :
    (match st.prev with
     | some b => !st.valid || lruOrder (snapshot p s) == expectedOrder b (snapshot p s) st.moved
     | none => true) = true := by
  cases hb : st.prev with
  | none => rfl
  | some b =>
    dsimp only
    cases hv : st.valid with
    | false => rfl
    | true =>
      simp only [Bool.not_true, Bool.false_or, beq_iff_eq]
      obtain ⟨N, u, d, h1, h2, h3, h4⟩ := h hv b hb
      simp only [quiescent, Bool.and_eq_true, beq_iff_eq] at hq
      obtain ⟨⟨hrq, hwq⟩, hcur⟩ := hq
      have hr0 : s.readQ = [] := List.length_eq_zero_iff.mp hrq
      have hw0 : s.writeQ = [] := List.length_eq_zero_iff.mp hwq
      have := final_order hr.ainv.top.nodes.toNodesCore hr.key.prob h2 h3 h4 hr0 hw0
        (allCur_of_snapshot hcur)
      unfold expectedOrder
      dsimp only
      rw [lruOrder_snapshot, h1]
      exact this

theorem recencyWalk_run {p : Params} (hq : NoQuirks p) (hsm : SmallSketch p) :
    ∀ (n : Nat) (h : List Op), h.length ≤ n → ∀ (s : SState) (st : RecSt), RInv p s → WInv st s →
      recencyWalk false st (run p s h) = true := by
  intro n
  induction n with
  | zero =>
    intro h hl s st _ _
    have : h = [] := List.length_eq_zero_iff.mp (Nat.le_zero.mp hl)
    subst this
    simp [run, recencyWalk]
  | succ n ih =>
    intro h hl s st hr hw
    cases h with
    | nil => simp [run, recencyWalk]
    | cons op rest =>
      have hlr : rest.length ≤ n := by simpa using hl
      obtain ⟨hrun, _⟩ := run_cons_ok hq hsm hr.ainv op rest
      have hr1 := rawStep_rinv hq hsm hr op
      rw [hrun]
      cases op with
      | ins k v =>
        simp only [rawStep, recencyWalk]
        exact ih rest hlr _ _ hr1 (hw.ins hq hr k v)
      | get k =>
        obtain ⟨g1, g2⟩ := hw.getOp hq hr k
        simp only [rawStep]
        cases hg : (get p s k).2 with
        | none =>
          simp only [recencyWalk]
          exact ih rest hlr _ _ hr1 (g1 hg)
        | some v =>
          simp only [recencyWalk]
          exact ih rest hlr _ _ hr1 (g2 v hg)
      | has k =>
        simp only [rawStep, recencyWalk]
        exact ih rest hlr _ _ hr1 hw
      | iter =>
        simp only [rawStep, recencyWalk]
        exact ih rest hlr _ _ hr1 hw
      | inv k =>
        simp only [rawStep, recencyWalk]
        exact ih rest hlr _ _ hr1 (hw.inv hq hr.ainv k)
      | invAll =>
        simp only [rawStep, recencyWalk]
        exact ih rest hlr _ _ hr1 (hw.of_eq rfl rfl rfl rfl rfl)
      | invIf pr =>
        simp only [rawStep, recencyWalk]
      | sync =>
        simp only [rawStep, recencyWalk]
        exact ih rest hlr _ _ hr1 (hw.sync hq hr.ainv.top)
      | adv d =>
        simp only [rawStep, recencyWalk]
        exact ih rest hlr _ _ hr1 (hw.of_eq rfl rfl rfl rfl rfl)
      | snap =>
        simp only [rawStep, recencyWalk]
        by_cases hqs : quiescent (snapshot p s) = true
        · rw [if_pos hqs, Bool.and_eq_true]
          exact ⟨hw.check hr hqs, ih rest hlr _ _ hr1 (WInv.reset hr hqs)⟩
        · rw [if_neg hqs]
          exact ih rest hlr _ _ hr1 hw
      | freq k =>
        simp only [rawStep, recencyWalk]
        exact ih rest hlr _ _ hr1 hw

/-- **C12, recency on traces** (concurrent cache driven by one thread). -/
theorem recencyC12_trace {p : Params} (hq : NoQuirks p) (hsm : SmallSketch p) (h : List Op) :
    recencyC12 .sync (trace p h) = true := by
  unfold recencyC12 trace
  exact recencyWalk_run hq hsm h.length h (Nat.le_refl _) {} {} (init_rinv p)
    (fun _ b hb => by cases hb)

/-- **C12 on traces** (concurrent cache driven by one thread): the admission windows and the
recency walk. -/
theorem oracleC12_trace {p : Params} (hq : NoQuirks p) (hsm : SmallSketch p) (batch : Nat)
    (h : List Op) :
    oracleC12 .sync p.cap p.ttl p.tti p.weigh batch (trace p h) = true := by
  unfold oracleC12
  cases hcap : p.cap with
  | none => exact recencyC12_trace hq hsm h
  | some cap =>
    dsimp only
    rw [Bool.and_eq_true]
    refine ⟨?_, recencyC12_trace hq hsm h⟩
    unfold trace
    exact admitC13Sync_run hq hsm hcap h.length h (Nat.le_refl _) {} (init_ainv p)

/-- A hit in a quiescent state, then a maintenance run that ends quiescent: the key goes to
the most recently used end, the other survivors keep their relative order. -/
theorem get_sync_order {p : Params} (hq : NoQuirks p) (hsm : SmallSketch p) {s : SState}
    (hr : RInv p s) (hqs : quiescent (snapshot p s) = true) (k v : Nat)
    (hv : (get p s k).2 = some v)
    (hqs' : quiescent (snapshot p (syncRun p (get p s k).1)) = true) :
    lruOrder (snapshot p (syncRun p (get p s k).1)) =
      expectedOrder (snapshot p s) (snapshot p (syncRun p (get p s k).1)) [k] := by
  have h0 := WInv.reset hr hqs
  have h1 := (h0.getOp hq hr k).2 v hv
  have hr1 : RInv p (get p s k).1 := rawStep_rinv hq hsm hr (.get k)
  have h2 := h1.sync hq (p := p) hr1.ainv.top
  have hr2 : RInv p (syncRun p (get p s k).1) := rawStep_rinv hq hsm hr1 .sync
  have := h2.check hr2 hqs'
  simpa [useSt] using this

/-- An insert (new key or update) in a quiescent state, then a maintenance run that ends
quiescent: the key, if resident, is at the most recently used end, the other survivors keep
their relative order. -/
theorem insert_sync_order {p : Params} (hq : NoQuirks p) (hsm : SmallSketch p) {s : SState}
    (hr : RInv p s) (hqs : quiescent (snapshot p s) = true) (k v : Nat)
    (hqs' : quiescent (snapshot p (syncRun p (insert p s k v))) = true) :
    lruOrder (snapshot p (syncRun p (insert p s k v))) =
      expectedOrder (snapshot p s) (snapshot p (syncRun p (insert p s k v))) [k] := by
  have h0 := WInv.reset hr hqs
  have h1 := h0.ins hq hr k v
  have hr1 : RInv p (insert p s k v) := rawStep_rinv hq hsm hr (.ins k v)
  have h2 := h1.sync hq (p := p) hr1.ainv.top
  have hr2 : RInv p (syncRun p (insert p s k v)) := rawStep_rinv hq hsm hr1 .sync
  have := h2.check hr2 hqs'
  simpa [useSt] using this

end Admit
end Sync
end MiniMoka
