/-
  TinyLFU admission on the sequential model of `sync::Cache` (C13 / C12, kind `.sync`):
  provenance of list nodes (a node stores the hash of its key), time-stamp sanity, what a
  maintenance run does to a quiescent calm cache (nothing) and to one with a single queued
  insert of a new key (the closed formula of `admit`), the correspondence with snapshots and
  the walk of the trace oracle `admitC13Sync` over model traces.
-/
import MiniMoka.Lemmas.SyncNodes
import MiniMoka.Lemmas.SyncQueues
import MiniMoka.Lemmas.SketchLaws
import MiniMoka.Lemmas.UnsyncAdmit
import MiniMoka.Spec.Oracles

namespace MiniMoka
namespace Sync
namespace Admit

open Nodes Spec
open Unsync.Admit (shortestPre shortestPre_zero shortestPre_cons_pos shortestPre_nil_pos
  shortestPrefix_eq sameKeys_iff nodup_map_of_inj find?_key_of_nodup shortestPre_eq_some_iff
  IsShortestPre)

/-! ### the loop of `Inner::sync` runs its body once -/

theorem syncLoop_one (p : Params) (fuel : Nat) (s : SState) :
    syncLoop p (fuel + 1) s = syncPass p s := by
  obtain ⟨a, b, _⟩ := syncPass_spec p s
  rw [syncLoop_succ]
  have : ((syncPass p s).readQ.length ≥ Gen.READ_LOG_FLUSH_POINT ||
      (syncPass p s).writeQ.length ≥ Gen.WRITE_LOG_FLUSH_POINT) = false := by
    rw [a, b]
    simp only [List.length_nil, ge_iff_le, Bool.or_eq_false_iff, decide_eq_false_iff_not,
      Nat.not_le]
    exact ⟨rfp_pos, wfp_pos⟩
  rw [this]
  rfl

/-- `Inner::sync` in one piece. -/
theorem syncRun_eq (p : Params) (s : SState) :
    syncRun p s =
      (let s1 := syncPass p { s with cec := s.ec, cws := s.ws }
       let s2 := if p.hasExpiry || s1.va.isSome then evictExpired p s1 else s1
       let s3 := if weightsToEvict p s2 > 0
         then evictLruLoop p Gen.SYNC_EVICTION_BATCH_SIZE s2 (weightsToEvict p s2) 0 else s2
       { s3 with ec := s3.cec, ws := s3.cws }) := by
  unfold syncRun
  dsimp only
  rw [syncLoop_one]

/-! ### provenance of list nodes -/

/-- Every node of the lists of `s'` is a node of the lists of `s`. -/
structure Sub (s s' : SState) : Prop where
  prob : ∀ n, n ∈ s'.prob → n ∈ s.prob
  wo : ∀ n, n ∈ s'.wo → n ∈ s.wo
  /-- no info is made dirty -/
  dirty : ∀ j, (getInfo s' j).dirty = true → (getInfo s j).dirty = true

theorem Sub.refl (s : SState) : Sub s s := ⟨fun _ h => h, fun _ h => h, fun _ h => h⟩

theorem Sub.trans {a b c : SState} (h1 : Sub a b) (h2 : Sub b c) : Sub a c :=
  ⟨fun n h => h1.prob n (h2.prob n h), fun n h => h1.wo n (h2.wo n h),
   fun j h => h1.dirty j (h2.dirty j h)⟩

theorem sub_of_eq {s s' : SState} (hp : s'.prob = s.prob) (hw : s'.wo = s.wo)
    (hi : s'.infos = s.infos) : Sub s s' :=
  ⟨fun n h => by rw [hp] at h; exact h, fun n h => by rw [hw] at h; exact h,
   fun j h => by rw [getInfo_congr hi] at h; exact h⟩

theorem sub_fail (s : SState) (f : Fault) : Sub s (s.fail f) := by
  unfold SState.fail; split
  · exact Sub.refl s
  · exact sub_of_eq rfl rfl rfl

/-- An update of one info that does not set the dirty flag. -/
theorem sub_withInfo (s : SState) (i : Nat) (f : Info → Info)
    (hf : ∀ x, (f x).dirty = true → x.dirty = true := by
      intro x h; first | exact h | cases h) : Sub s (withInfo s i f) := by
  refine ⟨fun _ h => h, fun _ h => h, ?_⟩
  intro j h
  rw [getInfo_withInfo] at h
  by_cases e : i = j
  · rw [if_pos e] at h; rw [← e]; exact hf _ h
  · rw [if_neg e] at h; exact h

theorem sub_addCounters (s : SState) (n w : Nat) : Sub s (addCounters s n w) :=
  sub_of_eq rfl rfl rfl

theorem sub_erase (s : SState) (k : Nat) : Sub s { s with map := AL.erase s.map k } :=
  sub_of_eq rfl rfl rfl

theorem sub_set_readQ (s : SState) (q : List ROp) : Sub s { s with readQ := q } :=
  sub_of_eq rfl rfl rfl

theorem sub_set_writeQ (s : SState) (q : List WOp) : Sub s { s with writeQ := q } :=
  sub_of_eq rfl rfl rfl

theorem mem_of_mem_eraseAo {l : List AoNode} {id : Nat} {m : AoNode} (h : m ∈ eraseAo l id) :
    m ∈ l := by
  induction l with
  | nil => exact h
  | cons a l ih =>
    unfold eraseAo at h
    by_cases e : a.id = id
    · rw [if_pos e] at h; exact List.mem_cons_of_mem _ h
    · rw [if_neg e] at h
      rcases List.mem_cons.mp h with h | h
      · rw [h]; exact List.mem_cons_self
      · exact List.mem_cons_of_mem _ (ih h)

theorem mem_of_mem_eraseWo {l : List WoNode} {id : Nat} {m : WoNode} (h : m ∈ eraseWo l id) :
    m ∈ l := by
  induction l with
  | nil => exact h
  | cons a l ih =>
    unfold eraseWo at h
    by_cases e : a.id = id
    · rw [if_pos e] at h; exact List.mem_cons_of_mem _ h
    · rw [if_neg e] at h
      rcases List.mem_cons.mp h with h | h
      · rw [h]; exact List.mem_cons_self
      · exact List.mem_cons_of_mem _ (ih h)

theorem moveNodeToBackAo_sub (s : SState) (id : Nat) : Sub s (moveNodeToBackAo s id) := by
  unfold moveNodeToBackAo
  split
  · rename_i n hf
    refine ⟨fun m hm => ?_, fun _ h => h, fun _ h => h⟩
    rcases List.mem_append.mp hm with hm | hm
    · exact mem_of_mem_eraseAo hm
    · simp at hm; rw [hm]; exact (findAo_some hf).1
  · exact sub_fail _ _

theorem moveNodeToBackWo_sub (s : SState) (id : Nat) : Sub s (moveNodeToBackWo s id) := by
  unfold moveNodeToBackWo
  split
  · rename_i n hf
    refine ⟨fun _ h => h, fun m hm => ?_, fun _ h => h⟩
    rcases List.mem_append.mp hm with hm | hm
    · exact mem_of_mem_eraseWo hm
    · simp at hm; rw [hm]; exact (findWo_some hf).1
  · exact sub_fail _ _

theorem moveToBackAoE_sub (s : SState) (i : Nat) : Sub s (moveToBackAoE s i) := by
  unfold moveToBackAoE; split
  · exact Sub.refl s
  · exact moveNodeToBackAo_sub s _

theorem moveToBackWoE_sub (s : SState) (i : Nat) : Sub s (moveToBackWoE s i) := by
  unfold moveToBackWoE; split
  · exact Sub.refl s
  · exact moveNodeToBackWo_sub s _

theorem unlinkAo_sub (s : SState) (i : Nat) : Sub s (unlinkAo s i) := by
  unfold unlinkAo; split
  · exact Sub.refl s
  · dsimp only
    split
    · exact ⟨fun m hm => mem_of_mem_eraseAo hm, fun _ h => h,
        fun j h => (sub_withInfo s i _).dirty j h⟩
    · exact (sub_withInfo s _ _).trans (sub_fail _ _)

theorem unlinkWo_sub (s : SState) (i : Nat) : Sub s (unlinkWo s i) := by
  unfold unlinkWo; split
  · exact Sub.refl s
  · dsimp only
    split
    · exact ⟨fun _ h => h, fun m hm => mem_of_mem_eraseWo hm,
        fun j h => (sub_withInfo s i _).dirty j h⟩
    · exact (sub_withInfo s _ _).trans (sub_fail _ _)

theorem subCounters_sub (s : SState) (n w : Nat) : Sub s (subCounters s n w) := by
  unfold subCounters
  dsimp only
  split
  · exact (sub_fail s _).trans (sub_of_eq rfl rfl rfl)
  · exact sub_of_eq rfl rfl rfl

theorem handleRemove_sub (s : SState) (ve : VE) : Sub s (handleRemove s ve) := by
  unfold handleRemove
  dsimp only
  split
  · refine Sub.trans ?_ (unlinkWo_sub _ _)
    refine Sub.trans ?_ (unlinkAo_sub _ _)
    refine Sub.trans ?_ (subCounters_sub _ _ _)
    exact sub_withInfo _ _ _
  · exact sub_withInfo _ _ _

theorem removeVictims_sub (p : Params) (vs : List AoNode) :
    ∀ (s : SState) (sk : List AoNode), Sub s (removeVictims p vs s sk).1 := by
  induction vs with
  | nil => intro s sk; exact Sub.refl s
  | cons v rest ih =>
    intro s sk
    unfold removeVictims
    split
    · exact (sub_fail s _).trans (ih _ _)
    · split
      · refine Sub.trans ?_ (ih _ _)
        refine Sub.trans ?_ (handleRemove_sub _ _)
        exact sub_erase _ _
      · exact ih _ _

theorem moveSkipped_sub (ns : List AoNode) : ∀ (s : SState), Sub s (moveSkipped ns s) := by
  induction ns with
  | nil => intro s; exact Sub.refl s
  | cons n rest ih => intro s; exact (moveNodeToBackAo_sub s n.id).trans (ih _)

theorem removeCandidate_sub (p : Params) (s : SState) (key : Nat) (ve : VE) :
    Sub s (removeCandidate p s key ve) := by
  unfold removeCandidate
  split
  · split
    · exact sub_of_eq rfl rfl rfl
    · exact Sub.refl s
  · exact Sub.refl s

theorem applyUpdate_sub (p : Params) (s : SState) (ve : VE) (oldW newW : Nat) :
    Sub s (applyUpdate p s ve oldW newW) := by
  unfold applyUpdate
  dsimp only
  refine Sub.trans ?_ (moveToBackWoE_sub _ _)
  refine Sub.trans ?_ (moveToBackAoE_sub _ _)
  split
  · exact (subCounters_sub _ _ _).trans (sub_addCounters _ _ _)
  · exact ((subCounters_sub _ _ _).trans (sub_addCounters _ _ _)).trans (sub_withInfo _ _ _)

theorem trySkipUpdated_sub (s : SState) (key : Nat) : Sub s (trySkipUpdated s key).1 := by
  unfold trySkipUpdated
  split
  · split
    · exact (moveToBackAoE_sub _ _).trans (moveToBackWoE_sub _ _)
    · exact Sub.refl s
  · split
    · exact moveNodeToBackAo_sub _ _
    · exact Sub.refl s

theorem removeExpiredAo_sub (p : Params) (n : Nat) :
    ∀ (s : SState), Sub s (removeExpiredAo p n s) := by
  induction n with
  | zero => intro s; exact Sub.refl s
  | succ n ih =>
    intro s
    unfold removeExpiredAo
    split
    · exact Sub.refl s
    · split
      · dsimp only
        split
        · refine Sub.trans ?_ (ih _)
          refine Sub.trans ?_ (handleRemove_sub _ _)
          exact sub_erase _ _
        · split
          · exact (trySkipUpdated_sub s _).trans (ih _)
          · exact trySkipUpdated_sub s _
      · exact Sub.refl s

theorem removeExpiredWo_sub (p : Params) (n : Nat) :
    ∀ (s : SState), Sub s (removeExpiredWo p n s) := by
  induction n with
  | zero => intro s; exact Sub.refl s
  | succ n ih =>
    intro s
    unfold removeExpiredWo
    split
    · exact Sub.refl s
    · split
      · dsimp only
        split
        · refine Sub.trans ?_ (ih _)
          refine Sub.trans ?_ (handleRemove_sub _ _)
          exact sub_erase _ _
        · split
          · split
            · exact ((moveToBackAoE_sub _ _).trans (moveToBackWoE_sub _ _)).trans (ih _)
            · exact Sub.refl s
          · exact (moveNodeToBackWo_sub _ _).trans (ih _)
      · exact Sub.refl s

theorem evictExpired_sub (p : Params) (s : SState) : Sub s (evictExpired p s) := by
  unfold evictExpired
  dsimp only
  split
  · split
    · exact (removeExpiredWo_sub _ _ _).trans (removeExpiredAo_sub _ _ _)
    · exact removeExpiredWo_sub _ _ _
  · split
    · exact removeExpiredAo_sub _ _ _
    · exact Sub.refl s

theorem evictLruLoop_sub (p : Params) (n : Nat) :
    ∀ (s : SState) (wte ev : Nat), Sub s (evictLruLoop p n s wte ev) := by
  induction n with
  | zero => intro s _ _; exact Sub.refl s
  | succ n ih =>
    intro s wte ev
    unfold evictLruLoop
    split
    · exact Sub.refl s
    · split
      · exact Sub.refl s
      · dsimp only
        split
        · split
          · exact (trySkipUpdated_sub s _).trans (ih _ _ _)
          · exact trySkipUpdated_sub s _
        · split
          · refine Sub.trans ?_ (ih _ _ _)
            refine Sub.trans ?_ (handleRemove_sub _ _)
            exact sub_erase _ _
          · split
            · exact (trySkipUpdated_sub s _).trans (ih _ _ _)
            · exact trySkipUpdated_sub s _

theorem enableSketch_sub (p : Params) (s : SState) : Sub s (enableSketch p s) := by
  unfold enableSketch
  split
  · exact sub_of_eq rfl rfl rfl
  · exact Sub.refl s

theorem sketchIncrement_sub (p : Params) (s : SState) (h : UInt64) :
    Sub s (sketchIncrement p s h) := by
  unfold sketchIncrement
  split
  · exact sub_of_eq rfl rfl rfl
  · exact sub_fail _ _

theorem applyRead_sub (p : Params) (s : SState) (op : ROp) : Sub s (applyRead p s op) := by
  cases op with
  | miss hash => exact sketchIncrement_sub _ _ _
  | hit hash ve ts =>
    unfold applyRead
    dsimp only
    have h1 := sketchIncrement_sub p s hash
    generalize sketchIncrement p s hash = s1 at h1 ⊢
    have h2 : Sub s1 (if p.q.d6 = true then withInfo s1 ve.info (fun i => { i with la := ts })
        else if (getInfo s1 ve.info).la < ts then withInfo s1 ve.info (fun i => { i with la := ts })
        else s1) := by
      split
      · exact sub_withInfo _ _ _
      · split
        · exact sub_withInfo _ _ _
        · exact Sub.refl _
    generalize (if p.q.d6 = true then withInfo s1 ve.info (fun i => { i with la := ts })
        else if (getInfo s1 ve.info).la < ts then withInfo s1 ve.info (fun i => { i with la := ts })
        else s1) = s2 at h2 ⊢
    split
    · exact (h1.trans h2).trans (moveToBackAoE_sub _ _)
    · exact h1.trans h2

theorem applyReads_sub (p : Params) (n : Nat) : ∀ (s : SState), Sub s (applyReads p n s) := by
  induction n with
  | zero => intro s; exact Sub.refl s
  | succ n ih =>
    intro s
    unfold applyReads
    split
    · exact Sub.refl s
    · refine Sub.trans ?_ (ih _)
      refine Sub.trans ?_ (applyRead_sub _ _ _)
      exact sub_set_readQ _ _

/-- Every node of the lists of `s'` is a node of the lists of `s` or belongs to the candidate
(`key`, `hash`, info `info`) that was admitted. -/
structure SubC (key : Nat) (hash : UInt64) (info : Nat) (s s' : SState) : Prop where
  prob : ∀ n, n ∈ s'.prob → n ∈ s.prob ∨ (n.key = key ∧ n.hash = hash ∧ n.info = info)
  wo : ∀ n, n ∈ s'.wo → n ∈ s.wo ∨ n.info = info
  dirty : ∀ j, (getInfo s' j).dirty = true → (getInfo s j).dirty = true

theorem Sub.toC {s s' : SState} (h : Sub s s') (key : Nat) (hash : UInt64) (info : Nat) :
    SubC key hash info s s' :=
  ⟨fun n hn => Or.inl (h.prob n hn), fun n hn => Or.inl (h.wo n hn), h.dirty⟩

theorem SubC.trans_sub {key : Nat} {hash : UInt64} {info : Nat} {a b c : SState}
    (h1 : SubC key hash info a b) (h2 : Sub b c) : SubC key hash info a c :=
  ⟨fun n hn => h1.prob n (h2.prob n hn), fun n hn => h1.wo n (h2.wo n hn),
   fun j h => h1.dirty j (h2.dirty j h)⟩

theorem Sub.trans_c {key : Nat} {hash : UInt64} {info : Nat} {a b c : SState}
    (h1 : Sub a b) (h2 : SubC key hash info b c) : SubC key hash info a c :=
  ⟨fun n hn => (h2.prob n hn).imp (h1.prob n) id, fun n hn => (h2.wo n hn).imp (h1.wo n) id,
   fun j h => h1.dirty j (h2.dirty j h)⟩

theorem handleAdmit_subc (p : Params) (s : SState) (key : Nat) (hash : UInt64) (ve : VE)
    (w : Nat) : SubC key hash ve.info s (handleAdmit p s key hash ve w) := by
  unfold handleAdmit
  dsimp only
  have h2 : Sub s (if p.q.d8 = true then addCounters s 1 w
      else withInfo (addCounters s 1 w) ve.info (fun i => { i with weight := w })) := by
    split
    · exact sub_addCounters _ _ _
    · exact (sub_addCounters _ _ _).trans (sub_withInfo _ _ _)
  generalize (if p.q.d8 = true then addCounters s 1 w
      else withInfo (addCounters s 1 w) ve.info (fun i => { i with weight := w })) = s2 at h2 ⊢
  refine Sub.trans_c h2 ?_
  split
  · refine ⟨fun n hn => ?_, fun n hn => ?_, fun j h => ?_⟩
    · have hn' : n ∈ s2.prob ++ [_] := hn
      rcases List.mem_append.mp hn' with h | h
      · exact Or.inl h
      · simp at h; rw [h]; exact Or.inr ⟨rfl, rfl, rfl⟩
    · have hn' : n ∈ s2.wo ++ [_] := hn
      rcases List.mem_append.mp hn' with h | h
      · exact Or.inl h
      · simp at h; rw [h]; exact Or.inr rfl
    · have h6 := (sub_withInfo _ ve.info _).dirty j h
      have h5 := (sub_withInfo _ ve.info _).dirty j h6
      exact (sub_withInfo _ ve.info _).dirty j h5
  · refine ⟨fun n hn => ?_, fun n hn => Or.inl hn, fun j h => ?_⟩
    · have hn' : n ∈ s2.prob ++ [_] := hn
      rcases List.mem_append.mp hn' with h | h
      · exact Or.inl h
      · simp at h; rw [h]; exact Or.inr ⟨rfl, rfl, rfl⟩
    · have h6 := (sub_withInfo _ ve.info _).dirty j h
      exact (sub_withInfo _ ve.info _).dirty j h6

theorem admitOrReject_subc (p : Params) (s : SState) (key : Nat) (hash : UInt64) (ve : VE)
    (newW : Nat) : SubC key hash ve.info s (admitOrReject p s key hash ve newW) := by
  unfold admitOrReject
  dsimp only
  split
  · refine SubC.trans_sub ?_ (moveSkipped_sub _ _)
    exact (removeVictims_sub _ _ _ _).trans_c (handleAdmit_subc _ _ _ _ _ _)
  · exact ((removeCandidate_sub _ _ _ _).trans (moveSkipped_sub _ _)).toC _ _ _

theorem handleUpsert_subc (p : Params) (s : SState) (key : Nat) (hash : UInt64) (ve : VE)
    (oldW newW : Nat) : SubC key hash ve.info s (handleUpsert p s key hash ve oldW newW) := by
  unfold handleUpsert
  dsimp only
  generalize currentWeight p s key ve newW = newW
  have h0 : Sub s (withInfo s ve.info (fun i => { i with dirty := false })) :=
    sub_withInfo _ _ _
  refine h0.trans_c ?_
  generalize withInfo s ve.info (fun i => { i with dirty := false }) = s1
  by_cases h1 : (getInfo s1 ve.info).admitted = true
  · rw [if_pos h1]; exact (applyUpdate_sub _ _ _ _ _).toC _ _ _
  · rw [if_neg h1]
    by_cases h2 : (!p.q.d7 && !isCurrentEntry s1 key ve) = true
    · rw [if_pos h2]; exact (Sub.refl _).toC _ _ _
    · rw [if_neg h2]
      by_cases h3 : hasEnoughCapacity p newW s1 = true
      · rw [if_pos h3]; exact handleAdmit_subc _ _ _ _ _ _
      · rw [if_neg h3]
        by_cases h4 : tooBig p newW = true
        · rw [if_pos h4]; exact (removeCandidate_sub _ _ _ _).toC _ _ _
        · rw [if_neg h4]; exact admitOrReject_subc _ _ _ _ _ _

/-! ### a node stores the hash of its key -/

/-- Every node of the access-order list stores the hash of its key. -/
def PH (p : Params) (s : SState) : Prop := ∀ n, n ∈ s.prob → n.hash = p.hash n.key

/-- Every queued insert carries the hash of its key. -/
def QH (p : Params) (q : List WOp) : Prop :=
  ∀ key hash ve o w, WOp.upsert key hash ve o w ∈ q → hash = p.hash key

structure HashOk (p : Params) (s : SState) : Prop where
  prob : PH p s
  wq : QH p s.writeQ

theorem PH.sub {p : Params} {s s' : SState} (h : PH p s) (hs : Sub s s') : PH p s' :=
  fun n hn => h n (hs.prob n hn)

theorem PH.subc {p : Params} {s s' : SState} {key info : Nat} (h : PH p s)
    (hs : SubC key (p.hash key) info s s') : PH p s' := by
  intro n hn
  rcases hs.prob n hn with h1 | ⟨e1, e2, _⟩
  · exact h n h1
  · rw [e2, e1]

theorem applyWrite_ph {p : Params} {s : SState} (h : PH p s) (op : WOp) (hop : QH p [op]) :
    PH p (applyWrite p s op) := by
  cases op with
  | upsert key hash ve oldW newW =>
    have e : hash = p.hash key := hop key hash ve oldW newW List.mem_cons_self
    subst e
    exact h.subc (handleUpsert_subc _ _ _ _ _ _ _)
  | remove key ve => exact h.sub (handleRemove_sub _ _)

theorem applyWrites_ph {p : Params} (n : Nat) :
    ∀ (s : SState), PH p s → QH p s.writeQ → PH p (applyWrites p n s) := by
  induction n with
  | zero => intro s h _; exact h
  | succ n ih =>
    intro s h hq
    unfold applyWrites
    split
    · exact h
    · rename_i op rest hs
      have h0 : PH p { s with writeQ := rest } := h
      have hop : QH p [op] := by
        intro key hash ve o w hm
        simp at hm
        exact hq key hash ve o w (by rw [hs, hm]; exact List.mem_cons_self)
      refine ih _ (applyWrite_ph h0 op hop) ?_
      rw [(applyWrite_qframe p { s with writeQ := rest } op).writeQ]
      intro key hash ve o w hm
      exact hq key hash ve o w (by rw [hs]; exact List.mem_cons_of_mem _ hm)

theorem syncPass_ph {p : Params} {s : SState} (h : HashOk p s) : PH p (syncPass p s) := by
  unfold syncPass
  dsimp only
  have h1 : HashOk p (if s.readQ.length > 0 then applyReads p s.readQ.length s else s) := by
    split
    · exact ⟨h.prob.sub (applyReads_sub _ _ _), by rw [applyReads_writeQ]; exact h.wq⟩
    · exact h
  generalize (if s.readQ.length > 0 then applyReads p s.readQ.length s else s) = s1 at h1 ⊢
  have h2 : PH p (if s1.writeQ.length > 0 then applyWrites p s1.writeQ.length s1 else s1) := by
    split
    · exact applyWrites_ph _ _ h1.prob h1.wq
    · exact h1.prob
  generalize (if s1.writeQ.length > 0 then applyWrites p s1.writeQ.length s1 else s1) = s2 at h2 ⊢
  split
  · exact h2.sub (enableSketch_sub _ _)
  · exact h2

theorem syncRun_hash {p : Params} {s : SState} (h : HashOk p s) : HashOk p (syncRun p s) := by
  refine ⟨?_, by rw [syncRun_writeQ]; intro _ _ _ _ _ hm; cases hm⟩
  rw [syncRun_eq]
  dsimp only
  have h1 : PH p (syncPass p { s with cec := s.ec, cws := s.ws }) := syncPass_ph ⟨h.prob, h.wq⟩
  generalize syncPass p { s with cec := s.ec, cws := s.ws } = s1 at h1 ⊢
  have h2 : PH p (if (p.hasExpiry || s1.va.isSome) = true then evictExpired p s1 else s1) := by
    split
    · exact h1.sub (evictExpired_sub _ _)
    · exact h1
  generalize (if (p.hasExpiry || s1.va.isSome) = true then evictExpired p s1 else s1) = s2 at h2 ⊢
  have h3 : PH p (if weightsToEvict p s2 > 0
      then evictLruLoop p Gen.SYNC_EVICTION_BATCH_SIZE s2 (weightsToEvict p s2) 0 else s2) := by
    split
    · exact h2.sub (evictLruLoop_sub _ _ _ _ _)
    · exact h2
  exact h3

theorem trySync_hash {p : Params} {s : SState} (h : HashOk p s) : HashOk p (trySync p s) := by
  unfold trySync
  split
  · exact h
  · dsimp only
    have h0 : HashOk p { s with running := true, syncAfter := s.now + Gen.PERIODICAL_SYNC_INTERVAL_MILLIS * 1000000 } :=
      ⟨h.prob, h.wq⟩
    have := syncRun_hash h0
    exact ⟨this.prob, this.wq⟩

theorem housekeepW_hash {p : Params} {s : SState} (h : HashOk p s) :
    HashOk p (housekeepW p s) := by
  unfold housekeepW; split
  · exact trySync_hash h
  · exact h

theorem housekeepR_hash {p : Params} {s : SState} (h : HashOk p s) :
    HashOk p (housekeepR p s) := by
  unfold housekeepR; split
  · exact trySync_hash h
  · exact h

theorem qh_append {p : Params} {q : List WOp} (h : QH p q) (op : WOp) (hop : QH p [op]) :
    QH p (q ++ [op]) := by
  intro key hash ve o w hm
  rcases List.mem_append.mp hm with hm | hm
  · exact h key hash ve o w hm
  · exact hop key hash ve o w hm

theorem scheduleWriteOp3 (p : Params) {s : SState} (h : QInv s) (op : WOp) :
    scheduleWriteOp p 3 s op =
      { housekeepW p s with writeQ := (housekeepW p s).writeQ ++ [op] } :=
  scheduleWriteOp_enqueues p 2 h op

theorem scheduleWriteOp_hash {p : Params} {s : SState} (hq : QInv s) (h : HashOk p s) (op : WOp)
    (hop : QH p [op]) : HashOk p (scheduleWriteOp p 3 s op) := by
  rw [scheduleWriteOp3 p hq]
  have := housekeepW_hash h
  exact ⟨this.prob, qh_append this.wq _ hop⟩

theorem HashOk.of_eq {p : Params} {s t : SState} (h : HashOk p s) (e1 : t.prob = s.prob)
    (e2 : t.writeQ = s.writeQ) : HashOk p t :=
  ⟨fun n hn => h.prob n (e1 ▸ hn), by rw [e2]; exact h.wq⟩

theorem insert_hash {p : Params} {s : SState} (hq : QInv s) (h : HashOk p s) (k v : Nat) :
    HashOk p (insert p s k v) := by
  unfold insert
  dsimp only
  split
  · refine scheduleWriteOp_hash (s := _) ?_ ?_ _ ?_
    · exact qinv_of_eq hq rfl rfl rfl
    · exact ⟨h.prob, h.wq⟩
    · intro key hash ve o w hm
      simp at hm
      rw [hm.1, hm.2.1]
  · refine scheduleWriteOp_hash (s := _) ?_ ?_ _ ?_
    · exact qinv_of_eq hq rfl rfl rfl
    · exact ⟨h.prob, h.wq⟩
    · intro key hash ve o w hm
      simp at hm
      rw [hm.1, hm.2.1]

theorem recordReadOp_hash {p : Params} {s : SState} (hq : QInv s) (h : HashOk p s) (op : ROp) :
    HashOk p (recordReadOp p s op) := by
  rw [recordReadOp_enqueues p hq]
  have := housekeepR_hash (p := p) h
  exact ⟨this.prob, this.wq⟩

theorem get_hash {p : Params} {s : SState} (hq : QInv s) (h : HashOk p s) (k : Nat) :
    HashOk p (get p s k).1 := by
  unfold get
  dsimp only
  split
  · exact recordReadOp_hash hq h _
  · split
    · exact recordReadOp_hash hq h _
    · exact recordReadOp_hash hq h _

theorem invalidate_hash {p : Params} {s : SState} (hq : QInv s) (h : HashOk p s) (k : Nat) :
    HashOk p (invalidate p s k) := by
  unfold invalidate
  split
  · exact h
  · dsimp only
    refine scheduleWriteOp_hash (s := _) ?_ ?_ _ ?_
    · exact qinv_of_eq hq rfl rfl rfl
    · exact ⟨h.prob, h.wq⟩
    · intro key hash ve o w hm
      simp at hm

/-! ### the plain transition of a step -/

/-- The transition `step` performs in a state without a fault, before the fault check. -/
def rawStep (p : Params) (s : SState) (op : Op) : SState × Obs :=
  match op with
  | .ins k v => (insert p s k v, .ok)
  | .get k => ((get p s k).1, .val (get p s k).2)
  | .has k => (s, .bool (containsKey p s k))
  | .iter => (s, .iter (sortBy (·.1) (iter p s)))
  | .inv k => (invalidate p s k, .ok)
  | .invAll => (invalidateAll s, .ok)
  | .invIf _ => (s, .badOp)
  | .sync => (syncRun p s, .ok)
  | .adv d => ({ s with now := s.now + d }, .ok)
  | .snap => (s, .snap (snapshot p s))
  | .freq k => (s, .freq (s.sk.frequency (p.hash k)))

theorem step_eq_raw (p : Params) (s : SState) (op : Op) (h : s.fault = none) :
    step p s op = match (rawStep p s op).1.fault with
      | some f => ((rawStep p s op).1, Obs.panic f)
      | none => rawStep p s op := by
  unfold step
  rw [if_neg (by rw [h]; simp)]
  cases op <;> rfl

theorem step_fst (p : Params) (s : SState) (op : Op) (h : s.fault = none) :
    (step p s op).1 = (rawStep p s op).1 := by
  rw [step_eq_raw p s op h]
  split <;> rfl

theorem step_ok (p : Params) (s : SState) (op : Op) (h : s.fault = none)
    (h' : (step p s op).1.fault = none) : step p s op = rawStep p s op := by
  rw [step_fst p s op h] at h'
  rw [step_eq_raw p s op h, h']

/-! ### time stamps never lie in the future -/

structure TsOk (s : SState) : Prop where
  va : ∀ v, s.va = some v → v ≤ s.now
  lm : ∀ i, (getInfo s i).lm ≤ s.now
  la : ∀ i, (getInfo s i).la ≤ s.now
  rq : ∀ hash ve ts, ROp.hit hash ve ts ∈ s.readQ → ts ≤ s.now

theorem TsOk.frame {s s' : SState} (h : TsOk s) (hf : Frame s s') : TsOk s' := by
  refine ⟨?_, ?_, ?_, ?_⟩
  · intro v hv; rw [hf.va] at hv; rw [hf.now]; exact h.va v hv
  · intro i; rw [hf.lm, hf.now]; exact h.lm i
  · intro i
    rw [hf.now]
    rcases hf.la i with e | ⟨hash, ve, hin, _⟩
    · rw [e]; exact h.la i
    · exact h.rq _ _ _ hin
  · intro hash ve ts hin
    rw [hf.now]
    exact h.rq _ _ _ (hf.readQ _ hin)

theorem housekeepW_frame {p : Params} (hq : NoQuirks p) (s : SState) :
    Frame s (housekeepW p s) := by
  unfold housekeepW; split
  · exact trySync_frame hq s
  · exact Frame.refl s

theorem housekeepR_frame {p : Params} (hq : NoQuirks p) (s : SState) :
    Frame s (housekeepR p s) := by
  unfold housekeepR; split
  · exact trySync_frame hq s
  · exact Frame.refl s

theorem TsOk.of_eq {s t : SState} (h : TsOk s) (e1 : t.infos = s.infos) (e2 : t.va = s.va)
    (e3 : t.now = s.now) (e4 : t.readQ = s.readQ) : TsOk t := by
  have hg : ∀ j, getInfo t j = getInfo s j := getInfo_congr e1
  refine ⟨?_, ?_, ?_, ?_⟩
  · intro v hv; rw [e2] at hv; rw [e3]; exact h.va v hv
  · intro i; rw [hg, e3]; exact h.lm i
  · intro i; rw [hg, e3]; exact h.la i
  · intro hash ve ts hin; rw [e4] at hin; rw [e3]; exact h.rq _ _ _ hin

theorem insert_ts {p : Params} (hq : NoQuirks p) {s : SState} (h : TsOk s) (k v : Nat) :
    TsOk (insert p s k v) := by
  unfold insert
  dsimp only
  split
  · refine TsOk.frame ?_ (scheduleWriteOp_frame hq 3 _ _)
    rename_i old _
    refine ⟨h.va, ?_, ?_, h.rq⟩
    · intro i
      show (getInfo (refreshInfo p s old.info s.now (p.weigh k v)) i).lm ≤ s.now
      unfold refreshInfo
      rw [getInfo_withInfo]
      by_cases e : old.info = i
      · rw [if_pos e]; exact Nat.le_refl _
      · rw [if_neg e]; exact h.lm i
    · intro i
      show (getInfo (refreshInfo p s old.info s.now (p.weigh k v)) i).la ≤ s.now
      unfold refreshInfo
      rw [getInfo_withInfo]
      by_cases e : old.info = i
      · rw [if_pos e]; exact Nat.le_refl _
      · rw [if_neg e]; exact h.la i
  · refine TsOk.frame ?_ (scheduleWriteOp_frame hq 3 _ _)
    refine ⟨h.va, ?_, ?_, h.rq⟩
    · intro i
      simp only [getInfo, AL.get?_put]
      by_cases e : s.nextId = i
      · simp only [e, if_true, Option.getD_some]; exact Nat.le_refl _
      · simp only [e, if_false]; exact h.lm i
    · intro i
      simp only [getInfo, AL.get?_put]
      by_cases e : s.nextId = i
      · simp only [e, if_true, Option.getD_some]; exact Nat.le_refl _
      · simp only [e, if_false]; exact h.la i

theorem recordReadOp_ts {p : Params} (hq : NoQuirks p) {s : SState} (hqi : QInv s) (h : TsOk s)
    (op : ROp) (hop : ∀ hash ve ts, op = ROp.hit hash ve ts → ts ≤ s.now) :
    TsOk (recordReadOp p s op) := by
  rw [recordReadOp_enqueues p hqi]
  have hf := housekeepR_frame hq s
  have h1 := h.frame hf
  refine ⟨h1.va, h1.lm, h1.la, ?_⟩
  intro hash ve ts hin
  rcases List.mem_append.mp hin with hin | hin
  · exact h1.rq _ _ _ hin
  · simp at hin
    rw [hf.now]
    exact hop hash ve ts hin.symm

theorem get_ts {p : Params} (hq : NoQuirks p) {s : SState} (hqi : QInv s) (h : TsOk s) (k : Nat) :
    TsOk (get p s k).1 := by
  unfold get
  dsimp only
  split
  · exact recordReadOp_ts hq hqi h _ (fun _ _ _ e => by cases e)
  · split
    · exact recordReadOp_ts hq hqi h _ (fun _ _ _ e => by cases e)
    · exact recordReadOp_ts hq hqi h _ (fun _ _ _ e => by cases e; exact Nat.le_refl _)

theorem invalidate_ts {p : Params} (hq : NoQuirks p) {s : SState} (h : TsOk s) (k : Nat) :
    TsOk (invalidate p s k) := by
  unfold invalidate
  split
  · exact h
  · dsimp only
    refine TsOk.frame ?_ (scheduleWriteOp_frame hq 3 _ _)
    exact ⟨h.va, h.lm, h.la, h.rq⟩

/-! ### the invariant carried along a trace -/

structure AInv (p : Params) (s : SState) : Prop where
  top : TopInv Sketch.Good s
  q : QInv s
  hash : HashOk p s
  ts : TsOk s

theorem init_ainv (p : Params) : AInv p {} := by
  refine ⟨init_inv sketchLaws, qinv_init, ⟨?_, ?_⟩, ⟨?_, ?_, ?_, ?_⟩⟩
  · intro n hn; cases hn
  · intro _ _ _ _ _ hm; cases hm
  · intro v hv; cases hv
  · intro i; exact Nat.le_refl _
  · intro i; exact Nat.le_refl _
  · intro _ _ _ hm; cases hm

theorem step_ainv {p : Params} (hq : NoQuirks p) (hsm : SmallSketch p) {s : SState}
    (h : AInv p s) (op : Op) : AInv p (step p s op).1 := by
  have hnf := h.top.nofault
  obtain ⟨t1, t2, _⟩ := step_inv sketchLaws hq hsm h.top op
  obtain ⟨q1, q2⟩ := step_qinv p h.q op
  have hnf' : (step p s op).1.fault = none := by
    rcases t2 with t2 | t2
    · exact t2
    · have := q2 t2; rw [hnf] at this; cases this
  refine ⟨⟨t1, hnf'⟩, q1, ?_, ?_⟩
  · rw [step_fst p s op hnf]
    cases op with
    | ins k v => exact insert_hash h.q h.hash k v
    | get k => exact get_hash h.q h.hash k
    | inv k => exact invalidate_hash h.q h.hash k
    | sync => exact syncRun_hash h.hash
    | invAll => exact ⟨h.hash.prob, h.hash.wq⟩
    | adv d => exact ⟨h.hash.prob, h.hash.wq⟩
    | _ => exact h.hash
  · rw [step_fst p s op hnf]
    cases op with
    | ins k v => exact insert_ts hq h.ts k v
    | get k => exact get_ts hq h.q h.ts k
    | inv k => exact invalidate_ts hq h.ts k
    | sync => exact h.ts.frame (syncRun_frame hq s)
    | invAll =>
      refine ⟨?_, h.ts.lm, h.ts.la, h.ts.rq⟩
      intro v hv
      have : some s.now = some v := hv
      cases this; exact Nat.le_refl _
    | adv d =>
      refine ⟨?_, ?_, ?_, ?_⟩
      · intro v hv; exact Nat.le_trans (h.ts.va v hv) (Nat.le_add_right _ _)
      · intro i; exact Nat.le_trans (h.ts.lm i) (Nat.le_add_right _ _)
      · intro i; exact Nat.le_trans (h.ts.la i) (Nat.le_add_right _ _)
      · intro a b c hm; exact Nat.le_trans (h.ts.rq a b c hm) (Nat.le_add_right _ _)
    | _ => exact h.ts

/-! ### maintenance of a quiescent calm cache does nothing -/

/-- No node of either list belongs to an info that is past an expiry deadline. -/
structure NoExp (p : Params) (s : SState) : Prop where
  ao : ∀ n, n ∈ s.prob → expiredTs p.tti s.va (getInfo s n.info).la s.now = false
  wo : ∀ n, n ∈ s.wo → expiredTs p.ttl s.va (getInfo s n.info).lm s.now = false

theorem removeExpiredAo_noop {p : Params} {s : SState} (h : NoExp p s) (fuel : Nat) :
    removeExpiredAo p fuel s = s := by
  cases fuel with
  | zero => rfl
  | succ fuel =>
    unfold removeExpiredAo
    cases hp : s.prob with
    | nil => rfl
    | cons n rest =>
      dsimp only
      have := h.ao n (by rw [hp]; exact List.mem_cons_self)
      rw [this]
      rfl

theorem removeExpiredWo_noop {p : Params} {s : SState} (h : NoExp p s) (fuel : Nat) :
    removeExpiredWo p fuel s = s := by
  cases fuel with
  | zero => rfl
  | succ fuel =>
    unfold removeExpiredWo
    cases hp : s.wo with
    | nil => rfl
    | cons n rest =>
      dsimp only
      have := h.wo n (by rw [hp]; exact List.mem_cons_self)
      rw [this]
      rfl

theorem evictExpired_noop {p : Params} {s : SState} (h : NoExp p s) : evictExpired p s = s := by
  unfold evictExpired
  dsimp only
  have e1 : (if p.ttl.isSome = true then removeExpiredWo p Gen.SYNC_EVICTION_BATCH_SIZE s else s) = s := by
    split
    · exact removeExpiredWo_noop h _
    · rfl
  rw [e1]
  split
  · exact removeExpiredAo_noop h _
  · rfl

/-- The two states agree on everything the cache's behaviour depends on, except the local
counters of a maintenance run, the housekeeper's flags and the representation of the sketch
(all popularity estimates agree). -/
structure Quiet (s s' : SState) : Prop where
  map : s'.map = s.map
  infos : s'.infos = s.infos
  prob : s'.prob = s.prob
  wo : s'.wo = s.wo
  readQ : s'.readQ = s.readQ
  writeQ : s'.writeQ = s.writeQ
  ec : s'.ec = s.ec
  ws : s'.ws = s.ws
  va : s'.va = s.va
  now : s'.now = s.now
  nextId : s'.nextId = s.nextId
  fault : s'.fault = s.fault
  freq : ∀ h, s'.sk.frequency h = s.sk.frequency h

theorem Quiet.refl (s : SState) : Quiet s s :=
  ⟨rfl, rfl, rfl, rfl, rfl, rfl, rfl, rfl, rfl, rfl, rfl, rfl, fun _ => rfl⟩

theorem Quiet.trans {a b c : SState} (h1 : Quiet a b) (h2 : Quiet b c) : Quiet a c :=
  ⟨h2.map.trans h1.map, h2.infos.trans h1.infos, h2.prob.trans h1.prob, h2.wo.trans h1.wo,
   h2.readQ.trans h1.readQ, h2.writeQ.trans h1.writeQ, h2.ec.trans h1.ec, h2.ws.trans h1.ws,
   h2.va.trans h1.va, h2.now.trans h1.now, h2.nextId.trans h1.nextId, h2.fault.trans h1.fault,
   fun h => (h2.freq h).trans (h1.freq h)⟩

theorem Quiet.getInfo {s s' : SState} (h : Quiet s s') (j : Nat) : getInfo s' j = getInfo s j :=
  getInfo_congr h.infos j

theorem NoExp.quiet {p : Params} {s s' : SState} (h : NoExp p s) (hq : Quiet s s') :
    NoExp p s' := by
  refine ⟨?_, ?_⟩
  · intro n hn
    rw [hq.prob] at hn
    rw [hq.va, hq.getInfo, hq.now]
    exact h.ao n hn
  · intro n hn
    rw [hq.wo] at hn
    rw [hq.va, hq.getInfo, hq.now]
    exact h.wo n hn

theorem frequency_zero_table (s : Sketch) (h : UInt64) (hz : ∀ i, s.table.getD i 0 = 0) :
    s.frequency h = 0 := by
  unfold Sketch.frequency
  split
  · rfl
  · have hc : ∀ i, s.counterAt h i = 0 := by
      intro i
      unfold Sketch.counterAt Sketch.nib
      rw [hz]
      simp
    rw [hc 0, hc 1, hc 2, hc 3]
    rfl

/-- A fresh table holds no counts. -/
theorem frequency_ensure_default (c : Nat) (h : UInt64) :
    (({} : Sketch).ensureCapacity c).frequency h = 0 := by
  apply frequency_zero_table
  intro i
  unfold Sketch.ensureCapacity
  dsimp only
  generalize (if min c (2 ^ Gen.SKETCH_MAX_TABLE_POW) = 0 then 1
    else Sketch.nextPow2 (min c (2 ^ Gen.SKETCH_MAX_TABLE_POW))) = ts
  by_cases hge : (#[] : Array Nat).size ≥ ts
  · rw [if_pos hge]; rfl
  · rw [if_neg hge]
    simp [Array.getD]

theorem syncPass_empty (p : Params) (s : SState) (hr : s.readQ = []) (hw : s.writeQ = []) :
    syncPass p s = if shouldEnableSketch p s then enableSketch p s else s := by
  unfold syncPass
  simp only [hr, hw, List.length_nil, Nat.lt_irrefl, if_false, gt_iff_lt]

/-- `Inner::sync` on a cache with empty queues, nothing expired and nothing to evict. -/
theorem syncRun_quiet {p : Params} {cap : Nat} (hcap : p.cap = some cap) {s : SState}
    (hr : s.readQ = []) (hw : s.writeQ = []) (hne : NoExp p s) (hws : s.ws ≤ cap)
    (hsk : s.skOn = false → s.sk = {}) : Quiet s (syncRun p s) := by
  rw [syncRun_eq]
  dsimp only
  rw [syncPass_empty p { s with cec := s.ec, cws := s.ws } hr hw]
  have key : ∀ s1 : SState, Quiet s s1 → s1.cws = s.ws → s1.cec = s.ec →
      Quiet s
        (let s2 := if (p.hasExpiry || s1.va.isSome) = true then evictExpired p s1 else s1
         let s3 := if weightsToEvict p s2 > 0
           then evictLruLoop p Gen.SYNC_EVICTION_BATCH_SIZE s2 (weightsToEvict p s2) 0 else s2
         { s3 with ec := s3.cec, ws := s3.cws }) := by
    intro s1 hq1 hc1 hc2
    dsimp only
    have e2 : (if (p.hasExpiry || s1.va.isSome) = true then evictExpired p s1 else s1) = s1 := by
      split
      · exact evictExpired_noop (hne.quiet hq1)
      · rfl
    rw [e2]
    have e3 : weightsToEvict p s1 = 0 := by
      unfold weightsToEvict
      rw [hcap]
      dsimp only
      omega
    rw [e3]
    simp only [Nat.lt_irrefl, if_false, gt_iff_lt]
    exact ⟨hq1.map, hq1.infos, hq1.prob, hq1.wo, hq1.readQ, hq1.writeQ, hc2, hc1, hq1.va, hq1.now,
      hq1.nextId, hq1.fault, hq1.freq⟩
  by_cases hen : shouldEnableSketch p { s with cec := s.ec, cws := s.ws } = true
  · rw [if_pos hen]
    have hoff : s.skOn = false := by
      unfold shouldEnableSketch at hen
      cases h : s.skOn with
      | false => rfl
      | true => simp [h] at hen
    have hsk0 := hsk hoff
    have he : Quiet s (enableSketch p { s with cec := s.ec, cws := s.ws }) ∧
        (enableSketch p { s with cec := s.ec, cws := s.ws }).cws = s.ws ∧
        (enableSketch p { s with cec := s.ec, cws := s.ws }).cec = s.ec := by
      unfold enableSketch
      rw [hcap]
      dsimp only
      refine ⟨⟨rfl, rfl, rfl, rfl, rfl, rfl, rfl, rfl, rfl, rfl, rfl, rfl, ?_⟩, rfl, rfl⟩
      intro h
      show (s.sk.ensureCapacity _).frequency h = s.sk.frequency h
      rw [hsk0, frequency_ensure_default]
      rfl
    exact key _ he.1 he.2.1 he.2.2
  · rw [if_neg hen]
    exact key _ ⟨rfl, rfl, rfl, rfl, rfl, rfl, rfl, rfl, rfl, rfl, rfl, rfl, fun _ => rfl⟩ rfl rfl

theorem trySync_quiet {p : Params} {cap : Nat} (hcap : p.cap = some cap) {s : SState}
    (hr : s.readQ = []) (hw : s.writeQ = []) (hne : NoExp p s) (hws : s.ws ≤ cap)
    (hsk : s.skOn = false → s.sk = {}) : Quiet s (trySync p s) := by
  unfold trySync
  split
  · exact Quiet.refl s
  · dsimp only
    generalize s.now + Gen.PERIODICAL_SYNC_INTERVAL_MILLIS * 1000000 = sa
    have h0 : Quiet s { s with running := true, syncAfter := sa } :=
      ⟨rfl, rfl, rfl, rfl, rfl, rfl, rfl, rfl, rfl, rfl, rfl, rfl, fun _ => rfl⟩
    have h1 := syncRun_quiet hcap (s := { s with running := true, syncAfter := sa }) hr hw
      (hne.quiet h0) hws hsk
    have h2 := h0.trans h1
    exact ⟨h2.map, h2.infos, h2.prob, h2.wo, h2.readQ, h2.writeQ, h2.ec, h2.ws, h2.va, h2.now,
      h2.nextId, h2.fault, h2.freq⟩

theorem housekeepW_quiet {p : Params} {cap : Nat} (hcap : p.cap = some cap) {s : SState}
    (hr : s.readQ = []) (hw : s.writeQ = []) (hne : NoExp p s) (hws : s.ws ≤ cap)
    (hsk : s.skOn = false → s.sk = {}) : Quiet s (housekeepW p s) := by
  unfold housekeepW
  split
  · exact trySync_quiet hcap hr hw hne hws hsk
  · exact Quiet.refl s

/-! ### closed formula of the victim-aggregation loop -/

/-- Weights of the residents in recency order, as `admit` reads them. -/
def probWeights (s : SState) : List Nat := s.prob.map (fun n => (getInfo s n.info).weight)

/-- Popularity estimates of the residents in recency order, as `admit` reads them. -/
def probFreqs (s : SState) : List Nat := s.prob.map (fun n => s.sk.frequency n.hash)

/-- Every node of the list is owned by the entry the map holds under the node's key. -/
def AllCur (s : SState) (l : List AoNode) : Prop :=
  ∀ n, n ∈ l → ∃ e, AL.get? s.map n.key = some e ∧ e.info = n.info

theorem entryOfNode_cur {p : Params} (hd7 : p.q.d7 = false) {s : SState} {n : AoNode} {e : VE}
    (h1 : AL.get? s.map n.key = some e) (h2 : e.info = n.info) :
    entryOfNode p s n.key n.info = some e := by
  unfold entryOfNode
  rw [h1]
  dsimp only
  rw [hd7, Bool.false_or, h2, beq_self_eq_true, if_pos rfl]

/-- The admission loop on a list of current nodes, started with accumulator `a`: nothing is
skipped; the final test succeeds iff the shortest prefix whose weight covers what is still
missing exists and its summed popularity (added to what was aggregated so far) stays below
the candidate's; the victims are then exactly that prefix. -/
theorem admitLoop_closed_gen {p : Params} (hd7 : p.q.d7 = false) {s : SState} {cw cf : Nat} :
    ∀ (nodes : List AoNode) (a : Admission), AllCur s nodes →
      (admitLoop p s cw cf nodes a).skipped = a.skipped ∧
      ((cw ≤ (admitLoop p s cw cf nodes a).vw ∧ (admitLoop p s cw cf nodes a).vf < cf) ↔
        ∃ n, shortestPre (cw - a.vw) (nodes.map (fun n => (getInfo s n.info).weight)) = some n ∧
          a.vf + ((nodes.map (fun n => s.sk.frequency n.hash)).take n).sum < cf) ∧
      (∀ n, shortestPre (cw - a.vw) (nodes.map (fun n => (getInfo s n.info).weight)) = some n →
          a.vf + ((nodes.map (fun n => s.sk.frequency n.hash)).take n).sum < cf →
          (admitLoop p s cw cf nodes a).victims = a.victims ++ nodes.take n ∧
          (admitLoop p s cw cf nodes a).vw =
            a.vw + ((nodes.map (fun n => (getInfo s n.info).weight)).take n).sum) := by
  intro nodes
  induction nodes with
  | nil =>
    intro a _
    simp only [admitLoop, List.map_nil, List.take_nil, List.sum_nil, Nat.add_zero,
      List.append_nil]
    refine ⟨trivial, ?_⟩
    by_cases h : cw - a.vw = 0
    · rw [h]
      simp only [shortestPre_zero, Option.some.injEq]
      refine ⟨⟨fun ⟨_, h2⟩ => ⟨0, rfl, h2⟩, fun ⟨_, _, h2⟩ => ⟨by omega, h2⟩⟩, ?_⟩
      intro n _ _; simp
    · rw [shortestPre_nil_pos h]
      refine ⟨⟨fun ⟨h1, _⟩ => absurd h1 (by omega), fun ⟨_, h1, _⟩ => by cases h1⟩, ?_⟩
      intro n h1; cases h1
  | cons nd rest ih =>
    intro a hall
    unfold admitLoop
    by_cases hc : a.vw < cw ∧ ¬ cf < a.vf
    · rw [if_pos hc]
      obtain ⟨e, he, hei⟩ := hall nd List.mem_cons_self
      rw [entryOfNode_cur hd7 he hei]
      dsimp only
      rw [hei]
      have hne : cw - a.vw ≠ 0 := by omega
      have := ih { a with vw := a.vw + (getInfo s nd.info).weight,
                          vf := a.vf + s.sk.frequency nd.hash,
                          victims := a.victims ++ [nd], retries := 0 }
        (fun m hm => hall m (List.mem_cons_of_mem _ hm))
      simp only at this
      obtain ⟨ih0, ih1, ih2⟩ := this
      simp only [List.map_cons]
      rw [shortestPre_cons_pos hne]
      have hsub : cw - a.vw - (getInfo s nd.info).weight =
          cw - (a.vw + (getInfo s nd.info).weight) := by omega
      rw [hsub]
      refine ⟨ih0, ih1.trans ⟨?_, ?_⟩, ?_⟩
      · rintro ⟨n, h1, h2⟩
        refine ⟨n + 1, by simp [h1], ?_⟩
        simp only [List.take_succ_cons, List.sum_cons] at h2 ⊢
        omega
      · rintro ⟨n, h1, h2⟩
        cases n with
        | zero =>
          cases hh : shortestPre (cw - (a.vw + (getInfo s nd.info).weight))
            (rest.map (fun n => (getInfo s n.info).weight)) <;> simp [hh] at h1
        | succ n =>
          have h1' : shortestPre (cw - (a.vw + (getInfo s nd.info).weight))
              (rest.map (fun n => (getInfo s n.info).weight)) = some n := by
            cases hh : shortestPre (cw - (a.vw + (getInfo s nd.info).weight))
              (rest.map (fun n => (getInfo s n.info).weight)) <;> simp [hh] at h1
            exact congrArg some h1
          refine ⟨n, h1', ?_⟩
          simp only [List.take_succ_cons, List.sum_cons] at h2 ⊢
          omega
      · intro n h1 h2
        cases n with
        | zero =>
          cases hh : shortestPre (cw - (a.vw + (getInfo s nd.info).weight))
            (rest.map (fun n => (getInfo s n.info).weight)) <;> simp [hh] at h1
        | succ n =>
          have h1' : shortestPre (cw - (a.vw + (getInfo s nd.info).weight))
              (rest.map (fun n => (getInfo s n.info).weight)) = some n := by
            cases hh : shortestPre (cw - (a.vw + (getInfo s nd.info).weight))
              (rest.map (fun n => (getInfo s n.info).weight)) <;> simp [hh] at h1
            exact congrArg some h1
          simp only [List.take_succ_cons, List.sum_cons] at h2 ⊢
          obtain ⟨r1, r2⟩ := ih2 n h1' (by omega)
          refine ⟨by rw [r1]; simp, by rw [r2]; omega⟩
    · rw [if_neg hc]
      refine ⟨rfl, ?_⟩
      by_cases hge : cw ≤ a.vw
      · have h0 : cw - a.vw = 0 := by omega
        rw [h0]
        simp only [shortestPre_zero, Option.some.injEq]
        refine ⟨⟨fun ⟨_, h2⟩ => ⟨0, rfl, by simpa using h2⟩,
          fun ⟨n, hn, h2⟩ => ⟨hge, by subst hn; simpa using h2⟩⟩, ?_⟩
        intro n hn _; subst hn; simp
      · have hlt : cf < a.vf := by
          by_cases h : cf < a.vf
          · exact h
          · exact absurd ⟨by omega, h⟩ hc
        refine ⟨⟨fun ⟨h1, _⟩ => absurd h1 hge, fun ⟨n, _, h2⟩ => by omega⟩, ?_⟩
        intro n _ h2; omega

/-- **Closed formula of `admit`** on a list of current nodes. -/
theorem admitLoop_closed {p : Params} (hd7 : p.q.d7 = false) {s : SState} {cw cf : Nat}
    (hall : AllCur s s.prob) :
    (admitLoop p s cw cf s.prob {}).skipped = [] ∧
    ((admitLoop p s cw cf s.prob {}).vw ≥ cw ∧ cf > (admitLoop p s cw cf s.prob {}).vf ↔
      ∃ n, shortestPre cw (probWeights s) = some n ∧ cf > ((probFreqs s).take n).sum) ∧
    (∀ n, shortestPre cw (probWeights s) = some n → cf > ((probFreqs s).take n).sum →
        (admitLoop p s cw cf s.prob {}).victims = s.prob.take n ∧
        (admitLoop p s cw cf s.prob {}).vw = ((probWeights s).take n).sum) := by
  have := admitLoop_closed_gen (p := p) hd7 (s := s) (cw := cw) (cf := cf) s.prob {} hall
  simpa [probWeights, probFreqs] using this

/-! ### exact effect of `handle_remove` on an admitted entry -/

theorem fail_prob (s : SState) (f : Fault) : (s.fail f).prob = s.prob := by
  unfold SState.fail; split <;> rfl
theorem fail_map (s : SState) (f : Fault) : (s.fail f).map = s.map := by
  unfold SState.fail; split <;> rfl
theorem fail_cws (s : SState) (f : Fault) : (s.fail f).cws = s.cws := by
  unfold SState.fail; split <;> rfl
theorem fail_infos (s : SState) (f : Fault) : (s.fail f).infos = s.infos := by
  unfold SState.fail; split <;> rfl

theorem unlinkWo_prob (s : SState) (i : Nat) : (unlinkWo s i).prob = s.prob := by
  unfold unlinkWo; split
  · rfl
  · dsimp only; split
    · rfl
    · rw [fail_prob]; rfl

theorem unlinkWo_map (s : SState) (i : Nat) : (unlinkWo s i).map = s.map := by
  unfold unlinkWo; split
  · rfl
  · dsimp only; split
    · rfl
    · rw [fail_map]; rfl

theorem unlinkWo_cws (s : SState) (i : Nat) : (unlinkWo s i).cws = s.cws := by
  unfold unlinkWo; split
  · rfl
  · dsimp only; split
    · rfl
    · rw [fail_cws]; rfl

theorem getInfo_eq_of (s' s : SState) (j : Nat) (h : s'.infos = s.infos) :
    getInfo s' j = getInfo s j := getInfo_congr h j

theorem unlinkWo_getInfo_ne (s : SState) (i : Nat) {j : Nat} (hj : j ≠ i) :
    getInfo (unlinkWo s i) j = getInfo s j := by
  have hij : ¬ i = j := fun e => hj e.symm
  unfold unlinkWo; split
  · rfl
  · dsimp only; split
    · refine Eq.trans (getInfo_eq_of _ (withInfo s i (fun x => { x with wo := none })) j ?_) ?_
      · rfl
      · rw [getInfo_withInfo, if_neg hij]
    · rw [getInfo_congr (fail_infos _ _), getInfo_withInfo, if_neg hij]

theorem eraseAo_head (n : AoNode) (rest : List AoNode) : eraseAo (n :: rest) n.id = rest := by
  simp [eraseAo]

/-- `handle_remove` of the entry that owns node `n`. -/
theorem handleRemove_exact {s : SState} (h : Safe s) (ve : VE) {n : AoNode} (hn : n ∈ s.prob)
    (hinfo : n.info = ve.info) :
    (handleRemove s ve).prob = eraseAo s.prob n.id ∧ (handleRemove s ve).map = s.map ∧
    (handleRemove s ve).cws = s.cws - (getInfo s ve.info).weight ∧
    (∀ j, j ≠ ve.info → getInfo (handleRemove s ve) j = getInfo s j) := by
  have hadm : (getInfo s ve.info).admitted = true := by rw [← hinfo]; exact h.probAdm hn
  have hao : (getInfo s ve.info).ao = some n.id := by rw [← hinfo]; exact h.probOwn n hn
  have hfind : findAo s.prob n.id = some n := findAo_of_mem h.probIds hn
  have hpos : 1 ≤ s.cec := by
    rw [h.count]; exact List.length_pos_of_mem hn
  unfold handleRemove
  dsimp only
  rw [if_pos hadm]
  rw [subCounters_eq (s := withInfo s ve.info (fun i => { i with admitted := false })) hpos]
  generalize hB : ({ withInfo s ve.info (fun i => { i with admitted := false }) with
      cec := (withInfo s ve.info (fun i => { i with admitted := false })).cec - 1,
      cws := (withInfo s ve.info (fun i => { i with admitted := false })).cws -
        (getInfo s ve.info).weight } : SState) = B
  have hBp : B.prob = s.prob := by rw [← hB]; rfl
  have hBm : B.map = s.map := by rw [← hB]; rfl
  have hBc : B.cws = s.cws - (getInfo s ve.info).weight := by rw [← hB]; rfl
  have hBi : ∀ j, getInfo B j =
      if ve.info = j then { getInfo s ve.info with admitted := false } else getInfo s j := by
    intro j; rw [← hB]
    refine Eq.trans
      (getInfo_eq_of _ (withInfo s ve.info (fun i => { i with admitted := false })) j ?_) ?_
    · rfl
    · exact getInfo_withInfo _ _ _ _
  have h1 : (getInfo B ve.info).ao = some n.id := by rw [hBi, if_pos rfl]; exact hao
  have h2 : findAo B.prob n.id = some n := by rw [hBp]; exact hfind
  rw [unlinkAo_eq h1 h2]
  refine ⟨?_, ?_, ?_, ?_⟩
  · rw [unlinkWo_prob]; show eraseAo B.prob n.id = _; rw [hBp]
  · rw [unlinkWo_map]; exact hBm
  · rw [unlinkWo_cws]; exact hBc
  · intro j hj
    have hij : ¬ ve.info = j := fun e => hj e.symm
    rw [unlinkWo_getInfo_ne _ _ hj]
    refine Eq.trans (getInfo_eq_of _ (withInfo B ve.info (fun x => { x with ao := none })) j ?_) ?_
    · rfl
    · rw [getInfo_withInfo, if_neg hij, hBi, if_neg hij]

/-! ### erasing a list of keys -/

def eraseKeys (m : List (Nat × VE)) (ks : List Nat) : List (Nat × VE) :=
  ks.foldl (fun m k => AL.erase m k) m

theorem nodup_eraseKeys {m : List (Nat × VE)} (hn : (AL.keys m).Nodup) (ks : List Nat) :
    (AL.keys (eraseKeys m ks)).Nodup := by
  induction ks generalizing m with
  | nil => exact hn
  | cons k ks ih => exact ih (m := AL.erase m k) (AL.nodup_erase k hn)

theorem get?_eraseKeys {m : List (Nat × VE)} (hn : (AL.keys m).Nodup) (ks : List Nat) (x : Nat) :
    AL.get? (eraseKeys m ks) x = if x ∈ ks then none else AL.get? m x := by
  induction ks generalizing m with
  | nil => simp [eraseKeys]
  | cons k ks ih =>
    have := ih (m := AL.erase m k) (AL.nodup_erase k hn)
    simp only [eraseKeys, List.foldl_cons] at this ⊢
    rw [this, AL.get?_erase k x hn]
    by_cases h1 : x ∈ ks
    · simp [h1]
    · by_cases h2 : k = x
      · subst h2; simp
      · have : ¬ x = k := fun e => h2 e.symm
        simp [h1, h2, this]

/-! ### removal of a prefix of the access-order list -/

/-- `removeVictims` on a prefix of current nodes: the rest of the list stays, the victims'
keys leave the map, nothing is skipped, the local weighted size drops by the victims' weights,
other infos are untouched. -/
theorem removeVictims_prefix {p : Params} (hd7 : p.q.d7 = false) :
    ∀ (vs : List AoNode) (s : SState) (rest sk0 : List AoNode), Safe s → s.prob = vs ++ rest →
      AllCur s vs → (AL.keys s.map).Nodup →
      (removeVictims p vs s sk0).2 = sk0 ∧
      (removeVictims p vs s sk0).1.prob = rest ∧
      (removeVictims p vs s sk0).1.map = eraseKeys s.map (vs.map (·.key)) ∧
      Safe (removeVictims p vs s sk0).1 ∧
      (removeVictims p vs s sk0).1.cws =
        s.cws - (vs.map (fun n => (getInfo s n.info).weight)).sum ∧
      (∀ j, (∀ n, n ∈ vs → n.info ≠ j) → getInfo (removeVictims p vs s sk0).1 j = getInfo s j) := by
  intro vs
  induction vs with
  | nil =>
    intro s rest sk0 h hp _ _
    exact ⟨rfl, by simpa [removeVictims] using hp, rfl, h, by simp [removeVictims], fun _ _ => rfl⟩
  | cons v vs ih =>
    intro s rest sk0 h hp hcur hkn
    have hv : v ∈ s.prob := by rw [hp]; exact List.mem_cons_self
    obtain ⟨e, he, hei⟩ := hcur v List.mem_cons_self
    rw [removeVictims, findAo_of_mem h.probIds hv]
    dsimp only
    rw [entryOfNode_cur hd7 he hei]
    dsimp only
    have h0 := safe_eraseMap h v.key
    obtain ⟨x1, x2, x3, x4⟩ := handleRemove_exact h0 e (n := v) hv hei.symm
    obtain ⟨hs1, _, _⟩ := handleRemove_safe h0 e
    generalize handleRemove { s with map := AL.erase s.map v.key } e = s1 at x1 x2 x3 x4 hs1 ⊢
    have hp1 : s1.prob = vs ++ rest := by
      rw [x1]; show eraseAo s.prob v.id = _; rw [hp]; exact eraseAo_head v _
    have hm1 : s1.map = AL.erase s.map v.key := x2
    -- the remaining victims differ from `v` in id, info and key
    have hids : ((v :: vs).map (·.id)).Nodup := by
      have := h.probIds
      rw [hp, List.map_append] at this
      exact (List.nodup_append.mp this).1
    simp only [List.map_cons, List.nodup_cons] at hids
    have hne : ∀ n, n ∈ vs → n.info ≠ v.info ∧ n.key ≠ v.key := by
      intro n hnv
      have hnp : n ∈ s.prob := by rw [hp]; exact List.mem_append_left _ (List.mem_cons_of_mem _ hnv)
      have hid : n.id ≠ v.id := fun e' => hids.1 (e' ▸ List.mem_map.mpr ⟨n, hnv, rfl⟩)
      have hi : n.info ≠ v.info := fun e' => hid (h.info_inj hnp hv e')
      refine ⟨hi, fun e' => hi ?_⟩
      obtain ⟨e2, he2, hei2⟩ := hcur n (List.mem_cons_of_mem _ hnv)
      rw [e', he] at he2
      cases he2
      rw [← hei2, hei]
    have hcur1 : AllCur s1 vs := by
      intro n hnv
      obtain ⟨e2, he2, hei2⟩ := hcur n (List.mem_cons_of_mem _ hnv)
      refine ⟨e2, ?_, hei2⟩
      rw [hm1, AL.get?_erase_ne (fun e' => (hne n hnv).2 e'.symm)]
      exact he2
    have hkn1 : (AL.keys s1.map).Nodup := by rw [hm1]; exact AL.nodup_erase _ hkn
    obtain ⟨r1, r2, r3, r4, r5, r6⟩ := ih s1 rest sk0 hs1 hp1 hcur1 hkn1
    refine ⟨r1, r2, ?_, r4, ?_, ?_⟩
    · rw [r3, hm1]; rfl
    · rw [r5, x3]
      have hw : vs.map (fun n => (getInfo s1 n.info).weight) =
          vs.map (fun n => (getInfo s n.info).weight) := by
        apply List.map_congr_left
        intro n hnv
        rw [x4 _ (by rw [hei]; exact (hne n hnv).1)]
        rfl
      rw [hw, List.map_cons, List.sum_cons, hei]
      show s.cws - (getInfo s v.info).weight - _ = _
      omega
    · intro j hj
      rw [r6 j (fun n hnv => hj n (List.mem_cons_of_mem _ hnv))]
      rw [x4 j (by rw [hei]; exact fun e' => hj v List.mem_cons_self e'.symm)]
      rfl

/-! ### the admission of a new key that finds no room -/

theorem handleAdmit_exact (p : Params) (s : SState) (key : Nat) (hash : UInt64) (ve : VE)
    (w : Nat) :
    (handleAdmit p s key hash ve w).map = s.map ∧
    (handleAdmit p s key hash ve w).prob = s.prob ++
      [{ id := s.nextId, key := key, hash := hash, info := ve.info, kobj := ve.slot }] ∧
    (handleAdmit p s key hash ve w).cws = s.cws + w := by
  unfold handleAdmit
  dsimp only
  split <;> split <;> exact ⟨rfl, rfl, rfl⟩

theorem moveSkipped_nil (s : SState) : moveSkipped [] s = s := rfl

/-- `admit` and its consequences in a state all of whose nodes are current: the closed
formula decides; on admission the shortest sufficient prefix leaves and the candidate's node
goes to the back; on rejection only the candidate leaves the map. -/
theorem admitOrReject_cand {p : Params} (hd7 : p.q.d7 = false) {s : SState} {k : Nat}
    {hash : UInt64} {ve : VE} {w : Nat} (hs : Safe s) (hkn : (AL.keys s.map).Nodup)
    (hcand : AL.get? s.map k = some ve) (hcur : AllCur s s.prob) :
    (∀ n, shortestPre w (probWeights s) = some n →
      s.sk.frequency hash > ((probFreqs s).take n).sum →
      (admitOrReject p s k hash ve w).map = eraseKeys s.map ((s.prob.take n).map (·.key)) ∧
      (∃ node : AoNode, node.key = k ∧ node.info = ve.info ∧
        (admitOrReject p s k hash ve w).prob = s.prob.drop n ++ [node]) ∧
      (admitOrReject p s k hash ve w).cws = s.cws - ((probWeights s).take n).sum + w) ∧
    ((¬ ∃ n, shortestPre w (probWeights s) = some n ∧
        s.sk.frequency hash > ((probFreqs s).take n).sum) →
      (admitOrReject p s k hash ve w).map = AL.erase s.map k ∧
      (admitOrReject p s k hash ve w).prob = s.prob ∧
      (admitOrReject p s k hash ve w).cws = s.cws ∧
      Sub s (admitOrReject p s k hash ve w)) := by
  obtain ⟨c0, c1, c2⟩ := admitLoop_closed (p := p) hd7 (s := s) (cw := w)
    (cf := s.sk.frequency hash) hcur
  refine ⟨?_, ?_⟩
  · intro n hn1 hn2
    obtain ⟨hvic, _⟩ := c2 n hn1 hn2
    unfold admitOrReject
    dsimp only
    rw [if_pos (c1.mpr ⟨n, hn1, hn2⟩), hvic, c0]
    have hcurv : AllCur s (s.prob.take n) := fun m hm => hcur m (List.mem_of_mem_take hm)
    obtain ⟨r1, r2, r3, _, r5, _⟩ := removeVictims_prefix hd7 (s.prob.take n) s (s.prob.drop n) []
      hs (List.take_append_drop n s.prob).symm hcurv hkn
    generalize removeVictims p (s.prob.take n) s [] = r at r1 r2 r3 r5 ⊢
    obtain ⟨s2, sk2⟩ := r
    dsimp only at r1 r2 r3 r5 ⊢
    subst r1
    rw [moveSkipped_nil]
    obtain ⟨a1, a2, a3⟩ := handleAdmit_exact p s2 k hash ve w
    refine ⟨by rw [a1, r3], ⟨_, rfl, rfl, by rw [a2, r2]⟩, ?_⟩
    rw [a3, r5]
    have : (s.prob.take n).map (fun n => (getInfo s n.info).weight) = (probWeights s).take n := by
      unfold probWeights; rw [List.map_take]
    rw [this]
  · intro hno
    unfold admitOrReject
    dsimp only
    rw [if_neg (fun h => hno (c1.mp h)), c0, moveSkipped_nil]
    have : removeCandidate p s k ve = { s with map := AL.erase s.map k } := by
      unfold removeCandidate
      rw [hcand]
      dsimp only
      rw [hd7, Bool.false_or, beq_self_eq_true, if_pos rfl]
    rw [this]
    exact ⟨rfl, rfl, rfl, sub_of_eq rfl rfl rfl⟩

/-- `handle_upsert` for the queued insert of a key that is new, not admitted yet, not
oversized and finds no room, in a state all of whose nodes are current. -/
theorem handleUpsert_cand {p : Params} (hq : NoQuirks p) {cap : Nat} (hcap : p.cap = some cap)
    {s : SState} {k v : Nat} {ve : VE} (oldW w0 : Nat) (hs : Safe s)
    (hkn : (AL.keys s.map).Nodup) (hcand : AL.get? s.map k = some ve) (hval : ve.val = v)
    (hna : (getInfo s ve.info).admitted = false) (hcur : AllCur s s.prob)
    (hroom : s.cws + p.weigh k v > cap) (hfit : p.weigh k v ≤ cap) :
    (∀ n, shortestPre (p.weigh k v) (probWeights s) = some n →
      s.sk.frequency (p.hash k) > ((probFreqs s).take n).sum →
      (handleUpsert p s k (p.hash k) ve oldW w0).map =
        eraseKeys s.map ((s.prob.take n).map (·.key)) ∧
      (∃ node : AoNode, node.key = k ∧ node.info = ve.info ∧
        (handleUpsert p s k (p.hash k) ve oldW w0).prob = s.prob.drop n ++ [node]) ∧
      (handleUpsert p s k (p.hash k) ve oldW w0).cws =
        s.cws - ((probWeights s).take n).sum + p.weigh k v) ∧
    ((¬ ∃ n, shortestPre (p.weigh k v) (probWeights s) = some n ∧
        s.sk.frequency (p.hash k) > ((probFreqs s).take n).sum) →
      (handleUpsert p s k (p.hash k) ve oldW w0).map = AL.erase s.map k ∧
      (handleUpsert p s k (p.hash k) ve oldW w0).prob = s.prob ∧
      (handleUpsert p s k (p.hash k) ve oldW w0).cws = s.cws ∧
      Sub s (handleUpsert p s k (p.hash k) ve oldW w0)) := by
  have hd7 : p.q.d7 = false := by rw [hq]
  have hd10 : p.q.d10 = false := by rw [hq]
  have hcw : currentWeight p s k ve w0 = p.weigh k v := by
    unfold currentWeight
    rw [hd10, hcand]
    simp only [Bool.false_eq_true, if_false, beq_self_eq_true, if_true, hval]
  unfold handleUpsert
  dsimp only
  rw [hcw]
  generalize hs1 : withInfo s ve.info (fun i => { i with dirty := false }) = s1
  have hg : ∀ j, getInfo s1 j =
      if ve.info = j then { getInfo s ve.info with dirty := false } else getInfo s j := by
    intro j; rw [← hs1]; exact getInfo_withInfo _ _ _ _
  have hgw : ∀ j, (getInfo s1 j).weight = (getInfo s j).weight := by
    intro j; rw [hg]
    by_cases e : ve.info = j
    · rw [if_pos e, e]
    · rw [if_neg e]
  have hm1 : s1.map = s.map := by rw [← hs1]; rfl
  have hp1 : s1.prob = s.prob := by rw [← hs1]; rfl
  have hc1 : s1.cws = s.cws := by rw [← hs1]; rfl
  have hk1 : s1.sk = s.sk := by rw [← hs1]; rfl
  have hsafe1 : Safe s1 := by rw [← hs1]; exact hs.withInfo _ _ rfl rfl rfl
  have hna1 : ¬ (getInfo s1 ve.info).admitted = true := by
    rw [hg, if_pos rfl]
    show ¬ (getInfo s ve.info).admitted = true
    rw [hna]; exact Bool.false_ne_true
  rw [if_neg hna1]
  have hcurE : isCurrentEntry s1 k ve = true := by
    unfold isCurrentEntry
    rw [hm1, hcand]
    exact beq_self_eq_true _
  rw [hd7, hcurE]
  simp only [Bool.not_false, Bool.not_true, Bool.and_false, Bool.false_eq_true, if_false]
  have hroom1 : ¬ hasEnoughCapacity p (p.weigh k v) s1 = true := by
    unfold hasEnoughCapacity
    rw [hcap, hc1]
    simp only [decide_eq_true_eq]
    omega
  rw [if_neg hroom1]
  have hbig : ¬ tooBig p (p.weigh k v) = true := by
    unfold tooBig
    rw [hcap]
    simp only [decide_eq_true_eq]
    omega
  rw [if_neg hbig]
  have hcur1 : AllCur s1 s1.prob := by
    rw [hp1]; intro n hn; rw [hm1]; exact hcur n hn
  have hW : probWeights s1 = probWeights s := by
    unfold probWeights; rw [hp1]
    exact List.map_congr_left (fun n _ => hgw n.info)
  have hF : probFreqs s1 = probFreqs s := by
    unfold probFreqs; rw [hp1, hk1]
  obtain ⟨adm, rej⟩ := admitOrReject_cand (p := p) hd7 (s := s1) (k := k) (hash := p.hash k)
    (ve := ve) (w := p.weigh k v) hsafe1 (by rw [hm1]; exact hkn) (by rw [hm1]; exact hcand) hcur1
  rw [hW, hF, hk1, hm1, hp1, hc1] at adm
  rw [hW, hF, hk1, hm1, hp1, hc1] at rej
  refine ⟨adm, ?_⟩
  intro hno
  obtain ⟨r1, r2, r3, r4⟩ := rej hno
  exact ⟨r1, r2, r3, Sub.trans (by rw [← hs1]; exact sub_withInfo _ _ _) r4⟩

/-! ### a maintenance run with one queued write -/

/-- Agreement on everything but the sketch, the counters that a run publishes and the queues. -/
structure SameCore (s s' : SState) : Prop where
  map : s'.map = s.map
  infos : s'.infos = s.infos
  prob : s'.prob = s.prob
  wo : s'.wo = s.wo
  va : s'.va = s.va
  now : s'.now = s.now
  cws : s'.cws = s.cws
  cec : s'.cec = s.cec

theorem NoExp.same {p : Params} {s s' : SState} (h : NoExp p s) (hq : SameCore s s') :
    NoExp p s' := by
  refine ⟨?_, ?_⟩
  · intro n hn
    rw [hq.prob] at hn
    rw [hq.va, getInfo_congr hq.infos, hq.now]
    exact h.ao n hn
  · intro n hn
    rw [hq.wo] at hn
    rw [hq.va, getInfo_congr hq.infos, hq.now]
    exact h.wo n hn

theorem enableSketch_same (p : Params) (s : SState) : SameCore s (enableSketch p s) := by
  unfold enableSketch
  split
  · exact ⟨rfl, rfl, rfl, rfl, rfl, rfl, rfl, rfl⟩
  · exact ⟨rfl, rfl, rfl, rfl, rfl, rfl, rfl, rfl⟩

theorem applyWrites_single (p : Params) (s : SState) (op : WOp) (hw : s.writeQ = [op]) :
    applyWrites p s.writeQ.length s = applyWrite p { s with writeQ := [] } op := by
  have : s.writeQ.length = 0 + 1 := by rw [hw]; rfl
  rw [this, applyWrites]
  simp only [hw]
  rfl

theorem syncPass_one (p : Params) (t : SState) (op : WOp) (hr : t.readQ = [])
    (hw : t.writeQ = [op]) :
    syncPass p t =
      if shouldEnableSketch p (applyWrite p { t with writeQ := [] } op)
      then enableSketch p (applyWrite p { t with writeQ := [] } op)
      else applyWrite p { t with writeQ := [] } op := by
  unfold syncPass
  dsimp only
  have e1 : (if t.readQ.length > 0 then applyReads p t.readQ.length t else t) = t := by
    rw [if_neg]; rw [hr]; exact Nat.lt_irrefl 0
  rw [e1]
  have e2 : (if t.writeQ.length > 0 then applyWrites p t.writeQ.length t else t) =
      applyWrite p { t with writeQ := [] } op := by
    rw [if_pos (by rw [hw]; exact Nat.zero_lt_one)]
    exact applyWrites_single p t op hw
  rw [e2]

/-- `Inner::sync` with an empty read queue and one queued write, when the write leaves
nothing expired and nothing to evict: the run is that write. -/
theorem syncRun_one {p : Params} {cap : Nat} (hcap : p.cap = some cap) {s : SState} (op : WOp)
    (hr : s.readQ = []) (hw : s.writeQ = [op])
    (hne : NoExp p (applyWrite p { s with cec := s.ec, cws := s.ws, writeQ := [] } op))
    (hcws : (applyWrite p { s with cec := s.ec, cws := s.ws, writeQ := [] } op).cws ≤ cap) :
    (syncRun p s).map = (applyWrite p { s with cec := s.ec, cws := s.ws, writeQ := [] } op).map ∧
    (syncRun p s).prob =
      (applyWrite p { s with cec := s.ec, cws := s.ws, writeQ := [] } op).prob := by
  rw [syncRun_eq]
  dsimp only
  have hpass : ∃ s2, syncPass p { s with cec := s.ec, cws := s.ws } = s2 ∧
      SameCore (applyWrite p { s with cec := s.ec, cws := s.ws, writeQ := [] } op) s2 := by
    rw [syncPass_one p { s with cec := s.ec, cws := s.ws } op hr hw]
    split
    · exact ⟨_, rfl, enableSketch_same _ _⟩
    · exact ⟨_, rfl, ⟨rfl, rfl, rfl, rfl, rfl, rfl, rfl, rfl⟩⟩
  obtain ⟨s2, e2, hsame⟩ := hpass
  rw [e2]
  generalize applyWrite p { s with cec := s.ec, cws := s.ws, writeQ := [] } op = s1 at hne hcws hsame ⊢
  have e3 : (if (p.hasExpiry || s2.va.isSome) = true then evictExpired p s2 else s2) = s2 := by
    split
    · exact evictExpired_noop (hne.same hsame)
    · rfl
  rw [e3]
  have e4 : weightsToEvict p s2 = 0 := by
    unfold weightsToEvict
    rw [hcap, hsame.cws]
    dsimp only
    omega
  rw [e4]
  simp only [Nat.lt_irrefl, if_false, gt_iff_lt]
  exact ⟨hsame.map, hsame.prob⟩

/-! ### a quiescent calm cache, an insert of a new key, a maintenance run -/

/-- A quiescent calm cache: nothing queued, within capacity, every node of the access-order
list owned by the map's entry for its key, no resident past an expiry deadline. -/
structure CalmS (p : Params) (cap : Nat) (s : SState) : Prop where
  readQ : s.readQ = []
  writeQ : s.writeQ = []
  ws : s.ws ≤ cap
  cur : AllCur s s.prob
  live : ∀ k ve, AL.get? s.map k = some ve →
    isExpiredInfo p s (getInfo s ve.info) s.now = false

theorem CalmS.noExp {p : Params} {cap : Nat} {s : SState} (hc : CalmS p cap s)
    (hn : NodesCore s) : NoExp p s := by
  refine ⟨?_, ?_⟩
  · intro n hnp
    obtain ⟨e, he, hei⟩ := hc.cur n hnp
    have := hc.live _ _ he
    unfold isExpiredInfo at this
    rw [Bool.or_eq_false_iff] at this
    rw [← hei]; exact this.2
  · intro n hnw
    have h1 := hn.woOwn n hnw
    have h2 := hn.woAdm n.info (by rw [h1]; rfl)
    obtain ⟨id, h3⟩ := hn.adm_ao h2
    obtain ⟨m, hm, _, hmi⟩ := hn.aoNode _ _ h3
    obtain ⟨e, he, hei⟩ := hc.cur m hm
    have := hc.live _ _ he
    unfold isExpiredInfo at this
    rw [Bool.or_eq_false_iff] at this
    rw [← hmi, ← hei]; exact this.1

/-- The value entry `insert` creates for a new key. -/
def candVE (s : SState) (v : Nat) : VE :=
  { id := s.nextId + 1, val := v, info := s.nextId, slot := s.nextId + 1 }

/-- The map step of the insert of a new key: a fresh info, a fresh value entry. -/
def withCand (p : Params) (s : SState) (k v : Nat) : SState :=
  { s with nextId := s.nextId + 2,
           infos := AL.put s.infos s.nextId
             { key := k, admitted := false, dirty := true, la := s.now, lm := s.now,
               weight := p.weigh k v },
           map := AL.put s.map k (candVE s v) }

/-- The write operation `insert` queues for a new key. -/
def candOp (p : Params) (s : SState) (k v : Nat) : WOp :=
  .upsert k (p.hash k) (candVE s v) 0 (p.weigh k v)

theorem insert_fresh (p : Params) {s : SState} (hq : QInv s) {k : Nat} (v : Nat)
    (hnew : AL.get? s.map k = none) :
    insert p s k v =
      { housekeepW p (withCand p s k v) with
        writeQ := (housekeepW p (withCand p s k v)).writeQ ++ [candOp p s k v] } := by
  unfold insert
  dsimp only
  rw [hnew]
  dsimp only
  exact scheduleWriteOp3 p (s := withCand p s k v) (qinv_of_eq hq rfl rfl rfl) _

/-- The info `insert` creates for a new key. -/
def candInfo (p : Params) (s : SState) (k v : Nat) : Info :=
  { key := k, admitted := false, dirty := true, la := s.now, lm := s.now, weight := p.weigh k v }

theorem getInfo_withCand (p : Params) (s : SState) (k v j : Nat) :
    getInfo (withCand p s k v) j = if s.nextId = j then candInfo p s k v else getInfo s j := by
  simp only [getInfo, withCand, candInfo, AL.get?_put]
  by_cases e : s.nextId = j <;> simp [e]

theorem node_info_lt {s : SState} (hn : NodesCore s) {n : AoNode} (h : n ∈ s.prob) :
    n.info < s.nextId := by
  have := hn.probAdm h
  apply Nat.lt_of_not_le
  intro hle
  rw [hn.infoFresh _ hle] at this
  cases this

theorem wo_info_lt {s : SState} (hn : NodesCore s) {n : WoNode} (h : n ∈ s.wo) :
    n.info < s.nextId := by
  have := hn.woAdm n.info (by rw [hn.woOwn n h]; rfl)
  apply Nat.lt_of_not_le
  intro hle
  rw [hn.infoFresh _ hle] at this
  cases this

/-- A time stamp taken now is not expired if some time stamp of the past is not. -/
theorem expiredTs_fresh {d va : Option Nat} {now ts : Nat} (hva : ∀ v, va = some v → v ≤ now)
    (hts : ts ≤ now) (h : expiredTs d va ts now = false) : expiredTs d va now now = false := by
  unfold expiredTs at h ⊢
  rw [Bool.or_eq_false_iff] at h ⊢
  refine ⟨?_, ?_⟩
  · cases hv : va with
    | none => rfl
    | some v =>
      have := hva v hv
      simp only [decide_eq_false_iff_not, Nat.not_lt]
      exact this
  · cases hd : d with
    | none => rfl
    | some d' =>
      have h2 := h.2
      rw [hd] at h2
      simp only [decide_eq_false_iff_not, Nat.not_le] at h2 ⊢
      omega

theorem NoExp.of_frame_sub {p : Params} {s s' : SState} (h : NoExp p s) (hf : Frame0 s s')
    (hs : Sub s s') : NoExp p s' := by
  refine ⟨?_, ?_⟩
  · intro n hn
    rw [hf.va, hf.la, hf.now]
    exact h.ao n (hs.prob n hn)
  · intro n hn
    rw [hf.va, hf.lm, hf.now]
    exact h.wo n (hs.wo n hn)

theorem NoExp.of_frame_subc {p : Params} {s s' : SState} {key info : Nat} {hash : UInt64}
    (h : NoExp p s) (hf : Frame0 s s') (hs : SubC key hash info s s')
    (hao : expiredTs p.tti s.va (getInfo s info).la s.now = false)
    (hwo : expiredTs p.ttl s.va (getInfo s info).lm s.now = false) : NoExp p s' := by
  refine ⟨?_, ?_⟩
  · intro n hn
    rw [hf.va, hf.la, hf.now]
    rcases hs.prob n hn with h1 | ⟨_, _, h1⟩
    · exact h.ao n h1
    · rw [h1]; exact hao
  · intro n hn
    rw [hf.va, hf.lm, hf.now]
    rcases hs.wo n hn with h1 | h1
    · exact h.wo n h1
    · rw [h1]; exact hwo

theorem sum_take_pos_ne_nil {l : List Nat} {n : Nat} (h : 0 < (l.take n).sum) : l ≠ [] := by
  intro e; rw [e] at h; simp at h

/-- **The admission decision of the concurrent cache, state level.**  In a quiescent calm
state `s`, the insert of a new key `k` that is not oversized and finds no room, followed by a
maintenance run: with `n` the length of the shortest prefix of the access order whose weights
cover `weigh k v`, if it exists and the popularity estimate of `k` read in `s` exceeds the
summed estimates of that prefix, exactly the keys of that prefix leave the map, `k` stays, and
the access order is the rest followed by `k`; otherwise the candidate is dropped and the map
and the access order are what they were. -/
theorem insert_sync_calm {p : Params} (hq : NoQuirks p) (hsm : SmallSketch p) {cap : Nat}
    (hcap : p.cap = some cap) {s : SState} (hi : AInv p s) (hc : CalmS p cap s) (k v : Nat)
    (hnew : AL.get? s.map k = none) (hfit : p.weigh k v ≤ cap)
    (hroom : s.ws + p.weigh k v > cap) :
    (∀ n, shortestPre (p.weigh k v) (probWeights s) = some n →
      s.sk.frequency (p.hash k) > ((probFreqs s).take n).sum →
      (syncRun p (insert p s k v)).map =
        eraseKeys (AL.put s.map k (candVE s v)) ((s.prob.take n).map (·.key)) ∧
      ∃ node : AoNode, node.key = k ∧
        (syncRun p (insert p s k v)).prob = s.prob.drop n ++ [node]) ∧
    ((¬ ∃ n, shortestPre (p.weigh k v) (probWeights s) = some n ∧
        s.sk.frequency (p.hash k) > ((probFreqs s).take n).sum) →
      (syncRun p (insert p s k v)).map = AL.erase (AL.put s.map k (candVE s v)) k ∧
      (syncRun p (insert p s k v)).prob = s.prob) := by
  have hnc := hi.top.nodes.toNodesCore
  have hne := hc.noExp hnc
  have hins := insert_fresh p hi.q v hnew
  have hi2 : AInv p (insert p s k v) := by
    have := step_ainv hq hsm hi (.ins k v)
    rw [step_fst p s _ hi.top.nofault] at this
    exact this
  -- the state after the map step
  have c_info := getInfo_withCand p s k v
  have c_map : (withCand p s k v).map = AL.put s.map k (candVE s v) := rfl
  have c_prob : (withCand p s k v).prob = s.prob := rfl
  have c_va : (withCand p s k v).va = s.va := rfl
  have c_now : (withCand p s k v).now = s.now := rfl
  have c_sk : (withCand p s k v).sk = s.sk := rfl
  have c_ws : (withCand p s k v).ws = s.ws := rfl
  have c_wq : (withCand p s k v).writeQ = [] := hc.writeQ
  have c_rq : (withCand p s k v).readQ = [] := hc.readQ
  have hne_c : NoExp p (withCand p s k v) := by
    refine ⟨?_, ?_⟩
    · intro n hn
      have hlt := node_info_lt hnc (show n ∈ s.prob from hn)
      rw [c_info, if_neg (by omega)]
      exact hne.ao n hn
    · intro n hn
      have hlt := wo_info_lt hnc (show n ∈ s.wo from hn)
      rw [c_info, if_neg (by omega)]
      exact hne.wo n hn
  have hQ := housekeepW_quiet hcap (s := withCand p s k v) hc.readQ hc.writeQ hne_c hc.ws
    hi.top.sk.skOff
  generalize withCand p s k v = c at hins c_info c_map c_prob c_va c_now c_sk c_ws c_wq c_rq hne_c hQ
  generalize housekeepW p c = H at hins hQ
  have hHw : H.writeQ = [] := by rw [hQ.writeQ]; exact c_wq
  rw [hHw, List.nil_append] at hins
  rw [hins] at hi2 ⊢
  have hwpos : 0 < p.weigh k v := by have := hc.ws; omega
  -- the queued write, applied to a state `g` that agrees with `H`
  have key : ∀ g : SState, g.map = H.map → g.infos = H.infos → g.prob = H.prob → g.wo = H.wo →
      g.va = H.va → g.now = H.now → g.cws = H.ws → g.cec = H.ec → g.sk = H.sk →
      g.nextId = H.nextId → g.fault = H.fault →
      (∀ n, shortestPre (p.weigh k v) (probWeights s) = some n →
        s.sk.frequency (p.hash k) > ((probFreqs s).take n).sum →
        (handleUpsert p g k (p.hash k) (candVE s v) 0 (p.weigh k v)).map =
          eraseKeys (AL.put s.map k (candVE s v)) ((s.prob.take n).map (·.key)) ∧
        (∃ node : AoNode, node.key = k ∧
          (handleUpsert p g k (p.hash k) (candVE s v) 0 (p.weigh k v)).prob =
            s.prob.drop n ++ [node]) ∧
        NoExp p (handleUpsert p g k (p.hash k) (candVE s v) 0 (p.weigh k v)) ∧
        (handleUpsert p g k (p.hash k) (candVE s v) 0 (p.weigh k v)).cws ≤ cap) ∧
      ((¬ ∃ n, shortestPre (p.weigh k v) (probWeights s) = some n ∧
          s.sk.frequency (p.hash k) > ((probFreqs s).take n).sum) →
        (handleUpsert p g k (p.hash k) (candVE s v) 0 (p.weigh k v)).map =
          AL.erase (AL.put s.map k (candVE s v)) k ∧
        (handleUpsert p g k (p.hash k) (candVE s v) 0 (p.weigh k v)).prob = s.prob ∧
        NoExp p (handleUpsert p g k (p.hash k) (candVE s v) 0 (p.weigh k v)) ∧
        (handleUpsert p g k (p.hash k) (candVE s v) 0 (p.weigh k v)).cws ≤ cap) := by
    intro g gm gi gp gw gva gnow gcws gcec gsk gnid gf
    have hgm : g.map = AL.put s.map k (candVE s v) := by rw [gm, hQ.map, c_map]
    have hgp : g.prob = s.prob := by rw [gp, hQ.prob, c_prob]
    have hgva : g.va = s.va := by rw [gva, hQ.va, c_va]
    have hgnow : g.now = s.now := by rw [gnow, hQ.now, c_now]
    have hgI : ∀ j, getInfo g j = if s.nextId = j then candInfo p s k v else getInfo s j := by
      intro j; rw [getInfo_congr gi, getInfo_congr hQ.infos, c_info]
    have hgf : ∀ h, g.sk.frequency h = s.sk.frequency h := by
      intro h; rw [gsk, hQ.freq, c_sk]
    have hgc : g.cws = s.ws := by rw [gcws, hQ.ws, c_ws]
    -- invariants of `g`
    have hu := hi2.top
    have hsafe : Safe g := by
      refine ⟨⟨hu.nodes.toNodesCore.congr (s' := g) ?_ ?_ ?_ ?_ ?_ ?_, ?_⟩, ?_⟩
      · intro j; rw [getInfo_congr (s := { H with writeQ := [candOp p s k v] }) gi]
      · intro j; rw [getInfo_congr (s := { H with writeQ := [candOp p s k v] }) gi]
      · intro j; rw [getInfo_congr (s := { H with writeQ := [candOp p s k v] }) gi]
      · exact gp ▸ List.Perm.refl _
      · exact gw ▸ List.Perm.refl _
      · exact Nat.le_of_eq gnid.symm
      · rw [gcec, gp]; exact hu.nodes.count
      · rw [gf]; exact hu.nofault
    have hkn : (AL.keys g.map).Nodup := by rw [gm]; exact hu.map.kn
    have hcand : AL.get? g.map k = some (candVE s v) := by rw [hgm]; exact AL.get?_put_self _ _ _
    have hna : (getInfo g (candVE s v).info).admitted = false := by
      rw [hgI, if_pos (show s.nextId = (candVE s v).info from rfl)]; rfl
    have hcur : AllCur g g.prob := by
      rw [hgp]
      intro n hn
      obtain ⟨e, he, hei⟩ := hc.cur n hn
      refine ⟨e, ?_, hei⟩
      have hne' : k ≠ n.key := by
        intro e'; rw [← e', hnew] at he; cases he
      rw [hgm, AL.get?_put_ne _ hne']
      exact he
    have hW : probWeights g = probWeights s := by
      unfold probWeights
      rw [hgp]
      apply List.map_congr_left
      intro n hn
      have := node_info_lt hnc hn
      rw [hgI, if_neg (by omega)]
    have hF : probFreqs g = probFreqs s := by
      unfold probFreqs
      rw [hgp]
      exact List.map_congr_left (fun n _ => hgf n.hash)
    have hneg : NoExp p g := by
      refine ⟨?_, ?_⟩
      · intro n hn
        rw [gp, hQ.prob] at hn
        rw [gva, hQ.va, getInfo_congr gi, getInfo_congr hQ.infos, gnow, hQ.now]
        exact hne_c.ao n hn
      · intro n hn
        rw [gw, hQ.wo] at hn
        rw [gva, hQ.va, getInfo_congr gi, getInfo_congr hQ.infos, gnow, hQ.now]
        exact hne_c.wo n hn
    obtain ⟨adm, rej⟩ := handleUpsert_cand hq hcap (s := g) (k := k) (v := v) (ve := candVE s v)
      0 (p.weigh k v) hsafe hkn hcand rfl hna hcur (by rw [hgc]; exact hroom) hfit
    rw [hW, hF, hgf, hgm, hgp, hgc] at adm
    rw [hW, hF, hgf, hgm, hgp, hgc] at rej
    have hfr := handleUpsert_frame0 p g k (p.hash k) (candVE s v) 0 (p.weigh k v)
    have hsc := handleUpsert_subc p g k (p.hash k) (candVE s v) 0 (p.weigh k v)
    refine ⟨?_, ?_⟩
    · intro n hn1 hn2
      obtain ⟨m1, m2, m3⟩ := adm n hn1 hn2
      obtain ⟨_, hsum, _⟩ := (shortestPre_eq_some_iff _ _ _).mp hn1
      refine ⟨m1, ?_, ?_, ?_⟩
      · obtain ⟨node, a1, _, a3⟩ := m2
        exact ⟨node, a1, a3⟩
      · -- a resident exists, so the fresh time stamps are not expired either
        have hnil : s.prob ≠ [] := by
          intro e
          have : probWeights s = [] := by unfold probWeights; rw [e]; rfl
          exact sum_take_pos_ne_nil (Nat.lt_of_lt_of_le hwpos hsum) this
        obtain ⟨m, hm⟩ := List.exists_mem_of_ne_nil _ hnil
        obtain ⟨e, he, hei⟩ := hc.cur m hm
        have hl := hc.live _ _ he
        unfold isExpiredInfo at hl
        rw [Bool.or_eq_false_iff] at hl
        refine hneg.of_frame_subc hfr hsc ?_ ?_
        · rw [hgva, hgnow, hgI, if_pos (show s.nextId = (candVE s v).info from rfl)]
          exact expiredTs_fresh hi.ts.va (hi.ts.la _) hl.2
        · rw [hgva, hgnow, hgI, if_pos (show s.nextId = (candVE s v).info from rfl)]
          exact expiredTs_fresh hi.ts.va (hi.ts.lm _) hl.1
      · rw [m3]
        have := hc.ws
        omega
    · intro hno
      obtain ⟨r1, r2, r3, r4⟩ := rej hno
      refine ⟨r1, r2, hneg.of_frame_sub hfr r4, ?_⟩
      rw [r3]; exact hc.ws
  have hr : ({ H with writeQ := [candOp p s k v] } : SState).readQ = [] := by
    show H.readQ = []
    rw [hQ.readQ]; exact c_rq
  obtain ⟨kadm, krej⟩ := key
    { { H with writeQ := [candOp p s k v] } with cec := H.ec, cws := H.ws, writeQ := [] }
    rfl rfl rfl rfl rfl rfl rfl rfl rfl rfl rfl
  refine ⟨?_, ?_⟩
  · intro n hn1 hn2
    obtain ⟨m1, m2, m3, m4⟩ := kadm n hn1 hn2
    obtain ⟨e1, e2⟩ := syncRun_one hcap (s := { H with writeQ := [candOp p s k v] })
      (candOp p s k v) hr rfl m3 m4
    exact ⟨e1.trans m1, by obtain ⟨node, a1, a2⟩ := m2; exact ⟨node, a1, e2.trans a2⟩⟩
  · intro hno
    obtain ⟨m1, m2, m3, m4⟩ := krej hno
    obtain ⟨e1, e2⟩ := syncRun_one hcap (s := { H with writeQ := [candOp p s k v] })
      (candOp p s k v) hr rfl m3 m4
    exact ⟨e1.trans m1, e2.trans m2⟩

/-! ### snapshots versus states -/

theorem snapshot_entries_all {p : Params} {s : SState} (f : EntryView → Bool) :
    (snapshot p s).entries.all f = true ↔
      ∀ k e, (k, e) ∈ s.map → f (entryView s (k, e)) = true := by
  simp only [snapshot, List.all_eq_true, mem_sortBy, List.mem_map]
  constructor
  · intro h k e hm; exact h _ ⟨(k, e), hm, rfl⟩
  · rintro h x ⟨⟨k, e⟩, hm, rfl⟩; exact h k e hm

/-- Looking a key up in a sorted list of per-entry records. -/
theorem find?_sortBy_map {α β : Type} (key : α → Nat) (g : Nat × β → α)
    (hg : ∀ kv, key (g kv) = kv.1) (m : List (Nat × β)) (hn : (AL.keys m).Nodup) (k : Nat) :
    (sortBy key (m.map g)).find? (fun x => key x == k) =
      (AL.get? m k).map (fun e => g (k, e)) := by
  have hperm := sortBy_perm key (m.map g)
  have hkeys : ((sortBy key (m.map g)).map key).Nodup := by
    refine ((hperm.map key).nodup_iff).mpr ?_
    have : (m.map g).map key = AL.keys m := by
      rw [AL.keys_eq_map, List.map_map]
      exact List.map_congr_left (fun kv _ => hg kv)
    rw [this]; exact hn
  cases hget : AL.get? m k with
  | none =>
    simp only [Option.map_none]
    rw [List.find?_eq_none]
    intro x hx
    rw [mem_sortBy, List.mem_map] at hx
    obtain ⟨kv, hkv, rfl⟩ := hx
    rw [hg]
    intro hk
    have hk' : kv.1 = k := by simpa using hk
    have : k ∈ AL.keys m := by
      rw [AL.keys_eq_map]; exact List.mem_map.mpr ⟨kv, hkv, hk'⟩
    rw [← AL.get?_isSome_iff, hget] at this
    cases this
  | some e =>
    simp only [Option.map_some]
    have hmem : g (k, e) ∈ sortBy key (m.map g) := by
      rw [mem_sortBy]; exact List.mem_map.mpr ⟨(k, e), AL.mem_of_get? hget, rfl⟩
    have := find?_key_of_nodup key _ hkeys hmem
    rw [hg] at this
    exact this

theorem weightOfKey_snapshot {p : Params} {s : SState} (hkn : (AL.keys s.map).Nodup) (k : Nat) :
    weightOfKey (snapshot p s) k =
      match AL.get? s.map k with
      | some ve => (getInfo s ve.info).weight
      | none => 0 := by
  unfold weightOfKey
  have := find?_sortBy_map (·.key) (entryView s) (fun _ => rfl) s.map hkn k
  simp only [snapshot]
  rw [this]
  cases AL.get? s.map k <;> simp [entryView]

theorem freqOfKey_snapshot {p : Params} {s : SState} (hkn : (AL.keys s.map).Nodup) (k : Nat) :
    freqOfKey (snapshot p s) k =
      match AL.get? s.map k with
      | some _ => s.sk.frequency (p.hash k)
      | none => 0 := by
  unfold freqOfKey
  have := find?_sortBy_map (α := Nat × Nat) (·.1)
    (fun kv => (kv.1, s.sk.frequency (p.hash kv.1))) (fun _ => rfl) s.map hkn k
  simp only [snapshot]
  rw [this]
  cases AL.get? s.map k <;> simp

theorem lruOrder_snapshot (p : Params) (s : SState) :
    lruOrder (snapshot p s) = s.prob.map (·.key) := by
  simp [lruOrder, snapshot, List.map_map, Function.comp_def]

theorem mem_keysOf_snapshot (p : Params) (s : SState) (k : Nat) :
    k ∈ keysOf (snapshot p s) ↔ ∃ e, AL.get? s.map k = some e := by
  simp only [keysOf, snapshot, List.mem_map, mem_sortBy]
  constructor
  · rintro ⟨ev, ⟨kv, hkv, rfl⟩, rfl⟩
    have : kv.1 ∈ AL.keys s.map := by
      rw [AL.keys_eq_map]; exact List.mem_map.mpr ⟨kv, hkv, rfl⟩
    rw [← AL.get?_isSome_iff] at this
    cases h : AL.get? s.map kv.1 with
    | none => rw [h] at this; cases this
    | some e => exact ⟨e, by simpa [entryView] using h⟩
  · rintro ⟨e, he⟩
    exact ⟨entryView s (k, e), ⟨(k, e), AL.mem_of_get? he, rfl⟩, rfl⟩

theorem allCur_of_snapshot {p : Params} {s : SState}
    (h : (snapshot p s).prob.all (·.current) = true) : AllCur s s.prob := by
  intro n hn
  simp only [snapshot, List.all_eq_true, List.mem_map] at h
  have := h _ ⟨n, hn, rfl⟩
  cases hg : AL.get? s.map n.key with
  | none => rw [hg] at this; cases this
  | some e =>
    rw [hg] at this
    exact ⟨e, rfl, eq_of_beq this⟩

theorem live_of_entryLiveAt {p : Params} {s : SState} {k : Nat} {ve : VE}
    (h : entryLiveAt p.ttl p.tti s.now s.va (entryView s (k, ve)) = true) :
    isExpiredInfo p s (getInfo s ve.info) s.now = false := by
  unfold entryLiveAt entryView at h
  unfold isExpiredInfo expiredTs
  simp only [Bool.and_eq_true, Bool.not_eq_true'] at h
  obtain ⟨⟨h1, h2⟩, h3⟩ := h
  unfold expiredAt at h1 h2
  cases hva : s.va with
  | none =>
    cases httl : p.ttl <;> cases htti : p.tti <;> simp_all
  | some va =>
    rw [hva] at h3
    simp only [Bool.and_eq_true, Bool.not_eq_true', decide_eq_false_iff_not] at h3
    cases httl : p.ttl <;> cases htti : p.tti <;> simp_all

theorem calmS_of_snapshot {p : Params} {cap : Nat} {s : SState}
    (hcalm : calm cap p.ttl p.tti (snapshot p s) = true) (hr : (snapshot p s).rq = 0)
    (hw : (snapshot p s).wq = 0) : CalmS p cap s := by
  simp only [calm, Bool.and_eq_true, decide_eq_true_eq] at hcalm
  obtain ⟨⟨⟨hws, hlive⟩, _⟩, hcur⟩ := hcalm
  rw [snapshot_entries_all] at hlive
  refine ⟨List.length_eq_zero_iff.mp hr, List.length_eq_zero_iff.mp hw, hws,
    allCur_of_snapshot hcur, ?_⟩
  intro k ve he
  exact live_of_entryLiveAt (hlive k ve (AL.mem_of_get? he))

/-- The oracle's prediction, read off a state all of whose nodes are current. -/
theorem predictAdmission_snapshot {p : Params} {s : SState} (hkn : (AL.keys s.map).Nodup)
    (hcur : AllCur s s.prob) (hh : PH p s) (w f : Nat) :
    predictAdmission (snapshot p s) w f =
      match shortestPre w (probWeights s) with
      | none => none
      | some n =>
        if f > ((probFreqs s).take n).sum then some ((s.prob.take n).map (·.key)) else none := by
  unfold predictAdmission
  rw [shortestPrefix_eq, lruOrder_snapshot]
  have hW : (s.prob.map (·.key)).map (weightOfKey (snapshot p s)) = probWeights s := by
    unfold probWeights
    rw [List.map_map]
    apply List.map_congr_left
    intro n hn
    obtain ⟨e, he, hei⟩ := hcur n hn
    simp only [Function.comp, weightOfKey_snapshot hkn, he, hei]
  have hF : (s.prob.map (·.key)).map (freqOfKey (snapshot p s)) = probFreqs s := by
    unfold probFreqs
    rw [List.map_map]
    apply List.map_congr_left
    intro n hn
    obtain ⟨e, he, _⟩ := hcur n hn
    simp only [Function.comp, freqOfKey_snapshot hkn, he, hh n hn]
  rw [hW, Nat.sub_zero]
  cases shortestPre w (probWeights s) with
  | none => rfl
  | some n =>
    simp only [Option.map_some, List.nil_append]
    rw [← hF, List.map_take, List.map_take]

/-! ### the C13 trace oracle on model traces -/

/-- The check the C13 oracle performs around `insert` + `sync` holds for the model: the
snapshot after is what the closed formula predicts from the quiescent snapshot of `s` and the
estimate of `k` read in `s`. -/
theorem admissionOk_model {p : Params} (hq : NoQuirks p) (hsm : SmallSketch p) {cap : Nat}
    (hcap : p.cap = some cap) {s : SState} (hi : AInv p s) (hr : (snapshot p s).rq = 0)
    (hw : (snapshot p s).wq = 0) (k v : Nat) :
    admissionOk cap p.ttl p.tti p.weigh (snapshot p s) k v (s.sk.frequency (p.hash k))
      (snapshot p (syncRun p (insert p s k v))) = true := by
  unfold admissionOk
  dsimp only
  cases happ : (!(keysOf (snapshot p s)).contains k && calm cap p.ttl p.tti (snapshot p s) &&
      decide (p.weigh k v ≤ cap) && decide ((snapshot p s).ws + p.weigh k v > cap)) with
  | false => rfl
  | true =>
  simp only [Bool.not_true, Bool.false_or]
  simp only [Bool.and_eq_true, Bool.not_eq_true', decide_eq_true_eq] at happ
  obtain ⟨⟨⟨hfresh, hcalm⟩, hle⟩, hgt⟩ := happ
  have hnew : AL.get? s.map k = none := by
    cases hg : AL.get? s.map k with
    | none => rfl
    | some e =>
      have : k ∈ keysOf (snapshot p s) := (mem_keysOf_snapshot p s k).mpr ⟨e, hg⟩
      rw [← List.contains_iff_mem, hfresh] at this; cases this
  have hc := calmS_of_snapshot hcalm hr hw
  have hkn := hi.top.map.kn
  have hkn2 : (AL.keys (AL.put s.map k (candVE s v))).Nodup := AL.nodup_put _ _ hkn
  obtain ⟨hadm, hrej⟩ := insert_sync_calm hq hsm hcap hi hc k v hnew hle hgt
  rw [predictAdmission_snapshot hkn hc.cur hi.hash.prob]
  have hrejected : (¬ ∃ n, shortestPre (p.weigh k v) (probWeights s) = some n ∧
      s.sk.frequency (p.hash k) > ((probFreqs s).take n).sum) →
      sameKeys (keysOf (snapshot p (syncRun p (insert p s k v)))) (keysOf (snapshot p s)) = true := by
    intro hno
    rw [sameKeys_iff]
    intro x
    rw [mem_keysOf_snapshot, mem_keysOf_snapshot, (hrej hno).1, AL.get?_erase k x hkn2]
    by_cases hx : k = x
    · subst hx
      rw [if_pos rfl, hnew]
    · rw [if_neg hx, AL.get?_put_ne _ hx]
  cases hsp : shortestPre (p.weigh k v) (probWeights s) with
  | none =>
    dsimp only
    apply hrejected
    rintro ⟨n, h1, _⟩
    rw [hsp] at h1; cases h1
  | some n =>
    dsimp only
    by_cases hf : s.sk.frequency (p.hash k) > ((probFreqs s).take n).sum
    · rw [if_pos hf]
      dsimp only
      obtain ⟨hmap, _⟩ := hadm n hsp hf
      rw [sameKeys_iff]
      intro x
      rw [mem_keysOf_snapshot, hmap, get?_eraseKeys hkn2]
      simp only [List.mem_cons, List.mem_filter, Bool.not_eq_true', mem_keysOf_snapshot]
      -- no victim has the candidate's key
      have hkv : k ∉ (s.prob.take n).map (·.key) := by
        intro hin
        obtain ⟨m, hm, hmk⟩ := List.mem_map.mp hin
        obtain ⟨e, he, _⟩ := hc.cur m (List.mem_of_mem_take hm)
        rw [hmk, hnew] at he; cases he
      by_cases hx : x = k
      · subst hx
        rw [if_neg hkv, AL.get?_put_self]
        exact ⟨fun _ => Or.inl rfl, fun _ => ⟨_, rfl⟩⟩
      · have hx' : k ≠ x := fun e => hx e.symm
        by_cases hin : x ∈ (s.prob.take n).map (·.key)
        · rw [if_pos hin]
          constructor
          · rintro ⟨e', he'⟩; cases he'
          · rintro (h | ⟨_, h⟩)
            · exact absurd h hx
            · rw [← List.contains_iff_mem] at hin
              rw [hin] at h; cases h
        · rw [if_neg hin, AL.get?_put_ne _ hx']
          constructor
          · intro h
            refine Or.inr ⟨h, ?_⟩
            cases hcn : ((s.prob.take n).map (·.key)).contains x with
            | false => rfl
            | true => exact absurd (List.contains_iff_mem.mp hcn) hin
          · rintro (h | ⟨h, _⟩)
            · exact absurd h hx
            · exact h
    · rw [if_neg hf]
      dsimp only
      apply hrejected
      rintro ⟨n', h1, h2⟩
      rw [hsp] at h1; cases h1
      exact hf h2

theorem run_cons (p : Params) (s : SState) (op : Op) (rest : List Op) :
    run p s (op :: rest) = (op, (step p s op).2) :: run p (step p s op).1 rest := rfl

/-- One step of a run from a state satisfying the invariant. -/
theorem run_cons_ok {p : Params} (hq : NoQuirks p) (hsm : SmallSketch p) {s : SState}
    (hi : AInv p s) (op : Op) (rest : List Op) :
    run p s (op :: rest) = (op, (rawStep p s op).2) :: run p (rawStep p s op).1 rest ∧
    AInv p (rawStep p s op).1 := by
  have h2 := step_ainv hq hsm hi op
  have := step_ok p s op hi.top.nofault h2.top.nofault
  rw [run_cons, this]
  rw [this] at h2
  exact ⟨rfl, h2⟩

theorem run_eq_cons {p : Params} (hq : NoQuirks p) (hsm : SmallSketch p) {s : SState}
    (hi : AInv p s) {h : List Op} {x : Op × Obs} {t : List (Op × Obs)} (e : run p s h = x :: t) :
    ∃ op rest, h = op :: rest ∧ x = (op, (rawStep p s op).2) ∧
      t = run p (rawStep p s op).1 rest ∧ AInv p (rawStep p s op).1 := by
  cases h with
  | nil => cases e
  | cons op rest =>
    obtain ⟨e1, h2⟩ := run_cons_ok hq hsm hi op rest
    rw [e1] at e
    obtain ⟨e2, e3⟩ := List.cons.inj e
    exact ⟨op, rest, rfl, e2.symm, e3.symm, h2⟩

/-- The C13 walk over a model trace: every window
`sync, snap, freq k, ins k v, [snap,] sync, snap` passes. -/
theorem admitC13Sync_run {p : Params} (hq : NoQuirks p) (hsm : SmallSketch p) {cap : Nat}
    (hcap : p.cap = some cap) :
    ∀ (n : Nat) (h : List Op), h.length ≤ n → ∀ (s : SState), AInv p s →
      admitC13Sync cap p.ttl p.tti p.weigh (run p s h) = true := by
  intro n
  induction n with
  | zero =>
    intro h hl s _
    have : h = [] := List.length_eq_zero_iff.mp (Nat.le_zero.mp hl)
    subst this
    simp [run, admitC13Sync]
  | succ n ih =>
    intro h hl s hi
    cases h with
    | nil => simp [run, admitC13Sync]
    | cons op rest =>
      have hlr : rest.length ≤ n := by simpa using hl
      obtain ⟨hrun, hi1⟩ := run_cons_ok hq hsm hi op rest
      rw [hrun]
      unfold admitC13Sync
      split
      · -- sync, snap, freq, ins, sync, snap
        rename_i before k f k' v after rest' heq
        obtain ⟨e1, e2⟩ := List.cons.inj heq
        have hop : op = .sync := (Prod.mk.inj e1).1
        subst hop
        obtain ⟨op2, r2, hr2, hx2, ht2, hi2⟩ := run_eq_cons hq hsm hi1 e2
        have hop2 : op2 = .snap := (Prod.mk.inj hx2).1.symm
        subst hop2
        have hbefore : before = snapshot p (syncRun p s) := Obs.snap.inj (Prod.mk.inj hx2).2
        obtain ⟨op3, r3, hr3, hx3, ht3, hi3⟩ := run_eq_cons hq hsm hi2 ht2.symm
        have hop3 : op3 = .freq k := (Prod.mk.inj hx3).1.symm
        subst hop3
        have hf : f = (syncRun p s).sk.frequency (p.hash k) := Obs.freq.inj (Prod.mk.inj hx3).2
        obtain ⟨op4, r4, hr4, hx4, ht4, hi4⟩ := run_eq_cons hq hsm hi3 ht3.symm
        have hop4 : op4 = .ins k' v := (Prod.mk.inj hx4).1.symm
        subst hop4
        obtain ⟨op5, r5, hr5, hx5, ht5, hi5⟩ := run_eq_cons hq hsm hi4 ht4.symm
        have hop5 : op5 = .sync := (Prod.mk.inj hx5).1.symm
        subst hop5
        obtain ⟨op6, r6, hr6, hx6, ht6, hi6⟩ := run_eq_cons hq hsm hi5 ht5.symm
        have hop6 : op6 = .snap := (Prod.mk.inj hx6).1.symm
        subst hop6
        have hafter : after = snapshot p (syncRun p (insert p (syncRun p s) k' v)) :=
          Obs.snap.inj (Prod.mk.inj hx6).2
        subst hr2 hr3 hr4 hr5 hr6
        rw [Bool.and_eq_true]
        refine ⟨?_, ?_⟩
        · by_cases hk : k = k'
          · subst hk
            cases hquiet : (before.rq == 0 && before.wq == 0 && after.rq == 0 && after.wq == 0) with
            | false => simp
            | true =>
              simp only [Bool.and_eq_true, beq_iff_eq] at hquiet
              have hadm := admissionOk_model hq hsm hcap (s := syncRun p s) hi1
                (by rw [← hbefore]; exact hquiet.1.1.1) (by rw [← hbefore]; exact hquiet.1.1.2) k v
              rw [hbefore, hf, hafter, hadm]
              simp
          · simp [hk]
        · have : ((Op.sync, Obs.ok) :: (Op.snap, Obs.snap after) :: rest') =
              run p (insert p (syncRun p s) k' v) (.sync :: .snap :: r6) := by
            have hi4' : AInv p (insert p (syncRun p s) k' v) := hi4
            have hi5' : AInv p (syncRun p (insert p (syncRun p s) k' v)) := hi5
            rw [(run_cons_ok hq hsm hi4' _ _).1]
            show _ = _ :: run p (syncRun p (insert p (syncRun p s) k' v)) (.snap :: r6)
            rw [(run_cons_ok hq hsm hi5' _ _).1, hafter, ht6]
            rfl
          rw [this]
          refine ih _ ?_ _ hi4
          simp only [List.length_cons] at hlr ⊢
          omega
      · -- sync, snap, freq, ins, snap, sync, snap
        rename_i before k f k' v mid after rest' heq
        obtain ⟨e1, e2⟩ := List.cons.inj heq
        have hop : op = .sync := (Prod.mk.inj e1).1
        subst hop
        obtain ⟨op2, r2, hr2, hx2, ht2, hi2⟩ := run_eq_cons hq hsm hi1 e2
        have hop2 : op2 = .snap := (Prod.mk.inj hx2).1.symm
        subst hop2
        have hbefore : before = snapshot p (syncRun p s) := Obs.snap.inj (Prod.mk.inj hx2).2
        obtain ⟨op3, r3, hr3, hx3, ht3, hi3⟩ := run_eq_cons hq hsm hi2 ht2.symm
        have hop3 : op3 = .freq k := (Prod.mk.inj hx3).1.symm
        subst hop3
        have hf : f = (syncRun p s).sk.frequency (p.hash k) := Obs.freq.inj (Prod.mk.inj hx3).2
        obtain ⟨op4, r4, hr4, hx4, ht4, hi4⟩ := run_eq_cons hq hsm hi3 ht3.symm
        have hop4 : op4 = .ins k' v := (Prod.mk.inj hx4).1.symm
        subst hop4
        obtain ⟨op5, r5, hr5, hx5, ht5, hi5⟩ := run_eq_cons hq hsm hi4 ht4.symm
        have hop5 : op5 = .snap := (Prod.mk.inj hx5).1.symm
        subst hop5
        have hmid : mid = snapshot p (insert p (syncRun p s) k' v) :=
          Obs.snap.inj (Prod.mk.inj hx5).2
        obtain ⟨op6, r6, hr6, hx6, ht6, hi6⟩ := run_eq_cons hq hsm hi5 ht5.symm
        have hop6 : op6 = .sync := (Prod.mk.inj hx6).1.symm
        subst hop6
        obtain ⟨op7, r7, hr7, hx7, ht7, hi7⟩ := run_eq_cons hq hsm hi6 ht6.symm
        have hop7 : op7 = .snap := (Prod.mk.inj hx7).1.symm
        subst hop7
        have hafter : after = snapshot p (syncRun p (insert p (syncRun p s) k' v)) :=
          Obs.snap.inj (Prod.mk.inj hx7).2
        subst hr2 hr3 hr4 hr5 hr6 hr7
        rw [Bool.and_eq_true]
        refine ⟨?_, ?_⟩
        · by_cases hk : k = k'
          · subst hk
            cases hquiet : (before.rq == 0 && before.wq == 0 && after.rq == 0 && after.wq == 0) with
            | false => simp
            | true =>
              simp only [Bool.and_eq_true, beq_iff_eq] at hquiet
              have hadm := admissionOk_model hq hsm hcap (s := syncRun p s) hi1
                (by rw [← hbefore]; exact hquiet.1.1.1) (by rw [← hbefore]; exact hquiet.1.1.2) k v
              rw [hbefore, hf, hafter, hadm]
              simp
          · simp [hk]
        · have : ((Op.snap, Obs.snap mid) :: (Op.sync, Obs.ok) :: (Op.snap, Obs.snap after) :: rest') =
              run p (insert p (syncRun p s) k' v) (.snap :: .sync :: .snap :: r7) := by
            have hi4' : AInv p (insert p (syncRun p s) k' v) := hi4
            have hi6' : AInv p (syncRun p (insert p (syncRun p s) k' v)) := hi6
            rw [(run_cons_ok hq hsm hi4' _ _).1]
            show _ = _ :: run p (insert p (syncRun p s) k' v) (.sync :: .snap :: r7)
            rw [(run_cons_ok hq hsm hi4' _ _).1]
            show _ = _ :: _ :: run p (syncRun p (insert p (syncRun p s) k' v)) (.snap :: r7)
            rw [(run_cons_ok hq hsm hi6' _ _).1, hmid, hafter, ht7]
            rfl
          rw [this]
          refine ih _ ?_ _ hi4
          simp only [List.length_cons] at hlr ⊢
          omega
      · rename_i x t heq
        obtain ⟨_, e2⟩ := List.cons.inj heq
        rw [← e2]
        exact ih rest hlr _ hi1
      · rfl

/-- **C13 on traces** (concurrent cache driven by one thread): the oracle accepts every trace
of the model. -/
theorem oracleC13_trace {p : Params} (hq : NoQuirks p) (hsm : SmallSketch p) (h : List Op) :
    oracleC13 .sync p.cap p.ttl p.tti p.weigh (trace p h) = true := by
  unfold oracleC13 trace
  cases hcap : p.cap with
  | none => rfl
  | some cap =>
    dsimp only
    exact admitC13Sync_run hq hsm hcap h.length h (Nat.le_refl _) {} (init_ainv p)

end Admit
end Sync
end MiniMoka
