/-
  Every execution of the finest many-thread model `ConcF` (`MiniMoka/ConcF.lean`: every map
  access of a maintenance run is its own step, other threads' `ConcS` steps in between)
  projects to an execution that model R (`MiniMoka/ConcR.lean`) accepts.
  Theorems: `Props/C02ConcF.lean`.

  Part 1 is generic: a transition system with a per-event projection to R events (`Sys`) and
  the facts about the projected trace that only depend on the shape of the per-event
  projection (who was invoked as what, in which order the map steps occur, what the responses
  carry).  Part 2 instantiates it with `ConcF` (current code, `Variant.good`) and proves the
  simulation, reusing the per-step simulation of `ConcS` (`ConcSR.step_rel`) for the `.other`
  steps; a maintenance micro-step only deletes (`ConcF.finv_mstep_mapsub`), so it is a list of
  `daemon` events.
-/
import MiniMoka.Lemmas.ConcSRefinesR
import MiniMoka.Lemmas.ConcF

namespace MiniMoka
namespace ProjR

open ConcR (KV Key Val Tid Oid State lookup runFrom)
open SyncR ConcSR

/-- Instance, thread, operation, returned value. -/
abbrev Call := Oid × Tid × ConcR.Op × Option Val

/-! ## Part 1: generic projections -/

/-- A transition system whose events project to R events, with a ghost (`ConcSR.Ghost`) that
numbers the events and remembers what each thread holds. -/
structure Sys (σ ε : Type) where
  step : σ → ε → Option σ
  proj : σ → Ghost → ε → List ConcR.Ev
  gstep : σ → Ghost → ε → Ghost
  /-- thread and R operation of a per-key map step -/
  mop : ε → Option (Tid × ConcR.Op)
  /-- the call that returns at this event -/
  resp : σ → Ghost → ε → List Call
  /-- what the map step at this event decides -/
  dec : σ → Nat → ε → List Call
  next : ∀ c g e, (gstep c g e).next = g.next + 1
  opOf : ∀ c g e o, ConcR.opOf (proj c g e) o = if g.next = o then mop e else none
  steps : ∀ c g e, ConcR.stepOids (proj c g e) = if (mop e).isSome then [g.next] else []
  held : ∀ c g e x, x ∈ (gstep c g e).held →
    x ∈ g.held ∨ (x.2.oid, x.1, x.2.op, x.2.res) ∈ dec c g.next e
  decm : ∀ c n e y, y ∈ dec c n e → y.1 = n ∧ mop e = some (y.2.1, y.2.2.1)
  calls : ∀ c g pre e T, PreOk pre g →
    (resps (proj c g e)).filterMap
        (fun x => (ConcR.opOf (pre ++ proj c g e ++ T) x.1).map
          fun y => (x.1, y.1, y.2, x.2)) = resp c g e
  respDec : ∀ c g e (D : List Call), (∀ x ∈ g.held, (x.2.oid, x.1, x.2.op, x.2.res) ∈ D) →
    ∀ y ∈ resp c g e, y ∈ D ++ dec c g.next e

variable {σ ε : Type} (S : Sys σ ε)

/-- A finite path. -/
def Sys.run : σ → List ε → Option σ
  | c, [] => some c
  | c, e :: rest =>
    match S.step c e with
    | some c' => Sys.run c' rest
    | none => none

/-- The projection of a path (it stops where the path does). -/
def Sys.projFrom : σ → Ghost → List ε → List ConcR.Ev
  | _, _, [] => []
  | c, g, e :: rest =>
    S.proj c g e ++
      (match S.step c e with
       | some c' => Sys.projFrom c' (S.gstep c g e) rest
       | none => [])

def Sys.ghostFrom : σ → Ghost → List ε → Ghost
  | _, g, [] => g
  | c, g, e :: rest =>
    match S.step c e with
    | some c' => Sys.ghostFrom c' (S.gstep c g e) rest
    | none => g

/-- The calls of a path in the order in which they return. -/
def Sys.callsFrom : σ → Ghost → List ε → List Call
  | _, _, [] => []
  | c, g, e :: rest =>
    S.resp c g e ++
      (match S.step c e with
       | some c' => Sys.callsFrom c' (S.gstep c g e) rest
       | none => [])

/-- The decisions of a path, in the order of the map steps (ids are positions). -/
def Sys.decidedFrom : σ → Nat → List ε → List Call
  | _, _, [] => []
  | c, n, e :: rest =>
    S.dec c n e ++
      (match S.step c e with
       | some c' => Sys.decidedFrom c' (n + 1) rest
       | none => [])

theorem Sys.preOk_step {c : σ} {g : Ghost} {pre : List ConcR.Ev} (h : PreOk pre g) (e : ε) :
    PreOk (pre ++ S.proj c g e) (S.gstep c g e) := by
  constructor
  · intro x hx
    rcases S.held c g e x hx with hx | hx
    · exact ConcR.opOf_append_of_some _ (h.1 x hx)
    · obtain ⟨h1, h2⟩ := S.decm _ _ _ _ hx
      simp only at h1 h2
      rw [ConcR.opOf_append, h1, h.2 g.next (Nat.le_refl _), S.opOf, if_pos rfl, h2]
      rfl
  · intro o ho
    rw [S.next] at ho
    rw [ConcR.opOf_append, h.2 o (Nat.le_of_succ_le ho), S.opOf, if_neg (Nat.ne_of_lt ho)]
    rfl

theorem Sys.callsOf_projFrom (evs : List ε) :
    ∀ (c : σ) (g : Ghost) (pre : List ConcR.Ev), PreOk pre g →
      (resps (S.projFrom c g evs)).filterMap
          (fun x => (ConcR.opOf (pre ++ S.projFrom c g evs) x.1).map
            fun y => (x.1, y.1, y.2, x.2)) =
        S.callsFrom c g evs := by
  induction evs with
  | nil => intro c g pre _; rfl
  | cons e rest ih =>
    intro c g pre h
    simp only [Sys.projFrom, Sys.callsFrom]
    rw [resps_append, List.filterMap_append, ← List.append_assoc, S.calls c g pre e _ h]
    cases hs : S.step c e with
    | none => simp only [resps, List.filterMap_nil]
    | some c1 =>
      simp only
      rw [ih c1 _ (pre ++ S.proj c g e) (S.preOk_step h e)]

/-- From the empty ghost: `SyncR.callsOf` of the projection is the list of calls. -/
theorem Sys.callsOf_proj (c : σ) (evs : List ε) :
    callsOf (S.projFrom c {} evs) = S.callsFrom c {} evs := by
  have := S.callsOf_projFrom evs c {} [] preOk_init
  rw [List.nil_append] at this
  exact this

/-- Every call that returns returns what its map step decided. -/
theorem Sys.callsFrom_decided (evs : List ε) :
    ∀ (c : σ) (g : Ghost) (D : List Call),
      (∀ x ∈ g.held, (x.2.oid, x.1, x.2.op, x.2.res) ∈ D) →
      ∀ y ∈ S.callsFrom c g evs, y ∈ D ++ S.decidedFrom c g.next evs := by
  induction evs with
  | nil => intro c g D _ y hy; cases hy
  | cons e rest ih =>
    intro c g D hD y hy
    simp only [Sys.callsFrom, Sys.decidedFrom] at hy ⊢
    rcases List.mem_append.1 hy with hy | hy
    · rcases List.mem_append.1 (S.respDec c g e D hD y hy) with h | h
      · exact List.mem_append_left _ h
      · exact List.mem_append_right _ (List.mem_append_left _ h)
    · cases hs : S.step c e with
      | none => rw [hs] at hy; cases hy
      | some c1 =>
        rw [hs] at hy
        simp only at hy ⊢
        have := ih c1 (S.gstep c g e) (D ++ S.dec c g.next e) (by
          intro x hx
          rcases S.held c g e x hx with hx | hx
          · exact List.mem_append_left _ (hD x hx)
          · exact List.mem_append_right _ hx) y hy
        rw [S.next, List.append_assoc] at this
        exact this

/-- Instance `o` of the projection is the map step at position `o` of the path. -/
theorem Sys.opOf_projFrom (evs : List ε) :
    ∀ (c c' : σ) (g : Ghost) (o : Nat), S.run c evs = some c' →
      ConcR.opOf (S.projFrom c g evs) o =
        if g.next ≤ o then (evs[o - g.next]?).bind S.mop else none := by
  induction evs with
  | nil => intro c c' g o _; simp [Sys.projFrom, ConcR.opOf]
  | cons e rest ih =>
    intro c c' g o hr
    simp only [Sys.run] at hr
    cases hs : S.step c e with
    | none => rw [hs] at hr; cases hr
    | some c1 =>
      rw [hs] at hr
      simp only [Sys.projFrom, hs]
      rw [ConcR.opOf_append, S.opOf, ih c1 c' _ o hr, S.next]
      by_cases h1 : g.next = o
      · have h2 : ¬ (g.next + 1 ≤ o) := by omega
        have h3 : g.next ≤ o := by omega
        have h4 : o - g.next = 0 := by omega
        rw [if_pos h1, if_neg h2, if_pos h3, h4]
        simp
      · rw [if_neg h1]
        by_cases h2 : g.next + 1 ≤ o
        · have h3 : g.next ≤ o := by omega
          have h4 : o - g.next = (o - (g.next + 1)) + 1 := by omega
          rw [if_pos h2, if_pos h3, h4]
          simp
        · have h3 : ¬ g.next ≤ o := by omega
          rw [if_neg h2, if_neg h3]
          rfl

/-- The map steps of the projection: one per per-key map event, its id the position. -/
theorem Sys.mem_stepOids_projFrom (evs : List ε) :
    ∀ (c c' : σ) (g : Ghost) (o : Nat), S.run c evs = some c' →
      (o ∈ ConcR.stepOids (S.projFrom c g evs) ↔
        g.next ≤ o ∧ ((evs[o - g.next]?).bind S.mop).isSome = true) := by
  induction evs with
  | nil => intro c c' g o _; simp [Sys.projFrom, ConcR.stepOids]
  | cons e rest ih =>
    intro c c' g o hr
    simp only [Sys.run] at hr
    cases hs : S.step c e with
    | none => rw [hs] at hr; cases hr
    | some c1 =>
      rw [hs] at hr
      simp only [Sys.projFrom, hs]
      rw [ConcR.stepOids_append, List.mem_append, S.steps, ih c1 c' _ o hr, S.next]
      by_cases h1 : g.next = o
      · have h4 : o - g.next = 0 := by omega
        rw [h4]
        cases hm : (S.mop e).isSome <;> simp [hm] <;> omega
      · by_cases h2 : g.next + 1 ≤ o
        · have h4 : o - g.next = (o - (g.next + 1)) + 1 := by omega
          rw [h4]
          have h5 : ¬ o = g.next := fun e' => h1 e'.symm
          cases (S.mop e).isSome <;> simp [h5] <;> omega
        · have h5 : ¬ o = g.next := fun e' => h1 e'.symm
          cases (S.mop e).isSome <;> simp [h5] <;> omega

/-- Map steps occur in the order of their ids. -/
theorem Sys.stepOids_sorted (evs : List ε) :
    ∀ (c : σ) (g : Ghost),
      (∀ o ∈ ConcR.stepOids (S.projFrom c g evs), g.next ≤ o) ∧
      (ConcR.stepOids (S.projFrom c g evs)).Pairwise (· < ·) := by
  induction evs with
  | nil => intro c g; simp [Sys.projFrom, ConcR.stepOids]
  | cons e rest ih =>
    intro c g
    simp only [Sys.projFrom]
    rw [ConcR.stepOids_append, S.steps]
    cases hs : S.step c e with
    | none =>
      simp only [ConcR.stepOids, List.append_nil]
      split <;> simp
    | some c1 =>
      simp only
      obtain ⟨ih1, ih2⟩ := ih c1 (S.gstep c g e)
      rw [S.next] at ih1
      constructor
      · intro o ho
        rcases List.mem_append.1 ho with ho | ho
        · split at ho
          · simp only [List.mem_singleton] at ho; rw [ho]; exact Nat.le_refl _
          · cases ho
        · exact Nat.le_of_succ_le (ih1 o ho)
      · rw [List.pairwise_append]
        refine ⟨by split <;> simp, ih2, ?_⟩
        intro a ha b hb
        split at ha
        · simp only [List.mem_singleton] at ha; rw [ha]; exact ih1 b hb
        · cases ha

end ProjR

/-! ## Part 2: `ConcF` -/

namespace ConcFR

open ConcR (KV Key Val Tid Oid State lookup runFrom)
open Sync (SState KN NoQuirks)
open SyncR ConcSR ProjR
open ConcF (FState)

/-- The `ConcS` part of a state of `ConcF`. -/
def cs (c : FState) : ConcS.CState := ⟨c.s, c.pending⟩

def mopF : ConcM.Ev → Option (Tid × ConcR.Op)
  | .other e => mapEvOp e
  | _ => none

/-- The events of R for one event of ConcF (current code): a step of another thread as in
`ConcSR.projEv`; a maintenance micro-step (or the begin of a run) is one `daemon` per key it
deletes — none for most micro-steps. -/
def projEvF (p : Params) (c : FState) (g : Ghost) : ConcM.Ev → List ConcR.Ev
  | .other e => projEv p (cs c) g e
  | .mBegin t ex =>
    match ConcF.step p .good c (.mBegin t ex) with
    | some c' => (delKeys (absMap c.s) (absMap c'.s)).map ConcR.Ev.daemon
    | none => []
  | .mStep t =>
    match ConcF.step p .good c (.mStep t) with
    | some c' => (delKeys (absMap c.s) (absMap c'.s)).map ConcR.Ev.daemon
    | none => []

def gstepF (p : Params) (c : FState) (g : Ghost) : ConcM.Ev → Ghost
  | .other e => ghostStep p (cs c) g e
  | _ => { g with next := g.next + 1 }

def respF (c : FState) (g : Ghost) : ConcM.Ev → List Call
  | .other e => respCalls (cs c) g e
  | _ => []

def decF (p : Params) (c : FState) (n : Nat) : ConcM.Ev → List Call
  | .other e => decidedEv p (cs c) n e
  | _ => []

theorem stepOids_daemons (ds : List Key) : ConcR.stepOids (ds.map ConcR.Ev.daemon) = [] := by
  induction ds with
  | nil => rfl
  | cons d ds ih => simpa [ConcR.stepOids] using ih

/-- A call that returns at a ConcS event returns what a map step decided. -/
theorem respCalls_decided (p : Params) (c : ConcS.CState) (g : Ghost) (e : ConcS.Ev)
    (D : List Call) (hD : ∀ x ∈ g.held, (x.2.oid, x.1, x.2.op, x.2.res) ∈ D) :
    ∀ y ∈ respCalls c g e, y ∈ D ++ decidedEv p c g.next e := by
  intro y hy
  cases e with
  | enq t =>
    simp only [respCalls] at hy
    cases hg : AL.get? g.held t with
    | none => rw [hg] at hy; cases hy
    | some hd =>
      rw [hg] at hy
      simp only [List.mem_singleton] at hy
      subst hy
      exact List.mem_append_left _ (hD (t, hd) (AL.mem_of_get? hg))
  | invMap t k =>
    simp only [respCalls] at hy
    split at hy
    · cases hy
    · simp only [List.mem_singleton] at hy
      subst hy
      exact List.mem_append_right _ List.mem_cons_self
  | _ => cases hy

theorem projEvF_m (p : Params) (c : FState) (g : Ghost) (e : ConcM.Ev) (hm : mopF e = none)
    (hne : ∀ e', e ≠ .other e') :
    ∃ ds : List Key, projEvF p c g e = ds.map ConcR.Ev.daemon := by
  cases e with
  | other e' => exact absurd rfl (hne e')
  | mBegin t ex =>
    simp only [projEvF]
    split
    · exact ⟨_, rfl⟩
    · exact ⟨[], rfl⟩
  | mStep t =>
    simp only [projEvF]
    split
    · exact ⟨_, rfl⟩
    · exact ⟨[], rfl⟩

/-- `ConcF` (current code) as a system with a projection to R. -/
def sysF (p : Params) : Sys FState ConcM.Ev where
  step := ConcF.step p .good
  proj := projEvF p
  gstep := gstepF p
  mop := mopF
  resp := respF
  dec := decF p
  next := by
    intro c g e
    cases e with
    | other e' => exact ghostStep_next p (cs c) g e'
    | mBegin t ex => rfl
    | mStep t => rfl
  opOf := by
    intro c g e o
    cases e with
    | other e' => exact opOf_projEv p (cs c) g e' o
    | mBegin t ex =>
      obtain ⟨ds, hds⟩ := projEvF_m p c g (.mBegin t ex) rfl (fun _ h => by cases h)
      rw [hds, opOf_daemons]; simp [mopF]
    | mStep t =>
      obtain ⟨ds, hds⟩ := projEvF_m p c g (.mStep t) rfl (fun _ h => by cases h)
      rw [hds, opOf_daemons]; simp [mopF]
  steps := by
    intro c g e
    cases e with
    | other e' => exact stepOids_projEv p (cs c) g e'
    | mBegin t ex =>
      obtain ⟨ds, hds⟩ := projEvF_m p c g (.mBegin t ex) rfl (fun _ h => by cases h)
      rw [hds, stepOids_daemons]; rfl
    | mStep t =>
      obtain ⟨ds, hds⟩ := projEvF_m p c g (.mStep t) rfl (fun _ h => by cases h)
      rw [hds, stepOids_daemons]; rfl
  held := by
    intro c g e x hx
    cases e with
    | other e' => exact mem_held_step hx
    | mBegin t ex => exact Or.inl hx
    | mStep t => exact Or.inl hx
  decm := by
    intro c n e y hy
    cases e with
    | other e' => exact mem_decidedEv hy
    | mBegin t ex => cases hy
    | mStep t => cases hy
  calls := by
    intro c g pre e T h
    cases e with
    | other e' => exact calls_step h e' T
    | mBegin t ex =>
      obtain ⟨ds, hds⟩ := projEvF_m p c g (.mBegin t ex) rfl (fun _ h => by cases h)
      rw [hds, resps_daemons]; rfl
    | mStep t =>
      obtain ⟨ds, hds⟩ := projEvF_m p c g (.mStep t) rfl (fun _ h => by cases h)
      rw [hds, resps_daemons]; rfl
  respDec := by
    intro c g e D hD y hy
    cases e with
    | other e' => exact respCalls_decided p (cs c) g e' D hD y hy
    | mBegin t ex => cases hy
    | mStep t => cases hy

theorem run_eq (p : Params) (evs : List ConcM.Ev) : ∀ (c : FState),
    (sysF p).run c evs = ConcF.runEvs p .good c evs := by
  induction evs with
  | nil => intro c; rfl
  | cons e rest ih =>
    intro c
    have hst : (sysF p).step c e = ConcF.step p .good c e := rfl
    simp only [Sys.run, ConcF.runEvs, hst]
    cases ConcF.step p .good c e with
    | none => rfl
    | some c1 => exact ih c1

/-! ### the simulation -/

open ConcF in
theorem finv_kn {p : Params} {c : FState} (h : FInv p c) : KN c.s := by
  unfold FInv at h
  cases hr : c.run with
  | none => rw [hr] at h; exact h.1.top.map.kn
  | some r =>
    rw [hr] at h
    dsimp only at h
    cases hw : r.w with
    | none => rw [hw] at h; exact (ConcM.rinv_of_view h.2.1).run.map.kn
    | some pc => rw [hw] at h; exact h.2.1.run.map.kn

theorem beginRun_map (s : SState) (ex : Bool) : (ConcM.beginRun s ex).map = s.map := by
  cases ex <;> rfl

/-- A maintenance event leaves the pending list alone and only shrinks the map. -/
theorem mstep_sub {p : Params} (hq : NoQuirks p) {c c' : FState} (hi : ConcF.FInv p c)
    (e : ConcM.Ev) (hne : ∀ e', e ≠ .other e') (hs : ConcF.step p .good c e = some c') :
    c'.pending = c.pending ∧ KVSub (absMap c.s) (absMap c'.s) := by
  cases e with
  | other e' => exact absurd rfl (hne e')
  | mBegin t ex =>
    simp only [ConcF.step] at hs
    have key : c'.pending = c.pending ∧ c'.s.map = c.s.map := by
      split at hs
      · split at hs
        · cases hs
        · split at hs
          · cases hs; exact ⟨rfl, rfl⟩
          · cases hs
      · cases hs; exact ⟨rfl, beginRun_map c.s ex⟩
    refine ⟨key.1, ?_⟩
    unfold absMap; rw [key.2]; exact KVSub.refl _
  | mStep t =>
    have hsub := ConcF.finv_mstep_mapsub hq hi t hs
    constructor
    · simp only [ConcF.step] at hs
      split at hs
      · cases hs
      · split at hs
        · cases hs; rfl
        · cases hs
    · intro k v h
      rw [lookup_absMap] at h ⊢
      cases hg : AL.get? c'.s.map k with
      | none => rw [hg] at h; cases h
      | some ve => rw [hg] at h; rw [hsub k ve hg]; exact h

/-- **One step of ConcF is a fragment of R.** -/
theorem stepF_rel {p : Params} (hq : NoQuirks p) {a : State} {c c' : FState} {g : Ghost}
    (h : Rel a (cs c) g) (hi : ConcF.FInv p c) (e : ConcM.Ev)
    (hs : ConcF.step p .good c e = some c') :
    ∃ a', runFrom a (projEvF p c g e) = some a' ∧ Rel a' (cs c') (gstepF p c g e) := by
  cases e with
  | other e' =>
    simp only [ConcF.step] at hs
    split at hs
    · cases hc : ConcS.step p ⟨c.s, c.pending⟩ e' with
      | none => rw [hc] at hs; cases hs
      | some c1 =>
        rw [hc] at hs
        cases hs
        exact step_rel hq h (finv_kn hi) e' hc
    · cases hs
  | mBegin t ex =>
    obtain ⟨hp, hsub⟩ := mstep_sub hq hi (.mBegin t ex) (fun _ h => by cases h) hs
    simp only [projEvF, hs]
    exact rel_daemons (c := cs c) (c' := cs c') h hp hsub
  | mStep t =>
    obtain ⟨hp, hsub⟩ := mstep_sub hq hi (.mStep t) (fun _ h => by cases h) hs
    simp only [projEvF, hs]
    exact rel_daemons (c := cs c) (c' := cs c') h hp hsub

/-- **A path of ConcF is an execution of R.** -/
theorem projFromF_refines {p : Params} (hq : NoQuirks p) (hsm : SmallSketch p)
    (evs : List ConcM.Ev) :
    ∀ (a : State) (c c' : FState) (g : Ghost), Rel a (cs c) g → ConcF.FInv p c →
      ConcF.runEvs p .good c evs = some c' →
      ∃ a', runFrom a ((sysF p).projFrom c g evs) = some a' ∧
        Rel a' (cs c') ((sysF p).ghostFrom c g evs) := by
  induction evs with
  | nil =>
    intro a c c' g h _ hr
    simp only [ConcF.runEvs] at hr
    cases hr
    exact ⟨a, rfl, h⟩
  | cons e rest ih =>
    intro a c c' g h hi hr
    simp only [ConcF.runEvs] at hr
    cases hs : ConcF.step p .good c e with
    | none => rw [hs] at hr; cases hr
    | some c1 =>
      rw [hs] at hr
      obtain ⟨a1, hr1, hrel1⟩ := stepF_rel hq h hi e hs
      obtain ⟨a2, hr2, hrel2⟩ := ih a1 c1 c' _ hrel1 (ConcF.step_finv hq hsm hi e hs) hr
      have hs' : (sysF p).step c e = some c1 := hs
      refine ⟨a2, ?_, ?_⟩
      · simp only [Sys.projFrom, hs']
        show runFrom a (projEvF p c g e ++ _) = _
        rw [ConcR.runFrom_append, hr1]; exact hr2
      · simp only [Sys.ghostFrom, hs']; exact hrel2

end ConcFR
end MiniMoka
