/-
  Lemmas about the pointer-level deque model `MiniMoka.DequeHeap`.
-/
import MiniMoka.DequeHeap

set_option linter.unusedSimpArgs false
set_option linter.unusedVariables false

namespace MiniMoka
namespace DequeHeap

/-! ## Heap -/

theorem hget_hset (h : Heap) (a b : Nat) (v : Option Node) :
    hget (hset h a v) b = if a = b then v else hget h b := by
  induction h with
  | nil => simp [hset, hget]
  | cons kv r ih =>
    obtain ⟨k, w⟩ := kv
    by_cases hk : k = a
    · subst hk
      by_cases hb : k = b <;> simp [hset, hget, hb]
    · by_cases hb : k = b
      · subst hb
        have : ¬ a = k := fun h => hk h.symm
        simp [hset, hget, hk, this]
      · simp [hset, hget, hk, hb, ih]

/-! ## Lists: index facts -/

theorem nodup_inj {l : List Nat} (hn : l.Nodup) {i j a : Nat}
    (hi : l[i]? = some a) (hj : l[j]? = some a) : i = j := by
  rw [List.getElem?_eq_some_iff] at hi hj
  obtain ⟨hi', hi⟩ := hi
  obtain ⟨hj', hj⟩ := hj
  have hp := List.pairwise_iff_getElem.mp hn
  rcases Nat.lt_trichotomy i j with h | h | h
  · exact absurd (hi.trans hj.symm) (hp i j hi' hj' h)
  · exact h
  · exact absurd (hj.trans hi.symm) (hp j i hj' hi' h)

/-! ## The monad: evaluation rules -/

@[simp] theorem bind_apply {α β : Type} (m : M α) (f : α → M β) (s : DState) :
    (m >>= f) s = match m s with
      | .error e => .error e
      | .ok (a, s') => f a s' := rfl

@[simp] theorem pure_apply {α : Type} (a : α) (s : DState) :
    (pure a : M α) s = .ok (a, s) := rfl

@[simp] theorem getS_apply (s : DState) : getS s = .ok (s, s) := rfl
@[simp] theorem modS_apply (f : DState → DState) (s : DState) : modS f s = .ok ((), f s) := rfl
@[simp] theorem fail_apply {α : Type} (f : Fault) (s : DState) :
    (fail f : M α) s = .error f := rfl

@[simp] theorem load_apply (a : Nat) (s : DState) :
    load a s = match hget s.heap a with
      | some n => .ok (n, s)
      | none => .error .useAfterFree := rfl

@[simp] theorem store_apply (a : Nat) (n : Node) (s : DState) :
    store a n s = match hget s.heap a with
      | some _ => .ok ((), { s with heap := hset s.heap a (some n) })
      | none => .error .useAfterFree := rfl

@[simp] theorem free_apply (a : Nat) (s : DState) :
    free a s = match hget s.heap a with
      | some n => .ok (n, { s with heap := hset s.heap a none, freed := a :: s.freed })
      | none => .error .useAfterFree := rfl

@[simp] theorem alloc_apply (n : Node) (s : DState) :
    alloc n s = .ok (s.next, { s with heap := hset s.heap s.next (some n), next := s.next + 1 }) :=
  rfl

/-! ## Well-formedness -/

/-- The heap of `s` encodes the list of node addresses `l`. -/
structure WF (s : DState) (l : List Nat) : Prop where
  nodup : l.Nodup
  /-- the `i`-th node is live, its `next` is the `i+1`-th node (or `None` for the last),
  its `prev` the `i-1`-th (or `None` for the first) -/
  links : ∀ i a, l[i]? = some a →
    ∃ e, hget s.heap a = some ⟨l[i+1]?, if i = 0 then none else l[i-1]?, e⟩
  head : s.head = l.head?
  tail : s.tail = l.getLast?
  len : s.len = l.length
  cursor : s.cursor = none ∨ s.cursor = some .done ∨ ∃ a, s.cursor = some (.node a) ∧ a ∈ l
  fault : s.fault = none
  /-- every live address is below the allocation counter -/
  bound : ∀ a n, hget s.heap a = some n → a < s.next
  /-- ghost log: no address freed twice, freed addresses are dead and below the counter -/
  freedNodup : s.freed.Nodup
  freedDead : ∀ a, a ∈ s.freed → hget s.heap a = none ∧ a < s.next

/-- `a` is live, not linked into `l`, and carries no links (what `unlink` leaves behind and
what `DeqNode::new` produces). -/
def Detached (s : DState) (l : List Nat) (a : Nat) : Prop :=
  a ∉ l ∧ ∃ e, hget s.heap a = some ⟨none, none, e⟩


/-- The element stored at a live address (0 for a dead one; only used on live ones). -/
def elemAt (s : DState) (a : Nat) : Nat :=
  match hget s.heap a with
  | some n => n.elem
  | none => 0

theorem elemAt_of {s : DState} {a : Nat} {n : Node} (h : hget s.heap a = some n) :
    elemAt s a = n.elem := by simp [elemAt, h]

/-- `links` without the existential. -/
theorem WF.links' {s l} (h : WF s l) {i a} (hi : l[i]? = some a) :
    hget s.heap a = some ⟨l[i+1]?, if i = 0 then none else l[i-1]?, elemAt s a⟩ := by
  obtain ⟨e, he⟩ := h.links i a hi
  simp [elemAt, he]

theorem WF.live {s l} (h : WF s l) {a} (ha : a ∈ l) : ∃ n, hget s.heap a = some n := by
  obtain ⟨i, hi⟩ := List.mem_iff_getElem?.mp ha
  exact ⟨_, h.links' hi⟩

theorem nodup_iff {l : List Nat} (hn : l.Nodup) {i j x y : Nat}
    (hi : l[i]? = some x) (hj : l[j]? = some y) : x = y ↔ i = j := by
  constructor
  · intro h; subst h; exact nodup_inj hn hi hj
  · intro h; subst h; rw [hi] at hj; exact Option.some.inj hj

theorem lt_of_getElem? {l : List Nat} {i a : Nat} (h : l[i]? = some a) : i < l.length :=
  (List.getElem?_eq_some_iff.mp h).1

/-- `s'` differs from `s` by relinking only: same allocation counter, same ghost log, same
fault; every address keeps its liveness and its element; nodes outside `l` and `l'` are
untouched. -/
structure Pres (s s' : DState) (l l' : List Nat) : Prop where
  next : s'.next = s.next
  freed : s'.freed = s.freed
  fault : s'.fault = s.fault
  elems : ∀ b, (hget s'.heap b).map (·.elem) = (hget s.heap b).map (·.elem)
  frame : ∀ b, b ∉ l → b ∉ l' → hget s'.heap b = hget s.heap b

theorem Pres.live_iff {s s' l l'} (hp : Pres s s' l l') (b : Nat) :
    (hget s'.heap b).isSome = (hget s.heap b).isSome := by
  have := congrArg Option.isSome (hp.elems b)
  simpa using this

theorem Pres.elemAt {s s' l l'} (hp : Pres s s' l l') (b : Nat) :
    elemAt s' b = elemAt s b := by
  have := hp.elems b
  unfold DequeHeap.elemAt
  cases h1 : hget s'.heap b <;> cases h2 : hget s.heap b <;> simp_all

/-- Introduction rule used by all relinking operations. -/
theorem wf_pres_intro {s s' : DState} {l l' : List Nat} (h : WF s l)
    (hnext : s'.next = s.next) (hfreed : s'.freed = s.freed) (hfault : s'.fault = s.fault)
    (helems : ∀ b, (hget s'.heap b).map (·.elem) = (hget s.heap b).map (·.elem))
    (hframe : ∀ b, b ∉ l → b ∉ l' → hget s'.heap b = hget s.heap b)
    (hnodup : l'.Nodup)
    (hlinks : ∀ i b, l'[i]? = some b →
      hget s'.heap b = some ⟨l'[i+1]?, if i = 0 then none else l'[i-1]?, elemAt s b⟩)
    (hhead : s'.head = l'.head?) (htail : s'.tail = l'.getLast?) (hlen : s'.len = l'.length)
    (hcur : s'.cursor = none ∨ s'.cursor = some .done ∨ ∃ a, s'.cursor = some (.node a) ∧ a ∈ l') :
    WF s' l' ∧ Pres s s' l l' := by
  have hp : Pres s s' l l' := ⟨hnext, hfreed, hfault, helems, hframe⟩
  refine ⟨?_, hp⟩
  refine
    { nodup := hnodup
      links := fun i b hb => ⟨_, hlinks i b hb⟩
      head := hhead, tail := htail, len := hlen, cursor := hcur
      fault := hfault.trans h.fault
      bound := ?_, freedNodup := hfreed ▸ h.freedNodup, freedDead := ?_ }
  · intro a n hn
    have hl := hp.live_iff a
    rw [hn] at hl
    cases h2 : hget s.heap a with
    | none => simp [h2] at hl
    | some n' => rw [hnext]; exact h.bound a n' h2
  · intro a ha
    rw [hfreed] at ha
    obtain ⟨hd, hb⟩ := h.freedDead a ha
    have hl := hp.live_iff a
    rw [hd] at hl
    refine ⟨?_, hnext ▸ hb⟩
    cases h2 : hget s'.heap a with
    | none => rfl
    | some n' => simp [h2] at hl

theorem Pres.detached {s s' l l'} (hp : Pres s s' l l') {b : Nat} (hd : Detached s l b)
    (hb : b ∉ l') : Detached s' l' b := by
  obtain ⟨hbl, e, he⟩ := hd
  exact ⟨hb, e, by rw [hp.frame b hbl hb]; exact he⟩

/-! ## The cursor leaves a node -/

/-- List-level cursor after the node `a = l[k]` is about to leave its position. -/
def curLeave (l : List Nat) (k : Nat) (a : Nat) (c : Option Cursor) : Option Cursor :=
  if c = some (.node a) then
    (match l[k+1]? with
     | some b => some (.node b)
     | none => some .done)
  else c

theorem leaveCursor_spec {s l k a} (h : WF s l) (hk : l[k]? = some a) :
    leaveCursor a s = .ok ((), { s with cursor := curLeave l k a s.cursor }) := by
  have ha := h.links' hk
  rcases h.cursor with hc | hc | ⟨c, hc, hcl⟩
  · simp [leaveCursor, touch, isAtCursor, ha, hc, curLeave]; cases s; simp_all
  · simp [leaveCursor, touch, isAtCursor, ha, hc, curLeave]; cases s; simp_all
  · obtain ⟨j, hj⟩ := List.mem_iff_getElem?.mp hcl
    have hcn := h.links' hj
    by_cases hca : c = a
    · subst hca
      cases hnx : l[k+1]? <;>
        simp [leaveCursor, touch, isAtCursor, advanceCursor, getNext, ha, hc, curLeave, hnx]
    · simp [leaveCursor, touch, isAtCursor, ha, hc, curLeave, hca, hcn]; cases s; simp_all

/-- After leaving, the cursor is legal for the list without `l[k]`. -/
theorem curLeave_ok {s l k a} (h : WF s l) (hk : l[k]? = some a) :
    curLeave l k a s.cursor = none ∨ curLeave l k a s.cursor = some .done ∨
      ∃ b, curLeave l k a s.cursor = some (.node b) ∧ b ∈ l.eraseIdx k := by
  unfold curLeave
  split
  · cases hnx : l[k+1]? with
    | none => simp
    | some nx =>
      refine Or.inr (Or.inr ⟨nx, rfl, ?_⟩)
      refine List.mem_iff_getElem?.mpr ⟨k, ?_⟩
      simp [List.getElem?_eraseIdx, hnx]
  · rename_i hne
    rcases h.cursor with hc | hc | ⟨c, hc, hcl⟩
    · exact Or.inl hc
    · exact Or.inr (Or.inl hc)
    · refine Or.inr (Or.inr ⟨c, hc, ?_⟩)
      obtain ⟨j, hj⟩ := List.mem_iff_getElem?.mp hcl
      have hca : c ≠ a := by intro hh; subst hh; exact hne hc
      have hjk : j ≠ k := by intro hh; subst hh; rw [hk] at hj; exact hca (Option.some.inj hj).symm
      refine List.mem_iff_getElem?.mpr ?_
      by_cases hlt : j < k
      · exact ⟨j, by simp [List.getElem?_eraseIdx, hlt, hj]⟩
      · refine ⟨j - 1, ?_⟩
        have : ¬ (j - 1 < k) := by omega
        have e : j - 1 + 1 = j := by omega
        simp [List.getElem?_eraseIdx, this, e, hj]

theorem curLeave_ne {l k a c} : curLeave l k a c = some (.node a) → l[k+1]? = some a := by
  unfold curLeave
  split
  · cases hnx : l[k+1]? <;> simp
  · rename_i h; intro h'; exact absurd h' h


theorem exists_run {α : Type} {m : M α} {s : DState} {r : α} {P : DState → Prop} (s' : DState)
    (hrun : m s = .ok (r, s')) (hpost : P s') : ∃ s', m s = .ok (r, s') ∧ P s' := ⟨s', hrun, hpost⟩

macro "dq_elems" : tactic => `(tactic| (intro b; simp only [hget_hset]; grind))
macro "dq_frame" : tactic => `(tactic| (intro b hb _; simp only [hget_hset]; grind))

theorem unlink_spec {s l k a} (h : WF s l) (hk : l[k]? = some a) :
    ∃ s', unlink a s = .ok ((), s') ∧ ((WF s' (l.eraseIdx k) ∧ Pres s s' l (l.eraseIdx k)) ∧
      s'.cursor = curLeave l k a s.cursor ∧
      hget s'.heap a = some ⟨none, none, elemAt s a⟩) := by
  have ha := h.links' hk
  have hlc := leaveCursor_spec h hk
  have hklt := lt_of_getElem? hk
  have hlen : ¬ s.len = 0 := by have := h.len; omega
  have hcur := curLeave_ok h hk
  have hal : a ∈ l := List.mem_of_getElem? hk
  have hhead := h.head
  have htail := h.tail
  have hlen' := h.len
  rw [List.head?_eq_getElem?] at hhead
  rw [List.getLast?_eq_getElem?] at htail
  rcases Nat.eq_zero_or_pos k with hk0 | hkpos
  · subst hk0
    cases hnx : l[1]? with
    | none =>
      have hl1 := List.getElem?_eq_none_iff.mp hnx
      apply exists_run
      case hrun =>
        simp [unlink, hlc, touch, getPrev, getNext, setPrev, setNext, decLen, ha, hnx, hget_hset, hlen]
        rfl
      refine ⟨wf_pres_intro h rfl rfl rfl ?_ ?_ (h.nodup.eraseIdx _) ?_ ?_ ?_ ?_ hcur, rfl, ?_⟩
      · dq_elems
      · dq_frame
      · intro i b hb
        have := lt_of_getElem? hb
        simp only [List.length_eraseIdx] at this
        grind
      · simp only [List.head?_eq_getElem?, List.getElem?_eraseIdx]; grind
      · simp only [List.getLast?_eq_getElem?, List.getElem?_eraseIdx, List.length_eraseIdx]; grind
      · simp only [hlen', List.length_eraseIdx]; grind
      · simp [hget_hset]
    | some nx =>
      have hnxn := h.links' hnx
      have hnl : nx ∈ l := List.mem_of_getElem? hnx
      have hl1 := lt_of_getElem? hnx
      have hne : nx ≠ a := by
        intro hh; subst hh; exact absurd (nodup_inj h.nodup hk hnx) (by omega)
      apply exists_run
      case hrun =>
        simp [unlink, hlc, touch, getPrev, getNext, setPrev, setNext, decLen, ha, hnx, hget_hset, hnxn, hne, hlen]
        rfl
      refine ⟨wf_pres_intro h rfl rfl rfl ?_ ?_ (h.nodup.eraseIdx _) ?_ ?_ ?_ ?_ hcur, rfl, ?_⟩
      · dq_elems
      · dq_frame
      · intro i b hb
        simp only [List.getElem?_eraseIdx] at hb ⊢
        split at hb
        all_goals
          have e1 := nodup_iff h.nodup hk hb
          have e3 := nodup_iff h.nodup hnx hb
          have hbn := h.links' hb
          simp only [hget_hset, e1, e3, hbn]
          grind
      · simp only [List.head?_eq_getElem?, List.getElem?_eraseIdx]; grind
      · simp only [htail, List.getLast?_eq_getElem?, List.getElem?_eraseIdx, List.length_eraseIdx]; grind
      · simp only [hlen', List.length_eraseIdx]; grind
      · simp [hget_hset]
  · obtain ⟨k', rfl⟩ : ∃ k', k = k' + 1 := ⟨k - 1, by omega⟩
    obtain ⟨p, hp⟩ : ∃ p, l[k']? = some p := ⟨l[k'], by simp⟩
    have hpn := h.links' hp
    have hpl : p ∈ l := List.mem_of_getElem? hp
    have hpa : p ≠ a := by
      intro hh; subst hh; exact absurd (nodup_inj h.nodup hk hp) (by omega)
    cases hnx : l[k'+1+1]? with
    | none =>
      have hl1 := List.getElem?_eq_none_iff.mp hnx
      apply exists_run
      case hrun =>
        simp [unlink, hlc, touch, getPrev, getNext, setPrev, setNext, decLen, ha, hp, hpn, hpa, hpa.symm, hnx, hget_hset, hlen]
        rfl
      refine ⟨wf_pres_intro h rfl rfl rfl ?_ ?_ (h.nodup.eraseIdx _) ?_ ?_ ?_ ?_ hcur, rfl, ?_⟩
      · dq_elems
      · dq_frame
      · intro i b hb
        simp only [List.getElem?_eraseIdx] at hb ⊢
        split at hb
        all_goals
          have e1 := nodup_iff h.nodup hk hb
          have e2 := nodup_iff h.nodup hp hb
          have hbn := h.links' hb
          simp only [hget_hset, e1, e2, hbn]
          grind
      · simp only [List.head?_eq_getElem?, List.getElem?_eraseIdx]; grind
      · simp only [List.getLast?_eq_getElem?, List.getElem?_eraseIdx, List.length_eraseIdx]; grind
      · simp only [hlen', List.length_eraseIdx]; grind
      · simp [hget_hset]
    | some nx =>
      have hnxn := h.links' hnx
      have hnl : nx ∈ l := List.mem_of_getElem? hnx
      have hl1 := lt_of_getElem? hnx
      have hne : nx ≠ a := by
        intro hh; subst hh; exact absurd (nodup_inj h.nodup hk hnx) (by omega)
      have hnp : nx ≠ p := by
        intro hh; subst hh; exact absurd (nodup_inj h.nodup hp hnx) (by omega)
      apply exists_run
      case hrun =>
        simp [unlink, hlc, touch, getPrev, getNext, setPrev, setNext, decLen, ha, hp, hpn, hpa, hpa.symm, hnx, hget_hset, hnxn, hne, hne.symm, hnp, hnp.symm, hlen]
        rfl
      refine ⟨wf_pres_intro h rfl rfl rfl ?_ ?_ (h.nodup.eraseIdx _) ?_ ?_ ?_ ?_ hcur, rfl, ?_⟩
      · dq_elems
      · dq_frame
      · intro i b hb
        simp only [List.getElem?_eraseIdx] at hb ⊢
        split at hb
        all_goals
          have e1 := nodup_iff h.nodup hk hb
          have e2 := nodup_iff h.nodup hp hb
          have e3 := nodup_iff h.nodup hnx hb
          have hbn := h.links' hb
          simp only [hget_hset, e1, e2, e3, hbn]
          grind
      · simp only [List.head?_eq_getElem?, List.getElem?_eraseIdx]; grind
      · simp only [htail, List.getLast?_eq_getElem?, List.getElem?_eraseIdx, List.length_eraseIdx]; grind
      · simp only [hlen', List.length_eraseIdx]; grind
      · simp [hget_hset]


/-! ## Read-only operations -/

theorem new_wf : WF new [] := by
  refine ⟨List.nodup_nil, ?_, rfl, rfl, rfl, Or.inl rfl, rfl, ?_, List.nodup_nil, ?_⟩
  · intro i a h; simp at h
  · intro a n h; simp [new, hget] at h
  · intro a h; simp [new] at h

theorem WF.head_eq {s l} (h : WF s l) : s.head = l[0]? := by
  rw [h.head, List.head?_eq_getElem?]

theorem WF.tail_eq {s l} (h : WF s l) : s.tail = l[l.length - 1]? := by
  rw [h.tail, List.getLast?_eq_getElem?]

theorem peekFrontPtr_spec {s l} (h : WF s l) : peekFrontPtr s = .ok (l.head?, s) := by
  simp [peekFrontPtr, h.head]

theorem peekFront_spec {s l} (h : WF s l) : peekFront s = .ok (l.head?, s) := by
  cases hl : l[0]? with
  | none => simp [peekFront, h.head_eq, hl, List.head?_eq_getElem?]
  | some a =>
    have ha := h.links' hl
    simp [peekFront, h.head_eq, hl, touch, ha, List.head?_eq_getElem?]

theorem nextNodePtr_spec {s l k a} (h : WF s l) (hk : l[k]? = some a) :
    nextNodePtr a s = .ok (l[k+1]?, s) := by
  simp [nextNodePtr, getNext, h.links' hk]

theorem nextNodePtr_detached {s l a} (hd : Detached s l a) :
    nextNodePtr a s = .ok (none, s) := by
  obtain ⟨_, e, he⟩ := hd
  simp [nextNodePtr, getNext, he]

theorem contains_mem {s l a} (h : WF s l) (ha : a ∈ l) : contains a s = .ok (true, s) := by
  obtain ⟨k, hk⟩ := List.mem_iff_getElem?.mp ha
  have han := h.links' hk
  rcases Nat.eq_zero_or_pos k with hk0 | hkpos
  · subst hk0
    simp [contains, touch, getPrev, han, isHead, h.head_eq, hk]
  · have : k - 1 < l.length := by have := lt_of_getElem? hk; omega
    have hp : l[k-1]? = some l[k-1] := by simp [this]
    have hk0 : ¬ k = 0 := by omega
    simp [contains, touch, getPrev, han, hk0, hp]

theorem contains_detached {s l a} (h : WF s l) (hd : Detached s l a) :
    contains a s = .ok (false, s) := by
  obtain ⟨hal, e, he⟩ := hd
  cases hl : l[0]? with
  | none => simp [contains, touch, getPrev, he, isHead, h.head_eq, hl]
  | some b =>
    have hb := h.links' hl
    have : b ≠ a := by intro hh; subst hh; exact hal (List.mem_of_getElem? hl)
    simp [contains, touch, getPrev, he, isHead, h.head_eq, hl, hb, this]

/-- `contains` answers list membership for nodes of this deque and for detached nodes. -/
theorem contains_spec {s l a} (h : WF s l) (ha : a ∈ l ∨ Detached s l a) :
    contains a s = .ok (decide (a ∈ l), s) := by
  rcases ha with ha | ha
  · simp [contains_mem h ha, ha]
  · simp [contains_detached h ha, ha.1]


/-! ## Freeing a detached node -/

/-- State after `free a`. -/
def freeState (s : DState) (a : Nat) : DState :=
  { s with heap := hset s.heap a none, freed := a :: s.freed }

theorem free_detached {s l a} (hd : Detached s l a) :
    free a s = .ok (⟨none, none, elemAt s a⟩, freeState s a) := by
  obtain ⟨_, e, he⟩ := hd
  simp [he, freeState, elemAt]

theorem WF.free {s l a} (h : WF s l) (hd : Detached s l a) : WF (freeState s a) l := by
  obtain ⟨hal, e, he⟩ := hd
  refine
    { nodup := h.nodup, links := ?_, head := h.head, tail := h.tail, len := h.len,
      cursor := h.cursor, fault := h.fault, bound := ?_, freedNodup := ?_, freedDead := ?_ }
  · intro i b hb
    have hba : a ≠ b := by intro hh; subst hh; exact hal (List.mem_of_getElem? hb)
    simpa [freeState, hget_hset, hba] using h.links i b hb
  · intro b n hn
    by_cases hba : a = b
    · subst hba; exact h.bound _ _ he
    · simp [freeState, hget_hset, hba] at hn
      exact h.bound b n hn
  · simp only [freeState, List.nodup_cons]
    refine ⟨?_, h.freedNodup⟩
    intro hf
    have := (h.freedDead a hf).1
    rw [he] at this; cases this
  · intro b hb
    simp only [freeState, List.mem_cons] at hb
    by_cases hba : a = b
    · subst hba
      exact ⟨by simp [freeState, hget_hset], h.bound _ _ he⟩
    · have hb' : b ∈ s.freed := by
        rcases hb with hb | hb
        · exact absurd hb.symm hba
        · exact hb
      have := h.freedDead b hb'
      simpa [freeState, hget_hset, hba] using this

theorem freeState_other {s a b} (hb : b ≠ a) : hget (freeState s a).heap b = hget s.heap b := by
  simp [freeState, hget_hset, Ne.symm hb]

theorem freeState_self {s a} : hget (freeState s a).heap a = none := by
  simp [freeState, hget_hset]

theorem Detached.free_other {s l a b} (hd : Detached s l b) (hb : b ≠ a) :
    Detached (freeState s a) l b := by
  obtain ⟨hbl, e, he⟩ := hd
  exact ⟨hbl, e, by rw [freeState_other hb]; exact he⟩

end DequeHeap
end MiniMoka
