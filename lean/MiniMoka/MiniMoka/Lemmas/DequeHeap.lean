/-
  Lemmas about the pointer-level deque model `MiniMoka.DequeHeap`.

  Contents: heap and monad evaluation rules; `WF`/`Detached`; the transition relations
  `Pres` (relinking only), `Frees`, `Allocs`; one `…_spec` lemma per operation stated on list
  indices (`l[k]? = some a`) and proved by symbolic execution plus index arithmetic; the
  list-level restatements `…_ok` (`l.erase a`, `succOf`, `leave`); the iterator
  (`iterRun_all`); `Drop` (`dropAll_spec`); the command language `Cmd`, the pure list
  interpreter `rstep`/`rrun`, the simulation invariant `Sim` and `sim_run`.

  Core Lean only (no Mathlib).
-/
import MiniMoka.DequeHeap

set_option linter.unusedSimpArgs false
set_option linter.unusedVariables false

namespace MiniMoka
namespace DequeHeap

/-! ## Heap -/

theorem hget_hset (h : Heap) (a b : Nat) (v : Option Node) :
    hget (hset h a v) b = if a = b then v else hget h b := by
  induction h with
  | nil => simp [hset, hget]
  | cons kv r ih =>
    obtain ⟨k, w⟩ := kv
    by_cases hk : k = a
    · subst hk
      by_cases hb : k = b <;> simp [hset, hget, hb]
    · by_cases hb : k = b
      · subst hb
        have : ¬ a = k := fun h => hk h.symm
        simp [hset, hget, hk, this]
      · simp [hset, hget, hk, hb, ih]

/-! ## Lists: index facts -/

theorem nodup_inj {l : List Nat} (hn : l.Nodup) {i j a : Nat}
    (hi : l[i]? = some a) (hj : l[j]? = some a) : i = j := by
  rw [List.getElem?_eq_some_iff] at hi hj
  obtain ⟨hi', hi⟩ := hi
  obtain ⟨hj', hj⟩ := hj
  have hp := List.pairwise_iff_getElem.mp hn
  rcases Nat.lt_trichotomy i j with h | h | h
  · exact absurd (hi.trans hj.symm) (hp i j hi' hj' h)
  · exact h
  · exact absurd (hj.trans hi.symm) (hp j i hj' hi' h)

/-! ## The monad: evaluation rules -/

@[simp] theorem bind_apply {α β : Type} (m : M α) (f : α → M β) (s : DState) :
    (m >>= f) s = match m s with
      | .error e => .error e
      | .ok (a, s') => f a s' := rfl

@[simp] theorem pure_apply {α : Type} (a : α) (s : DState) :
    (pure a : M α) s = .ok (a, s) := rfl

@[simp] theorem getS_apply (s : DState) : getS s = .ok (s, s) := rfl
@[simp] theorem modS_apply (f : DState → DState) (s : DState) : modS f s = .ok ((), f s) := rfl
@[simp] theorem fail_apply {α : Type} (f : Fault) (s : DState) :
    (fail f : M α) s = .error f := rfl

@[simp] theorem load_apply (a : Nat) (s : DState) :
    load a s = match hget s.heap a with
      | some n => .ok (n, s)
      | none => .error .useAfterFree := rfl

@[simp] theorem store_apply (a : Nat) (n : Node) (s : DState) :
    store a n s = match hget s.heap a with
      | some _ => .ok ((), { s with heap := hset s.heap a (some n) })
      | none => .error .useAfterFree := rfl

@[simp] theorem free_apply (a : Nat) (s : DState) :
    free a s = match hget s.heap a with
      | some n => .ok (n, { s with heap := hset s.heap a none, freed := a :: s.freed })
      | none => .error .useAfterFree := rfl

@[simp] theorem alloc_apply (n : Node) (s : DState) :
    alloc n s = .ok (s.next, { s with heap := hset s.heap s.next (some n), next := s.next + 1 }) :=
  rfl

/-! ## Well-formedness -/

/-- The heap of `s` encodes the list of node addresses `l`. -/
structure WF (s : DState) (l : List Nat) : Prop where
  nodup : l.Nodup
  /-- the `i`-th node is live, its `next` is the `i+1`-th node (or `None` for the last),
  its `prev` the `i-1`-th (or `None` for the first) -/
  links : ∀ i a, l[i]? = some a →
    ∃ e, hget s.heap a = some ⟨l[i+1]?, if i = 0 then none else l[i-1]?, e⟩
  head : s.head = l.head?
  tail : s.tail = l.getLast?
  len : s.len = l.length
  cursor : s.cursor = none ∨ s.cursor = some .done ∨ ∃ a, s.cursor = some (.node a) ∧ a ∈ l
  fault : s.fault = none
  /-- every live address is below the allocation counter -/
  bound : ∀ a n, hget s.heap a = some n → a < s.next
  /-- ghost log: no address freed twice, freed addresses are dead and below the counter -/
  freedNodup : s.freed.Nodup
  freedDead : ∀ a, a ∈ s.freed → hget s.heap a = none ∧ a < s.next

/-- `a` is live, not linked into `l`, and carries no links (what `unlink` leaves behind and
what `DeqNode::new` produces). -/
def Detached (s : DState) (l : List Nat) (a : Nat) : Prop :=
  a ∉ l ∧ ∃ e, hget s.heap a = some ⟨none, none, e⟩


/-- The element stored at a live address (0 for a dead one; only used on live ones). -/
def elemAt (s : DState) (a : Nat) : Nat :=
  match hget s.heap a with
  | some n => n.elem
  | none => 0

theorem elemAt_of {s : DState} {a : Nat} {n : Node} (h : hget s.heap a = some n) :
    elemAt s a = n.elem := by simp [elemAt, h]

/-- `links` without the existential. -/
theorem WF.links' {s l} (h : WF s l) {i a} (hi : l[i]? = some a) :
    hget s.heap a = some ⟨l[i+1]?, if i = 0 then none else l[i-1]?, elemAt s a⟩ := by
  obtain ⟨e, he⟩ := h.links i a hi
  simp [elemAt, he]

theorem WF.live {s l} (h : WF s l) {a} (ha : a ∈ l) : ∃ n, hget s.heap a = some n := by
  obtain ⟨i, hi⟩ := List.mem_iff_getElem?.mp ha
  exact ⟨_, h.links' hi⟩

theorem nodup_iff {l : List Nat} (hn : l.Nodup) {i j x y : Nat}
    (hi : l[i]? = some x) (hj : l[j]? = some y) : x = y ↔ i = j := by
  constructor
  · intro h; subst h; exact nodup_inj hn hi hj
  · intro h; subst h; rw [hi] at hj; exact Option.some.inj hj

theorem lt_of_getElem? {l : List Nat} {i a : Nat} (h : l[i]? = some a) : i < l.length :=
  (List.getElem?_eq_some_iff.mp h).1

/-- `s'` differs from `s` by relinking only: same allocation counter, same ghost log, same
fault; every address keeps its liveness and its element; nodes outside `l` and `l'` are
untouched. -/
structure Pres (s s' : DState) (l l' : List Nat) : Prop where
  next : s'.next = s.next
  freed : s'.freed = s.freed
  fault : s'.fault = s.fault
  elems : ∀ b, (hget s'.heap b).map (·.elem) = (hget s.heap b).map (·.elem)
  frame : ∀ b, b ∉ l → b ∉ l' → hget s'.heap b = hget s.heap b

theorem Pres.live_iff {s s' l l'} (hp : Pres s s' l l') (b : Nat) :
    (hget s'.heap b).isSome = (hget s.heap b).isSome := by
  have := congrArg Option.isSome (hp.elems b)
  simpa using this

theorem Pres.elemAt {s s' l l'} (hp : Pres s s' l l') (b : Nat) :
    elemAt s' b = elemAt s b := by
  have := hp.elems b
  unfold DequeHeap.elemAt
  cases h1 : hget s'.heap b <;> cases h2 : hget s.heap b <;> simp_all

/-- Introduction rule used by all relinking operations. -/
theorem wf_pres_intro {s s' : DState} {l l' : List Nat} (h : WF s l)
    (hnext : s'.next = s.next) (hfreed : s'.freed = s.freed) (hfault : s'.fault = s.fault)
    (helems : ∀ b, (hget s'.heap b).map (·.elem) = (hget s.heap b).map (·.elem))
    (hframe : ∀ b, b ∉ l → b ∉ l' → hget s'.heap b = hget s.heap b)
    (hnodup : l'.Nodup)
    (hlinks : ∀ i b, l'[i]? = some b →
      hget s'.heap b = some ⟨l'[i+1]?, if i = 0 then none else l'[i-1]?, elemAt s b⟩)
    (hhead : s'.head = l'.head?) (htail : s'.tail = l'.getLast?) (hlen : s'.len = l'.length)
    (hcur : s'.cursor = none ∨ s'.cursor = some .done ∨ ∃ a, s'.cursor = some (.node a) ∧ a ∈ l') :
    WF s' l' ∧ Pres s s' l l' := by
  have hp : Pres s s' l l' := ⟨hnext, hfreed, hfault, helems, hframe⟩
  refine ⟨?_, hp⟩
  refine
    { nodup := hnodup
      links := fun i b hb => ⟨_, hlinks i b hb⟩
      head := hhead, tail := htail, len := hlen, cursor := hcur
      fault := hfault.trans h.fault
      bound := ?_, freedNodup := hfreed ▸ h.freedNodup, freedDead := ?_ }
  · intro a n hn
    have hl := hp.live_iff a
    rw [hn] at hl
    cases h2 : hget s.heap a with
    | none => simp [h2] at hl
    | some n' => rw [hnext]; exact h.bound a n' h2
  · intro a ha
    rw [hfreed] at ha
    obtain ⟨hd, hb⟩ := h.freedDead a ha
    have hl := hp.live_iff a
    rw [hd] at hl
    refine ⟨?_, hnext ▸ hb⟩
    cases h2 : hget s'.heap a with
    | none => rfl
    | some n' => simp [h2] at hl

theorem Pres.detached {s s' l l'} (hp : Pres s s' l l') {b : Nat} (hd : Detached s l b)
    (hb : b ∉ l') : Detached s' l' b := by
  obtain ⟨hbl, e, he⟩ := hd
  exact ⟨hb, e, by rw [hp.frame b hbl hb]; exact he⟩

/-! ## The cursor leaves a node -/

/-- List-level cursor after the node `a = l[k]` is about to leave its position. -/
def curLeave (l : List Nat) (k : Nat) (a : Nat) (c : Option Cursor) : Option Cursor :=
  if c = some (.node a) then
    (match l[k+1]? with
     | some b => some (.node b)
     | none => some .done)
  else c

theorem leaveCursor_spec {s l k a} (h : WF s l) (hk : l[k]? = some a) :
    leaveCursor a s = .ok ((), { s with cursor := curLeave l k a s.cursor }) := by
  have ha := h.links' hk
  rcases h.cursor with hc | hc | ⟨c, hc, hcl⟩
  · simp [leaveCursor, touch, isAtCursor, ha, hc, curLeave]; cases s; simp_all
  · simp [leaveCursor, touch, isAtCursor, ha, hc, curLeave]; cases s; simp_all
  · obtain ⟨j, hj⟩ := List.mem_iff_getElem?.mp hcl
    have hcn := h.links' hj
    by_cases hca : c = a
    · subst hca
      cases hnx : l[k+1]? <;>
        simp [leaveCursor, touch, isAtCursor, advanceCursor, getNext, ha, hc, curLeave, hnx]
    · simp [leaveCursor, touch, isAtCursor, ha, hc, curLeave, hca, hcn]; cases s; simp_all

/-- After leaving, the cursor is legal for the list without `l[k]`. -/
theorem curLeave_ok {s l k a} (h : WF s l) (hk : l[k]? = some a) :
    curLeave l k a s.cursor = none ∨ curLeave l k a s.cursor = some .done ∨
      ∃ b, curLeave l k a s.cursor = some (.node b) ∧ b ∈ l.eraseIdx k := by
  unfold curLeave
  split
  · cases hnx : l[k+1]? with
    | none => simp
    | some nx =>
      refine Or.inr (Or.inr ⟨nx, rfl, ?_⟩)
      refine List.mem_iff_getElem?.mpr ⟨k, ?_⟩
      simp [List.getElem?_eraseIdx, hnx]
  · rename_i hne
    rcases h.cursor with hc | hc | ⟨c, hc, hcl⟩
    · exact Or.inl hc
    · exact Or.inr (Or.inl hc)
    · refine Or.inr (Or.inr ⟨c, hc, ?_⟩)
      obtain ⟨j, hj⟩ := List.mem_iff_getElem?.mp hcl
      have hca : c ≠ a := by intro hh; subst hh; exact hne hc
      have hjk : j ≠ k := by intro hh; subst hh; rw [hk] at hj; exact hca (Option.some.inj hj).symm
      refine List.mem_iff_getElem?.mpr ?_
      by_cases hlt : j < k
      · exact ⟨j, by simp [List.getElem?_eraseIdx, hlt, hj]⟩
      · refine ⟨j - 1, ?_⟩
        have : ¬ (j - 1 < k) := by omega
        have e : j - 1 + 1 = j := by omega
        simp [List.getElem?_eraseIdx, this, e, hj]

theorem curLeave_ne {l k a c} : curLeave l k a c = some (.node a) → l[k+1]? = some a := by
  unfold curLeave
  split
  · cases hnx : l[k+1]? <;> simp
  · rename_i h; intro h'; exact absurd h' h


theorem exists_run {α : Type} {m : M α} {s : DState} {r : α} {P : DState → Prop} (s' : DState)
    (hrun : m s = .ok (r, s')) (hpost : P s') : ∃ s', m s = .ok (r, s') ∧ P s' := ⟨s', hrun, hpost⟩

macro "dq_elems" : tactic => `(tactic| (intro b; simp only [hget_hset]; grind))
macro "dq_frame" : tactic => `(tactic| (intro b hb _; simp only [hget_hset]; grind))

theorem unlink_spec {s l k a} (h : WF s l) (hk : l[k]? = some a) :
    ∃ s', unlink a s = .ok ((), s') ∧ ((WF s' (l.eraseIdx k) ∧ Pres s s' l (l.eraseIdx k)) ∧
      s'.cursor = curLeave l k a s.cursor ∧
      hget s'.heap a = some ⟨none, none, elemAt s a⟩) := by
  have ha := h.links' hk
  have hlc := leaveCursor_spec h hk
  have hklt := lt_of_getElem? hk
  have hlen : ¬ s.len = 0 := by have := h.len; omega
  have hcur := curLeave_ok h hk
  have hal : a ∈ l := List.mem_of_getElem? hk
  have hhead := h.head
  have htail := h.tail
  have hlen' := h.len
  rw [List.head?_eq_getElem?] at hhead
  rw [List.getLast?_eq_getElem?] at htail
  rcases Nat.eq_zero_or_pos k with hk0 | hkpos
  · subst hk0
    cases hnx : l[1]? with
    | none =>
      have hl1 := List.getElem?_eq_none_iff.mp hnx
      apply exists_run
      case hrun =>
        simp [unlink, hlc, touch, getPrev, getNext, setPrev, setNext, decLen, ha, hnx, hget_hset, hlen]
        rfl
      refine ⟨wf_pres_intro h rfl rfl rfl ?_ ?_ (h.nodup.eraseIdx _) ?_ ?_ ?_ ?_ hcur, rfl, ?_⟩
      · dq_elems
      · dq_frame
      · intro i b hb
        have := lt_of_getElem? hb
        simp only [List.length_eraseIdx] at this
        grind
      · simp only [List.head?_eq_getElem?, List.getElem?_eraseIdx]; grind
      · simp only [List.getLast?_eq_getElem?, List.getElem?_eraseIdx, List.length_eraseIdx]; grind
      · simp only [hlen', List.length_eraseIdx]; grind
      · simp [hget_hset]
    | some nx =>
      have hnxn := h.links' hnx
      have hnl : nx ∈ l := List.mem_of_getElem? hnx
      have hl1 := lt_of_getElem? hnx
      have hne : nx ≠ a := by
        intro hh; subst hh; exact absurd (nodup_inj h.nodup hk hnx) (by omega)
      apply exists_run
      case hrun =>
        simp [unlink, hlc, touch, getPrev, getNext, setPrev, setNext, decLen, ha, hnx, hget_hset, hnxn, hne, hlen]
        rfl
      refine ⟨wf_pres_intro h rfl rfl rfl ?_ ?_ (h.nodup.eraseIdx _) ?_ ?_ ?_ ?_ hcur, rfl, ?_⟩
      · dq_elems
      · dq_frame
      · intro i b hb
        simp only [List.getElem?_eraseIdx] at hb ⊢
        split at hb
        all_goals
          have e1 := nodup_iff h.nodup hk hb
          have e3 := nodup_iff h.nodup hnx hb
          have hbn := h.links' hb
          simp only [hget_hset, e1, e3, hbn]
          grind
      · simp only [List.head?_eq_getElem?, List.getElem?_eraseIdx]; grind
      · simp only [htail, List.getLast?_eq_getElem?, List.getElem?_eraseIdx, List.length_eraseIdx]; grind
      · simp only [hlen', List.length_eraseIdx]; grind
      · simp [hget_hset]
  · obtain ⟨k', rfl⟩ : ∃ k', k = k' + 1 := ⟨k - 1, by omega⟩
    obtain ⟨p, hp⟩ : ∃ p, l[k']? = some p := ⟨l[k'], by simp⟩
    have hpn := h.links' hp
    have hpl : p ∈ l := List.mem_of_getElem? hp
    have hpa : p ≠ a := by
      intro hh; subst hh; exact absurd (nodup_inj h.nodup hk hp) (by omega)
    cases hnx : l[k'+1+1]? with
    | none =>
      have hl1 := List.getElem?_eq_none_iff.mp hnx
      apply exists_run
      case hrun =>
        simp [unlink, hlc, touch, getPrev, getNext, setPrev, setNext, decLen, ha, hp, hpn, hpa, hpa.symm, hnx, hget_hset, hlen]
        rfl
      refine ⟨wf_pres_intro h rfl rfl rfl ?_ ?_ (h.nodup.eraseIdx _) ?_ ?_ ?_ ?_ hcur, rfl, ?_⟩
      · dq_elems
      · dq_frame
      · intro i b hb
        simp only [List.getElem?_eraseIdx] at hb ⊢
        split at hb
        all_goals
          have e1 := nodup_iff h.nodup hk hb
          have e2 := nodup_iff h.nodup hp hb
          have hbn := h.links' hb
          simp only [hget_hset, e1, e2, hbn]
          grind
      · simp only [List.head?_eq_getElem?, List.getElem?_eraseIdx]; grind
      · simp only [List.getLast?_eq_getElem?, List.getElem?_eraseIdx, List.length_eraseIdx]; grind
      · simp only [hlen', List.length_eraseIdx]; grind
      · simp [hget_hset]
    | some nx =>
      have hnxn := h.links' hnx
      have hnl : nx ∈ l := List.mem_of_getElem? hnx
      have hl1 := lt_of_getElem? hnx
      have hne : nx ≠ a := by
        intro hh; subst hh; exact absurd (nodup_inj h.nodup hk hnx) (by omega)
      have hnp : nx ≠ p := by
        intro hh; subst hh; exact absurd (nodup_inj h.nodup hp hnx) (by omega)
      apply exists_run
      case hrun =>
        simp [unlink, hlc, touch, getPrev, getNext, setPrev, setNext, decLen, ha, hp, hpn, hpa, hpa.symm, hnx, hget_hset, hnxn, hne, hne.symm, hnp, hnp.symm, hlen]
        rfl
      refine ⟨wf_pres_intro h rfl rfl rfl ?_ ?_ (h.nodup.eraseIdx _) ?_ ?_ ?_ ?_ hcur, rfl, ?_⟩
      · dq_elems
      · dq_frame
      · intro i b hb
        simp only [List.getElem?_eraseIdx] at hb ⊢
        split at hb
        all_goals
          have e1 := nodup_iff h.nodup hk hb
          have e2 := nodup_iff h.nodup hp hb
          have e3 := nodup_iff h.nodup hnx hb
          have hbn := h.links' hb
          simp only [hget_hset, e1, e2, e3, hbn]
          grind
      · simp only [List.head?_eq_getElem?, List.getElem?_eraseIdx]; grind
      · simp only [htail, List.getLast?_eq_getElem?, List.getElem?_eraseIdx, List.length_eraseIdx]; grind
      · simp only [hlen', List.length_eraseIdx]; grind
      · simp [hget_hset]


/-! ## Read-only operations -/

theorem new_wf : WF new [] := by
  refine ⟨List.nodup_nil, ?_, rfl, rfl, rfl, Or.inl rfl, rfl, ?_, List.nodup_nil, ?_⟩
  · intro i a h; simp at h
  · intro a n h; simp [new, hget] at h
  · intro a h; simp [new] at h

theorem WF.head_eq {s l} (h : WF s l) : s.head = l[0]? := by
  rw [h.head, List.head?_eq_getElem?]

theorem WF.tail_eq {s l} (h : WF s l) : s.tail = l[l.length - 1]? := by
  rw [h.tail, List.getLast?_eq_getElem?]

theorem peekFrontPtr_spec {s l} (h : WF s l) : peekFrontPtr s = .ok (l.head?, s) := by
  simp [peekFrontPtr, h.head]

theorem peekFront_spec {s l} (h : WF s l) : peekFront s = .ok (l.head?, s) := by
  cases hl : l[0]? with
  | none => simp [peekFront, h.head_eq, hl, List.head?_eq_getElem?]
  | some a =>
    have ha := h.links' hl
    simp [peekFront, h.head_eq, hl, touch, ha, List.head?_eq_getElem?]

theorem nextNodePtr_spec {s l k a} (h : WF s l) (hk : l[k]? = some a) :
    nextNodePtr a s = .ok (l[k+1]?, s) := by
  simp [nextNodePtr, getNext, h.links' hk]

theorem nextNodePtr_detached {s l a} (hd : Detached s l a) :
    nextNodePtr a s = .ok (none, s) := by
  obtain ⟨_, e, he⟩ := hd
  simp [nextNodePtr, getNext, he]

theorem contains_mem {s l a} (h : WF s l) (ha : a ∈ l) : contains a s = .ok (true, s) := by
  obtain ⟨k, hk⟩ := List.mem_iff_getElem?.mp ha
  have han := h.links' hk
  rcases Nat.eq_zero_or_pos k with hk0 | hkpos
  · subst hk0
    simp [contains, touch, getPrev, han, isHead, h.head_eq, hk]
  · have : k - 1 < l.length := by have := lt_of_getElem? hk; omega
    have hp : l[k-1]? = some l[k-1] := by simp [this]
    have hk0 : ¬ k = 0 := by omega
    simp [contains, touch, getPrev, han, hk0, hp]

theorem contains_detached {s l a} (h : WF s l) (hd : Detached s l a) :
    contains a s = .ok (false, s) := by
  obtain ⟨hal, e, he⟩ := hd
  cases hl : l[0]? with
  | none => simp [contains, touch, getPrev, he, isHead, h.head_eq, hl]
  | some b =>
    have hb := h.links' hl
    have : b ≠ a := by intro hh; subst hh; exact hal (List.mem_of_getElem? hl)
    simp [contains, touch, getPrev, he, isHead, h.head_eq, hl, hb, this]

/-- `contains` answers list membership for nodes of this deque and for detached nodes. -/
theorem contains_spec {s l a} (h : WF s l) (ha : a ∈ l ∨ Detached s l a) :
    contains a s = .ok (decide (a ∈ l), s) := by
  rcases ha with ha | ha
  · simp [contains_mem h ha, ha]
  · simp [contains_detached h ha, ha.1]


/-! ## Freeing a detached node -/

/-- State after `free a`. -/
def freeState (s : DState) (a : Nat) : DState :=
  { s with heap := hset s.heap a none, freed := a :: s.freed }

theorem free_detached {s l a} (hd : Detached s l a) :
    free a s = .ok (⟨none, none, elemAt s a⟩, freeState s a) := by
  obtain ⟨_, e, he⟩ := hd
  simp [he, freeState, elemAt]

theorem WF.free {s l a} (h : WF s l) (hd : Detached s l a) : WF (freeState s a) l := by
  obtain ⟨hal, e, he⟩ := hd
  refine
    { nodup := h.nodup, links := ?_, head := h.head, tail := h.tail, len := h.len,
      cursor := h.cursor, fault := h.fault, bound := ?_, freedNodup := ?_, freedDead := ?_ }
  · intro i b hb
    have hba : a ≠ b := by intro hh; subst hh; exact hal (List.mem_of_getElem? hb)
    simpa [freeState, hget_hset, hba] using h.links i b hb
  · intro b n hn
    by_cases hba : a = b
    · subst hba; exact h.bound _ _ he
    · simp [freeState, hget_hset, hba] at hn
      exact h.bound b n hn
  · simp only [freeState, List.nodup_cons]
    refine ⟨?_, h.freedNodup⟩
    intro hf
    have := (h.freedDead a hf).1
    rw [he] at this; cases this
  · intro b hb
    simp only [freeState, List.mem_cons] at hb
    by_cases hba : a = b
    · subst hba
      exact ⟨by simp [freeState, hget_hset], h.bound _ _ he⟩
    · have hb' : b ∈ s.freed := by
        rcases hb with hb | hb
        · exact absurd hb.symm hba
        · exact hb
      have := h.freedDead b hb'
      simpa [freeState, hget_hset, hba] using this

theorem freeState_other {s a b} (hb : b ≠ a) : hget (freeState s a).heap b = hget s.heap b := by
  simp [freeState, hget_hset, Ne.symm hb]

theorem freeState_self {s a} : hget (freeState s a).heap a = none := by
  simp [freeState, hget_hset]

theorem Detached.free_other {s l a b} (hd : Detached s l b) (hb : b ≠ a) :
    Detached (freeState s a) l b := by
  obtain ⟨hbl, e, he⟩ := hd
  exact ⟨hbl, e, by rw [freeState_other hb]; exact he⟩


/-! ## `pop_front` -/

theorem popFrontBox_nil {s} (h : WF s []) : popFrontBox s = .ok (none, s) := by
  simp [popFrontBox, h.head]

theorem popFrontBox_spec {s l a} (h : WF s l) (hk : l[0]? = some a) :
    ∃ s', popFrontBox s = .ok (some a, s') ∧ ((WF s' (l.eraseIdx 0) ∧ Pres s s' l (l.eraseIdx 0)) ∧
      s'.cursor = curLeave l 0 a s.cursor ∧
      hget s'.heap a = some ⟨none, none, elemAt s a⟩) := by
  have ha := h.links' hk
  have hlc := leaveCursor_spec h hk
  have hklt := lt_of_getElem? hk
  have hlen : ¬ s.len = 0 := by have := h.len; omega
  have hcur := curLeave_ok h hk
  have hal : a ∈ l := List.mem_of_getElem? hk
  have hhead := h.head_eq
  have htail := h.tail_eq
  have hlen' := h.len
  cases hnx : l[1]? with
  | none =>
    have hl1 := List.getElem?_eq_none_iff.mp hnx
    apply exists_run
    case hrun =>
      simp [popFrontBox, hhead, hk, hlc, getNext, setPrev, setNext, decLen, ha, hnx, hget_hset, hlen]
      rfl
    refine ⟨wf_pres_intro h rfl rfl rfl ?_ ?_ (h.nodup.eraseIdx _) ?_ ?_ ?_ ?_ hcur, rfl, ?_⟩
    · dq_elems
    · dq_frame
    · intro i b hb
      have := lt_of_getElem? hb
      simp only [List.length_eraseIdx] at this
      grind
    · simp only [List.head?_eq_getElem?, List.getElem?_eraseIdx]; grind
    · simp only [List.getLast?_eq_getElem?, List.getElem?_eraseIdx, List.length_eraseIdx]; grind
    · simp only [hlen', List.length_eraseIdx]; grind
    · simp [hget_hset]
  | some nx =>
    have hnxn := h.links' hnx
    have hnl : nx ∈ l := List.mem_of_getElem? hnx
    have hl1 := lt_of_getElem? hnx
    have hne : nx ≠ a := by
      intro hh; subst hh; exact absurd (nodup_inj h.nodup hk hnx) (by omega)
    apply exists_run
    case hrun =>
      simp [popFrontBox, hhead, hk, hlc, getNext, setPrev, setNext, decLen, ha, hnx, hget_hset, hnxn, hne, hlen]
      rfl
    refine ⟨wf_pres_intro h rfl rfl rfl ?_ ?_ (h.nodup.eraseIdx _) ?_ ?_ ?_ ?_ hcur, rfl, ?_⟩
    · dq_elems
    · dq_frame
    · intro i b hb
      simp only [List.getElem?_eraseIdx] at hb ⊢
      split at hb
      all_goals
        have e1 := nodup_iff h.nodup hk hb
        have e3 := nodup_iff h.nodup hnx hb
        have hbn := h.links' hb
        simp only [hget_hset, e1, e3, hbn]
        grind
    · simp only [List.head?_eq_getElem?, List.getElem?_eraseIdx]; grind
    · simp only [htail, List.getLast?_eq_getElem?, List.getElem?_eraseIdx, List.length_eraseIdx]; grind
    · simp only [hlen', List.length_eraseIdx]; grind
    · simp [hget_hset]

theorem not_mem_eraseIdx {l : List Nat} (hn : l.Nodup) {k a : Nat} (hk : l[k]? = some a) :
    a ∉ l.eraseIdx k := by
  intro hm
  obtain ⟨i, hi⟩ := List.mem_iff_getElem?.mp hm
  rw [List.getElem?_eraseIdx] at hi
  split at hi
  · have := nodup_inj hn hi hk; omega
  · have := nodup_inj hn hi hk; omega

/-- What a freeing operation guarantees besides `WF`: exactly `a` is freed. -/
structure Frees (s s' : DState) (a : Nat) : Prop where
  next : s'.next = s.next
  freed : s'.freed = a :: s.freed
  dead : hget s'.heap a = none
  wasLive : ∃ n, hget s.heap a = some n
  elems : ∀ b, b ≠ a → (hget s'.heap b).map (·.elem) = (hget s.heap b).map (·.elem)

/-- Freeing `a` changes the liveness of no other address. -/
theorem Frees.live_iff {s s' a} (hp : Frees s s' a) (b : Nat) (hb : b ≠ a) :
    (hget s'.heap b).isSome = (hget s.heap b).isSome := by
  have := congrArg Option.isSome (hp.elems b hb)
  simpa using this

theorem popFront_nil {s} (h : WF s []) : popFront s = .ok (none, s) := by
  simp [popFront, popFrontBox_nil h]

theorem popFront_spec {s l a} (h : WF s l) (hk : l[0]? = some a) :
    ∃ s', popFront s = .ok (some (a, elemAt s a), s') ∧ (WF s' l.tail ∧ Frees s s' a ∧
      s'.cursor = curLeave l 0 a s.cursor ∧
      (∀ b, b ∉ l → hget s'.heap b = hget s.heap b)) := by
  obtain ⟨s1, hrun, ⟨hwf, hpres⟩, hcur, hdet⟩ := popFrontBox_spec h hk
  have hd : Detached s1 (l.eraseIdx 0) a := ⟨not_mem_eraseIdx h.nodup hk, _, hdet⟩
  have hal : a ∈ l := List.mem_of_getElem? hk
  refine ⟨freeState s1 a, ?_, ?_, ?_, ?_, ?_⟩
  · simp [popFront, hrun, hdet, freeState]
  · have := hwf.free hd
    simpa using this
  · refine ⟨hpres.next, by simp [freeState, hpres.freed], freeState_self, h.live hal, ?_⟩
    intro b hb
    rw [freeState_other hb]; exact hpres.elems b
  · simpa [freeState] using hcur
  · intro b hb
    have hba : b ≠ a := by intro hh; subst hh; exact hb hal
    rw [freeState_other hba]
    exact hpres.frame b hb (fun hm => hb (List.mem_of_mem_eraseIdx hm))

theorem unlinkAndDrop_spec {s l k a} (h : WF s l) (hk : l[k]? = some a) :
    ∃ s', unlinkAndDrop a s = .ok ((), s') ∧ (WF s' (l.eraseIdx k) ∧ Frees s s' a ∧
      s'.cursor = curLeave l k a s.cursor ∧
      (∀ b, b ∉ l → hget s'.heap b = hget s.heap b)) := by
  obtain ⟨s1, hrun, ⟨hwf, hpres⟩, hcur, hdet⟩ := unlink_spec h hk
  have hd : Detached s1 (l.eraseIdx k) a := ⟨not_mem_eraseIdx h.nodup hk, _, hdet⟩
  have hal : a ∈ l := List.mem_of_getElem? hk
  refine ⟨freeState s1 a, ?_, ?_, ?_, ?_, ?_⟩
  · simp [unlinkAndDrop, hrun, hdet, freeState]
  · exact hwf.free hd
  · refine ⟨hpres.next, by simp [freeState, hpres.freed], freeState_self, h.live hal, ?_⟩
    intro b hb
    rw [freeState_other hb]; exact hpres.elems b
  · simpa [freeState] using hcur
  · intro b hb
    have hba : b ≠ a := by intro hh; subst hh; exact hb hal
    rw [freeState_other hba]
    exact hpres.frame b hb (fun hm => hb (List.mem_of_mem_eraseIdx hm))


/-! ## `push_back` -/

theorem cursor_mono {c : Option Cursor} {l l' : List Nat} (hsub : ∀ a, a ∈ l → a ∈ l')
    (hc : c = none ∨ c = some .done ∨ ∃ a, c = some (.node a) ∧ a ∈ l) :
    c = none ∨ c = some .done ∨ ∃ a, c = some (.node a) ∧ a ∈ l' := by
  rcases hc with hc | hc | ⟨a, hc, ha⟩
  · exact Or.inl hc
  · exact Or.inr (Or.inl hc)
  · exact Or.inr (Or.inr ⟨a, hc, hsub a ha⟩)

/-- `push_back` of a box: any live node that is not linked in this list. -/
theorem pushBackBox_spec {s l a n} (h : WF s l) (hal : a ∉ l) (han : hget s.heap a = some n) :
    ∃ s', pushBackBox a s = .ok (a, s') ∧ ((WF s' (l ++ [a]) ∧ Pres s s' l (l ++ [a])) ∧
      s'.cursor = s.cursor) := by
  have htail := h.tail_eq
  have hhead := h.head_eq
  have hlen' := h.len
  have hnd : (l ++ [a]).Nodup := by
    rw [List.nodup_append]
    refine ⟨h.nodup, by simp, ?_⟩
    intro x hx y hy
    simp at hy; subst hy
    intro hh; subst hh; exact hal hx
  have hcur := cursor_mono (l' := l ++ [a]) (fun x hx => List.mem_append_left _ hx) h.cursor
  have hel : elemAt s a = n.elem := elemAt_of han
  rcases Nat.eq_zero_or_pos l.length with hl0 | hlpos
  · have hl : l = [] := List.eq_nil_of_length_eq_zero hl0
    subst hl
    apply exists_run
    case hrun =>
      simp [pushBackBox, setNext, setPrev, han, htail, hget_hset]
      rfl
    refine ⟨wf_pres_intro h rfl rfl rfl ?_ ?_ hnd ?_ ?_ ?_ ?_ hcur, rfl⟩
    · dq_elems
    · intro b _ hb; simp only [hget_hset]; grind
    · intro i b hb
      have : i = 0 := by
        have := lt_of_getElem? hb
        simp only [List.length_append, List.length_nil, List.length_singleton] at this; omega
      subst this
      simp at hb; subst hb
      simp [hget_hset, hel]
    · simp
    · simp
    · simp [hlen']
  · obtain ⟨t, ht⟩ : ∃ t, l[l.length - 1]? = some t := ⟨l[l.length - 1], by simp⟩
    have htn := h.links' ht
    have htl : t ∈ l := List.mem_of_getElem? ht
    have hta : t ≠ a := by intro hh; subst hh; exact hal htl
    apply exists_run
    case hrun =>
      simp [pushBackBox, setNext, setPrev, han, htail, ht, htn, hta, hta.symm, hget_hset]
      rfl
    refine ⟨wf_pres_intro h rfl rfl rfl ?_ ?_ hnd ?_ ?_ ?_ ?_ hcur, rfl⟩
    · dq_elems
    · intro b _ hb; simp only [hget_hset]; grind
    · intro i b hb
      simp only [List.getElem?_append] at hb ⊢
      split at hb
      · have e1 := nodup_iff h.nodup ht hb
        have hbn := h.links' hb
        have hba : a ≠ b := by intro hh; subst hh; exact hal (List.mem_of_getElem? hb)
        simp only [hget_hset, e1, hbn, hba]
        grind
      · have hi : i = l.length := by
          have := lt_of_getElem? hb
          simp at this; omega
        subst hi
        simp at hb; subst hb
        simp only [hget_hset]
        grind
    · simp only [List.head?_eq_getElem?, List.getElem?_append]; grind
    · simp
    · simp [hlen']

/-- State after `alloc n`. -/
def allocState (s : DState) (n : Node) : DState :=
  { s with heap := hset s.heap s.next (some n), next := s.next + 1 }

/-- The allocation counter is never a live address and was never freed: a fresh address is
really fresh, and a freed address is never handed out again. -/
theorem alloc_fresh {s l} (h : WF s l) :
    hget s.heap s.next = none ∧ s.next ∉ s.freed ∧ s.next ∉ l := by
  refine ⟨?_, ?_, ?_⟩
  · cases hn : hget s.heap s.next with
    | none => rfl
    | some n => exact absurd (h.bound _ _ hn) (Nat.lt_irrefl _)
  · intro hf; exact absurd (h.freedDead _ hf).2 (Nat.lt_irrefl _)
  · intro hm
    obtain ⟨n, hn⟩ := h.live hm
    exact absurd (h.bound _ _ hn) (Nat.lt_irrefl _)

theorem WF.alloc {s l} (h : WF s l) (n : Node) : WF (allocState s n) l := by
  obtain ⟨hf1, hf2, hf3⟩ := alloc_fresh h
  refine
    { nodup := h.nodup, links := ?_, head := h.head, tail := h.tail, len := h.len,
      cursor := h.cursor, fault := h.fault, bound := ?_, freedNodup := h.freedNodup,
      freedDead := ?_ }
  · intro i b hb
    have hba : s.next ≠ b := by intro hh; subst hh; exact hf3 (List.mem_of_getElem? hb)
    simpa [allocState, hget_hset, hba] using h.links i b hb
  · intro b m hm
    by_cases hba : s.next = b
    · subst hba; simp [allocState]
    · simp [allocState, hget_hset, hba] at hm
      have := h.bound b m hm
      simp [allocState]; omega
  · intro b hb
    have hb' : b ∈ s.freed := hb
    have hba : s.next ≠ b := by intro hh; subst hh; exact hf2 hb'
    have := h.freedDead b hb'
    simp [allocState, hget_hset, hba, this.1]; omega

/-- What `push_back` of a new element guarantees besides `WF`. -/
structure Allocs (s s' : DState) (e : Nat) : Prop where
  next : s'.next = s.next + 1
  freed : s'.freed = s.freed
  wasDead : hget s.heap s.next = none
  elem : (hget s'.heap s.next).map (·.elem) = some e
  elems : ∀ b, b ≠ s.next → (hget s'.heap b).map (·.elem) = (hget s.heap b).map (·.elem)

/-- Allocating changes the liveness of no other address. -/
theorem Allocs.live_iff {s s' e} (hp : Allocs s s' e) (b : Nat) (hb : b ≠ s.next) :
    (hget s'.heap b).isSome = (hget s.heap b).isSome := by
  have := congrArg Option.isSome (hp.elems b hb)
  simpa using this

theorem pushBack_spec {s l} (h : WF s l) (e : Nat) :
    ∃ s', pushBack e s = .ok (s.next, s') ∧ (WF s' (l ++ [s.next]) ∧ Allocs s s' e ∧
      s'.cursor = s.cursor ∧
      (∀ b, b ∉ l → b ≠ s.next → hget s'.heap b = hget s.heap b)) := by
  obtain ⟨hf1, hf2, hf3⟩ := alloc_fresh h
  have h0 := h.alloc ⟨none, none, e⟩
  have hlive : hget (allocState s ⟨none, none, e⟩).heap s.next = some ⟨none, none, e⟩ := by
    simp [allocState, hget_hset]
  obtain ⟨s', hrun, ⟨hwf, hpres⟩, hcur⟩ := pushBackBox_spec h0 hf3 hlive
  have hother : ∀ b, b ≠ s.next → hget (allocState s ⟨none, none, e⟩).heap b = hget s.heap b := by
    intro b hb; simp [allocState, hget_hset, Ne.symm hb]
  refine ⟨s', ?_, hwf, ?_, ?_, ?_⟩
  · have : pushBack e s = pushBackBox s.next (allocState s ⟨none, none, e⟩) := by
      simp [pushBack, allocState]
    rw [this]; exact hrun
  · refine ⟨by simp [hpres.next, allocState], by simp [hpres.freed, allocState], hf1, ?_, ?_⟩
    · rw [hpres.elems, hlive]; rfl
    · intro b hb; rw [hpres.elems, hother b hb]
  · simpa [allocState] using hcur
  · intro b hb hbn
    rw [hpres.frame b hb (by simp [hb, hbn]), hother b hbn]


/-! ## `move_to_back` -/

theorem moveToBack_last {s l k a} (h : WF s l) (hk : l[k]? = some a) (hlast : k + 1 = l.length) :
    moveToBack a s = .ok ((), s) := by
  have ha := h.links' hk
  have hk' : l.length - 1 = k := by omega
  simp [moveToBack, touch, isTail, ha, h.tail_eq, hk', hk]

theorem eraseIdx_last_append {l : List Nat} {k a : Nat} (hk : l[k]? = some a)
    (hlast : k + 1 = l.length) : l.eraseIdx k ++ [a] = l := by
  apply List.ext_getElem?
  intro i
  simp only [List.getElem?_append, List.getElem?_eraseIdx, List.length_eraseIdx]
  have := lt_of_getElem? hk
  grind

theorem curLeave_ok_append {s l k a} (h : WF s l) (hk : l[k]? = some a) :
    curLeave l k a s.cursor = none ∨ curLeave l k a s.cursor = some .done ∨
      ∃ b, curLeave l k a s.cursor = some (.node b) ∧ b ∈ l.eraseIdx k ++ [a] :=
  cursor_mono (fun x hx => List.mem_append_left _ hx) (curLeave_ok h hk)

theorem moveToBack_inner {s l k a} (h : WF s l) (hk : l[k]? = some a) (hin : k + 1 < l.length) :
    ∃ s', moveToBack a s = .ok ((), s') ∧
      ((WF s' (l.eraseIdx k ++ [a]) ∧ Pres s s' l (l.eraseIdx k ++ [a])) ∧
      s'.cursor = curLeave l k a s.cursor) := by
  have ha := h.links' hk
  have hlc := leaveCursor_spec h hk
  have hcur := curLeave_ok_append h hk
  have hal : a ∈ l := List.mem_of_getElem? hk
  have hklt := lt_of_getElem? hk
  have hhead := h.head_eq
  have htail := h.tail_eq
  have hlen' := h.len
  have hnd : (l.eraseIdx k ++ [a]).Nodup := by
    rw [List.nodup_append]
    refine ⟨h.nodup.eraseIdx k, by simp, ?_⟩
    intro x hx y hy
    simp at hy; subst hy
    intro hh; subst hh; exact not_mem_eraseIdx h.nodup hk hx
  obtain ⟨nx, hnx⟩ : ∃ nx, l[k+1]? = some nx := ⟨l[k+1], by simp [hin]⟩
  have hnxn := h.links' hnx
  have hnl : nx ∈ l := List.mem_of_getElem? hnx
  have hne : nx ≠ a := by
    intro hh; subst hh; exact absurd (nodup_inj h.nodup hk hnx) (by omega)
  obtain ⟨t, ht⟩ : ∃ t, l[l.length - 1]? = some t := ⟨l[l.length - 1], by simp <;> omega⟩
  have htn := h.links' ht
  have htl : t ∈ l := List.mem_of_getElem? ht
  have hta : t ≠ a := by
    intro hh; subst hh; exact absurd (nodup_inj h.nodup hk ht) (by omega)
  rcases Nat.eq_zero_or_pos k with hk0 | hkpos
  · subst hk0
    by_cases hlen2 : l.length = 2
    · -- the successor is the tail
      have htnx : t = nx := by
        have : l.length - 1 = 1 := by omega
        rw [this, hnx] at ht; exact (Option.some.inj ht).symm
      subst htnx
      apply exists_run
      case hrun =>
        simp [moveToBack, touch, isTail, hlc, getPrev, getNext, setPrev, setNext, ha, hnx, htail, ht, htn,
          hta, hta.symm, hget_hset]
        rfl
      refine ⟨wf_pres_intro h rfl rfl rfl ?_ ?_ hnd ?_ ?_ ?_ ?_ hcur, rfl⟩
      · dq_elems
      · dq_frame
      · intro i b hb
        simp only [List.getElem?_append, List.getElem?_eraseIdx, List.length_eraseIdx, hklt, ↓reduceIte] at hb ⊢
        split at hb
        · split at hb
          all_goals
            have e1 := nodup_iff h.nodup hk hb
            have e3 := nodup_iff h.nodup hnx hb
            have hbn := h.links' hb
            simp only [hget_hset, e1, e3, hbn]
            grind
        · have hi : i = l.length - 1 := by
            have := lt_of_getElem? hb
            simp only [List.length_singleton] at this; omega
          subst hi
          have hba : b = a := by simp at hb; exact hb.symm
          subst hba
          simp only [hget_hset]
          grind
      · simp only [List.head?_eq_getElem?, List.getElem?_append, List.getElem?_eraseIdx, List.length_eraseIdx, hklt, ↓reduceIte]; grind
      · simp
      · simp only [hlen', List.length_append, List.length_eraseIdx, List.length_singleton]; grind
    · -- the successor is not the tail
      have htnx : t ≠ nx := by
        intro hh; subst hh; exact absurd (nodup_inj h.nodup hnx ht) (by omega)
      apply exists_run
      case hrun =>
        simp [moveToBack, touch, isTail, hlc, getPrev, getNext, setPrev, setNext, ha, hnx, hnxn, htail, ht, htn,
          hta, hta.symm, hne, hne.symm, htnx, htnx.symm, hget_hset]
        rfl
      refine ⟨wf_pres_intro h rfl rfl rfl ?_ ?_ hnd ?_ ?_ ?_ ?_ hcur, rfl⟩
      · dq_elems
      · dq_frame
      · intro i b hb
        simp only [List.getElem?_append, List.getElem?_eraseIdx, List.length_eraseIdx, hklt, ↓reduceIte] at hb ⊢
        split at hb
        · split at hb
          all_goals
            have e1 := nodup_iff h.nodup hk hb
            have e3 := nodup_iff h.nodup hnx hb
            have e4 := nodup_iff h.nodup ht hb
            have hbn := h.links' hb
            simp only [hget_hset, e1, e3, e4, hbn]
            grind
        · have hi : i = l.length - 1 := by
            have := lt_of_getElem? hb
            simp only [List.length_singleton] at this; omega
          subst hi
          have hba : b = a := by simp at hb; exact hb.symm
          subst hba
          simp only [hget_hset]
          grind
      · simp only [List.head?_eq_getElem?, List.getElem?_append, List.getElem?_eraseIdx, List.length_eraseIdx, hklt, ↓reduceIte]; grind
      · simp
      · simp only [hlen', List.length_append, List.length_eraseIdx, List.length_singleton]; grind
  · obtain ⟨k', rfl⟩ : ∃ k', k = k' + 1 := ⟨k - 1, by omega⟩
    obtain ⟨p, hp⟩ : ∃ p, l[k']? = some p := ⟨l[k'], by simp <;> omega⟩
    have hpn := h.links' hp
    have hpl : p ∈ l := List.mem_of_getElem? hp
    have hpa : p ≠ a := by
      intro hh; subst hh; exact absurd (nodup_inj h.nodup hk hp) (by omega)
    have hpnx : p ≠ nx := by
      intro hh; subst hh; exact absurd (nodup_inj h.nodup hnx hp) (by omega)
    have hpt : p ≠ t := by
      intro hh; subst hh; exact absurd (nodup_inj h.nodup ht hp) (by omega)
    by_cases hlen2 : l.length = k' + 3
    · have htnx : t = nx := by
        have : l.length - 1 = k' + 1 + 1 := by omega
        rw [this, hnx] at ht; exact (Option.some.inj ht).symm
      subst htnx
      apply exists_run
      case hrun =>
        simp [moveToBack, touch, isTail, hlc, getPrev, getNext, setPrev, setNext, ha, hnx, htail, ht, htn,
          hp, hpn, hpa, hpa.symm, hpt, hpt.symm, hta, hta.symm, hget_hset]
        rfl
      refine ⟨wf_pres_intro h rfl rfl rfl ?_ ?_ hnd ?_ ?_ ?_ ?_ hcur, rfl⟩
      · dq_elems
      · dq_frame
      · intro i b hb
        simp only [List.getElem?_append, List.getElem?_eraseIdx, List.length_eraseIdx, hklt, ↓reduceIte] at hb ⊢
        split at hb
        · split at hb
          all_goals
            have e1 := nodup_iff h.nodup hk hb
            have e2 := nodup_iff h.nodup hp hb
            have e3 := nodup_iff h.nodup hnx hb
            have hbn := h.links' hb
            simp only [hget_hset, e1, e2, e3, hbn]
            grind
        · have hi : i = l.length - 1 := by
            have := lt_of_getElem? hb
            simp only [List.length_singleton] at this; omega
          subst hi
          have hba : b = a := by simp at hb; exact hb.symm
          subst hba
          simp only [hget_hset]
          grind
      · simp only [List.head?_eq_getElem?, List.getElem?_append, List.getElem?_eraseIdx, List.length_eraseIdx, hklt, ↓reduceIte]; grind
      · simp
      · simp only [hlen', List.length_append, List.length_eraseIdx, List.length_singleton]; grind
    · have htnx : t ≠ nx := by
        intro hh; subst hh; exact absurd (nodup_inj h.nodup hnx ht) (by omega)
      apply exists_run
      case hrun =>
        simp [moveToBack, touch, isTail, hlc, getPrev, getNext, setPrev, setNext, ha, hnx, hnxn, htail, ht, htn,
          hp, hpn, hpa, hpa.symm, hpt, hpt.symm, hpnx, hpnx.symm, hta, hta.symm, hne, hne.symm, htnx, htnx.symm,
          hget_hset]
        rfl
      refine ⟨wf_pres_intro h rfl rfl rfl ?_ ?_ hnd ?_ ?_ ?_ ?_ hcur, rfl⟩
      · dq_elems
      · dq_frame
      · intro i b hb
        simp only [List.getElem?_append, List.getElem?_eraseIdx, List.length_eraseIdx, hklt, ↓reduceIte] at hb ⊢
        split at hb
        · split at hb
          all_goals
            have e1 := nodup_iff h.nodup hk hb
            have e2 := nodup_iff h.nodup hp hb
            have e3 := nodup_iff h.nodup hnx hb
            have e4 := nodup_iff h.nodup ht hb
            have hbn := h.links' hb
            simp only [hget_hset, e1, e2, e3, e4, hbn]
            grind
        · have hi : i = l.length - 1 := by
            have := lt_of_getElem? hb
            simp only [List.length_singleton] at this; omega
          subst hi
          have hba : b = a := by simp at hb; exact hb.symm
          subst hba
          simp only [hget_hset]
          grind
      · simp only [List.head?_eq_getElem?, List.getElem?_append, List.getElem?_eraseIdx, List.length_eraseIdx, hklt, ↓reduceIte]; grind
      · simp
      · simp only [hlen', List.length_append, List.length_eraseIdx, List.length_singleton]; grind


theorem moveFrontToBack_nil {s} (h : WF s []) : moveFrontToBack s = .ok ((), s) := by
  simp [moveFrontToBack, h.head]

theorem moveFrontToBack_eq {s l a} (h : WF s l) (hk : l[0]? = some a) :
    moveFrontToBack s = moveToBack a s := by
  simp [moveFrontToBack, h.head_eq, hk]

/-! ## Iterator -/

/-- Cursor after yielding the node at index `j`. -/
def curAfter (l : List Nat) (j : Nat) : Option Cursor :=
  match l[j+1]? with
  | some b => some (.node b)
  | none => some .done

theorem iterNext_at {s l c j} (h : WF s l) (hc : s.cursor = some (.node c)) (hj : l[j]? = some c) :
    iterNext s = .ok (some (c, elemAt s c), { s with cursor := curAfter l j }) := by
  have hcn := h.links' hj
  cases hnx : l[j+1]? <;>
    simp [iterNext, hc, getElem, advanceCursor, getNext, hcn, hnx, curAfter]

theorem iterNext_done {s l} (h : WF s l) (hc : s.cursor = some .done) :
    iterNext s = .ok (none, { s with cursor := none }) := by
  simp [iterNext, hc, advanceCursor]

theorem iterNext_start_nil {s} (h : WF s []) (hc : s.cursor = none) :
    iterNext s = .ok (none, s) := by
  have hh : s.head = none := by simpa using h.head
  simp [iterNext, hc, hh, advanceCursor]
  cases s; simp_all

theorem iterNext_start {s l a} (h : WF s l) (hc : s.cursor = none) (hk : l[0]? = some a) :
    iterNext s = .ok (some (a, elemAt s a), { s with cursor := curAfter l 0 }) := by
  have han := h.links' hk
  cases hnx : l[0+1]? <;>
    simp [iterNext, hc, h.head_eq, hk, getElem, advanceCursor, getNext, han, hnx, curAfter]

theorem curAfter_ok (l : List Nat) (j : Nat) :
    curAfter l j = none ∨ curAfter l j = some .done ∨
      ∃ a, curAfter l j = some (.node a) ∧ a ∈ l := by
  unfold curAfter
  cases hnx : l[j+1]? with
  | none => simp
  | some b => exact Or.inr (Or.inr ⟨b, rfl, List.mem_of_getElem? hnx⟩)

theorem WF.setCursor {s l} (h : WF s l) (c : Option Cursor)
    (hc : c = none ∨ c = some .done ∨ ∃ a, c = some (.node a) ∧ a ∈ l) :
    WF { s with cursor := c } l :=
  { h with cursor := hc }

/-- `n` consecutive calls of `next`. -/
def iterRun : Nat → M (List (Option (Nat × Nat)))
  | 0 => pure []
  | n + 1 => do
    let x ← iterNext
    let xs ← iterRun n
    pure (x :: xs)

theorem iterRun_from {s l} (h : WF s l) :
    ∀ d j c, d + j = l.length → l[j]? = some c → s.cursor = some (.node c) →
      iterRun (d + 1) s =
        .ok ((l.drop j).map (fun a => some (a, elemAt s a)) ++ [none], { s with cursor := none }) := by
  intro d
  induction d generalizing s with
  | zero =>
    intro j c hd hj hc
    have := lt_of_getElem? hj
    omega
  | succ d ih =>
    intro j c hd hj hc
    have hstep := iterNext_at h hc hj
    have hdrop : l.drop j = c :: l.drop (j + 1) := by
      have hlt := lt_of_getElem? hj
      rw [List.drop_eq_getElem_cons hlt]
      congr 1
      exact (List.getElem?_eq_some_iff.mp hj).2
    have hwf' := h.setCursor (curAfter l j) (curAfter_ok l j)
    cases hnx : l[j+1]? with
    | none =>
      have hlen := List.getElem?_eq_none_iff.mp hnx
      have hd0 : d = 0 := by omega
      subst hd0
      have hca : curAfter l j = some .done := by simp [curAfter, hnx]
      have hdn := iterNext_done hwf' (by simp [hca])
      have hdrop2 : l.drop (j + 1) = [] := List.drop_eq_nil_of_le hlen
      simp [iterRun, hstep, hdn, hdrop, hdrop2]
    | some b =>
      have hca : curAfter l j = some (.node b) := by simp [curAfter, hnx]
      have := ih hwf' (j + 1) b (by omega) hnx (by simp [hca])
      have hel : ∀ x, elemAt { s with cursor := curAfter l j } x = elemAt s x := fun x => rfl
      simp only [hel] at this
      rw [iterRun]
      simp [hstep, this, hdrop]

/-- Starting with no cursor, `length + 1` calls of `next` yield the nodes of `l` front to back
(address and element), then `None`, and leave the state exactly as it was (cursor `None` again,
so the next call starts over). -/
theorem iterRun_all {s l} (h : WF s l) (hc : s.cursor = none) :
    iterRun (l.length + 1) s =
      .ok (l.map (fun a => some (a, elemAt s a)) ++ [none], s) := by
  cases hl : l with
  | nil =>
    subst hl
    simp [iterRun, iterNext_start_nil h hc]
  | cons a t =>
    subst hl
    have hk : (a :: t)[0]? = some a := by simp
    have hstep := iterNext_start h hc hk
    have hwf' := h.setCursor (curAfter (a :: t) 0) (curAfter_ok _ 0)
    have hs : ({ s with cursor := none } : DState) = s := by cases s; simp_all
    cases hnx : (a :: t)[0+1]? with
    | none =>
      have hlen := List.getElem?_eq_none_iff.mp hnx
      have ht : t = [] := by
        simp only [List.length_cons] at hlen; exact List.eq_nil_of_length_eq_zero (by omega)
      subst ht
      have hca : curAfter [a] 0 = some .done := by simp [curAfter]
      have hdn := iterNext_done hwf' (by simp [hca])
      simp [iterRun, hstep, hdn, hs]
    | some b =>
      have hca : curAfter (a :: t) 0 = some (.node b) := by simp only [curAfter, hnx]
      have htl : 0 < t.length := by
        have := lt_of_getElem? hnx; simp only [List.length_cons] at this; omega
      have := iterRun_from hwf' t.length 1 b (by simp only [List.length_cons]) hnx
        (by simp [hca])
      have hel : ∀ x, elemAt { s with cursor := curAfter (a :: t) 0 } x = elemAt s x := fun x => rfl
      simp only [hel] at this
      have hlenEq : (a :: t).length + 1 = (t.length + 1) + 1 := by
        simp only [List.length_cons]
      rw [hlenEq, iterRun]
      simp [hstep, this, hs]


/-! ## `Drop` -/

theorem dropLoop_spec : ∀ (l : List Nat) (s : DState) (fuel : Nat), WF s l → l.length < fuel →
    ∃ s', dropLoop fuel s = .ok ((), s') ∧ WF s' [] ∧
      s'.freed = l.reverse ++ s.freed ∧ s'.next = s.next ∧
      (∀ a, a ∈ l → hget s'.heap a = none) ∧
      (∀ b, b ∉ l → hget s'.heap b = hget s.heap b) := by
  intro l
  induction l with
  | nil =>
    intro s fuel h hf
    obtain ⟨f, rfl⟩ : ∃ f, fuel = f + 1 := ⟨fuel - 1, by simp at hf; omega⟩
    refine ⟨s, ?_, h, by simp, rfl, by simp, fun _ _ => rfl⟩
    simp [dropLoop, popFront_nil h]
  | cons a t ih =>
    intro s fuel h hf
    obtain ⟨f, rfl⟩ : ∃ f, fuel = f + 1 := ⟨fuel - 1, by simp at hf; omega⟩
    have hk : (a :: t)[0]? = some a := by simp
    obtain ⟨s1, hrun, hwf, hfr, _, hframe⟩ := popFront_spec h hk
    have hwf' : WF s1 t := by simpa using hwf
    obtain ⟨s2, hrun2, hwf2, hfreed2, hnext2, hdead2, hframe2⟩ :=
      ih s1 f hwf' (by simp at hf; omega)
    have hat : a ∉ t := (List.nodup_cons.mp h.nodup).1
    refine ⟨s2, ?_, hwf2, ?_, by rw [hnext2, hfr.next], ?_, ?_⟩
    · simp [dropLoop, hrun, hrun2]
    · rw [hfreed2, hfr.freed]; simp
    · intro b hb
      rcases List.mem_cons.mp hb with hb | hb
      · subst hb; rw [hframe2 b hat]; exact hfr.dead
      · exact hdead2 b hb
    · intro b hb
      have hbt : b ∉ t := fun hm => hb (List.mem_cons_of_mem _ hm)
      rw [hframe2 b hbt, hframe b hb]

/-- `Drop`: every node of `l` is freed exactly once (the log grows by `l`, in pop order, and
`WF` keeps it duplicate-free), nothing else is touched, and the list is empty afterwards. -/
theorem dropAll_spec {s l} (h : WF s l) :
    ∃ s', dropAll s = .ok ((), s') ∧ WF s' [] ∧
      s'.freed = l.reverse ++ s.freed ∧ s'.next = s.next ∧
      (∀ a, a ∈ l → hget s'.heap a = none) ∧
      (∀ b, b ∉ l → hget s'.heap b = hget s.heap b) := by
  obtain ⟨s', hrun, rest⟩ := dropLoop_spec l s (s.len + 1) h (by rw [h.len]; omega)
  exact ⟨s', by simp [dropAll, hrun], rest⟩


/-! ## List-level statements -/

theorem getElem?_idxOf {l : List Nat} {a : Nat} (h : a ∈ l) : l[l.idxOf a]? = some a := by
  grind

theorem erase_eq (l : List Nat) (a : Nat) : l.erase a = l.eraseIdx (l.idxOf a) :=
  List.erase_eq_eraseIdx_of_idxOf rfl

/-- Successor of `a` in `l`. -/
def succOf (l : List Nat) (a : Nat) : Option Nat := l[l.idxOf a + 1]?

/-- List-level cursor update when `a` leaves its position in `l` (it is unlinked, popped or
moved to the back): a cursor at `a` steps to the successor of `a`, or to `Done`. -/
def leave (l : List Nat) (a : Nat) (c : Option Cursor) : Option Cursor :=
  if c = some (.node a) then
    (match succOf l a with
     | some b => some (.node b)
     | none => some .done)
  else c

theorem leave_eq (l : List Nat) (a : Nat) (c : Option Cursor) :
    leave l a c = curLeave l (l.idxOf a) a c := rfl

theorem leave_ne {l : List Nat} (hn : l.Nodup) {a : Nat} (ha : a ∈ l) (c : Option Cursor) :
    leave l a c ≠ some (.node a) := by
  intro hc
  rw [leave_eq] at hc
  have h1 := curLeave_ne hc
  have := nodup_inj hn h1 (getElem?_idxOf ha)
  omega

theorem getLast?_eq_some_iff {l : List Nat} (hn : l.Nodup) {a : Nat} (ha : a ∈ l) :
    l.getLast? = some a ↔ l.idxOf a + 1 = l.length := by
  have hk := getElem?_idxOf ha
  have hlt := lt_of_getElem? hk
  rw [List.getLast?_eq_getElem?]
  constructor
  · intro h; have := nodup_inj hn h hk; omega
  · intro h
    have : l.length - 1 = l.idxOf a := by omega
    rw [this]; exact hk

theorem nextNodePtr_ok {s l a} (h : WF s l) (ha : a ∈ l) :
    nextNodePtr a s = .ok (succOf l a, s) :=
  nextNodePtr_spec h (getElem?_idxOf ha)

theorem unlink_ok {s l a} (h : WF s l) (ha : a ∈ l) :
    ∃ s', unlink a s = .ok ((), s') ∧ WF s' (l.erase a) ∧ Pres s s' l (l.erase a) ∧
      s'.cursor = leave l a s.cursor ∧ Detached s' (l.erase a) a := by
  have hk := getElem?_idxOf ha
  obtain ⟨s', hrun, ⟨hwf, hpres⟩, hcur, hdet⟩ := unlink_spec h hk
  rw [← erase_eq] at hwf hpres
  refine ⟨s', hrun, hwf, hpres, hcur, ?_, _, hdet⟩
  rw [erase_eq]; exact not_mem_eraseIdx h.nodup hk

theorem unlinkAndDrop_ok {s l a} (h : WF s l) (ha : a ∈ l) :
    ∃ s', unlinkAndDrop a s = .ok ((), s') ∧ WF s' (l.erase a) ∧ Frees s s' a ∧
      s'.cursor = leave l a s.cursor ∧ (∀ b, b ∉ l → hget s'.heap b = hget s.heap b) := by
  have hk := getElem?_idxOf ha
  obtain ⟨s', hrun, hwf, hfr, hcur, hframe⟩ := unlinkAndDrop_spec h hk
  rw [← erase_eq] at hwf
  exact ⟨s', hrun, hwf, hfr, hcur, hframe⟩

theorem popFront_ok {s a t} (h : WF s (a :: t)) :
    ∃ s', popFront s = .ok (some (a, elemAt s a), s') ∧ WF s' t ∧ Frees s s' a ∧
      s'.cursor = leave (a :: t) a s.cursor ∧
      (∀ b, b ∉ a :: t → hget s'.heap b = hget s.heap b) := by
  have hk : (a :: t)[0]? = some a := by simp
  obtain ⟨s', hrun, hwf, hfr, hcur, hframe⟩ := popFront_spec h hk
  have hidx : (a :: t).idxOf a = 0 := by simp
  refine ⟨s', hrun, by simpa using hwf, hfr, ?_, hframe⟩
  rw [leave_eq, hidx]; exact hcur

theorem moveToBack_ok {s l a} (h : WF s l) (ha : a ∈ l) :
    ∃ s', moveToBack a s = .ok ((), s') ∧ WF s' (l.erase a ++ [a]) ∧
      Pres s s' l (l.erase a ++ [a]) ∧
      s'.cursor = if l.getLast? = some a then s.cursor else leave l a s.cursor := by
  have hk := getElem?_idxOf ha
  have hlt := lt_of_getElem? hk
  by_cases hlast : l.idxOf a + 1 = l.length
  · have hl := (getLast?_eq_some_iff h.nodup ha).mpr hlast
    have hlist : l.erase a ++ [a] = l := by rw [erase_eq]; exact eraseIdx_last_append hk hlast
    refine ⟨s, moveToBack_last h hk hlast, by rw [hlist]; exact h, ?_, by simp [hl]⟩
    exact ⟨rfl, rfl, rfl, fun _ => rfl, fun _ _ _ => rfl⟩
  · have hl : ¬ l.getLast? = some a := fun hh => hlast ((getLast?_eq_some_iff h.nodup ha).mp hh)
    obtain ⟨s', hrun, ⟨hwf, hpres⟩, hcur⟩ := moveToBack_inner h hk (by omega)
    rw [← erase_eq] at hwf hpres
    exact ⟨s', hrun, hwf, hpres, by simp [hl, leave_eq, hcur]⟩


/-! ## Arbitrary sequences of list-level commands -/

/-- What the owner of a deque (a cache) can do with it. Node arguments are addresses. -/
inductive Cmd where
  | push (e : Nat)            -- `push_back(Box::new(DeqNode::new(e)))`
  | popFront                  -- `pop_front()` and drop of the box
  | peekFront
  | contains (a : Nat)
  | moveToBack (a : Nat)
  | moveFrontToBack
  | unlink (a : Nat)          -- the node stays live and is owned by the caller
  | relinkBack (a : Nat)      -- `push_back` of a box obtained from `unlink`
  | unlinkAndDrop (a : Nat)
  | dropDetached (a : Nat)    -- caller-side drop of a node obtained from `unlink`
  | nextOf (a : Nat)          -- `DeqNode::next_node_ptr`
  | iterNext
  deriving Repr, DecidableEq

/-- Results. `node` carries an address together with the element stored there. -/
inductive Out where
  | unit
  | bool (b : Bool)
  | addr (a : Option Nat)
  | node (n : Option (Nat × Nat))
  deriving Repr, DecidableEq

/-- The model side: one command in the monad. -/
def mstep : Cmd → M Out
  | .push e => do pure (.addr (some (← pushBack e)))
  | .popFront => do pure (.node (← popFront))
  | .peekFront => do pure (.addr (← peekFront))
  | .contains a => do pure (.bool (← contains a))
  | .moveToBack a => do moveToBack a; pure .unit
  | .moveFrontToBack => do moveFrontToBack; pure .unit
  | .unlink a => do unlink a; pure .unit
  | .relinkBack a => do pure (.addr (some (← pushBackBox a)))
  | .unlinkAndDrop a => do unlinkAndDrop a; pure .unit
  | .dropDetached a => do let _ ← free a; pure .unit
  | .nextOf a => do pure (.addr (← nextNodePtr a))
  | .iterNext => do pure (.node (← iterNext))

def mrun : List Cmd → M (List Out)
  | [] => pure []
  | c :: cs => do
    let o ← mstep c
    let os ← mrun cs
    pure (o :: os)

/-- The reference side: plain lists. -/
structure RState where
  l : List Nat := []                 -- the deque, front to back
  det : List Nat := []               -- unlinked nodes that are still live
  cur : Option Cursor := none
  n : Nat := 0                       -- next fresh address
  freed : List Nat := []             -- addresses freed so far, newest first
  elems : List (Nat × Nat) := []     -- element of every address ever allocated
  deriving Repr, DecidableEq

def RState.elemOf (r : RState) (a : Nat) : Nat := (AL.get? r.elems a).getD 0

def rmoveToBack (r : RState) (a : Nat) : RState :=
  if r.l.getLast? = some a then r
  else { r with l := r.l.erase a ++ [a], cur := leave r.l a r.cur }

/-- `Iterator::next` on lists: `None → Node(head) → … → Done → None`. -/
def riterNext (r : RState) : RState × Option (Nat × Nat) :=
  match (if r.cur = none then r.l.head?.map Cursor.node else r.cur) with
  | some (.node x) =>
    ({ r with cur := match succOf r.l x with
                     | some b => some (.node b)
                     | none => some .done },
      some (x, r.elemOf x))
  | _ => ({ r with cur := none }, none)

def rstep (r : RState) : Cmd → RState × Out
  | .push e =>
    ({ r with l := r.l ++ [r.n], n := r.n + 1, elems := (r.n, e) :: r.elems }, .addr (some r.n))
  | .popFront =>
    match r.l with
    | [] => (r, .node none)
    | a :: t =>
      ({ r with l := t, cur := leave (a :: t) a r.cur, freed := a :: r.freed },
        .node (some (a, r.elemOf a)))
  | .peekFront => (r, .addr r.l.head?)
  | .contains a => (r, .bool (decide (a ∈ r.l)))
  | .moveToBack a => (rmoveToBack r a, .unit)
  | .moveFrontToBack =>
    match r.l.head? with
    | none => (r, .unit)
    | some a => (rmoveToBack r a, .unit)
  | .unlink a =>
    ({ r with l := r.l.erase a, det := a :: r.det, cur := leave r.l a r.cur }, .unit)
  | .relinkBack a => ({ r with l := r.l ++ [a], det := r.det.erase a }, .addr (some a))
  | .unlinkAndDrop a =>
    ({ r with l := r.l.erase a, cur := leave r.l a r.cur, freed := a :: r.freed }, .unit)
  | .dropDetached a => ({ r with det := r.det.erase a, freed := a :: r.freed }, .unit)
  | .nextOf a => (r, .addr (succOf r.l a))
  | .iterNext => ((riterNext r).1, .node (riterNext r).2)

def rrun (r : RState) : List Cmd → RState × List Out
  | [] => (r, [])
  | c :: cs =>
    let (r1, o) := rstep r c
    let (r2, os) := rrun r1 cs
    (r2, o :: os)

/-- The preconditions the Rust callers guarantee. -/
def Legal (r : RState) : Cmd → Prop
  | .contains a => a ∈ r.l ∨ a ∈ r.det
  | .moveToBack a => a ∈ r.l
  | .unlink a => a ∈ r.l
  | .unlinkAndDrop a => a ∈ r.l
  | .nextOf a => a ∈ r.l
  | .relinkBack a => a ∈ r.det
  | .dropDetached a => a ∈ r.det
  | _ => True

instance Legal.dec (r : RState) : (c : Cmd) → Decidable (Legal r c)
  | .contains a => inferInstanceAs (Decidable (a ∈ r.l ∨ a ∈ r.det))
  | .moveToBack a => inferInstanceAs (Decidable (a ∈ r.l))
  | .unlink a => inferInstanceAs (Decidable (a ∈ r.l))
  | .unlinkAndDrop a => inferInstanceAs (Decidable (a ∈ r.l))
  | .nextOf a => inferInstanceAs (Decidable (a ∈ r.l))
  | .relinkBack a => inferInstanceAs (Decidable (a ∈ r.det))
  | .dropDetached a => inferInstanceAs (Decidable (a ∈ r.det))
  | .push _ => isTrue trivial
  | .popFront => isTrue trivial
  | .peekFront => isTrue trivial
  | .moveFrontToBack => isTrue trivial
  | .iterNext => isTrue trivial

def LegalSeq : RState → List Cmd → Prop
  | _, [] => True
  | r, c :: cs => Legal r c ∧ LegalSeq (rstep r c).1 cs

def LegalSeq.dec : (r : RState) → (cs : List Cmd) → Decidable (LegalSeq r cs)
  | _, [] => isTrue trivial
  | r, c :: cs =>
    have := LegalSeq.dec (rstep r c).1 cs
    inferInstanceAs (Decidable (Legal r c ∧ LegalSeq (rstep r c).1 cs))

instance (r : RState) (cs : List Cmd) : Decidable (LegalSeq r cs) := LegalSeq.dec r cs

/-- The simulation invariant between model state and reference state. -/
structure Sim (s : DState) (r : RState) : Prop where
  wf : WF s r.l
  cur : s.cursor = r.cur
  next : s.next = r.n
  freed : s.freed = r.freed
  det : ∀ a, a ∈ r.det → Detached s r.l a
  detNodup : r.det.Nodup
  elems : ∀ a n, hget s.heap a = some n → AL.get? r.elems a = some n.elem

theorem Sim.elemOf {s r} (h : Sim s r) {a n} (ha : hget s.heap a = some n) :
    r.elemOf a = elemAt s a := by
  simp [RState.elemOf, h.elems a n ha, elemAt_of ha]

theorem sim_new : Sim new {} :=
  ⟨new_wf, rfl, rfl, rfl, by intro a h; simp at h, List.nodup_nil,
    by intro a n h; simp [new, hget] at h⟩

/-- Relinking operations keep the `elems` table valid. -/
theorem Pres.elems_ok {s s' l l'} (hp : Pres s s' l l') {el : List (Nat × Nat)}
    (h : ∀ a n, hget s.heap a = some n → AL.get? el a = some n.elem) :
    ∀ a n, hget s'.heap a = some n → AL.get? el a = some n.elem := by
  intro a n hn
  have := hp.elems a
  rw [hn] at this
  cases h2 : hget s.heap a with
  | none => simp [h2] at this
  | some m =>
    simp [h2] at this
    rw [this]; exact h a m h2

theorem Frees.elems_ok {s s' x} (hp : Frees s s' x) {el : List (Nat × Nat)}
    (h : ∀ a n, hget s.heap a = some n → AL.get? el a = some n.elem) :
    ∀ a n, hget s'.heap a = some n → AL.get? el a = some n.elem := by
  intro a n hn
  by_cases hax : a = x
  · subst hax; rw [hp.dead] at hn; cases hn
  · have := hp.elems a hax
    rw [hn] at this
    cases h2 : hget s.heap a with
    | none => simp [h2] at this
    | some m =>
      simp [h2] at this
      rw [this]; exact h a m h2


theorem sim_moveToBack {s r a} (h : Sim s r) (ha : a ∈ r.l) :
    ∃ s', moveToBack a s = .ok ((), s') ∧ Sim s' (rmoveToBack r a) := by
  obtain ⟨s', hrun, hwf, hpres, hcur⟩ := moveToBack_ok h.wf ha
  refine ⟨s', hrun, ?_⟩
  unfold rmoveToBack
  by_cases hl : r.l.getLast? = some a
  · have hlist : r.l.erase a ++ [a] = r.l := by
      rw [erase_eq]
      exact eraseIdx_last_append (getElem?_idxOf ha) ((getLast?_eq_some_iff h.wf.nodup ha).mp hl)
    rw [hlist] at hwf hpres
    simp only [hl, if_true] at hcur ⊢
    exact ⟨hwf, hcur.trans h.cur, hpres.next.trans h.next, hpres.freed.trans h.freed,
      fun b hb => hpres.detached (h.det b hb) (h.det b hb).1, h.detNodup, hpres.elems_ok h.elems⟩
  · simp only [hl, if_false] at hcur ⊢
    refine ⟨hwf, by rw [hcur, h.cur], hpres.next.trans h.next, hpres.freed.trans h.freed, ?_,
      h.detNodup, hpres.elems_ok h.elems⟩
    intro b hb
    have hd := h.det b hb
    refine hpres.detached hd ?_
    intro hm
    rcases List.mem_append.mp hm with hm | hm
    · exact hd.1 (List.mem_of_mem_erase hm)
    · simp at hm; subst hm; exact hd.1 ha

theorem idxOf_eq {l : List Nat} (hn : l.Nodup) {j a : Nat} (hj : l[j]? = some a) :
    l.idxOf a = j :=
  nodup_inj hn (getElem?_idxOf (List.mem_of_getElem? hj)) hj

theorem Sim.withCur {s r} (h : Sim s r) (c : Option Cursor)
    (hc : c = none ∨ c = some .done ∨ ∃ a, c = some (.node a) ∧ a ∈ r.l) :
    Sim { s with cursor := c } { r with cur := c } :=
  ⟨h.wf.setCursor c hc, rfl, h.next, h.freed, h.det, h.detNodup, h.elems⟩

theorem sim_iterNext {s r} (h : Sim s r) :
    ∃ s', iterNext s = .ok ((riterNext r).2, s') ∧ Sim s' (riterNext r).1 := by
  have hwf := h.wf
  have hcur := h.cur
  rcases hwf.cursor with hc | hc | ⟨c, hc, hcl⟩
  · have hrc : r.cur = none := by rw [← hcur]; exact hc
    cases hl0 : r.l with
    | nil =>
      have hh : s.head = none := by rw [hwf.head, hl0]; rfl
      refine ⟨{ s with cursor := none }, ?_, ?_⟩
      · simp [iterNext, hc, hh, advanceCursor, riterNext, hrc, hl0]
      · simpa [riterNext, hrc, hl0] using h.withCur none (Or.inl rfl)
    | cons a t =>
      have hk : r.l[0]? = some a := by simp [hl0]
      have hstep := iterNext_start hwf hc hk
      have hidx := idxOf_eq hwf.nodup hk
      obtain ⟨na, hna⟩ := hwf.live (List.mem_of_getElem? hk)
      have hel := h.elemOf hna
      have hs := h.withCur (curAfter r.l 0) (curAfter_ok _ _)
      rw [hl0] at hidx hs
      have h2 : (riterNext r).2 = some (a, elemAt s a) := by
        simp [riterNext, hrc, hl0, hel]
      rw [h2]
      refine ⟨_, hstep, ?_⟩
      simpa [riterNext, hrc, hl0, succOf, hidx, curAfter] using hs
  · have hrc : r.cur = some .done := by rw [← hcur]; exact hc
    have h2 : (riterNext r).2 = none := by simp [riterNext, hrc]
    rw [h2]
    refine ⟨_, iterNext_done hwf hc, ?_⟩
    simpa [riterNext, hrc] using h.withCur none (Or.inl rfl)
  · have hrc : r.cur = some (.node c) := by rw [← hcur]; exact hc
    obtain ⟨j, hj⟩ := List.mem_iff_getElem?.mp hcl
    have hstep := iterNext_at hwf hc hj
    have hidx := idxOf_eq hwf.nodup hj
    obtain ⟨nc, hnc⟩ := hwf.live hcl
    have hel := h.elemOf hnc
    have hs := h.withCur (curAfter r.l j) (curAfter_ok _ _)
    have h2 : (riterNext r).2 = some (c, elemAt s c) := by
      simp [riterNext, hrc, hel]
    rw [h2]
    refine ⟨_, hstep, ?_⟩
    simpa [riterNext, hrc, succOf, hidx, curAfter] using hs

theorem sim_step {s r c} (h : Sim s r) (hl : Legal r c) :
    ∃ s', mstep c s = .ok ((rstep r c).2, s') ∧ Sim s' (rstep r c).1 := by
  cases c with
  | push e =>
    obtain ⟨s', hrun, hwf, hal, hcur, hframe⟩ := pushBack_spec h.wf e
    refine ⟨s', by simp [mstep, hrun, rstep, h.next], ?_⟩
    simp only [rstep]
    rw [← h.next]
    refine ⟨hwf, hcur.trans h.cur, hal.next, hal.freed.trans h.freed, ?_, h.detNodup, ?_⟩
    · intro b hb
      obtain ⟨hbl, eb, heb⟩ := h.det b hb
      have hbn : b ≠ s.next := by
        have := h.wf.bound b _ heb; omega
      refine ⟨by simp [hbl, hbn], eb, ?_⟩
      rw [hframe b hbl hbn]; exact heb
    · intro a n hn
      by_cases han : a = s.next
      · subst han
        have := hal.elem
        rw [hn] at this
        simp at this
        simp [AL.get?, this]
      · have := hal.elems a han
        rw [hn] at this
        have hne : ¬ s.next = a := fun hh => han hh.symm
        cases h2 : hget s.heap a with
        | none => simp [h2] at this
        | some m =>
          simp [h2] at this
          simp [AL.get?, hne, this, h.elems a m h2]
  | popFront =>
    cases hlist : r.l with
    | nil =>
      have hwf := h.wf
      rw [hlist] at hwf
      refine ⟨s, by simp [mstep, popFront_nil hwf, rstep, hlist], ?_⟩
      simp only [rstep, hlist]
      exact h
    | cons a t =>
      have hwf := h.wf
      rw [hlist] at hwf
      obtain ⟨s', hrun, hwf', hfr, hcur, hframe⟩ := popFront_ok hwf
      obtain ⟨na, hna⟩ := hfr.wasLive
      have hel := h.elemOf hna
      refine ⟨s', by simp [mstep, hrun, rstep, hlist, hel], ?_⟩
      simp only [rstep, hlist]
      refine ⟨hwf', by rw [hcur, h.cur], hfr.next.trans h.next, by rw [hfr.freed, h.freed], ?_,
        h.detNodup, hfr.elems_ok h.elems⟩
      intro b hb
      obtain ⟨hbl, eb, heb⟩ := h.det b hb
      rw [hlist] at hbl
      refine ⟨fun hm => hbl (List.mem_cons_of_mem _ hm), eb, ?_⟩
      rw [hframe b hbl]; exact heb
  | peekFront =>
    exact ⟨s, by simp [mstep, peekFront_spec h.wf, rstep], h⟩
  | contains a =>
    have hpre : a ∈ r.l ∨ Detached s r.l a := by
      rcases hl with hl | hl
      · exact Or.inl hl
      · exact Or.inr (h.det a hl)
    exact ⟨s, by simp [mstep, contains_spec h.wf hpre, rstep], h⟩
  | moveToBack a =>
    obtain ⟨s', hrun, hsim⟩ := sim_moveToBack h hl
    exact ⟨s', by simp [mstep, hrun, rstep], hsim⟩
  | moveFrontToBack =>
    cases hhd : r.l.head? with
    | none =>
      have hnil : r.l = [] := List.head?_eq_none_iff.mp hhd
      have hwf := h.wf
      rw [hnil] at hwf
      refine ⟨s, by simp [mstep, moveFrontToBack_nil hwf, rstep, hhd], ?_⟩
      simp only [rstep, hhd]; exact h
    | some a =>
      have hk : r.l[0]? = some a := by rw [← List.head?_eq_getElem?]; exact hhd
      have ha : a ∈ r.l := List.mem_of_getElem? hk
      obtain ⟨s', hrun, hsim⟩ := sim_moveToBack h ha
      refine ⟨s', by simp [mstep, moveFrontToBack_eq h.wf hk, hrun, rstep, hhd], ?_⟩
      simp only [rstep, hhd]; exact hsim
  | unlink a =>
    have ha : a ∈ r.l := hl
    obtain ⟨s', hrun, hwf, hpres, hcur, hdet⟩ := unlink_ok h.wf ha
    refine ⟨s', by simp [mstep, hrun, rstep], ?_⟩
    simp only [rstep]
    refine ⟨hwf, by rw [hcur, h.cur], hpres.next.trans h.next, hpres.freed.trans h.freed, ?_, ?_,
      hpres.elems_ok h.elems⟩
    · intro b hb
      rcases List.mem_cons.mp hb with hb | hb
      · subst hb; exact hdet
      · have hd := h.det b hb
        exact hpres.detached hd (fun hm => hd.1 (List.mem_of_mem_erase hm))
    · refine List.nodup_cons.mpr ⟨?_, h.detNodup⟩
      intro hm; exact (h.det a hm).1 ha
  | relinkBack a =>
    have ha : a ∈ r.det := hl
    obtain ⟨hal, ea, hea⟩ := h.det a ha
    obtain ⟨s', hrun, ⟨hwf, hpres⟩, hcur⟩ := pushBackBox_spec h.wf hal hea
    refine ⟨s', by simp [mstep, hrun, rstep], ?_⟩
    simp only [rstep]
    refine ⟨hwf, hcur.trans h.cur, hpres.next.trans h.next, hpres.freed.trans h.freed, ?_,
      h.detNodup.erase a, hpres.elems_ok h.elems⟩
    intro b hb
    have hb' := (h.detNodup.mem_erase_iff).mp hb
    have hd := h.det b hb'.2
    refine hpres.detached hd ?_
    simp [hd.1, hb'.1]
  | unlinkAndDrop a =>
    have ha : a ∈ r.l := hl
    obtain ⟨s', hrun, hwf, hfr, hcur, hframe⟩ := unlinkAndDrop_ok h.wf ha
    refine ⟨s', by simp [mstep, hrun, rstep], ?_⟩
    simp only [rstep]
    refine ⟨hwf, by rw [hcur, h.cur], hfr.next.trans h.next, by rw [hfr.freed, h.freed], ?_,
      h.detNodup, hfr.elems_ok h.elems⟩
    intro b hb
    obtain ⟨hbl, eb, heb⟩ := h.det b hb
    refine ⟨fun hm => hbl (List.mem_of_mem_erase hm), eb, ?_⟩
    rw [hframe b hbl]; exact heb
  | dropDetached a =>
    have ha : a ∈ r.det := hl
    have hd := h.det a ha
    obtain ⟨_, ea, hea⟩ := id hd
    refine ⟨freeState s a, by simp [mstep, rstep, hea, freeState], ?_⟩
    simp only [rstep]
    refine ⟨h.wf.free hd, h.cur, h.next, by simp [freeState, h.freed], ?_, h.detNodup.erase a, ?_⟩
    · intro b hb
      have hb' := (h.detNodup.mem_erase_iff).mp hb
      exact (h.det b hb'.2).free_other hb'.1
    · intro b n hn
      by_cases hba : b = a
      · subst hba; rw [freeState_self] at hn; cases hn
      · rw [freeState_other hba] at hn; exact h.elems b n hn
  | nextOf a =>
    exact ⟨s, by simp [mstep, nextNodePtr_ok h.wf hl, rstep], h⟩
  | iterNext =>
    obtain ⟨s', hrun, hsim⟩ := sim_iterNext h
    exact ⟨s', by simp [mstep, hrun, rstep], hsim⟩


theorem sim_run : ∀ (cmds : List Cmd) (s : DState) (r : RState), Sim s r → LegalSeq r cmds →
    ∃ s', mrun cmds s = .ok ((rrun r cmds).2, s') ∧ Sim s' (rrun r cmds).1 := by
  intro cmds
  induction cmds with
  | nil => intro s r h _; exact ⟨s, rfl, h⟩
  | cons c cs ih =>
    intro s r h hl
    obtain ⟨hl1, hl2⟩ := hl
    obtain ⟨s1, hrun1, hsim1⟩ := sim_step h hl1
    obtain ⟨s2, hrun2, hsim2⟩ := ih s1 _ hsim1 hl2
    refine ⟨s2, ?_, ?_⟩
    · simp [mrun, hrun1, hrun2, rrun]
    · simpa [rrun] using hsim2

/-- Running any legal command sequence on a fresh deque: no fault, the results are those of
the list interpreter, and the final heap encodes the final list. -/
theorem run_legal (cmds : List Cmd) (hl : LegalSeq {} cmds) :
    ∃ s, mrun cmds new = .ok ((rrun {} cmds).2, s) ∧ Sim s (rrun {} cmds).1 :=
  sim_run cmds new {} sim_new hl

theorem exec_ok {α : Type} {m : M α} {s s' : DState} {a : α} (hf : s.fault = none)
    (h : m s = .ok (a, s')) : exec m s = (s', some a) := by
  simp [exec, hf, h]

end DequeHeap
end MiniMoka
