/-
  Memory safety of the sequential sync model (`MiniMoka/Sync.lean`): the ownership
  invariant between entry infos and list nodes, and its preservation by every function
  of the model.  Faults `useAfterFree` (dereference of a freed node) and `overflow`
  (`entry_count -= 1` of the maintenance run's local counters) are unreachable for the
  current code (`NoQuirks p`).
-/
import MiniMoka.Sync
import MiniMoka.Lemmas.AL
import MiniMoka.Lemmas.SyncFrame
import MiniMoka.Lemmas.UnsyncOps

namespace MiniMoka
namespace Sync
namespace Nodes

/-! ### node lists -/

theorem findAo_some {l : List AoNode} {id : Nat} {n : AoNode} (h : findAo l id = some n) :
    n ∈ l ∧ n.id = id := by
  induction l with
  | nil => simp [findAo] at h
  | cons a l ih =>
    simp only [findAo] at h
    by_cases ha : a.id = id
    · simp [ha] at h; subst h; exact ⟨List.mem_cons_self, ha⟩
    · simp [ha] at h; exact ⟨List.mem_cons_of_mem _ (ih h).1, (ih h).2⟩

theorem findAo_of_mem {l : List AoNode} {n : AoNode} (hn : (l.map (·.id)).Nodup) (h : n ∈ l) :
    findAo l n.id = some n := by
  induction l with
  | nil => simp at h
  | cons a l ih =>
    simp only [List.map_cons, List.nodup_cons] at hn
    simp only [findAo]
    rcases List.mem_cons.mp h with h | h
    · subst h; simp
    · have : a.id ≠ n.id := fun e => hn.1 (e ▸ List.mem_map.mpr ⟨n, h, rfl⟩)
      simp [this, ih hn.2 h]

theorem perm_cons_eraseAo {l : List AoNode} {id : Nat} {n : AoNode} (h : findAo l id = some n) :
    l.Perm (n :: eraseAo l id) := by
  induction l with
  | nil => simp [findAo] at h
  | cons a l ih =>
    simp only [findAo] at h
    simp only [eraseAo]
    by_cases ha : a.id = id
    · simp [ha] at h; subst h; simp [ha]
    · simp [ha] at h
      simp only [ha, if_false]
      exact ((ih h).cons a).trans (List.Perm.swap n a _)

theorem perm_moveToBackAo {l : List AoNode} {id : Nat} {n : AoNode} (h : findAo l id = some n) :
    (eraseAo l id ++ [n]).Perm l :=
  (List.perm_append_comm).trans (perm_cons_eraseAo h).symm

theorem nodup_eraseAo {l : List AoNode} {id : Nat} {n : AoNode} (h : findAo l id = some n)
    (hn : (l.map (·.id)).Nodup) : ((eraseAo l id).map (·.id)).Nodup := by
  have := ((perm_cons_eraseAo h).map (·.id)).nodup_iff.mp hn
  simp only [List.map_cons, List.nodup_cons] at this
  exact this.2

theorem mem_eraseAo_iff {l : List AoNode} {id : Nat} {n : AoNode} (h : findAo l id = some n)
    (hn : (l.map (·.id)).Nodup) (m : AoNode) : m ∈ eraseAo l id ↔ m ∈ l ∧ m.id ≠ id := by
  have hp := perm_cons_eraseAo h
  have hnd := ((hp.map (·.id))).nodup_iff.mp hn
  simp only [List.map_cons, List.nodup_cons] at hnd
  have hid := (findAo_some h).2
  constructor
  · intro hm
    refine ⟨hp.mem_iff.mpr (List.mem_cons_of_mem _ hm), fun e => hnd.1 ?_⟩
    have hnm : n.id = m.id := hid.trans e.symm
    rw [hnm]; exact List.mem_map.mpr ⟨m, hm, rfl⟩
  · rintro ⟨hm, hne⟩
    rcases List.mem_cons.mp (hp.mem_iff.mp hm) with e | hm'
    · subst e; exact absurd hid hne
    · exact hm'

theorem length_eraseAo {l : List AoNode} {id : Nat} {n : AoNode} (h : findAo l id = some n) :
    (eraseAo l id).length + 1 = l.length := by
  have := (perm_cons_eraseAo h).length_eq
  simp at this; omega

theorem findWo_some {l : List WoNode} {id : Nat} {n : WoNode} (h : findWo l id = some n) :
    n ∈ l ∧ n.id = id := by
  induction l with
  | nil => simp [findWo] at h
  | cons a l ih =>
    simp only [findWo] at h
    by_cases ha : a.id = id
    · simp [ha] at h; subst h; exact ⟨List.mem_cons_self, ha⟩
    · simp [ha] at h; exact ⟨List.mem_cons_of_mem _ (ih h).1, (ih h).2⟩

theorem findWo_of_mem {l : List WoNode} {n : WoNode} (hn : (l.map (·.id)).Nodup) (h : n ∈ l) :
    findWo l n.id = some n := by
  induction l with
  | nil => simp at h
  | cons a l ih =>
    simp only [List.map_cons, List.nodup_cons] at hn
    simp only [findWo]
    rcases List.mem_cons.mp h with h | h
    · subst h; simp
    · have : a.id ≠ n.id := fun e => hn.1 (e ▸ List.mem_map.mpr ⟨n, h, rfl⟩)
      simp [this, ih hn.2 h]

theorem perm_cons_eraseWo {l : List WoNode} {id : Nat} {n : WoNode} (h : findWo l id = some n) :
    l.Perm (n :: eraseWo l id) := by
  induction l with
  | nil => simp [findWo] at h
  | cons a l ih =>
    simp only [findWo] at h
    simp only [eraseWo]
    by_cases ha : a.id = id
    · simp [ha] at h; subst h; simp [ha]
    · simp [ha] at h
      simp only [ha, if_false]
      exact ((ih h).cons a).trans (List.Perm.swap n a _)

theorem perm_moveToBackWo {l : List WoNode} {id : Nat} {n : WoNode} (h : findWo l id = some n) :
    (eraseWo l id ++ [n]).Perm l :=
  (List.perm_append_comm).trans (perm_cons_eraseWo h).symm

theorem nodup_eraseWo {l : List WoNode} {id : Nat} {n : WoNode} (h : findWo l id = some n)
    (hn : (l.map (·.id)).Nodup) : ((eraseWo l id).map (·.id)).Nodup := by
  have := ((perm_cons_eraseWo h).map (·.id)).nodup_iff.mp hn
  simp only [List.map_cons, List.nodup_cons] at this
  exact this.2

theorem mem_eraseWo_iff {l : List WoNode} {id : Nat} {n : WoNode} (h : findWo l id = some n)
    (hn : (l.map (·.id)).Nodup) (m : WoNode) : m ∈ eraseWo l id ↔ m ∈ l ∧ m.id ≠ id := by
  have hp := perm_cons_eraseWo h
  have hnd := ((hp.map (·.id))).nodup_iff.mp hn
  simp only [List.map_cons, List.nodup_cons] at hnd
  have hid := (findWo_some h).2
  constructor
  · intro hm
    refine ⟨hp.mem_iff.mpr (List.mem_cons_of_mem _ hm), fun e => hnd.1 ?_⟩
    have hnm : n.id = m.id := hid.trans e.symm
    rw [hnm]; exact List.mem_map.mpr ⟨m, hm, rfl⟩
  · rintro ⟨hm, hne⟩
    rcases List.mem_cons.mp (hp.mem_iff.mp hm) with e | hm'
    · subst e; exact absurd hid hne
    · exact hm'

/-! ### the ownership invariant -/

/-- Ownership between entry infos and list nodes.  A node of `prob` (`wo`) is owned by
exactly one info, which points back at it; an info that points at a node points at a live
node (one that is in the list); node ids are pairwise distinct; an info is admitted iff it
owns an access-order node, and owns a write-order node only if admitted; ids at or above
`nextId` are unused. -/
structure NodesCore (s : SState) : Prop where
  probIds : (s.prob.map (·.id)).Nodup
  woIds : (s.wo.map (·.id)).Nodup
  freshP : ∀ n ∈ s.prob, n.id < s.nextId
  freshW : ∀ n ∈ s.wo, n.id < s.nextId
  probOwn : ∀ n ∈ s.prob, (getInfo s n.info).ao = some n.id
  aoNode : ∀ i id, (getInfo s i).ao = some id → ∃ n ∈ s.prob, n.id = id ∧ n.info = i
  admIff : ∀ i, (getInfo s i).admitted = true ↔ (getInfo s i).ao.isSome = true
  woOwn : ∀ n ∈ s.wo, (getInfo s n.info).wo = some n.id
  woNode : ∀ i id, (getInfo s i).wo = some id → ∃ n ∈ s.wo, n.id = id ∧ n.info = i
  woAdm : ∀ i, (getInfo s i).wo.isSome = true → (getInfo s i).admitted = true
  infoFresh : ∀ i, s.nextId ≤ i → (getInfo s i).admitted = false

/-- The invariant inside a maintenance run: the local entry counter is the length of the
access-order list. -/
structure NodesInv (s : SState) : Prop extends NodesCore s where
  count : s.cec = s.prob.length

/-- The invariant between operations: the published entry counter is the length of the
access-order list. -/
structure NodesInvTop (s : SState) : Prop extends NodesCore s where
  count : s.ec = s.prob.length

namespace NodesCore

variable {s s' : SState}

theorem notAdm_ao (h : NodesCore s) {i : Nat} (hna : (getInfo s i).admitted = false) :
    (getInfo s i).ao = none := by
  have := h.admIff i
  cases hx : (getInfo s i).ao with
  | none => rfl
  | some id => rw [hx, hna] at this; simp at this

theorem notAdm_wo (h : NodesCore s) {i : Nat} (hna : (getInfo s i).admitted = false) :
    (getInfo s i).wo = none := by
  have := h.woAdm i
  cases hx : (getInfo s i).wo with
  | none => rfl
  | some id => rw [hx, hna] at this; simp at this

theorem adm_ao (h : NodesCore s) {i : Nat} (ha : (getInfo s i).admitted = true) :
    ∃ id, (getInfo s i).ao = some id := by
  have := (h.admIff i).mp ha
  cases hx : (getInfo s i).ao with
  | none => rw [hx] at this; simp at this
  | some id => exact ⟨id, rfl⟩

theorem probAdm (h : NodesCore s) {n : AoNode} (hn : n ∈ s.prob) :
    (getInfo s n.info).admitted = true := by
  rw [h.admIff, h.probOwn n hn]; rfl

/-- Nodes of the access-order list with distinct ids belong to distinct infos. -/
theorem info_inj (h : NodesCore s) {n m : AoNode} (hn : n ∈ s.prob) (hm : m ∈ s.prob)
    (e : n.info = m.info) : n.id = m.id := by
  have h1 := h.probOwn n hn
  have h2 := h.probOwn m hm
  rw [e, h2] at h1
  exact (Option.some.inj h1).symm

/-- The state changed only in ways the invariant does not see: the node lists were permuted,
the ownership fields of all infos are unchanged, ids were only consumed. -/
theorem congr (h : NodesCore s)
    (hao : ∀ j, (getInfo s' j).ao = (getInfo s j).ao)
    (hwo : ∀ j, (getInfo s' j).wo = (getInfo s j).wo)
    (had : ∀ j, (getInfo s' j).admitted = (getInfo s j).admitted)
    (hp : s'.prob.Perm s.prob) (hw : s'.wo.Perm s.wo) (hn : s.nextId ≤ s'.nextId) :
    NodesCore s' where
  probIds := (hp.map _).nodup_iff.mpr h.probIds
  woIds := (hw.map _).nodup_iff.mpr h.woIds
  freshP := fun n hm => Nat.lt_of_lt_of_le (h.freshP n (hp.mem_iff.mp hm)) hn
  freshW := fun n hm => Nat.lt_of_lt_of_le (h.freshW n (hw.mem_iff.mp hm)) hn
  probOwn := fun n hm => by rw [hao]; exact h.probOwn n (hp.mem_iff.mp hm)
  aoNode := fun i id hx => by
    rw [hao] at hx
    obtain ⟨n, hm, e1, e2⟩ := h.aoNode i id hx
    exact ⟨n, hp.mem_iff.mpr hm, e1, e2⟩
  admIff := fun i => by rw [had, hao]; exact h.admIff i
  woOwn := fun n hm => by rw [hwo]; exact h.woOwn n (hw.mem_iff.mp hm)
  woNode := fun i id hx => by
    rw [hwo] at hx
    obtain ⟨n, hm, e1, e2⟩ := h.woNode i id hx
    exact ⟨n, hw.mem_iff.mpr hm, e1, e2⟩
  woAdm := fun i => by rw [had, hwo]; exact h.woAdm i
  infoFresh := fun i hi => by rw [had]; exact h.infoFresh i (Nat.le_trans hn hi)

/-- Info `i` gave up its nodes, which were freed. -/
theorem detach (h : NodesCore s) (i : Nat)
    (hao : ∀ j, j ≠ i → (getInfo s' j).ao = (getInfo s j).ao)
    (hwo : ∀ j, j ≠ i → (getInfo s' j).wo = (getInfo s j).wo)
    (had : ∀ j, j ≠ i → (getInfo s' j).admitted = (getInfo s j).admitted)
    (hiao : (getInfo s' i).ao = none) (hiwo : (getInfo s' i).wo = none)
    (hiad : (getInfo s' i).admitted = false)
    (hp : ∀ m, m ∈ s'.prob ↔ m ∈ s.prob ∧ m.info ≠ i)
    (hw : ∀ m, m ∈ s'.wo ↔ m ∈ s.wo ∧ m.info ≠ i)
    (hpn : (s'.prob.map (·.id)).Nodup) (hwn : (s'.wo.map (·.id)).Nodup)
    (hn : s.nextId ≤ s'.nextId) : NodesCore s' where
  probIds := hpn
  woIds := hwn
  freshP := fun n hm => Nat.lt_of_lt_of_le (h.freshP n ((hp n).mp hm).1) hn
  freshW := fun n hm => Nat.lt_of_lt_of_le (h.freshW n ((hw n).mp hm).1) hn
  probOwn := fun n hm => by
    obtain ⟨h1, h2⟩ := (hp n).mp hm
    rw [hao _ h2]; exact h.probOwn n h1
  aoNode := fun j id hx => by
    by_cases e : j = i
    · subst e; rw [hiao] at hx; cases hx
    · rw [hao j e] at hx
      obtain ⟨n, hm, e1, e2⟩ := h.aoNode j id hx
      exact ⟨n, (hp n).mpr ⟨hm, by rw [e2]; exact e⟩, e1, e2⟩
  admIff := fun j => by
    by_cases e : j = i
    · subst e; rw [hiao, hiad]; simp
    · rw [had j e, hao j e]; exact h.admIff j
  woOwn := fun n hm => by
    obtain ⟨h1, h2⟩ := (hw n).mp hm
    rw [hwo _ h2]; exact h.woOwn n h1
  woNode := fun j id hx => by
    by_cases e : j = i
    · subst e; rw [hiwo] at hx; cases hx
    · rw [hwo j e] at hx
      obtain ⟨n, hm, e1, e2⟩ := h.woNode j id hx
      exact ⟨n, (hw n).mpr ⟨hm, by rw [e2]; exact e⟩, e1, e2⟩
  woAdm := fun j => by
    by_cases e : j = i
    · subst e; rw [hiwo]; simp
    · rw [had j e, hwo j e]; exact h.woAdm j
  infoFresh := fun j hj => by
    by_cases e : j = i
    · subst e; exact hiad
    · rw [had j e]; exact h.infoFresh j (Nat.le_trans hn hj)

/-- Info `i`, which owned nothing, was given fresh nodes at the back of the lists. -/
theorem attach (h : NodesCore s) (i : Nat) (hlt : i < s.nextId)
    (hna : (getInfo s i).admitted = false)
    (hao : ∀ j, j ≠ i → (getInfo s' j).ao = (getInfo s j).ao)
    (hwo : ∀ j, j ≠ i → (getInfo s' j).wo = (getInfo s j).wo)
    (had : ∀ j, j ≠ i → (getInfo s' j).admitted = (getInfo s j).admitted)
    (node : AoNode) (hnid : node.id = s.nextId) (hninfo : node.info = i)
    (hp : s'.prob = s.prob ++ [node])
    (hiao : (getInfo s' i).ao = some s.nextId) (hiad : (getInfo s' i).admitted = true)
    (hw : (s'.wo = s.wo ∧ (getInfo s' i).wo = none ∧ s'.nextId = s.nextId + 1) ∨
      (∃ wn : WoNode, wn.id = s.nextId + 1 ∧ wn.info = i ∧ s'.wo = s.wo ++ [wn] ∧
        (getInfo s' i).wo = some (s.nextId + 1) ∧ s'.nextId = s.nextId + 2)) :
    NodesCore s' := by
  have hnoP : ∀ m ∈ s.prob, m.info ≠ i := fun m hm e => by
    have := h.probAdm hm; rw [e, hna] at this; cases this
  have hnoW : ∀ m ∈ s.wo, m.info ≠ i := fun m hm e => by
    have := h.woAdm m.info (by rw [h.woOwn m hm]; rfl); rw [e, hna] at this; cases this
  have hn : s.nextId + 1 ≤ s'.nextId := by
    rcases hw with ⟨_, _, e⟩ | ⟨_, _, _, _, _, e⟩ <;> omega
  have hpm : ∀ m, m ∈ s'.prob ↔ m ∈ s.prob ∨ m = node := by
    intro m; rw [hp]; simp
  have hwm : ∀ m ∈ s'.wo, m ∈ s.wo ∨ (m.id = s.nextId + 1 ∧ m.info = i ∧
      (getInfo s' i).wo = some (s.nextId + 1) ∧ s'.nextId = s.nextId + 2) := by
    intro m hm
    rcases hw with ⟨e, _, _⟩ | ⟨wn, e1, e2, e3, e4, e5⟩
    · rw [e] at hm; exact Or.inl hm
    · rw [e3] at hm
      rcases List.mem_append.mp hm with hm | hm
      · exact Or.inl hm
      · simp at hm; subst hm; exact Or.inr ⟨e1, e2, e4, e5⟩
  refine ⟨?_, ?_, ?_, ?_, ?_, ?_, ?_, ?_, ?_, ?_, ?_⟩
  · rw [hp, List.map_append]
    refine List.nodup_append.mpr ⟨h.probIds, by simp, ?_⟩
    intro a ha b hb
    simp at hb; subst hb
    obtain ⟨m, hm, rfl⟩ := List.mem_map.mp ha
    rw [hnid]; exact Nat.ne_of_lt (h.freshP m hm)
  · rcases hw with ⟨e, _, _⟩ | ⟨wn, e1, e2, e3, e4, e5⟩
    · rw [e]; exact h.woIds
    · rw [e3, List.map_append]
      refine List.nodup_append.mpr ⟨h.woIds, by simp, ?_⟩
      intro a ha b hb
      simp at hb; subst hb
      obtain ⟨m, hm, rfl⟩ := List.mem_map.mp ha
      rw [e1]; exact Nat.ne_of_lt (Nat.lt_succ_of_lt (h.freshW m hm))
  · intro m hm
    rcases (hpm m).mp hm with hm | rfl
    · exact Nat.lt_of_lt_of_le (h.freshP m hm) (by omega)
    · omega
  · intro m hm
    rcases hwm m hm with hm | ⟨e1, _, _, e5⟩
    · exact Nat.lt_of_lt_of_le (h.freshW m hm) (by omega)
    · omega
  · intro m hm
    rcases (hpm m).mp hm with hm | rfl
    · rw [hao _ (hnoP m hm)]; exact h.probOwn m hm
    · rw [hninfo, hiao, hnid]
  · intro j id hx
    by_cases e : j = i
    · subst e
      rw [hiao] at hx
      exact ⟨node, (hpm node).mpr (Or.inr rfl), by rw [hnid]; exact Option.some.inj hx, hninfo⟩
    · rw [hao j e] at hx
      obtain ⟨n, hm, e1, e2⟩ := h.aoNode j id hx
      exact ⟨n, (hpm n).mpr (Or.inl hm), e1, e2⟩
  · intro j
    by_cases e : j = i
    · subst e; rw [hiao, hiad]; simp
    · rw [had j e, hao j e]; exact h.admIff j
  · intro m hm
    rcases hwm m hm with hm | ⟨e1, e2, e4, _⟩
    · rw [hwo _ (hnoW m hm)]; exact h.woOwn m hm
    · rw [e2, e4, e1]
  · intro j id hx
    by_cases e : j = i
    · subst e
      rcases hw with ⟨_, e4, _⟩ | ⟨wn, e1, e2, e3, e4, e5⟩
      · rw [e4] at hx; cases hx
      · rw [e4] at hx
        refine ⟨wn, by rw [e3]; simp, by rw [e1]; exact Option.some.inj hx, e2⟩
    · rw [hwo j e] at hx
      obtain ⟨n, hm, e1, e2⟩ := h.woNode j id hx
      refine ⟨n, ?_, e1, e2⟩
      rcases hw with ⟨e3, _, _⟩ | ⟨wn, _, _, e3, _, _⟩
      · rw [e3]; exact hm
      · rw [e3]; exact List.mem_append_left _ hm
  · intro j
    by_cases e : j = i
    · subst e; intro _; exact hiad
    · rw [had j e, hwo j e]; exact h.woAdm j
  · intro j hj
    have e : j ≠ i := by omega
    rw [had j e]; exact h.infoFresh j (by omega)

end NodesCore

/-- Invariant of a maintenance run, and no fault so far. -/
structure Safe (s : SState) : Prop extends NodesInv s where
  nofault : s.fault = none

/-- Every node of the access-order list of `s` is still in that of `s'`. -/
def Keeps (s s' : SState) : Prop := ∀ m, m ∈ s.prob → m ∈ s'.prob

theorem Keeps.refl (s : SState) : Keeps s s := fun _ h => h
theorem Keeps.trans {a b c : SState} (h1 : Keeps a b) (h2 : Keeps b c) : Keeps a c :=
  fun m h => h2 m (h1 m h)

theorem Safe.congr {s s' : SState} (h : Safe s)
    (hao : ∀ j, (getInfo s' j).ao = (getInfo s j).ao)
    (hwo : ∀ j, (getInfo s' j).wo = (getInfo s j).wo)
    (had : ∀ j, (getInfo s' j).admitted = (getInfo s j).admitted)
    (hp : s'.prob.Perm s.prob) (hw : s'.wo.Perm s.wo) (hn : s.nextId ≤ s'.nextId)
    (hc : s'.cec = s.cec) (hf : s'.fault = s.fault) : Safe s' :=
  ⟨⟨h.toNodesCore.congr hao hwo had hp hw hn, by rw [hc, hp.length_eq]; exact h.count⟩,
   by rw [hf]; exact h.nofault⟩

/-- Updates of fields of the state the invariant does not mention. -/
theorem Safe.of_eq {s s' : SState} (h : Safe s) (hi : s'.infos = s.infos) (hp : s'.prob = s.prob)
    (hw : s'.wo = s.wo) (hn : s.nextId ≤ s'.nextId) (hc : s'.cec = s.cec)
    (hf : s'.fault = s.fault) : Safe s' := by
  have hg : ∀ j, getInfo s' j = getInfo s j := fun j => by simp [getInfo, hi]
  exact h.congr (fun j => by rw [hg]) (fun j => by rw [hg]) (fun j => by rw [hg])
    (by rw [hp]) (by rw [hw]) hn hc hf

/-- Updates of an info that leave its ownership fields alone. -/
theorem Safe.withInfo {s : SState} (h : Safe s) (i : Nat) (f : Info → Info)
    (hao : (f (getInfo s i)).ao = (getInfo s i).ao) (hwo : (f (getInfo s i)).wo = (getInfo s i).wo)
    (had : (f (getInfo s i)).admitted = (getInfo s i).admitted) : Safe (withInfo s i f) := by
  refine h.congr ?_ ?_ ?_ (List.Perm.refl _) (List.Perm.refl _) (Nat.le_refl _) rfl rfl <;>
    intro j <;> rw [getInfo_withInfo] <;> by_cases e : i = j
  · subst e; simp [hao]
  · simp [e]
  · subst e; simp [hwo]
  · simp [e]
  · subst e; simp [had]
  · simp [e]

/-! ### moving nodes -/

theorem moveNodeToBackAo_eq {s : SState} {id : Nat} {n : AoNode} (h : findAo s.prob id = some n) :
    moveNodeToBackAo s id = { s with prob := eraseAo s.prob id ++ [n] } := by
  simp only [moveNodeToBackAo, h]

theorem moveNodeToBackWo_eq {s : SState} {id : Nat} {n : WoNode} (h : findWo s.wo id = some n) :
    moveNodeToBackWo s id = { s with wo := eraseWo s.wo id ++ [n] } := by
  simp only [moveNodeToBackWo, h]

theorem moveNodeToBackAo_safe {s : SState} (h : Safe s) {n : AoNode} (hn : n ∈ s.prob) :
    Safe (moveNodeToBackAo s n.id) ∧ Keeps s (moveNodeToBackAo s n.id) := by
  have hf := findAo_of_mem h.probIds hn
  rw [moveNodeToBackAo_eq hf]
  have hp := perm_moveToBackAo hf
  exact ⟨h.congr (fun _ => rfl) (fun _ => rfl) (fun _ => rfl) hp (List.Perm.refl _)
    (Nat.le_refl _) rfl rfl, fun m hm => hp.mem_iff.mpr hm⟩

theorem moveNodeToBackWo_safe {s : SState} (h : Safe s) {n : WoNode} (hn : n ∈ s.wo) :
    Safe (moveNodeToBackWo s n.id) ∧ Keeps s (moveNodeToBackWo s n.id) := by
  have hf := findWo_of_mem h.woIds hn
  rw [moveNodeToBackWo_eq hf]
  have hp := perm_moveToBackWo hf
  exact ⟨h.congr (fun _ => rfl) (fun _ => rfl) (fun _ => rfl) (List.Perm.refl _) hp
    (Nat.le_refl _) rfl rfl, fun m hm => hm⟩

theorem moveToBackAoE_safe {s : SState} (h : Safe s) (i : Nat) :
    Safe (moveToBackAoE s i) ∧ Keeps s (moveToBackAoE s i) := by
  unfold moveToBackAoE
  split
  · exact ⟨h, Keeps.refl s⟩
  · rename_i id hx
    obtain ⟨n, hn, e1, _⟩ := h.aoNode i id hx
    rw [← e1]; exact moveNodeToBackAo_safe h hn

theorem moveToBackWoE_safe {s : SState} (h : Safe s) (i : Nat) :
    Safe (moveToBackWoE s i) ∧ Keeps s (moveToBackWoE s i) := by
  unfold moveToBackWoE
  split
  · exact ⟨h, Keeps.refl s⟩
  · rename_i id hx
    obtain ⟨n, hn, e1, _⟩ := h.woNode i id hx
    rw [← e1]; exact moveNodeToBackWo_safe h hn

/-! ### unlinking and `handle_remove` -/

theorem unlinkAo_eq {s : SState} {i id : Nat} {n : AoNode} (h1 : (getInfo s i).ao = some id)
    (h2 : findAo s.prob id = some n) :
    unlinkAo s i =
      { withInfo s i (fun x => { x with ao := none }) with prob := eraseAo s.prob id } := by
  simp only [unlinkAo, h1]
  have : findAo (withInfo s i (fun x => { x with ao := none })).prob id = some n := h2
  simp only [this]
  rfl

theorem unlinkWo_eq {s : SState} {i id : Nat} {n : WoNode} (h1 : (getInfo s i).wo = some id)
    (h2 : findWo s.wo id = some n) :
    unlinkWo s i =
      { withInfo s i (fun x => { x with wo := none }) with wo := eraseWo s.wo id } := by
  simp only [unlinkWo, h1]
  have : findWo (withInfo s i (fun x => { x with wo := none })).wo id = some n := h2
  simp only [this]
  rfl

theorem unlinkWo_none {s : SState} {i : Nat} (h1 : (getInfo s i).wo = none) : unlinkWo s i = s := by
  simp only [unlinkWo, h1]

theorem subCounters_eq {s : SState} {n w : Nat} (h : n ≤ s.cec) :
    subCounters s n w = { s with cec := s.cec - n, cws := s.cws - w } := by
  have : ¬ s.cec < n := by omega
  simp only [subCounters, this, if_false]

theorem getInfo_congr {s s' : SState} (h : s'.infos = s.infos) (j : Nat) :
    getInfo s' j = getInfo s j := by simp [getInfo, h]

/-- `handle_remove` on an admitted info: the explicit result when the info owns no
write-order node. -/
theorem handleRemove_safe {s : SState} (h : Safe s) (ve : VE) :
    Safe (handleRemove s ve) ∧
      (∀ m, m ∈ s.prob → m.info ≠ ve.info → m ∈ (handleRemove s ve).prob) ∧
      (∀ j, (getInfo s j).admitted = false → (getInfo (handleRemove s ve) j).admitted = false) := by
  unfold handleRemove
  dsimp only
  by_cases hadm : (getInfo s ve.info).admitted = true
  · rw [if_pos hadm]
    obtain ⟨id, hao⟩ := h.adm_ao hadm
    obtain ⟨n, hn, hnid, hninfo⟩ := h.aoNode _ _ hao
    have hfind : findAo s.prob id = some n := by rw [← hnid]; exact findAo_of_mem h.probIds hn
    have hlen : 1 ≤ s.prob.length := by
      cases hp : s.prob with
      | nil => rw [hp] at hn; cases hn
      | cons a l => simp
    -- step 1: admitted := false
    generalize hs1 : withInfo s ve.info (fun i => { i with admitted := false }) = s1
    have hg1 : ∀ j, getInfo s1 j =
        if ve.info = j then { getInfo s ve.info with admitted := false } else getInfo s j := by
      intro j; rw [← hs1, getInfo_withInfo]
    have hp1 : s1.prob = s.prob := by rw [← hs1]; rfl
    have hw1 : s1.wo = s.wo := by rw [← hs1]; rfl
    have hc1 : s1.cec = s.cec := by rw [← hs1]; rfl
    have hn1 : s1.nextId = s.nextId := by rw [← hs1]; rfl
    have hf1 : s1.fault = s.fault := by rw [← hs1]; rfl
    -- step 2: counters
    rw [subCounters_eq (by rw [hc1, h.count]; exact hlen)]
    generalize hs2 : ({ s1 with cec := s1.cec - 1, cws := s1.cws - (getInfo s ve.info).weight } :
      SState) = s2
    have hg2 : ∀ j, getInfo s2 j = getInfo s1 j := fun j => by rw [← hs2]; rfl
    have hp2 : s2.prob = s.prob := by rw [← hs2]; exact hp1
    have hw2 : s2.wo = s.wo := by rw [← hs2]; exact hw1
    have hc2 : s2.cec = s.cec - 1 := by rw [← hs2]; simp only; rw [hc1]
    have hn2 : s2.nextId = s.nextId := by rw [← hs2]; exact hn1
    have hf2 : s2.fault = s.fault := by rw [← hs2]; exact hf1
    -- step 3: unlink the access-order node
    have hao2 : (getInfo s2 ve.info).ao = some id := by rw [hg2, hg1]; simpa using hao
    rw [unlinkAo_eq hao2 (by rw [hp2]; exact hfind)]
    generalize hs3 : ({ withInfo s2 ve.info (fun x => { x with ao := none }) with
      prob := eraseAo s2.prob id } : SState) = s3
    have hg3 : ∀ j, getInfo s3 j =
        if ve.info = j then { getInfo s2 ve.info with ao := none } else getInfo s2 j := by
      intro j; rw [← hs3]; exact getInfo_withInfo s2 ve.info (fun x => { x with ao := none }) j
    have hp3 : s3.prob = eraseAo s.prob id := by rw [← hs3]; simp only; rw [hp2]
    have hw3 : s3.wo = s.wo := by rw [← hs3]; exact hw2
    have hc3 : s3.cec = s.cec - 1 := by rw [← hs3]; exact hc2
    have hn3 : s3.nextId = s.nextId := by rw [← hs3]; exact hn2
    have hf3 : s3.fault = s.fault := by rw [← hs3]; exact hf2
    have hwo3 : (getInfo s3 ve.info).wo = (getInfo s ve.info).wo := by
      rw [hg3, hg2, hg1]; simp
    have hmemP : ∀ m, m ∈ eraseAo s.prob id ↔ m ∈ s.prob ∧ m.info ≠ ve.info := by
      intro m
      rw [mem_eraseAo_iff hfind h.probIds]
      constructor
      · rintro ⟨h1, h2⟩
        refine ⟨h1, fun e => h2 ?_⟩
        rw [← hnid]; exact h.info_inj h1 hn (e.trans hninfo.symm)
      · rintro ⟨h1, h2⟩
        refine ⟨h1, fun e => h2 ?_⟩
        have e1 := findAo_of_mem h.probIds h1
        rw [e, ← hnid, findAo_of_mem h.probIds hn] at e1
        rw [← Option.some.inj e1]; exact hninfo
    have hO3 : ∀ j, j ≠ ve.info → getInfo s3 j = getInfo s j := by
      intro j hj
      have : ¬ ve.info = j := fun e => hj e.symm
      rw [hg3, if_neg this, hg2, hg1, if_neg this]
    have hI3 : getInfo s3 ve.info = { getInfo s ve.info with admitted := false, ao := none } := by
      rw [hg3, hg2, hg1]; simp
    have hlen3 : s.cec - 1 = (eraseAo s.prob id).length := by
      have := length_eraseAo hfind
      rw [h.count]; omega
    cases hwo : (getInfo s ve.info).wo with
    | none =>
      rw [unlinkWo_none (by rw [hwo3]; exact hwo)]
      refine ⟨⟨⟨?_, by rw [hc3, hp3]; exact hlen3⟩, by rw [hf3]; exact h.nofault⟩, ?_, ?_⟩
      · refine h.toNodesCore.detach ve.info (fun j hj => by rw [hO3 j hj])
          (fun j hj => by rw [hO3 j hj]) (fun j hj => by rw [hO3 j hj])
          (by rw [hI3]) (by rw [hI3]; exact hwo) (by rw [hI3])
          (by rw [hp3]; exact hmemP) ?_ (by rw [hp3]; exact nodup_eraseAo hfind h.probIds)
          (by rw [hw3]; exact h.woIds) (by rw [hn3]; exact Nat.le_refl _)
        intro m
        rw [hw3]
        refine ⟨fun hm => ⟨hm, fun e => ?_⟩, fun hm => hm.1⟩
        have := h.woOwn m hm
        rw [e, hwo] at this; cases this
      · intro m hm hne
        rw [hp3]; exact (hmemP m).mpr ⟨hm, hne⟩
      · intro j hj
        by_cases e : j = ve.info
        · rw [e, hI3]
        · rw [hO3 j e]; exact hj
    | some wid =>
      obtain ⟨wn, hwn, hwnid, hwninfo⟩ := h.woNode _ _ hwo
      have hfindW : findWo s.wo wid = some wn := by
        rw [← hwnid]; exact findWo_of_mem h.woIds hwn
      rw [unlinkWo_eq (by rw [hwo3]; exact hwo) (by rw [hw3]; exact hfindW)]
      generalize hs4 : ({ withInfo s3 ve.info (fun x => { x with wo := none }) with
        wo := eraseWo s3.wo wid } : SState) = s4
      have hg4 : ∀ j, getInfo s4 j =
          if ve.info = j then { getInfo s3 ve.info with wo := none } else getInfo s3 j := by
        intro j; rw [← hs4]; exact getInfo_withInfo s3 ve.info (fun x => { x with wo := none }) j
      have hp4 : s4.prob = eraseAo s.prob id := by rw [← hs4]; exact hp3
      have hw4 : s4.wo = eraseWo s.wo wid := by rw [← hs4]; simp only; rw [hw3]
      have hc4 : s4.cec = s.cec - 1 := by rw [← hs4]; exact hc3
      have hn4 : s4.nextId = s.nextId := by rw [← hs4]; exact hn3
      have hf4 : s4.fault = s.fault := by rw [← hs4]; exact hf3
      have hO4 : ∀ j, j ≠ ve.info → getInfo s4 j = getInfo s j := by
        intro j hj
        have : ¬ ve.info = j := fun e => hj e.symm
        rw [hg4, if_neg this, hO3 j hj]
      have hI4 : getInfo s4 ve.info =
          { getInfo s ve.info with admitted := false, ao := none, wo := none } := by
        rw [hg4, hI3]; simp
      refine ⟨⟨⟨?_, by rw [hc4, hp4]; exact hlen3⟩, by rw [hf4]; exact h.nofault⟩, ?_, ?_⟩
      · refine h.toNodesCore.detach ve.info (fun j hj => by rw [hO4 j hj])
          (fun j hj => by rw [hO4 j hj]) (fun j hj => by rw [hO4 j hj])
          (by rw [hI4]) (by rw [hI4]) (by rw [hI4])
          (by rw [hp4]; exact hmemP) ?_ (by rw [hp4]; exact nodup_eraseAo hfind h.probIds)
          (by rw [hw4]; exact nodup_eraseWo hfindW h.woIds) (by rw [hn4]; exact Nat.le_refl _)
        intro m
        rw [hw4, mem_eraseWo_iff hfindW h.woIds]
        constructor
        · rintro ⟨h1, h2⟩
          refine ⟨h1, fun e => h2 ?_⟩
          have := h.woOwn m h1
          rw [e, hwo] at this
          exact (Option.some.inj this).symm
        · rintro ⟨h1, h2⟩
          refine ⟨h1, fun e => h2 ?_⟩
          have e1 := findWo_of_mem h.woIds h1
          rw [e, ← hwnid, findWo_of_mem h.woIds hwn] at e1
          rw [← Option.some.inj e1]; exact hwninfo
      · intro m hm hne
        rw [hp4]; exact (hmemP m).mpr ⟨hm, hne⟩
      · intro j hj
        by_cases e : j = ve.info
        · rw [e, hI4]
        · rw [hO4 j e]; exact hj
  · rw [if_neg hadm]
    have hna : (getInfo s ve.info).admitted = false := by
      cases hx : (getInfo s ve.info).admitted with
      | false => rfl
      | true => exact absurd hx hadm
    refine ⟨h.withInfo _ _ ?_ ?_ rfl, fun m hm _ => hm, ?_⟩
    · simp only; exact (h.notAdm_ao hna).symm
    · simp only; exact (h.notAdm_wo hna).symm
    · intro j hj
      rw [getInfo_withInfo]
      by_cases e : ve.info = j
      · rw [if_pos e]; exact hna
      · rw [if_neg e]; exact hj

/-! ### `handle_admit` -/

theorem handleAdmit_safe {p : Params} {s : SState} (h : Safe s) (key : Nat) (hash : UInt64)
    (ve : VE) (weight : Nat) (hna : (getInfo s ve.info).admitted = false)
    (hlt : ve.info < s.nextId) :
    Safe (handleAdmit p s key hash ve weight) ∧ Keeps s (handleAdmit p s key hash ve weight) := by
  unfold handleAdmit
  dsimp only
  -- counters and weight
  generalize hs2 : (if p.q.d8 = true then addCounters s 1 weight
    else withInfo (addCounters s 1 weight) ve.info (fun i => { i with weight := weight })) = s2
  have hO2 : ∀ j, j ≠ ve.info → getInfo s2 j = getInfo s j := by
    intro j hj
    have : ¬ ve.info = j := fun e => hj e.symm
    rw [← hs2]; split
    · rfl
    · rw [getInfo_withInfo, if_neg this]; rfl
  have hI2 : (getInfo s2 ve.info).ao = (getInfo s ve.info).ao ∧
      (getInfo s2 ve.info).wo = (getInfo s ve.info).wo := by
    rw [← hs2]; split
    · exact ⟨rfl, rfl⟩
    · rw [getInfo_withInfo, if_pos rfl]; exact ⟨rfl, rfl⟩
  have hp2 : s2.prob = s.prob := by rw [← hs2]; split <;> rfl
  have hw2 : s2.wo = s.wo := by rw [← hs2]; split <;> rfl
  have hc2 : s2.cec = s.cec + 1 := by rw [← hs2]; split <;> rfl
  have hn2 : s2.nextId = s.nextId := by rw [← hs2]; split <;> rfl
  have hf2 : s2.fault = s.fault := by rw [← hs2]; split <;> rfl
  -- access-order node (the node literal is left to unification: ghost fields may be added)
  generalize hs4 : withInfo { s2 with prob := s2.prob ++ [_], nextId := s2.nextId + 1 } ve.info
    (fun i => { i with ao := some s2.nextId }) = s4
  have hg4 : ∀ j, getInfo s4 j =
      if ve.info = j then { getInfo s2 ve.info with ao := some s2.nextId } else getInfo s2 j := by
    intro j; rw [← hs4, getInfo_withInfo]; rfl
  obtain ⟨node, hnid, hninfo, hp4⟩ : ∃ node : AoNode, node.id = s.nextId ∧ node.info = ve.info ∧
      s4.prob = s.prob ++ [node] := by
    rw [← hs4]; exact ⟨_, hn2, rfl, by simp only [withInfo]; rw [hp2]⟩
  have hw4 : s4.wo = s.wo := by rw [← hs4]; exact hw2
  have hc4 : s4.cec = s.cec + 1 := by rw [← hs4]; exact hc2
  have hn4 : s4.nextId = s.nextId + 1 := by rw [← hs4]; simp only [withInfo]; rw [hn2]
  have hf4 : s4.fault = s.fault := by rw [← hs4]; exact hf2
  have hO4 : ∀ j, j ≠ ve.info → getInfo s4 j = getInfo s j := by
    intro j hj
    have : ¬ ve.info = j := fun e => hj e.symm
    rw [hg4, if_neg this, hO2 j hj]
  have hA4 : (getInfo s4 ve.info).ao = some s.nextId := by rw [hg4, if_pos rfl]; simp only; rw [hn2]
  have hW4 : (getInfo s4 ve.info).wo = none := by
    rw [hg4, if_pos rfl]; simp only; rw [hI2.2]; exact h.notAdm_wo hna
  -- write-order node
  generalize hs5 : (if p.ttl.isSome = true then
      withInfo { s4 with wo := s4.wo ++ [_], nextId := s4.nextId + 1 } ve.info
        (fun i => { i with wo := some s4.nextId })
    else s4) = s5
  have hO5 : ∀ j, j ≠ ve.info → getInfo s5 j = getInfo s j := by
    intro j hj
    have : ¬ ve.info = j := fun e => hj e.symm
    rw [← hs5]; split
    · rw [getInfo_withInfo, if_neg this]; exact hO4 j hj
    · exact hO4 j hj
  have hA5 : (getInfo s5 ve.info).ao = some s.nextId := by
    rw [← hs5]; split
    · rw [getInfo_withInfo, if_pos rfl]; exact hA4
    · exact hA4
  have hp5 : s5.prob = s.prob ++ [node] := by rw [← hs5]; split <;> exact hp4
  have hc5 : s5.cec = s.cec + 1 := by rw [← hs5]; split <;> exact hc4
  have hf5 : s5.fault = s.fault := by rw [← hs5]; split <;> exact hf4
  have hW5 : (s5.wo = s.wo ∧ (getInfo s5 ve.info).wo = none ∧ s5.nextId = s.nextId + 1) ∨
      (∃ wn : WoNode, wn.id = s.nextId + 1 ∧ wn.info = ve.info ∧ s5.wo = s.wo ++ [wn] ∧
        (getInfo s5 ve.info).wo = some (s.nextId + 1) ∧ s5.nextId = s.nextId + 2) := by
    rw [← hs5]; split
    · refine Or.inr ⟨?wn, ?h1, ?h2, ?h3, ?h4, ?h5⟩
      case h3 => simp only [withInfo]; rw [hw4]
      case h1 => exact hn4
      case h2 => rfl
      case h4 => rw [getInfo_withInfo, if_pos rfl]; simp only; rw [hn4]
      case h5 => simp only [withInfo]; rw [hn4]
    · exact Or.inl ⟨hw4, hW4, hn4⟩
  -- admitted
  generalize hs6 : withInfo s5 ve.info (fun i => { i with admitted := true }) = s6
  have hg6 : ∀ j, getInfo s6 j =
      if ve.info = j then { getInfo s5 ve.info with admitted := true } else getInfo s5 j := by
    intro j; rw [← hs6, getInfo_withInfo]
  have hO6 : ∀ j, j ≠ ve.info → getInfo s6 j = getInfo s j := by
    intro j hj
    have : ¬ ve.info = j := fun e => hj e.symm
    rw [hg6, if_neg this, hO5 j hj]
  have hp6 : s6.prob = s.prob ++ [node] := by rw [← hs6]; exact hp5
  have hw6 : s6.wo = s5.wo := by rw [← hs6]; rfl
  have hn6 : s6.nextId = s5.nextId := by rw [← hs6]; rfl
  have hW6 : (getInfo s6 ve.info).wo = (getInfo s5 ve.info).wo := by rw [hg6, if_pos rfl]
  refine ⟨⟨⟨?_, ?_⟩, ?_⟩, ?_⟩
  · refine h.toNodesCore.attach ve.info hlt hna (fun j hj => by rw [hO6 j hj])
      (fun j hj => by rw [hO6 j hj]) (fun j hj => by rw [hO6 j hj]) node hnid hninfo hp6
      (by rw [hg6, if_pos rfl]; exact hA5) (by rw [hg6, if_pos rfl]) ?_
    rw [hw6, hn6, hW6]; exact hW5
  · rw [hp6, ← hs6]; simp only [withInfo, List.length_append, List.length_singleton]
    rw [hc5, h.count]
  · rw [← hs6]; simp only [withInfo]; rw [hf5]; exact h.nofault
  · intro m hm; rw [hp6]; exact List.mem_append_left _ hm

/-! ### admission: victims and skipped nodes -/

/-- The nodes `admit` selects: victims and skipped nodes are nodes of the list it walks, the
victims are pairwise distinct and none of them is a skipped node. -/
theorem admitLoop_split (p : Params) (s : SState) (cw cf : Nat) :
    ∀ (l : List AoNode) (a : Admission), (l.map (·.id)).Nodup →
      ∃ vs ss, (admitLoop p s cw cf l a).victims = a.victims ++ vs ∧
        (admitLoop p s cw cf l a).skipped = a.skipped ++ ss ∧
        (∀ m, m ∈ vs → m ∈ l) ∧ (∀ m, m ∈ ss → m ∈ l) ∧ (vs.map (·.id)).Nodup ∧
        (∀ v, v ∈ vs → ∀ m, m ∈ ss → v.id ≠ m.id) := by
  intro l
  induction l with
  | nil =>
    intro a _
    exact ⟨[], [], by simp [admitLoop], by simp [admitLoop], by simp, by simp, by simp, by simp⟩
  | cons n rest ih =>
    intro a hnd
    simp only [List.map_cons, List.nodup_cons] at hnd
    have hnot : ∀ m, m ∈ rest → n.id ≠ m.id := fun m hm e =>
      hnd.1 (e ▸ List.mem_map.mpr ⟨m, hm, rfl⟩)
    rw [admitLoop]
    split
    · split
      · obtain ⟨vs, ss, h1, h2, h3, h4, h5, h6⟩ := ih
          { a with vw := a.vw + (getInfo s _).weight, vf := a.vf + s.sk.frequency n.hash,
                   victims := a.victims ++ [n], retries := 0 } hnd.2
        refine ⟨n :: vs, ss, ?_, h2, ?_, fun m hm => List.mem_cons_of_mem _ (h4 m hm), ?_, ?_⟩
        · rw [h1]; simp
        · intro m hm
          rcases List.mem_cons.mp hm with e | hm
          · rw [e]; exact List.mem_cons_self
          · exact List.mem_cons_of_mem _ (h3 m hm)
        · simp only [List.map_cons, List.nodup_cons]
          refine ⟨fun hin => ?_, h5⟩
          obtain ⟨m, hm, e⟩ := List.mem_map.mp hin
          exact hnot m (h3 m hm) e.symm
        · intro v hv m hm
          rcases List.mem_cons.mp hv with e | hv
          · rw [e]; exact hnot m (h4 m hm)
          · exact h6 v hv m hm
      · dsimp only
        split
        · refine ⟨[], [n], by simp, by simp, by simp, ?_, by simp, by simp⟩
          intro m hm; simp at hm; rw [hm]; exact List.mem_cons_self
        · obtain ⟨vs, ss, h1, h2, h3, h4, h5, h6⟩ := ih
            { a with skipped := a.skipped ++ [n], retries := a.retries + 1 } hnd.2
          refine ⟨vs, n :: ss, h1, ?_, fun m hm => List.mem_cons_of_mem _ (h3 m hm), ?_, h5, ?_⟩
          · rw [h2]; simp
          · intro m hm
            rcases List.mem_cons.mp hm with e | hm
            · rw [e]; exact List.mem_cons_self
            · exact List.mem_cons_of_mem _ (h4 m hm)
          · intro v hv m hm
            rcases List.mem_cons.mp hm with e | hm
            · rw [e]; exact fun e' => hnot v (h3 v hv) e'.symm
            · exact h6 v hv m hm
    · exact ⟨[], [], by simp, by simp, by simp, by simp, by simp, by simp⟩

/-- After the D7 repair the map entry found for a node shares the node's info. -/
theorem entryOfNode_info {p : Params} (hd7 : p.q.d7 = false) {s : SState} {key info : Nat}
    {ve : VE} (h : entryOfNode p s key info = some ve) : ve.info = info := by
  unfold entryOfNode at h
  split at h
  · rename_i cur _
    rw [hd7, Bool.false_or] at h
    by_cases e : (cur.info == info) = true
    · rw [if_pos e] at h
      cases h
      exact eq_of_beq e
    · rw [if_neg e] at h; cases h
  · cases h

theorem safe_eraseMap {s : SState} (h : Safe s) (k : Nat) :
    Safe { s with map := AL.erase s.map k } :=
  h.of_eq rfl rfl rfl (Nat.le_refl _) rfl rfl

theorem removeVictims_safe {p : Params} (hd7 : p.q.d7 = false) :
    ∀ (vs : List AoNode) (s : SState) (sk : List AoNode), Safe s →
      (∀ v, v ∈ vs → v ∈ s.prob) → (∀ m, m ∈ sk → m ∈ s.prob) → (vs.map (·.id)).Nodup →
      (∀ v, v ∈ vs → ∀ m, m ∈ sk → v.id ≠ m.id) →
      Safe (removeVictims p vs s sk).1 ∧
        (∀ m, m ∈ (removeVictims p vs s sk).2 → m ∈ (removeVictims p vs s sk).1.prob) ∧
        (∀ j, (getInfo s j).admitted = false →
          (getInfo (removeVictims p vs s sk).1 j).admitted = false) := by
  intro vs
  induction vs with
  | nil => intro s sk h _ hsk _ _; exact ⟨h, hsk, fun _ hj => hj⟩
  | cons v rest ih =>
    intro s sk h hvs hsk hnd hdis
    simp only [List.map_cons, List.nodup_cons] at hnd
    have hv : v ∈ s.prob := hvs v List.mem_cons_self
    have hrest : ∀ r, r ∈ rest → r ∈ s.prob := fun r hr => hvs r (List.mem_cons_of_mem _ hr)
    have hne : ∀ r, r ∈ rest → r.id ≠ v.id := fun r hr e =>
      hnd.1 (e ▸ List.mem_map.mpr ⟨r, hr, rfl⟩)
    rw [removeVictims, findAo_of_mem h.probIds hv]
    dsimp only
    split
    · rename_i ve hve
      have hinfo := entryOfNode_info hd7 hve
      have h0 := safe_eraseMap h v.key
      obtain ⟨h1, hkeep, hmono⟩ := handleRemove_safe h0 ve
      have hkeep' : ∀ m, m ∈ s.prob → m.id ≠ v.id →
          m ∈ (handleRemove { s with map := AL.erase s.map v.key } ve).prob := by
        intro m hm hmid
        refine hkeep m hm (fun e => hmid ?_)
        exact h.info_inj hm hv (e.trans hinfo)
      obtain ⟨i1, i2, i3⟩ := ih _ sk h1 (fun r hr => hkeep' r (hrest r hr) (hne r hr))
        (fun m hm => hkeep' m (hsk m hm) (fun e => hdis v List.mem_cons_self m hm e.symm))
        hnd.2 (fun r hr m hm => hdis r (List.mem_cons_of_mem _ hr) m hm)
      exact ⟨i1, i2, fun j hj => i3 j (hmono j hj)⟩
    · refine ih s (sk ++ [v]) h hrest ?_ hnd.2 ?_
      · intro m hm
        rcases List.mem_append.mp hm with hm | hm
        · exact hsk m hm
        · simp at hm; rw [hm]; exact hv
      · intro r hr m hm
        rcases List.mem_append.mp hm with hm | hm
        · exact hdis r (List.mem_cons_of_mem _ hr) m hm
        · simp at hm; rw [hm]; exact hne r hr

theorem moveSkipped_safe : ∀ (ns : List AoNode) (s : SState), Safe s →
    (∀ n, n ∈ ns → n ∈ s.prob) → Safe (moveSkipped ns s) ∧ Keeps s (moveSkipped ns s) := by
  intro ns
  induction ns with
  | nil => intro s h _; exact ⟨h, Keeps.refl s⟩
  | cons n rest ih =>
    intro s h hns
    rw [moveSkipped]
    obtain ⟨h1, k1⟩ := moveNodeToBackAo_safe h (hns n List.mem_cons_self)
    obtain ⟨h2, k2⟩ := ih _ h1 (fun m hm => k1 m (hns m (List.mem_cons_of_mem _ hm)))
    exact ⟨h2, k1.trans k2⟩

theorem removeCandidate_safe {p : Params} {s : SState} (h : Safe s) (key : Nat) (ve : VE) :
    Safe (removeCandidate p s key ve) ∧ Keeps s (removeCandidate p s key ve) := by
  unfold removeCandidate
  split
  · split
    · exact ⟨safe_eraseMap h key, fun _ hm => hm⟩
    · exact ⟨h, Keeps.refl s⟩
  · exact ⟨h, Keeps.refl s⟩

/-! ### the map: entries refer to allocated infos -/

/-- Keys of the map are distinct and every value entry refers to an info id that has been
allocated.  (Needed because `handle_admit` runs on the info of the map's current entry.) -/
structure MapOK (s : SState) : Prop where
  kn : (AL.keys s.map).Nodup
  bound : ∀ k ve, AL.get? s.map k = some ve → ve.info < s.nextId

theorem MapOK.frame {s s' : SState} (h : MapOK s) (hf : Frame s s') : MapOK s' :=
  ⟨hf.kn h.kn, fun k ve hk => Nat.lt_of_lt_of_le (h.bound k ve (hf.mapSub h.kn k ve hk)) hf.nextId⟩

theorem MapOK.frame0 {s s' : SState} (h : MapOK s) (hf : Frame0 s s') : MapOK s' :=
  h.frame hf.toFrame

/-! ### `handle_upsert` -/

theorem applyUpdate_safe {p : Params} {s : SState} (h : Safe s) (ve : VE) (oldW newW : Nat) :
    Safe (applyUpdate p s ve oldW newW) := by
  unfold applyUpdate
  dsimp only
  rw [subCounters_eq (Nat.zero_le _)]
  refine (moveToBackWoE_safe (moveToBackAoE_safe ?_ _).1 _).1
  have h2 : ∀ w, Safe (addCounters { s with cec := s.cec - 0, cws := w } 0 newW) :=
    fun w => h.of_eq rfl rfl rfl (Nat.le_refl _) rfl rfl
  split
  · exact h2 _
  · exact (h2 _).withInfo _ _ rfl rfl rfl

theorem admitOrReject_safe {p : Params} (hd7 : p.q.d7 = false) {s : SState} (h : Safe s)
    (key : Nat) (hash : UInt64) (ve : VE) (newW : Nat)
    (hna : (getInfo s ve.info).admitted = false) (hlt : ve.info < s.nextId) :
    Safe (admitOrReject p s key hash ve newW) := by
  unfold admitOrReject
  dsimp only
  obtain ⟨vs, ss, h1, h2, h3, h4, h5, h6⟩ :=
    admitLoop_split p s newW (s.sk.frequency hash) s.prob {} h.probIds
  generalize admitLoop p s newW (s.sk.frequency hash) s.prob {} = a at h1 h2 ⊢
  have e1 : a.victims = vs := by rw [h1]; rfl
  have e2 : a.skipped = ss := by rw [h2]; rfl
  split
  · have hfr := removeVictims_frame0 p a.victims s a.skipped
    have hrv := removeVictims_safe hd7 a.victims s a.skipped h (by rw [e1]; exact h3)
      (by rw [e2]; exact h4) (by rw [e1]; exact h5) (by rw [e1, e2]; exact h6)
    generalize removeVictims p a.victims s a.skipped = r at hfr hrv ⊢
    obtain ⟨s1, sk1⟩ := r
    obtain ⟨r1, r2, r3⟩ := hrv
    dsimp only at r1 r2 r3 hfr ⊢
    obtain ⟨a1, a2⟩ := handleAdmit_safe (p := p) r1 key hash ve newW (r3 _ hna)
      (Nat.lt_of_lt_of_le hlt hfr.nextId)
    exact (moveSkipped_safe sk1 _ a1 (fun n hn => a2 n (r2 n hn))).1
  · obtain ⟨c1, c2⟩ := removeCandidate_safe (p := p) h key ve
    exact (moveSkipped_safe a.skipped _ c1 (fun n hn => c2 n (h4 n (by rw [← e2]; exact hn)))).1

theorem handleUpsert_safe {p : Params} (hq : NoQuirks p) {s : SState} (h : Safe s) (hm : MapOK s)
    (key : Nat) (hash : UInt64) (ve : VE) (oldW newW : Nat) :
    Safe (handleUpsert p s key hash ve oldW newW) := by
  have hd7 : p.q.d7 = false := by rw [hq]
  unfold handleUpsert
  dsimp only
  generalize currentWeight p s key ve newW = nw
  have h1 : Safe (withInfo s ve.info (fun i => { i with dirty := false })) :=
    h.withInfo _ _ rfl rfl rfl
  have hm1 : MapOK (withInfo s ve.info (fun i => { i with dirty := false })) :=
    ⟨hm.kn, hm.bound⟩
  generalize withInfo s ve.info (fun i => { i with dirty := false }) = s1 at h1 hm1 ⊢
  by_cases c1 : (getInfo s1 ve.info).admitted = true
  · rw [if_pos c1]; exact applyUpdate_safe h1 _ _ _
  · rw [if_neg c1]
    have hna : (getInfo s1 ve.info).admitted = false := by
      cases hx : (getInfo s1 ve.info).admitted with
      | false => rfl
      | true => exact absurd hx c1
    by_cases c2 : (!p.q.d7 && !isCurrentEntry s1 key ve) = true
    · rw [if_pos c2]; exact h1
    · rw [if_neg c2]
      have hlt : ve.info < s1.nextId := by
        rw [hd7] at c2
        unfold isCurrentEntry at c2
        cases hg : AL.get? s1.map key with
        | none => rw [hg] at c2; simp at c2
        | some cur =>
          rw [hg] at c2
          have : cur.info = ve.info := by simpa using c2
          rw [← this]; exact hm1.bound key cur hg
      by_cases c3 : hasEnoughCapacity p nw s1 = true
      · rw [if_pos c3]; exact (handleAdmit_safe h1 _ _ _ _ hna hlt).1
      · rw [if_neg c3]
        by_cases c4 : tooBig p nw = true
        · rw [if_pos c4]; exact (removeCandidate_safe h1 _ _).1
        · rw [if_neg c4]; exact admitOrReject_safe hd7 h1 _ _ _ _ hna hlt

theorem applyWrite_safe {p : Params} (hq : NoQuirks p) {s : SState} (h : Safe s) (hm : MapOK s)
    (op : WOp) : Safe (applyWrite p s op) := by
  cases op with
  | upsert key hash ve oldW newW => exact handleUpsert_safe hq h hm _ _ _ _ _
  | remove key ve => exact (handleRemove_safe h ve).1

theorem safe_setWriteQ {s : SState} (h : Safe s) (q : List WOp) : Safe { s with writeQ := q } :=
  h.of_eq rfl rfl rfl (Nat.le_refl _) rfl rfl

theorem applyWrites_safe {p : Params} (hq : NoQuirks p) (n : Nat) :
    ∀ (s : SState), Safe s → MapOK s → Safe (applyWrites p n s) := by
  induction n with
  | zero => intro s h _; exact h
  | succ n ih =>
    intro s h hm
    unfold applyWrites
    split
    · exact h
    · rename_i op rest _
      have hm0 : MapOK { s with writeQ := rest } := ⟨hm.kn, hm.bound⟩
      exact ih _ (applyWrite_safe hq (safe_setWriteQ h rest) hm0 op)
        (hm0.frame0 (applyWrite_frame0 _ _ _))

/-! ### eviction -/

theorem trySkipUpdated_safe {s : SState} (h : Safe s) (key : Nat) :
    Safe (trySkipUpdated s key).1 := by
  unfold trySkipUpdated
  split
  · split
    · exact (moveToBackWoE_safe (moveToBackAoE_safe h _).1 _).1
    · exact h
  · split
    · rename_i n rest hp
      exact (moveNodeToBackAo_safe h (by rw [hp]; exact List.mem_cons_self)).1
    · exact h

theorem removeExpiredAo_safe (p : Params) (n : Nat) :
    ∀ (s : SState), Safe s → Safe (removeExpiredAo p n s) := by
  induction n with
  | zero => intro s h; exact h
  | succ n ih =>
    intro s h
    unfold removeExpiredAo
    split
    · exact h
    · split
      · dsimp only
        split
        · exact ih _ (handleRemove_safe (safe_eraseMap h _) _).1
        · split
          · exact ih _ (trySkipUpdated_safe h _)
          · exact trySkipUpdated_safe h _
      · exact h

theorem removeExpiredWo_safe (p : Params) (n : Nat) :
    ∀ (s : SState), Safe s → Safe (removeExpiredWo p n s) := by
  induction n with
  | zero => intro s h; exact h
  | succ n ih =>
    intro s h
    unfold removeExpiredWo
    split
    · exact h
    · rename_i nd rest hw
      split
      · dsimp only
        split
        · exact ih _ (handleRemove_safe (safe_eraseMap h _) _).1
        · split
          · split
            · exact ih _ (moveToBackWoE_safe (moveToBackAoE_safe h _).1 _).1
            · exact h
          · exact ih _ (moveNodeToBackWo_safe h (by rw [hw]; exact List.mem_cons_self)).1
      · exact h

theorem evictExpired_safe (p : Params) {s : SState} (h : Safe s) : Safe (evictExpired p s) := by
  unfold evictExpired
  dsimp only
  split
  · split
    · exact removeExpiredAo_safe _ _ _ (removeExpiredWo_safe _ _ _ h)
    · exact removeExpiredWo_safe _ _ _ h
  · split
    · exact removeExpiredAo_safe _ _ _ h
    · exact h

theorem evictLruLoop_safe (p : Params) (n : Nat) :
    ∀ (s : SState) (wte ev : Nat), Safe s → Safe (evictLruLoop p n s wte ev) := by
  induction n with
  | zero => intro s _ _ h; exact h
  | succ n ih =>
    intro s wte ev h
    unfold evictLruLoop
    split
    · exact h
    · split
      · exact h
      · dsimp only
        split
        · split
          · exact ih _ _ _ (trySkipUpdated_safe h _)
          · exact trySkipUpdated_safe h _
        · split
          · exact ih _ _ _ (handleRemove_safe (safe_eraseMap h _) _).1
          · split
            · exact ih _ _ _ (trySkipUpdated_safe h _)
            · exact trySkipUpdated_safe h _

theorem enableSketch_safe (p : Params) {s : SState} (h : Safe s) : Safe (enableSketch p s) := by
  unfold enableSketch
  split
  · exact h.of_eq rfl rfl rfl (Nat.le_refl _) rfl rfl
  · exact h

/-! ### the sketch is touched only by `apply_reads` and `enable_frequency_sketch` -/

/-- The sketch and its flag are unchanged. -/
def SkSame (s s' : SState) : Prop := s'.sk = s.sk ∧ s'.skOn = s.skOn

theorem SkSame.refl (s : SState) : SkSame s s := ⟨rfl, rfl⟩

theorem SkSame.trans {a b c : SState} (h1 : SkSame a b) (h2 : SkSame b c) : SkSame a c :=
  ⟨h2.1.trans h1.1, h2.2.trans h1.2⟩

theorem skSame_fail (s : SState) (f : Fault) : SkSame s (s.fail f) := by
  unfold SState.fail; split <;> exact ⟨rfl, rfl⟩

theorem skSame_withInfo (s : SState) (i : Nat) (f : Info → Info) : SkSame s (withInfo s i f) :=
  ⟨rfl, rfl⟩

theorem skSame_erase (s : SState) (k : Nat) : SkSame s { s with map := AL.erase s.map k } :=
  ⟨rfl, rfl⟩
theorem skSame_set_prob (s : SState) (x : List AoNode) : SkSame s { s with prob := x } := ⟨rfl, rfl⟩
theorem skSame_set_wo (s : SState) (x : List WoNode) : SkSame s { s with wo := x } := ⟨rfl, rfl⟩
theorem skSame_set_cec (s : SState) (x : Nat) : SkSame s { s with cec := x } := ⟨rfl, rfl⟩
theorem skSame_set_cws (s : SState) (x : Nat) : SkSame s { s with cws := x } := ⟨rfl, rfl⟩
theorem skSame_set_cec_cws (s : SState) (x y : Nat) : SkSame s { s with cec := x, cws := y } :=
  ⟨rfl, rfl⟩
theorem skSame_set_writeQ (s : SState) (x : List WOp) : SkSame s { s with writeQ := x } :=
  ⟨rfl, rfl⟩
theorem skSame_push_ao (s : SState) (x : List AoNode) :
    SkSame s { s with prob := x, nextId := s.nextId + 1 } := ⟨rfl, rfl⟩
theorem skSame_push_wo (s : SState) (x : List WoNode) :
    SkSame s { s with wo := x, nextId := s.nextId + 1 } := ⟨rfl, rfl⟩

/-- Peels one layer off the target state, working backwards from the result. -/
macro "sk_step" : tactic => `(tactic| first
  | with_reducible exact SkSame.refl _
  | exact skSame_fail _ _
  | refine SkSame.trans ?_ (skSame_fail _ _)
  | refine SkSame.trans ?_ (skSame_withInfo _ _ _)
  | refine SkSame.trans ?_ (skSame_erase _ _)
  | refine SkSame.trans ?_ (skSame_set_prob _ _)
  | refine SkSame.trans ?_ (skSame_set_wo _ _)
  | refine SkSame.trans ?_ (skSame_set_cec _ _)
  | refine SkSame.trans ?_ (skSame_set_cws _ _)
  | refine SkSame.trans ?_ (skSame_set_cec_cws _ _ _)
  | refine SkSame.trans ?_ (skSame_set_writeQ _ _)
  | refine SkSame.trans ?_ (skSame_push_ao _ _)
  | refine SkSame.trans ?_ (skSame_push_wo _ _))

theorem moveNodeToBackAo_sk (s : SState) (id : Nat) : SkSame s (moveNodeToBackAo s id) := by
  unfold moveNodeToBackAo; split <;> repeat sk_step

theorem moveNodeToBackWo_sk (s : SState) (id : Nat) : SkSame s (moveNodeToBackWo s id) := by
  unfold moveNodeToBackWo; split <;> repeat sk_step

theorem moveToBackAoE_sk (s : SState) (i : Nat) : SkSame s (moveToBackAoE s i) := by
  unfold moveToBackAoE; split
  · exact SkSame.refl s
  · exact moveNodeToBackAo_sk s _

theorem moveToBackWoE_sk (s : SState) (i : Nat) : SkSame s (moveToBackWoE s i) := by
  unfold moveToBackWoE; split
  · exact SkSame.refl s
  · exact moveNodeToBackWo_sk s _

theorem unlinkAo_sk (s : SState) (i : Nat) : SkSame s (unlinkAo s i) := by
  unfold unlinkAo; split
  · exact SkSame.refl s
  · dsimp only; split <;> repeat sk_step

theorem unlinkWo_sk (s : SState) (i : Nat) : SkSame s (unlinkWo s i) := by
  unfold unlinkWo; split
  · exact SkSame.refl s
  · dsimp only; split <;> repeat sk_step

theorem subCounters_sk (s : SState) (n w : Nat) : SkSame s (subCounters s n w) := by
  unfold subCounters
  dsimp only
  split <;> repeat sk_step

theorem addCounters_sk (s : SState) (n w : Nat) : SkSame s (addCounters s n w) := ⟨rfl, rfl⟩

theorem handleRemove_sk (s : SState) (ve : VE) : SkSame s (handleRemove s ve) := by
  unfold handleRemove
  dsimp only
  split
  · refine SkSame.trans ?_ (unlinkWo_sk _ _)
    refine SkSame.trans ?_ (unlinkAo_sk _ _)
    refine SkSame.trans ?_ (subCounters_sk _ _ _)
    repeat sk_step
  · repeat sk_step

theorem handleAdmit_sk (p : Params) (s : SState) (key : Nat) (hash : UInt64) (ve : VE)
    (w : Nat) : SkSame s (handleAdmit p s key hash ve w) := by
  unfold handleAdmit
  dsimp only
  sk_step
  split
  · sk_step
    sk_step
    sk_step
    sk_step
    split
    · exact addCounters_sk _ _ _
    · sk_step
      exact addCounters_sk _ _ _
  · sk_step
    sk_step
    split
    · exact addCounters_sk _ _ _
    · sk_step
      exact addCounters_sk _ _ _

theorem removeVictims_sk (p : Params) (vs : List AoNode) :
    ∀ (s : SState) (sk : List AoNode), SkSame s (removeVictims p vs s sk).1 := by
  induction vs with
  | nil => intro s sk; exact SkSame.refl s
  | cons v rest ih =>
    intro s sk
    unfold removeVictims
    split
    · exact (skSame_fail s _).trans (ih _ _)
    · split
      · refine SkSame.trans ?_ (ih _ _)
        refine SkSame.trans ?_ (handleRemove_sk _ _)
        exact ⟨rfl, rfl⟩
      · exact ih _ _

theorem moveSkipped_sk (ns : List AoNode) : ∀ (s : SState), SkSame s (moveSkipped ns s) := by
  induction ns with
  | nil => intro s; exact SkSame.refl s
  | cons n rest ih => intro s; exact (moveNodeToBackAo_sk s n.id).trans (ih _)

theorem removeCandidate_sk (p : Params) (s : SState) (key : Nat) (ve : VE) :
    SkSame s (removeCandidate p s key ve) := by
  unfold removeCandidate
  split
  · split
    · exact ⟨rfl, rfl⟩
    · exact SkSame.refl s
  · exact SkSame.refl s

theorem applyUpdate_sk (p : Params) (s : SState) (ve : VE) (oldW newW : Nat) :
    SkSame s (applyUpdate p s ve oldW newW) := by
  unfold applyUpdate
  dsimp only
  refine SkSame.trans ?_ (moveToBackWoE_sk _ _)
  refine SkSame.trans ?_ (moveToBackAoE_sk _ _)
  split
  · refine SkSame.trans ?_ (addCounters_sk _ _ _)
    exact subCounters_sk _ _ _
  · sk_step
    refine SkSame.trans ?_ (addCounters_sk _ _ _)
    exact subCounters_sk _ _ _

theorem admitOrReject_sk (p : Params) (s : SState) (key : Nat) (hash : UInt64) (ve : VE)
    (newW : Nat) : SkSame s (admitOrReject p s key hash ve newW) := by
  unfold admitOrReject
  dsimp only
  split
  · refine SkSame.trans ?_ (moveSkipped_sk _ _)
    refine SkSame.trans ?_ (handleAdmit_sk _ _ _ _ _ _)
    exact removeVictims_sk _ _ _ _
  · refine SkSame.trans ?_ (moveSkipped_sk _ _)
    exact removeCandidate_sk _ _ _ _

theorem handleUpsert_sk (p : Params) (s : SState) (key : Nat) (hash : UInt64) (ve : VE)
    (oldW newW : Nat) : SkSame s (handleUpsert p s key hash ve oldW newW) := by
  unfold handleUpsert
  dsimp only
  generalize currentWeight p s key ve newW = nw
  refine SkSame.trans (skSame_withInfo s ve.info (fun i => { i with dirty := false })) ?_
  generalize withInfo s ve.info (fun i => { i with dirty := false }) = s1
  by_cases h1 : (getInfo s1 ve.info).admitted = true
  · rw [if_pos h1]; exact applyUpdate_sk _ _ _ _ _
  · rw [if_neg h1]
    by_cases h2 : (!p.q.d7 && !isCurrentEntry s1 key ve) = true
    · rw [if_pos h2]; exact SkSame.refl _
    · rw [if_neg h2]
      by_cases h3 : hasEnoughCapacity p nw s1 = true
      · rw [if_pos h3]; exact handleAdmit_sk _ _ _ _ _ _
      · rw [if_neg h3]
        by_cases h4 : tooBig p nw = true
        · rw [if_pos h4]; exact removeCandidate_sk _ _ _ _
        · rw [if_neg h4]; exact admitOrReject_sk _ _ _ _ _ _

theorem applyWrite_sk (p : Params) (s : SState) (op : WOp) : SkSame s (applyWrite p s op) := by
  cases op with
  | upsert key hash ve oldW newW => exact handleUpsert_sk _ _ _ _ _ _ _
  | remove key ve => exact handleRemove_sk _ _

theorem applyWrites_sk (p : Params) (n : Nat) : ∀ (s : SState), SkSame s (applyWrites p n s) := by
  induction n with
  | zero => intro s; exact SkSame.refl s
  | succ n ih =>
    intro s
    unfold applyWrites
    split
    · exact SkSame.refl s
    · refine SkSame.trans ?_ (ih _)
      refine SkSame.trans ?_ (applyWrite_sk _ _ _)
      exact ⟨rfl, rfl⟩

theorem trySkipUpdated_sk (s : SState) (key : Nat) : SkSame s (trySkipUpdated s key).1 := by
  unfold trySkipUpdated
  split
  · split
    · exact (moveToBackAoE_sk _ _).trans (moveToBackWoE_sk _ _)
    · exact SkSame.refl s
  · split
    · exact moveNodeToBackAo_sk _ _
    · exact SkSame.refl s

theorem removeExpiredAo_sk (p : Params) (n : Nat) :
    ∀ (s : SState), SkSame s (removeExpiredAo p n s) := by
  induction n with
  | zero => intro s; exact SkSame.refl s
  | succ n ih =>
    intro s
    unfold removeExpiredAo
    split
    · exact SkSame.refl s
    · split
      · dsimp only
        split
        · refine SkSame.trans ?_ (ih _)
          refine SkSame.trans ?_ (handleRemove_sk _ _)
          exact ⟨rfl, rfl⟩
        · split
          · exact (trySkipUpdated_sk s _).trans (ih _)
          · exact trySkipUpdated_sk s _
      · exact SkSame.refl s

theorem removeExpiredWo_sk (p : Params) (n : Nat) :
    ∀ (s : SState), SkSame s (removeExpiredWo p n s) := by
  induction n with
  | zero => intro s; exact SkSame.refl s
  | succ n ih =>
    intro s
    unfold removeExpiredWo
    split
    · exact SkSame.refl s
    · split
      · dsimp only
        split
        · refine SkSame.trans ?_ (ih _)
          refine SkSame.trans ?_ (handleRemove_sk _ _)
          exact ⟨rfl, rfl⟩
        · split
          · split
            · exact ((moveToBackAoE_sk _ _).trans (moveToBackWoE_sk _ _)).trans (ih _)
            · exact SkSame.refl s
          · exact (moveNodeToBackWo_sk _ _).trans (ih _)
      · exact SkSame.refl s

theorem evictExpired_sk (p : Params) (s : SState) : SkSame s (evictExpired p s) := by
  unfold evictExpired
  dsimp only
  split
  · split
    · exact (removeExpiredWo_sk _ _ _).trans (removeExpiredAo_sk _ _ _)
    · exact removeExpiredWo_sk _ _ _
  · split
    · exact removeExpiredAo_sk _ _ _
    · exact SkSame.refl s

theorem evictLruLoop_sk (p : Params) (n : Nat) :
    ∀ (s : SState) (wte ev : Nat), SkSame s (evictLruLoop p n s wte ev) := by
  induction n with
  | zero => intro s _ _; exact SkSame.refl s
  | succ n ih =>
    intro s wte ev
    unfold evictLruLoop
    split
    · exact SkSame.refl s
    · split
      · exact SkSame.refl s
      · dsimp only
        split
        · split
          · exact (trySkipUpdated_sk s _).trans (ih _ _ _)
          · exact trySkipUpdated_sk s _
        · split
          · refine SkSame.trans ?_ (ih _ _ _)
            refine SkSame.trans ?_ (handleRemove_sk _ _)
            exact ⟨rfl, rfl⟩
          · split
            · exact (trySkipUpdated_sk s _).trans (ih _ _ _)
            · exact trySkipUpdated_sk s _

/-! ### the sketch predicate -/

/-- The sketch satisfies the abstract predicate `P` and is still the initial (empty) one as
long as it has not been enabled. -/
structure SkOK (P : Sketch → Prop) (s : SState) : Prop where
  sk : P s.sk
  skOff : s.skOn = false → s.sk = {}

theorem SkOK.same {P : Sketch → Prop} {s s' : SState} (h : SkOK P s) (hs : SkSame s s') :
    SkOK P s' :=
  ⟨by rw [hs.1]; exact h.sk, fun ho => by rw [hs.1]; exact h.skOff (by rw [← hs.2]; exact ho)⟩

theorem sketchIncrement_spec {P : Sketch → Prop} (L : SketchLaws P) {p : Params} (hq : NoQuirks p)
    {s : SState} (hsk : P s.sk) (h : UInt64) :
    ∃ sk', sketchIncrement p s h = { s with sk := sk' } ∧ P sk' ∧ (s.sk = {} → sk' = {}) := by
  have hd5 : p.q.d5 = false := by rw [hq]
  obtain ⟨sk', h1, h2⟩ := L.incr s.sk h hsk
  refine ⟨sk', by simp [sketchIncrement, hd5, h1], h2, ?_⟩
  intro h0
  rw [h0, L.incrDefault h] at h1
  cases h1; rfl

theorem sketchIncrement_inv {P : Sketch → Prop} (L : SketchLaws P) {p : Params} (hq : NoQuirks p)
    {s : SState} (h : Safe s) (hk : SkOK P s) (x : UInt64) :
    Safe (sketchIncrement p s x) ∧ SkOK P (sketchIncrement p s x) := by
  obtain ⟨sk', e, h1, h2⟩ := sketchIncrement_spec L hq hk.sk x
  rw [e]
  exact ⟨h.of_eq rfl rfl rfl (Nat.le_refl _) rfl rfl, h1, fun ho => h2 (hk.skOff ho)⟩

theorem enableSketch_skOK {P : Sketch → Prop} (L : SketchLaws P) {p : Params}
    (hsm : SmallSketch p) {s : SState} (hk : SkOK P s) (hen : shouldEnableSketch p s = true) :
    SkOK P (enableSketch p s) := by
  have hoff : s.skOn = false := by
    unfold shouldEnableSketch at hen
    cases h : s.skOn with
    | false => rfl
    | true => simp [h] at hen
  have hsk0 := hk.skOff hoff
  unfold enableSketch
  cases hc : p.cap with
  | none => exact hk
  | some maxCap =>
    refine ⟨?_, fun h => by simp at h⟩
    simp only
    rw [hsk0]
    apply L.ensure
    split
    · exact hsm.cap maxCap hc
    · exact hsm.capF _ _ _

/-! ### `apply_reads` and the maintenance run -/

theorem applyRead_inv {P : Sketch → Prop} (L : SketchLaws P) {p : Params} (hq : NoQuirks p)
    {s : SState} (h : Safe s) (hk : SkOK P s) (op : ROp) :
    Safe (applyRead p s op) ∧ SkOK P (applyRead p s op) := by
  have hd6 : p.q.d6 = false := by rw [hq]
  cases op with
  | miss hash => exact sketchIncrement_inv L hq h hk hash
  | hit hash ve ts =>
    unfold applyRead
    simp only [hd6, Bool.false_eq_true, if_false]
    obtain ⟨h1, k1⟩ := sketchIncrement_inv L hq h hk hash
    generalize sketchIncrement p s hash = s1 at h1 k1 ⊢
    have h2 : Safe (if (getInfo s1 ve.info).la < ts
        then withInfo s1 ve.info (fun i => { i with la := ts }) else s1) ∧
        SkOK P (if (getInfo s1 ve.info).la < ts
        then withInfo s1 ve.info (fun i => { i with la := ts }) else s1) := by
      split
      · exact ⟨h1.withInfo _ _ rfl rfl rfl, k1.same (skSame_withInfo _ _ _)⟩
      · exact ⟨h1, k1⟩
    generalize (if (getInfo s1 ve.info).la < ts
        then withInfo s1 ve.info (fun i => { i with la := ts }) else s1) = s2 at h2 ⊢
    split
    · exact ⟨(moveToBackAoE_safe h2.1 _).1, h2.2.same (moveToBackAoE_sk _ _)⟩
    · exact h2

theorem applyReads_inv {P : Sketch → Prop} (L : SketchLaws P) {p : Params} (hq : NoQuirks p)
    (n : Nat) : ∀ (s : SState), Safe s → SkOK P s →
      Safe (applyReads p n s) ∧ SkOK P (applyReads p n s) := by
  induction n with
  | zero => intro s h hk; exact ⟨h, hk⟩
  | succ n ih =>
    intro s h hk
    unfold applyReads
    split
    · exact ⟨h, hk⟩
    · rename_i op rest _
      have h0 : Safe { s with readQ := rest } := h.of_eq rfl rfl rfl (Nat.le_refl _) rfl rfl
      have k0 : SkOK P { s with readQ := rest } := ⟨hk.sk, hk.skOff⟩
      obtain ⟨h1, k1⟩ := applyRead_inv L hq h0 k0 op
      exact ih _ h1 k1

/-- What a maintenance run maintains. -/
structure RunInv (P : Sketch → Prop) (s : SState) : Prop where
  safe : Safe s
  map : MapOK s
  sk : SkOK P s

theorem syncLoop_inv {P : Sketch → Prop} (L : SketchLaws P) {p : Params} (hq : NoQuirks p)
    (hsm : SmallSketch p) (n : Nat) :
    ∀ (s : SState), RunInv P s → RunInv P (syncLoop p n s) := by
  induction n with
  | zero => intro s h; exact h
  | succ n ih =>
    intro s h
    unfold syncLoop
    dsimp only
    have h1 : RunInv P (if s.readQ.length > 0 then applyReads p s.readQ.length s else s) := by
      split
      · obtain ⟨a, b⟩ := applyReads_inv L hq s.readQ.length s h.safe h.sk
        exact ⟨a, h.map.frame (applyReads_frame hq _ _), b⟩
      · exact h
    generalize (if s.readQ.length > 0 then applyReads p s.readQ.length s else s) = s1 at h1 ⊢
    have h2 : RunInv P (if s1.writeQ.length > 0 then applyWrites p s1.writeQ.length s1 else s1) := by
      split
      · exact ⟨applyWrites_safe hq _ _ h1.safe h1.map, h1.map.frame0 (applyWrites_frame0 _ _ _),
          h1.sk.same (applyWrites_sk _ _ _)⟩
      · exact h1
    generalize (if s1.writeQ.length > 0 then applyWrites p s1.writeQ.length s1 else s1) = s2
      at h2 ⊢
    have h3 : RunInv P (if shouldEnableSketch p s2 = true then enableSketch p s2 else s2) := by
      split
      · rename_i hen
        exact ⟨enableSketch_safe p h2.safe, h2.map.frame0 (enableSketch_frame0 _ _),
          enableSketch_skOK L hsm h2.sk hen⟩
      · exact h2
    generalize (if shouldEnableSketch p s2 = true then enableSketch p s2 else s2) = s3 at h3 ⊢
    split
    · exact ih _ h3
    · exact h3

/-! ### between operations -/

/-- What holds between the operations of the public API, whether or not the state is
faulty. -/
structure TopCore (P : Sketch → Prop) (s : SState) : Prop where
  nodes : NodesInvTop s
  map : MapOK s
  sk : SkOK P s

/-- The invariant of fault-free states between operations. -/
structure TopInv (P : Sketch → Prop) (s : SState) : Prop extends TopCore P s where
  nofault : s.fault = none

theorem TopCore.of_eq {P : Sketch → Prop} {s s' : SState} (h : TopCore P s)
    (hi : s'.infos = s.infos) (hp : s'.prob = s.prob) (hw : s'.wo = s.wo)
    (hn : s'.nextId = s.nextId) (hc : s'.ec = s.ec) (hm : s'.map = s.map)
    (hsk : s'.sk = s.sk) (hon : s'.skOn = s.skOn) : TopCore P s' := by
  have hg : ∀ j, getInfo s' j = getInfo s j := getInfo_congr hi
  refine ⟨⟨h.nodes.toNodesCore.congr (fun j => by rw [hg]) (fun j => by rw [hg])
    (fun j => by rw [hg]) (by rw [hp]) (by rw [hw]) (by rw [hn]; exact Nat.le_refl _), ?_⟩,
    ⟨?_, ?_⟩, h.sk.same ⟨hsk, hon⟩⟩
  · rw [hc, hp]; exact h.nodes.count
  · rw [hm]; exact h.map.kn
  · rw [hm, hn]; exact h.map.bound

theorem TopInv.of_eq {P : Sketch → Prop} {s s' : SState} (h : TopInv P s)
    (hi : s'.infos = s.infos) (hp : s'.prob = s.prob) (hw : s'.wo = s.wo)
    (hn : s'.nextId = s.nextId) (hc : s'.ec = s.ec) (hm : s'.map = s.map)
    (hsk : s'.sk = s.sk) (hon : s'.skOn = s.skOn) (hf : s'.fault = s.fault) : TopInv P s' :=
  ⟨h.toTopCore.of_eq hi hp hw hn hc hm hsk hon, by rw [hf]; exact h.nofault⟩

theorem TopCore.fail {P : Sketch → Prop} {s : SState} (h : TopCore P s) (f : Fault) :
    TopCore P (s.fail f) := by
  unfold SState.fail
  split
  · exact h
  · exact h.of_eq rfl rfl rfl rfl rfl rfl rfl rfl

theorem syncRun_inv {P : Sketch → Prop} (L : SketchLaws P) {p : Params} (hq : NoQuirks p)
    (hsm : SmallSketch p) {s : SState} (h : TopInv P s) : TopInv P (syncRun p s) := by
  unfold syncRun
  dsimp only
  have h0 : RunInv P { s with cec := s.ec, cws := s.ws } :=
    ⟨⟨⟨h.nodes.toNodesCore.congr (fun _ => rfl) (fun _ => rfl) (fun _ => rfl) (List.Perm.refl _)
        (List.Perm.refl _) (Nat.le_refl _), h.nodes.count⟩, h.nofault⟩,
     ⟨h.map.kn, h.map.bound⟩, ⟨h.sk.sk, h.sk.skOff⟩⟩
  have h1 := syncLoop_inv L hq hsm (Gen.MAX_SYNC_REPEATS + 1) _ h0
  generalize syncLoop p (Gen.MAX_SYNC_REPEATS + 1) { s with cec := s.ec, cws := s.ws } = s1
    at h1 ⊢
  have h2 : RunInv P (if (p.hasExpiry || s1.va.isSome) = true then evictExpired p s1 else s1) := by
    split
    · exact ⟨evictExpired_safe p h1.safe, h1.map.frame0 (evictExpired_frame0 _ _),
        h1.sk.same (evictExpired_sk _ _)⟩
    · exact h1
  generalize (if (p.hasExpiry || s1.va.isSome) = true then evictExpired p s1 else s1) = s2
    at h2 ⊢
  have h3 : RunInv P (if weightsToEvict p s2 > 0
      then evictLruLoop p Gen.SYNC_EVICTION_BATCH_SIZE s2 (weightsToEvict p s2) 0 else s2) := by
    split
    · exact ⟨evictLruLoop_safe p _ _ _ _ h2.safe, h2.map.frame0 (evictLruLoop_frame0 _ _ _ _ _),
        h2.sk.same (evictLruLoop_sk _ _ _ _ _)⟩
    · exact h2
  generalize (if weightsToEvict p s2 > 0
      then evictLruLoop p Gen.SYNC_EVICTION_BATCH_SIZE s2 (weightsToEvict p s2) 0 else s2) = s3
    at h3 ⊢
  exact ⟨⟨⟨h3.safe.toNodesCore.congr (fun _ => rfl) (fun _ => rfl) (fun _ => rfl)
      (List.Perm.refl _) (List.Perm.refl _) (Nat.le_refl _), h3.safe.count⟩,
    ⟨h3.map.kn, h3.map.bound⟩, ⟨h3.sk.sk, h3.sk.skOff⟩⟩, h3.safe.nofault⟩

theorem trySync_inv {P : Sketch → Prop} (L : SketchLaws P) {p : Params} (hq : NoQuirks p)
    (hsm : SmallSketch p) {s : SState} (h : TopInv P s) : TopInv P (trySync p s) := by
  unfold trySync
  split
  · exact h
  · dsimp only
    have h0 : ∀ a, TopInv P { s with running := true, syncAfter := a } :=
      fun a => h.of_eq rfl rfl rfl rfl rfl rfl rfl rfl rfl
    exact (syncRun_inv L hq hsm (h0 _)).of_eq rfl rfl rfl rfl rfl rfl rfl rfl rfl

/-- `schedule_write_op` keeps the invariant; the only fault it can raise is `hang`. -/
theorem scheduleWriteOp_inv {P : Sketch → Prop} (L : SketchLaws P) {p : Params} (hq : NoQuirks p)
    (hsm : SmallSketch p) (n : Nat) : ∀ (s : SState) (op : WOp), TopInv P s →
      TopCore P (scheduleWriteOp p n s op) ∧
        ((scheduleWriteOp p n s op).fault = none ∨
          (scheduleWriteOp p n s op).fault = some .hang) := by
  induction n with
  | zero =>
    intro s op h
    refine ⟨h.toTopCore.fail _, Or.inr ?_⟩
    simp [scheduleWriteOp, SState.fail, h.nofault]
  | succ n ih =>
    intro s op h
    unfold scheduleWriteOp
    dsimp only
    have h1 : TopInv P (if shouldApply s s.writeQ.length Gen.WRITE_LOG_FLUSH_POINT = true
        then trySync p s else s) := by
      split
      · exact trySync_inv L hq hsm h
      · exact h
    generalize (if shouldApply s s.writeQ.length Gen.WRITE_LOG_FLUSH_POINT = true
        then trySync p s else s) = s1 at h1 ⊢
    split
    · have h2 : TopInv P { s1 with writeQ := s1.writeQ ++ [op] } :=
        h1.of_eq rfl rfl rfl rfl rfl rfl rfl rfl rfl
      exact ⟨h2.toTopCore, Or.inl h2.nofault⟩
    · exact ih _ _ h1

theorem recordReadOp_inv {P : Sketch → Prop} (L : SketchLaws P) {p : Params} (hq : NoQuirks p)
    (hsm : SmallSketch p) {s : SState} (h : TopInv P s) (op : ROp) :
    TopInv P (recordReadOp p s op) := by
  unfold recordReadOp
  dsimp only
  have h1 : TopInv P (if shouldApply s s.readQ.length Gen.READ_LOG_FLUSH_POINT = true
      then trySync p s else s) := by
    split
    · exact trySync_inv L hq hsm h
    · exact h
  generalize (if shouldApply s s.readQ.length Gen.READ_LOG_FLUSH_POINT = true
      then trySync p s else s) = s1 at h1 ⊢
  split
  · exact h1.of_eq rfl rfl rfl rfl rfl rfl rfl rfl rfl
  · exact h1

/-! ### the public API -/

theorem TopInv.withInfo {P : Sketch → Prop} {s : SState} (h : TopInv P s) (i : Nat)
    (f : Info → Info) (hao : (f (getInfo s i)).ao = (getInfo s i).ao)
    (hwo : (f (getInfo s i)).wo = (getInfo s i).wo)
    (had : (f (getInfo s i)).admitted = (getInfo s i).admitted) : TopInv P (withInfo s i f) := by
  refine ⟨⟨⟨h.nodes.toNodesCore.congr ?_ ?_ ?_ (List.Perm.refl _) (List.Perm.refl _)
    (Nat.le_refl _), h.nodes.count⟩, ⟨h.map.kn, h.map.bound⟩, ⟨h.sk.sk, h.sk.skOff⟩⟩, h.nofault⟩ <;>
    intro j <;> rw [getInfo_withInfo] <;> by_cases e : i = j
  · subst e; simp [hao]
  · simp [e]
  · subst e; simp [hwo]
  · simp [e]
  · subst e; simp [had]
  · simp [e]

theorem mapOK_put {s : SState} (h : MapOK s) (k : Nat) (ve : VE) (n : Nat)
    (hve : ve.info < n) (hn : s.nextId ≤ n) (m : List (Nat × VE)) (hm : m = AL.put s.map k ve)
    {s' : SState} (hs'm : s'.map = m) (hs'n : s'.nextId = n) : MapOK s' := by
  refine ⟨?_, ?_⟩
  · rw [hs'm, hm]; exact AL.nodup_put k ve h.kn
  · intro k' ve' hk
    rw [hs'm, hm, AL.get?_put] at hk
    rw [hs'n]
    by_cases e : k = k'
    · rw [if_pos e] at hk; cases hk; exact hve
    · rw [if_neg e] at hk; exact Nat.lt_of_lt_of_le (h.bound k' ve' hk) hn

theorem insert_inv {P : Sketch → Prop} (L : SketchLaws P) {p : Params} (hq : NoQuirks p)
    (hsm : SmallSketch p) {s : SState} (h : TopInv P s) (k v : Nat) :
    TopCore P (insert p s k v) ∧
      ((insert p s k v).fault = none ∨ (insert p s k v).fault = some .hang) := by
  unfold insert
  dsimp only
  split
  · rename_i old hg
    have hold := h.map.bound k old hg
    have h1 : TopInv P (refreshInfo p s old.info s.now (p.weigh k v)) :=
      h.withInfo _ _ rfl rfl rfl
    have hm1 : (refreshInfo p s old.info s.now (p.weigh k v)).map = s.map := rfl
    have hn1 : (refreshInfo p s old.info s.now (p.weigh k v)).nextId = s.nextId := rfl
    generalize refreshInfo p s old.info s.now (p.weigh k v) = s1 at h1 hm1 hn1 ⊢
    apply scheduleWriteOp_inv L hq hsm
    refine ⟨⟨⟨h1.nodes.toNodesCore.congr (fun _ => rfl) (fun _ => rfl) (fun _ => rfl)
      (List.Perm.refl _) (List.Perm.refl _) (Nat.le_succ _), h1.nodes.count⟩, ?_,
      ⟨h1.sk.sk, h1.sk.skOff⟩⟩, h1.nofault⟩
    exact mapOK_put h1.map k _ (s1.nextId + 1) (by simp only; rw [hn1]; omega) (Nat.le_succ _) _
      rfl rfl rfl
  · rename_i hg
    apply scheduleWriteOp_inv L hq hsm
    have hna := h.nodes.infoFresh s.nextId (Nat.le_refl _)
    have hao := h.nodes.toNodesCore.notAdm_ao hna
    have hwo := h.nodes.toNodesCore.notAdm_wo hna
    refine ⟨⟨⟨h.nodes.toNodesCore.congr ?_ ?_ ?_ (List.Perm.refl _) (List.Perm.refl _)
      (Nat.le_add_right _ 2), h.nodes.count⟩, ?_, ⟨h.sk.sk, h.sk.skOff⟩⟩, h.nofault⟩
    · intro j
      simp only [getInfo, AL.get?_put]
      by_cases e : s.nextId = j
      · subst e; simp only [if_true, Option.getD_some]; exact hao.symm
      · simp only [e, if_false]
    · intro j
      simp only [getInfo, AL.get?_put]
      by_cases e : s.nextId = j
      · subst e; simp only [if_true, Option.getD_some]; exact hwo.symm
      · simp only [e, if_false]
    · intro j
      simp only [getInfo, AL.get?_put]
      by_cases e : s.nextId = j
      · subst e; simp only [if_true, Option.getD_some]; exact hna.symm
      · simp only [e, if_false]
    · exact mapOK_put h.map k _ (s.nextId + 2) (by simp only; omega) (Nat.le_add_right _ 2) _
        rfl rfl rfl

theorem get_inv {P : Sketch → Prop} (L : SketchLaws P) {p : Params} (hq : NoQuirks p)
    (hsm : SmallSketch p) {s : SState} (h : TopInv P s) (k : Nat) : TopInv P (get p s k).1 := by
  unfold get
  dsimp only
  split
  · exact recordReadOp_inv L hq hsm h _
  · split
    · exact recordReadOp_inv L hq hsm h _
    · exact recordReadOp_inv L hq hsm h _

theorem invalidate_inv {P : Sketch → Prop} (L : SketchLaws P) {p : Params} (hq : NoQuirks p)
    (hsm : SmallSketch p) {s : SState} (h : TopInv P s) (k : Nat) :
    TopCore P (invalidate p s k) ∧
      ((invalidate p s k).fault = none ∨ (invalidate p s k).fault = some .hang) := by
  unfold invalidate
  split
  · exact ⟨h.toTopCore, Or.inl h.nofault⟩
  · dsimp only
    apply scheduleWriteOp_inv L hq hsm
    exact ⟨⟨⟨h.nodes.toNodesCore.congr (fun _ => rfl) (fun _ => rfl) (fun _ => rfl)
      (List.Perm.refl _) (List.Perm.refl _) (Nat.le_refl _), h.nodes.count⟩,
      h.map.frame0 (frame0_erase s k), ⟨h.sk.sk, h.sk.skOff⟩⟩, h.nofault⟩

/-! ### steps and traces -/

/-- An observation that is not an internal panic, except possibly `hang` (the retry loop of
`schedule_write_op`, treated in `Lemmas/SyncQueues.lean`). -/
def okObs : Obs → Bool
  | .panic .hang => true
  | .panic _ => false
  | _ => true

/-- No observation of the trace is `useAfterFree`, `overflow`, `expect`, `unreachable` or
`notMember` (or a builder panic). -/
def noPanicButHang (t : List (Op × Obs)) : Bool := t.all fun x => okObs x.2

theorem init_inv {P : Sketch → Prop} (L : SketchLaws P) : TopInv P {} := by
  have hg : ∀ i, getInfo {} i = {} := fun _ => rfl
  refine ⟨⟨⟨⟨?_, ?_, ?_, ?_, ?_, ?_, ?_, ?_, ?_, ?_, ?_⟩, rfl⟩, ⟨?_, ?_⟩, ⟨L.init, fun _ => rfl⟩⟩, rfl⟩
  · exact List.nodup_nil
  · exact List.nodup_nil
  · intro n hn; cases hn
  · intro n hn; cases hn
  · intro n hn; cases hn
  · intro i id hx; rw [hg] at hx; cases hx
  · intro i; rw [hg]; simp
  · intro n hn; cases hn
  · intro i id hx; rw [hg] at hx; cases hx
  · intro i; rw [hg]; simp
  · intro i _; rw [hg]
  · exact List.nodup_nil
  · intro k ve hk; cases hk

theorem step_tail {P : Sketch → Prop} (r : SState × Obs) (hc : TopCore P r.1)
    (hf : r.1.fault = none ∨ r.1.fault = some .hang) (ho : okObs r.2 = true) :
    TopCore P (match r.1.fault with | some f => (r.1, Obs.panic f) | none => r).1 ∧
      ((match r.1.fault with | some f => (r.1, Obs.panic f) | none => r).1.fault = none ∨
       (match r.1.fault with | some f => (r.1, Obs.panic f) | none => r).1.fault = some .hang) ∧
      okObs (match r.1.fault with | some f => (r.1, Obs.panic f) | none => r).2 = true := by
  rcases hf with hf | hf
  · rw [hf]; exact ⟨hc, Or.inl hf, ho⟩
  · rw [hf]; exact ⟨hc, Or.inr hf, rfl⟩

theorem step_inv {P : Sketch → Prop} (L : SketchLaws P) {p : Params} (hq : NoQuirks p)
    (hsm : SmallSketch p) {s : SState} (h : TopInv P s) (op : Op) :
    TopCore P (step p s op).1 ∧
      ((step p s op).1.fault = none ∨ (step p s op).1.fault = some .hang) ∧
      okObs (step p s op).2 = true := by
  have hnf : ¬ s.fault.isSome = true := by rw [h.nofault]; simp
  unfold step
  rw [if_neg hnf]
  cases op with
  | ins k v =>
    have := insert_inv L hq hsm h k v
    exact step_tail (insert p s k v, .ok) this.1 this.2 rfl
  | get k =>
    have := get_inv L hq hsm h k
    exact step_tail ((get p s k).1, .val (get p s k).2) this.toTopCore (Or.inl this.nofault) rfl
  | has k => exact step_tail (s, _) h.toTopCore (Or.inl h.nofault) rfl
  | iter => exact step_tail (s, _) h.toTopCore (Or.inl h.nofault) rfl
  | inv k =>
    have := invalidate_inv L hq hsm h k
    exact step_tail (invalidate p s k, .ok) this.1 this.2 rfl
  | invAll =>
    have : TopInv P (invalidateAll s) := h.of_eq rfl rfl rfl rfl rfl rfl rfl rfl rfl
    exact step_tail (invalidateAll s, .ok) this.toTopCore (Or.inl this.nofault) rfl
  | invIf _ => exact step_tail (s, _) h.toTopCore (Or.inl h.nofault) rfl
  | sync =>
    have := syncRun_inv L hq hsm h
    exact step_tail (syncRun p s, .ok) this.toTopCore (Or.inl this.nofault) rfl
  | adv d =>
    have : TopInv P { s with now := s.now + d } := h.of_eq rfl rfl rfl rfl rfl rfl rfl rfl rfl
    exact step_tail (_, .ok) this.toTopCore (Or.inl this.nofault) rfl
  | snap => exact step_tail (s, _) h.toTopCore (Or.inl h.nofault) rfl
  | freq k => exact step_tail (s, _) h.toTopCore (Or.inl h.nofault) rfl

theorem step_faulty {p : Params} {s : SState} (hf : s.fault.isSome = true) (op : Op) :
    step p s op = (s, .badOp) := by
  unfold step; rw [if_pos hf]

theorem run_all {P : Sketch → Prop} (L : SketchLaws P) {p : Params} (hq : NoQuirks p)
    (hsm : SmallSketch p) : ∀ (h : List Op) (s : SState),
      (TopInv P s ∨ s.fault.isSome = true) → noPanicButHang (run p s h) = true := by
  intro h
  induction h with
  | nil => intro s _; rfl
  | cons op rest ih =>
    intro s hs
    simp only [noPanicButHang, run, List.all_cons, Bool.and_eq_true]
    rcases hs with hs | hs
    · obtain ⟨h1, h2, h3⟩ := step_inv L hq hsm hs op
      refine ⟨h3, ih _ ?_⟩
      rcases h2 with h2 | h2
      · exact Or.inl ⟨h1, h2⟩
      · exact Or.inr (by rw [h2]; rfl)
    · rw [step_faulty hs]
      exact ⟨rfl, ih _ (Or.inr hs)⟩

/-- The state after a history. -/
def finalState (p : Params) : SState → List Op → SState
  | s, [] => s
  | s, op :: rest => finalState p (step p s op).1 rest

theorem finalState_core {P : Sketch → Prop} (L : SketchLaws P) {p : Params} (hq : NoQuirks p)
    (hsm : SmallSketch p) : ∀ (h : List Op) (s : SState), TopCore P s →
      (s.fault = none ∨ s.fault = some .hang) →
      TopCore P (finalState p s h) ∧
        ((finalState p s h).fault = none ∨ (finalState p s h).fault = some .hang) := by
  intro h
  induction h with
  | nil => intro s hc hf; exact ⟨hc, hf⟩
  | cons op rest ih =>
    intro s hc hf
    rw [finalState]
    rcases hf with hf | hf
    · obtain ⟨h1, h2, _⟩ := step_inv L hq hsm ⟨hc, hf⟩ op
      exact ih _ h1 h2
    · rw [step_faulty (by rw [hf]; rfl)]
      exact ih _ hc (Or.inr hf)

/-! ### corollaries in the vocabulary of the model -/

/-- An info that points at an access-order node points at a live one: `findAo` succeeds,
so `move_to_back_ao` / `unlink_ao` do not dereference a freed node. -/
theorem NodesCore.aoFind {s : SState} (h : NodesCore s) {i id : Nat}
    (hx : (getInfo s i).ao = some id) : ∃ n, findAo s.prob id = some n ∧ n.info = i := by
  obtain ⟨n, hn, e1, e2⟩ := h.aoNode i id hx
  exact ⟨n, by rw [← e1]; exact findAo_of_mem h.probIds hn, e2⟩

theorem NodesCore.woFind {s : SState} (h : NodesCore s) {i id : Nat}
    (hx : (getInfo s i).wo = some id) : ∃ n, findWo s.wo id = some n ∧ n.info = i := by
  obtain ⟨n, hn, e1, e2⟩ := h.woNode i id hx
  exact ⟨n, by rw [← e1]; exact findWo_of_mem h.woIds hn, e2⟩

theorem unlinkAo_nofault {s : SState} (h : Safe s) (i : Nat) : (unlinkAo s i).fault = none := by
  cases hx : (getInfo s i).ao with
  | none => simp only [unlinkAo, hx]; exact h.nofault
  | some id =>
    obtain ⟨n, hf, _⟩ := h.toNodesCore.aoFind hx
    rw [unlinkAo_eq hx hf]; exact h.nofault

theorem unlinkWo_nofault {s : SState} (h : Safe s) (i : Nat) : (unlinkWo s i).fault = none := by
  cases hx : (getInfo s i).wo with
  | none => rw [unlinkWo_none hx]; exact h.nofault
  | some id =>
    obtain ⟨n, hf, _⟩ := h.toNodesCore.woFind hx
    rw [unlinkWo_eq hx hf]; exact h.nofault

theorem refreshInfo_inv {P : Sketch → Prop} {p : Params} {s : SState} (h : TopInv P s)
    (i ts w : Nat) : TopInv P (refreshInfo p s i ts w) :=
  h.withInfo _ _ rfl rfl rfl

end Nodes
end Sync
end MiniMoka
