/-
  Memory safety of the sequential sync model (`MiniMoka/Sync.lean`): the ownership
  invariant between entry infos and list nodes, and its preservation by every function
  of the model.  Faults `useAfterFree` (dereference of a freed node) and `overflow`
  (`entry_count -= 1` of the maintenance run's local counters) are unreachable for the
  current code (`NoQuirks p`).
-/
import MiniMoka.Sync
import MiniMoka.Lemmas.AL
import MiniMoka.Lemmas.SyncFrame
import MiniMoka.Lemmas.UnsyncOps

namespace MiniMoka
namespace Sync

/-! ### node lists -/

theorem findAo_some {l : List AoNode} {id : Nat} {n : AoNode} (h : findAo l id = some n) :
    n ∈ l ∧ n.id = id := by
  induction l with
  | nil => simp [findAo] at h
  | cons a l ih =>
    simp only [findAo] at h
    by_cases ha : a.id = id
    · simp [ha] at h; subst h; exact ⟨List.mem_cons_self, ha⟩
    · simp [ha] at h; exact ⟨List.mem_cons_of_mem _ (ih h).1, (ih h).2⟩

theorem findAo_of_mem {l : List AoNode} {n : AoNode} (hn : (l.map (·.id)).Nodup) (h : n ∈ l) :
    findAo l n.id = some n := by
  induction l with
  | nil => simp at h
  | cons a l ih =>
    simp only [List.map_cons, List.nodup_cons] at hn
    simp only [findAo]
    rcases List.mem_cons.mp h with h | h
    · subst h; simp
    · have : a.id ≠ n.id := fun e => hn.1 (e ▸ List.mem_map.mpr ⟨n, h, rfl⟩)
      simp [this, ih hn.2 h]

theorem perm_cons_eraseAo {l : List AoNode} {id : Nat} {n : AoNode} (h : findAo l id = some n) :
    l.Perm (n :: eraseAo l id) := by
  induction l with
  | nil => simp [findAo] at h
  | cons a l ih =>
    simp only [findAo] at h
    simp only [eraseAo]
    by_cases ha : a.id = id
    · simp [ha] at h; subst h; simp [ha]
    · simp [ha] at h
      simp only [ha, if_false]
      exact ((ih h).cons a).trans (List.Perm.swap n a _)

theorem perm_moveToBackAo {l : List AoNode} {id : Nat} {n : AoNode} (h : findAo l id = some n) :
    (eraseAo l id ++ [n]).Perm l :=
  (List.perm_append_comm).trans (perm_cons_eraseAo h).symm

theorem nodup_eraseAo {l : List AoNode} {id : Nat} {n : AoNode} (h : findAo l id = some n)
    (hn : (l.map (·.id)).Nodup) : ((eraseAo l id).map (·.id)).Nodup := by
  have := ((perm_cons_eraseAo h).map (·.id)).nodup_iff.mp hn
  simp only [List.map_cons, List.nodup_cons] at this
  exact this.2

theorem mem_eraseAo_iff {l : List AoNode} {id : Nat} {n : AoNode} (h : findAo l id = some n)
    (hn : (l.map (·.id)).Nodup) (m : AoNode) : m ∈ eraseAo l id ↔ m ∈ l ∧ m.id ≠ id := by
  have hp := perm_cons_eraseAo h
  have hnd := ((hp.map (·.id))).nodup_iff.mp hn
  simp only [List.map_cons, List.nodup_cons] at hnd
  have hid := (findAo_some h).2
  constructor
  · intro hm
    refine ⟨hp.mem_iff.mpr (List.mem_cons_of_mem _ hm), fun e => hnd.1 ?_⟩
    have hnm : n.id = m.id := hid.trans e.symm
    rw [hnm]; exact List.mem_map.mpr ⟨m, hm, rfl⟩
  · rintro ⟨hm, hne⟩
    rcases List.mem_cons.mp (hp.mem_iff.mp hm) with e | hm'
    · subst e; exact absurd hid hne
    · exact hm'

theorem length_eraseAo {l : List AoNode} {id : Nat} {n : AoNode} (h : findAo l id = some n) :
    (eraseAo l id).length + 1 = l.length := by
  have := (perm_cons_eraseAo h).length_eq
  simp at this; omega

theorem findWo_some {l : List WoNode} {id : Nat} {n : WoNode} (h : findWo l id = some n) :
    n ∈ l ∧ n.id = id := by
  induction l with
  | nil => simp [findWo] at h
  | cons a l ih =>
    simp only [findWo] at h
    by_cases ha : a.id = id
    · simp [ha] at h; subst h; exact ⟨List.mem_cons_self, ha⟩
    · simp [ha] at h; exact ⟨List.mem_cons_of_mem _ (ih h).1, (ih h).2⟩

theorem findWo_of_mem {l : List WoNode} {n : WoNode} (hn : (l.map (·.id)).Nodup) (h : n ∈ l) :
    findWo l n.id = some n := by
  induction l with
  | nil => simp at h
  | cons a l ih =>
    simp only [List.map_cons, List.nodup_cons] at hn
    simp only [findWo]
    rcases List.mem_cons.mp h with h | h
    · subst h; simp
    · have : a.id ≠ n.id := fun e => hn.1 (e ▸ List.mem_map.mpr ⟨n, h, rfl⟩)
      simp [this, ih hn.2 h]

theorem perm_cons_eraseWo {l : List WoNode} {id : Nat} {n : WoNode} (h : findWo l id = some n) :
    l.Perm (n :: eraseWo l id) := by
  induction l with
  | nil => simp [findWo] at h
  | cons a l ih =>
    simp only [findWo] at h
    simp only [eraseWo]
    by_cases ha : a.id = id
    · simp [ha] at h; subst h; simp [ha]
    · simp [ha] at h
      simp only [ha, if_false]
      exact ((ih h).cons a).trans (List.Perm.swap n a _)

theorem perm_moveToBackWo {l : List WoNode} {id : Nat} {n : WoNode} (h : findWo l id = some n) :
    (eraseWo l id ++ [n]).Perm l :=
  (List.perm_append_comm).trans (perm_cons_eraseWo h).symm

theorem nodup_eraseWo {l : List WoNode} {id : Nat} {n : WoNode} (h : findWo l id = some n)
    (hn : (l.map (·.id)).Nodup) : ((eraseWo l id).map (·.id)).Nodup := by
  have := ((perm_cons_eraseWo h).map (·.id)).nodup_iff.mp hn
  simp only [List.map_cons, List.nodup_cons] at this
  exact this.2

theorem mem_eraseWo_iff {l : List WoNode} {id : Nat} {n : WoNode} (h : findWo l id = some n)
    (hn : (l.map (·.id)).Nodup) (m : WoNode) : m ∈ eraseWo l id ↔ m ∈ l ∧ m.id ≠ id := by
  have hp := perm_cons_eraseWo h
  have hnd := ((hp.map (·.id))).nodup_iff.mp hn
  simp only [List.map_cons, List.nodup_cons] at hnd
  have hid := (findWo_some h).2
  constructor
  · intro hm
    refine ⟨hp.mem_iff.mpr (List.mem_cons_of_mem _ hm), fun e => hnd.1 ?_⟩
    have hnm : n.id = m.id := hid.trans e.symm
    rw [hnm]; exact List.mem_map.mpr ⟨m, hm, rfl⟩
  · rintro ⟨hm, hne⟩
    rcases List.mem_cons.mp (hp.mem_iff.mp hm) with e | hm'
    · subst e; exact absurd hid hne
    · exact hm'

end Sync
end MiniMoka
